(** Proofs about Model/Candle.v, part 1: window arithmetic, the candle map, the per-Accum cache, the
    partition of the input rows into windows, and the sorted output. *)
From Coq Require Import ZArith Bool Lia String List Permutation.
Import ListNotations.
Require Import MS.Base.GoInt MS.Base.Res MS.Base.F32 MS.Base.F64 MS.Model.Uda MS.Model.Candle MS.Generated.Src_agg.
Local Open Scope Z_scope.

(** ------------------------------------------------------------------ window arithmetic *)
(** truncation to a grid of step d whose origin is shifted by o:  Time.Truncate is [trunc_o abs_epoch_ns],
    local midnight at UTC offset off is [trunc_o off agg_Day] *)
Definition trunc_o (o d t : Z) : Z := t - (t + o) mod d.

Lemma trunc_o_eq o d t : d <> 0 -> trunc_o o d t = d * ((t + o) / d) - o.
Proof. intros H. unfold trunc_o. pose proof (Z_div_mod_eq_full (t + o) d). lia. Qed.

Lemma trunc_o_idem o d t : 0 < d -> trunc_o o d (trunc_o o d t) = trunc_o o d t.
Proof.
  intros H. rewrite (trunc_o_eq o d t) by lia. unfold trunc_o at 1.
  replace (d * ((t + o) / d) - o + o) with ((t + o) / d * d) by lia. rewrite Z_mod_mult. lia.
Qed.

Lemma trunc_o_le o d t : 0 < d -> trunc_o o d t <= t.
Proof. intros H. unfold trunc_o. pose proof (Z.mod_pos_bound (t + o) d H). lia. Qed.

Lemma trunc_o_mono o d t t' : 0 < d -> t <= t' -> trunc_o o d t <= trunc_o o d t'.
Proof.
  intros H L. rewrite !trunc_o_eq by lia. assert ((t + o) / d <= (t' + o) / d) by (apply Z.div_le_mono; lia). nia.
Qed.

(** nesting: a grid of step k*d contains... every point of it lies on the finer grid of step d when the two
    origins differ by a multiple of d *)
Lemma trunc_o_nest o1 o2 d k c t : 0 < d -> 0 < k -> o2 - o1 = c * d ->
  trunc_o o2 (k * d) (trunc_o o1 d t) = trunc_o o2 (k * d) t.
Proof.
  intros H K E. assert (0 < k * d) by nia.
  rewrite (trunc_o_eq o1 d t) by lia. rewrite !(trunc_o_eq o2 (k * d)) by lia. f_equal. f_equal.
  replace (d * ((t + o1) / d) - o1 + o2) with (d * ((t + o1) / d + c)) by lia.
  replace (t + o2) with (t + o1 + c * d) by lia.
  rewrite (Z.mul_comm k d), Z.div_mul_cancel_l by lia.
  rewrite <- Z.div_div by lia. rewrite Z.div_add by lia. reflexivity.
Qed.

Lemma trunc_o_whole o d q r t : 0 < d -> d = q * NS -> o = r * NS -> (trunc_o o d t / NS) * NS = trunc_o o d t.
Proof.
  intros H E1 E2. rewrite (trunc_o_eq o d t) by lia.
  replace (d * ((t + o) / d) - o) with ((q * ((t + o) / d) - r) * NS) by (rewrite E1, E2; ring).
  rewrite Z_div_mult by reflexivity. reflexivity.
Qed.

Lemma time_truncate_o t d : 0 < d -> time_truncate t d = trunc_o abs_epoch_ns d t.
Proof. intros H. unfold time_truncate, trunc_o. destruct (Z.leb_spec d 0); [lia | reflexivity]. Qed.

Lemma time_truncate_idem t d : time_truncate (time_truncate t d) d = time_truncate t d.
Proof.
  destruct (Z_lt_le_dec 0 d) as [H|H]; [rewrite !time_truncate_o by exact H; apply trunc_o_idem, H|].
  unfold time_truncate. destruct (Z.leb_spec d 0); [reflexivity | lia].
Qed.

Lemma day_pos : 0 < agg_Day.
Proof. reflexivity. Qed.

Lemma day_start_o off t : day_start off t = trunc_o off agg_Day t.
Proof. reflexivity. Qed.

(** what the theorems need of a candle duration: window starts are fixed points of Truncate *)
Definition idem (cd : cdur) : Prop := forall t, truncate cd (truncate cd t) = truncate cd t.

Lemma idem_zone off mult suffix : idem (cd_of_zone off mult suffix).
Proof.
  intros t. unfold truncate, cd_of_zone. cbn [cd_day cd_ds cd_dur]. destruct (String.eqb suffix "D").
  - rewrite !day_start_o. apply trunc_o_idem, day_pos.
  - apply time_truncate_idem.
Qed.

Lemma truncate_idem cd t : idem cd -> truncate cd (truncate cd t) = truncate cd t.
Proof. intros H. apply H. Qed.

(** C31's [IsWithin t (Truncate t)] for the suffixes in scope *)
Lemma is_within_truncate cd t : idem cd -> is_within cd t (truncate cd t) = true.
Proof.
  intros H. specialize (H t). unfold is_within, truncate in *. destruct (cd_day cd).
  - rewrite H. apply Z.eqb_refl.
  - apply Z.eqb_refl.
Qed.

(** a window is as long as the timeframe's duration: every instant of [start, start + d) truncates to start *)
Lemma trunc_o_same o d t u : 0 < d -> trunc_o o d t <= u < trunc_o o d t + d -> trunc_o o d u = trunc_o o d t.
Proof.
  intros H [L U]. rewrite (trunc_o_eq o d t) in * by lia. rewrite (trunc_o_eq o d u) by lia.
  f_equal. f_equal. symmetry. apply (Zdiv_unique (u + o) d ((t + o) / d) (u + o - d * ((t + o) / d))); lia.
Qed.

Definition window_len_ok (cd : cdur) : Prop :=
  forall t u, truncate cd t <= u < truncate cd t + cd_dur cd -> truncate cd u = truncate cd t.

(** holds for Sec/Min/H with a positive duration and for "1D" (in any fixed-offset zone) *)
Lemma window_len_zone off mult suffix :
  0 < cd_dur (cd_of_zone off mult suffix) ->
  (String.eqb suffix "D" = true -> cd_dur (cd_of_zone off mult suffix) = agg_Day) ->
  window_len_ok (cd_of_zone off mult suffix).
Proof.
  intros P HD t u. unfold truncate. cbn [cd_of_zone cd_day cd_ds]. destruct (String.eqb suffix "D") eqn:E.
  - rewrite (HD eq_refl). rewrite !day_start_o. apply trunc_o_same, day_pos.
  - rewrite !time_truncate_o by exact P. apply trunc_o_same, P.
Qed.

(** ------------------------------------------------------------------ the candle map *)
Lemma lookup_upd_same k f d m :
  lookup k (upd k f d m) = Some (f (match lookup k m with Some c => c | None => d end)).
Proof.
  induction m as [|[k' c] r IH]; cbn [upd lookup].
  - rewrite Z.eqb_refl. reflexivity.
  - destruct (Z.eqb_spec k' k) as [E|E]; cbn [lookup].
    + subst. rewrite Z.eqb_refl. reflexivity.
    + destruct (Z.eqb_spec k' k); [contradiction|]. exact IH.
Qed.

Lemma lookup_upd_other k k' f d m : k' <> k -> lookup k' (upd k f d m) = lookup k' m.
Proof.
  intros N. induction m as [|[k0 c] r IH]; cbn [upd lookup].
  - destruct (Z.eqb_spec k k'); [congruence | reflexivity].
  - destruct (Z.eqb_spec k0 k) as [E|E]; cbn [lookup].
    + subst k0. destruct (Z.eqb_spec k k'); [congruence | reflexivity].
    + destruct (Z.eqb_spec k0 k'); [reflexivity | exact IH].
Qed.

Lemma lookup_in_keys k m : lookup k m <> None <-> In k (map fst m).
Proof.
  induction m as [|[k' c] r IH]; cbn [lookup map fst In].
  - split; [congruence | intros []].
  - destruct (Z.eqb_spec k' k) as [E|E].
    + split; [auto | discriminate].
    + rewrite IH. split; [auto | intros [H|H]; [contradiction | exact H]].
Qed.

Lemma upd_keys k f d m :
  map fst (upd k f d m) = if existsb (Z.eqb k) (map fst m) then map fst m else map fst m ++ [k].
Proof.
  induction m as [|[k' c] r IH]; cbn [upd map fst existsb app]; [reflexivity|].
  rewrite (Z.eqb_sym k k'). destruct (Z.eqb_spec k' k) as [E|E]; cbn [map fst orb]; [reflexivity|].
  rewrite IH. destruct (existsb (Z.eqb k) (map fst r)); reflexivity.
Qed.

Lemma existsb_eqb_in k l : existsb (Z.eqb k) l = true <-> In k l.
Proof.
  rewrite existsb_exists. split.
  - intros (x & Hx & E). apply Z.eqb_eq in E. subst. exact Hx.
  - intros H. exists k. split; [exact H | apply Z.eqb_refl].
Qed.

Lemma NoDup_app_snoc (k : Z) l : NoDup l -> ~ In k l -> NoDup (l ++ [k]).
Proof.
  induction l as [|a l IH]; intros N H; cbn [app]; [constructor; [intros []| constructor]|].
  inversion N as [|? ? Ha N']; subst. constructor.
  - intro I. apply in_app_or in I. destruct I as [I|[E|[]]]; [contradiction | subst; apply H; left; reflexivity].
  - apply IH; [exact N' | intro I; apply H; right; exact I].
Qed.

Lemma upd_nodup k f d m : NoDup (map fst m) -> NoDup (map fst (upd k f d m)).
Proof.
  intros N. rewrite upd_keys. destruct (existsb (Z.eqb k) (map fst m)) eqn:E; [exact N|].
  assert (~ In k (map fst m)) by (intro H; apply existsb_eqb_in in H; congruence).
  apply NoDup_app_snoc; assumption.
Qed.

Lemma lookup_in k c m : NoDup (map fst m) -> (lookup k m = Some c <-> In (k, c) m).
Proof.
  induction m as [|[k' c'] r IH]; intros N; cbn [lookup In].
  - split; [discriminate | intros []].
  - inversion N as [|? ? Hn N']; subst. destruct (Z.eqb_spec k' k) as [E|E].
    + subst k'. split.
      * intros H. inversion H. left. reflexivity.
      * intros [H|H]; [inversion H; reflexivity|].
        exfalso. apply Hn. apply (in_map fst) in H. exact H.
    + rewrite (IH N'). split; [auto | intros [H|H]; [inversion H; contradiction | exact H]].
Qed.

(** ------------------------------------------------------------------ the per-Accum candle cache *)
(** entries are keyed by their own start, and keys are window starts *)
Definition wf_map (cd : cdur) (m : cmap) : Prop :=
  forall k c, lookup k m = Some c -> c_start c = k /\ truncate cd k = k.

Lemma set_ohlc_start c o h l cl ot ct : c_start (set_ohlc c o h l cl ot ct) = c_start c.
Proof. reflexivity. Qed.

Lemma add_candle_start cd c r : c_start (add_candle cd c r) = c_start c.
Proof.
  unfold add_candle. destruct (negb (is_within cd (b_t r) (c_start c))); [reflexivity|].
  repeat match goal with |- context [if ?b then _ else _] => destruct b end; reflexivity.
Qed.

Lemma add_bar_start cd c r : c_start (add_bar cd c r) = c_start c.
Proof. unfold add_bar. cbn [c_start]. apply add_candle_start. Qed.

(** the row step without the cache *)
Definition row_step' (cd : cdur) (nacc : nat) (m : cmap) (r : bar) : cmap :=
  let k := truncate cd (b_t r) in upd k (fun c => add_bar cd c r) (new_candle cd nacc k) m.

Lemma get_key_truncate cd m cache t : wf_map cd m -> get_key cd m cache t = truncate cd t.
Proof.
  intros W. unfold get_key. destruct cache as [kc|]; [|reflexivity].
  destruct (lookup kc m) as [c|] eqn:L; [|reflexivity].
  destruct (W kc c L) as [S _]. rewrite S. destruct (Z.eqb_spec kc (truncate cd t)); [assumption | reflexivity].
Qed.

Lemma wf_row_step' cd nacc m r : idem cd -> wf_map cd m -> wf_map cd (row_step' cd nacc m r).
Proof.
  intros Hid W k c. unfold row_step'. set (k0 := truncate cd (b_t r)).
  destruct (Z.eq_dec k k0) as [E|E].
  - subst k. rewrite lookup_upd_same. intros H. inversion H; subst c. rewrite add_bar_start. split.
    + destruct (lookup k0 m) as [c0|] eqn:L; [apply (W k0 c0 L)|].
      cbn [new_candle c_start]. unfold k0. apply truncate_idem, Hid.
    + unfold k0. apply truncate_idem, Hid.
  - rewrite lookup_upd_other by exact E. apply W.
Qed.

Lemma accum_rows_nocache cd nacc rows : idem cd -> forall m cache, wf_map cd m ->
  fst (fold_left (row_step cd nacc) rows (m, cache)) = fold_left (row_step' cd nacc) rows m.
Proof.
  intros Hid. induction rows as [|r rows IH]; intros m cache W; cbn [fold_left]; [reflexivity|].
  unfold row_step at 2. rewrite (get_key_truncate cd m cache (b_t r) W).
  rewrite IH by (apply (wf_row_step' cd nacc m r Hid W)). reflexivity.
Qed.

Lemma wf_fold cd nacc rows : idem cd -> forall m, wf_map cd m -> wf_map cd (fold_left (row_step' cd nacc) rows m).
Proof. intros Hid. induction rows as [|r rows IH]; intros m W; cbn [fold_left]; [exact W | apply IH, wf_row_step'; assumption]. Qed.

Lemma wf_nil cd : wf_map cd [].
Proof. intros k c H. discriminate H. Qed.

(** several Accum calls on one candler = one call on the concatenated rows *)
Lemma accum_rows_concat cd nacc rowss : idem cd -> forall m, wf_map cd m ->
  fold_left (accum_rows cd nacc) rowss m = fold_left (row_step' cd nacc) (concat rowss) m
  /\ wf_map cd (fold_left (accum_rows cd nacc) rowss m).
Proof.
  intros Hid. induction rowss as [|rows rest IH]; intros m W; cbn [fold_left concat]; [split; [reflexivity | exact W]|].
  unfold accum_rows at 2 4. rewrite (accum_rows_nocache cd nacc rows Hid m None W).
  rewrite fold_left_app. apply IH. apply wf_fold; assumption.
Qed.

(** ------------------------------------------------------------------ partition into windows *)
Definition window_rows (cd : cdur) (w : Z) (rows : list bar) : list bar :=
  filter (fun r => truncate cd (b_t r) =? w) rows.

Lemma fold_lookup cd nacc rows : forall m w,
  lookup w (fold_left (row_step' cd nacc) rows m) =
  match lookup w m with
  | Some c => Some (fold_left (add_bar cd) (window_rows cd w rows) c)
  | None => match window_rows cd w rows with
            | [] => None
            | rs => Some (fold_left (add_bar cd) rs (new_candle cd nacc w))
            end
  end.
Proof.
  induction rows as [|r rows IH]; intros m w; cbn [fold_left window_rows filter].
  - destruct (lookup w m); reflexivity.
  - rewrite IH. fold (window_rows cd w rows). unfold row_step'.
    destruct (Z.eqb_spec (truncate cd (b_t r)) w) as [E|E].
    + rewrite E, lookup_upd_same. destruct (lookup w m) as [c|]; cbn [fold_left]; reflexivity.
    + rewrite lookup_upd_other by congruence. reflexivity.
Qed.

Lemma window_rows_nil_iff cd w rows :
  window_rows cd w rows <> [] <-> exists r, In r rows /\ truncate cd (b_t r) = w.
Proof.
  unfold window_rows. split.
  - intros H. destruct (filter _ rows) as [|r l] eqn:E; [congruence|].
    assert (I : In r (filter (fun r => truncate cd (b_t r) =? w) rows)) by (rewrite E; left; reflexivity).
    apply filter_In in I. destruct I as [I1 I2]. apply Z.eqb_eq in I2. eauto.
  - intros (r & I & E) H. assert (I' : In r (filter (fun r => truncate cd (b_t r) =? w) rows)).
    { apply filter_In. split; [exact I | apply Z.eqb_eq; exact E]. }
    rewrite H in I'. destruct I'.
Qed.

Lemma fold_nodup cd nacc rows : forall m, NoDup (map fst m) -> NoDup (map fst (fold_left (row_step' cd nacc) rows m)).
Proof.
  induction rows as [|r rows IH]; intros m N; cbn [fold_left]; [exact N|]. apply IH. unfold row_step'. apply upd_nodup, N.
Qed.

(** ------------------------------------------------------------------ sorted output *)
Fixpoint incr (l : list Z) : Prop :=
  match l with
  | a :: ((b :: _) as r) => a < b /\ incr r
  | _ => True
  end.

Lemma insert_perm x l : Permutation (insert_by_key x l) (x :: l).
Proof.
  induction l as [|y r IH]; cbn [insert_by_key]; [apply Permutation_refl|].
  destruct (fst x <=? fst y); [apply Permutation_refl|].
  apply Permutation_trans with (y :: x :: r); [apply perm_skip, IH | apply perm_swap].
Qed.

Lemma sort_perm m : Permutation (sort_by_key m) m.
Proof.
  induction m as [|x r IH]; cbn [sort_by_key fold_right]; [apply perm_nil|].
  fold (sort_by_key r). apply Permutation_trans with (x :: sort_by_key r); [apply insert_perm | apply perm_skip, IH].
Qed.

Lemma incr_cons a l : incr l -> (forall b, In b l -> a < b) -> incr (a :: l).
Proof. destruct l as [|b r]; cbn [incr]; [auto|]. intros H F. split; [apply F; left; reflexivity | exact H]. Qed.

Lemma incr_head_lt a l : incr (a :: l) -> forall b, In b l -> a < b.
Proof.
  revert a. induction l as [|b r IH]; intros a H x I; [destruct I|].
  cbn [incr] in H. destruct H as [H1 H2]. destruct I as [E|I]; [subst; exact H1|].
  specialize (IH b H2 x I). lia.
Qed.

Lemma incr_tail a l : incr (a :: l) -> incr l.
Proof. destruct l; cbn [incr]; [auto | intros [_ H]; exact H]. Qed.

Lemma insert_incr x l : incr (map fst l) -> ~ In (fst x) (map fst l) -> incr (map fst (insert_by_key x l)).
Proof.
  induction l as [|y r IH]; intros H N; cbn [insert_by_key map]; [exact I|].
  cbn [map] in H, N. destruct (Z.leb_spec (fst x) (fst y)) as [L|L]; cbn [map].
  - apply incr_cons; [exact H|]. intros b [E|Ib].
    + subst b. assert (fst x <> fst y) by (intro E; apply N; left; symmetry; exact E). lia.
    + pose proof (incr_head_lt _ _ H b Ib). assert (fst x <> fst y) by (intro E; apply N; left; symmetry; exact E). lia.
  - apply incr_cons.
    + apply IH; [apply (incr_tail _ _ H) | intro I0; apply N; right; exact I0].
    + intros b Ib. assert (P : Permutation (map fst (insert_by_key x r)) (fst x :: map fst r)).
      { apply (Permutation_map fst (insert_perm x r)). }
      apply (Permutation_in _ P) in Ib. destruct Ib as [E|Ib]; [subst b; lia | apply (incr_head_lt _ _ H b Ib)].
Qed.

Lemma sort_incr m : NoDup (map fst m) -> incr (map fst (sort_by_key m)).
Proof.
  induction m as [|x r IH]; intros N; cbn [sort_by_key fold_right]; [exact I|].
  fold (sort_by_key r). cbn [map] in N. inversion N as [|? ? Hn N']; subst.
  apply insert_incr; [apply IH, N'|].
  intro H. apply Hn. apply (Permutation_in _ (Permutation_map fst (sort_perm r))). exact H.
Qed.

(** ------------------------------------------------------------------ the partition theorem *)
(** [accum_all]: the candle map after any number of Accum calls on a fresh candler *)
Definition accum_all (cd : cdur) (nacc : nat) (rowss : list (list bar)) : cmap :=
  fold_left (accum_rows cd nacc) rowss [].

Definition window_candle (cd : cdur) (nacc : nat) (w : Z) (rows : list bar) : candle :=
  fold_left (add_bar cd) (window_rows cd w rows) (new_candle cd nacc w).

Theorem accum_partition cd nacc rowss : idem cd ->
  let rows := concat rowss in
  let out := sort_by_key (accum_all cd nacc rowss) in
  incr (map fst out)
  /\ (forall w, In w (map fst out) <-> exists r, In r rows /\ truncate cd (b_t r) = w)
  /\ (forall w c, In (w, c) out -> c = window_candle cd nacc w rows).
Proof.
  intros Hid. cbv zeta. unfold accum_all.
  destruct (accum_rows_concat cd nacc rowss Hid [] (wf_nil cd)) as [E _]. rewrite E.
  set (m := fold_left (row_step' cd nacc) (concat rowss) []).
  assert (N : NoDup (map fst m)) by (apply fold_nodup; constructor).
  assert (L : forall w, lookup w m = match window_rows cd w (concat rowss) with
                                      | [] => None
                                      | rs => Some (fold_left (add_bar cd) rs (new_candle cd nacc w)) end).
  { intros w. unfold m. rewrite fold_lookup. reflexivity. }
  split; [apply sort_incr, N|]. split.
  - intros w. rewrite <- window_rows_nil_iff.
    assert (P : In w (map fst (sort_by_key m)) <-> In w (map fst m)).
    { split; apply Permutation_in; [apply Permutation_map, sort_perm | apply Permutation_sym, Permutation_map, sort_perm]. }
    rewrite P, <- lookup_in_keys, L. destruct (window_rows cd w (concat rowss)); split; congruence.
  - intros w c I. apply (Permutation_in _ (sort_perm m)) in I. apply (lookup_in w c m N) in I.
    rewrite L in I. unfold window_candle. destruct (window_rows cd w (concat rowss)); [discriminate | inversion I; reflexivity].
Qed.

(** run_accum on inputs whose columns extract to [rowss] *)
Lemma run_accum_ok cd nacc inputs rowss : forall m,
  Forall2 (fun i rows => extract i = Ok rows /\ length (in_acc i) = nacc) inputs rowss ->
  run_accum cd m inputs = Ok (fold_left (accum_rows cd nacc) rowss m).
Proof.
  intros m H. revert m. induction H as [|i rows inputs rowss [E L] _ IH]; intros m; cbn [run_accum fold_left]; [reflexivity|].
  unfold accum. rewrite E. cbn [bindR]. rewrite L. apply IH.
Qed.
