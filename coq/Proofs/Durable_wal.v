(** Proofs/Durable_wal.v — what the first pass of Replay ([scan]) computes on the logs the writer
    produces, including every torn tail a process crash can leave (a crash image is a prefix of
    system calls, so the tail is a prefix of one record group).

    [wal_prefix_parse] of DESIGN §6: the records a flush appends scan back to exactly that TG, and a
    strict prefix of them scans to nothing committed. *)
From Coq Require Import ZArith NArith List Bool Lia.
From Coq.Strings Require Import Byte.
Import ListNotations.
Require Import MS.Base.Res MS.Generated.Src_durab MS.Model.Wal MS.Model.Replay.
Local Open Scope Z_scope.

(* ------------------------------------------------------------------ the writer's record groups *)

Inductive item := ITG (id : Z) (cs : list cmd) | ICk (id : Z).

Definition tg_recs (id : Z) (cs : list cmd) : list wrec :=
  [ RTxn id DEST_WAL TXN_PREPARING; RMid; RLen (body_len cs); RBody id cs; RSum true;
    RTxn id DEST_WAL TXN_COMMITCOMPLETE ].
Definition ck_recs (id : Z) : list wrec :=
  [ RTxn id DEST_CHECKPOINT TXN_PREPARING; RTxn id DEST_CHECKPOINT TXN_COMMITCOMPLETE ].
Definition item_recs (it : item) : list wrec :=
  match it with ITG id cs => tg_recs id cs | ICk id => ck_recs id end.
Definition log_of (its : list item) : list wrec := flat_map item_recs its.

(** what the scan's [tgData] map becomes after an item *)
Definition pend_item (m : tgmap) (it : item) : tgmap :=
  match it with
  | ITG id cs => tg_set id (Some cs) m
  | ICk id => if tg_has id m then tg_prune id m else m
  end.
Definition pend (its : list item) (m : tgmap) : tgmap := fold_left pend_item its m.

Definition item_ids (its : list item) : list Z :=
  flat_map (fun it => match it with ITG id _ => [id] | ICk _ => [] end) its.

Definition meta_ok (cs : list cmd) : Prop := Forall (fun c => 0 <= c_meta c) cs.

Lemma body_len_pos cs : meta_ok cs -> 16 <= body_len cs.
Proof.
  unfold body_len. intros H.
  change recordLenLenBytes with 1. change fpLenLenBytes with 2.
  change dataLenLenBytes with 4. change varRecLenLenBytes with 4. change offsetLenBytes with 8.
  change indexLenBytes with 8. change tgIDLenBytes with 8. change wtCountLenBytes with 8.
  set (f := fun (c : cmd) (acc : Z) => 1 + 2 + 4 + 4 + 8 + 8 + data_len c + c_meta c + acc).
  assert (0 <= fold_right f 0 cs).
  { induction H as [|c cs Hc _ IH]; cbn [fold_right]; [lia|].
    unfold f at 1. unfold data_len. lia. }
  lia.
Qed.

(** total bytes of a list of records *)
Definition recs_size (l : list wrec) : Z := fold_right (fun r acc => rec_size r + acc) 0 l.

Lemma recs_size_app a b : recs_size (a ++ b) = recs_size a + recs_size b.
Proof. unfold recs_size. induction a; cbn [app fold_right]; lia. Qed.

Lemma rec_size_nonneg r : (forall id cs, r = RBody id cs -> meta_ok cs) -> 0 <= rec_size r.
Proof.
  destruct r; cbn [rec_size]; intros H; try (change tgLenBytes with 8; change checkSumBytes with 16; lia).
  pose proof (body_len_pos cmds (H _ _ eq_refl)). lia.
Qed.

(** every TG body in the list has non-negative meta fields *)
Definition recs_meta_ok (l : list wrec) : Prop := forall id cs, In (RBody id cs) l -> meta_ok cs.

Lemma recs_size_nonneg l : recs_meta_ok l -> 0 <= recs_size l.
Proof.
  induction l as [|r l IH]; intros H; cbn [recs_size fold_right]; [lia|].
  assert (0 <= rec_size r) by (apply rec_size_nonneg; intros; subst; eapply H; left; reflexivity).
  assert (0 <= recs_size l) by (apply IH; intros ? ? ?; eapply H; right; eassumption).
  unfold recs_size in *. lia.
Qed.

(* ------------------------------------------------------------------ scanning whole groups *)

Lemma valid_wal_prep : valid_dest DEST_WAL && valid_status TXN_PREPARING = true. Proof. reflexivity. Qed.
Lemma valid_wal_done : valid_dest DEST_WAL && valid_status TXN_COMMITCOMPLETE = true. Proof. reflexivity. Qed.
Lemma valid_ck_prep : valid_dest DEST_CHECKPOINT && valid_status TXN_PREPARING = true. Proof. reflexivity. Qed.
Lemma valid_ck_done : valid_dest DEST_CHECKPOINT && valid_status TXN_COMMITCOMPLETE = true. Proof. reflexivity. Qed.

(** a TXNINFO record with destination WAL changes nothing *)
Lemma scan_txn_wal tid st r size m seen :
  valid_status st = true ->
  scan (RTxn tid DEST_WAL st :: r) size m seen = scan r size m seen.
Proof.
  intros Hs. cbn [scan]. change (valid_dest DEST_WAL) with true. rewrite Hs. cbn [andb].
  change (DEST_WAL =? DEST_CHECKPOINT) with false. cbn [andb]. reflexivity.
Qed.

Lemma scan_ck_prep tid r size m seen :
  scan (RTxn tid DEST_CHECKPOINT TXN_PREPARING :: r) size m seen = scan r size m seen.
Proof.
  cbn [scan]. rewrite valid_ck_prep.
  change (TXN_PREPARING =? TXN_COMMITCOMPLETE) with false. rewrite andb_false_r. cbn [andb]. reflexivity.
Qed.

Lemma scan_ck_done tid r size m seen :
  scan (RTxn tid DEST_CHECKPOINT TXN_COMMITCOMPLETE :: r) size m seen
  = scan r size (if tg_has tid m then tg_prune tid m else m) seen.
Proof.
  cbn [scan]. rewrite valid_ck_done.
  change (DEST_CHECKPOINT =? DEST_CHECKPOINT) with true.
  change (TXN_COMMITCOMPLETE =? TXN_COMMITCOMPLETE) with true. cbn [andb].
  destruct (tg_has tid m); reflexivity.
Qed.

(** one whole, intact TG group *)
Lemma scan_tg id cs r size m seen :
  body_len cs < safetyFactor * size ->
  existsb (Z.eqb id) seen = false ->
  scan (tg_recs id cs ++ r) size m seen = scan r size (tg_set id (Some cs) m) (id :: seen).
Proof.
  intros Hsane Hseen. unfold tg_recs. cbn [app].
  rewrite scan_txn_wal by reflexivity.
  cbn [scan]. apply Z.ltb_lt in Hsane. rewrite Hsane, Z.eqb_refl. cbn [andb].
  rewrite Hseen. rewrite valid_wal_done.
  change (DEST_WAL =? DEST_CHECKPOINT) with false. cbn [andb]. reflexivity.
Qed.

Lemma scan_ck id r size m seen :
  scan (ck_recs id ++ r) size m seen = scan r size (pend_item m (ICk id)) seen.
Proof. unfold ck_recs. cbn [app]. rewrite scan_ck_prep, scan_ck_done. reflexivity. Qed.

(** ids of the log are pairwise distinct and not yet seen; every body is "sane" for [size] *)
Definition sane_items (its : list item) (size : Z) : Prop :=
  forall id cs, In (ITG id cs) its -> body_len cs < safetyFactor * size.

Lemma scan_items its : forall r size m seen,
  sane_items its size ->
  NoDup (item_ids its) ->
  (forall id, In id (item_ids its) -> existsb (Z.eqb id) seen = false) ->
  scan (log_of its ++ r) size m seen = scan r size (pend its m) (rev (item_ids its) ++ seen).
Proof.
  induction its as [|it its IH]; intros r size m seen Hsane Hnd Hseen.
  - reflexivity.
  - cbn [log_of flat_map]. fold (log_of its). rewrite <- app_assoc.
    destruct it as [id cs | id].
    + cbn [item_recs item_ids flat_map app] in *. fold (item_ids its) in *.
      rewrite scan_tg.
      * rewrite IH.
        -- cbn [pend fold_left pend_item]. cbn [rev]. rewrite <- app_assoc. reflexivity.
        -- intros ? ? ?. eapply Hsane. right. eassumption.
        -- inversion Hnd; assumption.
        -- intros id' Hin. cbn [existsb]. rewrite Hseen by (right; assumption). rewrite orb_false_r.
           apply Z.eqb_neq. intros ->. inversion Hnd. contradiction.
      * eapply Hsane. left. reflexivity.
      * apply Hseen. left. reflexivity.
    + cbn [item_recs item_ids flat_map app] in *. fold (item_ids its) in *.
      rewrite scan_ck. rewrite IH; try assumption.
      * reflexivity.
      * intros ? ? ?. eapply Hsane. right. eassumption.
  Qed.

(* ------------------------------------------------------------------ torn tails *)

(** The proper prefixes of a TG group that a crash can leave at the end of the log. *)
Inductive torn : list wrec -> bool -> Prop :=    (* bool: the scan records the nil entry tgData[0] *)
| torn_nil : torn [] false
| torn_prep id : torn [RTxn id DEST_WAL TXN_PREPARING] false
| torn_mid id : torn [RTxn id DEST_WAL TXN_PREPARING; RMid] true
| torn_len id n : torn [RTxn id DEST_WAL TXN_PREPARING; RMid; RLen n] true
| torn_body id n cs : torn [RTxn id DEST_WAL TXN_PREPARING; RMid; RLen n; RBody id cs] true
| torn_ckprep id : torn [RTxn id DEST_CHECKPOINT TXN_PREPARING] false.

Lemma scan_torn tl b size m seen :
  torn tl b -> scan tl size m seen = ScanOk (if b then tg_set 0 None m else m).
Proof.
  intros H; destruct H; cbn [app];
    try rewrite scan_txn_wal by reflexivity; try rewrite scan_ck_prep; reflexivity.
Qed.

Theorem scan_log_torn its tl b size :
  sane_items its size -> NoDup (item_ids its) -> torn tl b ->
  scan (log_of its ++ tl) size [] [] = ScanOk (if b then tg_set 0 None (pend its []) else pend its []).
Proof.
  intros Hs Hn Ht. rewrite scan_items; try assumption.
  - eapply scan_torn; eassumption.
  - reflexivity.
Qed.

(* ------------------------------------------------------------------ the live log: closed form of [pend] *)

Definition tg := (Z * list cmd)%type.
Definition tg_entry (t : tg) : Z * option (list cmd) := (fst t, Some (snd t)).

(** strictly increasing TG ids, all above [lo] *)
Fixpoint incr_from (lo : Z) (l : list tg) : Prop :=
  match l with [] => True | t :: r => lo < fst t /\ incr_from (fst t) r end.

Lemma incr_from_weaken lo lo' l : lo' <= lo -> incr_from lo l -> incr_from lo' l.
Proof. destruct l; cbn; intros; [trivial|]. intuition lia. Qed.

Lemma last_cons_def {A} (x : A) l d : last (x :: l) d = last l x.
Proof.
  revert x d; induction l as [|y l IH]; intros x d; [reflexivity|].
  change (last (x :: y :: l) d) with (last (y :: l) d). rewrite (IH y d), (IH y x). reflexivity.
Qed.

Lemma incr_from_app lo a b :
  incr_from lo (a ++ b) <-> incr_from lo a /\ incr_from (last (map fst a) lo) b.
Proof.
  revert lo; induction a as [|t a IH]; intros lo.
  - cbn. tauto.
  - cbn [app incr_from map]. rewrite IH, last_cons_def. tauto.
Qed.

Lemma incr_all_gt lo l : incr_from lo l -> Forall (fun t => lo < fst t) l.
Proof.
  revert lo; induction l as [|t l IH]; intros lo H; constructor.
  - apply H.
  - destruct H as [H1 H2]. apply IH in H2. eapply Forall_impl; [|exact H2]. cbn. intros. lia.
Qed.

Lemma tg_set_fresh id v (m : tgmap) :
  Forall (fun e => fst e <> id) m -> tg_set id v m = m ++ [(id, v)].
Proof.
  induction m as [|[k v'] m IH]; intros H; cbn [tg_set app]; [reflexivity|].
  inversion H; subst. cbn in H2. destruct (Z.eqb_spec id k); [congruence|]. rewrite IH by assumption. reflexivity.
Qed.

Lemma pend_tgs (ts : list tg) : forall (m : tgmap) lo,
  Forall (fun e => fst e <= lo) m -> incr_from lo ts ->
  pend (map (fun t => ITG (fst t) (snd t)) ts) m = m ++ map tg_entry ts.
Proof.
  induction ts as [|t ts IH]; intros m lo Hm Hi; cbn [map pend fold_left].
  - rewrite app_nil_r. reflexivity.
  - destruct Hi as [H1 H2]. cbn [pend_item]. rewrite tg_set_fresh.
    + fold (pend (map (fun t => ITG (fst t) (snd t)) ts) (m ++ [(fst t, Some (snd t))])).
      rewrite (IH _ (fst t)).
      * rewrite <- app_assoc. reflexivity.
      * apply Forall_app. split.
        -- eapply Forall_impl; [|exact Hm]. cbn. intros. lia.
        -- constructor; [cbn; lia|constructor].
      * assumption.
    + eapply Forall_impl; [|exact Hm]. cbn. intros. lia.
Qed.

Lemma tg_has_app_last (m : tgmap) id v : tg_has id (m ++ [(id, v)]) = true.
Proof. unfold tg_has. rewrite existsb_app. cbn. rewrite Z.eqb_refl. apply orb_true_r. Qed.

Lemma tg_prune_all (m : tgmap) id : Forall (fun e => fst e <= id) m -> tg_prune id m = [].
Proof.
  induction m as [|e m IH]; intros H; cbn [tg_prune filter]; [reflexivity|].
  inversion H; subst. apply Z.leb_le in H2. rewrite H2. cbn [negb]. apply IH. assumption.
Qed.

(** A closed segment of the live log: some TGs, then the checkpoint of the last one. *)
Definition seg_items (ts : list tg) : list item :=
  map (fun t => ITG (fst t) (snd t)) ts ++ [ICk (last (map fst ts) 0)].

Lemma last_map_fst_in (ts : list tg) d : ts <> [] -> In (last (map fst ts) d) (map fst ts).
Proof.
  induction ts as [|t ts IH]; [congruence|]. intros _. destruct ts as [|t' ts']; cbn [map last].
  - left; reflexivity.
  - right. apply IH. congruence.
Qed.

Lemma incr_le_last lo (ts : list tg) : incr_from lo ts -> Forall (fun t => fst t <= last (map fst ts) lo) ts.
Proof.
  assert (Hge : forall (ts : list tg) lo, incr_from lo ts -> lo <= last (map fst ts) lo).
  { clear. induction ts as [|t ts IH]; intros lo H; [cbn; lia|].
    destruct H as [H1 H2]. cbn [map]. rewrite last_cons_def. specialize (IH _ H2). lia. }
  revert lo; induction ts as [|t ts IH]; intros lo H; [constructor|].
  destruct H as [H1 H2]. cbn [map]. rewrite last_cons_def. constructor.
  - apply Hge. assumption.
  - apply IH. assumption.
Qed.

Lemma last_indep {A} (l : list A) d d' : l <> [] -> last l d = last l d'.
Proof.
  induction l as [|x l IH]; [congruence|]. intros _. destruct l; [reflexivity|].
  cbn [last]. apply IH. congruence.
Qed.

(** after a closed segment nothing is pending *)
Lemma pend_seg (ts : list tg) lo : ts <> [] -> incr_from lo ts -> pend (seg_items ts) [] = [].
Proof.
  intros Hne Hi. unfold seg_items, pend. rewrite fold_left_app.
  fold (pend (map (fun t => ITG (fst t) (snd t)) ts) []).
  rewrite (pend_tgs ts [] lo) by (constructor || assumption). cbn [app fold_left pend_item].
  assert (Hin : tg_has (last (map fst ts) 0) (map tg_entry ts) = true).
  { unfold tg_has. apply existsb_exists.
    pose proof (last_map_fst_in ts 0 Hne) as H. apply in_map_iff in H as (t & Ht & Hin).
    exists (tg_entry t). split; [apply in_map; assumption|]. cbn. rewrite Ht. apply Z.eqb_refl. }
  rewrite Hin. apply tg_prune_all.
  apply Forall_map. pose proof (incr_le_last lo ts Hi) as H.
  eapply Forall_impl; [|exact H]. cbn. intros t Ht.
  rewrite (last_indep _ 0 lo); [assumption|]. destruct ts; [congruence|discriminate].
Qed.

Lemma pend_app a b m : pend (a ++ b) m = pend b (pend a m).
Proof. unfold pend. apply fold_left_app. Qed.

(** The live log: closed segments, then the TGs flushed since the last checkpoint. *)
Definition live_items (segs : list (list tg)) (cur : list tg) : list item :=
  flat_map seg_items segs ++ map (fun t => ITG (fst t) (snd t)) cur.

(** all TGs of the log in order *)
Definition live_tgs (segs : list (list tg)) (cur : list tg) : list tg := concat segs ++ cur.

Lemma pend_segs segs lo :
  Forall (fun s => s <> []) segs -> incr_from lo (concat segs) -> pend (flat_map seg_items segs) [] = [].
Proof.
  revert lo; induction segs as [|s segs IH]; intros lo Hne Hi; [reflexivity|].
  cbn [flat_map concat] in *. rewrite pend_app. inversion Hne; subst.
  apply incr_from_app in Hi as [Hi1 Hi2].
  rewrite (pend_seg s lo) by assumption. eapply IH; eassumption.
Qed.

Theorem pend_live segs cur lo :
  Forall (fun s => s <> []) segs -> incr_from lo (live_tgs segs cur) ->
  pend (live_items segs cur) [] = map tg_entry cur.
Proof.
  intros Hne Hi. unfold live_items, live_tgs in *. rewrite pend_app.
  apply incr_from_app in Hi as [Hi1 Hi2].
  rewrite (pend_segs segs lo) by assumption.
  rewrite (pend_tgs cur [] _ ltac:(constructor) Hi2). reflexivity.
Qed.

Lemma item_ids_live segs cur : item_ids (live_items segs cur) = map fst (live_tgs segs cur).
Proof.
  unfold live_items, live_tgs, item_ids. rewrite flat_map_app, map_app. f_equal.
  - induction segs as [|s segs IH]; [reflexivity|]. cbn [flat_map concat]. rewrite flat_map_app, map_app, IH. f_equal.
    unfold seg_items. rewrite flat_map_app. cbn [flat_map]. rewrite app_nil_r.
    induction s as [|t s IHs]; [reflexivity|]. cbn [map flat_map app]. rewrite IHs. reflexivity.
  - induction cur as [|t cur IH]; [reflexivity|]. cbn [map flat_map app]. rewrite IH. reflexivity.
Qed.

Lemma incr_NoDup lo (l : list tg) : incr_from lo l -> NoDup (map fst l).
Proof.
  revert lo; induction l as [|t l IH]; intros lo H; cbn [map]; constructor.
  - destruct H as [_ H]. apply incr_all_gt in H. intros Hin. apply in_map_iff in Hin as (t' & Ht' & Hin).
    rewrite Forall_forall in H. specialize (H _ Hin). lia.
  - destruct H as [_ H]. eapply IH; eassumption.
Qed.

(* ------------------------------------------------------------------ sort of the pending map *)

Lemma ins_tg_front (x : Z * option (list cmd)) (l : tgmap) :
  Forall (fun e => fst x < fst e) l -> ins_tg x l = x :: l.
Proof.
  destruct l as [|y l]; intros H; cbn [ins_tg]; [reflexivity|].
  inversion H; subst. apply Z.ltb_lt in H2. rewrite H2. reflexivity.
Qed.

Lemma sort_tgs_incr lo (l : list tg) : incr_from lo l -> sort_tgs (map tg_entry l) = map tg_entry l.
Proof.
  revert lo; induction l as [|t l IH]; intros lo H; [reflexivity|].
  destruct H as [H1 H2]. unfold sort_tgs in *. cbn [map fold_right]. rewrite (IH _ H2).
  apply ins_tg_front. apply Forall_map. apply incr_all_gt in H2. exact H2.
Qed.

Lemma ins_tg_back (x : Z * option (list cmd)) (l : tgmap) :
  Forall (fun e => fst e <= fst x) l -> ins_tg x l = l ++ [x].
Proof.
  induction l as [|y l IH]; intros H; cbn [ins_tg app]; [reflexivity|].
  inversion H; subst. assert (fst x <? fst y = false) as -> by (apply Z.ltb_ge; assumption).
  rewrite IH by assumption. reflexivity.
Qed.

(** the nil entry of a torn tail sorts to the front (TG ids are positive) and is skipped *)
Lemma sort_tgs_with_nil lo (l : list tg) :
  0 <= lo -> incr_from lo l ->
  sort_tgs (tg_set 0 None (map tg_entry l)) = (0, None) :: map tg_entry l.
Proof.
  intros Hlo H. rewrite tg_set_fresh.
  - unfold sort_tgs. rewrite fold_right_app. cbn [fold_right ins_tg].
    assert (Hgen : forall (l : list tg) lo, 0 <= lo -> incr_from lo l ->
              fold_right ins_tg [(0, None)] (map tg_entry l) = (0, None) :: map tg_entry l).
    { clear. induction l as [|t l IH]; intros lo Hlo H; [reflexivity|].
      destruct H as [H1 H2]. cbn [map fold_right]. rewrite (IH (fst t)) by (lia || assumption).
      cbn [ins_tg]. cbn [tg_entry fst]. assert (fst t <? 0 = false) as -> by (apply Z.ltb_ge; lia).
      f_equal. fold (tg_entry t). apply ins_tg_front. apply Forall_map. apply incr_all_gt in H2. exact H2. }
    eapply Hgen; eassumption.
  - apply Forall_map. apply incr_all_gt in H. eapply Forall_impl; [|exact H]. cbn. intros. lia.
Qed.

(* ------------------------------------------------------------------ the tail "checksum written, COMMITCOMPLETE not yet" *)

(** The first five records of a TG group: the TG is intact in the log (its checksum is there) although
    the writer has not yet appended TXNINFO(COMMITCOMPLETE).  Replay applies it: the WAL-side
    transaction status is recorded by the scan and never consulted. *)
Definition sum_recs (id : Z) (cs : list cmd) : list wrec :=
  [ RTxn id DEST_WAL TXN_PREPARING; RMid; RLen (body_len cs); RBody id cs; RSum true ].

Lemma scan_sum id cs size m seen :
  body_len cs < safetyFactor * size -> existsb (Z.eqb id) seen = false ->
  scan (sum_recs id cs) size m seen = ScanOk (tg_set id (Some cs) m).
Proof.
  intros Hsane Hseen. unfold sum_recs. rewrite scan_txn_wal by reflexivity.
  cbn [scan]. apply Z.ltb_lt in Hsane. rewrite Hsane, Z.eqb_refl. cbn [andb]. rewrite Hseen. reflexivity.
Qed.

Theorem scan_log_sum its id cs size :
  sane_items its size -> body_len cs < safetyFactor * size ->
  NoDup (item_ids its) -> ~ In id (item_ids its) ->
  scan (log_of its ++ sum_recs id cs) size [] [] = ScanOk (tg_set id (Some cs) (pend its [])).
Proof.
  intros Hs Hb Hn Hni. rewrite scan_items; try assumption; [|reflexivity].
  apply scan_sum; [assumption|]. rewrite app_nil_r.
  destruct (existsb (Z.eqb id) (rev (item_ids its))) eqn:E; [|reflexivity].
  apply existsb_exists in E as (x & Hx & Ex). apply Z.eqb_eq in Ex. subst.
  apply in_rev in Hx. contradiction.
Qed.

Lemma tg_set_entries_fresh lo (S : list tg) (t : tg) :
  incr_from lo (S ++ [t]) -> tg_set (fst t) (Some (snd t)) (map tg_entry S) = map tg_entry (S ++ [t]).
Proof.
  intros H. rewrite tg_set_fresh.
  - rewrite map_app. reflexivity.
  - apply incr_from_app in H as [H1 H2]. cbn in H2. destruct H2 as [H2 _].
    apply Forall_map. pose proof (incr_le_last lo S H1) as Hle.
    eapply Forall_impl; [|exact Hle]. cbn. intros a Ha. lia.
Qed.
