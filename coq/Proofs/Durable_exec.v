(** Proofs/Durable_exec.v — executing write commands against the primary files, live (the primary
    phase of a flush, grouped per file) and at replay (in TG order): when every command is well
    formed for the files the execution cannot fail, and its effect is the last-writer-wins update of
    fixed slots and the sorted append to variable intervals.  Also: what a PREFIX of the emitted
    events leaves behind (the crash images inside a flush / inside a replay). *)
From Coq Require Import ZArith NArith List Bool Lia Permutation.
From Coq.Strings Require Import Byte.
Import ListNotations.
Require Import MS.Base.Res MS.Generated.Src_durab MS.Model.Wal MS.Model.Replay MS.Proofs.Durable_files.
Local Open Scope Z_scope.

Section WithClen.
  Variable clen : list record -> Z.
  Hypothesis clen_pos : forall x, 0 < clen x.

  (* ---------------------------------------------------------------- one command on the files *)

  Definition findirect (fs : files) (c : cmd) : option (list event) :=
    match alookup (c_fid c) fs with
    | Some (PV s ix eof bl) =>
        if c_off c <? eof then
          let '(i, o, l) := slot_triple ix (c_off c) in
          match (if i =? 0 then Some [] else read_block bl eof o l) with
          | None => None
          | Some old =>
              let data := sort_ticks (old ++ c_data c) in
              let pos := if o + l =? eof then o else eof in
              let len := clen data in
              Some [EVData (c_fid c) pos len data; EVIndex (c_fid c) (c_off c) (c_index c) pos len]
          end
        else None
    | _ => None
    end.
  Definition ffixed (fs : files) (c : cmd) : option (list event) :=
    match alookup (c_fid c) fs with
    | Some _ => Some [EPW (c_fid c) (c_off c) (c_index c) (concat (c_data c))]
    | None => None
    end.
  Definition fstep (fs : files) (c : cmd) : option (list event) :=
    match c_kind c with KFixed => ffixed fs c | KVar => findirect fs c end.

  Lemma indirect_files im c : indirect clen im c = findirect (i_files im) c.
  Proof. reflexivity. Qed.
  Lemma fixed_write_files im c : fixed_write im c = ffixed (i_files im) c.
  Proof. reflexivity. Qed.

  (** size of the index area of a variable file (fixed at creation) *)
  Definition fsize0 (fs : files) (f : fid) : Z :=
    match alookup f fs with Some (PV s _ _ _) => s | _ => 0 end.

  Lemma fsize0_write fs e f : is_write e = true -> fsize0 (fapply fs e) f = fsize0 fs f.
  Proof.
    destruct e; cbn [is_write]; try discriminate; intros _; unfold fsize0; cbn [fapply];
      (destruct (N.eqb_spec f f0) as [->|Hne];
       [rewrite alookup_aupdate_same; destruct (alookup f0 fs) as [[| |]|]; reflexivity
       |rewrite alookup_aupdate_other by assumption; reflexivity]).
  Qed.
  Lemma fsize0_writes es : forall fs f, forallb is_write es = true -> fsize0 (fapplys fs es) f = fsize0 fs f.
  Proof.
    induction es as [|e es IH]; intros fs f H; [reflexivity|].
    cbn [forallb] in H. apply andb_prop in H as [H1 H2]. cbn [fapplys fold_left].
    fold (fapplys (fapply fs e) es). rewrite IH by assumption. apply fsize0_write, H1.
  Qed.

  (** a command is well formed for the files: its file exists with the command's record type; a
      variable command addresses a slot of the index area and carries a non-zero index (guard
      daily-jan1: index 0 marks a hole) *)
  Definition cmd_ok (fs : files) (c : cmd) : Prop :=
    fkind fs (c_fid c) = Some (c_kind c)
    /\ (c_kind c = KVar -> c_index c <> 0 /\ 0 <= c_off c < fsize0 fs (c_fid c)).

  Lemma cmd_ok_writes fs es c : forallb is_write es = true -> cmd_ok fs c -> cmd_ok (fapplys fs es) c.
  Proof. intros H [H1 H2]. split; [rewrite fkind_writes|rewrite fsize0_writes]; assumption. Qed.

  Definition vhits (c : cmd) (f : fid) (slot : Z) : bool :=
    rkind_eqb (c_kind c) KVar && N.eqb (c_fid c) f && (c_off c =? slot).

  (** effect of one well-formed command *)
  Lemma fstep_ok fs c :
    files_vinv fs -> cmd_ok fs c ->
    exists evs, fstep fs c = Some evs /\ forallb is_write evs = true /\
      let fs' := fapplys fs evs in
      files_vinv fs'
      /\ (forall f off, fx_get fs' f off = if hits c f off then Some (c_index c, concat (c_data c)) else fx_get fs f off)
      /\ (forall f slot, content fs' f slot
                         = if vhits c f slot then sort_ticks (content fs f slot ++ c_data c) else content fs f slot).
  Proof.
    intros Hv [Hk Hvar]. unfold fstep, hits, vhits. destruct (c_kind c) eqn:Ek; cbn [rkind_eqb andb].
    - (* fixed *)
      apply is_pf_fkind in Hk as Hpf. destruct Hpf as [ws Hws].
      unfold ffixed. rewrite Hws. eexists. split; [reflexivity|]. split; [reflexivity|].
      cbn zeta. cbn [fapplys fold_left]. split; [|split].
      + intros f s ix eof bl Hl. cbn [fapply] in Hl. destruct (N.eq_dec f (c_fid c)) as [->|Hne].
        * rewrite alookup_aupdate_same, Hws in Hl. discriminate.
        * rewrite alookup_aupdate_other in Hl by assumption. eapply Hv; eassumption.
      + intros f off. rewrite fx_get_epw by (exists ws; assumption).
        rewrite (N.eqb_sym f). rewrite (Z.eqb_sym off). reflexivity.
      + intros f slot. unfold content. cbn [fapply]. destruct (N.eq_dec f (c_fid c)) as [->|Hne].
        * rewrite alookup_aupdate_same, Hws. reflexivity.
        * rewrite alookup_aupdate_other by assumption. reflexivity.
    - (* variable *)
      destruct (Hvar eq_refl) as [Hidx Hoff].
      apply is_pv_fkind in Hk as Hpv. destruct Hpv as (s & ix & eof & bl & Hl).
      pose proof (Hv _ _ _ _ _ Hl) as Hvi.
      unfold fsize0 in Hoff. rewrite Hl in Hoff.
      unfold findirect. rewrite Hl.
      assert (c_off c <? eof = true) as -> by (apply Z.ltb_lt; destruct Hvi; lia).
      destruct (slot_triple ix (c_off c)) as [[i o] l] eqn:Et.
      assert (Hold : (if i =? 0 then Some [] else read_block bl eof o l) = Some (content_of ix eof bl (c_off c))).
      { unfold content_of. rewrite Et. destruct (Z.eqb_spec i 0); [reflexivity|].
        destruct (v_read _ _ _ _ Hvi _ _ _ _ Et n) as [_ [c0 Hc0]]. rewrite Hc0. reflexivity. }
      rewrite Hold. eexists. split; [reflexivity|]. split; [reflexivity|].
      cbn zeta. cbn [fapplys fold_left fapply].
      set (data := sort_ticks (content_of ix eof bl (c_off c) ++ c_data c)).
      set (pos := if o + l =? eof then o else eof). set (len := clen data).
      pose proof (vinv_indirect s ix eof bl (c_off c) (c_index c) len (c_data c) i o l Hvi Hidx (clen_pos _) Et)
        as (Hv' & Hc1 & Hc2). fold data in Hv', Hc1, Hc2. change (wpos eof o l) with pos in Hv', Hc1, Hc2.
      (* the file after the two events *)
      assert (Hnew : forall f, alookup f (aupdate (c_fid c)
                 (fun pf => match pf with PV s ix eof bl => PV s ((c_off c, (c_index c, pos, len)) :: ix) eof bl | other => other end)
                 (aupdate (c_fid c)
                    (fun pf => match pf with PV s ix eof bl => PV s ix (Z.max eof (pos + len)) ((pos, (len, data)) :: bl) | other => other end) fs))
               = if N.eqb f (c_fid c)
                 then Some (PV s ((c_off c, (c_index c, pos, len)) :: ix) (Z.max eof (pos + len)) ((pos, (len, data)) :: bl))
                 else alookup f fs).
      { intros f. destruct (N.eqb_spec f (c_fid c)) as [->|Hne].
        - rewrite !alookup_aupdate_same, Hl. reflexivity.
        - rewrite !alookup_aupdate_other by assumption. reflexivity. }
      split; [|split].
      + intros f s' ix' eof' bl' Hl'. rewrite Hnew in Hl'. destruct (N.eqb_spec f (c_fid c)).
        * inversion Hl'; subst. exact Hv'.
        * eapply Hv; eassumption.
      + intros f off. unfold fx_get. rewrite Hnew. destruct (N.eqb_spec f (c_fid c)) as [->|Hne]; [|reflexivity].
        rewrite Hl. reflexivity.
      + intros f slot. unfold content. rewrite Hnew. rewrite (N.eqb_sym (c_fid c) f).
        destruct (N.eqb_spec f (c_fid c)) as [->|Hne]; cbn [andb]; [|reflexivity].
        rewrite Hl. destruct (Z.eqb_spec (c_off c) slot) as [<-|Hne].
        * exact Hc1.
        * apply Hc2. congruence.
  Qed.

  (* ---------------------------------------------------------------- a list of commands *)

  (** events of executing the commands in order, stopping at the first failure *)
  Fixpoint fexec (fs : files) (cs : list cmd) : list event :=
    match cs with
    | [] => []
    | c :: r => match fstep fs c with
                | Some evs => evs ++ fexec (fapplys fs evs) r
                | None => []
                end
    end.

  Definition all_ok (fs : files) (cs : list cmd) : Prop := Forall (cmd_ok fs) cs.

  Lemma all_ok_writes fs es cs : forallb is_write es = true -> all_ok fs cs -> all_ok (fapplys fs es) cs.
  Proof. intros H. apply Forall_impl. intros c. apply cmd_ok_writes, H. Qed.

  (** content of an interval after appending the variable commands of [cs] that address it *)
  Definition ct_after (cs : list cmd) (base : list record) (f : fid) (slot : Z) : list record :=
    fold_left (fun acc c => if vhits c f slot then sort_ticks (acc ++ c_data c) else acc) cs base.

  Lemma fexec_ok cs : forall fs,
    files_vinv fs -> all_ok fs cs ->
    forallb is_write (fexec fs cs) = true /\
    let fs' := fapplys fs (fexec fs cs) in
    files_vinv fs'
    /\ (forall f off, fx_get fs' f off = over (lastw cs f off) (fx_get fs f off))
    /\ (forall f slot, content fs' f slot = ct_after cs (content fs f slot) f slot).
  Proof.
    induction cs as [|c cs IH]; intros fs Hv Hok.
    - cbn [fexec fapplys fold_left forallb]. split; [reflexivity|]. split; [exact Hv|].
      split; intros; reflexivity.
    - inversion Hok as [|? ? Hc Hcs]; subst.
      destruct (fstep_ok fs c Hv Hc) as (evs & Hs & Hw & Hv1 & Hfx1 & Hct1).
      cbn [fexec]. rewrite Hs.
      destruct (IH (fapplys fs evs) Hv1 (all_ok_writes _ _ _ Hw Hcs)) as (Hw2 & Hv2 & Hfx2 & Hct2).
      split; [rewrite forallb_app, Hw, Hw2; reflexivity|].
      cbn zeta. rewrite fapplys_app. split; [exact Hv2|]. split.
      + intros f off. rewrite Hfx2, Hfx1, lastw_cons.
        destruct (lastw cs f off); cbn [over]; [reflexivity|]. destruct (hits c f off); reflexivity.
      + intros f slot. rewrite Hct2, Hct1. reflexivity.
  Qed.

  (** nothing fails: the event list is the concatenation of every command's events *)
  Lemma fexec_app a : forall b fs,
    files_vinv fs -> all_ok fs a ->
    fexec fs (a ++ b) = fexec fs a ++ fexec (fapplys fs (fexec fs a)) b.
  Proof.
    induction a as [|c a IH]; intros b fs Hv Hok; [reflexivity|].
    inversion Hok as [|? ? Hc Hcs]; subst.
    destruct (fstep_ok fs c Hv Hc) as (evs & Hs & Hw & Hv1 & _).
    cbn [app fexec]. rewrite Hs. rewrite IH by (try assumption; apply all_ok_writes; assumption).
    rewrite <- app_assoc, fapplys_app. reflexivity.
  Qed.

  (* ---------------------------------------------------------------- prefixes of an execution *)

  (** the state a crash inside an execution can leave: [n] commands done, and possibly the data block of
      command [n] written while its index triple is not ([dangling]) *)
  Lemma fexec_prefix cs : forall fs j,
    files_vinv fs -> all_ok fs cs ->
    exists n d, firstn j (fexec fs cs) = fexec fs (firstn n cs) ++ d /\
      (d = [] \/
       exists c evs e1 e2, nth_error cs n = Some c /\ c_kind c = KVar /\
         fstep (fapplys fs (fexec fs (firstn n cs))) c = Some evs /\ evs = [e1; e2] /\ d = [e1]).
  Proof.
    induction cs as [|c cs IH]; intros fs j Hv Hok.
    - exists 0%nat, []. rewrite firstn_nil. split; [reflexivity|left; reflexivity].
    - inversion Hok as [|? ? Hc Hcs]; subst.
      destruct (fstep_ok fs c Hv Hc) as (evs & Hs & Hw & Hv1 & _).
      cbn [fexec]. rewrite Hs.
      destruct (Nat.le_gt_cases (length evs) j) as [Hle|Hgt].
      + (* the whole first command is inside the prefix *)
        rewrite firstn_app. rewrite firstn_all2 by assumption.
        destruct (IH (fapplys fs evs) (j - length evs)%nat Hv1 (all_ok_writes _ _ _ Hw Hcs)) as (n & d & Hf & Hd).
        exists (S n), d. cbn [firstn fexec]. rewrite Hs, Hf, <- app_assoc. split; [reflexivity|].
        destruct Hd as [->|(c' & evs' & e1 & e2 & Hn & Hk & Hst & He & ->)]; [left; reflexivity|].
        right. exists c', evs', e1, e2. cbn [nth_error]. rewrite fapplys_app. auto.
      + (* the prefix ends inside the first command's events *)
        rewrite firstn_app. assert (j - length evs = 0)%nat as -> by lia. rewrite firstn_O, app_nil_r.
        exists 0%nat. cbn [firstn fexec app].
        unfold fstep in Hs. destruct (c_kind c) eqn:Ek.
        * unfold ffixed in Hs. destruct (alookup (c_fid c) fs); [|discriminate]. inversion Hs; subst.
          cbn [length] in Hgt. assert (j = 0)%nat as -> by lia. exists []. split; [reflexivity|left; reflexivity].
        * assert (exists e1 e2, evs = [e1; e2]) as (e1 & e2 & ->).
          { unfold findirect in Hs. destruct (alookup (c_fid c) fs) as [[| |s ix eof bl]|]; try discriminate.
            destruct (c_off c <? eof); [|discriminate]. destruct (slot_triple ix (c_off c)) as [[i o] l].
            destruct (if i =? 0 then Some [] else read_block bl eof o l); [|discriminate].
            inversion Hs. eauto. }
          cbn [length] in Hgt. destruct j as [|[|j]]; [| |lia].
          -- exists []. split; [reflexivity|left; reflexivity].
          -- exists [e1]. split; [reflexivity|]. right. exists c, [e1; e2], e1, e2. cbn [nth_error fapplys fold_left].
             unfold fstep. rewrite Ek. auto.
  Qed.
End WithClen.
