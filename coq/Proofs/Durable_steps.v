(** Proofs/Durable_steps.v — every step of the server (enqueue with catalog calls, flush, acknowledgement,
    checkpoint, rotation, shutdown) preserves the boundary invariant, and EVERY PREFIX of the system
    calls it issues is an image from which recovery succeeds with the right contents ([Good]). *)
From Coq Require Import ZArith NArith List Bool Lia Permutation.
From Coq.Strings Require Import Byte.
Import ListNotations.
Require Import MS.Base.Res MS.Generated.Src_durab MS.Model.Wal MS.Model.Replay
  MS.Proofs.Durable_wal MS.Proofs.Durable_files MS.Proofs.Durable_exec MS.Proofs.Durable_flush
  MS.Proofs.Durable_recover MS.Proofs.Durable_sem MS.Proofs.Durable_ext MS.Proofs.Durable_crash
  MS.Proofs.Durable_inv.
Local Open Scope Z_scope.

Lemma In_firstn_incl {A} (n : nat) : forall (l : list A) x, In x (firstn n l) -> In x l.
Proof.
  induction n as [|n IH]; intros l x H; [destruct H|]. destruct l as [|y l]; [destruct H|].
  cbn [firstn In] in *. destruct H as [H|H]; [left; assumption|right; apply IH, H].
Qed.

Lemma firstn_app_le {A} (a b : list A) j : (j <= length a)%nat -> firstn j (a ++ b) = firstn j a.
Proof. intros H. rewrite firstn_app. assert (j - length a = 0)%nat as -> by lia. rewrite firstn_O, app_nil_r. reflexivity. Qed.

Lemma firstn_app_ge {A} (a b : list A) j : (length a <= j)%nat -> firstn j (a ++ b) = a ++ firstn (j - length a) b.
Proof. intros H. rewrite firstn_app, firstn_all2 by assumption. reflexivity. Qed.

Lemma nth_error_app_lt {A} (a b : list A) k : (k < length a)%nat -> nth_error (a ++ b) k = nth_error a k.
Proof. apply nth_error_app1. Qed.

Lemma firstn_snoc_inv {A} (l x : list A) (e : A) j :
  (j <= length l)%nat -> firstn j l = x ++ [e] ->
  exists j', j = S j' /\ firstn j' l = x /\ nth_error l j' = Some e.
Proof.
  intros Hj H. assert (Hl : length (firstn j l) = j) by (apply firstn_length_le; assumption).
  rewrite H, app_length in Hl. cbn in Hl. destruct j as [|j']; [lia|]. exists j'. split; [reflexivity|].
  assert (Hx : length x = j') by lia.
  assert (Hlt : (j' < length l)%nat) by lia.
  pose proof (firstn_skipn j' l) as Hs.
  destruct (skipn j' l) as [|y r] eqn:Esk.
  { exfalso. assert (length (skipn j' l) = length l - j')%nat by apply skipn_length. rewrite Esk in H0. cbn in H0. lia. }
  assert (Hf : firstn (S j') l = firstn j' l ++ [y]).
  { rewrite <- Hs at 1. rewrite firstn_app_ge by (rewrite firstn_length_le; lia).
    rewrite firstn_length_le by lia. replace (S j' - j')%nat with 1%nat by lia. reflexivity. }
  rewrite Hf in H. apply app_inj_tail in H as [H1 H2]. subst. split; [reflexivity|].
  rewrite <- Hs. rewrite nth_error_app2 by (rewrite firstn_length_le; lia).
  rewrite firstn_length_le by lia. replace (j' - j')%nat with 0%nat by lia. reflexivity.
Qed.

Section WithClen.
  Variable clen : list record -> Z.
  Hypothesis clen_pos : forall x, 0 < clen x.
  Variable owner2 : Z.

  Notation CrashOK := (CrashOK clen owner2).
  Notation BInv := (BInv).

  Definition Good (im : img) (c : cst) (evs : list event) (st' : sstate) : Prop :=
    (exists old segs cur, BInv old segs cur (apply_events im evs) st' (cfold c evs)) /\
    (forall j, (j <= length evs)%nat -> gwin im evs j = true ->
               CrashOK (apply_events im (firstn j evs)) (cfold c (firstn j evs))).

  Lemma gwin_app_le im a b j : (j <= length a)%nat -> gwin im (a ++ b) j = gwin im a j.
  Proof.
    intros H. destruct j as [|k]; [reflexivity|]. cbn [gwin].
    rewrite nth_error_app1 by lia. rewrite firstn_app_le by lia. reflexivity.
  Qed.

  Lemma gwin_app_gt im a b j : (length a < j)%nat ->
    gwin im (a ++ b) j = gwin (apply_events im a) b (j - length a).
  Proof.
    intros H. destruct j as [|k]; [lia|]. cbn [gwin].
    replace (S k - length a)%nat with (S (k - length a)) by lia. cbn [gwin].
    rewrite nth_error_app2 by lia. rewrite firstn_app_ge by lia. rewrite apply_events_app. reflexivity.
  Qed.

  Lemma Good_seq im c e1 st1 e2 st2 :
    Good im c e1 st1 ->
    (forall old segs cur, BInv old segs cur (apply_events im e1) st1 (cfold c e1) ->
                          Good (apply_events im e1) (cfold c e1) e2 st2) ->
    Good im c (e1 ++ e2) st2.
  Proof.
    intros [(old & segs & cur & Hb) Hc1] H2. destruct (H2 _ _ _ Hb) as [Hb2 Hc2]. split.
    - rewrite apply_events_app, cfold_app. exact Hb2.
    - intros j Hj Hg. destruct (Nat.le_gt_cases j (length e1)) as [Hle|Hgt].
      + rewrite firstn_app_le by assumption. rewrite gwin_app_le in Hg by assumption. apply Hc1; assumption.
      + rewrite firstn_app_ge by lia. rewrite apply_events_app, cfold_app.
        rewrite gwin_app_gt in Hg by assumption. apply Hc2; [rewrite app_length in Hj; lia|exact Hg].
  Qed.

  Lemma Good_nil old segs cur im st c : BInv old segs cur im st c -> Good im c [] st.
  Proof.
    intros Hb. split; [exists old, segs, cur; exact Hb|].
    intros j Hj _. cbn in Hj. assert (j = 0)%nat as -> by lia. cbn. eapply binv_crash; eassumption.
  Qed.

  (* ---------------------------------------------------------------- images that differ from a boundary
     image only by fresh empty files *)

  Lemma crash_boundary_ext old segs cur im st c im' :
    BInv old segs cur im st c -> i_wals im' = i_wals im -> ext (i_files im) (i_files im') ->
    CrashOK im' c.
  Proof.
    intros [Hw _ Hown Hsegs Hincr _ _ _ Hclean Hmeta -> _] Hw' He.
    unfold live_tgs in Hclean |- *. rewrite app_assoc in Hclean |- *.
    eapply (crash_clean clen clen_pos owner2 im' _ WFS_OPEN WRS_NOTREPLAYED (s_owner st)).
    - unfold one_wal. rewrite Hw'. exact Hw.
    - pose proof (live_shape old segs cur (s_owner st) [] false Hown Hsegs Hincr Hmeta torn_nil) as H.
      rewrite app_nil_r in H. apply H. intros ? ? [].
    - eapply ext_FClean; eassumption.
  Qed.

  (* ---------------------------------------------------------------- acknowledgement *)

  Lemma good_ack old segs cur im st c i :
    BInv old segs cur im st c -> Good im c [EAck i] st.
  Proof.
    intros Hb. split; [exists old, segs, cur; exact Hb|].
    intros j Hj _. cbn in Hj. destruct j as [|[|j]]; [| |lia]; cbn; eapply binv_crash; eassumption.
  Qed.

  (* ---------------------------------------------------------------- enqueue (with catalog calls) *)

  Lemma good_enqueue old segs cur im st c pre cmds :
    BInv old segs cur im st c ->
    pre_okb (map fst (i_files im)) pre = true ->
    forallb (cmd_okb (fapplys (i_files im) pre)) cmds = true ->
    Good im c pre (with_queue st (s_queue st ++ cmds)).
  Proof.
    intros Hb Hpre Hcmds.
    pose proof (pre_okb_is_cat _ _ Hpre) as Hcat.
    assert (Hpref : forall j, i_wals (apply_events im (firstn j pre)) = i_wals im
                              /\ ext (i_files im) (i_files (apply_events im (firstn j pre)))
                              /\ cfold c (firstn j pre) = c).
    { intros j.
      assert (Hcj : forallb is_cat (firstn j pre) = true).
      { rewrite forallb_forall in *. intros e He. apply Hcat. eapply In_firstn_incl. exact He. }
      split; [apply i_wals_files_onlys, is_cat_files_only, Hcj|].
      split; [|apply cfold_quiet, is_cat_quiet, Hcj].
      rewrite i_files_apply_events. eapply pre_prefix; [exact Hpre|apply covers_dom|apply ext_refl]. }
    split.
    - destruct (Hpref (length pre)) as (Hw & He & Hc). rewrite firstn_all in Hw, He, Hc.
      exists old, segs, cur. destruct Hb as [Hbw Hw0 Hown Hsegs Hincr Htg Hlast [Hq Hqm] Hclean Hmeta Hcst Hnn].
      destruct (cmds_okb_spec _ _ Hcmds) as [Hok2 Hm2]. rewrite <- i_files_apply_events in Hok2.
      constructor; cbn [with_queue s_owner s_wal s_tgid s_last s_queue]; try assumption.
      + rewrite Hw. exact Hbw.
      + split; [apply all_ok_app; split; [eapply ext_all_ok; eassumption|exact Hok2]|apply Forall_app; split; assumption].
      + eapply ext_FClean; eassumption.
      + rewrite Hc. exact Hcst.
      + rewrite i_files_apply_events. eapply pre_full_no_pnew; eassumption.
    - intros j _ _. destruct (Hpref j) as (Hw & He & Hc). rewrite Hc.
      eapply crash_boundary_ext; eassumption.
  Qed.

  (* ---------------------------------------------------------------- WAL appends *)

  Lemma apply_wal_apps rs : forall im stt recs,
    i_wals im = [(0%N, {| wf_status := stt; wf_recs := recs |})] ->
    i_wals (apply_events im (map (EWalApp 0%N) rs)) = [(0%N, {| wf_status := stt; wf_recs := recs ++ rs |})]
    /\ i_files (apply_events im (map (EWalApp 0%N) rs)) = i_files im.
  Proof.
    induction rs as [|r rs IH]; intros im stt recs Hw.
    - cbn. rewrite app_nil_r. auto.
    - cbn [map apply_events fold_left]. fold (apply_events (apply_event im (EWalApp 0%N r)) (map (EWalApp 0%N) rs)).
      destruct (IH (apply_event im (EWalApp 0%N r)) stt (recs ++ [r])) as [H1 H2].
      + cbn [apply_event upd_wal i_wals]. rewrite Hw. reflexivity.
      + rewrite H1, H2, <- app_assoc. auto.
  Qed.

  Lemma wal_events_split w t cs : wal_events w t cs = map (EWalApp w) (tg_recs t cs) ++ [EWalFsync w].
  Proof. reflexivity. Qed.

  (* ---------------------------------------------------------------- the primary phase of a flush *)

  Definition fguard (fs : files) (e : event) : bool :=
    match e with
    | EVData f pos _ _ => match alookup f fs with Some (PV _ _ eof _) => eof <=? pos | _ => true end
    | _ => true
    end.
  Lemma ev_guard_files im e : ev_guard im e = fguard (i_files im) e.
  Proof. reflexivity. Qed.

  Lemma lastw_some_sub a b f off : (forall c, In c a -> In c b) -> lastw a f off <> None -> lastw b f off <> None.
  Proof.
    intros Hsub Ha Hb. apply Ha. apply lastw_none_iff. intros c Hin.
    rewrite lastw_none_iff in Hb. apply Hb, Hsub, Hin.
  Qed.

  Lemma no_var_sub a b : (forall c, In c a -> In c b) -> no_var b -> no_var a.
  Proof. unfold no_var. rewrite !Forall_forall. intros Hs Hb c Hin. apply Hb, Hs, Hin. Qed.

  Lemma all_ok_sub fs a b : (forall c, In c a -> In c b) -> all_ok fs b -> all_ok fs a.
  Proof. unfold all_ok. rewrite !Forall_forall. intros Hs Hb c Hin. apply Hb, Hs, Hin. Qed.

  (** files after an arbitrary prefix of the primary writes of TG [t] *)
  Lemma prim_prefix_partial fs all t gcs j :
    FClean fs all -> all_ok fs (snd t) -> (forall c, In c gcs -> In c (snd t)) ->
    (j <= length (fexec clen fs gcs))%nat ->
    (forall j' e, j = S j' -> nth_error (fexec clen fs gcs) j' = Some e ->
                  fguard (fapplys fs (firstn j' (fexec clen fs gcs))) e = true) ->
    FPartial (fapplys fs (firstn j (fexec clen fs gcs))) all t.
  Proof.
    intros [Hv Hok Hfx Hct] Hokt Hsub Hj Hg.
    assert (Hokg : all_ok fs gcs) by (eapply all_ok_sub; eassumption).
    destruct (fexec_prefix clen clen_pos gcs fs j Hv Hokg) as (n & d & Hf & Hd).
    assert (Hsubn : forall c, In c (firstn n gcs) -> In c (snd t)).
    { intros c Hin. apply Hsub. eapply In_firstn_incl. exact Hin. }
    assert (Hokn : all_ok fs (firstn n gcs)) by (eapply all_ok_sub; [|exact Hokt]; exact Hsubn).
    destruct (fexec_ok clen clen_pos _ fs Hv Hokn) as (Hwn & Hvn & Hfxn & Hctn).
    set (fsn := fapplys fs (fexec clen fs (firstn n gcs))) in *.
    assert (Hokall : all_ok fs (cmds_of (all ++ [t]))).
    { rewrite cmds_of_app. apply all_ok_app. split; [exact Hok|]. unfold cmds_of. cbn. rewrite app_nil_r. exact Hokt. }
    (* the facts at fsn *)
    assert (Pfx : forall f off, fx_get fsn f off = lastw (cmds_of all) f off \/ lastw (snd t) f off <> None).
    { intros f off. rewrite Hfxn, Hfx. destruct (lastw (firstn n gcs) f off) eqn:E; cbn [over]; [|left; reflexivity].
      right. eapply lastw_some_sub; [exact Hsubn|]. congruence. }
    assert (Pct : forall f slot r, In r (ct_after (cmds_of all) [] f slot) -> In r (content fsn f slot)).
    { intros f slot r Hr. rewrite Hctn. apply ct_after_mono. rewrite Hct. exact Hr. }
    assert (Pex : no_var (snd t) -> forall f slot, content fsn f slot = ct_after (cmds_of all) [] f slot).
    { intros Hnv f slot. rewrite Hctn, ct_after_novar by (eapply no_var_sub; eassumption). apply Hct. }
    rewrite Hf, fapplys_app. fold fsn.
    destruct Hd as [->|(c & evs & e1 & e2 & Hnth & Hk & Hst & -> & ->)].
    - cbn [fapplys fold_left]. constructor; try assumption. apply all_ok_writes; assumption.
    - (* a dangling data block: by the guard it was appended at the end of the file *)
      assert (Hcin : In c (snd t)) by (apply Hsub; eapply nth_error_In; exact Hnth).
      destruct (firstn_snoc_inv _ _ _ _ Hj Hf) as (j' & -> & Hfj & Hnj).
      specialize (Hg j' e1 eq_refl Hnj). rewrite Hfj in Hg. fold fsn in Hg.
      unfold fstep in Hst. rewrite Hk in Hst. unfold findirect in Hst.
      destruct (alookup (c_fid c) fsn) as [[| |s ix eof bl]|] eqn:El; try discriminate.
      destruct (c_off c <? eof); [|discriminate].
      destruct (slot_triple ix (c_off c)) as [[i o] l] eqn:Et.
      destruct (if i =? 0 then Some [] else read_block bl eof o l) as [oldc|] eqn:Eold; [|discriminate].
      inversion Hst; subst e1 e2. clear Hst.
      pose proof (Hvn _ _ _ _ _ El) as Hvi.
      cbn [fguard] in Hg. rewrite El in Hg. apply Z.leb_le in Hg.
      assert (Hpos : (if o + l =? eof then o else eof) = eof).
      { destruct (Z.eqb_spec (o + l) eof) as [E|E]; [|reflexivity]. exfalso.
        destruct (Z.eq_dec i 0) as [->|Hi].
        - destruct (v_zero _ _ _ _ Hvi _ _ _ _ Et eq_refl) as [-> ->]. destruct Hvi. lia.
        - destruct (v_read _ _ _ _ Hvi _ _ _ _ Et Hi) as [Hl _]. lia. }
      rewrite Hpos in *.
      set (data := sort_ticks (oldc ++ c_data c)) in *. set (len := clen data) in *.
      destruct (vinv_dangling_append s ix eof bl len data Hvi (clen_pos _)) as [Hv2 Hc2].
      cbn [fapplys fold_left fapply].
      set (fsj := aupdate (c_fid c) _ fsn).
      assert (Hlook : forall f, alookup f fsj = if N.eqb f (c_fid c)
                 then Some (PV s ix (Z.max eof (eof + len)) ((eof, (len, data)) :: bl)) else alookup f fsn).
      { intros f. unfold fsj. destruct (N.eqb_spec f (c_fid c)) as [->|Hne].
        - rewrite alookup_aupdate_same, El. reflexivity.
        - rewrite alookup_aupdate_other by assumption. reflexivity. }
      assert (Hfxj : forall f off, fx_get fsj f off = fx_get fsn f off).
      { intros f off. unfold fx_get. rewrite Hlook. destruct (N.eqb_spec f (c_fid c)) as [->|]; [rewrite El|]; reflexivity. }
      assert (Hctj : forall f slot, content fsj f slot = content fsn f slot).
      { intros f slot. unfold content. rewrite Hlook. destruct (N.eqb_spec f (c_fid c)) as [->|]; [|reflexivity].
        rewrite El. apply Hc2. }
      constructor.
      + intros f s' ix' eof' bl' Hl'. rewrite Hlook in Hl'. destruct (N.eqb_spec f (c_fid c)).
        * inversion Hl'; subst. exact Hv2.
        * eapply Hvn; eassumption.
      + change fsj with (fapplys fsn [EVData (c_fid c) eof len data]). apply all_ok_writes; [reflexivity|].
        apply all_ok_writes; assumption.
      + intros f off. rewrite Hfxj. apply Pfx.
      + intros f slot r Hr. rewrite Hctj. apply Pct, Hr.
      + intros Hnv. exfalso. unfold no_var in Hnv. rewrite Forall_forall in Hnv. specialize (Hnv _ Hcin). congruence.
  Qed.

  (** files after all primary writes of TG [t] *)
  Lemma prim_full_clean fs all t ord :
    FClean fs all -> all_ok fs (snd t) ->
    FClean (fapplys fs (fexec clen fs (grouped (file_order ord (snd t)) (snd t)))) (all ++ [t]).
  Proof.
    intros [Hv Hok Hfx Hct] Hokt.
    assert (Hokg : all_ok fs (grouped (file_order ord (snd t)) (snd t))) by (apply all_ok_grouped; assumption).
    destruct (fexec_ok clen clen_pos _ fs Hv Hokg) as (Hw & Hv' & Hfx' & Hct').
    assert (Ht : cmds_of [t] = snd t) by (unfold cmds_of; cbn; apply app_nil_r).
    constructor.
    - exact Hv'.
    - apply all_ok_writes; [exact Hw|]. rewrite cmds_of_app, Ht. apply all_ok_app. split; assumption.
    - intros f off. rewrite Hfx', lastw_grouped, Hfx, cmds_of_app, Ht, lastw_app. reflexivity.
    - intros f slot. rewrite Hct', ct_after_grouped, Hct, cmds_of_app, Ht, ct_after_app. reflexivity.
  Qed.
End WithClen.
