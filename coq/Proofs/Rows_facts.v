(** Facts about Model/Rows.v: the serialize / get_column round trip (property C29). *)
From Coq Require Import ZArith NArith List Bool Lia Arith.
From Coq.Strings Require Import Byte.
Import ListNotations.
Require Import MS.Base.GoInt MS.Base.Res MS.Base.Hex MS.Generated.Src_io MS.Model.Rows.

(** * slices *)
Lemma slice_ok l off len : off + len <= length l -> slice l off len = Ok (firstn len (skipn off l)).
Proof. intros H. unfold slice. apply Nat.leb_le in H. rewrite H. reflexivity. Qed.

Lemma firstn_skipn_app_l (a b : list byte) off len :
  off + len <= length a -> firstn len (skipn off (a ++ b)) = firstn len (skipn off a).
Proof.
  intros H. rewrite skipn_app. rewrite firstn_app.
  replace (len - length (skipn off a)) with 0 by (rewrite skipn_length; lia).
  cbn. rewrite app_nil_r. reflexivity.
Qed.

Lemma firstn_skipn_app_r (a b : list byte) off len :
  firstn len (skipn (length a + off) (a ++ b)) = firstn len (skipn off b).
Proof.
  rewrite skipn_app. rewrite skipn_all2 by lia. cbn.
  replace (length a + off - length a) with off by lia. reflexivity.
Qed.

Lemma skipn_skipn' {A} (a b : nat) (l : list A) : skipn a (skipn b l) = skipn (b + a) l.
Proof.
  revert l; induction b as [|b IH]; intros l; [reflexivity|].
  destruct l; cbn; [destruct a; reflexivity|apply IH].
Qed.

(** * chunks of a column *)
Definition chunk (sz : nat) (d : list byte) (i : nat) : list byte := firstn sz (skipn (i * sz) d).

Lemma chunk_length sz d i : (S i) * sz <= length d -> length (chunk sz d i) = sz.
Proof. intros H. unfold chunk. rewrite firstn_length, skipn_length. cbn in H. lia. Qed.

Lemma elem_ok sz d i : (S i) * sz <= length d -> elem sz d i = Ok (chunk sz d i).
Proof. intros H. unfold elem. apply slice_ok. cbn in H. lia. Qed.

Lemma chunks_concat sz n : forall d, length d = n * sz ->
  concat (map (chunk sz d) (seq 0 n)) = d.
Proof.
  induction n as [|n IH]; intros d Hd.
  - cbn in *. destruct d; [reflexivity|discriminate].
  - cbn [seq map concat]. rewrite <- seq_shift, map_map.
    transitivity (firstn sz d ++ skipn sz d); [|apply firstn_skipn].
    apply (f_equal2 (@app byte)); [reflexivity|].
    rewrite <- (IH (skipn sz d)).
    + f_equal. apply map_ext. intros j. unfold chunk.
      rewrite skipn_skipn'. reflexivity.
    + rewrite skipn_length. cbn in Hd. lia.
Qed.

(** * well-formedness, unpacked *)
Record wf_cs (cols : list col) (n : nat) : Prop := {
  wf_ec : exists ec rest, cols = ec :: rest /\ cname ec = epoch_name /\ ctype ec = ET_INT64
                          /\ Forall (fun c => is_epoch_name (cname c) = false) rest;
  wf_nodup : NoDup (map cname cols);
  wf_supp : Forall (fun c => getcol_supported (ctype c) = true) cols;
  wf_len : Forall (fun c => length (cdata c) = n * tsize (ctype c)) cols;
  wf_small : (Z.of_nat (sum_sizes cols) < 1000000)%Z
}.

Lemma nodup_names_spec l : nodup_names l = true -> NoDup l.
Proof.
  induction l as [|x r IH]; cbn; intros H; [constructor|].
  apply andb_prop in H as [H1 H2]. constructor; [|auto].
  intros Hin. apply negb_true_iff in H1.
  assert (existsb (bytes_eqb x) r = true); [|congruence].
  apply existsb_exists. exists x. split; [assumption|]. apply bytes_eqb_eq. reflexivity.
Qed.

Lemma wf_csb_spec cols n : wf_csb cols n = true -> wf_cs cols n.
Proof.
  destruct cols as [|ec rest]; [discriminate|]. unfold wf_csb.
  rewrite !andb_true_iff. intros [[[[[[H1 H2] H3] H4] H5] H6] H7].
  constructor.
  - exists ec, rest. repeat split.
    + apply bytes_eqb_eq; assumption.
    + apply Z.eqb_eq; assumption.
    + rewrite forallb_forall in H4. apply Forall_forall. intros c Hc.
      apply negb_true_iff. auto.
  - apply nodup_names_spec; assumption.
  - rewrite forallb_forall in H5. apply Forall_forall. auto.
  - rewrite forallb_forall in H6. apply Forall_forall. intros c Hc. apply Nat.eqb_eq. auto.
  - apply Z.ltb_lt; assumption.
Qed.

Lemma supported_size_pos t : getcol_supported t = true -> 0 < tsize t.
Proof.
  unfold getcol_supported. cbn [existsb]. rewrite !orb_true_iff, !Z.eqb_eq.
  intros H. repeat (destruct H as [H|H]; [subst t; vm_compute; lia|]). discriminate.
Qed.

Lemma tsize_int64 : tsize ET_INT64 = 8.
Proof. reflexivity. Qed.

Lemma epoch_name_is_epoch : is_epoch_name epoch_name = true.
Proof. reflexivity. Qed.

(** * the row image *)
Definition row (cols : list col) (pad i : nat) : list byte :=
  concat (map (fun c => chunk (tsize (ctype c)) (cdata c) i) cols) ++ repeat x00 pad.

Lemma cols_concat_length cols n i : i < n ->
  Forall (fun c => length (cdata c) = n * tsize (ctype c)) cols ->
  length (concat (map (fun c => chunk (tsize (ctype c)) (cdata c) i) cols)) = sum_sizes cols.
Proof.
  intros Hi. induction cols as [|c r IH]; intros H; [reflexivity|].
  inversion H as [|? ? Hc Hr]; subst. cbn. rewrite app_length, IH by assumption.
  rewrite chunk_length; [reflexivity|]. rewrite Hc. apply Nat.mul_le_mono_r. lia.
Qed.

Lemma row_length cols pad n i : i < n ->
  Forall (fun c => length (cdata c) = n * tsize (ctype c)) cols ->
  length (row cols pad i) = sum_sizes cols + pad.
Proof.
  intros Hi H. unfold row. rewrite app_length, repeat_length.
  rewrite (cols_concat_length cols n i) by assumption. reflexivity.
Qed.

Lemma ser_cols_ok cols n i : i < n ->
  Forall (fun c => is_epoch_name (cname c) = false) cols ->
  Forall (fun c => length (cdata c) = n * tsize (ctype c)) cols ->
  ser_cols cols i = Ok (concat (map (fun c => chunk (tsize (ctype c)) (cdata c) i) cols)).
Proof.
  intros Hi. induction cols as [|c r IH]; intros He Hl; [reflexivity|].
  inversion He as [|? ? He1 He2]; subst. inversion Hl as [|? ? Hl1 Hl2]; subst.
  cbn [ser_cols]. rewrite He1. rewrite elem_ok.
  - cbn [bindR]. rewrite IH by assumption. reflexivity.
  - rewrite Hl1. apply Nat.mul_le_mono_r. lia.
Qed.

Lemma ser_rows_ok ec rest pad n : forall k i, i + k <= n ->
  cname ec = epoch_name -> ctype ec = ET_INT64 ->
  Forall (fun c => is_epoch_name (cname c) = false) rest ->
  Forall (fun c => length (cdata c) = n * tsize (ctype c)) (ec :: rest) ->
  ser_rows (cdata ec) (ec :: rest) pad i k = Ok (concat (map (row (ec :: rest) pad) (seq i k))).
Proof.
  induction k as [|k IH]; intros i Hik Hn Ht He Hl; [reflexivity|].
  cbn [ser_rows]. inversion Hl as [|? ? Hl1 Hl2]; subst.
  rewrite elem_ok.
  2:{ rewrite Hl1, Ht, tsize_int64. apply Nat.mul_le_mono_r. lia. }
  cbn [bindR ser_cols]. rewrite Hn, epoch_name_is_epoch.
  rewrite (ser_cols_ok rest n i) by (try assumption; lia).
  cbn [bindR]. rewrite IH by (try assumption; lia).
  cbn [bindR seq map concat]. f_equal. unfold row at 2. cbn [map concat].
  rewrite Ht, tsize_int64. rewrite <- !app_assoc. reflexivity.
Qed.

(** * reading back *)
Lemma sum_sizes_cons c r : sum_sizes (c :: r) = tsize (ctype c) + sum_sizes r.
Proof. reflexivity. Qed.

(** offset of a column inside the row image *)
Lemma find_off_chunk : forall cols c off0,
  In c cols -> NoDup (map cname cols) ->
  Forall (fun c => getcol_supported (ctype c) = true) cols ->
  exists off, find_off (shapes cols) (cname c) off0 = Some (off0 + off, ctype c)
    /\ off + tsize (ctype c) <= sum_sizes cols
    /\ forall n i tail, i < n ->
         Forall (fun c => length (cdata c) = n * tsize (ctype c)) cols ->
         firstn (tsize (ctype c))
           (skipn off (concat (map (fun c => chunk (tsize (ctype c)) (cdata c) i) cols) ++ tail))
         = chunk (tsize (ctype c)) (cdata c) i.
Proof.
  induction cols as [|c0 r IH]; intros c off0 Hin Hnd Hs; [contradiction|].
  inversion Hnd as [|? ? Hnotin Hnd']; subst.
  inversion Hs as [|? ? Hs1 Hs2]; subst.
  assert (Hc0len : forall n i, i < n -> length (cdata c0) = n * tsize (ctype c0) ->
             length (chunk (tsize (ctype c0)) (cdata c0) i) = tsize (ctype c0)).
  { intros n i Hi Hl1. apply chunk_length. rewrite Hl1. apply Nat.mul_le_mono_r. lia. }
  destruct Hin as [->|Hin].
  - exists 0. cbn [shapes map find_off]. rewrite (proj2 (bytes_eqb_eq _ _) eq_refl), Hs1.
    rewrite Nat.add_0_r. split; [reflexivity|]. split; [rewrite sum_sizes_cons; lia|].
    intros n i tail Hi Hl. inversion Hl as [|? ? Hl1 Hl2]; subst.
    cbn [map concat skipn]. rewrite <- app_assoc.
    rewrite firstn_app, (Hc0len n i Hi Hl1), Nat.sub_diag. cbn. rewrite app_nil_r.
    apply firstn_all2. rewrite (Hc0len n i Hi Hl1). lia.
  - destruct (IH c (off0 + tsize (ctype c0)) Hin Hnd' Hs2) as (off & Hf & Hle & Hch).
    exists (tsize (ctype c0) + off). cbn [shapes map find_off].
    assert (Hne : bytes_eqb (cname c0) (cname c) = false).
    { destruct (bytes_eqb (cname c0) (cname c)) eqn:E; [|reflexivity].
      apply bytes_eqb_eq in E. exfalso. apply Hnotin. rewrite E. apply in_map. assumption. }
    rewrite Hne. fold (shapes r). rewrite Hf. split; [f_equal; f_equal; lia|].
    split; [rewrite sum_sizes_cons; lia|].
    intros n i tail Hi Hl. inversion Hl as [|? ? Hl1 Hl2]; subst.
    cbn [map concat]. rewrite <- app_assoc.
    replace (tsize (ctype c0) + off)
      with (length (chunk (tsize (ctype c0)) (cdata c0) i) + off) by (rewrite (Hc0len n i Hi Hl1); reflexivity).
    rewrite (firstn_skipn_app_r _ _ off). apply (Hch n i tail Hi Hl2).
Qed.

Lemma sum_shape_sizes_shapes cols : sum_shape_sizes (shapes cols) = sum_sizes cols.
Proof.
  induction cols as [|c r IH]; [reflexivity|].
  change (tsize (ctype c) + sum_shape_sizes (shapes r) = tsize (ctype c) + sum_sizes r).
  rewrite IH. reflexivity.
Qed.

Lemma AlignedSize_spec z : (0 <= z < 1000000)%Z ->
  (z <= AlignedSize z < z + 8)%Z /\ (AlignedSize z mod 8 = 0)%Z.
Proof.
  intros H. unfold AlignedSize. cbv zeta.
  destruct (Z.eqb_spec (Z.rem z 8) 0) as [E|E].
  - rewrite Z.rem_mod_nonneg in E by lia. split; [lia|assumption].
  - rewrite Z.rem_mod_nonneg in * by lia.
    pose proof (Z.mod_pos_bound z 8 ltac:(lia)) as Hb.
    rewrite (wrap_small I64 (z + 8)) by (unfold in_ity; cbn; lia).
    rewrite wrap_small by (unfold in_ity; cbn; lia).
    split; [lia|]. Z.div_mod_to_equations. lia.
Qed.

(** * The round trip *)
Theorem serialize_get_column_roundtrip cols n align :
  wf_cs cols n ->
  exists data rl,
    serialize cols align = Ok (data, rl)
    /\ rl = (if align then aligned (sum_sizes cols) else sum_sizes cols)
    /\ length data = n * rl
    /\ forall c, In c cols ->
         get_column (shapes cols) data rl (cname c) = Ok (Some (ctype c, cdata c)).
Proof.
  intros [(ec & rest & -> & Hn & Ht & He) Hnd Hs Hl Hsm].
  set (cols := ec :: rest) in *.
  set (rl0 := sum_sizes cols).
  set (rl := if align then aligned rl0 else rl0).
  assert (Hrl : rl0 <= rl).
  { unfold rl. destruct align; [|lia]. unfold aligned.
    pose proof (AlignedSize_spec (Z.of_nat rl0) ltac:(unfold rl0; lia)). lia. }
  assert (Hec_len : length (cdata ec) = n * 8).
  { inversion Hl as [|? ? Hl1 _]; subst. rewrite Hl1, Ht, tsize_int64. reflexivity. }
  assert (Hrows : length (cdata ec) / 8 = n) by (rewrite Hec_len; apply Nat.div_mul; lia).
  assert (Hrl0 : 8 <= rl0).
  { unfold rl0, cols. cbn. rewrite Ht, tsize_int64. lia. }
  set (data := concat (map (row cols (rl - rl0)) (seq 0 n))).
  assert (Hrowlen : forall j, j < n -> length (row cols (rl - rl0) j) = rl).
  { intros j Hj. rewrite (row_length cols _ n j Hj Hl). fold rl0. lia. }
  assert (Hdatalen : length data = n * rl).
  { unfold data. clear - Hrowlen. 
    assert (G : forall k i, i + k <= n -> length (concat (map (row cols (rl - rl0)) (seq i k))) = k * rl).
    { induction k as [|k IH]; intros i Hik; [reflexivity|].
      cbn [seq map concat]. rewrite app_length, Hrowlen, IH by lia. cbn. lia. }
    apply G. lia. }
  exists data, rl. split; [|split; [reflexivity|split; [exact Hdatalen|]]].
  - unfold serialize.
    assert (Hex : existsb (fun c => is_epoch_name (cname c)) cols = true).
    { cbn. rewrite Hn, epoch_name_is_epoch. reflexivity. }
    rewrite Hex. cbn [negb]. cbn [find cols].
    rewrite Hn, (proj2 (bytes_eqb_eq _ _) eq_refl), Ht, Z.eqb_refl. cbn [negb].
    rewrite Hrows. fold cols. fold rl0. fold rl.
    unfold cols at 1.
    rewrite (ser_rows_ok ec rest (rl - rl0) n n 0) by (try assumption; lia).
    reflexivity.
  - intros c Hc. unfold get_column.
    assert (Hrl' : row_len (shapes cols) rl = rl).
    { unfold row_len. rewrite sum_shape_sizes_shapes. fold rl0. lia. }
    rewrite Hrl'.
    destruct (find_off_chunk cols c 0 Hc Hnd Hs) as (off & Hf & Hle & Hch).
    rewrite Hf. cbn [Nat.add].
    assert (Hnr : num_rows data rl = n).
    { unfold num_rows. rewrite Hdatalen.
      destruct (Nat.eqb_spec rl 0) as [E|E]; [lia|]. cbn [orb].
      destruct (Nat.eqb_spec (n * rl) 0) as [E0|E0].
      - destruct n; [reflexivity|]. cbn in E0. lia.
      - apply Nat.div_mul. assumption. }
    rewrite Hnr. unfold data.
    assert (Hgr : forall k i, i + k <= n ->
       get_rows (concat (map (row cols (rl - rl0)) (seq i k))) off rl (tsize (ctype c)) k
       = Ok (concat (map (chunk (tsize (ctype c)) (cdata c)) (seq i k)))).
    { induction k as [|k IHk]; intros i Hik; [reflexivity|].
      cbn [seq map concat get_rows].
      rewrite slice_ok by (rewrite app_length, Hrowlen by lia; fold rl0 in Hle; lia).
      cbn [bindR]. rewrite firstn_skipn_app_l by (rewrite Hrowlen by lia; fold rl0 in Hle; lia).
      assert (Hrow_i : firstn (tsize (ctype c)) (skipn off (row cols (rl - rl0) i))
                       = chunk (tsize (ctype c)) (cdata c) i)
        by (unfold row; apply (Hch n i _ ltac:(lia) Hl)).
      rewrite Hrow_i.
      assert (Hshift : forall dat m cur,
                 get_rows (row cols (rl - rl0) i ++ dat) (rl + cur) rl (tsize (ctype c)) m
                 = get_rows dat cur rl (tsize (ctype c)) m).
      { intros dat m. induction m as [|m IHm]; intros cur; [reflexivity|].
        cbn [get_rows].
        replace (rl + cur + rl) with (rl + (cur + rl)) by lia. rewrite IHm.
        assert (Hsl : slice (row cols (rl - rl0) i ++ dat) (rl + cur) (tsize (ctype c))
                      = slice dat cur (tsize (ctype c))).
        { unfold slice. rewrite app_length, Hrowlen by lia.
          replace (rl + cur + tsize (ctype c) <=? rl + length dat)
            with (cur + tsize (ctype c) <=? length dat)
            by (destruct (Nat.leb_spec (cur + tsize (ctype c)) (length dat));
                destruct (Nat.leb_spec (rl + cur + tsize (ctype c)) (rl + length dat)); lia).
          replace (skipn (rl + cur) (row cols (rl - rl0) i ++ dat)) with (skipn cur dat); [reflexivity|].
          pose proof (Hrowlen i ltac:(lia)) as Hri.
          rewrite skipn_app. rewrite (skipn_all2 (row cols (rl - rl0) i)) by lia.
          cbn [app]. f_equal. lia. }
        rewrite Hsl. reflexivity. }
      replace (off + rl) with (rl + off) by lia. rewrite Hshift, IHk by lia. reflexivity. }
    rewrite (Hgr n 0) by lia. cbn [bindR].
    rewrite chunks_concat; [reflexivity|]. rewrite Forall_forall in Hl. apply Hl. assumption.
Qed.
