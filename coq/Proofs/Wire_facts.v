(** Facts about Model/Wire.v: the dataset fold / msgpack / ToColumnSeriesMap round trip (property C27). *)
From Coq Require Import String ZArith NArith List Bool Lia Arith Permutation.
From Coq.Strings Require Import Byte.
Import ListNotations.
Require Import MS.Base.GoInt MS.Base.Res MS.Base.Hex MS.Generated.Src_io MS.Generated.Src_wire
  MS.Model.Rows MS.Proofs.Rows_facts MS.Model.Wire.

(** * the Res monad *)
Lemma bind_ok {A B} (r : Res A) (f : A -> Res B) b :
  bindR r f = Ok b -> exists a, r = Ok a /\ f a = Ok b.
Proof. destruct r; cbn; intros H; try discriminate. eauto. Qed.

(** * byte strings *)
Lemma bytes_eqb_refl a : bytes_eqb a a = true.
Proof. apply bytes_eqb_eq. reflexivity. Qed.

Lemma bytes_eqb_neq a b : a <> b -> bytes_eqb a b = false.
Proof. intros H. destruct (bytes_eqb a b) eqn:E; [|reflexivity]. apply bytes_eqb_eq in E. contradiction. Qed.

(** * association lists *)
Lemma aset_fresh {V} k (v : V) m : ~ In k (map fst m) -> aset k v m = m ++ [(k, v)].
Proof.
  induction m as [|[k' v'] r IH]; cbn; intros H; [reflexivity|].
  rewrite bytes_eqb_neq by (intros ->; apply H; left; reflexivity).
  rewrite IH by (intros Hin; apply H; right; exact Hin). reflexivity.
Qed.

Lemma alookup_none {V} k (m : list (key * V)) : ~ In k (map fst m) -> alookup k m = None.
Proof.
  induction m as [|[k' v'] r IH]; cbn; intros H; [reflexivity|].
  rewrite bytes_eqb_neq by (intros ->; apply H; left; reflexivity).
  apply IH. intros Hin; apply H; right; exact Hin.
Qed.

Lemma alookup_in {V} k (v : V) m : NoDup (map fst m) -> In (k, v) m -> alookup k m = Some v.
Proof.
  induction m as [|[k' v'] r IH]; cbn; intros Hnd Hin; [contradiction|].
  inversion Hnd as [|? ? Hnot Hnd']; subst.
  destruct Hin as [Heq|Hin].
  - inversion Heq; subst. rewrite bytes_eqb_refl. reflexivity.
  - rewrite bytes_eqb_neq; [apply IH; assumption|].
    intros ->. apply Hnot. apply (in_map fst) in Hin. exact Hin.
Qed.

(** * the type-string table is injective and every wire type has a positive size (finite check) *)
Definition tm_ok : bool :=
  forallb (fun p => (0 <? tsize (fst p))%nat
                    && match elem_of_typestr type_map (snd p) with Some t => Z.eqb t (fst p) | None => false end)
          type_map.
Lemma tm_ok_true : tm_ok = true.
Proof. vm_compute. reflexivity. Qed.

Lemma typestr_of_in tm t s : typestr_of tm t = Some s -> In (t, s) tm.
Proof.
  induction tm as [|[t' s'] r IH]; cbn; [discriminate|].
  destruct (Z.eqb_spec t t') as [->|Hne]; intros H.
  - inversion H; subst. left; reflexivity.
  - right. apply IH. exact H.
Qed.

Lemma typestr_facts t s : typestr_of type_map t = Some s ->
  0 < tsize t /\ elem_of_typestr type_map s = Some t.
Proof.
  intros H. apply typestr_of_in in H.
  pose proof tm_ok_true as Hok. unfold tm_ok in Hok. rewrite forallb_forall in Hok.
  specialize (Hok _ H). cbn [fst snd] in Hok. apply andb_prop in Hok as [H1 H2].
  apply Nat.ltb_lt in H1. split; [exact H1|].
  destruct (elem_of_typestr type_map s) as [t'|]; [|discriminate].
  apply Z.eqb_eq in H2. congruence.
Qed.

Lemma wire_supported_size t : wire_supported t = true -> 0 < tsize t.
Proof.
  unfold wire_supported. destruct (typestr_of type_map t) eqn:E; [|discriminate].
  intros _. apply (typestr_facts _ _ E).
Qed.

(** * slices of appended columns *)
Lemma slice_inv l off len s : slice l off len = Ok s -> off + len <= length l /\ s = firstn len (skipn off l).
Proof.
  unfold slice. destruct (off + len <=? length l) eqn:E; [|discriminate].
  intros H. inversion H. apply Nat.leb_le in E. auto.
Qed.

Lemma slice_app_l d e off len s : slice d off len = Ok s -> slice (d ++ e) off len = Ok s.
Proof.
  intros H. apply slice_inv in H as [Hle ->].
  rewrite slice_ok by (rewrite app_length; lia).
  rewrite firstn_skipn_app_l by exact Hle. reflexivity.
Qed.

Lemma slice_app_r (d e : list byte) : slice (d ++ e) (length d) (length e) = Ok e.
Proof.
  rewrite slice_ok by (rewrite app_length; lia).
  replace (length d) with (length d + 0) at 1 by lia.
  rewrite firstn_skipn_app_r. cbn. rewrite firstn_all. reflexivity.
Qed.

Lemma slice_all (e : list byte) : slice e 0 (length e) = Ok e.
Proof. rewrite slice_ok by lia. cbn. rewrite firstn_all. reflexivity. Qed.

(** * well-formedness, unpacked *)
Definition col_lens_ok (L : nat) (data : list (list byte)) (sh : list (list byte * Z)) : Prop :=
  Forall2 (fun d s => length d = L * tsize (snd s)) data sh.

Definition rows_okP (n : nat) (cs : list col) : Prop :=
  Forall (fun c => length (cdata c) = n * tsize (ctype c)) cs.

Record wf_bucket (sh : list (list byte * Z)) (b : bucket) : Prop := {
  wb_shape : shape_of (snd b) = sh;
  wb_len : rows_okP (cs_len (snd b)) (snd b);
  wb_key : decode_key (fst b) = fst b
}.

Record wf_shape (sh : list (list byte * Z)) : Prop := {
  ws_nonempty : sh <> [];
  ws_supported : Forall (fun s => wire_supported (snd s) = true) sh
}.

(** the guard as a proposition: a non-empty list of buckets with distinct canonical keys, all of the
    first bucket's shape (wire-supported types), each with equal column lengths (ZERO rows allowed) *)
Definition guardP (bs : list bucket) : Prop :=
  exists b0 rest, bs = b0 :: rest /\ NoDup (map fst bs)
                  /\ wf_shape (shape_of (snd b0)) /\ Forall (wf_bucket (shape_of (snd b0))) bs.

Lemma shape_eqb_eq a b : shape_eqb a b = true -> a = b.
Proof.
  revert b; induction a as [|[n t] a IH]; intros [|[m u] b]; cbn; intros H; try discriminate; [reflexivity|].
  apply andb_prop in H as [H H3]. apply andb_prop in H as [H1 H2].
  apply bytes_eqb_eq in H1. apply Z.eqb_eq in H2. rewrite (IH _ H3). congruence.
Qed.

Lemma shape_eqb_refl a : shape_eqb a a = true.
Proof. induction a as [|[n t] a IH]; cbn; [reflexivity|]. rewrite bytes_eqb_refl, Z.eqb_refl, IH. reflexivity. Qed.

Lemma rows_ok_spec n cs : rows_ok n cs = true -> rows_okP n cs.
Proof.
  unfold rows_ok, rows_okP. rewrite forallb_forall. intros H. apply Forall_forall.
  intros c Hc. apply Nat.eqb_eq. auto.
Qed.

Lemma cs_wf_parts cs : cs_wf cs = true ->
  cs <> [] /\ Forall (fun s => wire_supported (snd s) = true) (shape_of cs) /\ rows_okP (cs_len cs) cs.
Proof.
  unfold cs_wf. rewrite !andb_true_iff. intros [[[Hne _] Hsup] Hrows]. split; [|split].
  - destruct cs; [discriminate|discriminate].
  - rewrite forallb_forall in Hsup. unfold shape_of. apply Forall_map. apply Forall_forall. intros c Hc. cbn. auto.
  - apply rows_ok_spec. exact Hrows.
Qed.

Lemma guard_spec bs : guard bs = true -> guardP bs.
Proof.
  unfold guard, dom. destruct bs as [|b0 rest]; [discriminate|].
  rewrite !andb_true_iff. intros [[[[_ Hnd] Hwf] Hs] Hk].
  exists b0, rest. split; [reflexivity|]. split; [apply nodup_names_spec; exact Hnd|].
  unfold keys_canonical in Hk. unfold key_canonical in Hk.
  rewrite forallb_forall in Hwf, Hk.
  assert (Hb0 : cs_wf (snd b0) = true) by (apply Hwf; left; reflexivity).
  split.
  - destruct (cs_wf_parts _ Hb0) as (Hne & Hsup & _). constructor; [|exact Hsup].
    destruct (snd b0); [contradiction|]. cbn. discriminate.
  - apply Forall_forall. intros b Hb.
    assert (Hsh : shape_of (snd b) = shape_of (snd b0)).
    { destruct Hb as [<-|Hb]; [reflexivity|]. cbn in Hs. rewrite forallb_forall in Hs.
      apply shape_eqb_eq. auto. }
    destruct (cs_wf_parts _ (Hwf _ Hb)) as (_ & _ & Hrows).
    constructor; [exact Hsh|exact Hrows|]. apply bytes_eqb_eq. apply (Hk _ Hb).
Qed.

(** * type strings of a shape *)
Fixpoint tstrs (ts : list Z) : Res (list string) :=
  match ts with
  | [] => Ok []
  | t :: r => match typestr_of type_map t with
              | None => Rejected
              | Some s => do rest <- tstrs r; Ok (s :: rest)
              end
  end.

Lemma typestrs_tstrs cs : typestrs cs = tstrs (map ctype cs).
Proof. induction cs as [|c cr IH]; [reflexivity|]. cbn [typestrs map tstrs]. rewrite IH. reflexivity. Qed.

Lemma shape_types cs : map snd (shape_of cs) = map ctype cs.
Proof. unfold shape_of. rewrite map_map. reflexivity. Qed.

Lemma tstrs_length ts l : tstrs ts = Ok l -> length l = length ts.
Proof.
  revert l; induction ts as [|t r IH]; intros l H; cbn [tstrs] in H; [inversion H; reflexivity|].
  destruct (typestr_of type_map t); [|discriminate]. apply bind_ok in H as (rest & Hr & H).
  inversion H; subst. cbn. rewrite (IH _ Hr). reflexivity.
Qed.

Lemma tstrs_inj a : forall b l, tstrs a = Ok l -> tstrs b = Ok l -> a = b.
Proof.
  induction a as [|t a IH]; intros b l Ha Hb; cbn [tstrs] in Ha.
  - inversion Ha; subst. destruct b as [|u b]; [reflexivity|]. cbn [tstrs] in Hb.
    destruct (typestr_of type_map u); [|discriminate]. apply bind_ok in Hb as (r & _ & Hb). discriminate.
  - destruct (typestr_of type_map t) as [s|] eqn:Et; [|discriminate].
    apply bind_ok in Ha as (ra & Hra & Ha). inversion Ha; subst.
    destruct b as [|u b]; [cbn in Hb; discriminate|]. cbn [tstrs] in Hb.
    destruct (typestr_of type_map u) as [s'|] eqn:Eu; [|discriminate].
    apply bind_ok in Hb as (rb & Hrb & Hb). inversion Hb; subst.
    destruct (typestr_facts _ _ Et) as [_ H1]. destruct (typestr_facts _ _ Eu) as [_ H2].
    assert (t = u) by congruence. subst. f_equal. apply (IH _ _ Hra Hrb).
Qed.

Lemma types_match_refl l : types_match l l = true.
Proof. induction l as [|s l IH]; [reflexivity|]. cbn. rewrite String.eqb_refl. exact IH. Qed.

Lemma types_match_eq a : forall b, length a = length b -> types_match a b = true -> a = b.
Proof.
  induction a as [|s a IH]; intros [|u b] Hl H; cbn in *; try discriminate; [reflexivity|].
  apply andb_prop in H as [H1 H2]. apply String.eqb_eq in H1. subst. f_equal. apply IH; [lia|exact H2].
Qed.

(** * the encoder's invariant *)
Record Inv (sh : list (list byte * Z)) (w : wire) (done : list bucket) : Prop := {
  i_shapes : build_shapes w = Ok sh;
  i_types : tstrs (map snd sh) = Ok (w_types w);
  i_names : w_names w = map fst sh;
  i_cols : col_lens_ok (w_length w) (w_data w) sh;
  i_lens : w_lens w = map (fun b => (fst b, cs_len (snd b))) done;
  i_extract : Forall2 (fun b e => fst e = fst b
                                  /\ conv_cols sh (w_data w) (snd e) (cs_len (snd b)) = Ok (snd b))
                      done (w_start w)
}.

Lemma names_match_refl l : names_match l l = Ok true.
Proof. induction l as [|n l IH]; cbn; [reflexivity|]. rewrite bytes_eqb_refl. exact IH. Qed.

Lemma names_match_neq wn cn : length wn = length cn -> wn <> cn -> names_match wn cn = Ok false.
Proof.
  revert cn; induction wn as [|n wn IH]; intros [|m cn]; cbn; intros Hl Hne; try discriminate.
  - contradiction.
  - destruct (bytes_eqb n m) eqn:E; [|reflexivity].
    apply bytes_eqb_eq in E. subst m. apply IH; [lia|]. intros ->. contradiction.
Qed.

(** appending a bucket of the same shape: old extractions are preserved, the new one is exact *)
Lemma zip_app_spec : forall sh data cs L n,
  col_lens_ok L data sh -> shape_of cs = sh -> rows_okP n cs ->
  exists d', zip_app data (map cdata cs) = Ok d'
    /\ col_lens_ok (L + n) d' sh
    /\ (forall idx m r, conv_cols sh data idx m = Ok r -> conv_cols sh d' idx m = Ok r)
    /\ conv_cols sh d' L n = Ok cs.
Proof.
  induction sh as [|[nm t] sr IH]; intros data cs L n Hl Hs Hr.
  - inversion Hl; subst. destruct cs; [|discriminate]. exists []. cbn. repeat split; auto. constructor.
  - inversion Hl as [|d s dr sr' Hd Hdr]; subst. destruct cs as [|c cr]; [discriminate|].
    cbn in Hs. inversion Hs as [[Hn Ht Hsr]]. inversion Hr as [|? ? Hc Hcr]; subst.
    destruct (IH dr cr L n Hdr eq_refl Hcr) as (dr' & Hz & Hl' & Hpres & Hnew).
    exists ((d ++ cdata c) :: dr'). cbn [map zip_app]. rewrite Hz. cbn [bindR].
    split; [reflexivity|]. split; [|split].
    + constructor; [|exact Hl']. cbn [snd] in *. rewrite app_length, Hd, Hc. lia.
    + intros idx m r H. cbn [conv_cols] in *.
      apply bind_ok in H as (s & Hsl & H). apply bind_ok in H as (rest & Hrest & H).
      rewrite (slice_app_l _ _ _ _ _ Hsl). cbn [bindR]. rewrite (Hpres _ _ _ Hrest). exact H.
    + cbn [conv_cols]. cbn [snd] in Hd.
      replace (L * tsize (ctype c)) with (length d) by exact Hd.
      replace (n * tsize (ctype c)) with (length (cdata c)) by exact Hc.
      rewrite slice_app_r. cbn [bindR]. rewrite Hnew. cbn [bindR]. destruct c; reflexivity.
Qed.

Lemma conv_cols_self : forall cs n, rows_okP n cs ->
  col_lens_ok n (map cdata cs) (shape_of cs) /\ conv_cols (shape_of cs) (map cdata cs) 0 n = Ok cs.
Proof.
  induction cs as [|c cr IH]; intros n Hr.
  - split; [constructor|reflexivity].
  - inversion Hr as [|? ? Hc Hcr]; subst. destruct (IH n Hcr) as [Hl Hconv]. split.
    + constructor; [exact Hc|exact Hl].
    + change (shape_of (c :: cr)) with ((cname c, ctype c) :: shape_of cr).
      cbn [map conv_cols]. rewrite Nat.mul_0_l.
      replace (n * tsize (ctype c)) with (length (cdata c)) by exact Hc.
      rewrite slice_all. cbn [bindR]. rewrite Hconv. cbn [bindR]. destruct c; reflexivity.
Qed.

Lemma typestrs_ok : forall cs, Forall (fun s => wire_supported (snd s) = true) (shape_of cs) ->
  exists ts, typestrs cs = Ok ts /\ build_etypes ts = Ok (map ctype cs).
Proof.
  induction cs as [|c cr IH]; intros H.
  - exists []. split; reflexivity.
  - change (shape_of (c :: cr)) with ((cname c, ctype c) :: shape_of cr) in H.
    inversion H as [|? ? Hc Hcr]; subst. cbn [snd] in Hc. unfold wire_supported in Hc.
    destruct (typestr_of type_map (ctype c)) as [s|] eqn:E; [|discriminate].
    destruct (IH Hcr) as (ts & Hts & Hb).
    exists (s :: ts). split.
    + cbn [typestrs]. rewrite E, Hts. reflexivity.
    + cbn [build_etypes map]. destruct (typestr_facts _ _ E) as [_ ->]. rewrite Hb. reflexivity.
Qed.

Lemma shape_vector_ok cs : shape_vector (map cname cs) (map ctype cs) = Ok (shape_of cs).
Proof. induction cs as [|c cr IH]; cbn; [reflexivity|]. rewrite IH. reflexivity. Qed.

Lemma shape_names cs : map fst (shape_of cs) = map cname cs.
Proof. unfold shape_of. rewrite map_map. reflexivity. Qed.

Lemma shape_length cs : length (shape_of cs) = length cs.
Proof. unfold shape_of. apply map_length. Qed.

Lemma Forall2_imp {A B} (P Q : A -> B -> Prop) l l' :
  (forall a b, P a b -> Q a b) -> Forall2 P l l' -> Forall2 Q l l'.
Proof. intros H. induction 1; constructor; auto. Qed.

Lemma Forall2_length' {A B} (R : A -> B -> Prop) l l' : Forall2 R l l' -> length l = length l'.
Proof. induction 1; cbn; congruence. Qed.

(** the first bucket: NewNumpyDataset + NewNumpyMultiDataset *)
Lemma init_inv b0 : wf_shape (shape_of (snd b0)) -> wf_bucket (shape_of (snd b0)) b0 ->
  exists w, fold_step None b0 = Ok (Some w) /\ Inv (shape_of (snd b0)) w [b0].
Proof.
  destruct b0 as [k cs]. cbn [fst snd]. intros Hsh Hb. cbn [fold_step]. unfold new_nds.
  destruct (typestrs_ok cs (ws_supported _ Hsh)) as (ts & Hts & Hb').
  rewrite Hts. cbn [bindR]. eexists. split; [reflexivity|].
  destruct (conv_cols_self cs (cs_len cs) (wb_len _ _ Hb)) as [Hl Hconv].
  constructor; unfold new_nmds; cbn [w_types w_names w_data w_length w_start w_lens fst snd].
  - unfold build_shapes. cbn [w_types w_names]. rewrite Hb'. cbn [bindR]. apply shape_vector_ok.
  - rewrite shape_types, <- typestrs_tstrs. exact Hts.
  - symmetry. apply shape_names.
  - exact Hl.
  - reflexivity.
  - constructor; [|constructor]. cbn [fst snd]. split; [reflexivity|exact Hconv].
Qed.

Lemma extract_keys sh data done st :
  Forall2 (fun (b : bucket) (e : key * nat) => fst e = fst b /\ conv_cols sh data (snd e) (cs_len (snd b)) = Ok (snd b)) done st ->
  map fst st = map fst done.
Proof. induction 1 as [|b e ? ? [H _]]; cbn; congruence. Qed.

(** one Append of a bucket of the dataset's shape *)
Lemma step_inv sh w done b :
  Inv sh w done -> wf_bucket sh b -> ~ In (fst b) (map fst done) ->
  exists w', fold_step (Some w) b = Ok (Some w') /\ Inv sh w' (done ++ [b]).
Proof.
  intros [Hsh Hty Hn Hc Hl He] Hb Hfresh. destruct b as [k cs]. cbn [fst snd] in *.
  pose proof (wb_shape _ _ Hb) as Hshape. cbn [snd] in Hshape.
  destruct (zip_app_spec sh (w_data w) cs (w_length w) (cs_len cs) Hc Hshape (wb_len _ _ Hb))
    as (d' & Hz & Hl' & Hpres & Hnew).
  cbn [fold_step]. unfold append_cs.
  replace (length (w_data w) =? length cs) with true.
  2:{ symmetry. apply Nat.eqb_eq. rewrite (Forall2_length' _ _ _ Hc), <- Hshape. apply shape_length. }
  cbn [negb].
  replace (names_match (w_names w) (map cname cs)) with (@Ok bool true).
  2:{ rewrite Hn, <- Hshape, shape_names, names_match_refl. reflexivity. }
  cbn [bindR negb].
  replace (typestrs cs) with (@Ok (list string) (w_types w)).
  2:{ rewrite typestrs_tstrs, <- shape_types, Hshape. symmetry. exact Hty. }
  rewrite types_match_refl. cbn [negb]. rewrite Hz. cbn [bindR]. eexists. split; [reflexivity|].
  pose proof (extract_keys _ _ _ _ He) as Hkeys.
  constructor; cbn [w_types w_names w_data w_length w_start w_lens].
  - exact Hsh.
  - exact Hty.
  - exact Hn.
  - exact Hl'.
  - rewrite Hl, map_app. cbn [map fst snd]. apply aset_fresh.
    rewrite map_map. cbn [fst]. exact Hfresh.
  - rewrite aset_fresh by (rewrite Hkeys; exact Hfresh).
    apply Forall2_app.
    + eapply Forall2_imp; [|exact He]. intros b e [H1 H2]. split; [exact H1|].
      apply Hpres. exact H2.
    + constructor; [|constructor]. cbn [fst snd]. split; [reflexivity|]. exact Hnew.
Qed.

(** one Append of a bucket of ANOTHER shape: an error, whatever differs (column count, a name, a type) *)
Lemma step_mismatch sh w done cs k :
  Inv sh w done -> shape_of cs <> sh -> append_cs w cs k = Rejected.
Proof.
  intros [Hsh Hty Hn Hc Hl He] Hne. unfold append_cs.
  destruct (length (w_data w) =? length cs) eqn:El; [|reflexivity]. cbn [negb].
  apply Nat.eqb_eq in El. rewrite (Forall2_length' _ _ _ Hc) in El.
  destruct (list_eq_dec (list_eq_dec Byte.byte_eq_dec) (map fst sh) (map cname cs)) as [Heq|Hneq].
  - rewrite Hn, Heq, names_match_refl. cbn [bindR negb].
    destruct (typestrs cs) as [ts| |] eqn:Et; try reflexivity.
    destruct (types_match ts (w_types w)) eqn:Em; [|reflexivity]. exfalso. apply Hne.
    rewrite typestrs_tstrs in Et.
    assert (Hlen : length ts = length (w_types w)).
    { rewrite (tstrs_length _ _ Et), (tstrs_length _ _ Hty), !map_length. lia. }
    pose proof (types_match_eq _ _ Hlen Em) as ->.
    pose proof (tstrs_inj _ _ _ Et Hty) as Htypes.
    (* same names, same types: same shape *)
    clear - Heq Htypes. revert sh Heq Htypes. induction cs as [|c cr IH]; intros [|[n t] sr] H1 H2; cbn in *; try discriminate; [reflexivity|].
    inversion H1; inversion H2; subst. f_equal. apply IH; assumption.
  - rewrite Hn, names_match_neq; [reflexivity| |exact Hneq]. rewrite !map_length. lia.
Qed.

Lemma fold_inv sh : forall rest w done,
  Inv sh w done -> Forall (wf_bucket sh) rest -> NoDup (map fst (done ++ rest)) ->
  exists w', fold_buckets (Some w) rest = Ok (Some w') /\ Inv sh w' (done ++ rest).
Proof.
  induction rest as [|b rest IH]; intros w done Hinv Hwf Hnd.
  - exists w. rewrite app_nil_r. split; [reflexivity|exact Hinv].
  - inversion Hwf as [|? ? Hb Hrest]; subst.
    assert (Hfresh : ~ In (fst b) (map fst done)).
    { rewrite map_app in Hnd. cbn in Hnd. apply NoDup_remove_2 in Hnd.
      intros Hin. apply Hnd. apply in_or_app. left; exact Hin. }
    destruct (step_inv sh w done b Hinv Hb Hfresh) as (w1 & Hstep & Hinv1).
    cbn [fold_buckets]. rewrite Hstep. cbn [bindR].
    replace (done ++ b :: rest) with ((done ++ [b]) ++ rest) in * by (rewrite <- app_assoc; reflexivity).
    apply IH; assumption.
Qed.

Lemma encode_inv bs : guardP bs ->
  exists sh w, encode bs = Ok (Some w) /\ Inv sh w bs /\ wf_shape sh /\ Forall (wf_bucket sh) bs.
Proof.
  intros (b0 & rest & -> & Hnd & Hsh & Hwf).
  inversion Hwf as [|? ? Hb0 Hrest]; subst.
  destruct (init_inv b0 Hsh Hb0) as (w0 & Hstep & Hinv0).
  destruct (fold_inv _ rest w0 [b0] Hinv0 Hrest Hnd) as (w & Hfold & Hinv).
  exists (shape_of (snd b0)), w. unfold encode. cbn [fold_buckets]. rewrite Hstep. cbn [bindR].
  split; [exact Hfold|]. split; [exact Hinv|]. split; assumption.
Qed.

(** * buckets of different shapes: the dataset is refused *)
Lemma fold_app acc a b :
  fold_buckets acc (a ++ b) = (do acc' <- fold_buckets acc a; fold_buckets acc' b).
Proof.
  revert acc; induction a as [|x a IH]; intros acc; cbn [app fold_buckets]; [reflexivity|].
  destruct (fold_step acc x); cbn [bindR]; [apply IH|reflexivity|reflexivity].
Qed.

Lemma forallb_false_split {A} (p : A -> bool) l :
  forallb p l = false -> exists pre x post, l = pre ++ x :: post /\ forallb p pre = true /\ p x = false.
Proof.
  induction l as [|x l IH]; cbn; [discriminate|]. destruct (p x) eqn:E; cbn.
  - intros H. destruct (IH H) as (pre & y & post & -> & Hp & Hy).
    exists (x :: pre), y, post. cbn. rewrite E, Hp. auto.
  - intros _. exists [], x, l. auto.
Qed.

Theorem mixed_shapes_rejected : forall bs,
  dom bs = true -> keys_canonical bs = true -> same_shapes bs = false -> encode bs = Rejected.
Proof.
  intros bs Hd Hk Hs. destruct bs as [|b0 rest]; [discriminate|]. cbn [same_shapes] in Hs.
  destruct (forallb_false_split _ _ Hs) as (pre & x & post & Hrest & Hpre & Hx).
  (* the prefix b0 :: pre is inside the guard *)
  assert (Hg : guard (b0 :: pre) = true).
  { unfold dom in Hd. rewrite !andb_true_iff in Hd. destruct Hd as [[_ Hnd] Hwf].
    unfold guard, dom. rewrite Hrest in *. rewrite !andb_true_iff. repeat split.
    - cbn [map] in *. clear - Hnd. revert Hnd. generalize (fst b0). intros k.
      cbn [nodup_names]. rewrite !andb_true_iff. intros [H1 H2]. split.
      + apply negb_true_iff. apply negb_true_iff in H1. rewrite map_app, existsb_app in H1.
        apply orb_false_elim in H1 as [H1 _]. exact H1.
      + clear H1. revert H2. induction pre as [|y pre IH]; cbn [map app nodup_names]; [reflexivity|].
        rewrite !andb_true_iff. intros [H1 H2]. split; [|apply IH; exact H2].
        apply negb_true_iff. apply negb_true_iff in H1. rewrite map_app, existsb_app in H1.
        apply orb_false_elim in H1 as [H1 _]. exact H1.
    - cbn [forallb] in *. rewrite forallb_app in Hwf. rewrite !andb_true_iff in Hwf. destruct Hwf as [H0 [H1 _]].
      rewrite H0, H1. reflexivity.
    - cbn [same_shapes]. exact Hpre.
    - unfold keys_canonical in *. cbn [forallb] in *. rewrite forallb_app in Hk. rewrite !andb_true_iff in Hk.
      destruct Hk as [H0 [H1 _]]. rewrite H0, H1. reflexivity. }
  destruct (encode_inv _ (guard_spec _ Hg)) as (sh & w & Henc & Hinv & _ & Hwfb).
  assert (Hsh : sh = shape_of (snd b0)).
  { inversion Hwfb as [|? ? Hb _]; subst. symmetry. exact (wb_shape _ _ Hb). }
  unfold encode in *. rewrite Hrest.
  change (b0 :: pre ++ x :: post) with ((b0 :: pre) ++ x :: post). rewrite fold_app, Henc. cbn [bindR fold_buckets].
  destruct x as [kx csx]. cbn [fold_step].
  rewrite (step_mismatch sh w _ csx kx Hinv); [reflexivity|].
  intros Heq. cbn [snd] in Hx. rewrite Heq, Hsh, shape_eqb_refl in Hx. discriminate.
Qed.

(** * what msgpack may do to the structure: the two maps come back in any order *)
Record wire_equiv (w w' : wire) : Prop := {
  we_types : w_types w' = w_types w;
  we_names : w_names w' = w_names w;
  we_data : w_data w' = w_data w;
  we_length : w_length w' = w_length w;
  we_start : Permutation (w_start w) (w_start w');
  we_lens : Permutation (w_lens w) (w_lens w')
}.

Lemma wire_equiv_refl w : wire_equiv w w.
Proof. constructor; reflexivity || apply Permutation_refl. Qed.

(** * decoders *)
Section Decode.
  Variables (sh : list (list byte * Z)) (w w' : wire) (bs : list bucket).
  Hypothesis Hinv : Inv sh w bs.
  Hypothesis Heq : wire_equiv w w'.
  Hypothesis Hsh : wf_shape sh.
  Hypothesis Hwf : Forall (wf_bucket sh) bs.
  Hypothesis Hnd : NoDup (map fst bs).

  (** the bucket a StartIndex entry denotes *)
  Definition entry_ok (e : key * nat) : Prop :=
    exists b, In b bs /\ fst e = fst b /\ conv_cols sh (w_data w) (snd e) (cs_len (snd b)) = Ok (snd b).

  Definition cs_of (e : key * nat) : bucket :=
    (fst e, match alookup (fst e) bs with Some cs => cs | None => [] end).

  Lemma entries_ok : Forall entry_ok (w_start w').
  Proof.
    apply (Permutation_Forall (we_start _ _ Heq)).
    pose proof (i_extract _ _ _ Hinv) as He.
    assert (G : forall done st,
      Forall2 (fun (b : bucket) (e : key * nat) => fst e = fst b /\ conv_cols sh (w_data w) (snd e) (cs_len (snd b)) = Ok (snd b)) done st ->
      (forall b, In b done -> In b bs) -> Forall entry_ok st).
    { induction 1 as [|b e ? ? [H1 H2]]; intros Hsub; constructor.
      - exists b. split; [apply Hsub; left; reflexivity|]. split; assumption.
      - apply IHForall2. intros b' Hb'. apply Hsub. right; exact Hb'. }
    apply (G _ _ He). auto.
  Qed.

  Lemma start_keys_nodup : NoDup (map fst (w_start w')).
  Proof.
    apply (Permutation_NoDup (Permutation_map fst (we_start _ _ Heq))).
    rewrite (extract_keys _ _ _ _ (i_extract _ _ _ Hinv)). exact Hnd.
  Qed.

  Lemma cs_of_start : map cs_of (w_start w) = bs.
  Proof.
    pose proof (i_extract _ _ _ Hinv) as He.
    assert (G : forall done st,
      Forall2 (fun (b : bucket) (e : key * nat) => fst e = fst b /\ conv_cols sh (w_data w) (snd e) (cs_len (snd b)) = Ok (snd b)) done st ->
      (forall b, In b done -> In b bs) -> map cs_of st = done).
    { induction 1 as [|b e ? ? [H1 H2]]; intros Hsub; cbn; [reflexivity|].
      rewrite IHForall2 by (intros b' Hb'; apply Hsub; right; exact Hb').
      f_equal. unfold cs_of. rewrite H1. destruct b as [k cs]. cbn [fst].
      rewrite (alookup_in k cs bs Hnd) by (apply Hsub; left; reflexivity). reflexivity. }
    apply (G _ _ He). auto.
  Qed.

  Lemma len_of_bucket b : In b bs -> len_of w' (fst b) = cs_len (snd b).
  Proof.
    intros Hb. unfold len_of.
    assert (Hin : In (fst b, cs_len (snd b)) (w_lens w')).
    { apply (Permutation_in _ (we_lens _ _ Heq)). rewrite (i_lens _ _ _ Hinv).
      apply (in_map (fun b => (fst b, cs_len (snd b)))) in Hb. exact Hb. }
    rewrite (alookup_in (fst b) (cs_len (snd b)) (w_lens w')); [reflexivity| |exact Hin].
    apply (Permutation_NoDup (Permutation_map fst (we_lens _ _ Heq))).
    rewrite (i_lens _ _ _ Hinv), map_map. cbn [fst]. exact Hnd.
  Qed.

  (** every bucket has the (non-empty) shape, hence at least one column — also with zero rows *)
  Lemma cs_nonempty b : In b bs -> snd b <> [].
  Proof.
    intros Hb. pose proof Hwf as Hwf'. rewrite Forall_forall in Hwf'. pose proof (wb_shape _ _ (Hwf' _ Hb)) as Hs.
    intros E. rewrite E in Hs. cbn in Hs. apply (ws_nonempty _ Hsh). symmetry. exact Hs.
  Qed.

  (** ToColumnSeries on the decoded structure is the column extraction *)
  Lemma to_cs_conv idx n : to_cs w' idx n = conv_cols sh (w_data w) idx n.
  Proof.
    unfold to_cs.
    assert (Hbs : build_shapes w' = Ok sh).
    { unfold build_shapes. rewrite (we_types _ _ Heq), (we_names _ _ Heq). exact (i_shapes _ _ _ Hinv). }
    rewrite Hbs, (we_data _ _ Heq). reflexivity.
  Qed.

  Lemma to_csm_loop_spec : forall es acc,
    Forall entry_ok es -> NoDup (map fst es) ->
    (forall e, In e es -> ~ In (fst e) (map fst acc)) ->
    to_csm_loop w' es acc = Ok (acc ++ map cs_of es).
  Proof.
    induction es as [|[k idx] es IH]; intros acc Hok Hnd' Hfresh.
    - cbn. rewrite app_nil_r. reflexivity.
    - inversion Hok as [|? ? (b & Hb & Hk & Hconv) Hok']; subst. cbn [fst snd] in *.
      inversion Hnd' as [|? ? Hnot Hnd'']; subst.
      cbn [to_csm_loop]. rewrite (len_of_bucket b Hb).
      pose proof Hwf as Hwf'. rewrite Forall_forall in Hwf'. pose proof (Hwf' _ Hb) as Hwb.
      rewrite to_cs_conv, Hconv. cbn [bindR].
      rewrite (wb_key _ _ Hwb).
      assert (Hadd : add_cs acc (fst b) (snd b) = acc ++ [cs_of (fst b, idx)]).
      { unfold add_cs. pose proof (cs_nonempty b Hb) as Hn. destruct (snd b) as [|c cr] eqn:Es; [contradiction|].
        rewrite alookup_none by (apply (Hfresh (fst b, idx)); left; reflexivity).
        unfold cs_of. cbn [fst]. destruct b as [k cs]. cbn [fst snd] in *.
        rewrite (alookup_in k cs bs Hnd Hb). subst cs. reflexivity. }
      rewrite Hadd. rewrite IH.
      + rewrite <- app_assoc. reflexivity.
      + exact Hok'.
      + exact Hnd''.
      + intros e He. rewrite map_app, in_app_iff. cbn [map fst cs_of]. intros [Hin|[Hin|[]]].
        * apply (Hfresh e); [right; exact He|exact Hin].
        * apply Hnot. rewrite Hin. apply in_map. exact He.
  Qed.

  Lemma resp_loop_spec : forall es acc,
    Forall entry_ok es -> NoDup (map fst es) ->
    (forall e, In e es -> ~ In (fst e) (map fst acc)) ->
    resp_loop w' es acc = Ok (acc ++ map cs_of es).
  Proof.
    induction es as [|[k idx] es IH]; intros acc Hok Hnd' Hfresh.
    - cbn. rewrite app_nil_r. reflexivity.
    - inversion Hok as [|? ? (b & Hb & Hk & Hconv) Hok']; subst. cbn [fst snd] in *.
      inversion Hnd' as [|? ? Hnot Hnd'']; subst.
      cbn [resp_loop]. rewrite (len_of_bucket b Hb).
      pose proof Hwf as Hwf'. rewrite Forall_forall in Hwf'. pose proof (Hwf' _ Hb) as Hwb.
      rewrite to_cs_conv, Hconv. cbn [bindR]. rewrite (wb_key _ _ Hwb).
      rewrite aset_fresh by (apply (Hfresh (fst b, idx)); left; reflexivity).
      assert (Hcs : (fst b, snd b) = cs_of (fst b, idx)).
      { unfold cs_of. cbn [fst]. destruct b as [k cs]. cbn [fst snd] in *.
        rewrite (alookup_in k cs bs Hnd Hb). reflexivity. }
      rewrite Hcs. rewrite IH.
      + rewrite <- app_assoc. reflexivity.
      + exact Hok'.
      + exact Hnd''.
      + intros e He. rewrite map_app, in_app_iff. cbn [map fst cs_of]. intros [Hin|[Hin|[]]].
        * apply (Hfresh e); [right; exact He|exact Hin].
        * apply Hnot. rewrite Hin. apply in_map. exact He.
  Qed.

  Lemma decoded_perm : Permutation (map cs_of (w_start w')) bs.
  Proof.
    apply Permutation_trans with (map cs_of (w_start w)).
    - apply Permutation_map. apply Permutation_sym. exact (we_start _ _ Heq).
    - rewrite cs_of_start. apply Permutation_refl.
  Qed.

  Lemma decode_both :
    exists m1 m2, to_csm w' = Ok m1 /\ Permutation m1 bs /\ resp_to_csm w' = Ok m2 /\ Permutation m2 bs.
  Proof.
    exists (map cs_of (w_start w')), (map cs_of (w_start w')).
    unfold to_csm, resp_to_csm.
    rewrite to_csm_loop_spec, resp_loop_spec; try apply entries_ok; try apply start_keys_nodup; auto.
    cbn [app]. repeat split; try reflexivity; apply decoded_perm.
  Qed.
End Decode.

(** * the round trip *)
Theorem wire_roundtrip : forall bs, guard bs = true ->
  exists w, encode bs = Ok (Some w)
    /\ forall w', wire_equiv w w' ->
       exists m1 m2, to_csm w' = Ok m1 /\ Permutation m1 bs /\ resp_to_csm w' = Ok m2 /\ Permutation m2 bs.
Proof.
  intros bs Hg. apply guard_spec in Hg.
  destruct (encode_inv bs Hg) as (sh & w & Henc & Hinv & Hsh & Hwf).
  exists w. split; [exact Henc|]. intros w' Heq.
  destruct Hg as (b0 & rest & Hbs & Hnd & _).
  apply (decode_both sh w w' bs Hinv Heq Hsh Hwf Hnd).
Qed.

(** every bucket list of the property's domain with canonical keys: refused with an error, or round-trips *)
Theorem wire_roundtrip_or_rejected : forall bs, dom bs = true -> keys_canonical bs = true ->
  encode bs = Rejected
  \/ exists w, encode bs = Ok (Some w)
       /\ forall w', wire_equiv w w' ->
          exists m1 m2, to_csm w' = Ok m1 /\ Permutation m1 bs /\ resp_to_csm w' = Ok m2 /\ Permutation m2 bs.
Proof.
  intros bs Hd Hk. destruct (same_shapes bs) eqn:Es.
  - right. apply wire_roundtrip. unfold guard. rewrite Hd, Es, Hk. reflexivity.
  - left. apply mixed_shapes_rejected; assumption.
Qed.

(** through any codec that returns the structure up to the order of its two maps *)
Section Msgpack.
  Variable mp_enc : wire -> list byte.
  Variable mp_dec : list byte -> option wire.
  Hypothesis mp_roundtrip : forall w, exists w', mp_dec (mp_enc w) = Some w' /\ wire_equiv w w'.

  Theorem wire_roundtrip_msgpack : forall bs, guard bs = true ->
    exists w w' m1 m2, encode bs = Ok (Some w) /\ mp_dec (mp_enc w) = Some w'
      /\ to_csm w' = Ok m1 /\ Permutation m1 bs /\ resp_to_csm w' = Ok m2 /\ Permutation m2 bs.
  Proof.
    intros bs Hg. destruct (wire_roundtrip bs Hg) as (w & Henc & Hdec).
    destruct (mp_roundtrip w) as (w' & Hmp & Heq).
    destruct (Hdec w' Heq) as (m1 & m2 & H1 & H2 & H3 & H4).
    exists w, w', m1, m2. repeat split; assumption.
  Qed.
End Msgpack.

(** * mixed column names are reported *)
Theorem append_rejects_names : forall w cs k,
  length (w_data w) = length (w_names w) -> map cname cs <> w_names w -> append_cs w cs k = Rejected.
Proof.
  intros w cs k Hl Hne. unfold append_cs.
  destruct (length (w_data w) =? length cs) eqn:E; [|reflexivity]. cbn [negb].
  apply Nat.eqb_eq in E.
  rewrite names_match_neq; [reflexivity| |].
  - rewrite map_length. congruence.
  - intros H. apply Hne. symmetry. exact H.
Qed.
