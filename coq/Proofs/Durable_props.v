(** Proofs/Durable_props.v — from [crash_anywhere] to the statements of C01 C02 C03 C05: queries on
    the recovered image, the guards as boolean predicates on (trace, crash point), and the concrete
    witnesses that refute the unguarded statements. *)
From Coq Require Import ZArith NArith List Bool Lia Permutation.
From Coq.Strings Require Import Byte.
Import ListNotations.
Require Import MS.Base.Res MS.Generated.Src_durab MS.Model.Wal MS.Model.Replay
  MS.Proofs.Durable_wal MS.Proofs.Durable_files MS.Proofs.Durable_exec MS.Proofs.Durable_flush
  MS.Proofs.Durable_recover MS.Proofs.Durable_sem MS.Proofs.Durable_ext MS.Proofs.Durable_crash
  MS.Proofs.Durable_inv MS.Proofs.Durable_steps MS.Proofs.Durable_steps2 MS.Proofs.Durable_steps3.
Local Open Scope Z_scope.

(* ------------------------------------------------------------------ guards *)

(** no year file is left between its creation and the write of its header *)
Definition no_pnewb (fs : files) : bool :=
  forallb (fun e => match snd e with PNew => false | _ => true end) fs.

Lemma no_pnewb_spec fs : no_pnewb fs = true -> no_pnew fs.
Proof.
  unfold no_pnewb, no_pnew. induction fs as [|[k v] fs IH]; intros H f; cbn [alookup]; [discriminate|].
  cbn [forallb snd] in H. apply andb_prop in H as [H1 H2]. destruct (N.eqb f k).
  - destruct v; [discriminate|discriminate|discriminate].
  - apply IH, H2.
Qed.

(** crash point [k] of trace [tr] is outside the two windows in which the on-disk state is inconsistent:
    (a) between the data write and the index write of a continuation (in-place) indirect write,
    (b) between the creation of a year file and the write of its header *)
Definition guard_window (tr : list event) (k : nat) : bool := gwin img0 tr k.
Definition guard_newfile (tr : list event) (k : nat) : bool := no_pnewb (i_files (crash_img tr k)).
Definition guard_crash (tr : list event) (k : nat) : bool := guard_window tr k && guard_newfile tr k.

(* ------------------------------------------------------------------ queries on consistent files *)

Lemma file_rows_ok f pf : pf <> PNew ->
  (forall s ix eof bl, pf = PV s ix eof bl -> vinv s ix eof bl) ->
  exists rows, file_rows f pf = QRows rows.
Proof.
  intros Hn Hv. destruct pf as [| ws | s ix eof bl]; [congruence|eexists; reflexivity|].
  specialize (Hv _ _ _ _ eq_refl). cbn [file_rows].
  induction (keys_sorted ix) as [|slot l IH]; cbn [fold_right]; [eexists; reflexivity|].
  destruct IH as [rows ->]. destruct (slot_triple ix slot) as [[i o] l'] eqn:Et.
  destruct (Z.eqb_spec i 0); [eexists; reflexivity|].
  destruct (v_read _ _ _ _ Hv _ _ _ _ Et n) as [_ [c ->]]. eexists; reflexivity.
Qed.

Lemma bucket_rows_ok im fsl :
  files_vinv (i_files im) -> no_pnew (i_files im) -> exists rows, bucket_rows im fsl = QRows rows.
Proof.
  intros Hv Hn. unfold bucket_rows.
  assert (existsb (fun f => match alookup f (i_files im) with Some PNew => true | _ => false end) fsl = false) as ->.
  { apply not_true_is_false. intros H. apply existsb_exists in H as (f & _ & H).
    destruct (alookup f (i_files im)) as [[| |]|] eqn:E; try discriminate. apply (Hn f E). }
  induction fsl as [|f l IH]; cbn [fold_right]; [eexists; reflexivity|].
  destruct IH as [rows ->]. destruct (alookup f (i_files im)) as [pf|] eqn:E; [|eexists; reflexivity].
  destruct (file_rows_ok f pf) as [r ->].
  - intros ->. apply (Hn f E).
  - intros s ix eof bl ->. eapply Hv. exact E.
  - eexists; reflexivity.
Qed.

(** fixed slots show up in the query *)
Lemma ins_z_in x y l : In x (ins_z y l) <-> x = y \/ In x l.
Proof.
  induction l as [|z l IH]; cbn [ins_z In]; [intuition congruence|].
  destruct (y <? z); cbn [In]; [intuition congruence|].
  destruct (Z.eqb_spec y z); cbn [In]; [subst; intuition congruence|]. rewrite IH. intuition congruence.
Qed.
Lemma keys_sorted_in {V} (l : list (Z * V)) x : In x (keys_sorted l) <-> In x (map fst l).
Proof.
  unfold keys_sorted. induction (map fst l) as [|y r IH]; cbn [fold_right In]; [tauto|].
  rewrite ins_z_in, IH. split; intros [H|H]; auto.
Qed.
Lemma zlookup_in_keys {V} (l : list (Z * V)) k v : zlookup k l = Some v -> In k (map fst l).
Proof.
  induction l as [|[k' v'] l IH]; cbn [zlookup map fst In]; [discriminate|].
  destruct (Z.eqb_spec k k'); [left; congruence|right; apply IH; assumption].
Qed.

Lemma fixed_slot_in_rows f ws off i p :
  zlookup off ws = Some (i, p) -> i <> 0 ->
  exists rows, file_rows f (PF ws) = QRows rows /\ In (f, i, p) rows.
Proof.
  intros Hl Hi. cbn [file_rows]. eexists. split; [reflexivity|].
  apply in_flat_map. exists off. split; [apply keys_sorted_in; eapply zlookup_in_keys; exact Hl|].
  rewrite Hl. destruct (Z.eqb_spec i 0); [contradiction|left; reflexivity].
Qed.

(* ------------------------------------------------------------------ the recovered image of a crash *)

Section WithClen.
  Variable clen : list record -> Z.
  Hypothesis clen_pos : forall x, 0 < clen x.
  Variable owner2 : Z.

  (** committed / not-yet-checkpointed TGs at crash point [k], read off the trace *)
  Definition committed (tr : list event) (k : nat) : list tg := cs_all (cfold cst0 (firstn k tr)).
  Definition unchecked (tr : list event) (k : nat) : list tg := cs_cur (cfold cst0 (firstn k tr)).

  Definition recovered_files (tr : list event) (k : nat) : files :=
    i_files (recovered clen 1%N owner2 (crash_img tr k)).

  Theorem recovery_succeeds owner tgid0 sched tr k :
    owner <> 0 -> 0 < tgid0 -> run clen 0%N owner tgid0 sched = Ok tr -> wf_sched clen owner tgid0 sched = true ->
    (k <= length tr)%nat -> guard_window tr k = true ->
    snd (recover clen 1%N owner2 (crash_img tr k)) = StartOk
    /\ Recovered (recovered_files tr k) (committed tr k) (unchecked tr k)
    /\ map fst (i_wals (recovered clen 1%N owner2 (crash_img tr k))) = [1%N]
    /\ (guard_newfile tr k = true -> no_pnew (recovered_files tr k)).
  Proof.
    intros Hown Htg Hrun Hwf Hk Hg.
    destruct (crash_anywhere clen clen_pos owner2 owner tgid0 sched tr k Hown Htg Hrun Hwf Hk Hg)
      as (evs & Hr & Hkeys & Hrec & Hnn & _ & _).
    unfold recovered_files, recovered, committed, unchecked. rewrite Hr. cbn [fst snd].
    split; [reflexivity|]. split; [exact Hrec|]. split; [exact Hkeys|].
    intros Hn. apply Hnn, no_pnewb_spec, Hn.
  Qed.

  (** C03: start-up succeeds and every bucket can be queried *)
  Theorem restart_and_queries_ok owner tgid0 sched tr k :
    owner <> 0 -> 0 < tgid0 -> run clen 0%N owner tgid0 sched = Ok tr -> wf_sched clen owner tgid0 sched = true ->
    (k <= length tr)%nat -> guard_crash tr k = true ->
    snd (recover clen 1%N owner2 (crash_img tr k)) = StartOk
    /\ forall bucket, exists rows, bucket_rows (recovered clen 1%N owner2 (crash_img tr k)) bucket = QRows rows.
  Proof.
    intros Hown Htg Hrun Hwf Hk Hg. apply andb_prop in Hg as [Hg1 Hg2].
    destruct (recovery_succeeds owner tgid0 sched tr k Hown Htg Hrun Hwf Hk Hg1) as (Hs & Hrec & _ & Hnn).
    split; [exact Hs|]. intros bucket. apply bucket_rows_ok; [apply Hrec|apply Hnn, Hg2].
  Qed.
End WithClen.

(* ------------------------------------------------------------------ concrete witnesses *)

(** a stand-in for the stored length of a block (any positive function will do) *)
Definition clen0 (x : list record) : Z := 1 + Z.of_nat (length (concat x)).
Lemma clen0_pos x : 0 < clen0 x. Proof. unfold clen0. lia. Qed.

Definition rec_a : record := [x01; x00; x00; x00; x0a; x00; x00; x00]%byte.   (* payload 01000000, ticks 10 *)
Definition rec_b : record := [x02; x00; x00; x00; x05; x00; x00; x00]%byte.   (* payload 02000000, ticks 5 *)

Definition wit_row (r : record) : wrow :=
  {| r_year := 2019; r_fid := 0%N; r_index := 7; r_off := 37168; r_rec := r |}.
Definition wit_batch (r : record) : batch :=
  {| b_kind := KVar; b_vrl := 8; b_meta := 40; b_rows := [wit_row r] |}.

(** two requests appending one record each to the same interval of a variable-length bucket: the
    second is a continuation write (the interval's block is the last thing in the file) *)
Definition wit_sched : list sev :=
  [ SWrite [ECat; EFileNew 0%N; EFileHdr 0%N KVar; ECreate 0%N KVar 100000] [wit_batch rec_a] [0%N] 0;
    SWrite [] [wit_batch rec_b] [0%N] 1 ].

Definition wit_trace : list event :=
  match run clen0 0%N 1111 1000 wit_sched with Ok tr => tr | _ => [] end.
