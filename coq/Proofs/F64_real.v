(** Facts about binary64 that go through Flocq's real-number specification (these bring in the axioms of
    Coq's classical real numbers; they are used only where a theorem speaks about the exact value of a
    float64 computation: uda/gap's  float64(e2) - float64(e1) > float64(thr)). *)
From Coq Require Import ZArith Lia Bool List Reals Lra.
From Flocq Require Import Core.Core IEEE754.BinarySingleNaN.
Require Import MS.Base.FGen MS.Base.F32 MS.Base.F64.
Local Open Scope Z_scope.

Notation fexp64 := (SpecFloat.fexp 53 1024).
Notation rnd64 := (round radix2 fexp64 ZnearestE).

#[local] Instance fexp64_valid : Valid_exp fexp64 := FLT_exp_valid (SpecFloat.emin 53 1024) 53.

Lemma int_generic (z : Z) : Z.abs z < 2 ^ 53 -> generic_format radix2 fexp64 (IZR z).
Proof.
  intros H. change fexp64 with (FLT_exp (SpecFloat.emin 53 1024) 53).
  apply generic_format_FLT. apply (FLT_spec _ _ _ _ (Float radix2 z 0)).
  - unfold F2R; simpl. lra.
  - exact H.
  - vm_compute. discriminate.
Qed.

Lemma pow54_generic : generic_format radix2 fexp64 (bpow radix2 54).
Proof. apply generic_format_bpow. vm_compute. discriminate. Qed.

Lemma bpow54 : bpow radix2 54 = IZR (2 ^ 54).
Proof. rewrite <- (IZR_Zpower radix2) by lia. reflexivity. Qed.

Lemma rnd_small (z : Z) : Z.abs z <= 2 ^ 54 -> (Rabs (rnd64 (IZR z)) < bpow radix2 1024)%R.
Proof.
  intros H. apply Rle_lt_trans with (bpow radix2 54).
  - apply Rabs_le. split.
    + apply round_ge_generic; try typeclasses eauto.
      * apply generic_format_opp, pow54_generic.
      * rewrite bpow54, <- opp_IZR. apply IZR_le. lia.
    + apply round_le_generic; try typeclasses eauto.
      * apply pow54_generic.
      * rewrite bpow54. apply IZR_le. lia.
  - apply bpow_lt. lia.
Qed.

(** float64(z) is exact for |z| < 2^53 *)
Lemma f64_of_Z_exact (z : Z) : Z.abs z < 2 ^ 53 ->
  B2R (f64_of_Z z) = IZR z /\ is_finite (f64_of_Z z) = true.
Proof.
  intros H. unfold f64_of_Z, f_of_Z.
  pose proof (binary_normalize_correct 53 1024 p64_gt_0 p64_lt_emax mode_NE z 0 false) as C.
  cbv zeta in C. cbn [round_mode] in C.
  assert (E : F2R (Float radix2 z 0) = IZR z) by (unfold F2R; simpl; lra).
  rewrite E in C. rewrite round_generic in C; try typeclasses eauto; [| apply int_generic; exact H].
  rewrite Rlt_bool_true in C.
  - destruct C as (C1 & C2 & _). split; assumption.
  - apply Rle_lt_trans with (IZR (2 ^ 53)).
    + rewrite <- abs_IZR. apply IZR_le. lia.
    + change (IZR (2 ^ 53)) with (IZR (Zpower radix2 53)). rewrite IZR_Zpower by lia. apply bpow_lt. lia.
Qed.

(** the comparison uda/gap performs, on exactly convertible epochs and threshold *)
Theorem gap_pair_exact (a b thr : Z) :
  Z.abs a < 2 ^ 53 -> Z.abs b < 2 ^ 53 -> 0 <= thr -> thr + 1 < 2 ^ 53 ->
  f64_gt (f64_sub (f64_of_Z b) (f64_of_Z a)) (f64_of_Z thr) = (b - a >? thr).
Proof.
  intros Ha Hb Ht0 Ht1.
  destruct (f64_of_Z_exact a Ha) as [Ra Fa]. destruct (f64_of_Z_exact b Hb) as [Rb Fb].
  destruct (f64_of_Z_exact thr) as [Rt Ft]; [lia|].
  pose proof (Bminus_correct 53 1024 p64_gt_0 p64_lt_emax mode_NE _ _ Fb Fa) as C.
  cbn [round_mode] in C. rewrite Ra, Rb, <- minus_IZR in C.
  rewrite Rlt_bool_true in C by (apply rnd_small; lia).
  destruct C as (C1 & C2 & _).
  unfold f64_gt, f_gt, f64_sub, f_sub.
  rewrite (Bltb_correct 53 1024 _ _ Ft C2), C1, Rt.
  destruct (Z.gtb_spec (b - a) thr) as [G|G].
  - apply Rlt_bool_true. apply Rlt_le_trans with (IZR (thr + 1)).
    + apply IZR_lt. lia.
    + apply round_ge_generic; try typeclasses eauto.
      * apply int_generic. lia.
      * apply IZR_le. lia.
  - apply Rlt_bool_false. apply round_le_generic; try typeclasses eauto.
    + apply int_generic. lia.
    + apply IZR_le. lia.
Qed.
