(** Specification side of C08: a fixed-length bucket is a last-writer-wins map from interval start
    (epoch second) to row values; its elements are listed in ascending time order. *)
From Coq Require Import ZArith List.
From Coq.Strings Require Import Byte.
Import ListNotations.
Require Import MS.Base.SortedAList MS.Model.UTime.
Local Open Scope Z_scope.

Definition imap := list (Z * list byte).

Definition im_ins (k : Z) (v : list byte) (m : imap) : imap := ins Z.compare k v m.
Definition im_lookup (k : Z) (m : imap) : option (list byte) := lookup Z.compare k m.

(** one write request: rows applied in row order, each at the start of its interval *)
Definition lww_request (tfs : Z) (m : imap) (rows : list (Z * list byte)) : imap :=
  fold_left (fun m r => im_ins (istart tfs (fst r)) (snd r) m) rows m.

(** a history of requests, in request order *)
Definition lww (tfs : Z) (reqs : list (list (Z * list byte))) : imap :=
  fold_left (lww_request tfs) reqs [].
