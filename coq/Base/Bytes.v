(** Little-endian integer <-> byte-string conversions and Go slice expressions on [list byte].

    Mirrors utils/io/serializer.go Serialize (default arm: DataToByteSlice = the value's in-memory
    little-endian representation on amd64) and utils/io/byteconversions.go To{Int8,Int16,Int32,Int64,
    Uint8} (an unsafe read of the first [width] bytes of the slice's backing array).

    Go slice expressions [s[lo:hi]] on a slice check [0 <= lo <= hi <= cap(s)]; every slice the WAL codec
    parses has cap = len (walreplay.go readTGData: make([]byte, tgLen); the harness copies into an
    exact-size buffer), so [slice] checks against [length]. *)
From Coq Require Import ZArith NArith List Bool Lia.
From Coq.Strings Require Import Byte.
Import ListNotations.
Require Import MS.Base.GoInt MS.Base.Res MS.Base.Hex.
Local Open Scope Z_scope.

Definition Z_of_byte (b : byte) : Z := Z.of_N (Byte.to_N b).
Definition byte_of_Z (z : Z) : byte := byte_of_N (Z.to_N (z mod 256)).

(** [n] little-endian bytes of [v]: the two's-complement representation of [v] truncated to [8n] bits,
    i.e. what Go stores for [intN(v)] / [uintN(v)]. *)
Fixpoint le_bytes (n : nat) (v : Z) : list byte :=
  match n with O => [] | S n' => byte_of_Z v :: le_bytes n' (v / 256) end.

(** unsigned value of a little-endian byte string *)
Fixpoint le_val (l : list byte) : Z :=
  match l with [] => 0 | b :: r => Z_of_byte b + 256 * le_val r end.

Definition ity_width (t : ity) : nat := Z.to_nat (ity_bits t / 8).

(** To<T>(b): index panic on an empty slice; otherwise the first [width] bytes.  A slice shorter than
    the width would over-read the backing array: that never happens in the modelled callers except
    readTGData's [:7], which Model/Replay.v treats on the backing array explicitly; here it is [Panic]
    so that no theorem can silently rely on it. *)
Definition to_int (t : ity) (b : list byte) : Res Z :=
  if (length b <? ity_width t)%nat then Panic else Ok (wrap t (le_val (firstn (ity_width t) b))).

(** Go slice expression l[lo:hi] (cap = len) *)
Definition slice (l : list byte) (lo hi : Z) : Res (list byte) :=
  if (0 <=? lo) && (lo <=? hi) && (hi <=? Z.of_nat (length l))
  then Ok (firstn (Z.to_nat (hi - lo)) (skipn (Z.to_nat lo) l)) else Panic.

(** l[lo:] *)
Definition slice_from (l : list byte) (lo : Z) : Res (list byte) := slice l lo (Z.of_nat (length l)).

(** index expression l[i] *)
Definition index (l : list byte) (i : Z) : Res byte :=
  if (0 <=? i) && (i <? Z.of_nat (length l)) then Ok (nth (Z.to_nat i) l x00) else Panic.

(* ------------------------------------------------------------------ facts *)

Lemma Z_of_byte_range b : 0 <= Z_of_byte b < 256.
Proof.
  unfold Z_of_byte. pose proof (Byte.to_N_bounded b) as H.
  apply N.lt_succ_r in H. change (N.succ 255) with 256%N in H. lia.
Qed.

Lemma Z_of_byte_of_Z z : Z_of_byte (byte_of_Z z) = z mod 256.
Proof.
  unfold Z_of_byte, byte_of_Z, byte_of_N.
  assert (Hr : 0 <= z mod 256 < 256) by (apply Z.mod_pos_bound; lia).
  set (n := Z.to_N (z mod 256)).
  assert (Hn : (n < 256)%N) by (unfold n; lia).
  rewrite (N.mod_small n 256 Hn).
  destruct (Byte.of_N n) as [b|] eqn:E.
  - apply Byte.to_of_N in E. rewrite E. unfold n. lia.
  - apply Byte.of_N_None_iff in E. lia.
Qed.

Lemma byte_of_Z_of_byte b : byte_of_Z (Z_of_byte b) = b.
Proof.
  unfold byte_of_Z, byte_of_N. pose proof (Z_of_byte_range b) as Hr.
  rewrite (Z.mod_small _ _ Hr). unfold Z_of_byte. rewrite N2Z.id.
  pose proof (Byte.to_N_bounded b) as H.
  rewrite N.mod_small by lia. rewrite Byte.of_to_N. reflexivity.
Qed.

Lemma length_le_bytes n v : length (le_bytes n v) = n.
Proof. revert v; induction n; intros; cbn [le_bytes length]; [reflexivity | now rewrite IHn]. Qed.

Lemma le_val_range l : 0 <= le_val l < 256 ^ Z.of_nat (length l).
Proof.
  induction l as [|b r IH]; cbn [le_val length].
  - cbn. lia.
  - rewrite Nat2Z.inj_succ, Z.pow_succ_r by lia. pose proof (Z_of_byte_range b). lia.
Qed.

Lemma le_val_le_bytes n v : le_val (le_bytes n v) = v mod 256 ^ Z.of_nat n.
Proof.
  revert v; induction n as [|n IH]; intros v; cbn [le_bytes le_val].
  - cbn. now rewrite Z.mod_1_r.
  - rewrite Z_of_byte_of_Z, IH, Nat2Z.inj_succ, Z.pow_succ_r by lia.
    assert (0 < 256 ^ Z.of_nat n) by (apply Z.pow_pos_nonneg; lia).
    rewrite Z.rem_mul_r by lia. lia.
Qed.

Lemma le_bytes_le_val l : le_bytes (length l) (le_val l) = l.
Proof.
  induction l as [|b r IH]; cbn [length le_bytes le_val]; [reflexivity|].
  pose proof (Z_of_byte_range b) as Hb.
  f_equal.
  - replace (Z_of_byte b + 256 * le_val r) with (Z_of_byte b + le_val r * 256) by lia.
    unfold byte_of_Z. rewrite Z.mod_add by lia. fold (byte_of_Z (Z_of_byte b)). apply byte_of_Z_of_byte.
  - replace (Z_of_byte b + 256 * le_val r) with (Z_of_byte b + le_val r * 256) by lia.
    rewrite Z.div_add by lia. rewrite Z.div_small by lia. cbn. exact IH.
Qed.

Lemma pow256 n : 256 ^ Z.of_nat n = 2 ^ (8 * Z.of_nat n).
Proof. change 256 with (2 ^ 8). rewrite <- Z.pow_mul_r by lia. reflexivity. Qed.

Lemma wrap_mod t z : wrap t (z mod 2 ^ ity_bits t) = wrap t z.
Proof.
  unfold wrap, wrap_s, wrap_u. assert (0 < 2 ^ ity_bits t) by (destruct t; cbn; lia).
  destruct (ity_signed t); rewrite Z.mod_mod by lia; reflexivity.
Qed.

Lemma ity_width_bits t : 8 * Z.of_nat (ity_width t) = ity_bits t.
Proof. destruct t; reflexivity. Qed.

(** decoding what was encoded gives the Go conversion [T(v)] *)
Lemma to_int_le_bytes t v : to_int t (le_bytes (ity_width t) v) = Ok (wrap t v).
Proof.
  unfold to_int. rewrite length_le_bytes, Nat.ltb_irrefl.
  rewrite firstn_all2 by (rewrite length_le_bytes; lia).
  rewrite le_val_le_bytes, pow256, ity_width_bits, wrap_mod. reflexivity.
Qed.

Lemma to_int_le_bytes_small t v : in_ity t v -> to_int t (le_bytes (ity_width t) v) = Ok v.
Proof. intros H. rewrite to_int_le_bytes, wrap_small by exact H. reflexivity. Qed.

(** the central slicing fact: the middle of a three-part concatenation *)
Lemma slice_app_mid (pre x suf : list byte) lo hi :
  lo = Z.of_nat (length pre) -> hi = lo + Z.of_nat (length x) ->
  slice (pre ++ x ++ suf) lo hi = Ok x.
Proof.
  intros -> ->. unfold slice. rewrite !app_length.
  replace ((0 <=? Z.of_nat (length pre)) && (Z.of_nat (length pre) <=? Z.of_nat (length pre) + Z.of_nat (length x))
           && (Z.of_nat (length pre) + Z.of_nat (length x) <=? Z.of_nat (length pre + (length x + length suf)))) with true
    by (symmetry; rewrite !andb_true_iff, !Z.leb_le; lia).
  rewrite Nat2Z.id. replace (Z.of_nat (length pre) + Z.of_nat (length x) - Z.of_nat (length pre)) with (Z.of_nat (length x)) by lia.
  rewrite Nat2Z.id, skipn_app, skipn_all, Nat.sub_diag. cbn [skipn app].
  rewrite firstn_app, firstn_all, Nat.sub_diag. cbn [firstn]. now rewrite app_nil_r.
Qed.

Lemma slice_from_app (pre x : list byte) lo :
  lo = Z.of_nat (length pre) -> slice_from (pre ++ x) lo = Ok x.
Proof.
  intros ->. unfold slice_from.
  replace (pre ++ x) with (pre ++ x ++ []) by now rewrite app_nil_r.
  apply slice_app_mid; [reflexivity|]. rewrite !app_length. cbn. lia.
Qed.

Lemma index_app_mid (pre : list byte) b suf i :
  i = Z.of_nat (length pre) -> index (pre ++ b :: suf) i = Ok b.
Proof.
  intros ->. unfold index. rewrite app_length. cbn [length].
  replace ((0 <=? Z.of_nat (length pre)) && (Z.of_nat (length pre) <? Z.of_nat (length pre + S (length suf)))) with true
    by (symmetry; rewrite andb_true_iff, Z.leb_le, Z.ltb_lt; lia).
  rewrite Nat2Z.id, app_nth2, Nat.sub_diag by lia. reflexivity.
Qed.

Lemma slice_ok_length l lo hi x : slice l lo hi = Ok x -> 0 <= lo /\ lo <= hi /\ hi <= Z.of_nat (length l) /\ Z.of_nat (length x) = hi - lo.
Proof.
  unfold slice. destruct ((0 <=? lo) && (lo <=? hi) && (hi <=? Z.of_nat (length l))) eqn:E; [|discriminate].
  rewrite !andb_true_iff, !Z.leb_le in E. intros H; inversion H; subst.
  rewrite firstn_length, skipn_length. lia.
Qed.
