(** Proleptic Gregorian calendar arithmetic as Go's [time] package computes it
    (time.Date / Time.Date / Time.YearDay / Time.Weekday / Time.ISOWeek; go1.23 src/time/time.go).

    Days are counted from the Unix epoch 1970-01-01 (day 0); every function is total on [Z] and uses
    floor division, which coincides with Go's unsigned "absolute time" arithmetic for every year Go
    can represent.  Executable definitions first, the facts used by the properties after them.

    Go                               here
    ------------------------------   --------------------------
    isLeap                           is_leap
    daysSinceEpoch(y) (shifted)      dby y          (days from 1970-01-01 to Jan 1 of y)
    daysBefore[m] (+ leap day)       days_before_month
    Date(y,m,d,...) day count        days_of_civil  (month normalised into the year, day linear)
    absDate(abs,true) -> y, yday     year_of_days, yday_of_days
    absDate(abs,true) -> y, m, d     civil_of_days
    Weekday                          weekday        (0 = Sunday)
    ISOWeek                          iso_week
*)
From Coq Require Import ZArith Lia Bool.
Local Open Scope Z_scope.

Definition is_leap (y : Z) : bool :=
  (y mod 4 =? 0) && (negb (y mod 100 =? 0) || (y mod 400 =? 0)).

(** days from 0001-01-01 to Jan 1 of year [y] *)
Definition dby_abs (y : Z) : Z := let p := y - 1 in 365 * p + p / 4 - p / 100 + p / 400.
Definition epoch_abs : Z := 719162.            (* = dby_abs 1970 *)
Definition dby (y : Z) : Z := dby_abs y - epoch_abs.

Definition days_in_year (y : Z) : Z := if is_leap y then 366 else 365.

(** year containing day [d]: estimate from the mean year length, corrected by at most one *)
Definition year_of_days (d : Z) : Z :=
  let y0 := (400 * (d + epoch_abs)) / 146097 + 1 in
  if d <? dby y0 then y0 - 1 else if dby (y0 + 1) <=? d then y0 + 1 else y0.

(** 0-based day of the year (Go's YearDay is this + 1) *)
Definition yday_of_days (d : Z) : Z := d - dby (year_of_days d).

(** days before month [m] (1..12; 13 = whole year) in a non-leap year: Go's daysBefore table *)
Definition dbm (m : Z) : Z :=
  match m with
  | 1 => 0 | 2 => 31 | 3 => 59 | 4 => 90 | 5 => 120 | 6 => 151 | 7 => 181 | 8 => 212
  | 9 => 243 | 10 => 273 | 11 => 304 | 12 => 334 | _ => 365
  end.
Definition days_before_month (leap : bool) (m : Z) : Z :=
  dbm m + (if leap && (3 <=? m) then 1 else 0).

Definition month_of_yday (leap : bool) (yd : Z) : Z :=
  if yd <? days_before_month leap 2 then 1
  else if yd <? days_before_month leap 3 then 2
  else if yd <? days_before_month leap 4 then 3
  else if yd <? days_before_month leap 5 then 4
  else if yd <? days_before_month leap 6 then 5
  else if yd <? days_before_month leap 7 then 6
  else if yd <? days_before_month leap 8 then 7
  else if yd <? days_before_month leap 9 then 8
  else if yd <? days_before_month leap 10 then 9
  else if yd <? days_before_month leap 11 then 10
  else if yd <? days_before_month leap 12 then 11
  else 12.

(** (year, month 1..12, day 1..31) of day number [d] *)
Definition civil_of_days (d : Z) : Z * Z * Z :=
  let y := year_of_days d in
  let yd := d - dby y in
  let m := month_of_yday (is_leap y) yd in
  (y, m, yd - days_before_month (is_leap y) m + 1).

(** time.Date's day count: the month is normalised into [1,12] overflowing into the year, the day
    is added linearly (so day 0 / day 32 / negative days are the neighbouring months' days). *)
Definition days_of_civil (y m dd : Z) : Z :=
  let y' := y + (m - 1) / 12 in
  let m' := (m - 1) mod 12 + 1 in
  dby y' + days_before_month (is_leap y') m' + (dd - 1).

Definition days_in_month (leap : bool) (m : Z) : Z :=
  days_before_month leap (m + 1) - days_before_month leap m.

(** 0 = Sunday ... 6 = Saturday; 1970-01-01 was a Thursday *)
Definition weekday (d : Z) : Z := (d + 4) mod 7.

(** Time.ISOWeek: shift to the Thursday of the same (Monday-based) week; its year and week number *)
Definition iso_week (d : Z) : Z * Z :=
  let th := d + (3 - (weekday d + 6) mod 7) in
  (year_of_days th, yday_of_days th / 7 + 1).

(* ------------------------------------------------------------------------------------------ *)
(** * Facts *)

Lemma epoch_abs_ok : dby_abs 1970 = epoch_abs.
Proof. reflexivity. Qed.

Lemma dby_1970 : dby 1970 = 0.
Proof. reflexivity. Qed.

Lemma is_leap_spec y :
  is_leap y = true <-> (y mod 4 = 0 /\ (y mod 100 <> 0 \/ y mod 400 = 0)).
Proof.
  unfold is_leap. rewrite andb_true_iff, orb_true_iff, negb_true_iff, !Z.eqb_eq, Z.eqb_neq. tauto.
Qed.

Lemma dby_step y : dby (y + 1) = dby y + days_in_year y.
Proof.
  unfold dby, dby_abs, days_in_year. cbn zeta.
  replace (y + 1 - 1) with y by lia.
  destruct (is_leap y) eqn:L.
  - apply is_leap_spec in L. Z.div_mod_to_equations. lia.
  - assert (H : ~ (y mod 4 = 0 /\ (y mod 100 <> 0 \/ y mod 400 = 0))).
    { intros H. apply is_leap_spec in H. congruence. }
    Z.div_mod_to_equations. lia.
Qed.

Lemma days_in_year_range y : 365 <= days_in_year y <= 366.
Proof. unfold days_in_year. destruct (is_leap y); lia. Qed.

Lemma dby_lt_succ y : dby y < dby (y + 1).
Proof. rewrite dby_step. pose proof (days_in_year_range y). lia. Qed.

Lemma dby_mono_le y1 y2 : y1 <= y2 -> dby y1 <= dby y2.
Proof.
  intros H. replace y2 with (y1 + (y2 - y1)) by lia.
  assert (Hn : 0 <= y2 - y1) by lia. revert Hn. generalize (y2 - y1). clear H.
  apply (natlike_ind (fun n => dby y1 <= dby (y1 + n))).
  - rewrite Z.add_0_r. lia.
  - intros n Hn IH. replace (y1 + Z.succ n) with (y1 + n + 1) by lia.
    pose proof (dby_lt_succ (y1 + n)). lia.
Qed.

Lemma dby_mono_lt y1 y2 : y1 < y2 -> dby y1 < dby y2.
Proof.
  intros H. pose proof (dby_mono_le (y1 + 1) y2 ltac:(lia)). pose proof (dby_lt_succ y1). lia.
Qed.

(** the year bracket: [year_of_days d] is the unique year whose days contain [d] *)
Lemma year_of_days_spec d : dby (year_of_days d) <= d < dby (year_of_days d + 1).
Proof.
  unfold year_of_days. cbn zeta.
  set (y0 := 400 * (d + epoch_abs) / 146097 + 1).
  assert (E : dby (y0 - 1) <= d < dby (y0 + 2)).
  { subst y0. unfold dby, dby_abs, epoch_abs. cbn zeta. Z.div_mod_to_equations. lia. }
  destruct (Z.ltb_spec d (dby y0)).
  - replace (y0 - 1 + 1) with y0 by lia. lia.
  - destruct (Z.leb_spec (dby (y0 + 1)) d).
    + replace (y0 + 1 + 1) with (y0 + 2) by lia. lia.
    + lia.
Qed.

Lemma year_of_days_unique d y : dby y <= d < dby (y + 1) -> year_of_days d = y.
Proof.
  intros H. pose proof (year_of_days_spec d) as S.
  destruct (Z.lt_trichotomy (year_of_days d) y) as [L | [E | G]]; [ | exact E | ].
  - pose proof (dby_mono_le (year_of_days d + 1) y ltac:(lia)). lia.
  - pose proof (dby_mono_le (y + 1) (year_of_days d) ltac:(lia)). lia.
Qed.

Lemma year_of_days_mono d1 d2 : d1 <= d2 -> year_of_days d1 <= year_of_days d2.
Proof.
  intros H. pose proof (year_of_days_spec d1). pose proof (year_of_days_spec d2).
  destruct (Z.le_gt_cases (year_of_days d1) (year_of_days d2)) as [L | G]; [ exact L | ].
  pose proof (dby_mono_le (year_of_days d2 + 1) (year_of_days d1) ltac:(lia)). lia.
Qed.

Lemma yday_range d : 0 <= yday_of_days d < days_in_year (year_of_days d).
Proof.
  unfold yday_of_days. pose proof (year_of_days_spec d) as S. rewrite dby_step in S. lia.
Qed.

Lemma yday_of_year_day y k : 0 <= k < days_in_year y ->
  year_of_days (dby y + k) = y /\ yday_of_days (dby y + k) = k.
Proof.
  intros H. assert (E : year_of_days (dby y + k) = y).
  { apply year_of_days_unique. rewrite dby_step. lia. }
  split; [ exact E | ]. unfold yday_of_days. rewrite E. lia.
Qed.

(** months *)
Ltac dbm_norm :=
  repeat match goal with
  | |- context [days_before_month ?l ?m] =>
      let v := eval cbv in (days_before_month l m) in change (days_before_month l m) with v
  | H : context [days_before_month ?l ?m] |- _ =>
      let v := eval cbv in (days_before_month l m) in change (days_before_month l m) with v in H
  end.

Lemma month_of_yday_spec (leap : bool) yd : 0 <= yd < (if leap then 366 else 365) ->
  let m := month_of_yday leap yd in
  1 <= m <= 12 /\ days_before_month leap m <= yd < days_before_month leap (m + 1).
Proof.
  intros H. unfold month_of_yday.
  destruct leap;
  repeat match goal with
  | |- context [if ?a <? ?b then _ else _] => destruct (Z.ltb_spec a b)
  end; cbn zeta; dbm_norm; lia.
Qed.

Lemma month_of_yday_unique (leap : bool) m yd : 1 <= m <= 12 ->
  days_before_month leap m <= yd < days_before_month leap (m + 1) -> month_of_yday leap yd = m.
Proof.
  intros Hm H.
  assert (C : m = 1 \/ m = 2 \/ m = 3 \/ m = 4 \/ m = 5 \/ m = 6 \/ m = 7 \/ m = 8 \/ m = 9 \/ m = 10
              \/ m = 11 \/ m = 12) by lia.
  unfold month_of_yday.
  destruct leap; repeat (destruct C as [-> | C]); try subst m; dbm_norm;
    repeat match goal with
    | |- context [if ?a <? ?b then _ else _] => destruct (Z.ltb_spec a b); try lia
    end.
Qed.

(** civil <-> days is a bijection on valid dates *)
Definition valid_date (y m dd : Z) : Prop :=
  1 <= m <= 12 /\ 1 <= dd <= days_in_month (is_leap y) m.

Lemma days_before_month_13 (leap : bool) : days_before_month leap 13 = if leap then 366 else 365.
Proof. destruct leap; reflexivity. Qed.

Lemma days_before_month_mono (leap : bool) m : 1 <= m <= 12 ->
  0 <= days_before_month leap m /\ days_before_month leap (m + 1) <= (if leap then 366 else 365)
  /\ 28 <= days_in_month leap m <= 31.
Proof.
  intros Hm.
  assert (C : m = 1 \/ m = 2 \/ m = 3 \/ m = 4 \/ m = 5 \/ m = 6 \/ m = 7 \/ m = 8 \/ m = 9 \/ m = 10
              \/ m = 11 \/ m = 12) by lia.
  unfold days_in_month.
  destruct leap; repeat (destruct C as [-> | C]); try subst m; dbm_norm; lia.
Qed.

Lemma days_of_civil_valid y m dd : 1 <= m <= 12 ->
  days_of_civil y m dd = dby y + days_before_month (is_leap y) m + (dd - 1).
Proof.
  intros Hm. unfold days_of_civil. cbn zeta.
  replace ((m - 1) / 12) with 0 by (Z.div_mod_to_equations; lia).
  replace ((m - 1) mod 12 + 1) with m by (Z.div_mod_to_equations; lia).
  rewrite Z.add_0_r. reflexivity.
Qed.

Theorem civil_of_days_of_civil y m dd : valid_date y m dd ->
  civil_of_days (days_of_civil y m dd) = (y, m, dd).
Proof.
  intros [Hm Hd]. rewrite days_of_civil_valid by exact Hm.
  pose proof (days_before_month_mono (is_leap y) m Hm) as (B0 & B1 & B2).
  unfold days_in_month in Hd.
  set (k := days_before_month (is_leap y) m + (dd - 1)).
  assert (Hk : 0 <= k < days_in_year y).
  { unfold days_in_year. subst k. destruct (is_leap y); lia. }
  unfold civil_of_days. cbn zeta.
  replace (dby y + days_before_month (is_leap y) m + (dd - 1)) with (dby y + k) by (subst k; lia).
  destruct (yday_of_year_day y k Hk) as [Ey _]. rewrite Ey.
  replace (dby y + k - dby y) with k by lia.
  assert (Em : month_of_yday (is_leap y) k = m).
  { apply month_of_yday_unique; [ exact Hm | subst k; lia ]. }
  rewrite Em. subst k. f_equal. lia.
Qed.

Theorem days_of_civil_of_days d :
  let '(y, m, dd) := civil_of_days d in days_of_civil y m dd = d /\ valid_date y m dd.
Proof.
  unfold civil_of_days. cbn zeta.
  set (y := year_of_days d). set (yd := d - dby y).
  assert (Hyd : 0 <= yd < (if is_leap y then 366 else 365)).
  { pose proof (yday_range d) as R. unfold yday_of_days, days_in_year in R. exact R. }
  pose proof (month_of_yday_spec (is_leap y) yd Hyd) as S. cbn zeta in S.
  destruct S as (Hm & Hlo & Hhi).
  split.
  - rewrite days_of_civil_valid by exact Hm. subst yd. lia.
  - split; [ exact Hm | ]. unfold days_in_month. lia.
Qed.

(** Jan 1 of year [y] is day [dby y] *)
Lemma days_of_civil_jan1 y : days_of_civil y 1 1 = dby y.
Proof. rewrite days_of_civil_valid by lia. destruct (is_leap y); dbm_norm; lia. Qed.

(** Jan 1 + k days (time.Date(y, 1, 1+k, ...)): day linear *)
Lemma days_of_civil_jan_k y k : days_of_civil y 1 (1 + k) = dby y + k.
Proof. rewrite days_of_civil_valid by lia. destruct (is_leap y); dbm_norm; lia. Qed.

Lemma weekday_range d : 0 <= weekday d < 7.
Proof. unfold weekday. Z.div_mod_to_equations. lia. Qed.
