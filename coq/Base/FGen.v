(** IEEE-754 binary floating point as Go uses it on amd64, generic in the format.
    Values are Flocq's inductive [BinarySingleNaN.binary_float prec emax] (one NaN; bit patterns of NaNs
    are canonicalised at the harness boundary).  This file gives
      - bit-pattern transport  [of_bits] / [to_bits]  (floats cross the harness boundary as raw bits),
      - the Go operations  + - * /  (round to nearest even, one rounding), [<] [>] and int -> float,
      - an axiom-free order embedding [fkey] into Z:  x < y  <->  fkey x < fkey y  for non-NaN x y,
        from which totality / transitivity of Go's comparisons on non-NaN values follow in Z.
    Instantiated for binary32 in Base/F32.v and binary64 in Base/F64.v. *)
From Coq Require Import ZArith Lia Bool List.
From Flocq Require Import Core.Zaux Core.Digits Core.FLX IEEE754.BinarySingleNaN.
Local Open Scope Z_scope.

Section FGen.
Variable prec emax : Z.
Context (prec_gt_0_ : Prec_gt_0 prec) (prec_lt_emax_ : Prec_lt_emax prec emax).

Notation fl := (binary_float prec emax).
Definition f_emin : Z := SpecFloat.emin prec emax.     (* 3 - emax - prec *)
Definition f_mw : Z := prec - 1.                         (* width of the mantissa field *)
Definition f_ew : Z := Z.log2 emax + 1.                  (* width of the exponent field *)

(** a finite value from its exact (sign, mantissa, exponent); NaN if the triple is not canonical *)
Definition mk_finite (s : bool) (m : positive) (e : Z) : fl :=
  match SpecFloat.bounded prec emax m e as b return SpecFloat.bounded prec emax m e = b -> fl with
  | true => fun H => B754_finite s m e H
  | false => fun _ => B754_nan
  end eq_refl.

Definition of_bits (z : Z) : fl :=
  let s := Z.testbit z (f_mw + f_ew) in
  let ef := (z / 2 ^ f_mw) mod 2 ^ f_ew in
  let mf := z mod 2 ^ f_mw in
  if ef =? 2 ^ f_ew - 1 then (if mf =? 0 then B754_infinity s else B754_nan)
  else if ef =? 0 then match mf with Zpos p => mk_finite s p f_emin | _ => B754_zero s end
  else match mf + 2 ^ f_mw with Zpos p => mk_finite s p (ef - 1 + f_emin) | _ => B754_nan end.

Definition sign_bit (s : bool) : Z := if s then 2 ^ (f_mw + f_ew) else 0.
Definition nan_bits : Z := (2 ^ f_ew - 1) * 2 ^ f_mw + 2 ^ (f_mw - 1).   (* the canonical quiet NaN *)

Definition to_bits (x : fl) : Z :=
  match x with
  | B754_zero s => sign_bit s
  | B754_infinity s => sign_bit s + (2 ^ f_ew - 1) * 2 ^ f_mw
  | B754_nan => nan_bits
  | B754_finite s m e _ =>
      sign_bit s + (if Zpos m <? 2 ^ f_mw then Zpos m else (e - f_emin + 1) * 2 ^ f_mw + (Zpos m - 2 ^ f_mw))
  end.

(** Go operations (amd64 SSE2: round to nearest even, a single rounding, no fused multiply-add) *)
Definition f_of_Z (z : Z) : fl := binary_normalize prec emax _ _ mode_NE z 0 false.   (* float(int) *)
Definition f_add (x y : fl) : fl := Bplus mode_NE x y.
Definition f_sub (x y : fl) : fl := Bminus mode_NE x y.
Definition f_mul (x y : fl) : fl := Bmult mode_NE x y.
Definition f_div (x y : fl) : fl := Bdiv mode_NE x y.
Definition f_lt (x y : fl) : bool := Bltb x y.           (* Go  x < y  (false when either is NaN) *)
Definition f_gt (x y : fl) : bool := Bltb y x.           (* Go  x > y *)
Definition f_le (x y : fl) : bool := Bleb x y.
Definition f_eq (x y : fl) : bool := Beqb x y.           (* Go  x == y  (+0 == -0; NaN != NaN) *)
Definition f_zero : fl := B754_zero false.
Definition f_nan : fl := B754_nan.
Definition f_is_nan (x : fl) : bool := is_nan x.

(** ---- order embedding ---- *)
Definition fkey (x : fl) : Z :=
  match x with
  | B754_zero _ => 0
  | B754_nan => 0
  | B754_infinity s => cond_Zopp s ((emax - f_emin + 1) * 2 ^ prec)
  | B754_finite s m e _ => cond_Zopp s ((e - f_emin) * 2 ^ prec + Zpos m)
  end.

Lemma bounded_facts m e : SpecFloat.bounded prec emax m e = true ->
  f_emin <= e <= emax - prec /\ 0 < Zpos m < 2 ^ prec.
Proof.
  unfold SpecFloat.bounded, SpecFloat.canonical_mantissa. rewrite andb_true_iff.
  intros [Hc He]. apply Zeq_bool_eq in Hc. apply Z.leb_le in He.
  unfold SpecFloat.fexp in Hc. fold f_emin in Hc.
  assert (Hd : Zpos (SpecFloat.digits2_pos m) <= prec) by lia.
  rewrite Zpos_digits2_pos in Hd.
  apply (Zpower_gt_Zdigits radix2) in Hd. simpl Z.abs in Hd.
  change (radix2 ^ prec) with (2 ^ prec) in Hd. lia.
Qed.

Lemma pow_prec_pos : 0 < 2 ^ prec.
Proof. apply Z.pow_pos_nonneg; unfold Prec_gt_0 in *; lia. Qed.

Lemma emin_lt_emax' : f_emin < emax.
Proof. unfold f_emin, SpecFloat.emin, Prec_gt_0, Prec_lt_emax in *. lia. Qed.

Lemma finite_key_pos m e : SpecFloat.bounded prec emax m e = true ->
  0 < (e - f_emin) * 2 ^ prec + Zpos m < (emax - f_emin + 1) * 2 ^ prec.
Proof.
  intros H. destruct (bounded_facts _ _ H) as [He Hm]. pose proof pow_prec_pos.
  unfold Prec_gt_0 in *. split; nia.
Qed.

Lemma lex_compare m1 e1 m2 e2 :
  SpecFloat.bounded prec emax m1 e1 = true -> SpecFloat.bounded prec emax m2 e2 = true ->
  match e1 ?= e2 with Eq => Pos.compare_cont Eq m1 m2 | Lt => Lt | Gt => Gt end
  = ((e1 - f_emin) * 2 ^ prec + Zpos m1 ?= (e2 - f_emin) * 2 ^ prec + Zpos m2).
Proof.
  intros H1 H2. destruct (bounded_facts _ _ H1) as [He1 Hm1]. destruct (bounded_facts _ _ H2) as [He2 Hm2].
  pose proof pow_prec_pos as HP. symmetry.
  destruct (Z.compare_spec e1 e2) as [E|E|E].
  - subst e2. change (Pos.compare_cont Eq m1 m2) with (Zpos m1 ?= Zpos m2).
    destruct (Z.compare_spec (Zpos m1) (Zpos m2)); [apply Z.compare_eq_iff | apply Z.compare_lt_iff | apply Z.compare_gt_iff]; lia.
  - apply Z.compare_lt_iff. nia.
  - apply Z.compare_gt_iff. nia.
Qed.

Lemma compare_opp a b : CompOpp (a ?= b) = (- a ?= - b).
Proof. rewrite Z.compare_opp. symmetry. apply Z.compare_antisym. Qed.

Theorem fkey_compare : forall x y : fl, is_nan x = false -> is_nan y = false ->
  Bcompare x y = Some (fkey x ?= fkey y).
Proof.
  intros x y Hx Hy. unfold Bcompare.
  destruct x as [sx|sx| |sx mx ex Bx]; try discriminate Hx;
  destruct y as [sy|sy| |sy my ey By]; try discriminate Hy; cbn [B2SF SpecFloat.SFcompare fkey]; f_equal.
  - (* zero, inf *) pose proof pow_prec_pos. pose proof emin_lt_emax'.
    destruct sy; cbn [cond_Zopp]; symmetry; [apply Z.compare_gt_iff | apply Z.compare_lt_iff]; nia.
  - pose proof (finite_key_pos _ _ By).
    destruct sy; cbn [cond_Zopp]; symmetry; [apply Z.compare_gt_iff | apply Z.compare_lt_iff]; lia.
  - pose proof pow_prec_pos. pose proof emin_lt_emax'.
    destruct sx; cbn [cond_Zopp]; symmetry; [apply Z.compare_lt_iff | apply Z.compare_gt_iff]; nia.
  - pose proof pow_prec_pos. pose proof emin_lt_emax'.
    destruct sx, sy; cbn [cond_Zopp]; symmetry;
      [apply Z.compare_eq_iff | apply Z.compare_lt_iff | apply Z.compare_gt_iff | apply Z.compare_eq_iff]; nia.
  - pose proof (finite_key_pos _ _ By). pose proof pow_prec_pos. pose proof emin_lt_emax'.
    destruct sx, sy; cbn [cond_Zopp]; symmetry;
      [apply Z.compare_lt_iff | apply Z.compare_lt_iff | apply Z.compare_gt_iff | apply Z.compare_gt_iff]; nia.
  - pose proof (finite_key_pos _ _ Bx).
    destruct sx; cbn [cond_Zopp]; symmetry; [apply Z.compare_lt_iff | apply Z.compare_gt_iff]; lia.
  - pose proof (finite_key_pos _ _ Bx). pose proof pow_prec_pos. pose proof emin_lt_emax'.
    destruct sx, sy; cbn [cond_Zopp]; symmetry;
      [apply Z.compare_gt_iff | apply Z.compare_lt_iff | apply Z.compare_gt_iff | apply Z.compare_lt_iff]; nia.
  - pose proof (finite_key_pos _ _ Bx). pose proof (finite_key_pos _ _ By).
    destruct sx, sy; cbn [cond_Zopp].
    + rewrite <- compare_opp, <- (lex_compare _ _ _ _ Bx By). destruct (ex ?= ey); reflexivity.
    + symmetry. apply Z.compare_lt_iff. lia.
    + symmetry. apply Z.compare_gt_iff. lia.
    + apply (lex_compare _ _ _ _ Bx By).
Qed.

Corollary f_lt_key x y : is_nan x = false -> is_nan y = false -> f_lt x y = (fkey x <? fkey y).
Proof.
  intros Hx Hy. unfold f_lt, Bltb, SpecFloat.SFltb. pose proof (fkey_compare x y Hx Hy) as H.
  unfold Bcompare in H. rewrite H. unfold Z.ltb. destruct (fkey x ?= fkey y); reflexivity.
Qed.

Corollary f_gt_key x y : is_nan x = false -> is_nan y = false -> f_gt x y = (fkey y <? fkey x).
Proof. intros Hx Hy. unfold f_gt. apply (f_lt_key y x Hy Hx). Qed.

Corollary f_le_key x y : is_nan x = false -> is_nan y = false -> f_le x y = (fkey x <=? fkey y).
Proof.
  intros Hx Hy. unfold f_le, Bleb, SpecFloat.SFleb. pose proof (fkey_compare x y Hx Hy) as H.
  unfold Bcompare in H. rewrite H. unfold Z.leb. destruct (fkey x ?= fkey y); reflexivity.
Qed.

Corollary f_eq_key x y : is_nan x = false -> is_nan y = false -> f_eq x y = (fkey x =? fkey y).
Proof.
  intros Hx Hy. unfold f_eq, Beqb, SpecFloat.SFeqb. pose proof (fkey_compare x y Hx Hy) as H.
  unfold Bcompare in H. rewrite H. rewrite Z.eqb_compare. destruct (fkey x ?= fkey y); reflexivity.
Qed.

(** comparisons with a NaN operand are false, as in Go *)
Lemma f_lt_nan_l x y : is_nan x = true -> f_lt x y = false.
Proof. destruct x; try discriminate. reflexivity. Qed.
Lemma f_lt_nan_r x y : is_nan y = true -> f_lt x y = false.
Proof. destruct y; try discriminate. destruct x; reflexivity. Qed.

(** [<] is irreflexive on every value (NaN included) *)
Lemma f_lt_irrefl x : f_lt x x = false.
Proof.
  unfold f_lt, Bltb, SpecFloat.SFltb. destruct x as [s|s| |s m e B]; cbn [B2SF SpecFloat.SFcompare]; try reflexivity.
  - destruct s; reflexivity.
  - rewrite Z.compare_refl, Pos.compare_cont_refl. destruct s; reflexivity.
Qed.

End FGen.

(** conversion between two formats: float32(float64) / float64(float32) — one rounding to nearest even *)
Section Conv.
Variable p1 e1 p2 e2 : Z.
Context (Hp2 : Prec_gt_0 p2) (He2 : Prec_lt_emax p2 e2).
Definition f_conv (x : binary_float p1 e1) : binary_float p2 e2 :=
  match x with
  | B754_zero s => B754_zero s
  | B754_infinity s => B754_infinity s
  | B754_nan => B754_nan
  | B754_finite s m e _ => binary_normalize p2 e2 _ _ mode_NE (cond_Zopp s (Zpos m)) e s
  end.
End Conv.
