(** Sorted association lists with last-writer-wins insertion, generic in the key type and its
    three-way comparison.  Used as the finite-map representation both of the storage model
    (key = (year file, byte offset)) and of the interval-map specification (key = interval start). *)
From Coq Require Import List Bool Lia.
Import ListNotations.

Section AList.
  Context {K V : Type}.
  Variable cmp : K -> K -> comparison.

  (** insert or overwrite *)
  Fixpoint ins (k : K) (v : V) (s : list (K * V)) : list (K * V) :=
    match s with
    | [] => [(k, v)]
    | (k', v') :: r =>
        match cmp k k' with
        | Lt => (k, v) :: s
        | Eq => (k, v) :: r
        | Gt => (k', v') :: ins k v r
        end
    end.

  Fixpoint lookup (k : K) (s : list (K * V)) : option V :=
    match s with
    | [] => None
    | (k', v') :: r => match cmp k k' with Eq => Some v' | _ => lookup k r end
    end.

  (** strictly ascending keys *)
  Fixpoint sorted (s : list (K * V)) : Prop :=
    match s with
    | [] => True
    | (k, _) :: r => match r with [] => True | (k', _) :: _ => cmp k k' = Lt end /\ sorted r
    end.

  (** what a well-behaved comparison on a domain [P] is *)
  Record cmp_ok (P : K -> Prop) : Prop := {
    cmp_refl : forall a, P a -> cmp a a = Eq;
    cmp_antisym : forall a b, P a -> P b -> cmp a b = CompOpp (cmp b a);
    cmp_trans : forall a b c, P a -> P b -> P c -> cmp a b = Lt -> cmp b c = Lt -> cmp a c = Lt;
    cmp_eq_l : forall a b c, P a -> P b -> P c -> cmp a b = Eq -> cmp a c = cmp b c
  }.

  Definition keys_in (P : K -> Prop) (s : list (K * V)) : Prop := Forall (fun e => P (fst e)) s.

  Lemma keys_in_ins (P : K -> Prop) k v s : P k -> keys_in P s -> keys_in P (ins k v s).
  Proof.
    intros Hk. induction s as [|[k' v'] r IH]; intros Hs; cbn.
    - constructor; [assumption|constructor].
    - inversion Hs as [|? ? Hk' Hr]; subst. unfold keys_in in *. destruct (cmp k k').
      + constructor; [exact Hk|exact Hr].
      + constructor; [exact Hk|exact Hs].
      + constructor; [exact Hk'|apply IH; exact Hr].
  Qed.

  Lemma head_ins_lt (P : K -> Prop) (ok : cmp_ok P) k0 k v s :
    P k0 -> P k -> keys_in P s -> cmp k0 k = Lt ->
    match s with [] => True | (k', _) :: _ => cmp k0 k' = Lt end ->
    match ins k v s with [] => True | (k', _) :: _ => cmp k0 k' = Lt end.
  Proof.
    intros H0 Hk Hs Hlt Hh. destruct s as [|[k' v'] r]; cbn; [assumption|].
    destruct (cmp k k'); assumption.
  Qed.

  Lemma sorted_ins (P : K -> Prop) (ok : cmp_ok P) k v s :
    P k -> keys_in P s -> sorted s -> sorted (ins k v s).
  Proof.
    intros Hk. induction s as [|[k' v'] r IH]; intros Hs Hso; [cbn; auto|].
    inversion Hs as [|? ? Hk' Hr]; subst. cbn in Hk'. cbn [ins].
    destruct (cmp k k') eqn:E.
    - (* Eq: replace *) cbn. destruct Hso as [Hh Hso]. split; [|assumption].
      destruct r as [|[k'' v''] r']; [exact I|]. inversion Hr; subst.
      rewrite (cmp_eq_l P ok k k' k''); auto.
    - cbn. split; [assumption|]. exact Hso.
    - destruct Hso as [Hh Hso]. specialize (IH Hr Hso).
      change (sorted ((k', v') :: ins k v r)). cbn [sorted]. split; [|assumption].
      assert (Hlt : cmp k' k = Lt).
      { rewrite (cmp_antisym P ok k' k) by assumption. rewrite E. reflexivity. }
      pose proof (head_ins_lt P ok k' k v r Hk' Hk Hr Hlt Hh) as Hx.
      destruct (ins k v r) as [|[k2 v2] r2]; [exact I|exact Hx].
  Qed.

  Lemma lookup_ins_same (P : K -> Prop) (ok : cmp_ok P) k v s :
    P k -> keys_in P s -> lookup k (ins k v s) = Some v.
  Proof.
    intros Hk. induction s as [|[k' v'] r IH]; intros Hs; cbn.
    - rewrite (cmp_refl P ok) by assumption. reflexivity.
    - inversion Hs; subst. destruct (cmp k k') eqn:E; cbn.
      + rewrite (cmp_refl P ok) by assumption. reflexivity.
      + rewrite (cmp_refl P ok) by assumption. reflexivity.
      + rewrite E. auto.
  Qed.

  Lemma lookup_ins_other (P : K -> Prop) (ok : cmp_ok P) k v k2 s :
    P k -> P k2 -> keys_in P s -> cmp k2 k <> Eq -> lookup k2 (ins k v s) = lookup k2 s.
  Proof.
    intros Hk Hk2. induction s as [|[k' v'] r IH]; intros Hs Hne; cbn.
    - destruct (cmp k2 k); congruence.
    - inversion Hs as [|? ? Hk' Hr]; subst. cbn in Hk'. destruct (cmp k k') eqn:E; cbn.
      + (* k = k' *) destruct (cmp k2 k) eqn:E2; [congruence| |].
        * assert (cmp k2 k' = cmp k2 k) as ->.
          { rewrite (cmp_antisym P ok k2 k'), (cmp_antisym P ok k2 k) by assumption.
            f_equal. symmetry. apply (cmp_eq_l P ok); assumption. }
          rewrite E2. reflexivity.
        * assert (cmp k2 k' = cmp k2 k) as ->.
          { rewrite (cmp_antisym P ok k2 k'), (cmp_antisym P ok k2 k) by assumption.
            f_equal. symmetry. apply (cmp_eq_l P ok); assumption. }
          rewrite E2. reflexivity.
      + destruct (cmp k2 k); try congruence; reflexivity.
      + destruct (cmp k2 k'); auto.
  Qed.

  (** overwriting twice at the same key = overwriting once *)
  Lemma ins_ins_same (P : K -> Prop) (ok : cmp_ok P) k v v' s :
    P k -> keys_in P s -> ins k v (ins k v' s) = ins k v s.
  Proof.
    intros Hk. induction s as [|[k' w] r IH]; intros Hs; cbn.
    - rewrite (cmp_refl P ok) by assumption. reflexivity.
    - inversion Hs; subst. destruct (cmp k k') eqn:E; cbn.
      + rewrite (cmp_refl P ok) by assumption. reflexivity.
      + rewrite (cmp_refl P ok) by assumption. reflexivity.
      + rewrite E. f_equal. auto.
  Qed.
End AList.

(** Refinement step: an entry-wise abstraction [g] that preserves the comparison of keys commutes
    with insertion.  No sortedness is needed. *)
Section MapIns.
  Context {K1 V1 K2 V2 : Type}.
  Variable cmp1 : K1 -> K1 -> comparison.
  Variable cmp2 : K2 -> K2 -> comparison.
  Variable g : K1 * V1 -> K2 * V2.

  Lemma map_ins (P : K1 * V1 -> Prop) k v s :
    (forall e, P e -> P (k, v) -> cmp2 (fst (g (k, v))) (fst (g e)) = cmp1 k (fst e)) ->
    P (k, v) -> Forall P s ->
    map g (ins cmp1 k v s) = ins cmp2 (fst (g (k, v))) (snd (g (k, v))) (map g s).
  Proof.
    intros Hc Hk. induction s as [|[k' v'] r IH]; intros Hs; cbn.
    - destruct (g (k, v)); reflexivity.
    - inversion Hs as [|? ? He Hr]; subst.
      destruct (g (k', v')) as [k2' v2'] eqn:Eg.
      pose proof (Hc (k', v') He Hk) as Hx. rewrite Eg in Hx. cbn in Hx. rewrite Hx.
      destruct (cmp1 k k'); cbn; rewrite ?Eg.
      + destruct (g (k, v)); reflexivity.
      + destruct (g (k, v)); reflexivity.
      + f_equal. auto.
  Qed.
End MapIns.
