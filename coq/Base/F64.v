(** binary64 (Go float64) — instance of Base/FGen.v for prec = 53, emax = 1024; conversions to/from binary32. *)
From Coq Require Import ZArith Lia Bool List.
From Flocq Require Import Core.FLX IEEE754.BinarySingleNaN.
Require Import MS.Base.FGen MS.Base.F32.
Local Open Scope Z_scope.

Definition f64 : Type := binary_float 53 1024.
Lemma p64_gt_0 : Prec_gt_0 53. Proof. reflexivity. Qed.
Lemma p64_lt_emax : Prec_lt_emax 53 1024. Proof. reflexivity. Qed.
#[global] Existing Instance p64_gt_0.
#[global] Existing Instance p64_lt_emax.

Definition f64_of_bits (z : Z) : f64 := of_bits 53 1024 z.
Definition f64_bits (x : f64) : Z := to_bits 53 1024 x.
Definition f64_of_Z (z : Z) : f64 := f_of_Z 53 1024 p64_gt_0 p64_lt_emax z.     (* float64(int64) etc. *)
Definition f64_add : f64 -> f64 -> f64 := f_add 53 1024 p64_gt_0 p64_lt_emax.
Definition f64_sub : f64 -> f64 -> f64 := f_sub 53 1024 p64_gt_0 p64_lt_emax.
Definition f64_div : f64 -> f64 -> f64 := f_div 53 1024 p64_gt_0 p64_lt_emax.
Definition f64_lt : f64 -> f64 -> bool := f_lt 53 1024.
Definition f64_gt : f64 -> f64 -> bool := f_gt 53 1024.
Definition f64_zero : f64 := B754_zero false.
Definition f64_is_nan (x : f64) : bool := is_nan x.
Definition f64_key : f64 -> Z := fkey 53 1024.

(** float64(x) for a float32 x is exact; float32(x) for a float64 x rounds once to nearest even *)
Definition f64_of_f32 (x : f32) : f64 := f_conv 24 128 53 1024 p64_gt_0 p64_lt_emax x.
Definition f32_of_f64 (x : f64) : f32 := f_conv 53 1024 24 128 p32_gt_0 p32_lt_emax x.
