(** binary32 (Go float32) — instance of Base/FGen.v for prec = 24, emax = 128. *)
From Coq Require Import ZArith Lia Bool List.
From Flocq Require Import Core.FLX IEEE754.BinarySingleNaN.
Require Import MS.Base.FGen.
Local Open Scope Z_scope.

Definition f32 : Type := binary_float 24 128.
Lemma p32_gt_0 : Prec_gt_0 24. Proof. reflexivity. Qed.
Lemma p32_lt_emax : Prec_lt_emax 24 128. Proof. reflexivity. Qed.
#[global] Existing Instance p32_gt_0.
#[global] Existing Instance p32_lt_emax.

Definition f32_of_bits (z : Z) : f32 := of_bits 24 128 z.
Definition f32_bits (x : f32) : Z := to_bits 24 128 x.
Definition f32_of_Z (z : Z) : f32 := f_of_Z 24 128 p32_gt_0 p32_lt_emax z.      (* float32(int64) etc. *)
Definition f32_add : f32 -> f32 -> f32 := f_add 24 128 p32_gt_0 p32_lt_emax.
Definition f32_div : f32 -> f32 -> f32 := f_div 24 128 p32_gt_0 p32_lt_emax.
Definition f32_lt : f32 -> f32 -> bool := f_lt 24 128.
Definition f32_gt : f32 -> f32 -> bool := f_gt 24 128.
Definition f32_le : f32 -> f32 -> bool := f_le 24 128.
Definition f32_eq : f32 -> f32 -> bool := f_eq 24 128.
Definition f32_zero : f32 := B754_zero false.
Definition f32_is_nan (x : f32) : bool := is_nan x.
Definition f32_key : f32 -> Z := fkey 24 128.
Definition f32_nonan (l : list f32) : bool := forallb (fun x => negb (f32_is_nan x)) l.

Lemma f32_lt_key x y : f32_is_nan x = false -> f32_is_nan y = false -> f32_lt x y = (f32_key x <? f32_key y).
Proof. apply (f_lt_key 24 128 p32_gt_0 p32_lt_emax). Qed.
Lemma f32_gt_key x y : f32_is_nan x = false -> f32_is_nan y = false -> f32_gt x y = (f32_key y <? f32_key x).
Proof. apply (f_gt_key 24 128 p32_gt_0 p32_lt_emax). Qed.
Lemma f32_le_key x y : f32_is_nan x = false -> f32_is_nan y = false -> f32_le x y = (f32_key x <=? f32_key y).
Proof. apply (f_le_key 24 128 p32_gt_0 p32_lt_emax). Qed.
Lemma f32_eq_key x y : f32_is_nan x = false -> f32_is_nan y = false -> f32_eq x y = (f32_key x =? f32_key y).
Proof. apply (f_eq_key 24 128 p32_gt_0 p32_lt_emax). Qed.
Lemma f32_lt_irrefl x : f32_lt x x = false.
Proof. apply f_lt_irrefl. Qed.
Lemma f32_gt_irrefl x : f32_gt x x = false.
Proof. apply f_lt_irrefl. Qed.
