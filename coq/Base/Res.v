(** Outcome of a partial Go operation: a value, an error return, or a run-time panic. *)
Inductive Res (A : Type) : Type :=
| Ok : A -> Res A
| Rejected : Res A
| Panic : Res A.
Arguments Ok {A} _.
Arguments Rejected {A}.
Arguments Panic {A}.

Definition bindR {A B} (r : Res A) (f : A -> Res B) : Res B :=
  match r with Ok a => f a | Rejected => Rejected | Panic => Panic end.
Notation "'do' x <- r ; k" := (bindR r (fun x => k)) (at level 200, x pattern, r at level 100, k at level 200).

Definition is_ok {A} (r : Res A) : bool := match r with Ok _ => true | _ => false end.
Definition is_panic {A} (r : Res A) : bool := match r with Panic => true | _ => false end.
Definition res_code {A} (r : Res A) : nat := match r with Ok _ => 0 | Rejected => 1 | Panic => 2 end.
