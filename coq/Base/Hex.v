(** Byte strings as they cross the Go/Coq boundary: the harness prints raw bytes as hex string
    literals; [unhex] turns them into [list byte].  Only used by the correspondence glue. *)
From Coq Require Import NArith List String Ascii Bool.
Local Open Scope bool_scope.
From Coq.Strings Require Import Byte.
Import ListNotations.
Local Open Scope N_scope.

Definition nib (a : ascii) : N :=
  let n := N_of_ascii a in
  if (48 <=? n) && (n <=? 57) then n - 48
  else if (97 <=? n) && (n <=? 102) then n - 87
  else if (65 <=? n) && (n <=? 70) then n - 55 else 0.

Definition byte_of_N (n : N) : byte :=
  match Byte.of_N (n mod 256) with Some b => b | None => x00 end.

Fixpoint unhex (s : string) : list byte :=
  match s with
  | String h (String l r) => byte_of_N (16 * nib h + nib l) :: unhex r
  | _ => []
  end.

(** Bulk transport: the harness prints a byte string b0 b1 ... as the hexadecimal number literal
    0x1<b0><b1>...%positive (sentinel digit 1 first), which Coq parses far faster than a string
    literal; [unhexp] decodes it in time linear in the length. *)
Fixpoint pos_bits (p : positive) : list bool :=      (* least significant first, top 1 dropped *)
  match p with xH => [] | xO q => false :: pos_bits q | xI q => true :: pos_bits q end.

Fixpoint group8 (l : list bool) (acc : list byte) : list byte :=
  match l with
  | b0 :: b1 :: b2 :: b3 :: b4 :: b5 :: b6 :: b7 :: r =>
      group8 r (Byte.of_bits (b0, (b1, (b2, (b3, (b4, (b5, (b6, b7))))))) :: acc)
  | _ => acc
  end.

Definition unhexp (p : positive) : list byte := group8 (pos_bits p) [].

Definition hexdigit (n : N) : ascii :=
  if n <? 10 then ascii_of_N (48 + n) else ascii_of_N (87 + n).

Fixpoint hex (l : list byte) : string :=
  match l with
  | [] => EmptyString
  | b :: r => let n := Byte.to_N b in String (hexdigit (n / 16)) (String (hexdigit (n mod 16)) (hex r))
  end.

(** Go strings are byte strings. *)
Definition bytes_of_string (s : string) : list byte := List.map byte_of_ascii (list_ascii_of_string s).

Definition byte_eqb (a b : byte) : bool := Byte.eqb a b.
Fixpoint bytes_eqb (a b : list byte) : bool :=
  match a, b with
  | [], [] => true
  | x :: a', y :: b' => Byte.eqb x y && bytes_eqb a' b'
  | _, _ => false
  end.

Lemma bytes_eqb_eq a b : bytes_eqb a b = true <-> a = b.
Proof.
  revert b; induction a as [|x a IH]; intros [|y b]; cbn; split; intro H; try congruence; try discriminate.
  - apply andb_prop in H as [H1 H2]. apply Byte.byte_dec_bl in H1. apply IH in H2. congruence.
  - inversion H; subst. rewrite (Byte.byte_dec_lb eq_refl). cbn. apply IH. reflexivity.
Qed.

(** ASCII lower-casing, as needed for [strings.EqualFold(name, "Epoch")]: the Unicode simple-folding
    orbits of the letters e,p,o,c,h contain only their ASCII upper/lower forms, so EqualFold with
    "Epoch" is exactly byte-wise ASCII case-insensitive equality. *)
Definition lower_byte (b : byte) : byte :=
  let n := Byte.to_N b in if (65 <=? n) && (n <=? 90) then byte_of_N (n + 32) else b.
Definition equal_fold_ascii (a b : list byte) : bool :=
  bytes_eqb (List.map lower_byte a) (List.map lower_byte b).
