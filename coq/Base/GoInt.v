(** Go fixed-width integer arithmetic: explicit two's-complement wrap.
    Used by the generated translations (Generated/Src_*.v) and by the hand-written models. *)
From Coq Require Import ZArith Lia Bool.
Local Open Scope Z_scope.

Inductive ity := I8 | I16 | I32 | I64 | U8 | U16 | U32 | U64.

Definition ity_bits (t : ity) : Z :=
  match t with I8 | U8 => 8 | I16 | U16 => 16 | I32 | U32 => 32 | I64 | U64 => 64 end.

Definition ity_signed (t : ity) : bool :=
  match t with I8 | I16 | I32 | I64 => true | _ => false end.

Definition wrap_u (bits z : Z) : Z := z mod 2 ^ bits.
Definition wrap_s (bits z : Z) : Z :=
  let m := z mod 2 ^ bits in if m <? 2 ^ (bits - 1) then m else m - 2 ^ bits.

Definition wrap (t : ity) (z : Z) : Z :=
  if ity_signed t then wrap_s (ity_bits t) z else wrap_u (ity_bits t) z.

Definition ity_min (t : ity) : Z := if ity_signed t then - 2 ^ (ity_bits t - 1) else 0.
Definition ity_max (t : ity) : Z := if ity_signed t then 2 ^ (ity_bits t - 1) - 1 else 2 ^ ity_bits t - 1.
Definition in_ity (t : ity) (z : Z) : Prop := ity_min t <= z <= ity_max t.
Definition in_ityb (t : ity) (z : Z) : bool := (ity_min t <=? z) && (z <=? ity_max t).

Lemma in_ityb_spec t z : in_ityb t z = true <-> in_ity t z.
Proof. unfold in_ityb, in_ity. rewrite andb_true_iff, !Z.leb_le. tauto. Qed.

Ltac norm_pows :=
  change (2 ^ (8 - 1)) with 128 in *; change (2 ^ 8) with 256 in *;
  change (2 ^ (16 - 1)) with 32768 in *; change (2 ^ 16) with 65536 in *;
  change (2 ^ (32 - 1)) with 2147483648 in *; change (2 ^ 32) with 4294967296 in *;
  change (2 ^ (64 - 1)) with 9223372036854775808 in *;
  change (2 ^ 64) with 18446744073709551616 in *.

Ltac case_if :=
  match goal with
  | |- context [if Z.ltb ?a ?b then _ else _] => destruct (Z.ltb_spec a b)
  end.

Lemma wrap_small t z : in_ity t z -> wrap t z = z.
Proof.
  unfold in_ity, ity_min, ity_max, wrap, wrap_s, wrap_u.
  destruct t; cbn [ity_signed ity_bits]; intros H; norm_pows; try case_if;
    Z.div_mod_to_equations; lia.
Qed.

Lemma wrap_range t z : in_ity t (wrap t z).
Proof.
  unfold in_ity, ity_min, ity_max, wrap, wrap_s, wrap_u.
  destruct t; cbn [ity_signed ity_bits]; norm_pows; try case_if;
    Z.div_mod_to_equations; lia.
Qed.

(** Go's truncating division and remainder are [Z.quot] and [Z.rem]; a zero divisor panics in Go
    and is never reached by a model function without an explicit guard. *)
