(** MD5 (RFC 1321) as an executable Gallina function on byte strings.
    Used ONLY to run the WAL-replay model on concrete files (Corr/C06.v) — the theorems of C06 are proved
    over an arbitrary section variable [md5].  Differential-tested against Go's crypto/md5 on every
    check run (every checksummed record of every generated WAL file) and by the RFC test vectors below. *)
From Coq Require Import NArith List Bool.
From Coq Require String.
From Coq.Strings Require Import Byte.
Import ListNotations.
Require Import MS.Base.Hex.
Local Open Scope N_scope.

Definition w32 (x : N) : N := N.land x 4294967295.
Definition rotl32 (x : N) (s : N) : N := w32 (N.lor (N.shiftl x s) (N.shiftr x (32 - s))).
Definition not32 (x : N) : N := N.lxor x 4294967295.

(** floor(2^32 * |sin(i+1)|), i = 0..63 *)
Definition md5_K : list N := [3614090360; 3905402710; 606105819; 3250441966; 4118548399; 1200080426; 2821735955; 4249261313; 1770035416; 2336552879; 4294925233; 2304563134; 1804603682; 4254626195; 2792965006; 1236535329; 4129170786; 3225465664; 643717713; 3921069994; 3593408605; 38016083; 3634488961; 3889429448; 568446438; 3275163606; 4107603335; 1163531501; 2850285829; 4243563512; 1735328473; 2368359562; 4294588738; 2272392833; 1839030562; 4259657740; 2763975236; 1272893353; 4139469664; 3200236656; 681279174; 3936430074; 3572445317; 76029189; 3654602809; 3873151461; 530742520; 3299628645; 4096336452; 1126891415; 2878612391; 4237533241; 1700485571; 2399980690; 4293915773; 2240044497; 1873313359; 4264355552; 2734768916; 1309151649; 4149444226; 3174756917; 718787259; 3951481745].
Definition md5_S : list N := [7; 12; 17; 22; 7; 12; 17; 22; 7; 12; 17; 22; 7; 12; 17; 22; 5; 9; 14; 20; 5; 9; 14; 20; 5; 9; 14; 20; 5; 9; 14; 20; 4; 11; 16; 23; 4; 11; 16; 23; 4; 11; 16; 23; 4; 11; 16; 23; 6; 10; 15; 21; 6; 10; 15; 21; 6; 10; 15; 21; 6; 10; 15; 21].

Fixpoint word_le (l : list byte) : N :=    (* little-endian value *)
  match l with [] => 0 | b :: r => Byte.to_N b + 256 * word_le r end.

Fixpoint words16 (n : nat) (l : list byte) : list N :=
  match n with O => [] | S n' => word_le (firstn 4 l) :: words16 n' (skipn 4 l) end.

Record md5st := mkst { sa : N; sb : N; sc : N; sd : N }.

Definition md5_step (M : list N) (st : md5st) (i : N) (k s : N) : md5st :=
  let '(mkst A B C D) := st in
  let '(F, g) :=
    if i <? 16 then (N.lor (N.land B C) (N.land (not32 B) D), i)
    else if i <? 32 then (N.lor (N.land D B) (N.land (not32 D) C), (5 * i + 1) mod 16)
    else if i <? 48 then (N.lxor (N.lxor B C) D, (3 * i + 5) mod 16)
    else (N.lxor C (N.lor B (not32 D)), (7 * i) mod 16) in
  let F' := w32 (F + A + k + nth (N.to_nat g) M 0) in
  mkst D (w32 (B + rotl32 F' s)) B C.

Fixpoint md5_rounds (M : list N) (st : md5st) (i : N) (ks ss : list N) : md5st :=
  match ks, ss with
  | k :: ks', s :: ss' => md5_rounds M (md5_step M st i k s) (i + 1) ks' ss'
  | _, _ => st
  end.

Definition md5_block (st : md5st) (blk : list byte) : md5st :=
  let M := words16 16 blk in
  let r := md5_rounds M st 0 md5_K md5_S in
  mkst (w32 (sa st + sa r)) (w32 (sb st + sb r)) (w32 (sc st + sc r)) (w32 (sd st + sd r)).

Fixpoint md5_blocks (n : nat) (st : md5st) (l : list byte) : md5st :=
  match n with O => st | S n' => md5_blocks n' (md5_block st (firstn 64 l)) (skipn 64 l) end.

Fixpoint le_bytes_N (n : nat) (v : N) : list byte :=
  match n with O => [] | S n' => byte_of_N (v mod 256) :: le_bytes_N n' (v / 256) end.

Definition md5_pad (l : list byte) : list byte :=
  let len := N.of_nat (length l) in
  let zeros := (119 - len mod 64) mod 64 in      (* so that len + 1 + zeros = 56 (mod 64) *)
  l ++ x80 :: repeat x00 (N.to_nat zeros) ++ le_bytes_N 8 (8 * len).

Definition md5 (l : list byte) : list byte :=
  let p := md5_pad l in
  let st := md5_blocks (Nat.div (length p) 64) (mkst 1732584193 4023233417 2562383102 271733878) p in
  le_bytes_N 4 (sa st) ++ le_bytes_N 4 (sb st) ++ le_bytes_N 4 (sc st) ++ le_bytes_N 4 (sd st).

Lemma length_le_bytes_N n v : length (le_bytes_N n v) = n.
Proof. revert v; induction n; intros; cbn [le_bytes_N length]; [reflexivity | now rewrite IHn]. Qed.

Lemma md5_length l : length (md5 l) = 16%nat.
Proof. unfold md5. rewrite !app_length, !length_le_bytes_N. reflexivity. Qed.

(** RFC 1321 test suite *)
Import String.
Example md5_empty : hex (md5 []) = "d41d8cd98f00b204e9800998ecf8427e"%string.
Proof. vm_compute. reflexivity. Qed.
Example md5_abc : hex (md5 (bytes_of_string "abc")) = "900150983cd24fb0d6963f7d28e17f72"%string.
Proof. vm_compute. reflexivity. Qed.
Example md5_alpha : hex (md5 (bytes_of_string "abcdefghijklmnopqrstuvwxyz")) = "c3fcd3d76192e4007dfb496cca67e13b"%string.
Proof. vm_compute. reflexivity. Qed.
Example md5_80 : hex (md5 (bytes_of_string "12345678901234567890123456789012345678901234567890123456789012345678901234567890"))
  = "57edf4a22be3c955ac49da2e2107b67a"%string.
Proof. vm_compute. reflexivity. Qed.
