(** Time zones and instants as Go's [time] package treats them (go1.23 src/time/zoneinfo.go
    Location.lookup, time.go Date / Time.In / Time.AddDate / Time.Year / Time.YearDay).

    An instant is a [Z] number of NANOSECONDS since the Unix epoch (Go: unix seconds + nsec, the pair
    is observed by the harness as [Unix()] and [Nanosecond()], never as the overflowing UnixNano).
    A zone is its offset function given as a transition table:

      tz = (initial offset, [(when_1, off_1); (when_2, off_2); ...])     seconds, UTC instants

    meaning offset [off_i] from [when_i] (inclusive) up to the next transition.  The harness dumps
    the table from Go's own tzdata (Time.ZoneBounds) so that model and code see the same zone.
    [lookup] returns, like Location.lookup, the offset in force at a UTC second together with the
    bounds [start, end) of that period; [local_to_utc] is the offset search of time.Date, verbatim.
*)
From Coq Require Import ZArith List Bool Lia.
Import ListNotations.
Require Import MS.Base.Civil.
Local Open Scope Z_scope.

Definition tz := (Z * list (Z * Z))%type.
Definition tz_utc : tz := (0, []).
Definition tz_fixed (o : Z) : tz := (o, []).

Definition alpha : Z := - 9223372036854775808.   (* zoneinfo.go: alpha = -1 << 63 *)
Definition omega : Z := 9223372036854775807.     (*              omega = 1<<63 - 1 *)

Fixpoint lookup_from (cur start : Z) (l : list (Z * Z)) (u : Z) : Z * Z * Z :=
  match l with
  | [] => (cur, start, omega)
  | (w, o) :: r => if u <? w then (cur, start, w) else lookup_from o w r u
  end.

(** Location.lookup(sec) -> (offset, start, end) *)
Definition lookup (z : tz) (u : Z) : Z * Z * Z := lookup_from (fst z) alpha (snd z) u.
Definition offset_at (z : tz) (u : Z) : Z := fst (fst (lookup z u)).

(** time.Date: wall-clock seconds [L] (as if UTC) -> UTC seconds:
      _, offset, start, end, _ := loc.lookup(unix)
      if offset != 0 { utc := unix - offset
                       if utc < start || utc >= end { _, offset, _, _, _ = loc.lookup(utc) }
                       unix -= offset } *)
Definition local_to_utc (z : tz) (L : Z) : Z :=
  let '(o, s, e) := lookup z L in
  if o =? 0 then L
  else
    let utc := L - o in
    let o' := if (utc <? s) || (e <=? utc) then offset_at z utc else o in
    L - o'.

Definition NS : Z := 1000000000.
Definition SPD : Z := 86400.

Definition sec_of (t : Z) : Z := t / NS.
Definition nsec_of (t : Z) : Z := t mod NS.

(** Time.In(z): seconds on the local wall clock, counted like Unix seconds *)
Definition local_secs (z : tz) (t : Z) : Z := sec_of t + offset_at z (sec_of t).
Definition local_days (z : tz) (t : Z) : Z := local_secs z t / SPD.
Definition year_of (z : tz) (t : Z) : Z := year_of_days (local_days z t).
(** Time.YearDay(): 1-based *)
Definition yearday (z : tz) (t : Z) : Z := yday_of_days (local_days z t) + 1.

(** time.Date(y, m, d, hh, mm, ss, ns, z) for in-range clock fields (month and day are normalised
    as Go does: see Civil.days_of_civil) *)
Definition go_date (z : tz) (y m d hh mm ss ns : Z) : Z :=
  local_to_utc z (days_of_civil y m d * SPD + hh * 3600 + mm * 60 + ss) * NS + ns.

(** time.Date(y, January, 1, 0, 0, 0, 0, z) *)
Definition year_start (z : tz) (y : Z) : Z := go_date z y 1 1 0 0 0 0.

(** t.AddDate(0, 0, n) *)
Definition add_days (z : tz) (t n : Z) : Z :=
  let ls := local_secs z t in
  let sod := ls mod SPD in
  let '(y, m, dd) := civil_of_days (ls / SPD) in
  go_date z y m (dd + n) (sod / 3600) (sod mod 3600 / 60) (sod mod 60) (nsec_of t).

(** boolean well-formedness: transition instants strictly increasing, all offsets within a day *)
Fixpoint sorted_from (prev : Z) (l : list (Z * Z)) : bool :=
  match l with
  | [] => true
  | (w, _) :: r => (prev <? w) && sorted_from w r
  end.
Definition off_okb (o : Z) : bool := (- SPD <=? o) && (o <=? SPD).
Definition tz_boundedb (z : tz) : bool := off_okb (fst z) && forallb (fun p => off_okb (snd p)) (snd z).
Definition wf_tzb (z : tz) : bool := tz_boundedb z && sorted_from alpha (snd z).

(** no transition instant in (a, b] *)
Definition no_trans_in (z : tz) (a b : Z) : bool :=
  forallb (fun p => (fst p <=? a) || (b <? fst p)) (snd z).

(** the wall-clock second [L] is "regular" for [z]: every offset is within a day and no transition
    happens within a day of it (so [L] exists exactly once on the local clock) *)
Definition edge_okb (z : tz) (L : Z) : bool :=
  tz_boundedb z && no_trans_in z (L - SPD) (L + SPD)
  && (alpha <=? L - SPD) && (L + SPD <? omega).

(* ------------------------------------------------------------------------------------------ *)
(** * Facts *)

Lemma lookup_from_offset_bounded cur start l u :
  off_okb cur = true -> forallb (fun p => off_okb (snd p)) l = true ->
  off_okb (fst (fst (lookup_from cur start l u))) = true.
Proof.
  revert cur start. induction l as [| [w o] r IH]; intros cur start Hc Hl; cbn [lookup_from].
  - exact Hc.
  - cbn [forallb snd] in Hl. apply andb_true_iff in Hl as [Ho Hr].
    destruct (u <? w); [ exact Hc | apply IH; assumption ].
Qed.

Lemma offset_at_bounded z u : tz_boundedb z = true -> - SPD <= offset_at z u <= SPD.
Proof.
  unfold tz_boundedb. intros H. apply andb_true_iff in H as [Hc Hl].
  pose proof (lookup_from_offset_bounded (fst z) alpha (snd z) u Hc Hl) as B.
  unfold off_okb in B. apply andb_true_iff in B as [B1 B2].
  apply Z.leb_le in B1, B2. unfold offset_at, lookup. lia.
Qed.

(** with no transition in (a, b], every lookup in [a, b] gives the same period, which covers [a, b] *)
Lemma lookup_from_stable cur start l a b u :
  forallb (fun p => (fst p <=? a) || (b <? fst p)) l = true ->
  start <= a -> b < omega -> a <= u <= b ->
  lookup_from cur start l u = lookup_from cur start l a
  /\ snd (fst (lookup_from cur start l a)) <= a /\ b < snd (lookup_from cur start l a).
Proof.
  revert cur start. induction l as [| [w o] r IH]; intros cur start Hl Hs Hb Hu; cbn [lookup_from].
  - cbn [fst snd]. split; [ reflexivity | lia ].
  - cbn [forallb fst] in Hl. apply andb_true_iff in Hl as [Hw Hr].
    apply orb_true_iff in Hw. destruct Hw as [Hw | Hw].
    + apply Z.leb_le in Hw.
      destruct (Z.ltb_spec u w); [ lia | ]. destruct (Z.ltb_spec a w); [ lia | ].
      apply IH; [ exact Hr | lia | lia | lia ].
    + apply Z.ltb_lt in Hw.
      destruct (Z.ltb_spec u w); [ | lia ]. destruct (Z.ltb_spec a w); [ | lia ].
      cbn [fst snd]. split; [ reflexivity | lia ].
Qed.

Lemma offset_at_stable z a b u :
  no_trans_in z a b = true -> alpha <= a -> b < omega -> a <= u <= b ->
  offset_at z u = offset_at z a.
Proof.
  intros H Ha Hb Hu. unfold offset_at, lookup.
  destruct (lookup_from_stable (fst z) alpha (snd z) a b u H Ha Hb Hu) as [E _]. rewrite E. reflexivity.
Qed.

Lemma edge_okb_spec z L : edge_okb z L = true ->
  tz_boundedb z = true /\ no_trans_in z (L - SPD) (L + SPD) = true /\ alpha <= L - SPD /\ L + SPD < omega.
Proof.
  unfold edge_okb. rewrite !andb_true_iff, Z.leb_le, Z.ltb_lt. tauto.
Qed.

(** around a regular wall-clock second the offset is constant ... *)
Lemma edge_offset z L u : edge_okb z L = true -> L - SPD <= u <= L + SPD ->
  offset_at z u = offset_at z L.
Proof.
  intros H Hu. apply edge_okb_spec in H as (Hb & Hn & Ha & Ho).
  unfold SPD in *.
  rewrite (offset_at_stable z (L - 86400) (L + 86400) u Hn Ha Ho Hu).
  rewrite (offset_at_stable z (L - 86400) (L + 86400) L Hn Ha Ho ltac:(lia)). reflexivity.
Qed.

(** ... and time.Date's offset search returns [L - offset] *)
Lemma local_to_utc_edge z L : edge_okb z L = true -> local_to_utc z L = L - offset_at z L.
Proof.
  intros H. pose proof (edge_okb_spec z L H) as (Hb & Hn & Ha & Ho).
  pose proof (offset_at_bounded z L Hb) as B.
  unfold local_to_utc. unfold offset_at in B |- * at 2. unfold lookup in *.
  destruct (lookup_from_stable (fst z) alpha (snd z) (L - SPD) (L + SPD) L Hn Ha Ho ltac:(unfold SPD; lia))
    as (E & Hs & He).
  rewrite <- E in Hs, He.
  destruct (lookup_from (fst z) alpha (snd z) L) as [[o s] e] eqn:EL. cbn [fst snd] in *.
  destruct (Z.eqb_spec o 0); [ lia | ].
  destruct (Z.ltb_spec (L - o) s); [ lia | ].
  destruct (Z.leb_spec e (L - o)); [ lia | ].
  reflexivity.
Qed.

(** the local wall clock passes a regular second [L] exactly at UTC second [L - offset] *)
Lemma local_cmp z L u : edge_okb z L = true ->
  (L <= u + offset_at z u <-> L - offset_at z L <= u).
Proof.
  intros H. pose proof (edge_okb_spec z L H) as (Hb & _).
  pose proof (offset_at_bounded z L Hb) as BL. pose proof (offset_at_bounded z u Hb) as Bu.
  destruct (Z_lt_le_dec u (L - SPD)) as [C1 | C1]; [ lia | ].
  destruct (Z_lt_le_dec (L + SPD) u) as [C2 | C2]; [ lia | ].
  rewrite (edge_offset z L u H ltac:(lia)). lia.
Qed.

(** fixed-offset zones *)
Lemma lookup_fixed o u : lookup (tz_fixed o) u = (o, alpha, omega).
Proof. reflexivity. Qed.
Lemma offset_at_fixed o u : offset_at (tz_fixed o) u = o.
Proof. reflexivity. Qed.
Lemma local_to_utc_fixed o L : local_to_utc (tz_fixed o) L = L - o.
Proof.
  unfold local_to_utc. rewrite lookup_fixed. destruct (Z.eqb_spec o 0); [ lia | ].
  rewrite offset_at_fixed. destruct ((L - o <? alpha) || (omega <=? L - o)); reflexivity.
Qed.

(** instants: seconds and nanoseconds *)
Lemma sec_nsec t : t = sec_of t * NS + nsec_of t /\ 0 <= nsec_of t < NS.
Proof. unfold sec_of, nsec_of, NS. Z.div_mod_to_equations. lia. Qed.

Lemma sec_of_mul u n : 0 <= n < NS -> sec_of (u * NS + n) = u /\ nsec_of (u * NS + n) = n.
Proof. unfold sec_of, nsec_of, NS. intros H. Z.div_mod_to_equations. lia. Qed.

(** [regular z L]: the wall-clock second [L] exists exactly once in zone [z] and time.Date finds it.
    Holds for every [L] of a fixed-offset zone and for every [L] with [edge_okb z L = true]. *)
Definition regular (z : tz) (L : Z) : Prop :=
  local_to_utc z L = L - offset_at z L
  /\ offset_at z (L - offset_at z L) = offset_at z L
  /\ forall u, (L <= u + offset_at z u <-> L - offset_at z L <= u).

Lemma edge_regular z L : edge_okb z L = true -> regular z L.
Proof.
  intros H. split; [ apply local_to_utc_edge; exact H | split ].
  - pose proof (edge_okb_spec z L H) as (Hb & _).
    pose proof (offset_at_bounded z L Hb). apply edge_offset; [ exact H | lia ].
  - intros u. apply local_cmp. exact H.
Qed.

Lemma fixed_regular o L : regular (tz_fixed o) L.
Proof.
  split; [ rewrite local_to_utc_fixed, offset_at_fixed; reflexivity | split ].
  - rewrite !offset_at_fixed. reflexivity.
  - intros u. rewrite !offset_at_fixed. lia.
Qed.

Lemma le_inst A t : A * NS <= t <-> A <= sec_of t.
Proof. unfold sec_of, NS. split; intros H; Z.div_mod_to_equations; lia. Qed.

Lemma lt_inst A t : t < A * NS <-> sec_of t < A.
Proof. pose proof (le_inst A t). lia. Qed.

(** the master comparison: local day number of [t] against a regular local midnight [D * SPD] *)
Lemma day_cmp z D t : regular z (D * SPD) ->
  (D <= local_days z t <-> (D * SPD - offset_at z (D * SPD)) * NS <= t).
Proof.
  intros (_ & _ & R). rewrite le_inst, <- R. unfold local_days, local_secs, SPD.
  split; intros H; Z.div_mod_to_equations; lia.
Qed.
