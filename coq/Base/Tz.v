(** Time zones and instants as Go's [time] package treats them (go1.23 src/time/zoneinfo.go
    Location.lookup, time.go Date / Time.In / Time.AddDate / Time.Year / Time.YearDay).

    An instant is a [Z] number of NANOSECONDS since the Unix epoch (Go: unix seconds + nsec, the pair
    is observed by the harness as [Unix()] and [Nanosecond()], never as the overflowing UnixNano).
    A zone is its offset function given as a transition table:

      tz = (initial offset, [(when_1, off_1); (when_2, off_2); ...])     seconds, UTC instants

    meaning offset [off_i] from [when_i] (inclusive) up to the next transition.  The harness dumps
    the table from Go's own tzdata (Time.ZoneBounds) so that model and code see the same zone.
    [lookup] returns, like Location.lookup, the offset in force at a UTC second together with the
    bounds [start, end) of that period; [local_to_utc] is the offset search of time.Date, verbatim.
*)
From Coq Require Import ZArith List Bool Lia.
Import ListNotations.
Require Import MS.Base.Civil.
Local Open Scope Z_scope.

Definition tz := (Z * list (Z * Z))%type.
Definition tz_utc : tz := (0, []).
Definition tz_fixed (o : Z) : tz := (o, []).

Definition alpha : Z := - 9223372036854775808.   (* zoneinfo.go: alpha = -1 << 63 *)
Definition omega : Z := 9223372036854775807.     (*              omega = 1<<63 - 1 *)

Fixpoint lookup_from (cur start : Z) (l : list (Z * Z)) (u : Z) : Z * Z * Z :=
  match l with
  | [] => (cur, start, omega)
  | (w, o) :: r => if u <? w then (cur, start, w) else lookup_from o w r u
  end.

(** Location.lookup(sec) -> (offset, start, end) *)
Definition lookup (z : tz) (u : Z) : Z * Z * Z := lookup_from (fst z) alpha (snd z) u.
Definition offset_at (z : tz) (u : Z) : Z := fst (fst (lookup z u)).

(** time.Date: wall-clock seconds [L] (as if UTC) -> UTC seconds:
      _, offset, start, end, _ := loc.lookup(unix)
      if offset != 0 { utc := unix - offset
                       if utc < start || utc >= end { _, offset, _, _, _ = loc.lookup(utc) }
                       unix -= offset } *)
Definition local_to_utc (z : tz) (L : Z) : Z :=
  let '(o, s, e) := lookup z L in
  if o =? 0 then L
  else
    let utc := L - o in
    let o' := if (utc <? s) || (e <=? utc) then offset_at z utc else o in
    L - o'.

Definition NS : Z := 1000000000.
Definition SPD : Z := 86400.

Definition sec_of (t : Z) : Z := t / NS.
Definition nsec_of (t : Z) : Z := t mod NS.

(** Time.In(z): seconds on the local wall clock, counted like Unix seconds *)
Definition local_secs (z : tz) (t : Z) : Z := sec_of t + offset_at z (sec_of t).
Definition local_days (z : tz) (t : Z) : Z := local_secs z t / SPD.
Definition year_of (z : tz) (t : Z) : Z := year_of_days (local_days z t).
(** Time.YearDay(): 1-based *)
Definition yearday (z : tz) (t : Z) : Z := yday_of_days (local_days z t) + 1.

(** time.Date(y, m, d, hh, mm, ss, ns, z) for in-range clock fields (month and day are normalised
    as Go does: see Civil.days_of_civil) *)
Definition go_date (z : tz) (y m d hh mm ss ns : Z) : Z :=
  local_to_utc z (days_of_civil y m d * SPD + hh * 3600 + mm * 60 + ss) * NS + ns.

(** time.Date(y, January, 1, 0, 0, 0, 0, z) *)
Definition year_start (z : tz) (y : Z) : Z := go_date z y 1 1 0 0 0 0.

(** t.AddDate(0, 0, n) *)
Definition add_days (z : tz) (t n : Z) : Z :=
  let ls := local_secs z t in
  let sod := ls mod SPD in
  let '(y, m, dd) := civil_of_days (ls / SPD) in
  go_date z y m (dd + n) (sod / 3600) (sod mod 3600 / 60) (sod mod 60) (nsec_of t).

(** boolean well-formedness: transition instants strictly increasing, all offsets within a day *)
Fixpoint sorted_from (prev : Z) (l : list (Z * Z)) : bool :=
  match l with
  | [] => true
  | (w, _) :: r => (prev <? w) && sorted_from w r
  end.
Definition off_okb (o : Z) : bool := (- SPD <=? o) && (o <=? SPD).
Definition tz_boundedb (z : tz) : bool := off_okb (fst z) && forallb (fun p => off_okb (snd p)) (snd z).
Definition wf_tzb (z : tz) : bool := tz_boundedb z && sorted_from alpha (snd z).

(** UTC second at which time.Date places local midnight of day [D], and the offset in force there *)
Definition day_utc (z : tz) (D : Z) : Z := local_to_utc z (D * SPD).
Definition day_off (z : tz) (D : Z) : Z := offset_at z (day_utc z D).

(** [cross_okb z L]: the wall-clock second [L] is shown exactly once by the local clock of [z], at
    the instant U = local_to_utc z L that time.Date computes: U + offset(U) = L, every period that
    ends before U stays below L and every period that starts after U stays at or above L.
    (A DST change a few hours away from L does not disturb this; L inside a spring-forward gap or a
    fall-back overlap does.) *)
Definition period_ok (cur s e U L : Z) : bool :=
  if e <=? U then e - 1 + cur <? L
  else if U <? s then L <=? s + cur
  else U + cur =? L.

Fixpoint periods_ok (cur start : Z) (l : list (Z * Z)) (U L : Z) : bool :=
  match l with
  | [] => if U <? start then L <=? start + cur else U + cur =? L
  | (w, o) :: r => period_ok cur start w U L && periods_ok o w r U L
  end.

Definition cross_okb (z : tz) (L : Z) : bool :=
  let U := local_to_utc z L in
  (alpha <=? U) && (U + offset_at z U =? L) && periods_ok (fst z) alpha (snd z) U L.

(** the Prop it establishes *)
Definition regular (z : tz) (L : Z) : Prop :=
  let U := local_to_utc z L in
  U + offset_at z U = L /\ forall u, (L <= u + offset_at z u <-> U <= u).

(* ------------------------------------------------------------------------------------------ *)
(** * Facts *)

Lemma periods_ok_spec l : forall cur start U L u,
  periods_ok cur start l U L = true -> (start <= u \/ start <= U) ->
  (L <= u + fst (fst (lookup_from cur start l u)) <-> U <= u).
Proof.
  induction l as [| [w o] r IH]; intros cur start U L u Hp Hs; cbn [lookup_from periods_ok] in *.
  - cbn [fst]. destruct (Z.ltb_spec U start).
    + apply Z.leb_le in Hp. lia.
    + apply Z.eqb_eq in Hp. lia.
  - apply andb_true_iff in Hp as [Hp Hr]. destruct (Z.ltb_spec u w).
    + cbn [fst]. unfold period_ok in Hp. destruct (Z.leb_spec w U).
      * apply Z.ltb_lt in Hp. lia.
      * destruct (Z.ltb_spec U start).
        -- apply Z.leb_le in Hp. lia.
        -- apply Z.eqb_eq in Hp. lia.
    + apply IH; [ exact Hr | lia ].
Qed.

Lemma cross_regular z L : cross_okb z L = true -> regular z L.
Proof.
  unfold cross_okb, regular. cbn zeta. rewrite !andb_true_iff, Z.leb_le, Z.eqb_eq.
  intros [[Ha He] Hp]. split; [ exact He | ].
  intros u. unfold offset_at, lookup. apply periods_ok_spec; [ exact Hp | right; exact Ha ].
Qed.

(** fixed-offset zones *)
Lemma lookup_fixed o u : lookup (tz_fixed o) u = (o, alpha, omega).
Proof. reflexivity. Qed.
Lemma offset_at_fixed o u : offset_at (tz_fixed o) u = o.
Proof. reflexivity. Qed.
Lemma local_to_utc_fixed o L : local_to_utc (tz_fixed o) L = L - o.
Proof.
  unfold local_to_utc. rewrite lookup_fixed. destruct (Z.eqb_spec o 0); [ lia | ].
  rewrite offset_at_fixed. destruct ((L - o <? alpha) || (omega <=? L - o)); reflexivity.
Qed.

Lemma fixed_regular o L : regular (tz_fixed o) L.
Proof.
  unfold regular. cbn zeta. rewrite local_to_utc_fixed. split.
  - rewrite offset_at_fixed. lia.
  - intros u. rewrite offset_at_fixed. lia.
Qed.

(** instants: seconds and nanoseconds *)
Lemma sec_nsec t : t = sec_of t * NS + nsec_of t /\ 0 <= nsec_of t < NS.
Proof. unfold sec_of, nsec_of, NS. Z.div_mod_to_equations. lia. Qed.

Lemma sec_of_mul u n : 0 <= n < NS -> sec_of (u * NS + n) = u /\ nsec_of (u * NS + n) = n.
Proof. unfold sec_of, nsec_of, NS. intros H. Z.div_mod_to_equations. lia. Qed.

Lemma le_inst A t : A * NS <= t <-> A <= sec_of t.
Proof. unfold sec_of, NS. split; intros H; Z.div_mod_to_equations; lia. Qed.

Lemma lt_inst A t : t < A * NS <-> sec_of t < A.
Proof. pose proof (le_inst A t). lia. Qed.

(** the master comparison: local day number of [t] against a regular local midnight [D * SPD] *)
Lemma day_cmp z D t : regular z (D * SPD) -> (D <= local_days z t <-> day_utc z D * NS <= t).
Proof.
  intros (_ & R). unfold day_utc. rewrite le_inst, <- R. unfold local_days, local_secs, SPD.
  split; intros H; Z.div_mod_to_equations; lia.
Qed.

Lemma day_utc_off z D : regular z (D * SPD) -> day_utc z D = D * SPD - day_off z D.
Proof. intros (E & _). unfold day_off, day_utc in *. lia. Qed.
