(** Lexical path functions of Go's [path] / [path/filepath] packages on Unix (separator '/'), and
    [strings.Split] for a one-byte separator, over byte strings.

    Go function                         model
    --------------------------------    ----------------
    strings.Split(s, "/"), (s, ":")     split_on
    filepath.Clean = path.Clean         clean      (component form of the lazybuf algorithm: drop "" and ".",
                                                    cancel "x/..", drop ".." at the root, "" -> ".")
    filepath.Join(a, b) = path.Join     join2      (first non-empty element onwards, joined by "/", cleaned)
    path.Dir                            dir
    filepath.Base                       base
    filepath.Ext(p) == ".bin"           has_bin_ext
    kernel path resolution (absolute,   resolve    (component list below "/"; purely lexical — symlinks are
      no symlinks)                                  outside the model, the server never creates one)

    The component form is validated against the real functions on every run of C16 (path cases).  *)
From Coq Require Import List Bool Arith NArith Lia.
From Coq.Strings Require Import Byte.
Import ListNotations.
Require Import MS.Base.Hex.

Definition name := list byte.

Definition slash : byte := x2f.
Definition dot : byte := x2e.

Fixpoint split_on (sep : byte) (s : list byte) : list name :=
  match s with
  | [] => [[]]
  | c :: r =>
      if Byte.eqb c sep then [] :: split_on sep r
      else match split_on sep r with
           | [] => [[c]]
           | h :: t => (c :: h) :: t
           end
  end.

Definition is_dot (c : name) : bool := match c with [d] => Byte.eqb d dot | _ => false end.
Definition is_dotdot (c : name) : bool :=
  match c with [d; e] => Byte.eqb d dot && Byte.eqb e dot | _ => false end.
Definition is_nil (c : name) : bool := match c with [] => true | _ => false end.

(** one component against the stack (top first) *)
Definition stepc (rooted : bool) (st : list name) (c : name) : list name :=
  if is_nil c || is_dot c then st
  else if is_dotdot c then
    match st with
    | top :: r => if is_dotdot top then c :: st else r
    | [] => if rooted then [] else [c]
    end
  else c :: st.

Definition normc (rooted : bool) (cs : list name) : list name := rev (fold_left (stepc rooted) cs []).

Fixpoint join_slash (cs : list name) : list byte :=
  match cs with
  | [] => []
  | [c] => c
  | c :: r => c ++ slash :: join_slash r
  end.

Definition is_rooted (s : list byte) : bool := match s with c :: _ => Byte.eqb c slash | [] => false end.

Definition clean (s : list byte) : list byte :=
  let r := is_rooted s in
  let body := join_slash (normc r (split_on slash s)) in
  if r then slash :: body else match body with [] => [dot] | _ => body end.

(** filepath.Join(a, b) *)
Definition join2 (a b : list byte) : list byte :=
  match a, b with
  | [], [] => []
  | [], _ => clean b
  | _, _ => clean (a ++ slash :: b)
  end.

(** path.Split: everything up to and including the last slash / the rest *)
Fixpoint split_last (s : list byte) : list byte * list byte :=
  match s with
  | [] => ([], [])
  | c :: r =>
      let '(d, f) := split_last r in
      if Byte.eqb c slash then (c :: d, f)
      else match d with [] => ([], c :: f) | _ => (c :: d, f) end
  end.

Definition dir (s : list byte) : list byte := clean (fst (split_last s)).

Fixpoint strip_trailing (s : list byte) : list byte :=   (* drop trailing slashes *)
  match s with
  | [] => []
  | c :: r => match strip_trailing r with
              | [] => if Byte.eqb c slash then [] else [c]
              | r' => c :: r'
              end
  end.

(** filepath.Base *)
Definition base (s : list byte) : list byte :=
  match s with
  | [] => [dot]
  | _ => match strip_trailing s with
         | [] => [slash]
         | s' => snd (split_last s')
         end
  end.

Definition bin_ext : list byte := [x2e; x62; x69; x6e].   (* ".bin" *)

(** filepath.Ext(p) == ".bin" for a name without separators: the text from the last dot is ".bin" *)
Definition has_bin_ext (n : name) : bool :=
  (4 <=? length n) && bytes_eqb (skipn (length n - 4) n) bin_ext.

(** the component list of an absolute path as the kernel walks it (lexically) *)
Definition resolve (s : list byte) : list name := normc true (split_on slash s).

Fixpoint is_prefix (a b : list name) : bool :=
  match a, b with
  | [], _ => true
  | x :: a', y :: b' => bytes_eqb x y && is_prefix a' b'
  | _, [] => false
  end.

(** [p] is lexically inside (or equal to) [root] *)
Definition within (root p : list byte) : bool := is_prefix (resolve root) (resolve p).

(** walking a list of components from a directory: "" and "." stay, ".." goes up, anything else goes
    down; the walk never climbs above its starting point (which is [d] levels below the limit) *)
Fixpoint depth_ok (items : list name) (d : nat) : bool :=
  match items with
  | [] => true
  | c :: r =>
      if is_nil c || is_dot c then depth_ok r d
      else if is_dotdot c then match d with O => false | S d' => depth_ok r d' end
      else depth_ok r (S d)
  end.

(** byte-wise lexicographic order (Go string comparison; os.ReadDir sorts by it) *)
Fixpoint bytes_ltb (a b : list byte) : bool :=
  match a, b with
  | [], [] => false
  | [], _ => true
  | _, [] => false
  | x :: a', y :: b' =>
      if N.ltb (Byte.to_N x) (Byte.to_N y) then true
      else if N.ltb (Byte.to_N y) (Byte.to_N x) then false
      else bytes_ltb a' b'
  end.
