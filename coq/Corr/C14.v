(** Correspondence glue for C14.  A case is a list of write requests (each a set of buckets, i.e. a Go
    map whose iteration order the harness cannot observe) run against a real instance, with - after
    every request - the result code, the number of write commands left in the pipe and the content of
    every bucket as a query returns it; plus stand-alone CoerceColumnType calls.  The model must
    reproduce everything for SOME iteration order of every request (searched with backtracking). *)
From Coq Require Import List NArith ZArith Bool.
From Coq.Strings Require Import Byte.
Import ListNotations.
Require Import MS.Base.GoInt MS.Base.Res MS.Base.Hex MS.Base.Bytes MS.Base.F32 MS.Generated.Src_io MS.Model.Rows MS.Model.Coerce
               MS.Corr.Common MS.Corr.Blob.
Local Open Scope Z_scope.

Record case := {
  k_steps : list positive;      (* per request: code, queued, nb, {key, ncols, {name, type, data}*}*, nk, {key, exists, ncols, {name, type, data}*}* *)
  k_coerce : positive           (* per call: src type, dst type, data, code, out *)
}.

(* ---- decoding ---- *)
Fixpoint dec_cols (n : nat) (l : list (list byte)) : list col * list (list byte) :=
  match n with
  | O => ([], l)
  | S n' => match l with
            | nm :: ty :: d :: r => let '(cs, r') := dec_cols n' r in (mkcol nm (dec_Z ty) d :: cs, r')
            | _ => ([], [])
            end
  end.

Fixpoint dec_reqs (n : nat) (l : list (list byte)) : list breq * list (list byte) :=
  match n with
  | O => ([], l)
  | S n' => match l with
            | key :: nc :: r =>
                let '(cols, r1) := dec_cols (dec_nat nc) r in
                let '(rs, r2) := dec_reqs n' r1 in (mkR key cols :: rs, r2)
            | _ => ([], [])
            end
  end.

(** observed content of one bucket: key, exists?, columns in the bucket's order *)
Fixpoint dec_obs (n : nat) (l : list (list byte)) : list (list byte * bool * list col) :=
  match n with
  | O => []
  | S n' => match l with
            | key :: ex :: nc :: r =>
                let '(cols, r1) := dec_cols (dec_nat nc) r in (key, dec_bool ex, cols) :: dec_obs n' r1
            | _ => []
            end
  end.

Record step := { s_code : nat; s_queued : nat; s_reqs : list breq; s_obs : list (list byte * bool * list col) }.

Definition dec_step (p : positive) : step :=
  match blob p with
  | code :: q :: nb :: r =>
      let '(reqs, r1) := dec_reqs (dec_nat nb) r in
      match r1 with
      | nk :: r2 => {| s_code := dec_nat code; s_queued := dec_nat q; s_reqs := reqs; s_obs := dec_obs (dec_nat nk) r2 |}
      | [] => {| s_code := dec_nat code; s_queued := dec_nat q; s_reqs := reqs; s_obs := [] |}
      end
  | _ => {| s_code := 9; s_queued := 0; s_reqs := []; s_obs := [] |}
  end.

(* ---- the model's view of a bucket as a query returns it ---- *)
Definition row_epoch (r : list byte) : Z := wrap I64 (le_val (firstn 8 r)).
Fixpoint ins_row (r : list byte) (l : list (list byte)) : list (list byte) :=
  match l with [] => [r] | x :: t => if row_epoch r <=? row_epoch x then r :: l else x :: ins_row r t end.
Definition sort_rows (l : list (list byte)) : list (list byte) := fold_right ins_row [] l.

(** bytes [off, off+sz) of a row, zero-filled past its end (the file is sparse) *)
Definition field (r : list byte) (off sz : nat) : list byte :=
  let f := firstn sz (skipn off r) in f ++ repeat x00 (sz - length f).

Fixpoint columns_of (rows : list (list byte)) (sh : list shape) (off : nat) : list col :=
  match sh with
  | [] => []
  | (n, t) :: r =>
      mkcol n t (flat_map (fun row => field row off (tsize t)) rows) :: columns_of rows r (off + tsize t)
  end.

Definition model_bucket (st : wstate) (k : list byte) : bool * list col :=
  match find_bucket (w_buckets st) k with
  | Some b => (true, columns_of (sort_rows (b_rows b)) (b_shapes b) 0)
  | None => (false, [])
  end.

Definition col_eqb (a b : col) : bool :=
  bytes_eqb (cname a) (cname b) && (ctype a =? ctype b) && bytes_eqb (cdata a) (cdata b).
Fixpoint cols_eqb (a b : list col) : bool :=
  match a, b with [] , [] => true | x :: a', y :: b' => col_eqb x y && cols_eqb a' b' | _, _ => false end.

Definition obs_agrees (st : wstate) (o : list byte * bool * list col) : bool :=
  let '(k, ex, cols) := o in
  let '(mex, mcols) := model_bucket st k in
  Bool.eqb ex mex && (negb ex || cols_eqb mcols cols).

(* ---- iteration orders ---- *)
Fixpoint insert_all {A} (x : A) (l : list A) : list (list A) :=
  match l with
  | [] => [[x]]
  | y :: r => (x :: l) :: map (cons y) (insert_all x r)
  end.
Fixpoint perms {A} (l : list A) : list (list A) :=
  match l with [] => [[]] | x :: r => flat_map (insert_all x) (perms r) end.

Fixpoint run_agrees (st : wstate) (steps : list step) : bool :=
  match steps with
  | [] => true
  | s :: rest =>
      existsb (fun order =>
                 let '(st', code) := write_csm st order in
                 (code =? s_code s)%nat && (length (w_queue st') =? s_queued s)%nat
                 && forallb (obs_agrees st') (s_obs s) && run_agrees st' rest)
              (perms (s_reqs s))
  end.

Definition init_state : wstate := mkS [] [].

(* ---- stand-alone coercions ---- *)
Fixpoint coerce_agree (fuel : nat) (l : list (list byte)) : bool :=
  match fuel with
  | O => false
  | S f =>
      match l with
      | [] => true
      | src :: dst :: data :: code :: out :: r =>
          (match coerce_column (dec_Z src) (dec_Z dst) data with
           | Ok d => (dec_nat code =? 0)%nat && bytes_eqb d out
           | Rejected => (dec_nat code =? 1)%nat
           | Panic => (dec_nat code =? 2)%nat
           end) && coerce_agree f r
      | _ => false
      end
  end.

Definition agrees (k : case) : bool :=
  run_agrees init_state (map dec_step (k_steps k)) && coerce_agree 200 (blob (k_coerce k)).

(* ---- the guards and the guarded conclusions, evaluated on the model ---- *)
(** requests of one bucket: the iteration order of the request map plays no part *)
Definition in_domain (k : case) : bool :=
  forallb (fun p => (length (s_reqs (dec_step p)) <=? 1)%nat) (k_steps k).

Fixpoint rows_eqb (a b : list (list byte)) : bool :=
  match a, b with [], [] => true | x :: a', y :: b' => bytes_eqb x y && rows_eqb a' b' | _, _ => false end.

(** C14_rejected_first_changes_nothing / C14_failed_stores_nothing on the run *)
Fixpoint run_prop (st : wstate) (steps : list step) : bool :=
  match steps with
  | [] => true
  | s :: rest =>
      let '(st', code) := write_csm st (s_reqs s) in
      (match code with
       | O => true
       | _ => (length (w_queue st') =? length (w_queue st))%nat
              && forallb (fun b => rows_eqb (stored st' (b_key b)) (stored st (b_key b))) (w_buckets st')
       end) && run_prop st' rest
  end.

Definition int_kind (t : Z) : option ity := match kind_of t with KInt i => Some i | _ => None end.

(** C14_coerce_int_int and C14_coerce_int_f32_guarded on the stand-alone calls *)
Fixpoint coerce_prop (fuel : nat) (l : list (list byte)) : bool :=
  match fuel with
  | O => false
  | S f =>
      match l with
      | [] => true
      | src :: dst :: data :: _ :: _ :: r =>
          let st := dec_Z src in let dt := dec_Z dst in
          (match int_kind st, int_kind dt with
           | Some si, Some di =>
               let els := chunks (tsize st) (length data / tsize st) data in
               match coerce_column st dt data with
               | Ok d => bytes_eqb d (flat_map (fun b => le_bytes (ity_width di) (wrap di (wrap si (le_val b)))) els)
               | _ => false
               end
           | Some si, None =>
               if dt =? ET_FLOAT32 then
                 let els := chunks (tsize st) (length data / tsize st) data in
                 if forallb (fun b => Z.abs (wrap si (le_val b)) <? 2 ^ 53) els then
                   match coerce_column st dt data with
                   | Ok d => bytes_eqb d (flat_map (fun b => le_bytes 4 (F32.f32_bits (F32.f32_of_Z (wrap si (le_val b))))) els)
                   | _ => false
                   end
                 else true
               else true
           | _, _ => true
           end) && coerce_prop f r
      | _ => false
      end
  end.

Definition model_prop (k : case) : bool :=
  (negb (in_domain k) || run_prop init_state (map dec_step (k_steps k))) && coerce_prop 200 (blob (k_coerce k)).
