(** Correspondence glue for C28: evaluates Model/TGCodec.v on the harness' cases and compares with what
    the implementation (executor.serializeTG via the verif shim, executor.ParseTGData) returned. *)
From Coq Require Import List NArith ZArith String Bool.
From Coq.Strings Require Import Byte.
Import ListNotations.
Require Import MS.Base.GoInt MS.Base.Res MS.Base.Hex MS.Base.Bytes MS.Model.TGCodec MS.Corr.Common.
Local Open Scope Z_scope.

(** byte strings are printed by the harness as [unhexp 0x1..%positive] terms, long ones as a
    concatenation of 2 KiB chunks (coqc's number-literal parser overflows its stack beyond ~10^4 digits) *)
Record kcmd := { kc_rt : Z; kc_path : list byte; kc_vrl : Z; kc_off : Z; kc_idx : Z; kc_data : list byte;
                 kc_shapes : list (list byte * Z) }.
(** observed WTSet i.  [kw_buf]/[kw_shapes] = None means: byte-identical to (offset ++ index ++ payload) /
    to the data shapes of input command i (compared by the harness; printed once instead of twice) *)
Record kwt := { kw_rt : Z; kw_path : list byte; kw_datalen : Z; kw_vrl : Z; kw_buf : option (list byte);
                kw_shapes : option (list (list byte * Z)) }.

Record case := {
  k_raw : bool;            (* true: k_ser is an arbitrary byte string handed to ParseTGData; k_cmds unused *)
  k_tgid : Z;
  k_root : list byte;
  k_cmds : list kcmd;
  k_ser : list byte;       (* observed output of serializeTG (raw: the input bytes) *)
  k_code : nat;            (* ParseTGData: 0 returned, 2 panicked *)
  k_ptgid : Z;             (* observed decoded tgID *)
  k_wts : list kwt         (* observed decoded WTSets *)
}.

Definition mk_shape (p : list byte * Z) : shape := mkshape (fst p) (byte_of_Z (snd p)).
Definition mk_cmd (k : kcmd) : cmd :=
  mkcmd (kc_rt k) (kc_path k) (kc_vrl k) (kc_off k) (kc_idx k) (kc_data k) (map mk_shape (kc_shapes k)).
Definition mk_wt (c : option cmd) (k : kwt) : wtset :=
  mkwt (kw_rt k) (kw_path k) (kw_datalen k) (kw_vrl k)
       (match kw_buf k, c with Some b, _ => b | None, Some c => cmd_buffer c | None, None => [] end)
       (match kw_shapes k, c with Some l, _ => map mk_shape l | None, Some c => c_shapes c | None, None => [] end).

Fixpoint mk_wts (cs : list cmd) (ks : list kwt) : list wtset :=
  match ks with
  | [] => []
  | k :: ks' => match cs with
                | c :: cs' => mk_wt (Some c) k :: mk_wts cs' ks'
                | [] => mk_wt None k :: mk_wts [] ks'
                end
  end.

Definition shape_eqb (a b : shape) : bool := bytes_eqb (s_name a) (s_name b) && Byte.eqb (s_type a) (s_type b).
Fixpoint list_eqb {A} (f : A -> A -> bool) (a b : list A) : bool :=
  match a, b with
  | [], [] => true
  | x :: a', y :: b' => f x y && list_eqb f a' b'
  | _, _ => false
  end.
Definition wtset_eqb (a b : wtset) : bool :=
  (w_rt a =? w_rt b) && bytes_eqb (w_path a) (w_path b) && (w_datalen a =? w_datalen b)
  && (w_vrl a =? w_vrl b) && bytes_eqb (w_buf a) (w_buf b) && list_eqb shape_eqb (w_shapes a) (w_shapes b).

(** the exported ParseTGData after the fix: the checked decoder; an error is logged and (0, nil) returned *)
Definition parse_agrees (k : case) (bs : list byte) : bool :=
  match ParseTGData_go bs (k_root k) with
  | Ok (tgid, ws) => (k_code k =? 0)%nat && (tgid =? k_ptgid k) && list_eqb wtset_eqb ws (mk_wts (map mk_cmd (k_cmds k)) (k_wts k))
  | Rejected => false
  | Panic => (k_code k =? 2)%nat
  end.

Definition agrees (k : case) : bool :=
  if k_raw k then parse_agrees k (k_ser k)
  else
    let bs := serializeTG (k_tgid k) (map mk_cmd (k_cmds k)) in
    bytes_eqb bs (k_ser k) && parse_agrees k bs.

(** the guarded theorem's hypothesis, evaluated on the case *)
Definition in_domain (k : case) : bool :=
  negb (k_raw k) && in_ityb I64 (k_tgid k) && forallb encodableb (map mk_cmd (k_cmds k)).

(** the property evaluated on the model: decoding the encoding gives exactly the commands *)
Definition model_roundtrip (k : case) : bool :=
  let cmds := map mk_cmd (k_cmds k) in
  let root := k_root k in
  match parseTGData (serializeTG (k_tgid k) cmds) root with
  | Ok (tgid, ws) => (tgid =? k_tgid k) && list_eqb wtset_eqb ws (map (to_wtset root) cmds)
  | _ => false
  end.
