(** Correspondence glue for C20: evaluates Model/SqlSel.v on the harness' cases and compares with the real
    pipeline: the ColumnSeries a SELECT returns (ordered names and each column's data) and, for
    INSERT INTO t SELECT ..., the contents of t read back afterwards. *)
From Coq Require Import List NArith ZArith String Bool.
From Flocq Require Import IEEE754.BinarySingleNaN.
Import ListNotations.
Require Import MS.Base.Res MS.Base.FGen MS.Base.F32 MS.Base.F64 MS.Generated.Src_sql MS.Model.Sql MS.Model.SqlSel.
Require Import MS.Corr.Common.
Require Export MS.Corr.C19.
Local Open Scope Z_scope.

Record kins := {
  i_tfs : Z;                                  (* target timeframe, seconds *)
  i_schema : list (string * Z);               (* target value columns *)
  i_rows : list (Z * list kcell);             (* target contents before *)
  i_cols : option (list string);              (* INSERT column list *)
  i_code : nat;                               (* INSERT statement: 0 ok, 1 error, 2 panic *)
  i_after : list (Z * list kcell)             (* target contents read back afterwards *)
}.

Record case := {
  k_tfs : Z;
  k_schema : list (string * Z);
  k_rows : list (Z * list kcell);
  k_preds : list kpred;
  k_sel : option (list (string * option string));   (* None = SELECT * *)
  k_limit : option nat;                              (* the LIMIT clause as written *)
  k_code : nat;                                      (* the SELECT alone: 0 ok, 1 error, 2 panic *)
  k_view : list (string * option (list kcell));      (* ordered names, GetColumn(name) *)
  k_ins : option kins
}.

Definition mk_sel (s : option (list (string * option string))) : sel :=
  match s with None => SelAll | Some l => SelList l end.

Definition cell_same (a : cell) (b : kcell) : bool :=
  match a, b with
  | VI x, KI y => x =? y
  | VF32 x, KF32 y => f32_bits x =? y
  | VF64 x, KF64 y => f64_bits x =? y
  | _, _ => false
  end.

Fixpoint all2 {A B} (f : A -> B -> bool) (a : list A) (b : list B) : bool :=
  match a, b with
  | [], [] => true
  | x :: a', y :: b' => f x y && all2 f a' b'
  | _, _ => false
  end.

Definition ocol_same (a : option (list cell)) (b : option (list kcell)) : bool :=
  match a, b with
  | None, None => true
  | Some x, Some y => all2 cell_same x y
  | _, _ => false
  end.

Definition view_same (v : view) (o : list (string * option (list kcell))) : bool :=
  all2 (fun a b => String.eqb (fst a) (fst b) && ocol_same (snd a) (snd b)) v o.

Definition rows_same (m : list row) (o : list (Z * list kcell)) : bool :=
  all2 (fun r e => (r_epoch r =? fst e) && all2 cell_same (r_vals r) (snd e)) m o.

Definition the_select (k : case) : Res tbl :=
  materialize_q (k_tfs k) (k_schema k) (mk_rows (k_rows k)) (map mk_pred (k_preds k)) (mk_sel (k_sel k)) (lim_int (k_limit k)).

Definition target_names (i : kins) : list string :=
  match i_cols i with Some l => l | None => epoch_name :: map fst (i_schema i) end.

Definition agrees (k : case) : bool :=
  match the_select k with
  | Ok t =>
      (k_code k =? 0)%nat && view_same (t_view t) (k_view k)
      && match k_ins k with
         | None => true
         | Some i =>
             match insert_into (i_tfs i) (i_schema i) (mk_rows (i_rows i)) (target_names i) t with
             | Ok after => (i_code i =? 0)%nat && rows_same after (i_after i)
             | Rejected => (i_code i =? 1)%nat && rows_same (mk_rows (i_rows i)) (i_after i)
             | Panic => (i_code i =? 2)%nat
             end
         end
  | Rejected => (k_code k =? 1)%nat
                && match k_ins k with Some i => (i_code i =? 1)%nat && rows_same (mk_rows (i_rows i)) (i_after i) | None => true end
  | Panic => (k_code k =? 2)%nat
  end.

Definition in_domain (k : case) : bool :=
  guard_q (k_tfs k) (k_schema k) (mk_rows (k_rows k)) (map mk_pred (k_preds k)) (mk_sel (k_sel k)) (k_limit k)
  && match k_ins k with
     | None => true
     | Some i => guard_ins (k_schema k) (mk_sel (k_sel k)) (i_tfs i) (i_schema i) (mk_rows (i_rows i)) (i_cols i)
     end.

Fixpoint view_eqb (a b : view) : bool :=
  match a, b with
  | [], [] => true
  | (n, c) :: a', (m, d) :: b' =>
      String.eqb n m
      && match c, d with
         | None, None => true
         | Some x, Some y => all2 (fun p q => cell_same p (match q with VI z => KI z | VF32 f => KF32 (f32_bits f) | VF64 f => KF64 (f64_bits f) end)) x y
         | _, _ => false
         end
      && view_eqb a' b'
  | _, _ => false
  end.

Definition cell_k (q : cell) : kcell := match q with VI z => KI z | VF32 f => KF32 (f32_bits f) | VF64 f => KF64 (f64_bits f) end.

(** the property evaluated on the model: the SELECT returns the relational result (when it has rows; an empty
    result has only empty columns), and the INSERT leaves the target as the by-name last-writer-wins insertion *)
Definition model_prop (k : case) : bool :=
  let sc := k_schema k in let rows := mk_rows (k_rows k) in let ps := map mk_pred (k_preds k) in
  let s := mk_sel (k_sel k) in
  let expect := spec_q sc rows ps s (k_limit k) in
  match the_select k with
  | Ok t =>
      (match spec_rows sc rows ps (k_limit k) with
       | [] => forallb (fun nc => match snd nc with Some [] => true | _ => false end) (t_view t)
       | _ => view_eqb (t_view t) expect
       end)
      && match k_ins k with
         | None => true
         | Some i =>
             match insert_into (i_tfs i) (i_schema i) (mk_rows (i_rows i)) (target_names i) t with
             | Ok after => rows_same after (map (fun r => (r_epoch r, map cell_k (r_vals r)))
                                               (spec_insert (i_tfs i) (i_schema i) (mk_rows (i_rows i)) expect))
             | _ => false
             end
         end
  | _ => false
  end.
