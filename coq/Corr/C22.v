(** Correspondence glue for C22: ticks -> fine candles (TickCandler) -> coarse candles (CandleCandler)
    versus ticks -> coarse candles (TickCandler), on the real code and on Model/Candle.v. *)
From Coq Require Import NArith ZArith String Bool List.
Import ListNotations.
Require Import MS.Base.GoInt MS.Base.Res MS.Base.F32 MS.Base.F64 MS.Model.Uda MS.Model.Candle
               MS.Proofs.Candle_map MS.Proofs.Candle_compose MS.Corr.Common MS.Corr.C21.
Require Export MS.Corr.AggCols.
Local Open Scope Z_scope.

Record case := {
  k_off : Z;                                (* UTC offset (seconds) of the system timezone *)
  k_fmult : Z; k_fsuffix : string;          (* fine timeframe *)
  k_cmult : Z; k_csuffix : string;          (* coarse timeframe *)
  k_ticks : kinput;                         (* the tick rows (one price group) *)
  k_codeA : nat; k_outA : list (list Z);    (* TickCandler(fine) on the ticks: epoch, o, h, l, c *)
  k_codeB : nat; k_outB : list (list Z);    (* CandleCandler(coarse) on that output *)
  k_codeC : nat; k_outC : list (list Z)     (* TickCandler(coarse) on the ticks *)
}.

Definition cd_fine (k : case) := cd_of_zone (k_off k * NS) (k_fmult k) (k_fsuffix k).
Definition cd_coarse (k : case) := cd_of_zone (k_off k * NS) (k_cmult k) (k_csuffix k).

Definition obs_match (code : nat) (out : list (list Z)) (r : Res cmap) : bool :=
  match r with
  | Ok m => (code =? 0)%nat && rows_eqb out (map row_obs (output [] [] m))
  | Rejected => (code =? 1)%nat
  | Panic => (code =? 2)%nat
  end.

Definition model_A (k : case) : Res cmap := run_accum (cd_fine k) [] [mk_input (k_ticks k)].
Definition model_B (k : case) : Res cmap :=
  match model_A k with
  | Ok m => run_accum (cd_coarse k) [] [out_to_input (output [] [] m)]
  | Rejected => Rejected
  | Panic => Panic
  end.
Definition model_C (k : case) : Res cmap := run_accum (cd_coarse k) [] [mk_input (k_ticks k)].

Definition agrees (k : case) : bool :=
  obs_match (k_codeA k) (k_outA k) (model_A k)
  && (if (k_codeA k =? 0)%nat then obs_match (k_codeB k) (k_outB k) (model_B k) else true)
  && obs_match (k_codeC k) (k_outC k) (model_C k).

Fixpoint nodupb (l : list Z) : bool :=
  match l with [] => true | a :: r => negb (existsb (Z.eqb a) r) && nodupb r end.

(** the hypotheses of C22_compose, evaluated on the case *)
Definition in_domain (k : case) : bool :=
  match extract (mk_input (k_ticks k)) with
  | Ok rows =>
      dividesb_zone (k_off k * NS) (cd_fine k) (cd_coarse k)
      && forallb (fun r => negb (truncate (cd_fine k) (b_t r) =? zero_time) && negb (b_t r =? zero_time)) rows
      && nodupb (map b_t rows) && f32_nonan (map b_h rows) && f32_nonan (map b_l rows)
  | _ => false
  end.

Definition same_ohlc (a b : orow) : bool :=
  (o_epoch a =? o_epoch b) && (f32_bits (o_o a) =? f32_bits (o_o b)) && (f32_bits (o_c a) =? f32_bits (o_c b))
  && f32_eq (o_h a) (o_h b) && f32_eq (o_l a) (o_l b).

Fixpoint all2b {A} (f : A -> A -> bool) (a b : list A) : bool :=
  match a, b with
  | [], [] => true
  | x :: a', y :: b' => f x y && all2b f a' b'
  | _, _ => false
  end.

(** the property on the model: both routes give the same windows and the same OHLC *)
Definition model_prop (k : case) : bool :=
  match model_B k, model_C k with
  | Ok mb, Ok mc => all2b same_ohlc (output [] [] mb) (output [] [] mc)
  | _, _ => false
  end.
