(** Correspondence glue for C29: evaluates Model/Rows.v on the harness' cases and compares with what
    the implementation (ColumnSeries.ToRowSeries / RowSeries.GetColumn) returned. *)
From Coq Require Import List NArith ZArith String Bool.
From Coq.Strings Require Import Byte.
Import ListNotations.
Require Import MS.Base.Res MS.Base.Hex MS.Model.Rows MS.Corr.Common.

(** one observed GetColumn result: code (0 ok / 2 panic), present?, Go element type of the returned
    slice (informational only: BYTE/BOOL columns come back as []byte, bit patterns unchanged), data (hex) *)
Record obs_col := { o_code : nat; o_present : bool; o_type : Z; o_data : positive }.

Record case := {
  k_cols : list (positive * Z * positive); (* name, element type, raw data (0x1<hex> literals) *)
  k_align : bool;
  k_nrows : nat;                           (* the generator's intended number of rows *)
  k_code : nat;                            (* ToRowSeries: 0 ok, 1 error, 2 panic *)
  k_data : positive;                        (* row data (hex) *)
  k_rowlen : nat;
  k_get : list obs_col                     (* GetColumn(name) for every column, in order *)
}.

Definition mk_cols (l : list (positive * Z * positive)) : list col :=
  map (fun '(n, t, d) => mkcol (unhexp n) t (unhexp d)) l.

Definition obs_eq (o : obs_col) (r : Res (option (Z * list byte))) : bool :=
  match r with
  | Ok None => (o_code o =? 0)%nat && negb (o_present o)
  | Ok (Some (t, d)) => (o_code o =? 0)%nat && o_present o && bytes_eqb (unhexp (o_data o)) d
  | Rejected => (o_code o =? 1)%nat
  | Panic => (o_code o =? 2)%nat
  end.

Fixpoint all2 {A B} (f : A -> B -> bool) (a : list A) (b : list B) : bool :=
  match a, b with
  | [], [] => true
  | x :: a', y :: b' => f x y && all2 f a' b'
  | _, _ => false
  end.

Definition agrees (k : case) : bool :=
  let cols := mk_cols (k_cols k) in
  match serialize cols (k_align k) with
  | Ok (data, rl) =>
      (k_code k =? 0)%nat && bytes_eqb (unhexp (k_data k)) data && (k_rowlen k =? rl)%nat
      && all2 (fun o c => obs_eq o (get_column (shapes cols) data rl (cname c))) (k_get k) cols
  | Rejected => (k_code k =? 1)%nat
  | Panic => (k_code k =? 2)%nat
  end.

(** the theorem's hypothesis, evaluated on the case (which cases are inside the guarded domain) *)
Definition in_domain (k : case) : bool := wf_csb (mk_cols (k_cols k)) (k_nrows k).

(** the property itself, evaluated on the model *)
Definition model_roundtrip (k : case) : bool :=
  let cols := mk_cols (k_cols k) in
  match serialize cols (k_align k) with
  | Ok (data, rl) =>
      forallb (fun c => match get_column (shapes cols) data rl (cname c) with
                        | Ok (Some (t, d)) => Z.eqb t (ctype c) && bytes_eqb d (cdata c)
                        | _ => false end) cols
  | _ => false
  end.
