(** Correspondence glue for C17: catalog-model cases (Corr/CatCase.v) with the view of a fresh
    catalog.NewDirectory(root) recorded after every request, and restarts. *)
From Coq Require Import List NArith ZArith Bool.
From Coq.Strings Require Import Byte.
Import ListNotations.
Require Import MS.Base.Hex MS.Base.Path MS.Model.Catalog MS.Proofs.Catalog_seq MS.Corr.Common MS.Corr.Blob MS.Corr.CatCase.

Record case := {
  k_root : positive;
  k_ops : list positive;         (* request blobs (kind 4 = restart) *)
  k_obs : list positive          (* observation blobs incl. the fresh view *)
}.

Definition agrees (k : case) : bool :=
  let root := unhexp (k_root k) in
  run_agrees root (init_world root) (init_cat root) (map dec_op (k_ops k)) (map dec_obs (k_obs k)).

(** well-formed keys: three proper components (no "", ".", "..", ':'), none of them a reserved name *)
Definition good_component (c : list byte) : bool :=
  negb (is_nil c) && negb (is_dot c) && negb (is_dotdot c)
  && negb (bytes_eqb c s_category_name) && negb (bytes_eqb c s_metadata_db).
Definition good_key (k : list byte) : bool :=
  let item := key_item_key k in
  let cat := match split_on colon k with [_] => true | [_; c] => is_nil c || bytes_eqb c s_default_schema | _ => false end in
  cat && match split_on slash item with [a; b; c] => good_component a && good_component b && good_component c | _ => false end.

Definition in_domain (k : case) : bool :=
  forallb (fun p => let o := dec_op p in (4 <=? o_kind o)%nat || good_key (o_key o)) (k_ops k).

(** the property on the model: after every request the catalog (tree and directMap) equals a fresh scan *)
Fixpoint consistent_run (root : list byte) (w : world) (c : catalog) (ops : list kop) : bool :=
  match ops with
  | [] => true
  | o :: r =>
      let '(w', c', _) := kstep root w c o in
      let '(n, dm, _) := new_directory w' root in
      cnode_eqb (croot c') n && dmap_eqb (cdm c') dm && consistent_run root w' c' r
  end.

Definition model_consistent (k : case) : bool :=
  let root := unhexp (k_root k) in
  consistent_run root (init_world root) (init_cat root) (map dec_op (k_ops k)).
