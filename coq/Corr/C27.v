(** Correspondence glue for C27: evaluates Model/Wire.v on the harness' cases and compares with what the
    implementation (NewNumpyDataset / NewNumpyMultiDataset / Append, real msgpack, both
    ToColumnSeriesMap decoders) produced. *)
From Coq Require Import String List NArith ZArith Bool.
From Coq.Strings Require Import Byte.
Import ListNotations.
Require Import MS.Base.Res MS.Base.Hex MS.Model.Rows MS.Model.Wire MS.Corr.Common.

Definition rawcols := list (positive * Z * positive).        (* name, element type, raw data *)

(** an observed decoded ColumnSeriesMap: code 0 ok / 1 error / 2 panic, entries (key, columns) *)
Record obs_csm := { d_code : nat;
                    d_same : bool;     (* the harness found the decoded map identical to the input buckets
                                          (keys, names, order, types, bytes): [d_map] is then omitted *)
                    d_map : list (positive * rawcols) }.

Record case := {
  k_buckets : list (positive * rawcols);   (* (TimeBucketKey.String(), columns) in fold order *)
  k_enc_code : nat;                         (* the fold: 0 ok, 1 error, 2 panic *)
  k_enc_nil : bool;                         (* ok with a nil dataset (no buckets) *)
  (* the dataset after the real msgpack Marshal/Unmarshal *)
  k_types : list string;
  k_names : list positive;
  k_data : list positive;
  k_length : nat;
  k_start : list (positive * nat);
  k_lens : list (positive * nat);
  k_foldtie : bool;                         (* the real executeQuery loop built the same dataset (or not comparable) *)
  k_dec : obs_csm;                          (* NumpyMultiDataset.ToColumnSeriesMap (write path) *)
  k_resp : obs_csm                          (* MultiQueryResponse.ToColumnSeriesMap (query path) *)
}.

Definition mk_cols (l : rawcols) : list col := map (fun '(n, t, d) => mkcol (unhexp n) t (unhexp d)) l.
Definition mk_buckets (l : list (positive * rawcols)) : list bucket :=
  map (fun '(k, cs) => (unhexp k, mk_cols cs)) l.
Definition mk_amap (l : list (positive * nat)) : list (key * nat) := map (fun '(k, v) => (unhexp k, v)) l.

Fixpoint all2 {A B} (f : A -> B -> bool) (a : list A) (b : list B) : bool :=
  match a, b with
  | [], [] => true
  | x :: a', y :: b' => f x y && all2 f a' b'
  | _, _ => false
  end.

(** the same finite map key -> nat *)
Definition amap_eqb (a b : list (key * nat)) : bool :=
  (length a =? length b)%nat
  && forallb (fun e => match alookup (fst e) b with Some v => (snd e =? v)%nat | None => false end) a.

Definition obs_eq (input : list bucket) (o : obs_csm) (r : Res csm) : bool :=
  match r with
  | Ok m => (d_code o =? 0)%nat && csm_eqb m (if d_same o then input else mk_buckets (d_map o))
  | Rejected => (d_code o =? 1)%nat
  | Panic => (d_code o =? 2)%nat
  end.

Definition agrees (k : case) : bool :=
  let input := mk_buckets (k_buckets k) in
  match encode input with
  | Ok None => (k_enc_code k =? 0)%nat && k_enc_nil k
  | Ok (Some w) =>
      (k_enc_code k =? 0)%nat && negb (k_enc_nil k) && k_foldtie k
      && all2 String.eqb (w_types w) (k_types k)
      && all2 bytes_eqb (w_names w) (map unhexp (k_names k))
      && all2 bytes_eqb (w_data w) (map unhexp (k_data k))
      && (w_length w =? k_length k)%nat
      && amap_eqb (w_start w) (mk_amap (k_start k))
      && amap_eqb (w_lens w) (mk_amap (k_lens k))
      && obs_eq input (k_dec k) (to_csm w)
      && obs_eq input (k_resp k) (resp_to_csm w)
  | Rejected => (k_enc_code k =? 1)%nat
  | Panic => (k_enc_code k =? 2)%nat
  end.

(** the theorem's hypothesis (after the fixes in /repo: zero rows and mixed shapes are no longer excluded) *)
Definition in_domain (k : case) : bool :=
  let bs := mk_buckets (k_buckets k) in dom bs && keys_canonical bs.

(** the property evaluated on the model: the conversion is refused, or the dataset is built and both
    decoders return the buckets *)
Definition model_roundtrip (k : case) : bool :=
  let bs := mk_buckets (k_buckets k) in
  match encode bs with
  | Rejected => true
  | Ok (Some w) =>
      match to_csm w, resp_to_csm w with
      | Ok m1, Ok m2 => csm_eqb bs m1 && csm_eqb bs m2
      | _, _ => false
      end
  | _ => false
  end.
