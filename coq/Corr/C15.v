(** Correspondence glue for C15: evaluates Model/Header.v on the harness' cases and compares with what the
    implementation did: NewTimeBucketInfo + catalog.AddTimeBucket (header bytes on disk), real
    Writer.WriteRecords + WAL flush (header bytes afterwards), catalog.NewDirectory restart +
    GetLatestTimeBucketInfoFromKey (the reloaded TimeBucketInfo). *)
From Coq Require Import List NArith ZArith Bool.
From Coq.Strings Require Import Byte.
Import ListNotations.
Require Import MS.Base.Res MS.Base.Hex MS.Base.Bytes MS.Model.Rows MS.Model.Header MS.Corr.Common.

(** a reloaded TimeBucketInfo as observed through its getters *)
Record obs_tbi := {
  o_version : Z; o_descr : positive; o_year : Z; o_tf : Z; o_rectype : Z; o_nelems : Z; o_reclen : Z;
  o_names : list positive; o_types : list Z
}.

Record case := {
  k_tf : Z; k_descr : positive; k_year : Z; k_dsv : list (positive * Z); k_rt : Z;   (* NewTimeBucketInfo's arguments *)
  k_writes : list (bool * Z * Z * list positive * nat);   (* variable?, YEAR of the record, index (io.TimeToIndex), payload / recorded 24-byte index
                                               record with trailing zeros cut, its full length *)
  k_create_code : nat;                      (* AddTimeBucket: 0 ok, 1 error, 2 panic *)
  k_hdr0 : list (Z * list positive);            (* maximal non-zero runs (offset, bytes) of the header after creation *)
  k_hdr1 : list (Z * list (Z * list positive));            (* per year file (year, runs) after the writes *)
  k_reload_code : nat;                      (* restart + getters: 0 ok, 1 error, 2 panic *)
  k_reload : obs_tbi
}.

(** maximal runs of non-zero bytes *)
Fixpoint runs_aux (l : list byte) (off : Z) (cur : list byte) (start : Z) : list (Z * list byte) :=
  match l with
  | [] => match cur with [] => [] | _ => [(start, rev cur)] end
  | b :: r =>
      if Byte.eqb b x00 then
        match cur with
        | [] => runs_aux r (off + 1) [] 0%Z
        | _ => (start, rev cur) :: runs_aux r (off + 1) [] 0%Z
        end
      else
        match cur with
        | [] => runs_aux r (off + 1) [b] off
        | _ => runs_aux r (off + 1) (b :: cur) start
        end
  end.
Definition runs (l : list byte) : list (Z * list byte) := runs_aux l 0%Z [] 0%Z.

(** long byte strings are transported in chunks (a single number literal of more than a few thousand
    digits overflows coqc's stack) *)
Definition unhexl (l : list positive) : list byte := concat (map unhexp l).

Fixpoint runs_eqb (a : list (Z * list byte)) (b : list (Z * list positive)) : bool :=
  match a, b with
  | [], [] => true
  | (o, d) :: a', (o', d') :: b' => Z.eqb o o' && bytes_eqb d (unhexl d') && runs_eqb a' b'
  | _, _ => false
  end.

Definition mk_dsv (l : list (positive * Z)) : list (list byte * Z) := map (fun '(n, t) => (unhexp n, t)) l.
Definition padded (d : list positive) (n : nat) : list byte :=
  let b := unhexl d in b ++ zeros (n - length b).
Definition mk_writes (l : list (bool * Z * Z * list positive * nat)) : list (Z * wop) :=
  map (fun '(v, y, i, d, n) => (y, if (v : bool) then WVar i (padded d n) else WFixed i (padded d n))) l.

(** every observed year file equals the model's, and there are equally many *)
Definition files_eqb (st : files) (obs : list (Z * list (Z * list positive))) : bool :=
  (length st =? length obs)%nat
  && forallb (fun o => match flookup (fst o) st with Some h => runs_eqb (runs h) (snd o) | None => false end) obs.
Definition mk_tbi (o : obs_tbi) : tbi :=
  mktbi (o_version o) (unhexp (o_descr o)) (o_year o) (o_tf o) (o_rectype o) (o_nelems o) (o_reclen o)
        (map unhexp (o_names o)) (o_types o).

Definition model_tbi (k : case) : tbi := new_tbi (k_tf k) (unhexp (k_descr k)) (k_year k) (mk_dsv (k_dsv k)) (k_rt k).

Definition agrees (k : case) : bool :=
  let f := model_tbi k in
  match create f with
  | Panic => (k_create_code k =? 2)%nat
  | Rejected => (k_create_code k =? 1)%nat
  | Ok h =>
      (k_create_code k =? 0)%nat && runs_eqb (runs h) (k_hdr0 k)
      && match yrun f [(t_year f, h)] (mk_writes (k_writes k)) with
         | Ok st =>
             files_eqb st (k_hdr1 k)
             && match latest st with
                | Some (_, hl) =>
                    match read_header hl with
                    | Ok g => (k_reload_code k =? 0)%nat && tbi_eqb g (mk_tbi (k_reload k))
                    | Rejected => (k_reload_code k =? 1)%nat
                    | Panic => (k_reload_code k =? 2)%nat
                    end
                | None => false
                end
         | _ => false
         end
  end.

(** the guarded theorem's hypothesis *)
Definition in_domain (k : case) : bool :=
  schema_dom (k_tf k) (unhexp (k_descr k)) (k_year k) (mk_dsv (k_dsv k)) (k_rt k) && years_ok (mk_writes (k_writes k)).

(** the property evaluated on the model: creation refused, or the latest year file reports the created
    schema (names, types, timeframe, record type, record length, ... everything but the file's own year) *)
Definition model_preserved (k : case) : bool :=
  let f := model_tbi k in
  match create f with
  | Rejected => true
  | _ => match reload_history f (mk_writes (k_writes k)) with
         | Ok g => tbi_eqb g (set_year f (t_year g))
         | _ => false
         end
  end.
