(** Correspondence glue for C12: the stored state of one bucket (as the unlimited all-time query
    shows it, regrouped into index slots) and a list of range/limit queries, each with what
    QueryService.ExecuteQuery returned; evaluated against Model/FStore.v + Model/VRead.v. *)
From Coq Require Import List NArith ZArith String Bool.
From Coq.Strings Require Import Byte.
Import ListNotations.
Require Import MS.Base.Res MS.Base.Hex MS.Generated.Src_fstore MS.Model.UTime MS.Model.FStore MS.Model.VRead MS.Corr.Common.
Local Open Scope Z_scope.

Definition orec := (Z * Z * positive)%type.          (* epoch second, nanoseconds (0 for fixed), data *)

Record qry := {
  q_req : Z;                             (* duration (s) of the timeframe named in the query key *)
  q_rs : Z * Z;                          (* range start (second, nanosecond) *)
  q_re : option (Z * Z);                 (* range end; None = planner.MaxTime *)
  q_lim : option (bool * Z);             (* (limit from start?, limitRecordCount) ; None = 0 = no limit *)
  q_code : nat;                          (* 0 ok, 1 error, 2 panic *)
  q_rows : list orec;
  q_run : option (Z * Z)                 (* dense cases: the harness verified that the returned rows are exactly
                                            the dense rows number a .. a+cnt-1 and passes (a, cnt) instead of them *)
}.

Record case := {
  k_var : bool;
  k_tfs : Z;
  k_reclen : Z;                          (* TimeBucketInfo.GetRecordLength(): 24 for a variable bucket *)
  k_years : list Z;                      (* year files present *)
  k_slots : list (Z * list orec);        (* live index slots ascending: a second inside the interval, its records *)
  k_dense : option (Z * Z * Z);          (* fixed buckets with thousands of live slots: the state IS the series
                                            (start, count, step): row i at start + i*step with payload le32 i,
                                            verified by the harness against the unlimited all-time query *)
  k_qs : list qry
}.

Definition mk_rec (o : orec) : vrec := let '(s, n, d) := o in mkvrec s n (unhexp d).

(** dense series *)
Definition le32 (i : Z) : list byte :=
  [byte_of_N (Z.to_N (i mod 256)); byte_of_N (Z.to_N ((i / 256) mod 256));
   byte_of_N (Z.to_N ((i / 65536) mod 256)); byte_of_N (Z.to_N ((i / 16777216) mod 256))].

Definition dense_rec (d : Z * Z * Z) (i : Z) : vrec :=
  let '(start, _, step) := d in mkvrec (start + i * step) 0 (le32 i).

Fixpoint dense_run (d : Z * Z * Z) (a : Z) (cnt : nat) : list vrec :=
  match cnt with O => [] | S c => dense_rec d a :: dense_run d (a + 1) c end.

Definition var_store (k : case) : vstore :=
  mkstore (k_years k) (map (fun '(t, rs) => slot_entry (k_tfs k) (k_reclen k) t (map mk_rec rs)) (k_slots k)).

(** a fixed slot holds one row; it is carried as a one-record list too *)
Definition fix_store (k : case) : storeA vrec :=
  mkstore (k_years k)
          (match k_dense k with
           | Some d => let '(_, cnt, _) := d in
                       map (fun r => slot_entry (k_tfs k) (k_reclen k) (v_sec r) r) (dense_run d 0 (Z.to_nat cnt))
           | None =>
               map (fun '(t, rs) => slot_entry (k_tfs k) (k_reclen k) t
                                      (match rs with r :: _ => mk_rec r | [] => mkvrec 0 0 [] end)) (k_slots k)
           end).

Definition mk_lim (l : option (bool * Z)) : option (dir * Z) :=
  match l with None => None | Some (b, n) => Some (if b then First else Last, n) end.

Definition rec_eqb (a b : vrec) : bool :=
  Z.eqb (v_sec a) (v_sec b) && Z.eqb (v_ns a) (v_ns b) && bytes_eqb (v_data a) (v_data b).

Fixpoint recs_eqb (a b : list vrec) : bool :=
  match a, b with
  | [], [] => true
  | x :: a', y :: b' => rec_eqb x y && recs_eqb a' b'
  | _, _ => false
  end.

(** the model's answer to one query, as a record list (fixed rows: stamped epoch, ns 0); the two
    stores are built once per case *)
Definition model_query_st (k : case) (vs : vstore) (fs : storeA vrec) (q : qry) : Res (list vrec) :=
  if k_var k then exec_var (k_tfs k) vs (q_req q) (q_rs q) (q_re q) (mk_lim (q_lim q))
  else
    match exec_fixed (k_tfs k) (k_reclen k) fs (q_req q) (fst (q_rs q)) (option_map fst (q_re q)) (mk_lim (q_lim q)) with
    | Ok l => Ok (map (fun '(t, r) => mkvrec t 0 (v_data r)) l)
    | Rejected => Rejected
    | Panic => Panic
    end.

Definition vs_of (k : case) : vstore := if k_var k then var_store k else mkstore [] [].
Definition fs_of (k : case) : storeA vrec := if k_var k then mkstore [] [] else fix_store k.

Definition q_agrees (k : case) vs fs (q : qry) : bool :=
  match model_query_st k vs fs q with
  | Ok l => (q_code q =? 0)%nat
            && recs_eqb l (match q_run q, k_dense k with
                           | Some (a, cnt), Some d => dense_run d a (Z.to_nat cnt)
                           | _, _ => map mk_rec (q_rows q)
                           end)
  | Rejected => (q_code q =? 1)%nat
  | Panic => (q_code q =? 2)%nat
  end.

Definition agrees (k : case) : bool :=
  let vs := vs_of k in let fs := fs_of k in forallb (q_agrees k vs fs) (k_qs k).

(** the guard of the C12 theorems for one limited query *)
Definition q_guard (k : case) (vs : vstore) (q : qry) : bool :=
  match mk_lim (q_lim q) with
  | None => false
  | Some (d, n) =>
      (queryable_tfs (q_req q) =? q_req q) && (q_req q =? k_tfs k)
      && (1 <=? n) && (k_reclen k * n <? 2147483648) && (2 <=? k_reclen k)
      && negb (match k_years k with [] => true | _ => false end)
      && (if k_var k then guard_var (k_tfs k) vs (q_rs q) (q_re q) d n else true)
  end.

Definition in_domain (k : case) : bool := let vs := vs_of k in existsb (q_guard k vs) (k_qs k).

(** the property on the model: the limited answer is the first/last N of the unlimited answer *)
Definition q_prop (k : case) vs fs (q : qry) : bool :=
  match mk_lim (q_lim q) with
  | None => true
  | Some (d, n) =>
      let q0 := {| q_req := q_req q; q_rs := q_rs q; q_re := q_re q; q_lim := None; q_code := 0; q_rows := []; q_run := None |} in
      match model_query_st k vs fs q, model_query_st k vs fs q0 with
      | Ok l, Ok l0 => recs_eqb l (match d with First => firstn (Z.to_nat n) l0 | Last => lastn (Z.to_nat n) l0 end)
      | _, _ => false
      end
  end.

Definition model_limit (k : case) : bool :=
  let vs := vs_of k in let fs := fs_of k in
  forallb (fun q => implb (q_guard k vs q) (q_prop k vs fs q)) (k_qs k).
