(** Correspondence glue for C12: the stored state of one bucket (as the unlimited all-time query
    shows it, regrouped into index slots) and a list of range/limit queries, each with what
    QueryService.ExecuteQuery returned; evaluated against Model/FStore.v + Model/VRead.v. *)
From Coq Require Import List NArith ZArith String Bool.
From Coq.Strings Require Import Byte.
Import ListNotations.
Require Import MS.Base.Res MS.Base.Hex MS.Generated.Src_fstore MS.Model.UTime MS.Model.FStore MS.Model.VRead MS.Corr.Common.
Local Open Scope Z_scope.

Definition orec := (Z * Z * positive)%type.          (* epoch second, nanoseconds (0 for fixed), data *)

Record qry := {
  q_req : Z;                             (* duration (s) of the timeframe named in the query key *)
  q_rs : Z * Z;                          (* range start (second, nanosecond) *)
  q_re : option (Z * Z);                 (* range end; None = planner.MaxTime *)
  q_lim : option (bool * Z);             (* (limit from start?, limitRecordCount) ; None = 0 = no limit *)
  q_code : nat;                          (* 0 ok, 1 error, 2 panic *)
  q_rows : list orec
}.

Record case := {
  k_var : bool;
  k_tfs : Z;
  k_reclen : Z;                          (* TimeBucketInfo.GetRecordLength(): 24 for a variable bucket *)
  k_years : list Z;                      (* year files present *)
  k_slots : list (Z * list orec);        (* live index slots ascending: a second inside the interval, its records *)
  k_qs : list qry
}.

Definition mk_rec (o : orec) : vrec := let '(s, n, d) := o in mkvrec s n (unhexp d).

Definition var_store (k : case) : vstore :=
  mkstore (k_years k) (map (fun '(t, rs) => slot_entry (k_tfs k) (k_reclen k) t (map mk_rec rs)) (k_slots k)).

(** a fixed slot holds one row; it is carried as a one-record list too *)
Definition fix_store (k : case) : storeA vrec :=
  mkstore (k_years k)
          (map (fun '(t, rs) => slot_entry (k_tfs k) (k_reclen k) t
                                  (match rs with r :: _ => mk_rec r | [] => mkvrec 0 0 [] end)) (k_slots k)).

Definition mk_lim (l : option (bool * Z)) : option (dir * Z) :=
  match l with None => None | Some (b, n) => Some (if b then First else Last, n) end.

Definition rec_eqb (a b : vrec) : bool :=
  Z.eqb (v_sec a) (v_sec b) && Z.eqb (v_ns a) (v_ns b) && bytes_eqb (v_data a) (v_data b).

Fixpoint recs_eqb (a b : list vrec) : bool :=
  match a, b with
  | [], [] => true
  | x :: a', y :: b' => rec_eqb x y && recs_eqb a' b'
  | _, _ => false
  end.

(** the model's answer to one query, as a record list (fixed rows: stamped epoch, ns 0) *)
Definition model_query (k : case) (q : qry) : Res (list vrec) :=
  if k_var k then exec_var (k_tfs k) (var_store k) (q_req q) (q_rs q) (q_re q) (mk_lim (q_lim q))
  else
    match exec_fixed (k_tfs k) (k_reclen k) (fix_store k) (q_req q) (fst (q_rs q)) (option_map fst (q_re q)) (mk_lim (q_lim q)) with
    | Ok l => Ok (map (fun '(t, r) => mkvrec t 0 (v_data r)) l)
    | Rejected => Rejected
    | Panic => Panic
    end.

Definition q_agrees (k : case) (q : qry) : bool :=
  match model_query k q with
  | Ok l => (q_code q =? 0)%nat && recs_eqb l (map mk_rec (q_rows q))
  | Rejected => (q_code q =? 1)%nat
  | Panic => (q_code q =? 2)%nat
  end.

Definition agrees (k : case) : bool := forallb (q_agrees k) (k_qs k).

(** the guard of the C12 theorems for one limited query *)
Definition q_guard (k : case) (q : qry) : bool :=
  match mk_lim (q_lim q) with
  | None => false
  | Some (d, n) =>
      (queryable_tfs (q_req q) =? q_req q) && (q_req q =? k_tfs k)
      && (1 <=? n) && (k_reclen k * n <? 2147483648) && (2 <=? k_reclen k)
      && negb (match k_years k with [] => true | _ => false end)
      && (if k_var k then guard_var (k_tfs k) (var_store k) (q_rs q) (q_re q) d n else true)
  end.

Definition in_domain (k : case) : bool := existsb (q_guard k) (k_qs k).

(** the property on the model: the limited answer is the first/last N of the unlimited answer *)
Definition q_prop (k : case) (q : qry) : bool :=
  match mk_lim (q_lim q) with
  | None => true
  | Some (d, n) =>
      let q0 := {| q_req := q_req q; q_rs := q_rs q; q_re := q_re q; q_lim := None; q_code := 0; q_rows := [] |} in
      match model_query k q, model_query k q0 with
      | Ok l, Ok l0 => recs_eqb l (match d with First => firstn (Z.to_nat n) l0 | Last => lastn (Z.to_nat n) l0 end)
      | _, _ => false
      end
  end.

Definition model_limit (k : case) : bool := forallb (fun q => implb (q_guard k q) (q_prop k q)) (k_qs k).
