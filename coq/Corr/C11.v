(** Correspondence glue for C11.  Three kinds of case, all produced by harness/props/c11.go from the
    REAL code:
      KTrim   executor.trimResultsToRange / trimResultsToLimit (through the verif hooks) on a generated
              buffer                                         vs Model/Trim.v
      KTime   the [time] package and utils/io TimeToIndex / IndexToTime / TimeToOffset / FileSize on
              generated instants                              vs Model/QTime.v
      KQuery  QueryService.ExecuteQuery on a real temp instance whose year files were read back raw
              (the file state) — the range query and the unrestricted query — vs Model/RangeRead.v *)
From Coq Require Import List NArith ZArith String Bool.
From Coq.Strings Require Import Byte.
Import ListNotations.
Require Import MS.Base.GoInt MS.Base.Res MS.Base.Hex MS.Base.Bytes MS.Generated.Src_query
               MS.Model.QTime MS.Model.Trim MS.Model.RangeRead MS.Model.RangeSpec MS.Corr.Common.
Local Open Scope Z_scope.

Record trim_case := {
  tr_rowlen : nat;
  tr_src : positive;                 (* the buffer (hex) *)
  tr_s : Z * Z; tr_e : Z * Z;        (* Start, End as time.Unix(sec, nsec) *)
  tr_out : positive;                 (* trimResultsToRange's result *)
  tr_limit : nat; tr_first : bool;   (* RowLimit{Number, Direction == FIRST} *)
  tr_lout : positive;                (* trimResultsToLimit(limit, rowlen, src) *)
  tr_rows : list (Z * Z * positive)  (* when the buffer was built from whole rows: (epoch, nanos, payload) *)
}.

Record time_case := {
  tm_t : Z * Z; tm_tf : Z; tm_year : Z; tm_index : Z; tm_rec : Z;
  tm_o_year : Z; tm_o_yday : Z; tm_o_unix : Z;   (* t.Year(), t.YearDay()-1, t.Unix() *)
  tm_o_index : Z; tm_o_offset : Z;               (* io.TimeToIndex(t, tf), io.TimeToOffset(t, tf, rec) *)
  tm_o_i2t : Z;                                  (* io.IndexToTime(index, tf, int16 year).Unix() *)
  tm_o_fsize : Z                                 (* io.FileSize(tf, year, rec) *)
}.

Record query_case := {
  q_tf : Z; q_var : bool; q_reclen : Z; q_vrl : Z;
  q_files : list (Z * list (Z * Z * positive * Z * list (Z * Z * positive)));
                                     (* year, slots (pos, idx, payload, clen, recs (sec, ns, payload)) *)
  q_mode : nat;                      (* 0: explicit range; 1: the query carried (MinTime, MaxTime) themselves *)
  q_s : Z * Z; q_e : Z * Z;
  q_code : nat; q_out : positive;    (* the range query: 0 ok / 1 error / 2 panic, packed rows *)
  q_acode : nat; q_all : positive    (* the unrestricted query (planner default range) *)
}.

Inductive case := KTrim (c : trim_case) | KTime (c : time_case) | KQuery (c : query_case).

Definition mk_rows (l : list (Z * Z * positive)) : list vrow :=
  map (fun '(s, n, p) => mkRow s n (unhexp p)) l.

Definition agrees_trim (c : trim_case) : bool :=
  let src := unhexp (tr_src c) in
  bytes_eqb (trim_range (q_go (tr_s c)) (q_go (tr_e c)) (tr_rowlen c) src) (unhexp (tr_out c))
  && bytes_eqb (trim_limit (Z.of_nat (tr_limit c)) (tr_first c) (tr_rowlen c) src) (unhexp (tr_lout c))
  && match tr_rows c with
     | [] => true
     | rows => bytes_eqb (enc_rows (mk_rows rows)) src      (* the harness' row view is the model's *)
     end.

Definition agrees_time (c : time_case) : bool :=
  let t := q_go (tm_t c) in
  (t_year t =? tm_o_year c) && (t_yday0 t =? tm_o_yday c) && (t_unix t =? tm_o_unix c)
  && (TimeToIndex t (tm_tf c) =? tm_o_index c) && (TimeToOffset t (tm_tf c) (tm_rec c) =? tm_o_offset c)
  && (t_unix (IndexToTime (tm_index c) (tm_tf c) (tm_year c)) =? tm_o_i2t c)
  && (file_size (tm_tf c) (tm_year c) (tm_rec c) =? tm_o_fsize c).

Definition mk_bucket (c : query_case) : bucket :=
  mkBk (q_tf c) (q_var c) (q_reclen c) (q_vrl c)
       (map (fun '(y, sls) =>
               mkYF y (map (fun '(pos, idx, pay, clen, recs) => mkSlot pos idx (unhexp pay) clen (mk_rows recs)) sls))
            (q_files c)).

Definition res_is (r : Res (list byte)) (code : nat) (out : positive) : bool :=
  match r with
  | Ok b => (code =? 0)%nat && bytes_eqb b (unhexp out)
  | Rejected => (code =? 1)%nat
  | Panic => (code =? 2)%nat
  end.

Definition agrees_query (c : query_case) : bool :=
  let b := mk_bucket c in
  let (ds, de) := default_range b in
  let (s, e) := match q_mode c with O => (q_go (q_s c), q_go (q_e c)) | _ => (ds, de) end in
  res_is (exec_query b s e) (q_code c) (q_out c)
  && res_is (exec_query b ds de) (q_acode c) (q_all c).

Definition agrees (k : case) : bool :=
  match k with KTrim c => agrees_trim c | KTime c => agrees_time c | KQuery c => agrees_query c end.

(** inside the guarded theorems' hypotheses *)
Definition wf_trim (c : trim_case) : bool :=
  let rows := mk_rows (tr_rows c) in
  negb (match tr_rows c with [] => true | _ => false end)
  && (4 <=? tr_rowlen c)%nat && forallb (wf_rowb (tr_rowlen c - 4)) rows && sorted_rows rows.

Definition in_domain (k : case) : bool :=
  match k with
  | KTrim c => wf_trim c
  | KTime _ => false
  | KQuery c => (q_mode c =? 0)%nat && in_domain_C11 (mk_bucket c) (q_s c) (q_e c)
  end.

(** the property on the model *)
Definition model_prop (k : case) : bool :=
  match k with
  | KTrim c =>
      let rows := mk_rows (tr_rows c) in
      bytes_eqb (trim_range (q_go (tr_s c)) (q_go (tr_e c)) (tr_rowlen c) (enc_rows rows))
                (enc_rows (filter (in_range_row (q_go (tr_s c)) (q_go (tr_e c))) rows))
  | KTime _ => true
  | KQuery c => prop_C11 (mk_bucket c) (q_s c) (q_e c)
  end.
