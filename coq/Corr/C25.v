(** Correspondence glue for C25: evaluates Model/Repl.v on the transaction groups the real master handed to
    its ReplicationSender (parsed by the real ParseTGData) and compares (i) the model's master store with
    the rows a full-range query returns on the real master, (ii) the model's replica (replay of the same
    TGs) with the outcome of the real Receiver/Replayer loop and the rows the real replica returns.
    The tick codec is instantiated with the PrimFloat mirror of C10 (Model/TicksPF.v). *)
From Coq Require Import List NArith ZArith String Bool.
From Coq.Strings Require Import Byte.
Import ListNotations.
Require Import MS.Base.GoInt MS.Base.Res MS.Base.Hex MS.Base.Tz MS.Model.TimeIndex MS.Model.TicksPF MS.Model.Repl
               MS.Generated.Src_repl MS.Corr.Common.
Local Open Scope Z_scope.

Record wsc := { w_rt : Z; w_bucket : positive; w_tf : Z; w_year : Z; w_idx : Z; w_payload : positive; w_vrl : Z;
                w_shapes : list (positive * Z) }.

Record case := {
  k_tgs : list (list wsc);              (* the transmitted TGs, in order, as parsed write sets *)
  k_rcode : nat;                        (* replica: 0 every TG replayed, 1 Receiver.Run ended with a replay error, 2 panic *)
  k_q : list (positive * option (list (Z * positive)) * option (list (Z * positive)))
                                        (* per bucket: rows (time ns, column bytes) on master / replica; None = no such bucket *)
}.

Definition mk_ws (w : wsc) : ws :=
  mkws (w_rt w) (unhexp (w_bucket w)) (w_tf w) (w_year w) (w_idx w) (unhexp (w_payload w)) (w_vrl w)
       (map (fun '(n, t) => (unhexp n, t)) (w_shapes w)).
Definition mk_tgs (k : case) : list (list ws) := map (map mk_ws) (k_tgs k).

(** io.GetIntervalTicks32Bit: baseTime = January 1st of ts.Year() (UTC) + (index-1)*86400/intervalsPerDay seconds
    (IndexToTimeDepr; the float quotient is exact for timeframes that divide the day) *)
Definition get_ticks_pf (t idx ipd : Z) : Z :=
  if ipd =? 0 then 0
  else enc_pf ipd (t - (year_start tz_utc (year_of tz_utc t) + Z.quot ((idx - 1) * 86400) ipd * NS)).

Definition replica (k : case) : rres := replica_run get_ticks_pf dec_pf [] (mk_tgs k).
Definition master (k : case) : store := master_run [] (mk_tgs k).

Definition qrow_eqb (q : qrow) (o : Z * positive) : bool := (q_time q =? fst o) && bytes_eqb (q_data q) (unhexp (snd o)).
Definition rows_eqb (m : option (list qrow)) (o : option (list (Z * positive))) : bool :=
  match m, o with
  | None, None => true
  | Some l, Some l' => all2 qrow_eqb l l'
  | _, _ => false
  end.

Definition res_store (r : rres) : option store := match r with ROk s | RErr s => Some s | _ => None end.
Definition res_code (r : rres) : nat := match r with ROk _ => 0 | RErr _ => 1 | RPanic => 2 | RUnmodelled => 3 end.

Definition agrees (k : case) : bool :=
  let r := replica k in
  match r with
  | RUnmodelled => true                   (* outside the model (payload shapes, coercion): not compared *)
  | _ =>
      (res_code r =? k_rcode k)%nat &&
      match res_store r with
      | None => true
      | Some sr =>
          let sm := master k in
          forallb (fun '(b, om, orr) =>
                     rows_eqb (query dec_pf sm (unhexp b)) om && rows_eqb (query dec_pf sr (unhexp b)) orr)
                  (k_q k)
      end
  end.

(** the guard of the guarded theorem, on the case *)
(** the guard of the guarded theorem, on the case: well-formed write sets *)
Definition in_domain (k : case) : bool := run_okb get_ticks_pf dec_pf [] (mk_tgs k).

(** the property evaluated on the model: the replica replays everything and has converged *)
Definition model_converges (k : case) : bool :=
  match replica k with
  | ROk sr => convergedb dec_pf (master k) sr
  | _ => false
  end.
