(** Correspondence glue for C23: evaluates Model/Uda.v on the harness' cases and compares with what the
    real aggregates (uda/count, min, max, avg, gap — through sqlparser.AggRunner.Run or New + repeated
    Accum) returned.  Floats cross the boundary as raw IEEE bit patterns (NaNs canonicalised). *)
From Coq Require Import NArith ZArith String Bool List.
Import ListNotations.
Require Import MS.Base.GoInt MS.Base.Res MS.Base.F32 MS.Base.F64 MS.Model.Uda MS.Proofs.Uda_facts MS.Corr.Common.
Require Export MS.Corr.AggCols.
Local Open Scope Z_scope.

Record case := {
  k_agg : nat;                       (* 0 count, 1 min, 2 max, 3 avg, 4 gap *)
  k_thr : Z;                         (* gap: threshold in seconds as gap.New derives it; < 0: none (z-score mode, not modelled) *)
  k_chunks : list (nat * kcol);      (* per Accum call: ColumnSeries.Len(), the mapped column *)
  k_code : nat;                      (* 0 ok, 1 an Accum returned an error, 2 panic *)
  k_out : list Z                     (* output of the last Accum: count [n]; min/max [bits32]; avg [bits64]; gap: start,end,length,… *)
}.

Definition chunks_of (k : case) : list chunk := map (fun '(n, c) => (n, mk_col c)) (k_chunks k).

Fixpoint flat3 (l : list (Z * Z * Z)) : list Z :=
  match l with [] => [] | (a, b, c) :: r => a :: b :: c :: flat3 r end.

Definition obs_res {A} (k : case) (r : Res A) (out : A -> list Z) : bool :=
  match r with
  | Ok a => (k_code k =? 0)%nat && zlist_eqb (k_out k) (out a)
  | Rejected => (k_code k =? 1)%nat
  | Panic => (k_code k =? 2)%nat
  end.

(** gap keeps no state across Accum calls except the last result: run = last chunk *)
Fixpoint gap_run (thr : Z) (chunks : list chunk) (last : list (Z * Z * Z)) : Res (list (Z * Z * Z)) :=
  match chunks with
  | [] => Ok last
  | ch :: r => do o <- gap_accum thr ch; gap_run thr r o
  end.

Definition agrees (k : case) : bool :=
  let chunks := chunks_of k in
  match k_agg k with
  | 0%nat => obs_res k (run count_accum count_init chunks) (fun s => [s])
  | 1%nat => obs_res k (run min_accum m_new chunks) (fun st => [f32_bits (m_val st)])
  | 2%nat => obs_res k (run max_accum m_new chunks) (fun st => [f32_bits (m_val st)])
  | 3%nat => obs_res k (run avg_accum a_new chunks) (fun st => [f64_bits (avg_out st)])
  | 4%nat => if k_thr k <? 0 then true else obs_res k (gap_run (k_thr k) chunks []) flat3
  | _ => false
  end.

(** the theorems' hypotheses, evaluated on the case *)
Definition all_vals (k : case) : list f32 := List.concat (map vals_of (chunks_of k)).

Definition in_domain (k : case) : bool :=
  let chunks := chunks_of k in
  match k_agg k with
  | 0%nat => true
  | 1%nat | 2%nat => forallb chunk_okb chunks && f32_nonan (all_vals k)
  | 3%nat => forallb chunk_okb chunks
  | 4%nat => (0 <=? k_thr k) && (k_thr k + 1 <? 2 ^ 53)
             && forallb (fun ch => match snd ch with CI64 l => (fst ch =? List.length l)%nat && forallb small53b l | _ => false end) chunks
  | _ => false
  end.

(** the property, evaluated on the model *)
Definition model_prop (k : case) : bool :=
  let chunks := chunks_of k in
  let vals := all_vals k in
  match k_agg k with
  | 0%nat => match run count_accum count_init chunks with Ok s => s =? total_len chunks | _ => false end
  | 1%nat => match run min_accum m_new chunks with
             | Ok st => match vals with
                        | [] => negb (m_init st)
                        | _ => m_init st && existsb (fun x => Z.eqb (f32_bits x) (f32_bits (m_val st))) vals
                               && forallb (fun x => f32_le (m_val st) x) vals
                        end
             | _ => false end
  | 2%nat => match run max_accum m_new chunks with
             | Ok st => match vals with
                        | [] => negb (m_init st)
                        | _ => m_init st && existsb (fun x => Z.eqb (f32_bits x) (f32_bits (m_val st))) vals
                               && forallb (fun x => f32_le x (m_val st)) vals
                        end
             | _ => false end
  | 3%nat => match run avg_accum a_new chunks with
             | Ok st => Z.eqb (f64_bits (avg_out st))
                          (f64_bits (f64_div (sum64 vals f64_zero) (f64_of_Z (Z.of_nat (List.length vals)))))
             | _ => false end
  | 4%nat => match rev chunks with
             | [] => true
             | (n, CI64 l) :: _ => match gap_run (k_thr k) chunks [] with
                                   | Ok rows => zlist_eqb (flat3 rows) (flat3 (gaps_spec (k_thr k) l))
                                   | _ => false end
             | _ => false
             end
  | _ => false
  end.
