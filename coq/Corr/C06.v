(** Correspondence glue for C06: runs Model/WalScan.v (with the executable Base/Md5.md5) on the file
    bytes of every harness case and compares exit class and applied transaction ids with what the real
    TakeOverWALFile + Replay(false) did. *)
From Coq Require Import List NArith ZArith String Bool.
From Coq.Strings Require Import Byte.
Import ListNotations.
Require Import MS.Base.GoInt MS.Base.Res MS.Base.Hex MS.Base.Bytes MS.Base.Md5 MS.Generated.Src_io MS.Generated.Src_wal
               MS.Model.TGCodec MS.Model.WalScan MS.Corr.Common.
Local Open Scope Z_scope.

Record case := {
  k_bytes : list byte;              (* the WAL file *)
  k_root : list byte;               (* directory of the WAL file = root of the key paths *)
  k_files : list (list byte);       (* existing primary files (absolute paths) *)
  k_code : nat;                     (* 0 nil, 1 error, 2 panic, 3 not replayed (size <= 10) *)
  k_applied : list Z;               (* ids of the checkpoint records the replay appended, in order *)
  k_good : nat;                     (* length of the common prefix with the valid file the mutant was made from *)
  k_req : list Z                    (* committed, not checkpointed transactions lying entirely inside that prefix *)
}.

(** replayTGData returns nil: every WTSet targets an existing file, is FIXED, and has a non-negative offset
    (WriteBufferToFile = pwrite; the harness never crafts VARIABLE records for existing files) *)
Definition apply_ok_files (files : list (list byte)) (_ : Z) (wts : list wtset) : bool :=
  forallb (fun w => existsb (bytes_eqb (w_path w)) files && (w_rt w =? RT_FIXED)
                    && match oib_offset (w_buf w) with Ok v => 0 <=? v | _ => false end) wts.

Definition run (k : case) : rout := startup_replay md5 (k_root k) (apply_ok_files (k_files k)) (k_bytes k).

(** what the harness can see of the applied list: TGs with >= 1 WTSet and id <> 0 append checkpoint records *)
Definition visible (l : list (Z * nat)) : list Z :=
  map fst (filter (fun e => negb (fst e =? 0) && (0 <? snd e)%nat) l).

Fixpoint zlist_eqb (a b : list Z) : bool :=
  match a, b with
  | [], [] => true
  | x :: a', y :: b' => (x =? y) && zlist_eqb a' b'
  | _, _ => false
  end.

Definition agrees (k : case) : bool :=
  let o := run k in (r_code o =? k_code k)%nat && zlist_eqb (visible (r_applied o)) (k_applied k).

(* ------------------------------------------------------------------ the guarded theorem (iii), evaluated per case *)
Require Import MS.Proofs.WalScan_facts.

(** the file as Replay scans it (status record rewritten by TakeOverWALFile / WriteStatus) *)
Definition scanned (k : case) : list byte :=
  [byte_of_Z MID_STATUS; byte_of_Z WFS_OPEN; byte_of_Z WRS_REPLAYINPROCESS] ++ rd (k_bytes k) 3 8 ++ skipn 11 (k_bytes k).

Fixpoint nodupb (l : list Z) : bool :=
  match l with [] => true | x :: r => negb (existsb (Z.eqb x) r) && nodupb r end.

(** [t] is framed as an intact record and no later frame is a checkpoint-commit record for an id >= t *)
Fixpoint framed_harmless (root : list byte) (t : Z) (evs : list ev) : bool :=
  match evs with
  | [] => false
  | EvTG _ id body :: post =>
      if id =? t then forallb (harmless t) post && is_ok (parseTGData body root) else framed_harmless root t post
  | _ :: post => framed_harmless root t post
  end.

(** hypotheses of C06_iii_frames / C06_iii_guarded_nil for every required transaction of the case:
    the scan starts, no TGDATA key twice, replay returns nil, each required id is non-zero, framed, and
    decodable, and not followed by a checkpoint-commit frame >= it *)
Definition in_domain (k : case) : bool :=
  let o := run k in
  let fr := frames md5 (scanned k) in
  (r_code o =? 0)%nat && nodupb (keys fr)
  && forallb (fun t => negb (t =? 0) && framed_harmless (k_root k) t fr) (k_req k).

(** conclusion: every required transaction is applied (by the MODEL) *)
Definition model_applies_required (k : case) : bool :=
  let o := run k in forallb (fun t => existsb (fun e => fst e =? t) (r_applied o)) (k_req k).

(** (ii) on the model: every applied id is the id of some intact frame (cheap sanity mirror of the theorem) *)
Definition model_applied_framed (k : case) : bool :=
  let o := run k in
  let fr := frames md5 (scanned k) in
  forallb (fun e => existsb (fun f => match f with EvTG _ id _ => id =? fst e | _ => false end) fr) (r_applied o).

(** the three per-case verdicts share one run of the model and one frame list (the driver evaluates each
    query separately; this keeps every query at one model run) *)
Definition model_prop (k : case) : bool :=
  let o := run k in
  let fr := frames md5 (scanned k) in
  let dom := (r_code o =? 0)%nat && nodupb (keys fr)
             && forallb (fun t => negb (t =? 0) && framed_harmless (k_root k) t fr) (k_req k) in
  implb dom (forallb (fun t => existsb (fun e => fst e =? t) (r_applied o)) (k_req k))
  && forallb (fun e => existsb (fun f => match f with EvTG _ id _ => id =? fst e | _ => false end) fr) (r_applied o).
