(** Correspondence glue for C16: catalog-model cases (Corr/CatCase.v) plus string pairs on which the
    lexical path functions of Base/Path.v are compared with path/filepath of the Go runtime. *)
From Coq Require Import List NArith ZArith Bool.
From Coq.Strings Require Import Byte.
Import ListNotations.
Require Import MS.Base.Hex MS.Base.Path MS.Model.Catalog MS.Corr.Common MS.Corr.Blob MS.Corr.CatCase.

Record case := {
  k_root : positive;             (* the data root as the model sees it (the sandbox is "/") *)
  k_ops : list positive;         (* request blobs *)
  k_obs : list positive;         (* observation blobs, one per request *)
  k_paths : positive             (* per pair: a, b, filepath.Join, path.Join, Clean a, path.Dir a, Base a,
                                    Ext(Base a)==".bin", n, strings.Split(a,"/")*n *)
}.

Fixpoint paths_agree (fuel : nat) (l : list (list byte)) : bool :=
  match fuel with
  | O => false
  | S f =>
      match l with
      | [] => true
      | a :: b :: j :: pj :: cl :: d :: bs :: ext :: r =>
          let '(sp, r') := counted 1 r dec_nat in
          bytes_eqb (join2 a b) j && bytes_eqb (join2 a b) pj && bytes_eqb (clean a) cl
          && bytes_eqb (dir a) d && bytes_eqb (base a) bs && Bool.eqb (has_bin_ext (base a)) (dec_bool ext)
          && fields_eqb (split_on slash a) sp
          && paths_agree f r'
      | _ => false
      end
  end.

Definition agrees (k : case) : bool :=
  let root := unhexp (k_root k) in
  run_agrees root (init_world root) (init_cat root) (map dec_op (k_ops k)) (map dec_obs (k_obs k))
  && paths_agree 100 (blob (k_paths k)).

(** no guard any more: the theorem holds for all keys *)
Definition in_domain (k : case) : bool := true.

(** the property on the model: every mutating system call of the run stays inside the root *)
Definition model_confined (k : case) : bool :=
  let root := unhexp (k_root k) in
  let '(w, _, _) := run root (map (fun p => mk_op (dec_op p)) (k_ops k)) in
  forallb (fun s => within root (sys_path s)) (wtr w).
