(** Correspondence glue for C09.  A case is a write history for ONE variable-length bucket, run through
    the real Writer.WriteCSM on a temp instance, with: the final file state read back raw (slots, records
    with their REAL ticks, stored block lengths) and the result of the query over all time.  The model
    (Model/VarStore.v with the primitive-float tick codec Model/TicksPF.v, reader Model/RangeRead.v) must
    reproduce the file state record for record, tick for tick, and the query outcome byte for byte
    (or panic for panic). *)
From Coq Require Import List NArith ZArith String Bool.
From Coq.Strings Require Import Byte.
Import ListNotations.
Require Import MS.Base.GoInt MS.Base.Res MS.Base.Hex MS.Base.Bytes MS.Generated.Src_query
               MS.Model.QTime MS.Model.Trim MS.Model.RangeRead MS.Model.RangeSpec
               MS.Model.TicksPF MS.Model.VarStore MS.Model.VarSpec MS.Corr.Common.
Local Open Scope Z_scope.

Record case := {
  k_tf : Z; k_plen : Z;
  k_hist : list (list (Z * Z * positive));          (* requests; rows (Epoch, Nanoseconds, payload) *)
  k_state : list (Z * Z * Z * list (positive * Z)); (* observed file state: year, pos, stored block length, records (payload, ticks) *)
  k_code : nat; k_out : positive                    (* query over all time: 0 ok / 1 error / 2 panic; packed rows *)
}.

Definition mk_hist (c : case) : list (list wrow) :=
  map (map (fun '(s, n, p) => mkW s n (unhexp p))) (k_hist c).

(** stored block length of slot k, as observed *)
Definition clen_of (c : case) (k : key) : Z :=
  match find (fun '(y, p, _, _) => (y =? fst k) && (p =? snd k)) (k_state c) with
  | Some (_, _, l, _) => l
  | None => 0
  end.

Definition enc_m := enc_pf.
Definition dec_m := dec_pf.

Fixpoint recs_eqb (a : list rec) (b : list (positive * Z)) : bool :=
  match a, b with
  | [], [] => true
  | (p, t) :: a', (p', t') :: b' => bytes_eqb p (unhexp p') && (t =? t') && recs_eqb a' b'
  | _, _ => false
  end.

Fixpoint state_eqb (st : store) (obs : list (Z * Z * Z * list (positive * Z))) : bool :=
  match st, obs with
  | [], [] => true
  | (k, l) :: st', (y, p, _, r) :: obs' => (fst k =? y) && (snd k =? p) && recs_eqb l r && state_eqb st' obs'
  | _, _ => false
  end.

Definition res_is (r : Res (list byte)) (code : nat) (out : positive) : bool :=
  match r with
  | Ok b => (code =? 0)%nat && bytes_eqb b (unhexp out)
  | Rejected => (code =? 1)%nat
  | Panic => (code =? 2)%nat
  end.

Definition agrees (c : case) : bool :=
  let h := mk_hist c in
  state_eqb (final enc_m (k_tf c) h) (k_state c)
  && res_is (query_all enc_m dec_m (k_tf c) (k_plen c) (clen_of c) h) (k_code c) (k_out c).

Definition in_domain (c : case) : bool :=
  guard_C09 enc_m dec_m (k_tf c) (k_plen c) (clen_of c) (mk_hist c).

Definition model_prop (c : case) : bool :=
  prop_C09 enc_m dec_m (k_tf c) (k_plen c) (clen_of c) (mk_hist c).
