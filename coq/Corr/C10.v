(** Correspondence glue for C10: Model/Ticks.v against io.GetIntervalTicks32Bit / io.IndexToTimeDepr /
    executor.GetTimeFromTicks, bit-exact (ticks, sec, nanosec). *)
From Coq Require Import List NArith ZArith Bool.
Import ListNotations.
Require Import MS.Base.GoInt MS.Model.Ticks MS.Model.TicksPF MS.Corr.Common.
Local Open Scope Z_scope.

Record case := {
  k_ipd : Z;          (* intervalsPerDay *)
  k_index : Z;        (* interval index (baseTime = IndexToTimeDepr index ipd year) *)
  k_off : Z;          (* offset of ts inside the interval, ns *)
  k_off2 : Z;         (* a second offset *)
  k_raw : Z;          (* an arbitrary uint32 tick count to decode *)
  k_start : Z;        (* intervalStart epoch for the decoder *)
  k_base : Z;         (* observed: IndexToTimeDepr(index, ipd, year) - January 1st, seconds *)
  k_ticks : Z;        (* observed: GetIntervalTicks32Bit(base + off) *)
  k_ticks2 : Z;
  k_sec : Z; k_ns : Z;       (* observed: GetTimeFromTicks(start, ipd, ticks) *)
  k_rsec : Z; k_rns : Z      (* observed: GetTimeFromTicks(start, ipd, raw) *)
}.

Definition pair_eqb (a : Z * Z) (x y : Z) : bool := (fst a =? x) && (snd a =? y).

(** the harness builds ts = (true interval start) + offset; the encoder sees ts - IndexToTimeDepr *)
Definition eff_off (k : case) (o : Z) : Z :=
  o + ((k_index k - 1) * (86400 / k_ipd k) - index_to_second_of_year (k_index k) (k_ipd k)) * 1000000000.

Definition agrees (k : case) : bool :=
  (index_to_second_of_year (k_index k) (k_ipd k) =? k_base k)
  && (enc (k_ipd k) (eff_off k (k_off k)) =? k_ticks k) && (enc (k_ipd k) (eff_off k (k_off2 k)) =? k_ticks2 k)
  && pair_eqb (dec (k_start k) (k_ipd k) (k_ticks k)) (k_sec k) (k_ns k)
  && pair_eqb (dec (k_start k) (k_ipd k) (k_raw k)) (k_rsec k) (k_rns k)
  (* the primitive-float mirror used by the exhaustive 1Sec sweep computes the same *)
  && (enc_pf (k_ipd k) (eff_off k (k_off k)) =? k_ticks k) && (enc_pf (k_ipd k) (eff_off k (k_off2 k)) =? k_ticks2 k)
  && pair_eqb (dec_pf (k_start k) (k_ipd k) (k_ticks k)) (k_sec k) (k_ns k)
  && pair_eqb (dec_pf (k_start k) (k_ipd k) (k_raw k)) (k_rsec k) (k_rns k).

Definition valid_off (ipd d : Z) : bool := (0 <=? d) && (d <? interval_ns ipd).

Definition in_domain (k : case) : bool :=
  existsb (Z.eqb (k_ipd k)) ipds && valid_off (k_ipd k) (k_off k) && valid_off (k_ipd k) (k_off2 k).

(** the property on the model: order preserved; decoded offset within one step below the original;
    exact for 1-second intervals *)
Definition model_prop (k : case) : bool :=
  let ipd := k_ipd k in let o := k_off k in
  let o' := dec_offset ipd (enc ipd o) in
  (if o <=? k_off2 k then enc ipd o <=? enc ipd (k_off2 k) else enc ipd (k_off2 k) <=? enc ipd o)
  && (0 <=? o') && (o' <=? o) && (o - o' <=? step_ns ipd)
  && (if ipd =? 86400 then o' =? o else true).
