(** Correspondence glue for C24: a real marketstore instance with the real OnDiskAggTrigger registered through
    a trigger.Matcher on a real TriggerPluginDispatcher; base writes through executor.WriteCSM; after every
    write (and the trigger's quiescence) all destination buckets are read back and compared with Model/AggTrigger.v. *)
From Coq Require Import NArith ZArith String Bool List.
Import ListNotations.
Require Import MS.Base.GoInt MS.Base.Res MS.Base.F32 MS.Base.F64 MS.Model.Uda MS.Model.AggTrigger MS.Corr.Common.
Require Export MS.Corr.AggCols.
Local Open Scope Z_scope.

(** a bar as printed by the harness: epoch, then the IEEE bit patterns of Open, High, Low, Close, Volume *)
Definition kbar : Type := list Z.

Definition mk_bar (k : kbar) : bar5 :=
  match k with
  | [e; o; h; l; c; v] => {| e5 := e; o5 := f32_of_bits o; h5 := f32_of_bits h; l5 := f32_of_bits l; c5 := f32_of_bits c; v5 := f32_of_bits v |}
  | _ => {| e5 := 0; o5 := f32_zero; h5 := f32_zero; l5 := f32_zero; c5 := f32_zero; v5 := f32_zero |}
  end.
Definition bar_obs (b : bar5) : kbar := [e5 b; f32_bits (o5 b); f32_bits (h5 b); f32_bits (l5 b); f32_bits (c5 b); f32_bits (v5 b)].

Record case := {
  k_dests : list Z;                       (* destination timeframes in seconds, configuration order *)
  k_writes : list (list kbar);            (* the history: one list of bars per WriteCSM to the base bucket *)
  k_snaps : list (list (list kbar));      (* after each write: the content of every destination bucket *)
  k_base : list kbar                      (* the base bucket at the end *)
}.

Definition store_eqb (obs : list kbar) (m : list bar5) : bool := rows_eqb obs (map bar_obs m).

Fixpoint stores_eqb (obs : list (list kbar)) (m : list (list bar5)) : bool :=
  match obs, m with
  | [], [] => true
  | o :: obs', s :: m' => store_eqb o s && stores_eqb obs' m'
  | _, _ => false
  end.

Fixpoint run_check (dests : list Z) (st : state) (ws : list (list bar5)) (snaps : list (list (list kbar))) : option state :=
  match ws, snaps with
  | [], [] => Some st
  | w :: ws', sn :: snaps' =>
      let st' := step dests st w in
      if stores_eqb sn (dest st') then run_check dests st' ws' snaps' else None
  | _, _ => None
  end.

Definition history (k : case) : list (list bar5) := map (map mk_bar) (k_writes k).

Definition agrees (k : case) : bool :=
  match run_check (k_dests k) (init (k_dests k)) (history k) (k_snaps k) with
  | Some st => store_eqb (k_base k) (base st)
  | None => false
  end.

(** the guard of C24_guarded and the property, evaluated on the model *)
Require Import MS.Proofs.AggTrigger_facts.
Definition in_domain (k : case) : bool := dests_okb 60 (k_dests k) && hist_okb 60 None (history k).
Definition model_prop (k : case) : bool := dest_matches (k_dests k) (run (k_dests k) (history k)).
