(** Columns as the aggregate harnesses (C21-C24) print them: element type + raw values (IEEE bit patterns
    for floats), and their translation to the model's columns. *)
From Coq Require Import NArith ZArith Bool List.
Import ListNotations.
Require Import MS.Base.F32 MS.Base.F64 MS.Model.Uda MS.Model.Candle.
Local Open Scope Z_scope.

(** a column as the harness prints it: element type + raw values (bit patterns for floats) *)
Inductive kcol :=
| KF32 (l : list Z) | KF64 (l : list Z) | KI64 (l : list Z) | KI32 (l : list Z) | KInt (l : list Z)
| KOther (n : nat) | KMissing.

Definition mk_col (k : kcol) : col :=
  match k with
  | KF32 l => CF32 (map f32_of_bits l)
  | KF64 l => CF64 (map f64_of_bits l)
  | KI64 l => CI64 l
  | KI32 l => CI32 l
  | KInt l => CInt l
  | KOther n => COther n
  | KMissing => CMissing
  end.

Fixpoint zlist_eqb (a b : list Z) : bool :=
  match a, b with
  | [], [] => true
  | x :: a', y :: b' => Z.eqb x y && zlist_eqb a' b'
  | _, _ => false
  end.


(** candler inputs and outputs (C21, C22, C24) *)
Record kinput := {
  ki_epoch : list Z;
  ki_nanos : option (list Z);
  ki_price : list (list kcol);     (* tick: one group; candle: Open, High, Low, Close groups *)
  ki_acc : list kcol
}.

Definition mk_input (k : kinput) : cinput :=
  {| in_epoch := ki_epoch k; in_nanos := ki_nanos k;
     in_price := map (map mk_col) (ki_price k); in_acc := map mk_col (ki_acc k) |}.


Definition row_obs (r : orow) : list Z :=
  o_epoch r :: f32_bits (o_o r) :: f32_bits (o_h r) :: f32_bits (o_l r) :: f32_bits (o_c r)
  :: map f64_bits (o_sums r) ++ map f64_bits (o_avgs r).

Fixpoint rows_eqb (a b : list (list Z)) : bool :=
  match a, b with
  | [], [] => true
  | x :: a', y :: b' => zlist_eqb x y && rows_eqb a' b'
  | _, _ => false
  end.

