(** Correspondence glue for C26: trace validation of forced runs of the REAL
    replication.GRPCReplicationServer + replication.Sender with fake stream objects
    (harness/props/c26.go).  Each case is the label sequence the run performed interleaved with what the
    real code showed at quiescent points; [agrees] = the LTS accepts it. *)
From Coq Require Import List NArith ZArith Arith Bool.
Import ListNotations.
Require Export MS.Model.Fanout.
Require Import MS.Generated.Src_sched MS.Corr.Common MS.Base.Hex.
From Coq.Strings Require Import Byte.

Inductive ev :=
| L (l : label)
| ODeliv (r first n : nat)      (* fake stream r has received exactly TGs first .. first+n-1, in order *)
| OMapLen (n : nat)             (* len(rs.StreamChannels) *)
| OChLen (r n : nat)            (* len of the channel stream r made (read through the map while it is there) *)
| ORetd (r : nat) (b : bool)    (* GetWALStream of stream r has returned *)
| OFault (k : nat)              (* the process died: 1 concurrent map iteration and map write, 2 concurrent map writes,
                                   3 send on closed channel; 0: it is alive *)
| OBlocked (b : bool).          (* Sender.Send did not return (the WAL loop would be blocked) *)

Definition list_nat_eqb (a b : list nat) : bool :=
  (length a =? length b) && forallb (fun p => fst p =? snd p) (combine a b).

Definition fault_code (s : st) : nat :=
  match panic s with None => 0 | Some PMapIterWrite => 1 | Some PMapWrites => 2 | Some PClosedSend => 3 end.
Definition is_done (g : option gpc) : bool := match g with Some GDone => true | _ => false end.

Definition obs_ok (s : st) (e : ev) : bool :=
  match e with
  | L _ => true
  | ODeliv r f n => list_nat_eqb (nth r (delivered s) []) (seq f n)
  | OMapLen n => length (smap s) =? n
  | OChLen r n => match nth_error (chs s) r with Some c => length (q c) =? n | None => false end
  | ORetd r b => Bool.eqb (is_done (nth_error (gs s) r)) b
  | OFault k => fault_code s =? k
  | OBlocked b => Bool.eqb (negb (enabled Commit s)) b
  end.

Fixpoint run_ev (s : st) (es : list ev) : option st :=
  match es with
  | [] => Some s
  | L l :: r => match step l s with Some s' => run_ev s' r | None => None end
  | e :: r => if obs_ok s e then run_ev s r else None
  end.

(** transport: opcode byte, then 16-bit big-endian arguments *)
Definition nb (b : byte) : nat := N.to_nat (Byte.to_N b).
Definition bb (n : nat) : bool := negb (n =? 0).
Definition w16 (h l : nat) : nat := 256 * h + l.

Fixpoint decode (fuel : nat) (l : list nat) : option (list ev) :=
  match fuel with
  | 0 => match l with [] => Some [] | _ => None end
  | S fuel' =>
      let k e r := match decode fuel' r with Some es => Some (e :: es) | None => None end in
      match l with
      | [] => Some []
      | 0 :: r => k (L Commit) r
      | 1 :: r => k (L SRecv) r
      | 2 :: h :: lo :: r => k (L (SNext (w16 h lo))) r
      | 3 :: r => k (L SEnd) r
      | 4 :: r => k (L SSend) r
      | 5 :: h :: lo :: r => k (L (GInsB (w16 h lo))) r
      | 6 :: h :: lo :: r => k (L (GInsE (w16 h lo))) r
      | 7 :: h :: lo :: r => k (L (GRecv (w16 h lo))) r
      | 8 :: h :: lo :: b :: r => k (L (GSend (w16 h lo) (bb b))) r
      | 9 :: h :: lo :: r => k (L (GDelB (w16 h lo))) r
      | 10 :: h :: lo :: r => k (L (GDelE (w16 h lo))) r
      | 11 :: h :: lo :: r => k (L (GCloseL (w16 h lo))) r
      | 12 :: r => k (L SLock) r
      | 13 :: h :: lo :: r => k (L (GDrain (w16 h lo))) r
      | 14 :: h :: lo :: r => k (L (GSpawn (w16 h lo))) r
      | 16 :: h :: lo :: fh :: fl :: nh :: nl :: r => k (ODeliv (w16 h lo) (w16 fh fl) (w16 nh nl)) r
      | 17 :: h :: lo :: r => k (OMapLen (w16 h lo)) r
      | 18 :: h :: lo :: nh :: nl :: r => k (OChLen (w16 h lo) (w16 nh nl)) r
      | 19 :: h :: lo :: b :: r => k (ORetd (w16 h lo) (bb b)) r
      | 20 :: c :: r => k (OFault c) r
      | 21 :: b :: r => k (OBlocked (bb b)) r
      | _ => None
      end
  end.

Record case := { k_keys : list nat; k_enc : list positive }.   (* chunks of <= 1024 bytes *)
Definition k_evs_opt (k : case) : option (list ev) :=
  let l := map nb (flat_map unhexp (k_enc k)) in decode (length l) l.
Definition k_evs (k : case) : list ev := match k_evs_opt k with Some es => es | None => [] end.

Definition capS0 : N := Z.to_N defaultSenderChannelSize.
Definition capC0 : N := Z.to_N defaultReplicationStreamChannelSize.
Definition start (k : case) : st := init (k_keys k) capS0 capC0.

Definition agrees (k : case) : bool :=
  match k_evs_opt k with
  | Some es => match run_ev (start k) es with Some _ => true | None => false end
  | None => false
  end.

Definition labels_of (es : list ev) : list label :=
  flat_map (fun e => match e with L l => [l] | _ => [] end) es.

Fixpoint nodupb (l : list nat) : bool :=
  match l with [] => true | x :: r => negb (memb x r) && nodupb r end.

(** Guard of the stable theorems on a recorded schedule: distinct addresses, and the schedule is a
    connect phase (only map inserts) followed by a phase without connects, disconnects or failing Sends. *)
Definition is_connect (l : label) : bool := match l with GInsB _ | GInsE _ => true | _ => false end.
Definition is_churn (l : label) : bool :=
  match l with GInsB _ | GInsE _ | GSend _ false | GDelB _ | GDelE _ | GCloseL _ | GDrain _ | GSpawn _ | GDelBx _ => true | _ => false end.
Fixpoint drop_connects (ls : list label) : list label :=
  match ls with l :: r => if is_connect l then drop_connects r else ls | [] => [] end.
Definition in_domain (k : case) : bool :=
  let ls := labels_of (k_evs k) in
  match ls with [] => false | _ => nodupb (k_keys k) && forallb (fun l => negb (is_churn l)) (drop_connects ls) end.

(** the property on the model along the recorded schedule: never a fault, never a race *)
Fixpoint always_ok (s : st) (ls : list label) : bool :=
  (fault_code s =? 0) && negb (race s)
  && match ls with
     | [] => true
     | l :: r => match step l s with Some s' => always_ok s' r | None => true end
     end.
Definition model_prop (k : case) : bool := always_ok (start k) (labels_of (k_evs k)).
