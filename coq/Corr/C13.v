(** Correspondence glue for C13: per case the catalog state (per symbol the series returned by the
    single unprojected query) and a list of DataService.Query requests with their decoded
    responses; evaluated against Model/MQuery.v. *)
From Coq Require Import List NArith ZArith String Bool.
From Coq.Strings Require Import Byte.
Import ListNotations.
Require Import MS.Base.Res MS.Base.Hex MS.Model.MQuery MS.Corr.Common.

Definition ocol := (positive * Z * positive)%type.         (* name, element type, data *)

Record qry := {
  q_syms : option (list positive);          (* None = "*" *)
  q_cols : list positive;
  q_code : nat;                             (* 0 ok, 1 error, 2 panic *)
  q_resp : list (positive * list ocol)      (* per key (symbol): the decoded columns *)
}.

Record case := {
  k_cat : list (positive * list ocol);      (* symbols of this timeframe/attribute group with their unprojected series *)
  k_allsyms : list positive;                (* every symbol of the catalog (what "*" expands to) *)
  k_qs : list qry
}.

Definition mk_cs (l : list ocol) : cser := map (fun '(n, t, d) => (unhexp n, t, unhexp d)) l.
Definition mk_cat (k : case) : catalog := map (fun '(s, c) => (unhexp s, mk_cs c)) (k_cat k).
Definition mk_names (l : list positive) : list name := map unhexp l.

Definition col_eqb (a b : column) : bool :=
  bytes_eqb (fst (fst a)) (fst (fst b)) && Z.eqb (snd (fst a)) (snd (fst b)) && bytes_eqb (snd a) (snd b).

Fixpoint cs_eqb (a b : cser) : bool :=
  match a, b with
  | [], [] => true
  | x :: a', y :: b' => col_eqb x y && cs_eqb a' b'
  | _, _ => false
  end.

Definition model_q (cat : catalog) (all : list name) (q : qry) : Res (list (name * cser)) :=
  match q_syms q with
  | Some l => exec cat (mk_names l) (mk_names (q_cols q))
  | None => exec_star cat all (mk_names (q_cols q))
  end.

Definition resp_eqb (m : list (name * cser)) (o : list (positive * list ocol)) : bool :=
  Nat.eqb (List.length m) (List.length o)
  && forallb (fun '(s, c) => match find_key (unhexp s) m with
                             | Some mc => cs_eqb mc (mk_cs c)
                             | None => false
                             end) o.

Definition q_agrees (cat : catalog) (all : list name) (q : qry) : bool :=
  match model_q cat all q with
  | Ok m => (q_code q =? 0)%nat && resp_eqb m (q_resp q)
  | Rejected => (q_code q =? 1)%nat
  | Panic => (q_code q =? 2)%nat
  end.

Definition agrees (k : case) : bool :=
  let cat := mk_cat k in let all := mk_names (k_allsyms k) in forallb (q_agrees cat all) (k_qs k).

Definition q_syms' (all : list name) (q : qry) : list name :=
  match q_syms q with Some l => mk_names l | None => all end.

(** the theorem's guard: distinct symbols, compatible projected schemas, at least one hit *)
Definition q_guard (cat : catalog) (all : list name) (q : qry) : bool :=
  let syms := q_syms' all q in let cols := mk_names (q_cols q) in
  nodup_b syms && compat cat syms cols
  && negb (match hits cat syms cols with [] => true | _ => false end).

Definition in_domain (k : case) : bool :=
  let cat := mk_cat k in let all := mk_names (k_allsyms k) in existsb (q_guard cat all) (k_qs k).

(** the property on the model: the response holds exactly the catalogued symbols of the request,
    each with the series of its own single query, which is the projection of its stored series *)
Definition q_prop (cat : catalog) (all : list name) (q : qry) : bool :=
  let syms := q_syms' all q in let cols := mk_names (q_cols q) in
  match exec cat syms cols with
  | Ok R =>
      forallb (fun s => match find_sym s cat with
                        | None => match find_key s R with None => true | Some _ => false end
                        | Some c =>
                            match find_key s R, exec cat [s] cols with
                            | Some x, Ok [(s', y)] => cs_eqb x y && cs_eqb y (filter_columns cols c)
                            | _, _ => false
                            end
                        end) syms
      && forallb (fun '(s, _) => existsb (bytes_eqb s) syms) R
  | _ => false
  end.

Definition model_multi (k : case) : bool :=
  let cat := mk_cat k in let all := mk_names (k_allsyms k) in
  forallb (fun q => implb (q_guard cat all q) (q_prop cat all q)) (k_qs k).
