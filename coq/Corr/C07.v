(** Correspondence glue for C07: trace validation.  The harness (harness/props/c07.go) drives the REAL
    write path (Writer.WriteCSM -> RequestFlush, the real SyncWAL goroutine or a harness-driven token
    arm calling the real FlushToWAL) through forced schedules and records, per schedule, the label
    sequence the run performed interleaved with what it observed from the real code at every quiescent
    point: which WriteCSM calls have returned, the transaction groups found in the WAL FILE ON DISK,
    len(flushChannel), len(writeChannel), and which rows a real query sees.  [agrees] = the LTS accepts
    the whole event sequence: every label is enabled where it occurs and every observation equals the
    model's state. *)
From Coq Require Import List NArith ZArith Arith Bool.
Import ListNotations.
Require Export MS.Model.WalLoop.
Require Import MS.Generated.Src_sched MS.Corr.Common MS.Base.Hex.
From Coq.Strings Require Import Byte.

Inductive ev :=
| L (l : label)
| ORet (w : nat) (b : bool)              (* WriteCSM of writer w has returned? *)
| OWal (t : list (list (nat * nat)))     (* TGs (lists of commands) parsed from the WAL file *)
| OVis (w i : nat) (b : bool)            (* a query sees row i of writer w? *)
| OFch (n : nat)                         (* len(flushChannel) *)
| OWch (n : nat)                         (* len(writeChannel) *)
| OHave (b : bool).                      (* haveWALWriter *)

Fixpoint list_eqb {A} (e : A -> A -> bool) (a b : list A) : bool :=
  match a, b with
  | [], [] => true
  | x :: a', y :: b' => e x y && list_eqb e a' b'
  | _, _ => false
  end.

Definition obs_ok (s : st) (e : ev) : bool :=
  match e with
  | L _ => true
  | ORet w b => Bool.eqb (returned s w) b
  | OWal t => list_eqb (list_eqb cmd_eqb) (tgs s) t
  | OVis w i b => Bool.eqb (mem_cmd (w, i) (vis s)) b
  | OFch n => length (fch s) =? n
  | OWch n => length (wch s) =? n
  | OHave b => Bool.eqb (have s) b
  end.

Fixpoint run_ev (s : st) (es : list ev) : option st :=
  match es with
  | [] => Some s
  | L l :: r => match step l s with Some s' => run_ev s' r | None => None end
  | e :: r => if obs_ok s e then run_ev s r else None
  end.

(** Transport: the harness prints the event sequence as one hexadecimal literal (Base/Hex.unhexp), one
    opcode byte per event followed by its one-byte arguments; parsing a Gallina list of a thousand
    constructors per case costs seconds, a number literal nothing.  A malformed stream decodes to
    [None] and the case disagrees. *)
Definition nb (b : byte) : nat := N.to_nat (Byte.to_N b).
Definition bb (n : nat) : bool := negb (n =? 0).

Fixpoint take_pairs (n : nat) (l : list nat) : option (list (nat * nat) * list nat) :=
  match n with
  | 0 => Some ([], l)
  | S n' => match l with
            | a :: b :: r => match take_pairs n' r with Some (p, r') => Some ((a, b) :: p, r') | None => None end
            | _ => None
            end
  end.
Fixpoint take_tgs (n : nat) (l : list nat) : option (list (list (nat * nat)) * list nat) :=
  match n with
  | 0 => Some ([], l)
  | S n' => match l with
            | c :: r => match take_pairs c r with
                        | Some (g, r') => match take_tgs n' r' with Some (t, r'') => Some (g :: t, r'') | None => None end
                        | None => None
                        end
            | [] => None
            end
  end.

Fixpoint decode (fuel : nat) (l : list nat) : option (list ev) :=
  match fuel with
  | 0 => match l with [] => Some [] | _ => None end
  | S fuel' =>
      let k e r := match decode fuel' r with Some es => Some (e :: es) | None => None end in
      match l with
      | [] => Some []
      | 0 :: w :: r => k (L (Enq w)) r
      | 1 :: w :: b :: r => k (L (RdHave w (bb b))) r
      | 3 :: w :: r => k (L (SendTok w)) r
      | 4 :: w :: r => k (L (InlFl w)) r
      | 5 :: r => k (L LStart) r
      | 6 :: r => k (L LRecv) r
      | 7 :: r => k (L LTick) r
      | 8 :: r => k (L LCkpt) r
      | 9 :: r => k (L LFl) r
      | 10 :: r => k (L LAckL) r
      | 11 :: r => k (L EnvShut) r
      | 12 :: r => k (L LShut) r
      | 13 :: r => k (L LShutC) r
      | 16 :: w :: b :: r => k (ORet w (bb b)) r
      | 17 :: n :: r => match take_tgs n r with Some (t, r') => k (OWal t) r' | None => None end
      | 18 :: w :: i :: b :: r => k (OVis w i (bb b)) r
      | 19 :: n :: r => k (OFch n) r
      | 20 :: n :: r => k (OWch n) r
      | 21 :: b :: r => k (OHave (bb b)) r
      | _ => None
      end
  end.

Record case := { k_ks : list nat; k_enc : positive }.
Definition k_evs_opt (k : case) : option (list ev) :=
  let l := map nb (unhexp (k_enc k)) in decode (length l) l.
Definition k_evs (k : case) : list ev := match k_evs_opt k with Some es => es | None => [] end.

Definition cap : N := Z.to_N WriteChannelCommandDepth.
Definition start (k : case) : st := init (k_ks k) cap cap.

Definition agrees (k : case) : bool :=
  match k_evs_opt k with
  | Some es => match run_ev (start k) es with Some _ => true | None => false end
  | None => false
  end.

Definition labels_of (es : list ev) : list label :=
  flat_map (fun e => match e with L l => [l] | _ => [] end) es.

(** the hypothesis of C07_full on the recorded schedule: the background writer exists for every request *)
Definition in_domain (k : case) : bool :=
  let ls := labels_of (k_evs k) in
  match ls with [] => false | _ => forallb steady ls end.

(** the property on the model: after every step of the schedule every returned writer is flushed *)
Fixpoint always_ok (s : st) (ls : list label) : bool :=
  forallb (fun w => implb (returned s w) (flushed s w)) (seq 0 (length (ks s)))
  && match ls with
     | [] => true
     | l :: r => match step l s with Some s' => always_ok s' r | None => true end
     end.

Definition model_prop (k : case) : bool := always_ok (start k) (labels_of (k_evs k)).
