(** Correspondence glue for C07: trace validation.  The harness (harness/props/c07.go) drives the REAL
    write path (Writer.WriteCSM -> RequestFlush, the real SyncWAL goroutine or a harness-driven token
    arm calling the real FlushToWAL) through forced schedules and records, per schedule, the label
    sequence the run performed interleaved with what it observed from the real code at every quiescent
    point: which WriteCSM calls have returned, the transaction groups found in the WAL FILE ON DISK,
    len(flushChannel), len(writeChannel), and which rows a real query sees.  [agrees] = the LTS accepts
    the whole event sequence: every label is enabled where it occurs and every observation equals the
    model's state. *)
From Coq Require Import List NArith ZArith Arith Bool.
Import ListNotations.
Require Import MS.Model.WalLoop MS.Generated.Src_sched MS.Corr.Common.

Inductive ev :=
| L (l : label)
| ORet (w : nat) (b : bool)              (* WriteCSM of writer w has returned? *)
| OWal (t : list (list (nat * nat)))     (* TGs (lists of commands) parsed from the WAL file *)
| OVis (w i : nat) (b : bool)            (* a query sees row i of writer w? *)
| OFch (n : nat)                         (* len(flushChannel) *)
| OWch (n : nat)                         (* len(writeChannel) *)
| OHave (b : bool).                      (* haveWALWriter *)

Fixpoint list_eqb {A} (e : A -> A -> bool) (a b : list A) : bool :=
  match a, b with
  | [], [] => true
  | x :: a', y :: b' => e x y && list_eqb e a' b'
  | _, _ => false
  end.

Definition obs_ok (s : st) (e : ev) : bool :=
  match e with
  | L _ => true
  | ORet w b => Bool.eqb (returned s w) b
  | OWal t => list_eqb (list_eqb cmd_eqb) (tgs s) t
  | OVis w i b => Bool.eqb (mem_cmd (w, i) (vis s)) b
  | OFch n => length (fch s) =? n
  | OWch n => length (wch s) =? n
  | OHave b => Bool.eqb (have s) b
  end.

Fixpoint run_ev (s : st) (es : list ev) : option st :=
  match es with
  | [] => Some s
  | L l :: r => match step l s with Some s' => run_ev s' r | None => None end
  | e :: r => if obs_ok s e then run_ev s r else None
  end.

Record case := { k_ks : list nat; k_evs : list ev }.

Definition cap : N := Z.to_N WriteChannelCommandDepth.
Definition start (k : case) : st := init (k_ks k) cap cap.

Definition agrees (k : case) : bool :=
  match run_ev (start k) (k_evs k) with Some _ => true | None => false end.

Definition labels_of (es : list ev) : list label :=
  flat_map (fun e => match e with L l => [l] | _ => [] end) es.

(** the guard of C07_guarded, on the recorded schedule *)
Definition in_domain (k : case) : bool :=
  let ls := labels_of (k_evs k) in forallb steady ls && forallb no_early ls.

(** the property on the model: after every step of the schedule every returned writer is flushed *)
Fixpoint always_ok (s : st) (ls : list label) : bool :=
  forallb (fun w => implb (returned s w) (flushed s w)) (seq 0 (length (ks s)))
  && match ls with
     | [] => true
     | l :: r => match step l s with Some s' => always_ok s' r | None => true end
     end.

Definition model_prop (k : case) : bool := always_ok (start k) (labels_of (k_evs k)).
