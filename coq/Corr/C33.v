(** Correspondence glue for C33: evaluates Model/Csv.v on the harness' cases (event stream recorded from
    the real csv.Reader, ColumnIndex from the real ReadMetadata, ParseFloat results recorded) and
    compares with what the real CSVtoNumpyMulti loop loaded. *)
From Coq Require Import List NArith ZArith Bool.
From Coq.Strings Require Import Byte.
Import ListNotations.
Require Import MS.Base.Res MS.Base.Hex MS.Base.Bytes MS.Model.Csv MS.Corr.Common.

Record case := {
  k_time : nat;                               (* csv column of Epoch (ColumnIndex[2]) *)
  k_cols : list (Z * nat);                    (* element type and csv column of every bucket column after Epoch *)
  k_chunk : nat;
  k_variable : bool;
  k_evs : list (option (list positive));      (* Some fields = a record, None = a Read error other than io.EOF *)
  k_floats : list (Z * positive * option positive);  (* recorded strconv.ParseFloat: bits, text, stored bytes / error *)
  k_code : nat;                               (* 0 loaded, 1 error returned, 2 panic *)
  k_epochs : positive;                        (* loaded Epoch column, all chunks concatenated *)
  k_nanos : positive;                         (* loaded Nanoseconds column (variable-length buckets only) *)
  k_data : list positive                      (* the other loaded columns *)
}.

Definition mk_evs (l : list (option (list positive))) : list ev :=
  map (fun o => match o with Some fs => ERow (map unhexp fs) | None => EErr end) l.

Definition pfloat_of (tbl : list (Z * positive * option positive)) (bits : Z) (s : list byte) : option (list byte) :=
  match find (fun '(b, t, _) => Z.eqb b bits && bytes_eqb (unhexp t) s) tbl with
  | Some (_, _, Some v) => Some (unhexp v)
  | _ => None
  end.

Definition mk_cfg (k : case) : cfg := mkcfg (k_time k) (k_cols k) (k_chunk k).

Fixpoint all2 {A B} (f : A -> B -> bool) (a : list A) (b : list B) : bool :=
  match a, b with
  | [], [] => true
  | x :: a', y :: b' => f x y && all2 f a' b'
  | _, _ => false
  end.

Definition run (k : case) : outcome := load (pfloat_of (k_floats k)) (mk_cfg k) (mk_evs (k_evs k)).

Definition agrees (k : case) : bool :=
  match run k with
  | Loaded d =>
      (k_code k =? 0)%nat
      && bytes_eqb (concat (map (fun t => le_bytes 8 (fst t)) (d_times d))) (unhexp (k_epochs k))
      && (negb (k_variable k) || bytes_eqb (concat (map (fun t => le_bytes 4 (snd t)) (d_times d))) (unhexp (k_nanos k)))
      && all2 (fun col o => bytes_eqb (concat col) (unhexp o)) (d_cols d) (k_data k)
  | Error => (k_code k =? 1)%nat
  | Crash => (k_code k =? 2)%nat
  end.

(** the theorem's hypothesis (after the fixes in /repo: no guard on the file's contents any more) *)
Definition in_domain (k : case) : bool := (1 <=? k_chunk k)%nat.

Definition ds_eqb (a b : ds) : bool :=
  all2 (fun x y => Z.eqb (fst x) (fst y) && Z.eqb (snd x) (snd y)) (d_times a) (d_times b)
  && all2 (all2 bytes_eqb) (d_cols a) (d_cols b).

(** the property on the model: loaded => no read error and every row of the file, converted as one chunk;
    never a crash *)
Definition model_prop (k : case) : bool :=
  match run k with
  | Loaded d => no_err (mk_evs (k_evs k)) &&
                match conv_spec (pfloat_of (k_floats k)) (mk_cfg k) (rows_of (mk_evs (k_evs k))) with
                | Some d' => ds_eqb d d'
                | None => false
                end
  | Error => true
  | Crash => false
  end.
