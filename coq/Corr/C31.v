(** Correspondence glue for C31: evaluates Model/Timeframe.v on the harness' cases and compares with
    utils.CandleDurationFromString / Truncate / Ceil / IsWithin / QueryableTimeframe /
    TimeframeFromString / TimeframeFromDuration of the real code. *)
From Coq Require Import List NArith ZArith Bool String.
Import ListNotations.
Require Import MS.Base.GoInt MS.Base.Res MS.Base.Civil MS.Base.Tz MS.Generated.Src_time
  MS.Model.TimeIndex MS.Model.Timeframe MS.Corr.Common.
Local Open Scope Z_scope.

Record case := {
  k_str : string;                (* candle duration string *)
  k_z : tz;                      (* location carried by the timestamps *)
  k_t : Z;                       (* ts (ns) *)
  k_other : Z;                   (* another start instant for IsWithin *)
  k_tfstr : string;              (* TimeframeFromString argument *)
  k_dur : Z;                     (* TimeframeFromDuration argument *)
  k_cd_ok : bool;                (* CandleDurationFromString succeeded *)
  k_cd : list Z;                 (* Duration; Truncate ts; Ceil ts; IsWithin ts (Truncate ts); IsWithin ts other *)
  k_qtf : string;                (* QueryableTimeframe *)
  k_fs : option (string * Z);    (* TimeframeFromString k_tfstr *)
  k_fd : option (string * Z);    (* TimeframeFromDuration k_dur *)
  k_fsfd : option (string * Z);  (* TimeframeFromDuration (duration of k_fs) *)
  k_fsfdfs : option (string * Z) (* TimeframeFromString of its string *)
}.

Definition b2z (b : bool) : Z := if b then 1 else 0.

Fixpoint zlist_eqb (a b : list Z) : bool :=
  match a, b with
  | [], [] => true
  | x :: a', y :: b' => Z.eqb x y && zlist_eqb a' b'
  | _, _ => false
  end.

Definition otf_eqb (a b : option (string * Z)) : bool :=
  match a, b with
  | None, None => true
  | Some (s, d), Some (s', d') => String.eqb s s' && Z.eqb d d'
  | _, _ => false
  end.

Definition print_of (o : option (string * Z)) : option (string * Z) :=
  match o with Some (_, d) => TimeframeFromDuration d | None => None end.
Definition reparse_of (o : option (string * Z)) : option (string * Z) :=
  match o with Some (s, _) => TimeframeFromString s | None => None end.

Definition agrees (k : case) : bool :=
  let z := k_z k in let t := k_t k in
  (match CandleDurationFromString (k_str k) with
   | None => negb (k_cd_ok k)
   | Some cd =>
       k_cd_ok k
       && zlist_eqb [cd_duration cd; cd_truncate z cd t; cd_ceil z cd t;
                     b2z (cd_is_within z cd t (cd_truncate z cd t)); b2z (cd_is_within z cd t (k_other k))] (k_cd k)
       && String.eqb (QueryableTimeframe cd) (k_qtf k)
   end)
  && otf_eqb (TimeframeFromString (k_tfstr k)) (k_fs k)
  && otf_eqb (TimeframeFromDuration (k_dur k)) (k_fd k)
  && otf_eqb (print_of (TimeframeFromString (k_tfstr k))) (k_fsfd k)
  && otf_eqb (reparse_of (print_of (TimeframeFromString (k_tfstr k)))) (k_fsfdfs k).

(** duration of a named on-disk timeframe *)
Definition tf_duration (name : string) : Z := slookup Timeframes name.

(** the guards of the C31 theorems (Model/Timeframe.v: window_okb, print_okb) *)
Definition in_domain (k : case) : bool :=
  match CandleDurationFromString (k_str k) with
  | Some cd => window_okb (k_z k) cd (k_t k)
  | None => false
  end.

Definition model_prop (k : case) : bool :=
  match CandleDurationFromString (k_str k) with
  | Some cd =>
      let z := k_z k in let t := k_t k in
      (cd_truncate z cd t <=? t) && (t <? cd_ceil z cd t) && cd_is_within z cd t (cd_truncate z cd t)
      && (Z.rem (cd_duration cd) (tf_duration (QueryableTimeframe cd)) =? 0)
  | None => false
  end.

(** print/parse stability is checked on its own domain *)
Definition in_domain_print (k : case) : bool :=
  match TimeframeFromString (k_tfstr k) with Some (_, d) => print_okb d | None => false end.
Definition model_prop_print (k : case) : bool :=
  match TimeframeFromString (k_tfstr k) with
  | Some (_, d) => match reparse_of (TimeframeFromDuration d) with Some (_, d') => d' =? d | None => false end
  | None => false
  end.
