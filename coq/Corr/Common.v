(** Shared glue for the correspondence files (cases.v) written by the harness. *)
From Coq Require Import List NArith ZArith String Bool.
Import ListNotations.

Fixpoint mism_from {A} (f : A -> bool) (l : list A) (i : N) : list N :=
  match l with
  | [] => []
  | x :: r => if f x then mism_from f r (N.succ i) else i :: mism_from f r (N.succ i)
  end.
(** indices of the cases on which model and implementation disagree *)
Definition mismatches {A} (f : A -> bool) (l : list A) : list N := mism_from f l 0%N.

Definition count_true {A} (f : A -> bool) (l : list A) : N :=
  fold_left (fun a x => if f x then N.succ a else a) l 0%N.
