(** Correspondence glue for C30: evaluates Model/TimeIndex.v on the harness' cases and compares with
    what io.TimeToIndex / IndexToTime / IndexToOffset / TimeToOffset / EpochToIndex / EpochToOffset /
    FileSize returned under the same zone tables (dumped from Go's tzdata by the harness). *)
From Coq Require Import List NArith ZArith Bool.
Import ListNotations.
Require Import MS.Base.GoInt MS.Base.Res MS.Base.Civil MS.Base.Tz MS.Generated.Src_io MS.Generated.Src_time
  MS.Model.TimeIndex MS.Corr.Common.
Local Open Scope Z_scope.

Record case := {
  k_z : tz;            (* utils.InstanceConfig.Timezone: offset table on a +-3 year window around t *)
  k_loc : tz;          (* time.Local, same window *)
  k_tf : Z;            (* timeframe (ns) *)
  k_t : Z;             (* instant (ns) *)
  k_t2 : Z;            (* second instant *)
  k_rec : Z;           (* record size (int32) *)
  k_index : Z;         (* arbitrary index for IndexToTime *)
  k_code : nat;        (* 0 ok, 2 panic (zero timeframe) *)
  k_obs : list Z       (* year; idx; IndexToTime idx; IndexToTime (idx+1); TimeToIndex of the former;
                          year of t2; idx of t2; IndexToOffset idx; TimeToOffset; EpochToIndex; EpochToOffset;
                          FileSize; IndexToTime k_index; TimeToIndex of that *)
}.

Definition val (r : Res Z) : Z := match r with Ok v => v | _ => 0 end.

(** everything the harness observes, computed by the model *)
Definition observe (k : case) : Res (list Z) :=
  let z := k_z k in let tf := k_tf k in let t := k_t k in
  let y := year_of z t in
  let y16 := wrap I16 y in
  do idx <- TimeToIndex z t tf;
  let i2t := IndexToTime z idx tf y16 in
  let i2t1 := IndexToTime z (wrap I64 (idx + 1)) tf y16 in
  do back <- TimeToIndex z i2t tf;
  do idx2 <- TimeToIndex z (k_t2 k) tf;
  do t2o <- TimeToOffset z t tf (k_rec k);
  do e2i <- EpochToIndex z (sec_of t) tf;
  do e2o <- EpochToOffset z (sec_of t) tf (k_rec k);
  do fs <- FileSize (k_loc k) tf y16 (k_rec k);
  let i2tX := IndexToTime z (k_index k) tf y16 in
  do backX <- TimeToIndex z i2tX tf;
  Ok [y; idx; i2t; i2t1; back; year_of z (k_t2 k); idx2; IndexToOffset idx (k_rec k); t2o; e2i; e2o; fs; i2tX; backX].

Fixpoint zlist_eqb (a b : list Z) : bool :=
  match a, b with
  | [], [] => true
  | x :: a', y :: b' => Z.eqb x y && zlist_eqb a' b'
  | _, _ => false
  end.

Definition agrees (k : case) : bool :=
  match observe k with
  | Ok l => (k_code k =? 0)%nat && zlist_eqb l (k_obs k)
  | Rejected => (k_code k =? 1)%nat
  | Panic => (k_code k =? 2)%nat
  end.

Definition years_okb (y : Z) : bool := (1970 <=? y) && (y <=? 2261).

(** domain of the guarded theorems:
    zone and time.Local year-regular (C30_intraday); for 1D also t's day regular (C30_daily) *)
Definition in_domain (k : case) : bool :=
  let z := k_z k in let y := year_of z (k_t k) in
  is_timeframe (k_tf k) && years_okb y && (0 <? k_rec k) && (k_rec k <? 2147483648) &&
  year_okb z y && year_okb (k_loc k) y &&
  (if k_tf k =? utils_Day then day_okb z (k_t k) else true).

(** the property evaluated on the model (the 1D slot-0 conjunct is the refuted one: for 1D the data
    area test is only required when the index is >= 1) *)
Definition model_prop (k : case) : bool :=
  let z := k_z k in let tf := k_tf k in let t := k_t k in let r := k_rec k in
  let y := year_of z t in
  match TimeToIndex z t tf, FileSize (k_loc k) tf y r with
  | Ok idx, Ok fs =>
      let a := IndexToTime z idx tf y in
      let b := IndexToTime z (idx + 1) tf y in
      (a <=? t) && (t <? b)
      && (match TimeToIndex z a tf with Ok j => j =? idx | _ => false end)
      && (if year_of z (k_t2 k) =? y
          then match TimeToIndex z (k_t2 k) tf with
               | Ok j => Bool.eqb (j =? idx) ((a <=? k_t2 k) && (k_t2 k <? b))
               | _ => false end
          else true)
      && ((tf =? utils_Day) && (idx =? 0)
          || (Headersize <=? IndexToOffset idx r) && (IndexToOffset idx r + r <=? fs))
  | _, _ => false
  end.
