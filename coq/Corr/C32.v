(** Correspondence glue for C32: evaluates Model/Dispatch.v on the harness' cases (flushed transaction
    groups as observed at the ReplicationSender, trigger patterns) and compares with the Trigger.Fire
    calls the recording triggers received from the real dispatcher, and with direct Matcher.Match probes. *)
From Coq Require Import List NArith ZArith String Bool.
From Coq.Strings Require Import Byte.
Import ListNotations.
Require Import MS.Base.Res MS.Base.Hex MS.Model.Dispatch MS.Corr.Common.

Record obs_fire := { of_trig : nat; of_key : positive; of_recs : list (Z * positive) }.

Record case := {
  k_code : nat;                                         (* 0 ok, 2 panic, 3 no quiescence *)
  k_trigs : list positive;                              (* the matchers' On patterns, in registration order *)
  k_flushes : list (list (positive * Z * positive));    (* per flushed TG: (WALKeyPath, index, payload) per write command *)
  k_fired : list obs_fire;                              (* every Trigger.Fire call observed *)
  k_match : list (positive * positive * bool)           (* direct probes: On, keyPath, Matcher.Match result *)
}.

Definition mk_rec (r : Z * positive) : rec := (fst r, unhexp (snd r)).
Definition mk_cmd (c : positive * Z * positive) : cmd :=
  let '(k, i, p) := c in mkcmd (unhexp k) (i, unhexp p).
Definition mk_fire (o : obs_fire) : fire := mkfire (of_trig o) (unhexp (of_key o)) (map mk_rec (of_recs o)).

Fixpoint parse_all (l : list positive) : option (list (list tok)) :=
  match l with
  | [] => Some []
  | on :: r => match parse_on (unhexp on), parse_all r with
               | Some p, Some ps => Some (p :: ps)
               | _, _ => None
               end
  end.

Definition rec_eqb (a b : rec) : bool := Z.eqb (fst a) (fst b) && bytes_eqb (snd a) (snd b).
Fixpoint list_eqb {A} (f : A -> A -> bool) (a b : list A) : bool :=
  match a, b with
  | [], [] => true
  | x :: a', y :: b' => f x y && list_eqb f a' b'
  | _, _ => false
  end.
Definition fire_eqb (a b : fire) : bool :=
  Nat.eqb (f_trig a) (f_trig b) && bytes_eqb (f_key a) (f_key b) && list_eqb rec_eqb (f_recs a) (f_recs b).
Definition event_eqb (a b : event) : bool :=
  let '(t, k, r) := a in let '(t', k', r') := b in Nat.eqb t t' && bytes_eqb k k' && rec_eqb r r'.

(** multiset equality: remove one occurrence per element *)
Fixpoint remove1 {A} (f : A -> A -> bool) (x : A) (l : list A) : option (list A) :=
  match l with
  | [] => None
  | y :: r => if f x y then Some r else match remove1 f x r with Some r' => Some (y :: r') | None => None end
  end.
Fixpoint perm_eqb {A} (f : A -> A -> bool) (a b : list A) : bool :=
  match a with
  | [] => match b with [] => true | _ => false end
  | x :: a' => match remove1 f x b with Some b' => perm_eqb f a' b' | None => false end
  end.

Definition probes_ok (l : list (positive * positive * bool)) : bool :=
  forallb (fun '(on, k, b) => match Match (unhexp on) (unhexp k) with
                              | Some m => Bool.eqb m b
                              | None => true           (* pattern outside the model: not compared *)
                              end) l.

(** model = implementation: same multiset of Fire calls (each with its records in order), same Match *)
Definition agrees (k : case) : bool :=
  probes_ok (k_match k) &&
  match parse_all (k_trigs k) with
  | None => true                                         (* a pattern outside the model's alphabet *)
  | Some trigs =>
      if (k_code k =? 0)%nat then
        perm_eqb fire_eqb (fired_det trigs (map (map mk_cmd) (k_flushes k))) (map mk_fire (k_fired k))
      else false                                         (* the model never panics and always quiesces *)
  end.

Definition in_domain (k : case) : bool :=
  (k_code k =? 0)%nat && match parse_all (k_trigs k) with Some _ => true | None => false end.

(** the property evaluated on the model: delivered events = specification, as multisets *)
Definition model_exactly_once (k : case) : bool :=
  match parse_all (k_trigs k) with
  | None => false
  | Some trigs =>
      let fl := map (map mk_cmd) (k_flushes k) in
      perm_eqb event_eqb (events (fired_det trigs fl)) (spec_events trigs (List.concat fl))
  end.
