(** Correspondence glue for C08: folds the generated write history through Model/FStore.v and
    compares the all-time query with what QueryService.ExecuteQuery returned on the real instance. *)
From Coq Require Import List NArith ZArith String Bool.
From Coq.Strings Require Import Byte.
Import ListNotations.
Require Import MS.Base.Res MS.Base.Hex MS.Model.UTime MS.Model.FStore MS.Spec.IntervalMap MS.Corr.Common.
Local Open Scope Z_scope.

Record case := {
  k_tfs : Z;                               (* bucket timeframe, seconds (from TimeBucketKey.GetTimeFrame) *)
  k_reclen : Z;                            (* TimeBucketInfo.GetRecordLength() *)
  k_create : list Z;                       (* year files existing before the first write ([] = created by WriteCSM) *)
  k_reqs : list (list (Z * positive));     (* write requests: rows (epoch, payload 0x1<hex>) *)
  k_qtfs : Z;                              (* observed CandleDuration.QueryableTimeframe(), seconds *)
  k_code : nat;                            (* ExecuteQuery: 0 ok, 1 error, 2 panic *)
  k_rows : list (Z * positive)             (* returned rows (Epoch, payload) *)
}.

Definition mk_rows (l : list (Z * positive)) : list row := map (fun '(t, d) => (t, unhexp d)) l.
Definition mk_reqs (k : case) : list (list row) := map mk_rows (k_reqs k).

Definition final_store (k : case) : store :=
  fold_left (write_fixed (k_tfs k) (k_reclen k)) (mk_reqs k) (mkstore (k_create k) []).

Fixpoint rows_eqb (a b : list row) : bool :=
  match a, b with
  | [], [] => true
  | (t, d) :: a', (t', d') :: b' => Z.eqb t t' && bytes_eqb d d' && rows_eqb a' b'
  | _, _ => false
  end.

Definition res_agrees (r : Res (list row)) (code : nat) (rows : list row) : bool :=
  match r with
  | Ok l => (code =? 0)%nat && rows_eqb l rows
  | Rejected => (code =? 1)%nat
  | Panic => (code =? 2)%nat
  end.

Definition agrees (k : case) : bool :=
  Z.eqb (queryable_tfs (k_tfs k)) (k_qtfs k)
  && res_agrees (query_bucket_all (k_tfs k) (k_reclen k) (final_store k)) (k_code k) (mk_rows (k_rows k)).

(** the guarded theorem's hypothesis (histories starting from an empty bucket) *)
Definition in_domain (k : case) : bool :=
  guard_C08 (k_tfs k) (k_reclen k) (mk_reqs k)
  && match k_create k with [] => true | _ => false end
  && negb (match mk_reqs k with [] => true | _ => false end)
  && existsb (fun r => negb (match r with [] => true | _ => false end)) (mk_reqs k).

(** the property evaluated on the model: the all-time query is the last-writer-wins interval map *)
Definition model_lww (k : case) : bool :=
  match query_bucket_all (k_tfs k) (k_reclen k) (final_store k) with
  | Ok l => rows_eqb l (lww (k_tfs k) (mk_reqs k))
  | _ => false
  end.
