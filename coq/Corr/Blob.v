(** Compact transport of harness observations: a blob is one hexadecimal literal holding a flat
    sequence of fields (2-byte big-endian length, then the bytes).  Numbers travel as decimal ASCII.
    Elaborating one long literal is far cheaper for Coq than elaborating many small ones. *)
From Coq Require Import List NArith ZArith Bool.
From Coq.Strings Require Import Byte.
Import ListNotations.
Require Import MS.Base.Hex.

Fixpoint fields (fuel : nat) (l : list byte) : list (list byte) :=
  match fuel with
  | O => []
  | S f =>
      match l with
      | h :: lo :: r =>
          let n := N.to_nat (Byte.to_N h * 256 + Byte.to_N lo) in
          firstn n r :: fields f (skipn n r)
      | _ => []
      end
  end.
Definition blob (p : positive) : list (list byte) := let l := unhexp p in fields (length l) l.

Fixpoint fields_eqb (a b : list (list byte)) : bool :=
  match a, b with
  | [], [] => true
  | x :: a', y :: b' => bytes_eqb x y && fields_eqb a' b'
  | _, _ => false
  end.

(** decimal field -> number ("-" allowed); malformed digits count as 0 *)
Fixpoint dec_digits (s : list byte) (acc : Z) : Z :=
  match s with
  | [] => acc
  | c :: r => dec_digits r (acc * 10 + (Z.of_N (Byte.to_N c) - 48))
  end.
Definition dec_Z (s : list byte) : Z :=
  match s with
  | c :: r => if Byte.eqb c x2d then (- dec_digits r 0)%Z else dec_digits s 0
  | [] => 0%Z
  end.
Definition dec_nat (s : list byte) : nat := Z.to_nat (dec_Z s).
Definition dec_bool (s : list byte) : bool := negb (Z.eqb (dec_Z s) 0).

(** [take n l] = (first n fields, rest) *)
Definition take {A} (n : nat) (l : list A) : list A * list A := (firstn n l, skipn n l).

(** a counted group: the first field is the number of records, each of [arity] fields *)
Definition counted {A} (arity : nat) (l : list A) (count : A -> nat) : list A * list A :=
  match l with
  | [] => ([], [])
  | c :: r => take (count c * arity) r
  end.

Fixpoint chunk3 {A} (l : list A) : list (A * A * A) :=
  match l with a :: b :: c :: r => (a, b, c) :: chunk3 r | _ => [] end.
Fixpoint chunk2 {A} (l : list A) : list (A * A) :=
  match l with a :: b :: r => (a, b) :: chunk2 r | _ => [] end.
