(** Correspondence glue for C18: trace validation of forced runs of the REAL primary write path
    (executor.WriteBufferToFileIndirect on the real bucket file, driven in two halves through an
    interposed ReadWriteSeeker; Writer.WriteCSM for complete writes) against REAL queries
    (harness/props/c18.go).  [agrees] = the RWRace LTS accepts the recorded label/observation sequence. *)
From Coq Require Import List NArith ZArith Arith Bool.
Import ListNotations.
Require Export MS.Model.RWRace.
Require Import MS.Corr.Common MS.Base.Hex.
From Coq.Strings Require Import Byte.

Inductive ev :=
| L (l : label)
| ORes (r : nat) (err : bool) (rows : list nat)   (* query of reader r finished: error? / Open values in result order *)
| OFix (snap : list (option nat))                 (* a query of the fixed bucket returned these slot values *)
| OTriple (i : nat) (present : bool) (n : nat).   (* slot i's index triple on disk: present? / number of records it covers *)

Definition opt_eqb (a b : option nat) : bool :=
  match a, b with None, None => true | Some x, Some y => x =? y | _, _ => false end.
Fixpoint olist_eqb (a b : list (option nat)) : bool :=
  match a, b with [] , [] => true | x :: a', y :: b' => opt_eqb x y && olist_eqb a' b' | _, _ => false end.

Definition obs_ok (s : st) (e : ev) : bool :=
  match e with
  | L _ => true
  | ORes r err rows =>
      match nth_error (rs s) r with
      | Some (true, _, RDone (ROk c)) => negb err && list_eqb c rows
      | Some (true, _, RDone RDecodeErr) => err
      | _ => false
      end
  | OFix snap => olist_eqb (last (fres s) []) snap
  | OTriple i p n =>
      match nth_error (idx s) i with
      | Some (Some (_, k)) => p && (k =? n)
      | Some None => negb p
      | None => false
      end
  end.

Fixpoint run_ev (s : st) (es : list ev) : option st :=
  match es with
  | [] => Some s
  | L l :: r => match step l s with Some s' => run_ev s' r | None => None end
  | e :: r => if obs_ok s e then run_ev s r else None
  end.

Definition nb (b : byte) : nat := N.to_nat (Byte.to_N b).
Definition bb (n : nat) : bool := negb (n =? 0).
Fixpoint take (n : nat) (l : list nat) : option (list nat * list nat) :=
  match n with
  | 0 => Some ([], l)
  | S n' => match l with x :: r => match take n' r with Some (a, b) => Some (x :: a, b) | None => None end | [] => None end
  end.
Definition onat (x : nat) : option nat := if x =? 255 then None else Some x.

Fixpoint decode (fuel : nat) (l : list nat) : option (list ev) :=
  match fuel with
  | 0 => match l with [] => Some [] | _ => None end
  | S fuel' =>
      let k e r := match decode fuel' r with Some es => Some (e :: es) | None => None end in
      match l with
      | [] => Some []
      | 0 :: c :: r => k (L (WData (bb c))) r
      | 1 :: r => k (L WIdx) r
      | 2 :: r => k (L FWrite) r
      | 3 :: x :: r => k (L (RIdx x)) r
      | 4 :: x :: r => k (L (RData x)) r
      | 16 :: x :: e :: n :: r => match take n r with Some (rows, r') => k (ORes x (bb e) rows) r' | None => None end
      | 17 :: n :: r => match take n r with Some (v, r') => k (OFix (map onat v)) r' | None => None end
      | 18 :: i :: p :: n :: r => k (OTriple i (bb p) n) r
      | _ => None
      end
  end.

Record case := {
  k_comp : bool; k_nslots : nat;
  k_vw : list (nat * list nat); k_fw : list (nat * nat); k_readers : list (bool * nat);
  k_enc : positive }.
Definition k_evs_opt (k : case) : option (list ev) :=
  let l := map nb (unhexp (k_enc k)) in decode (length l) l.
Definition k_evs (k : case) : list ev := match k_evs_opt k with Some es => es | None => [] end.
Definition start (k : case) : st := init (k_comp k) (k_nslots k) (k_vw k) (k_fw k) (k_readers k).

Definition agrees (k : case) : bool :=
  match k_evs_opt k with
  | Some es => match run_ev (start k) es with Some _ => true | None => false end
  | None => false
  end.

Definition labels_of (es : list ev) : list label :=
  flat_map (fun e => match e with L l => [l] | _ => [] end) es.

(** guard of C18_variable_no_continuation on the recorded schedule (+ the theorem's well-formedness of writes) *)
Definition in_domain (k : case) : bool :=
  let ls := labels_of (k_evs k) in
  match ls with
  | [] => false
  | _ => forallb no_cont ls && forallb (fun w => match snd w with [] => false | _ => true end) (k_vw k)
  end.

Definition model_prop (k : case) : bool :=
  match run_labels (start k) (labels_of (k_evs k)) with
  | Some s => all_reads_committed s && all_fixed_reads_ok s
  | None => true
  end.
