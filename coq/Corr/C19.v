(** Correspondence glue for C19: evaluates Model/Sql.v on the harness' cases and compares with what the
    real pipeline (BuildQueryTree -> NewExecutableStatement -> Materialize) did: the StaticPredicateGroup
    the visitor built (read through the verif hook) and the epochs of the rows returned. *)
From Coq Require Import List NArith ZArith String Bool.
From Flocq Require Import IEEE754.BinarySingleNaN.
Import ListNotations.
Require Import MS.Base.Res MS.Base.FGen MS.Base.F32 MS.Base.F64 MS.Generated.Src_sql MS.Model.Sql MS.Corr.Common.
Local Open Scope Z_scope.

Inductive kcell := KI (z : Z) | KF32 (bits : Z) | KF64 (bits : Z).
Inductive klit := KLInt (z : Z) | KLFlt (bits : Z).
Inductive kpred := KCmp (c : string) (op : Z) (l : klit) | KBetween (c : string) (lo hi : klit).

(** one observed StaticPredicate: column, min, max, equal (nil = None), ContentsEnum bits *)
Record kgroup := { o_col : string; o_min : option klit; o_max : option klit; o_eq : option klit; o_flags : Z }.

Record case := {
  k_tfs : Z;                                 (* timeframe, seconds *)
  k_schema : list (string * Z);              (* value columns: name, EnumElementType *)
  k_rows : list (Z * list kcell);            (* the stored history, in time order *)
  k_preds : list kpred;                      (* the WHERE conjunction *)
  k_group : list kgroup;                     (* observed StaticPredicateGroup (any order) *)
  k_code : nat;                              (* Materialize: 0 ok, 1 error, 2 panic *)
  k_out : list Z                             (* epochs of the returned rows *)
}.

Definition mk_cell (c : kcell) : cell :=
  match c with KI z => VI z | KF32 b => VF32 (f32_of_bits b) | KF64 b => VF64 (f64_of_bits b) end.
Definition mk_lit (l : klit) : lit := match l with KLInt z => LInt z | KLFlt b => LFlt (f64_of_bits b) end.
Definition mk_op (o : Z) : cop :=
  if o =? OP_EQ then CEq else if o =? OP_LT then CLt else if o =? OP_LTE then CLte
  else if o =? OP_GT then CGt else if o =? OP_GTE then CGte else CNeq.
Definition mk_pred (p : kpred) : pred :=
  match p with
  | KCmp c o l => PCmp c (mk_op o) (mk_lit l)
  | KBetween c a b => PBetween c (mk_lit a) (mk_lit b)
  end.
Definition mk_rows (l : list (Z * list kcell)) : list row := map (fun '(e, cs) => mkrow e (map mk_cell cs)) l.

Definition lit_same (a : lit) (b : klit) : bool :=
  match a, b with
  | LInt x, KLInt y => x =? y
  | LFlt x, KLFlt y => f64_bits x =? y
  | _, _ => false
  end.
Definition olit_same (a : option lit) (b : option klit) : bool :=
  match a, b with
  | None, None => true
  | Some x, Some y => lit_same x y
  | _, _ => false
  end.

Definition sp_flags (s : sp) : Z :=
  (if h_min s then SP_MINBOUND else 0) + (if h_imin s then SP_INCLUSIVEMIN else 0)
  + (if h_max s then SP_MAXBOUND else 0) + (if h_imax s then SP_INCLUSIVEMAX else 0)
  + (if h_eq s then SP_EQUALITY else 0).

Definition group_agrees (g : group) (og : list kgroup) : bool :=
  (List.length g =? List.length og)%nat
  && forallb (fun o => match g_get (o_col o) g with
                       | Some s => olit_same (s_min s) (o_min o) && olit_same (s_max s) (o_max o)
                                   && olit_same (s_eq s) (o_eq o) && (sp_flags s =? o_flags o)
                       | None => false end) og.

Fixpoint zlist_eqb (a b : list Z) : bool :=
  match a, b with
  | [], [] => true
  | x :: a', y :: b' => (x =? y) && zlist_eqb a' b'
  | _, _ => false
  end.

Definition agrees (k : case) : bool :=
  let ps := map mk_pred (k_preds k) in
  group_agrees (build_group ps) (k_group k)
  && match materialize (k_tfs k) (k_schema k) (mk_rows (k_rows k)) ps with
     | Ok out => (k_code k =? 0)%nat && zlist_eqb (map r_epoch out) (k_out k)
     | Rejected => (k_code k =? 1)%nat
     | Panic => (k_code k =? 2)%nat
     end.

(** the guarded theorem's hypothesis, evaluated on the case *)
Definition in_domain (k : case) : bool :=
  guard (k_tfs k) (k_schema k) (mk_rows (k_rows k)) (map mk_pred (k_preds k)).

(** the property evaluated on the model: Materialize returns exactly the relational filter *)
Definition model_select (k : case) : bool :=
  let ps := map mk_pred (k_preds k) in
  let rows := mk_rows (k_rows k) in
  match materialize (k_tfs k) (k_schema k) rows ps with
  | Ok out => zlist_eqb (map r_epoch out) (map r_epoch (spec_select (k_schema k) rows ps))
  | _ => false
  end.
