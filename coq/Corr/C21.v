(** Correspondence glue for C21 (and C22): evaluates Model/Candle.v on the harness' cases and compares
    with what the real TickCandler / CandleCandler returned (sqlparser.AggRunner.Run or New + repeated
    Accum).  Floats cross the boundary as raw IEEE bit patterns (NaNs canonicalised). *)
From Coq Require Import NArith ZArith String Bool List.
Import ListNotations.
Require Import MS.Base.GoInt MS.Base.Res MS.Base.F32 MS.Base.F64 MS.Model.Uda MS.Model.Candle MS.Corr.Common.
Require Export MS.Corr.AggCols.
Local Open Scope Z_scope.

Record kinput := {
  ki_epoch : list Z;
  ki_nanos : option (list Z);
  ki_price : list (list kcol);     (* tick: one group; candle: Open, High, Low, Close groups *)
  ki_acc : list kcol
}.

Definition mk_input (k : kinput) : cinput :=
  {| in_epoch := ki_epoch k; in_nanos := ki_nanos k;
     in_price := map (map mk_col) (ki_price k); in_acc := map mk_col (ki_acc k) |}.

Record case := {
  k_mult : Z; k_suffix : string;            (* the timeframe literal "<mult><suffix>" *)
  k_sum_idx : list nat; k_avg_idx : list nat;
  k_inputs : list kinput;                   (* one per Accum call *)
  k_code : nat;                             (* 0 ok, 1 an Accum returned an error, 2 panic *)
  k_out : list (list Z)                     (* output rows of the last Accum: epoch, o, h, l, c, sums…, avgs… *)
}.

Definition row_obs (r : orow) : list Z :=
  o_epoch r :: f32_bits (o_o r) :: f32_bits (o_h r) :: f32_bits (o_l r) :: f32_bits (o_c r)
  :: map f64_bits (o_sums r) ++ map f64_bits (o_avgs r).

Fixpoint rows_eqb (a b : list (list Z)) : bool :=
  match a, b with
  | [], [] => true
  | x :: a', y :: b' => zlist_eqb x y && rows_eqb a' b'
  | _, _ => false
  end.

Definition model_run (k : case) : Res cmap :=
  run_accum (cd_of (k_mult k) (k_suffix k)) [] (map mk_input (k_inputs k)).

Definition agrees (k : case) : bool :=
  match model_run k with
  | Ok m => (k_code k =? 0)%nat && rows_eqb (k_out k) (map row_obs (output (k_sum_idx k) (k_avg_idx k) m))
  | Rejected => (k_code k =? 1)%nat
  | Panic => (k_code k =? 2)%nat
  end.
