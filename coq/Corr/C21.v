(** Correspondence glue for C21 (and C22): evaluates Model/Candle.v on the harness' cases and compares
    with what the real TickCandler / CandleCandler returned (sqlparser.AggRunner.Run or New + repeated
    Accum).  Floats cross the boundary as raw IEEE bit patterns (NaNs canonicalised). *)
From Coq Require Import NArith ZArith String Bool List.
Import ListNotations.
Require Import MS.Base.GoInt MS.Base.Res MS.Base.F32 MS.Base.F64 MS.Model.Uda MS.Model.Candle MS.Corr.Common.
Require Export MS.Corr.AggCols.
Local Open Scope Z_scope.

Record case := {
  k_off : Z;                                (* UTC offset (seconds) of the system timezone the candlers ran in *)
  k_mult : Z; k_suffix : string;            (* the timeframe literal "<mult><suffix>" *)
  k_sum_idx : list nat; k_avg_idx : list nat;
  k_inputs : list kinput;                   (* one per Accum call *)
  k_code : nat;                             (* 0 ok, 1 an Accum returned an error, 2 panic *)
  k_out : list (list Z)                     (* output rows of the last Accum: epoch, o, h, l, c, sums…, avgs… *)
}.

Definition model_run (k : case) : Res cmap :=
  run_accum (cd_of_zone (k_off k * NS) (k_mult k) (k_suffix k)) [] (map mk_input (k_inputs k)).

Definition agrees (k : case) : bool :=
  match model_run k with
  | Ok m => (k_code k =? 0)%nat && rows_eqb (k_out k) (map row_obs (output (k_sum_idx k) (k_avg_idx k) m))
  | Rejected => (k_code k =? 1)%nat
  | Panic => (k_code k =? 2)%nat
  end.

(** ---- the theorems' hypotheses and the property, evaluated on the model ---- *)
Fixpoint extract_all (inputs : list cinput) : option (list (list bar)) :=
  match inputs with
  | [] => Some []
  | i :: r => match extract i, extract_all r with
              | Ok rows, Some rest => Some (rows :: rest)
              | _, _ => None
              end
  end.

Definition case_rows (k : case) : option (list bar) :=
  match extract_all (map mk_input (k_inputs k)) with Some rs => Some (List.concat rs) | None => None end.

(** guard of C21_candle: every Accum call's columns extract, no timestamp is the zero time.Time *)
Definition in_domain (k : case) : bool :=
  match case_rows k with
  | Some rows => forallb (fun r => negb (b_t r =? zero_time)) rows
  | None => false
  end.

Definition bits_eq32 (a b : f32) : bool := f32_bits a =? f32_bits b.

(** boolean mirror of [candle_spec] for the candle [c] of window [w] over all rows *)
Definition candle_ok (cd : cdur) (rows : list bar) (w : Z) (c : candle) : bool :=
  let rs := filter (fun r => truncate cd (b_t r) =? w) rows in
  (c_start c =? w)
  && negb (match rs with [] => true | _ => false end)
  && forallb (fun r => c_ot c <=? b_t r) rs
  && existsb (fun r => (b_t r =? c_ot c) && bits_eq32 (b_o r) (c_o c)) rs
  && forallb (fun r => b_t r <=? c_ct c) rs
  && existsb (fun r => (b_t r =? c_ct c) && bits_eq32 (b_c r) (c_c c)) rs
  && (if f32_nonan (map b_h rs)
      then existsb (fun r => bits_eq32 (b_h r) (c_h c)) rs && forallb (fun r => f32_le (b_h r) (c_h c)) rs else true)
  && (if f32_nonan (map b_l rs)
      then existsb (fun r => bits_eq32 (b_l r) (c_l c)) rs && forallb (fun r => f32_le (c_l c) (b_l r)) rs else true)
  && (c_n c =? Z.of_nat (List.length rs)).

Fixpoint incrb (l : list Z) : bool :=
  match l with
  | a :: ((b :: _) as r) => (a <? b) && incrb r
  | _ => true
  end.

Definition model_prop (k : case) : bool :=
  let cd := cd_of_zone (k_off k * NS) (k_mult k) (k_suffix k) in
  match case_rows k, model_run k with
  | Some rows, Ok m =>
      let out := sort_by_key m in
      incrb (map fst out)
      && forallb (fun r => existsb (fun kc => fst kc =? truncate cd (b_t r)) out) rows
      && forallb (fun kc => candle_ok cd rows (fst kc) (snd kc)) out
  | _, _ => false
  end.
