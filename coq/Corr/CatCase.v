(** Shared correspondence glue of the catalog model (C16, C17): the harness runs a request list against
    a real instance in a sandbox and records, after every request, the result code, how the listing of
    the whole sandbox changed, the catalog's own view (ListTimeBucketKeyNames, GatherTimeBucketInfo) and
    optionally the view of a fresh NewDirectory(root) on the same disk; the model is folded over the
    same list and must reproduce all of it. *)
From Coq Require Import List NArith ZArith Bool.
From Coq.Strings Require Import Byte.
Import ListNotations.
Require Import MS.Base.Hex MS.Base.Path MS.Model.Catalog MS.Corr.Blob.

(** request blob: kind (0 create, 1 write, 2 destroy, 3 query, 4 restart), key, tfok, schema tag, years... *)
Record kop := { o_kind : nat; o_key : list byte; o_tfok : bool; o_tag : nat; o_years : list Z }.

Definition dec_op (p : positive) : kop :=
  match blob p with
  | k :: key :: tf :: tag :: ys => {| o_kind := dec_nat k; o_key := key; o_tfok := dec_bool tf; o_tag := dec_nat tag; o_years := map dec_Z ys |}
  | _ => {| o_kind := 3; o_key := []; o_tfok := false; o_tag := 0; o_years := [] |}
  end.

Definition tag_of (n : nat) : list byte := [byte_of_N (N.of_nat n)].

Definition mk_op (o : kop) : op :=
  match o_kind o with
  | 0 => OpCreate (o_key o) (o_tfok o) (hd 0%Z (o_years o)) (tag_of (o_tag o))
  | 1 => OpWrite (o_key o) (o_tfok o) (o_years o) (tag_of (o_tag o))
  | 2 => OpDestroy (o_key o)
  | 3 => OpQuery (o_key o)
  | _ => OpRestart
  end.

(** observation blob: code, n, added (path,"d"|"f",content)*n, n, removed*n,
    same? (the catalog's view is unchanged since the previous step), [n, tbk (s,t,a)*n, n, files (path,year)*n],
    fresh? (0 none, 1 explicit, 2 identical to the catalog's view of this step), fresh code, [n, tbk*n, n, files*n] *)
Record obs_step := {
  s_code : nat;
  s_add : list (list byte * list byte * list byte);
  s_del : list (list byte * list byte * list byte);
  s_view : option (list (list byte) * list (list byte));    (* None = same as after the previous step *)
  s_fresh : option (nat * option (list (list byte) * list (list byte)))   (* inner None = identical to this step's view *)
}.

Definition dec_obs (p : positive) : obs_step :=
  match blob p with
  | code :: r0 =>
      let '(adds, r1) := counted 3 r0 dec_nat in
      let '(dels, r2) := counted 3 r1 dec_nat in
      let '(view, r4) :=
        match r2 with
        | same :: r2' =>
            if dec_bool same then (None, r2')
            else let '(tbk, r3) := counted 3 r2' dec_nat in
                 let '(files, r4) := counted 2 r3 dec_nat in
                 (Some (tbk, files), r4)
        | [] => (None, [])
        end in
      let fresh := match r4 with
                   | fl :: fc :: r5 =>
                       match dec_nat fl with
                       | 0 => None
                       | 1 => let '(ftbk, r6) := counted 3 r5 dec_nat in
                              let '(ffiles, _) := counted 2 r6 dec_nat in
                              Some (dec_nat fc, Some (ftbk, ffiles))
                       | _ => Some (dec_nat fc, None)
                       end
                   | _ => None
                   end in
      {| s_code := dec_nat code; s_add := chunk3 adds; s_del := chunk3 dels; s_view := view; s_fresh := fresh |}
  | [] => {| s_code := 9; s_add := []; s_del := []; s_view := None; s_fresh := None |}
  end.

(** the model's listing: path, "d"|"f", content (contents of year files are not compared) *)
Definition model_fs (w : world) : list (list byte * list byte * list byte) :=
  map (fun '(p, c) => match c with
                      | None => (p, [x64], [])
                      | Some x => (p, [x66], if has_bin_ext p then [] else x)
                      end) (fs_list 40 [] (wfs w)).

Definition ent_eqb (a b : list byte * list byte * list byte) : bool :=
  let '(p, k, c) := a in let '(p', k', c') := b in bytes_eqb p p' && bytes_eqb k k' && bytes_eqb c c'.
Definition ent_diff (a b : list (list byte * list byte * list byte)) :=   (* entries of a not in b *)
  filter (fun x => negb (existsb (ent_eqb x) b)) a.
Fixpoint ents_eqb (a b : list (list byte * list byte * list byte)) : bool :=
  match a, b with
  | [], [] => true
  | x :: a', y :: b' => ent_eqb x y && ents_eqb a' b'
  | _, _ => false
  end.

(** insertion sort of (path, year) pairs: the harness sorts GatherTimeBucketInfo the same way *)
Definition pf_le (x y : list byte * Z) : bool :=
  bytes_ltb (fst x) (fst y) || (bytes_eqb (fst x) (fst y) && (snd x <=? snd y)%Z).
Fixpoint pf_ins (x : list byte * Z) (l : list (list byte * Z)) :=
  match l with [] => [x] | y :: r => if pf_le x y then x :: l else y :: pf_ins x r end.
Definition pf_sort (l : list (list byte * Z)) := fold_right pf_ins [] l.

(** ListTimeBucketKeyNames builds a set of "s/t/a" strings: duplicates collapse, order is by string *)
Definition tbk_str (x : name * name * name) : list byte :=
  let '(a, b, c) := x in a ++ slash :: b ++ slash :: c.
Fixpoint tbk_ins (x : name * name * name) (l : list (name * name * name)) :=
  match l with
  | [] => [x]
  | y :: r => if bytes_eqb (tbk_str x) (tbk_str y) then l
              else if bytes_ltb (tbk_str x) (tbk_str y) then x :: l else y :: tbk_ins x r
  end.
Definition tbk_sort (l : list (name * name * name)) := fold_right tbk_ins [] l.

Definition cat_tbk (c : catalog) : list (list byte) := flat_map (fun '(x, y, z) => [x; y; z]) (tbk_sort (list_tbk c)).
Definition cat_files (c : catalog) : list (list byte) :=
  flat_map (fun '(p, y) => [p; itoa y]) (pf_sort (gather_files 40 (croot c))).

(** catalog of a restart: NewDirectory(root) on the current disk *)
Definition fresh_cat (root : list byte) (w : world) : catalog * nat :=
  let '(n, dm, e) := new_directory w root in
  (mkCat n dm, match e with LNone => 0 | LCat => 0 | LOther => 1 end).

Definition step_agrees (root : list byte) (o : kop) (w0 w : world) (c0 c : catalog) (code : nat) (s : obs_step) : bool :=
  ((3 <=? o_kind o)%nat || (code =? s_code s)%nat)
  && ents_eqb (ent_diff (model_fs w) (model_fs w0)) (s_add s)
  && ents_eqb (ent_diff (model_fs w0) (model_fs w)) (s_del s)
  && match s_view s with
     | Some (tbk, files) => fields_eqb (cat_tbk c) tbk && fields_eqb (cat_files c) files
     | None => fields_eqb (cat_tbk c) (cat_tbk c0) && fields_eqb (cat_files c) (cat_files c0)
     end
  && match s_fresh s with
     | None => true
     | Some (fc, Some (ftbk, ffiles)) =>
         let '(c', k) := fresh_cat root w in
         (k =? fc)%nat && fields_eqb (cat_tbk c') ftbk && fields_eqb (cat_files c') ffiles
     | Some (fc, None) =>
         let '(c', k) := fresh_cat root w in
         (k =? fc)%nat && fields_eqb (cat_tbk c') (cat_tbk c) && fields_eqb (cat_files c') (cat_files c)
     end.

(** one model step (a restart replaces the catalog by a fresh scan: OpRestart) *)
Definition kstep (root : list byte) (w : world) (c : catalog) (o : kop) : world * catalog * nat :=
  step root (w, c) (mk_op o).

Fixpoint run_agrees (root : list byte) (w : world) (c : catalog) (ops : list kop) (obs : list obs_step) : bool :=
  match ops, obs with
  | [], [] => true
  | o :: ops', s :: obs' =>
      let '(w', c', code) := kstep root w c o in
      step_agrees root o w w' c c' code s && run_agrees root w' c' ops' obs'
  | _, _ => false
  end.

Definition krun (root : list byte) (ops : list kop) : world * catalog :=
  fold_left (fun '(w, c) o => let '(w', c', _) := kstep root w c o in (w', c')) ops (init_world root, init_cat root).
