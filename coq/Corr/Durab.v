(** Correspondence glue shared by the durability group (C01 C02 C03 C04 C05 C34 C35).

    One [case] = one write history run against the REAL code in a child process under strace:
      - the schedule the harness derived from the history (rows -> slots with the real exported time
        arithmetic; file order of each flush as observed),
      - the recorded file-mutating system calls, decoded to [event]s (trace validation: the model's
        [run] on the schedule must produce exactly this list),
      - for a set of crash prefixes k: what the REAL start-up did on the materialised image of the
        first k calls (exit class, per-bucket query results) — compared with [recover (crash_img k)]. *)
From Coq Require Import ZArith NArith List Bool.
From Coq.Strings Require Import Byte.
Import ListNotations.
Require Import MS.Base.Res MS.Base.Hex MS.Generated.Src_durab MS.Model.Wal MS.Model.Replay MS.Model.PowerLoss MS.Corr.Common.
Local Open Scope Z_scope.

(* ------------------------------------------------------------------ decidable equalities (computational) *)
Fixpoint list_eqb {A} (f : A -> A -> bool) (a b : list A) : bool :=
  match a, b with
  | [], [] => true
  | x :: a', y :: b' => f x y && list_eqb f a' b'
  | _, _ => false
  end.
Definition records_eqb := list_eqb bytes_eqb.
Definition cmd_eqb (a b : cmd) : bool :=
  rkind_eqb (c_kind a) (c_kind b) && N.eqb (c_fid a) (c_fid b) && (c_off a =? c_off b) && (c_index a =? c_index b)
  && records_eqb (c_data a) (c_data b) && (c_vrl a =? c_vrl b) && (c_meta a =? c_meta b).
Definition wrec_eqb (a b : wrec) : bool :=
  match a, b with
  | RTxn t d s, RTxn t' d' s' => (t =? t') && (d =? d') && (s =? s')
  | RMid, RMid => true
  | RLen n, RLen n' => n =? n'
  | RBody t cs, RBody t' cs' => (t =? t') && list_eqb cmd_eqb cs cs'
  | RSum o, RSum o' => Bool.eqb o o'
  | _, _ => false
  end.
Definition event_eqb (a b : event) : bool :=
  match a with
  | ECat => match b with ECat => true | _ => false end
  | ESync => match b with ESync => true | _ => false end
  | EOther => false
  | ECreate f k s => match b with ECreate f' k' s' => N.eqb f f' && rkind_eqb k k' && (s =? s') | _ => false end
  | EFileNew f => match b with EFileNew f' => N.eqb f f' | _ => false end
  | EFileDel f => match b with EFileDel f' => N.eqb f f' | _ => false end
  | EFileHdr f k => match b with EFileHdr f' k' => N.eqb f f' && rkind_eqb k k' | _ => false end
  | EWalCreate w => match b with EWalCreate w' => N.eqb w w' | _ => false end
  | EWalFsync w => match b with EWalFsync w' => N.eqb w w' | _ => false end
  | EWalTrunc w => match b with EWalTrunc w' => N.eqb w w' | _ => false end
  | EWalUnlink w => match b with EWalUnlink w' => N.eqb w w' | _ => false end
  | EWalRename w => match b with EWalRename w' => N.eqb w w' | _ => false end
  | EWalStatus w a1 b1 c1 =>
      match b with EWalStatus w' a2 b2 c2 => N.eqb w w' && (a1 =? a2) && (b1 =? b2) && (c1 =? c2) | _ => false end
  | EWalApp w r => match b with EWalApp w' r' => N.eqb w w' && wrec_eqb r r' | _ => false end
  | EPW f o i p =>
      match b with EPW f' o' i' p' => N.eqb f f' && (o =? o') && (i =? i') && bytes_eqb p p' | _ => false end
  | EVData f o l c =>
      match b with EVData f' o' l' c' => N.eqb f f' && (o =? o') && (l =? l') && records_eqb c c' | _ => false end
  | EVIndex f s i o l =>
      match b with
      | EVIndex f' s' i' o' l' => N.eqb f f' && (s =? s') && (i =? i') && (o =? o') && (l =? l')
      | _ => false end
  | EAck i => match b with EAck j => Nat.eqb i j | _ => false end
  end.

(** index of the first position where two event lists differ (None = equal) *)
Fixpoint first_diff (a b : list event) (i : nat) : option nat :=
  match a, b with
  | [], [] => None
  | x :: a', y :: b' => if event_eqb x y then first_diff a' b' (S i) else Some i
  | _, _ => Some i
  end.

(* ------------------------------------------------------------------ cases *)

(** what the real recovery reported for one bucket: 0 = no year file of it exists, 1 = rows,
    2 = query error, 3 = not compared, 4 = the query killed the server process (log.Fatal) *)
Record bobs := { bo_code : nat; bo_rows : list (fid * Z * record) }.

Record obs := {
  o_k : nat;                 (* crash prefix: number of recorded events applied *)
  o_class : nat;             (* 0 ok, 1 start-up error (internal/di panics), 2 run-time panic *)
  o_buckets : list bobs      (* in the order of [k_buckets] *)
}.

(** C34: the REAL recovery of the image of prefix [d_k1], itself traced ([d_rtrace]), and what a second
    recovery (WAL number [d_own3]) did on the image "first d_k1 calls of the run + first j calls of the
    first recovery" for the prefixes j listed in [d_obs] ([o_k] = j) *)
Record dbl := { d_k1 : nat; d_own3 : wid; d_rtrace : list event; d_obs : list obs }.

(** C04: the real recovery on the image of prefix [o_k p_obs] with the writes at positions [p_drop] lost *)
Record plobs := { p_drop : list nat; p_obs : obs }.

Record case := {
  k_tgid0 : Z;                         (* first TG id (time.Now() of the run) *)
  k_owner : Z; k_owner2 : Z;           (* instance ids of the traced run and of the recovering run *)
  k_own2 : wid;                        (* WAL number of the recovering run *)
  k_buckets : list (list fid);         (* year files of every bucket, in year order *)
  k_clen : list (list record * Z);     (* stored length of every block the real encoder produced *)
  k_sched : list sev;
  k_trace : list event;
  k_obs : list obs;
  k_double : list dbl;
  k_pl : list plobs
}.

(** Stored length of a block: the real encoder's length when the harness recorded one for this content;
    otherwise (blocks that only the RECOVERY writes, whose bytes the harness does not see in C01-C03) a
    positive stand-in.  Recovered rows do not depend on the value: a block is only ever read back through
    the index triple written together with it, and "is the last block of the file" does not depend on
    how long the blocks are.  C34 records the recovery's own system calls and uses the real lengths. *)
Definition clen_of (tbl : list (list record * Z)) (x : list record) : Z :=
  match find (fun e => records_eqb (fst e) x) tbl with
  | Some e => snd e
  | None => 1 + Z.of_nat (length (concat x))
  end.

Definition rows_eqb (a b : list (fid * Z * record)) : bool :=
  list_eqb (fun x y => N.eqb (fst (fst x)) (fst (fst y)) && (snd (fst x) =? snd (fst y)) && bytes_eqb (snd x) (snd y)) a b.

Definition bucket_present (im : img) (fs : list fid) : bool :=
  existsb (fun f => match alookup f (i_files im) with Some _ => true | None => false end) fs.

Definition bobs_ok (im : img) (fs : list fid) (o : bobs) : bool :=
  match bo_code o with
  | 3%nat => true
  | 0%nat => negb (bucket_present im fs)
  | 1%nat => bucket_present im fs && match bucket_rows im fs with QRows r => rows_eqb r (bo_rows o) | _ => false end
  | 2%nat => bucket_present im fs && match bucket_rows im fs with QErr => true | _ => false end
  | 4%nat => bucket_present im fs && match bucket_rows im fs with QFatal => true | _ => false end
  | _ => false
  end.

Fixpoint all2 {A B} (f : A -> B -> bool) (a : list A) (b : list B) : bool :=
  match a, b with
  | [], [] => true
  | x :: a', y :: b' => f x y && all2 f a' b'
  | _, _ => false
  end.

Definition model_class (o : outcome) : nat := match o with StartOk => 0 | StartError => 1 end.

Definition obs_ok (k : case) (o : obs) : bool :=
  let cl := clen_of (k_clen k) in
  let im := crash_img (k_trace k) (o_k o) in
  let '(evs, out) := recover cl (k_own2 k) (k_owner2 k) im in
  Nat.eqb (model_class out) (o_class o)
  && match out with
     | StartOk => all2 (bobs_ok (apply_events im evs)) (k_buckets k) (o_buckets o)
     | StartError => true
     end.

(** The acknowledgement markers are written by the WRITER goroutine; in background mode the loop goroutine's
    system calls can fall between a request's last primary write and its marker.  Markers change neither the
    image nor the committed set, so the traces are compared without them (their relative order must agree);
    the row-level oracle on the real code uses the markers' recorded positions. *)
Definition is_ack (e : event) : bool := match e with EAck _ => true | _ => false end.
Definition strip_acks (tr : list event) : list event := filter (fun e => negb (is_ack e)) tr.
Definition acks_of (tr : list event) : list event := filter is_ack tr.

(** trace validation: the model generates exactly the recorded event sequence *)
Definition trace_ok (k : case) : bool :=
  match run (clen_of (k_clen k)) 0%N (k_owner k) (k_tgid0 k) (k_sched k) with
  | Ok tr => match first_diff (strip_acks tr) (strip_acks (k_trace k)) 0 with None => true | Some _ => false end
             && match first_diff (acks_of tr) (acks_of (k_trace k)) 0 with None => true | Some _ => false end
  | _ => false
  end.

(** double crash: the model's recovery issues exactly the recorded calls, and a second recovery on every
    explored prefix of them behaves like the real one *)
Definition dbl_ok (k : case) (d : dbl) : bool :=
  let cl := clen_of (k_clen k) in
  let im1 := crash_img (k_trace k) (d_k1 d) in
  let '(evs, _) := recover cl (k_own2 k) (k_owner2 k) im1 in
  match first_diff evs (d_rtrace d) 0 with None => true | Some _ => false end
  && forallb (fun o =>
       let im2 := apply_events im1 (firstn (o_k o) (d_rtrace d)) in
       let '(evs2, out2) := recover cl (d_own3 d) 3333 im2 in
       Nat.eqb (model_class out2) (o_class o)
       && match out2 with
          | StartOk => all2 (bobs_ok (apply_events im2 evs2)) (k_buckets k) (o_buckets o)
          | StartError => true
          end) (d_obs d).

(** power loss: the model's recovery on the power-loss image behaves like the real one.  Images in which a
    write to a VARIABLE-length file is lost are not compared: index and data are then inconsistent in ways
    (short blocks, a block re-created where a stale index points) that the block-level abstraction of snappy
    does not describe; what the real code does there is reported by the oracle (finding class
    powerloss-variable-write-lost), and the one pattern the refutation theorem uses (data lost, index kept,
    nothing else) is replayed from the corpus. *)
Definition drop_fn (l : list nat) (i : nat) : bool := existsb (Nat.eqb i) l.
Definition drops_no_variableb (tr : list event) (kk : nat) (drop : nat -> bool) : bool :=
  forallb (fun i => match nth_error tr i with
                    | Some (EVData _ _ _ _) | Some (EVIndex _ _ _ _ _) => negb (drop i)
                    | _ => true end) (seq 0 kk).

Definition pl_ok (k : case) (p : plobs) : bool :=
  let cl := clen_of (k_clen k) in
  let o := p_obs p in
  let im := PowerLoss.pl_img (k_trace k) (o_k o) (drop_fn (p_drop p)) in
  let '(evs, out) := recover cl (k_own2 k) (k_owner2 k) im in
  negb (drops_no_variableb (k_trace k) (o_k o) (drop_fn (p_drop p)))
  || (Nat.eqb (model_class out) (if Nat.eqb (o_class o) 0 then 0 else 1)%nat
      && match out with
         | StartOk => all2 (bobs_ok (apply_events im evs)) (k_buckets k) (o_buckets o)
         | StartError => true
         end).

Definition agrees (k : case) : bool :=
  trace_ok k && forallb (obs_ok k) (k_obs k) && forallb (dbl_ok k) (k_double k) && forallb (pl_ok k) (k_pl k).

(** diagnostics for the driver: where the trace first differs / which prefixes disagree *)
Definition trace_diff (k : case) : option nat :=
  match run (clen_of (k_clen k)) 0%N (k_owner k) (k_tgid0 k) (k_sched k) with
  | Ok tr => first_diff (strip_acks tr) (strip_acks (k_trace k)) 0
  | _ => Some 0%nat
  end.
Definition bad_prefixes (k : case) : list nat :=
  map o_k (filter (fun o => negb (obs_ok k o)) (k_obs k)).

(* ------------------------------------------------------------------ the theorems' hypotheses and conclusions,
   evaluated on the cases (the driver checks in_domain k -> model_prop k on every case) *)
Require Import MS.Proofs.Durable_files MS.Proofs.Durable_exec MS.Proofs.Durable_recover MS.Proofs.Durable_sem
  MS.Proofs.Durable_crash MS.Proofs.Durable_inv MS.Proofs.Durable_steps3 MS.Proofs.Durable_props.

(** hypothesis of the guarded theorems: the schedule is well formed (files exist with the right record type,
    variable commands address index-area slots with a non-zero index, catalog calls create fresh files) *)
Definition in_domain (k : case) : bool :=
  wf_sched (clen_of (k_clen k)) (k_owner k) (k_tgid0 k) (k_sched k)
  && negb (k_owner k =? 0) && (0 <? k_tgid0 k) && trace_ok k.

Definition opt_eqb (a b : option (Z * record)) : bool :=
  match a, b with
  | None, None => true
  | Some (i, p), Some (i', p') => (i =? i') && bytes_eqb p p'
  | _, _ => false
  end.

Definition rec_in (r : record) (l : list record) : bool := existsb (bytes_eqb r) l.
Definition is_var (c : cmd) : bool := rkind_eqb (c_kind c) KVar.

Section Props.
  Variable k : case.
  Let cl := clen_of (k_clen k).
  Let tr := k_trace k.

  Definition rec_files (n : nat) : files := recovered_files cl (k_owner2 k) tr n.
  Definition model_start_ok (n : nat) : bool :=
    match snd (recover cl (k_own2 k) (k_owner2 k) (crash_img tr n)) with StartOk => true | StartError => false end.

  (** C03 on the model at crash point n *)
  Definition c03_at (n : nat) : bool :=
    model_start_ok n
    && forallb (fun b => match bucket_rows (recovered cl (k_own2 k) (k_owner2 k) (crash_img tr n)) b with
                         | QRows _ => true | _ => false end) (k_buckets k).

  (** C01 on the model: every committed fixed slot holds the last committed value, every record of every
      committed variable command is in its interval *)
  Definition c01_at (n : nat) : bool :=
    let cs := cmds_of (committed tr n) in
    let fs' := rec_files n in
    model_start_ok n
    && forallb (fun c => if is_var c
                         then forallb (fun r => rec_in r (content fs' (c_fid c) (c_off c))) (c_data c)
                         else opt_eqb (fx_get fs' (c_fid c) (c_off c)) (lastw cs (c_fid c) (c_off c))) cs.

  (** C02 on the model: fixed slots exactly the committed values; variable intervals exactly the committed
      records when no variable command had to be replayed *)
  Definition c02_at (n : nat) : bool :=
    let cs := cmds_of (committed tr n) in
    let fs' := rec_files n in
    model_start_ok n
    && forallb (fun c => if is_var c
                         then (existsb is_var (cmds_of (unchecked tr n)))
                              || records_eqb (content fs' (c_fid c) (c_off c)) (ct_after cs [] (c_fid c) (c_off c))
                         else opt_eqb (fx_get fs' (c_fid c) (c_off c)) (lastw cs (c_fid c) (c_off c))) cs.
End Props.

Definition c03_prop (k : case) : bool :=
  forallb (fun o => implb (guard_crash (k_trace k) (o_k o)) (c03_at k (o_k o))) (k_obs k).
Definition c01_prop (k : case) : bool :=
  forallb (fun o => implb (guard_window (k_trace k) (o_k o)) (c01_at k (o_k o))) (k_obs k).
Definition c02_prop (k : case) : bool :=
  forallb (fun o => implb (guard_window (k_trace k) (o_k o)) (c02_at k (o_k o))) (k_obs k).

(** C05: no commit lost (= C01's conclusion) and the ids of the replayed TGs ascend *)
Fixpoint ascending (l : list Z) : bool :=
  match l with
  | a :: ((b :: _) as r) => (a <? b) && ascending r
  | _ => true
  end.
Definition c05_prop (k : case) : bool :=
  forallb (fun o => implb (guard_window (k_trace k) (o_k o))
                          (c01_at k (o_k o) && ascending (map fst (unchecked (k_trace k) (o_k o))))) (k_obs k).

(** C35: the schedule ends with a shutdown; on the final image nothing is replayed and every bucket's query
    returns what it returned on the final image itself *)
Definition qres_eqb (a b : qres) : bool :=
  match a, b with
  | QRows r, QRows r' => rows_eqb r r'
  | QErr, QErr | QFatal, QFatal => true
  | _, _ => false
  end.
Definition ends_with_shutdown (s : list sev) : bool :=
  match rev s with SShutdown _ :: _ => true | _ => false end.
Definition c35_prop (k : case) : bool :=
  let n := length (k_trace k) in
  let im := crash_img (k_trace k) n in
  let cl := clen_of (k_clen k) in
  ends_with_shutdown (k_sched k)
  && model_start_ok k n
  && match unchecked (k_trace k) n with [] => true | _ => false end
  && forallb (fun b => qres_eqb (bucket_rows (recovered cl (k_own2 k) (k_owner2 k) im) b) (bucket_rows im b)) (k_buckets k).

(** C34: after the first recovery only the new WAL exists; the first recovery's unlink comes last for the old
    WAL; a second start-up on the completed image replays nothing (files unchanged) *)
Definition c34_prop (k : case) : bool :=
  forallb (fun d =>
    let cl := clen_of (k_clen k) in
    let im1 := crash_img (k_trace k) (d_k1 d) in
    implb (guard_crash (k_trace k) (d_k1 d))
      (let '(evs, out) := recover cl (k_own2 k) (k_owner2 k) im1 in
       let im2 := apply_events im1 evs in
       match out with StartOk => true | StartError => false end
       && list_eqb N.eqb (map fst (i_wals im2)) [k_own2 k]
       && (let '(evs3, out3) := recover cl (d_own3 d) 3333 im2 in
           match out3 with StartOk => true | StartError => false end
           && forallb (fun b => qres_eqb (bucket_rows (apply_events im2 evs3) b) (bucket_rows im2 b)) (k_buckets k))))
    (k_double k).

(** C04: the guarded statement that is NOT proved (Properties/C04.v C04_guarded_full), evaluated on the model
    for every explored power-loss image: no variable write lost, crash point outside the windows =>
    the model's recovery succeeds and shows every committed fixed value *)
Definition c04_prop (k : case) : bool :=
  forallb (fun p =>
    let cl := clen_of (k_clen k) in
    let n := o_k (p_obs p) in
    let drop := drop_fn (p_drop p) in
    implb (guard_crash (k_trace k) n && suffix_closed (k_trace k) n drop && drops_no_variableb (k_trace k) n drop)
          (match snd (recover cl (k_own2 k) (k_owner2 k) (pl_img (k_trace k) n drop)) with StartOk => true | _ => false end))
    (k_pl k).
