package props

import (
	"encoding/json"
	"fmt"
	"time"

	"github.com/alpacahq/marketstore/v4/utils"
	"github.com/alpacahq/marketstore/v4/utils/io"

	"verifharness/internal/cq"
	"verifharness/internal/rng"
	"verifharness/internal/tzd"
)

// C30 — Interval indexing is a bijection onto a year's slots.
// Implementation under test: io.TimeToIndex / IndexToTime / IndexToOffset / TimeToOffset /
// EpochToIndex / EpochToOffset (utils/io/timeindex.go) and io.FileSize (utils/io/metadata.go), run
// with utils.InstanceConfig.Timezone = Zone and time.Local = Local.

type c30In struct {
	Zone  string `json:"zone"`  // configured zone: IANA name | "UTC" | "fixed:<seconds>"
	Local string `json:"local"` // time.Local
	TF    int64  `json:"tf"`    // timeframe, nanoseconds
	Sec   int64  `json:"sec"`   // the instant t
	Nsec  int64  `json:"nsec"`
	Delta int64  `json:"delta"` // second instant t2 = t + Delta ns
	Rec   int32  `json:"rec"`   // record size
	Index int64  `json:"index"` // an arbitrary index for IndexToTime
}

var c30Zones = []string{"UTC", "America/New_York", "Europe/London", "Asia/Tokyo", "Australia/Sydney", "Asia/Kolkata",
	"America/Sao_Paulo", "Europe/Moscow", "Pacific/Apia", "Asia/Kathmandu", "Pacific/Kiritimati", "America/Caracas",
	"Australia/Lord_Howe", "Africa/Cairo", "fixed:3600", "fixed:-18000", "fixed:20700", "fixed:0"}

// (zone, year) pairs where the zone's offset differs between the two ends of the year or changes at the edge
var c30Irregular = []struct {
	z string
	y int
}{{"Europe/Moscow", 2014}, {"Europe/Moscow", 2011}, {"Pacific/Apia", 2011}, {"Pacific/Kiritimati", 1994}, {"Pacific/Kiritimati", 1995},
	{"America/Caracas", 2007}, {"America/Caracas", 2016}, {"Asia/Kathmandu", 1986}, {"Asia/Kolkata", 1941}, {"Europe/London", 1968},
	{"Europe/London", 1971}, {"America/Sao_Paulo", 2019}, {"Asia/Tokyo", 1951}}

var c30RecSizes = []int32{8, 12, 16, 24, 32, 40, 56, 104, 1, 7}

func c30TFs() []int64 {
	var l []int64
	for _, tf := range utils.Timeframes {
		l = append(l, int64(tf.Duration))
	}
	return l
}

func c30Gen(r *rng.Rand, i int, tier string) interface{} {
	in := c30In{}
	in.Zone = c30Zones[r.Intn(len(c30Zones))]
	switch k := r.Intn(10); {
	case k < 6:
		in.Local = in.Zone
	case k < 8:
		in.Local = "UTC"
	default:
		in.Local = c30Zones[r.Intn(len(c30Zones))]
	}
	tfs := c30TFs()
	in.TF = tfs[r.Intn(len(tfs))]
	if r.Chance(25) {
		in.TF = int64(utils.Day) // the daily special case is a quarter of all cases
	}
	if r.Chance(6) { // unsupported timeframes: model validation only
		in.TF = []int64{0, 7 * 60e9, 1, 1e6, 45 * 60e9, 7 * 86400e9, 3 * 3600e9, 11e9, -60e9}[r.Intn(9)]
	}
	in.Rec = c30RecSizes[r.Intn(len(c30RecSizes))]
	year := 1990 + r.Intn(60)
	switch k := r.Intn(10); {
	case k == 0:
		year = 1970 + r.Intn(292)
	case k == 1:
		year = []int{1970, 1972, 2000, 2100, 2038, 2037, 2261, 2200, 2400 - 200}[r.Intn(9)]
	case k == 2:
		p := c30Irregular[r.Intn(len(c30Irregular))]
		in.Zone, year = p.z, p.y
		if r.Bool() {
			in.Local = in.Zone
		}
	}
	loc, err := tzd.Load(in.Zone)
	if err != nil {
		loc = time.UTC
		in.Zone = "UTC"
	}
	y0 := time.Date(year, 1, 1, 0, 0, 0, 0, loc)
	y1 := time.Date(year+1, 1, 1, 0, 0, 0, 0, loc)
	var t time.Time
	small := []int64{0, 1, -1, 1e9, -1e9, 1e9 - 1, 3600e9, -3600e9, 3600e9 - 1, -3600e9 - 1, 86400e9, -86400e9, 86400e9 - 1, in.TF, -in.TF, in.TF - 1, in.TF + 1}
	pickSmall := func() time.Duration { return time.Duration(small[r.Intn(len(small))]) }
	switch k := r.Intn(12); {
	case k < 3: // year start edge
		t = y0.Add(pickSmall())
	case k < 6: // year end edge
		t = y1.Add(pickSmall())
	case k < 7: // leap day region
		t = time.Date(year, 2, 28+r.Intn(3), r.Intn(24), r.Intn(60), r.Intn(60), r.Intn(1e9), loc).Add(pickSmall())
	case k < 10: // a zone transition of that year +- small
		tr := tzd.Transitions(loc, y0.Unix()-86400, y1.Unix()+86400)
		if len(tr) > 0 {
			t = time.Unix(tr[r.Intn(len(tr))], 0).Add(pickSmall())
		} else {
			t = y0.Add(time.Duration(r.Range(0, 365*86400)) * time.Second).Add(time.Duration(r.Intn(1e9)))
		}
	case k < 11: // local midnight +- small
		t = time.Date(year, time.Month(1+r.Intn(12)), 1+r.Intn(28), 0, 0, 0, 0, loc).Add(pickSmall())
	default:
		t = y0.Add(time.Duration(r.Range(0, 366*86400)) * time.Second).Add(time.Duration(r.Intn(1e9)))
	}
	in.Sec, in.Nsec = t.Unix(), int64(t.Nanosecond())
	switch k := r.Intn(6); {
	case k == 0:
		in.Delta = int64(pickSmall())
	case k == 1:
		in.Delta = in.TF
	case k == 2:
		in.Delta = r.Range(-2*86400e9, 2*86400e9)
	case k == 3:
		if in.TF > 0 {
			in.Delta = r.Range(-in.TF, in.TF)
		}
	default:
		in.Delta = r.Range(0, 1e9)
	}
	// arbitrary index: mostly inside the year's slot range, sometimes just outside
	n := int64(366)
	if in.TF > 0 && in.TF != int64(utils.Day) {
		n = 366 * 86400e9 / in.TF
	}
	switch k := r.Intn(8); {
	case k == 0:
		in.Index = r.Range(-3, 3)
	case k == 1:
		in.Index = n + r.Range(-400, 3)
	default:
		in.Index = r.Range(1, n)
	}
	return in
}

type c30Obs struct {
	Code int      `json:"code"`
	Vals []string `json:"vals"`
}

func c30IsTimeframe(tf int64) bool {
	for _, x := range utils.Timeframes {
		if int64(x.Duration) == tf {
			return true
		}
	}
	return false
}

// yearOK mirrors TimeIndex.year_okb on a dumped table: both ends of the year regular, same offset.
func c30YearOK(tb tzd.Table, year int) bool {
	l0 := time.Date(year, 1, 1, 0, 0, 0, 0, time.UTC).Unix()
	l1 := time.Date(year+1, 1, 1, 0, 0, 0, 0, time.UTC).Unix()
	o0, o1 := tb.DayOff(l0/86400), tb.DayOff(l1/86400)
	okb := func(o int64) bool { return -86400 <= o && o <= 86400 }
	return tb.CrossOK(l0) && tb.CrossOK(l1) && okb(o0) && okb(o1) && o0 == o1
}

func c30Run(raw json.RawMessage) (res Result, err error) {
	var in c30In
	if err = json.Unmarshal(raw, &in); err != nil {
		return
	}
	zone, err := tzd.Load(in.Zone)
	if err != nil {
		return res, err
	}
	local, err := tzd.Load(in.Local)
	if err != nil {
		return res, err
	}
	saveZ, saveL := utils.InstanceConfig.Timezone, time.Local
	utils.InstanceConfig.Timezone, time.Local = zone, local
	defer func() { utils.InstanceConfig.Timezone, time.Local = saveZ, saveL }()

	t := time.Unix(in.Sec, in.Nsec)
	t2 := t.Add(time.Duration(in.Delta))
	tf := time.Duration(in.TF)
	yearI := t.In(zone).Year()
	year := int16(yearI)
	year2 := t2.In(zone).Year()
	const win = 3 * 366 * 86400
	ztab := tzd.Dump(zone, in.Sec-win, in.Sec+win)
	ltab := tzd.Dump(local, in.Sec-win, in.Sec+win)

	obs := c30Obs{}
	var idx, idx2, back, off, t2o, e2i, e2o, fsize, backX int64
	var i2t, i2t1, i2tX time.Time
	func() {
		defer func() {
			if p := recover(); p != nil {
				obs.Code = 2
			}
		}()
		idx = io.TimeToIndex(t, tf)
		i2t = io.IndexToTime(idx, tf, year)
		i2t1 = io.IndexToTime(idx+1, tf, year)
		back = io.TimeToIndex(i2t, tf)
		idx2 = io.TimeToIndex(t2, tf)
		off = io.IndexToOffset(idx, in.Rec)
		t2o = io.TimeToOffset(t, tf, in.Rec)
		e2i = io.EpochToIndex(in.Sec, tf)
		e2o = io.EpochToOffset(in.Sec, tf, in.Rec)
		fsize = io.FileSize(tf, int(year), int(in.Rec))
		i2tX = io.IndexToTime(in.Index, tf, year)
		backX = io.TimeToIndex(i2tX, tf)
	}()
	var vals []string
	if obs.Code == 0 {
		vals = []string{cq.Z(int64(yearI)), cq.Z(idx), tzd.Nanos(i2t), tzd.Nanos(i2t1), cq.Z(back), cq.Z(int64(year2)), cq.Z(idx2),
			cq.Z(off), cq.Z(t2o), cq.Z(e2i), cq.Z(e2o), cq.Z(fsize), tzd.Nanos(i2tX), cq.Z(backX)}
	}
	obs.Vals = vals
	res.Obs = obs
	res.Coq = cq.Rec(cq.F("k_z", ztab.Coq()), cq.F("k_loc", ltab.Coq()), cq.F("k_tf", cq.Z(in.TF)),
		cq.F("k_t", tzd.Nanos(t)), cq.F("k_t2", tzd.Nanos(t2)), cq.F("k_rec", cq.Z(int64(in.Rec))), cq.F("k_index", cq.Z(in.Index)),
		cq.F("k_code", cq.Nat(obs.Code)), cq.F("k_obs", cq.List(vals)))

	// ---- guards (executable mirrors of Corr/C30.in_domain) ----
	isTF := c30IsTimeframe(in.TF)
	isDay := in.TF == int64(utils.Day)
	yearsOK := yearI >= 1970 && yearI <= 2261
	zoneOK := c30YearOK(ztab, yearI)
	localOK := c30YearOK(ltab, yearI)
	dayOK := false
	if isDay && obs.Code == 0 {
		// local midnights bounding t's calendar day are regular
		lsec := in.Sec + ztab.OffsetAt(in.Sec)
		d := lsec / 86400
		if lsec < 0 && lsec%86400 != 0 {
			d--
		}
		dayOK = ztab.CrossOK(d*86400) && ztab.CrossOK((d+1)*86400)
	}
	switch {
	case !isTF || !yearsOK || in.Rec <= 0:
		res.InDomain = false
	case isDay:
		res.InDomain = zoneOK && localOK && dayOK
	default:
		res.InDomain = zoneOK && localOK
	}
	// ---- property oracle on the implementation's outputs (supported timeframes only) ----
	res.Holds = true
	if isTF && yearsOK && in.Rec > 0 && obs.Code == 0 {
		fail := func(cl, f string, a ...interface{}) {
			if res.Holds {
				res.Holds, res.Class, res.Detail = false, cl, fmt.Sprintf(f, a...)
			}
		}
		classTime := ""
		switch {
		case !zoneOK:
			classTime = "year-irregular-zone"
		case isDay && !dayOK:
			classTime = "daily-irregular-midnight"
		}
		if i2t.After(t) || !t.Before(i2t1) {
			fail(classTime, "t=%v not in [IndexToTime(%d)=%v, IndexToTime(%d)=%v)", t.In(zone), idx, i2t, idx+1, i2t1)
		}
		if back != idx {
			fail(classTime, "TimeToIndex(IndexToTime(%d)=%v) = %d", idx, i2t, back)
		}
		if year2 == yearI {
			same := !i2t.After(t2) && t2.Before(i2t1)
			if same != (idx2 == idx) {
				fail(classTime, "t2=%v: same interval=%v but indices %d vs %d", t2.In(zone), same, idx, idx2)
			}
		}
		if t2o != off || e2o != io.IndexToOffset(e2i, in.Rec) {
			fail("", "TimeToOffset/EpochToOffset inconsistent with IndexToOffset")
		}
		classSlot := ""
		switch {
		case isDay && idx == 0:
			classSlot = "daily-jan1-slot0"
		case !zoneOK || !localOK:
			classSlot = "year-irregular-zone"
		}
		if off < io.Headersize || off+int64(in.Rec) > fsize {
			fail(classSlot, "slot %d at offset %d (+%d) outside data area [%d, %d)", idx, off, in.Rec, io.Headersize, fsize)
		}
	}
	res.Tags = []string{"zone:" + in.Zone, fmt.Sprintf("tf:%d", in.TF), fmt.Sprintf("code=%d", obs.Code)}
	if in.Local != in.Zone {
		res.Tags = append(res.Tags, "local-differs")
	}
	if res.InDomain {
		res.Tags = append(res.Tags, "in-domain")
	} else {
		res.Tags = append(res.Tags, "outside-domain")
	}
	if !zoneOK || !localOK {
		res.Tags = append(res.Tags, "year-irregular")
	}
	if len(ztab.Trans) > 0 {
		res.Tags = append(res.Tags, "zone-with-transitions")
	}
	res.Nontrivial = res.InDomain
	res.Key = string(raw)
	return res, nil
}

func init() {
	Register(&Spec{
		ID:          "C30",
		CoqRequire:  "Require Import MS.Corr.C30.",
		CoqCaseType: "C30.case",
		Rule: "18 zones (IANA incl. southern-hemisphere DST, half-hour/45-min offsets, date-line and standard-offset changes, fixed offsets) as " +
			"InstanceConfig.Timezone, time.Local equal/UTC/other; all utils.Timeframes (1D a quarter) plus ~6% unsupported durations (0, negative, " +
			"non-dividing); instants at year edges, leap days, zone transitions and local midnights +-{0,1ns,1s,1h,1d,tf}; years 1970-2261 " +
			"(mostly 1990-2049, plus known irregular (zone,year) pairs); a second instant t+delta and an arbitrary index; distinct = distinct " +
			"input JSON; non-trivial = inside the guarded theorem's domain",
		Gen: c30Gen,
		Run: c30Run,
	})
}
