package props

import (
	"encoding/json"
	"fmt"
	"io"
	"os"
	"strings"
	"sync"
	"sync/atomic"
	"time"

	"github.com/alpacahq/marketstore/v4/executor"
	"github.com/alpacahq/marketstore/v4/executor/wal"
	"github.com/alpacahq/marketstore/v4/utils"
	msio "github.com/alpacahq/marketstore/v4/utils/io"

	"verifharness/internal/cq"
	"verifharness/internal/rng"
	"verifharness/internal/schedx"
)

// C18 — Concurrent writes and queries are safe and read-committed.
//
// Implementation under test: the primary write path (Writer.WriteCSM -> FlushToWAL -> writePrimary ->
// WriteBufferToFile / WriteBufferToFileIndirect) against real queries (QueryService.ExecuteQuery ->
// executor.Reader first/second stage).
//
// Forced window without editing tracked files ("external drive"): executor.WriteBufferToFileIndirect is
// exported and takes an io.ReadWriteSeeker.  For a split write the harness
//   1. obtains the exact OffsetIndexBuffer the real writer would apply, by running the same
//      Writer.WriteCSM on a shadow instance and capturing the TG's write set in ReplicationSender.Send;
//   2. opens the REAL bucket file of the instance under test and calls the REAL
//      WriteBufferToFileIndirect on it through a ReadWriteSeeker wrapper that stops after the first
//      Write (the data block) — exactly the point of writer.go:238, before the index Write of l.257;
//   3. runs REAL queries there, then lets the index Write happen.
// The reader's two stages cannot be separated from outside (a query is one call), so recorded schedules
// always have RIdx r immediately followed by RData r; the other half of the window (data write between a
// reader's index read and its data read) is covered by the theorem only (proposed_fixes/C18_hookpoints.patch).
// A statistical mode ("race": real loop, one writer appending to one slot, reader goroutines querying)
// searches for the same window without any forcing.

type c18Op struct {
	Op    string `json:"op"` // vwrite | vsplit | vread | fwrite | fread
	Slot  int    `json:"slot"`
	Recs  []int  `json:"recs,omitempty"`
	V     int    `json:"v,omitempty"`
	Reads []int  `json:"reads,omitempty"`
}
type c18In struct {
	Mode   string  `json:"mode"` // forced | race
	Comp   bool    `json:"comp"`
	NSlots int     `json:"nslots"`
	Ops    []c18Op `json:"ops"`
	Ms     int     `json:"ms,omitempty"`
}

func c18Gen(r *rng.Rand, i int, tier string) interface{} {
	in := c18In{Mode: "forced", Comp: r.Chance(60), NSlots: 1 + r.Intn(3)}
	kind := r.Intn(100)
	if kind >= 92 {
		in.Mode = "race"
		in.Comp = true
		in.NSlots = 1
		in.Ms = 200
		if tier == "thorough" {
			in.Ms = 1500
		}
		return in
	}
	next := 1 // record ids: distinct, < 60; mostly ascending but sometimes an earlier tick
	used := map[int]bool{}
	fresh := func() int {
		for {
			id := next
			if r.Chance(30) {
				id = 1 + r.Intn(58)
			}
			if !used[id] && id < 60 {
				used[id] = true
				if id >= next {
					next = id + 1
				}
				return id
			}
			if next >= 59 {
				return 0
			}
			next++
		}
	}
	n := 3 + r.Intn(8)
	for j := 0; j < n; j++ {
		slot := r.Intn(in.NSlots)
		switch k := r.Intn(100); {
		case k < 30:
			recs := []int{}
			for c := 0; c < 1+r.Intn(2); c++ {
				if id := fresh(); id > 0 {
					recs = append(recs, id)
				}
			}
			if len(recs) > 0 {
				in.Ops = append(in.Ops, c18Op{Op: "vwrite", Slot: slot, Recs: recs})
			}
		case k < 55:
			if id := fresh(); id > 0 {
				op := c18Op{Op: "vsplit", Slot: slot, Recs: []int{id}}
				for c := 0; c < 1+r.Intn(2); c++ {
					op.Reads = append(op.Reads, r.Intn(in.NSlots))
				}
				if r.Chance(75) {
					op.Reads[0] = slot
				}
				in.Ops = append(in.Ops, op)
			}
		case k < 75:
			in.Ops = append(in.Ops, c18Op{Op: "vread", Slot: slot})
		case k < 90:
			in.Ops = append(in.Ops, c18Op{Op: "fwrite", Slot: slot, V: 1 + r.Intn(200)})
		default:
			in.Ops = append(in.Ops, c18Op{Op: "fread"})
		}
	}
	return in
}

// gateFP interposes on the writer's file: after the n-th Write it calls hook (once).
type gateFP struct {
	f      *os.File
	writes int
	after  int
	hook   func()
}

func (g *gateFP) Read(p []byte) (int, error)         { return g.f.Read(p) }
func (g *gateFP) Seek(o int64, w int) (int64, error) { return g.f.Seek(o, w) }
func (g *gateFP) Write(p []byte) (int, error) {
	n, err := g.f.Write(p)
	g.writes++
	if g.writes == g.after && g.hook != nil {
		h := g.hook
		g.hook = nil
		h()
	}
	return n, err
}

var _ io.ReadWriteSeeker = (*gateFP)(nil)

type c18run struct {
	in       c18In
	a        *schedx.Inst
	evs      []string
	enc      []byte
	vw       [][2]interface{}
	vwCoq    []string
	fwCoq    []string
	readers  []string
	nReaders int
	versions [][]string // per slot: committed versions (canonical strings)
	fwritten []map[int]bool
	holds    bool
	class    string
	detail   string
	sawCont  bool
	nSplit   int
	nWindow  int
}

func (c *c18run) ev(s string, b ...byte) {
	c.evs = append(c.evs, s)
	c.enc = append(c.enc, b...)
}

func idsKey(ids []int) string { return fmt.Sprint(ids) }

// triple reads slot's index triple {Index, Offset, Len} from the real bucket file.
func (c *c18run) triple(slot int) (index, off, ln int64) {
	f, err := os.Open(c.a.BucketFile(0))
	if err != nil {
		return
	}
	defer f.Close()
	idx := msio.TimeToIndex(time.Unix(schedx.BaseEpoch+int64(60*slot), 0).UTC(), time.Minute)
	var b [24]byte
	if _, err := f.ReadAt(b[:], msio.IndexToOffset(idx, 24)); err != nil {
		return
	}
	return msio.ToInt64(b[0:8]), msio.ToInt64(b[8:16]), msio.ToInt64(b[16:24])
}

func (c *c18run) fileSize() int64 {
	st, err := os.Stat(c.a.BucketFile(0))
	if err != nil {
		return 0
	}
	return st.Size()
}

// isCont evaluates the continuation test of writer.go:213-216 on the real file, before the write.
func (c *c18run) isCont(slot int) bool {
	_, off, ln := c.triple(slot)
	return off+ln == c.fileSize()
}

func (c *c18run) declWrite(slot int, recs []int) {
	var l []string
	for _, x := range recs {
		l = append(l, fmt.Sprint(x))
	}
	c.vwCoq = append(c.vwCoq, cq.Tuple(fmt.Sprint(slot), cq.List(l)))
}

func (c *c18run) commitVersion(slot int, recs []int, before []int) []int {
	// the committed content after this write, as the property defines it: old records plus the new ones
	all := append(append([]int{}, before...), recs...)
	for i := 1; i < len(all); i++ { // insertion sort by id (= tick order)
		for j := i; j > 0 && all[j] < all[j-1]; j-- {
			all[j], all[j-1] = all[j-1], all[j]
		}
	}
	c.versions[slot] = append(c.versions[slot], idsKey(all))
	return all
}

// query runs a real query of `slot`, records it as reader r and checks the property on the result.
func (c *c18run) query(slot int, inWindow bool, windowCont bool) {
	r := c.nReaders
	c.nReaders++
	c.readers = append(c.readers, cq.Tuple("true", fmt.Sprint(slot)))
	rows, err := c.a.QuerySlot(0, slot)
	c.ev(fmt.Sprintf("L (RIdx %d)", r), 3, byte(r))
	c.ev(fmt.Sprintf("L (RData %d)", r), 4, byte(r))
	b := []byte{16, byte(r), 0, byte(len(rows))}
	if err != nil {
		b[2], b[3] = 1, 0
		rows = nil
	}
	for _, x := range rows {
		b = append(b, byte(x))
	}
	c.ev(fmt.Sprintf("ORes %d %v %v", r, err != nil, rows), b...)
	// ---- the property on the implementation: error-free, and the rows are a committed version of the slot
	ok := err == nil
	if ok {
		ok = false
		for _, v := range c.versions[slot] {
			if v == idsKey(rows) || (len(rows) == 0 && v == "[]") {
				ok = true
			}
		}
	}
	if !ok && c.holds {
		c.holds = false
		if err != nil {
			c.detail = fmt.Sprintf("query of slot %d failed: %v", slot, err)
		} else {
			c.detail = fmt.Sprintf("query of slot %d returned %v, not a committed version (%v)", slot, rows, c.versions[slot])
		}
		// class = mirror of the Coq guard [no_cont]: the query ran between the data write and the index
		// write of an in-place continuation write
		if inWindow && windowCont {
			c.class = "continuation-write-window"
		}
	}
}

func c18Run(raw json.RawMessage) (res Result, err error) {
	var in c18In
	if err = json.Unmarshal(raw, &in); err != nil {
		return
	}
	res.Key = string(raw)
	if in.NSlots < 1 {
		in.NSlots = 1
	}
	old := utils.InstanceConfig.DisableVariableCompression
	utils.InstanceConfig.DisableVariableCompression = !in.Comp
	defer func() { utils.InstanceConfig.DisableVariableCompression = old }()
	if in.Mode == "race" {
		return c18Race(in, raw)
	}
	c := &c18run{in: in, holds: true}
	c.a, err = schedx.NewTypes([]bool{true, false}, false)
	if err != nil {
		return res, err
	}
	defer c.a.Close()
	executor.VerifHSetHave(false)
	var shadow *schedx.Inst
	defer func() {
		if shadow != nil {
			shadow.Close()
		}
	}()
	c.versions = make([][]string, in.NSlots)
	cur := make([][]int, in.NSlots)
	c.fwritten = make([]map[int]bool, in.NSlots)
	for i := range c.versions {
		c.versions[i] = []string{"[]"}
		c.fwritten[i] = map[int]bool{}
	}
	emitTriple := func(slot int) {
		idx, _, _ := c.triple(slot)
		p := byte(0)
		if idx != 0 {
			p = 1
		}
		c.ev(fmt.Sprintf("OTriple %d %v %d", slot, idx != 0, len(cur[slot])), 18, byte(slot), p, byte(len(cur[slot])))
	}
	for _, op := range in.Ops {
		if op.Slot < 0 || op.Slot >= in.NSlots {
			continue
		}
		switch op.Op {
		case "vwrite":
			if len(op.Recs) == 0 {
				continue
			}
			cont := c.isCont(op.Slot)
			func() {
				defer func() {
					if p := recover(); p != nil && c.holds {
						c.holds, c.detail = false, fmt.Sprintf("WriteCSM panicked: %v", p)
					}
				}()
				if e := c.a.W.WriteCSM(schedx.CSMVar(0, op.Slot, op.Recs), true); e != nil && c.holds {
					c.holds, c.detail = false, "WriteCSM: "+e.Error()
				}
			}()
			c.declWrite(op.Slot, op.Recs)
			cb := byte(0)
			if cont {
				cb = 1
				c.sawCont = true
			}
			c.ev(fmt.Sprintf("L (WData %v)", cont), 0, cb)
			c.ev("L WIdx", 1)
			cur[op.Slot] = c.commitVersion(op.Slot, op.Recs, cur[op.Slot])
			emitTriple(op.Slot)
		case "vsplit":
			if len(op.Recs) == 0 {
				continue
			}
			// 1. the buffer the real writer would apply, from a shadow instance
			if shadow == nil {
				shadow, err = schedx.NewTypes([]bool{true}, false)
				if err != nil {
					return res, err
				}
			}
			var wts []wal.WTSet
			shadow.S.OnSendRaw = func(w []wal.WTSet) {
				for _, x := range w {
					x.Buffer = append(wal.OffsetIndexBuffer{}, x.Buffer...)
					wts = append(wts, x)
				}
			}
			if e := shadow.W.WriteCSM(schedx.CSMVar(0, op.Slot, op.Recs), true); e != nil || len(wts) == 0 {
				return res, fmt.Errorf("shadow write failed: %v", e)
			}
			shadow.S.OnSendRaw = nil
			// 2. the real WriteBufferToFileIndirect on the real file, stopped after the data Write
			cont := c.isCont(op.Slot)
			fp, e := os.OpenFile(c.a.BucketFile(0), os.O_RDWR, 0o700)
			if e != nil {
				return res, e
			}
			c.declWrite(op.Slot, op.Recs)
			c.nSplit++
			for wi, wt := range wts {
				g := &gateFP{f: fp, after: 1}
				if wi == 0 {
					g.hook = func() {
						cb := byte(0)
						if cont {
							cb = 1
							c.sawCont = true
						}
						c.ev(fmt.Sprintf("L (WData %v)", cont), 0, cb)
						// 3. real queries inside the window
						for _, s := range op.Reads {
							if s >= 0 && s < in.NSlots {
								c.nWindow++
								c.query(s, s == op.Slot, cont)
							}
						}
					}
				}
				if e := executor.WriteBufferToFileIndirect(g, wt.Buffer, wt.VarRecLen); e != nil && c.holds {
					c.holds, c.detail = false, "WriteBufferToFileIndirect: "+e.Error()
				}
			}
			fp.Close()
			c.ev("L WIdx", 1)
			cur[op.Slot] = c.commitVersion(op.Slot, op.Recs, cur[op.Slot])
			emitTriple(op.Slot)
		case "vread":
			c.query(op.Slot, false, false)
		case "fwrite":
			if e := c.a.W.WriteCSM(schedx.CSMAt(1, op.Slot, op.V), false); e != nil && c.holds {
				c.holds, c.detail = false, "WriteCSM(fixed): "+e.Error()
			}
			c.fwCoq = append(c.fwCoq, cq.Tuple(fmt.Sprint(op.Slot), fmt.Sprint(op.V)))
			c.fwritten[op.Slot][op.V] = true
			c.ev("L FWrite", 2)
		case "fread":
			r := c.nReaders
			c.nReaders++
			c.readers = append(c.readers, cq.Tuple("false", "0"))
			vals, e := c.a.QueryAll(1, in.NSlots)
			c.ev(fmt.Sprintf("L (RData %d)", r), 4, byte(r))
			b := []byte{17, byte(in.NSlots)}
			for s := 0; s < in.NSlots; s++ {
				v := vals[s]
				if v < 0 {
					b = append(b, 255)
				} else {
					b = append(b, byte(v))
					if !c.fwritten[s][v] && c.holds {
						c.holds, c.detail = false, fmt.Sprintf("fixed slot %d read %d which no completed write put there", s, v)
					}
				}
			}
			if e != nil && c.holds {
				c.holds, c.detail = false, "query(fixed): "+e.Error()
			}
			c.ev(fmt.Sprintf("OFix %v", vals), b...)
		}
	}
	res.Obs = map[string]interface{}{"events": c.evs, "versions": c.versions}
	res.Coq = cq.Rec(cq.F("k_comp", cq.Bool(in.Comp)), cq.F("k_nslots", cq.Nat(in.NSlots)),
		cq.F("k_vw", cq.List(c.vwCoq)), cq.F("k_fw", cq.List(c.fwCoq)), cq.F("k_readers", cq.List(c.readers)),
		cq.F("k_enc", cq.Hex(c.enc)))
	res.Holds, res.Class, res.Detail = c.holds, c.class, c.detail
	res.InDomain = !c.sawCont && len(c.evs) > 0
	res.Nontrivial = c.nReaders >= 1 && len(c.vwCoq)+len(c.fwCoq) >= 2
	res.Tags = []string{"mode:forced", fmt.Sprintf("comp=%v", in.Comp), fmt.Sprintf("slots=%d", in.NSlots),
		fmt.Sprintf("splits=%d", c.nSplit), fmt.Sprintf("window-reads=%d", bucket(c.nWindow))}
	if c.sawCont {
		res.Tags = append(res.Tags, "continuation")
	} else {
		res.Tags = append(res.Tags, "in-domain")
	}
	return res, nil
}

// c18Race: statistical search.  Real SyncWAL loop, one writer appending records to ONE slot of a
// variable bucket (every write after the first is an in-place continuation), reader goroutines querying
// that slot.  A query error or a result that is not a prefix-closed committed version is a hit.
func c18Race(in c18In, raw json.RawMessage) (res Result, err error) {
	a, err := schedx.NewTypes([]bool{true}, false)
	if err != nil {
		return res, err
	}
	defer a.Close()
	a.StartLoop(time.Millisecond)
	ms := in.Ms
	if ms <= 0 {
		ms = 200
	}
	stop := int32(0)
	var errs, bad, reads int64
	var firstErr atomic.Value
	var wg sync.WaitGroup
	var committed int32 // ids 1..committed are acknowledged
	for g := 0; g < 3; g++ {
		wg.Add(1)
		go func() {
			defer wg.Done()
			defer func() { recover() }()
			for atomic.LoadInt32(&stop) == 0 {
				lo := int(atomic.LoadInt32(&committed))
				rows, e := a.QuerySlot(0, 0)
				atomic.AddInt64(&reads, 1)
				if e != nil {
					atomic.AddInt64(&errs, 1)
					firstErr.CompareAndSwap(nil, e.Error())
					continue
				}
				// rows must be 1..n for some n >= lo (read-committed, monotone)
				okRows := len(rows) >= lo
				for i, x := range rows {
					if x != i+1 {
						okRows = false
					}
				}
				if !okRows {
					atomic.AddInt64(&bad, 1)
					firstErr.CompareAndSwap(nil, fmt.Sprintf("rows %v with %d acknowledged", rows, lo))
				}
			}
		}()
	}
	dl := time.Now().Add(time.Duration(ms) * time.Millisecond)
	id := 0
	for time.Now().Before(dl) && id < 58 {
		id++
		if e := a.W.WriteCSM(schedx.CSMVar(0, 0, []int{id}), true); e != nil {
			break
		}
		atomic.StoreInt32(&committed, int32(id))
	}
	atomic.StoreInt32(&stop, 1)
	wg.Wait()
	res.Key = string(raw) + fmt.Sprint(reads)
	res.Holds = errs == 0 && bad == 0
	if !res.Holds {
		fe, _ := firstErr.Load().(string)
		res.Detail = fmt.Sprintf("%d of %d concurrent queries failed, %d returned uncommitted data; first: %s", errs, reads, bad, fe)
		res.Class = "continuation-write-window" // the only writes racing the readers are continuation writes of one slot
	}
	res.Obs = map[string]interface{}{"reads": reads, "errors": errs, "bad": bad, "writes": id}
	res.Coq = cq.Rec(cq.F("k_comp", "true"), cq.F("k_nslots", "1"), cq.F("k_vw", "[]"), cq.F("k_fw", "[]"),
		cq.F("k_readers", "[]"), cq.F("k_enc", cq.Hex(nil)))
	res.Tags = []string{"mode:race", fmt.Sprintf("hit=%v", !res.Holds)}
	_ = strings.TrimSpace
	return res, nil
}

func init() {
	Register(&Spec{
		ID:          "C18",
		CoqRequire:  "Require Import MS.Corr.C18.",
		CoqCaseType: "C18.case",
		Rule: "1-3 slots of one variable-length bucket + one fixed bucket, compression on (60%) or off; 3-10 ops: complete writes (real " +
			"WriteCSM), split writes (real WriteBufferToFileIndirect stopped between its data Write and its index Write, with real " +
			"queries in the window), queries, fixed writes/reads; 8% statistical race runs (search only); distinct = distinct " +
			"schedule; non-trivial = >= 1 query and >= 2 writes",
		Gen: c18Gen,
		Run: c18Run,
	})
}
