package props

import (
	"encoding/json"
	"fmt"
	"math"
	"math/big"
	"time"

	"github.com/alpacahq/marketstore/v4/sqlparser"
	"github.com/alpacahq/marketstore/v4/uda"
	"github.com/alpacahq/marketstore/v4/utils"
	"github.com/alpacahq/marketstore/v4/utils/functions"
	"github.com/alpacahq/marketstore/v4/utils/io"

	"verifharness/internal/cq"
	"verifharness/internal/rng"
)

// C23 — Scalar aggregates and gap detection are correct.
// Implementation under test: uda/count, uda/min, uda/max, uda/avg, uda/gap, reached either through
// sqlparser.AggRunner.Run (one call string, one Accum) or through AggRunner.GetFunc + New + several Accum
// calls on the same aggregate object.

type c23Chunk struct {
	Type   string   `json:"type"`   // element type of the aggregated column ("missing": column absent); for gap: of the Epoch column
	Vals   []uint64 `json:"vals"`   // raw values: IEEE bits for float32/float64, two's complement for integers
	Epochs []int64  `json:"epochs"` // Epoch column (first column, so ColumnSeries.Len() = len(Epochs)); unused for gap
}
type c23In struct {
	Agg    string     `json:"agg"`    // count | min | max | avg | gap
	Runner bool       `json:"runner"` // through AggRunner.Run (exactly one chunk) instead of New + Accum...
	Lit    *string    `json:"lit"`    // gap: the literal argument (nil: none)
	Chunks []c23Chunk `json:"chunks"`
}

var c23Aggs = []string{"count", "min", "max", "avg", "gap"}
var c23Other = []string{"int16", "uint8", "uint16", "uint32", "uint64", "byte"}
var c23Lits = []string{"1Min", "5Min", "1Sec", "30Sec", "1H", "1D", "2W", "1M", "0Sec", "90Sec", "xx", "Min", "7", "12H"}

var c23F32Special = []uint32{0, 0x80000000, 0x7f800000, 0xff800000, 0x7fc00000, 0xffc00001, 0x7f7fffff, 0xff7fffff, 1, 0x80000001,
	0x00800000, 0x3f800000, 0xbf800000, 0x3f800001, 0x4b800000, 0x4b800001}
var c23F64Special = []uint64{0, 0x8000000000000000, 0x7ff0000000000000, 0xfff0000000000000, 0x7ff8000000000000, 0x7fefffffffffffff,
	0xffefffffffffffff, 1, 0x3ff0000000000000, 0x47efffffe0000000, 0x47effffff0000000, 0x36a0000000000000, 0x3690000000000000,
	0x3ff0000010000000, 0x3ff0000030000000, 0x7ff0000000000001}

func c23Val(r *rng.Rand, typ string, mode int, i int) uint64 {
	switch typ {
	case "float32":
		switch mode {
		case 0:
			return uint64(math.Float32bits(float32(r.Range(-50, 50))))
		case 1:
			return uint64(uint32(r.U64()))
		case 2:
			return uint64(c23F32Special[r.Intn(len(c23F32Special))])
		default:
			return uint64(math.Float32bits(100 + float32(r.Range(-3, 3))/4))
		}
	case "float64":
		switch mode {
		case 0:
			return math.Float64bits(float64(r.Range(-50, 50)) / 8)
		case 1:
			return r.U64()
		case 2:
			return c23F64Special[r.Intn(len(c23F64Special))]
		default:
			return math.Float64bits(1e9 + float64(r.Range(-3, 3))/3)
		}
	case "int32":
		switch mode {
		case 0:
			return uint64(int64(int32(r.Range(-50, 50))))
		case 1:
			return uint64(int64(int32(r.U64())))
		case 2:
			return uint64(int64([]int32{math.MaxInt32, math.MinInt32, 16777217, 16777216, -16777217, 33554433, 0}[r.Intn(7)]))
		default:
			return uint64(int64(int32(16777216 + r.Range(-4, 4))))
		}
	case "int64", "int":
		switch mode {
		case 0:
			return uint64(r.Range(-50, 50))
		case 1:
			return r.U64()
		case 2:
			return uint64([]int64{math.MaxInt64, math.MinInt64, 16777217, -16777217, 1 << 53, 1<<53 + 1, 9007199791611905, 0, 1<<62 + 1}[r.Intn(9)])
		default:
			return uint64(int64(16777216 + r.Range(-4, 4)))
		}
	}
	return uint64(r.Range(0, 200))
}

func c23Epochs(r *rng.Rand, n int, mode int) []int64 {
	ep := make([]int64, n)
	cur := int64(1600000000) + r.Range(0, 1000)
	if mode == 3 {
		cur = 1<<53 - 5 + r.Range(0, 10)
	}
	steps := []int64{1, 59, 60, 61, 300, 301, 3600, 86400, 0, -5, 30, 31, 1209600, 1209601, 90, 91}
	for i := range ep {
		ep[i] = cur
		switch mode {
		case 2: // extremes
			cur = []int64{math.MaxInt64, math.MinInt64, 0, -1, 1 << 53, -(1 << 53), 1<<53 + 1, 1 << 62}[r.Intn(8)]
		case 3: // around 2^53
			cur += r.Range(1, 7)
		default:
			cur += steps[r.Intn(len(steps))]
		}
	}
	return ep
}

func c23Gen(r *rng.Rand, i int, tier string) interface{} {
	maxRows := 8
	if tier == "thorough" {
		maxRows = 60
	}
	in := c23In{Agg: c23Aggs[r.Intn(len(c23Aggs))], Runner: r.Chance(40)}
	nch := 1
	if !in.Runner {
		nch = []int{1, 1, 1, 2, 2, 3, 0}[r.Intn(7)]
	}
	if in.Agg == "gap" {
		if in.Runner || r.Chance(85) {
			l := c23Lits[r.Intn(len(c23Lits))]
			in.Lit = &l
		}
	}
	for c := 0; c < nch; c++ {
		n := r.Intn(maxRows + 1)
		if r.Chance(15) {
			n = r.Intn(3) // empty and single-row inputs
		}
		ch := c23Chunk{}
		k := r.Intn(100)
		if in.Agg == "gap" {
			switch {
			case k < 80:
				ch.Type = "int64"
			case k < 85:
				ch.Type = "float64"
			case k < 90:
				ch.Type = "int32"
			case k < 95:
				ch.Type = "int"
			default:
				ch.Type = c23Other[r.Intn(len(c23Other))]
			}
			emode := []int{0, 0, 0, 0, 0, 0, 2, 3}[r.Intn(8)]
			ep := c23Epochs(r, n, emode)
			for _, e := range ep {
				switch ch.Type {
				case "float64":
					ch.Vals = append(ch.Vals, math.Float64bits(float64(e)))
				case "int32":
					ch.Vals = append(ch.Vals, uint64(int64(int32(e))))
				case "int64", "int":
					ch.Vals = append(ch.Vals, uint64(e))
				default:
					ch.Vals = append(ch.Vals, uint64(e)&0xff)
				}
			}
			in.Chunks = append(in.Chunks, ch)
			continue
		}
		switch {
		case k < 40:
			ch.Type = "float32"
		case k < 55:
			ch.Type = "float64"
		case k < 70:
			ch.Type = "int64"
		case k < 80:
			ch.Type = "int32"
		case k < 85:
			ch.Type = "int"
		case k < 95:
			ch.Type = c23Other[r.Intn(len(c23Other))]
		default:
			ch.Type = "missing"
		}
		mode := []int{0, 0, 1, 1, 2, 3}[r.Intn(6)]
		nv := n
		if r.Chance(5) { // malformed: Epoch and value column of different lengths
			nv = r.Intn(maxRows + 1)
		}
		ch.Epochs = c23Epochs(r, n, 0)
		if ch.Type != "missing" {
			ch.Vals = make([]uint64, nv)
			for j := range ch.Vals {
				m := mode
				if mode == 2 && r.Chance(50) {
					m = 0
				}
				ch.Vals[j] = c23Val(r, ch.Type, m, j)
			}
		}
		in.Chunks = append(in.Chunks, ch)
	}
	return in
}

// c23Column builds the typed Go slice for a chunk's column.
func c23Column(typ string, vals []uint64) interface{} {
	switch typ {
	case "float32":
		c := make([]float32, len(vals))
		for i, v := range vals {
			c[i] = math.Float32frombits(uint32(v))
		}
		return c
	case "float64":
		c := make([]float64, len(vals))
		for i, v := range vals {
			c[i] = math.Float64frombits(v)
		}
		return c
	case "int64":
		c := make([]int64, len(vals))
		for i, v := range vals {
			c[i] = int64(v)
		}
		return c
	case "int":
		c := make([]int, len(vals))
		for i, v := range vals {
			c[i] = int(int64(v))
		}
		return c
	case "int32":
		c := make([]int32, len(vals))
		for i, v := range vals {
			c[i] = int32(int64(v))
		}
		return c
	case "int16":
		c := make([]int16, len(vals))
		for i, v := range vals {
			c[i] = int16(v)
		}
		return c
	case "uint8", "byte":
		c := make([]uint8, len(vals))
		for i, v := range vals {
			c[i] = uint8(v)
		}
		return c
	case "uint16":
		c := make([]uint16, len(vals))
		for i, v := range vals {
			c[i] = uint16(v)
		}
		return c
	case "uint32":
		c := make([]uint32, len(vals))
		for i, v := range vals {
			c[i] = uint32(v)
		}
		return c
	case "uint64":
		c := make([]uint64, len(vals))
		copy(c, vals)
		return c
	}
	return nil
}

func c23Supported(typ string) bool {
	switch typ {
	case "float32", "float64", "int64", "int32", "int":
		return true
	}
	return false
}

func c23CS(in *c23In, ch *c23Chunk) *io.ColumnSeries {
	cs := io.NewColumnSeries()
	if in.Agg == "gap" {
		if ch.Type != "missing" {
			cs.AddColumn("Epoch", c23Column(ch.Type, ch.Vals))
		}
		return cs
	}
	ep := ch.Epochs
	if ep == nil {
		ep = []int64{}
	}
	cs.AddColumn("Epoch", ep)
	if ch.Type != "missing" {
		cs.AddColumn("V", c23Column(ch.Type, ch.Vals))
	}
	return cs
}

func c23F32Bits(f float32) uint64 {
	if f != f {
		return 0x7fc00000
	}
	return uint64(math.Float32bits(f))
}
func c23F64Bits(f float64) uint64 {
	if f != f {
		return 0x7ff8000000000000
	}
	return math.Float64bits(f)
}

// c23Extract projects an aggregate's output column series to integers (bit patterns for floats).
func c23Extract(agg string, cs *io.ColumnSeries) ([]int64, error) {
	if cs == nil {
		return nil, fmt.Errorf("nil output")
	}
	switch agg {
	case "count":
		c, ok := cs.GetColumn("Count").([]int64)
		if !ok || len(c) != 1 {
			return nil, fmt.Errorf("bad Count column")
		}
		return []int64{c[0]}, nil
	case "min", "max":
		name := "Min"
		if agg == "max" {
			name = "Max"
		}
		c, ok := cs.GetColumn(name).([]float32)
		if !ok || len(c) != 1 {
			return nil, fmt.Errorf("bad %s column", name)
		}
		return []int64{int64(c23F32Bits(c[0]))}, nil
	case "avg":
		c, ok := cs.GetColumn("Avg").([]float64)
		if !ok || len(c) != 1 {
			return nil, fmt.Errorf("bad Avg column")
		}
		return []int64{int64(c23F64Bits(c[0]))}, nil
	case "gap":
		a, ok1 := cs.GetColumn("Epoch").([]int64)
		b, ok2 := cs.GetColumn("End").([]int64)
		l, ok3 := cs.GetColumn("Length").([]int64)
		if !ok1 || !ok2 || !ok3 || len(a) != len(b) || len(a) != len(l) {
			return nil, fmt.Errorf("bad gap columns")
		}
		out := []int64{}
		for i := range a {
			out = append(out, a[i], b[i], l[i])
		}
		return out, nil
	}
	return nil, fmt.Errorf("unknown aggregate")
}

type c23Obs struct {
	Code int     `json:"code"` // 0 ok, 1 error, 2 panic
	Out  []int64 `json:"out"`
	Err  string  `json:"err,omitempty"`
	Thr  int64   `json:"thr"`
}

type outputter interface{ Output() *io.ColumnSeries }
type outputterE interface {
	Output() (*io.ColumnSeries, error)
}

func c23Exec(in *c23In) (obs c23Obs, err error) {
	tbk := io.TimeBucketKey{}
	ar := sqlparser.NewDefaultAggRunner(nil)
	var last *io.ColumnSeries
	defer func() {
		if p := recover(); p != nil {
			obs.Code, obs.Err, err = 2, fmt.Sprint(p), nil
		}
	}()
	if in.Runner {
		if len(in.Chunks) != 1 {
			return obs, fmt.Errorf("runner mode needs exactly one chunk")
		}
		call := in.Agg + "(V)"
		if in.Agg == "gap" {
			call = "gap()"
			if in.Lit != nil {
				call = "gap('" + *in.Lit + "')"
			}
		}
		out, e := ar.Run([]string{call}, c23CS(in, &in.Chunks[0]), tbk)
		if e != nil {
			obs.Code, obs.Err = 1, e.Error()
			return obs, nil
		}
		last = out
	} else {
		agg := ar.GetFunc(in.Agg)
		if agg == nil {
			return obs, fmt.Errorf("no aggregate %q", in.Agg)
		}
		argMap := functions.NewArgumentMap(agg.GetRequiredArgs(), agg.GetOptionalArgs()...)
		var params []string
		if in.Agg != "gap" {
			params = []string{"V"}
		}
		if e := argMap.PrepareArguments(params); e != nil {
			return obs, e
		}
		var obj uda.AggInterface
		var e error
		if in.Agg == "gap" && in.Lit != nil {
			obj, e = agg.New(argMap, []string{*in.Lit})
		} else {
			obj, e = agg.New(argMap)
		}
		if e != nil {
			return obs, e
		}
		for ci := range in.Chunks {
			out, e := obj.Accum(tbk, argMap, c23CS(in, &in.Chunks[ci]))
			if e != nil {
				obs.Code, obs.Err = 1, e.Error()
				return obs, nil
			}
			last = out
		}
		if len(in.Chunks) == 0 {
			switch o := obj.(type) {
			case outputter:
				last = o.Output()
			case outputterE:
				if last, e = o.Output(); e != nil {
					obs.Code, obs.Err = 1, e.Error()
					return obs, nil
				}
			}
		}
	}
	obs.Out, err = c23Extract(in.Agg, last)
	return obs, err
}

// c23Thr derives the gap threshold exactly as gap.New does (uda/gap/gap.go:150-156).
func c23Thr(lit *string) int64 {
	if lit == nil {
		return -1
	}
	cd, err := utils.CandleDurationFromString(*lit)
	if err != nil {
		return -1
	}
	return int64(cd.Duration() / time.Second)
}

func c23Run(raw json.RawMessage) (res Result, err error) {
	var in c23In
	if err = json.Unmarshal(raw, &in); err != nil {
		return
	}
	aggIdx := -1
	for i, a := range c23Aggs {
		if a == in.Agg {
			aggIdx = i
		}
	}
	if aggIdx < 0 {
		return res, fmt.Errorf("unknown aggregate %q", in.Agg)
	}
	thr := int64(-1)
	if in.Agg == "gap" {
		thr = c23Thr(in.Lit)
	}
	obs, err := c23Exec(&in)
	if err != nil {
		return res, err
	}
	obs.Thr = thr
	res.Obs = obs

	// ---- Gallina rendering ----
	var coqChunks []string
	for ci := range in.Chunks {
		ch := &in.Chunks[ci]
		n := len(ch.Epochs)
		if in.Agg == "gap" {
			n = len(ch.Vals)
			if ch.Type == "missing" {
				n = 0
			}
		}
		var items []string
		for _, v := range ch.Vals {
			switch ch.Type {
			case "float32", "float64":
				items = append(items, cq.ZU(v))
			default:
				items = append(items, cq.Z(int64(v)))
			}
		}
		var col string
		switch ch.Type {
		case "float32":
			col = "(KF32 " + cq.List(items) + ")"
		case "float64":
			col = "(KF64 " + cq.List(items) + ")"
		case "int64":
			col = "(KI64 " + cq.List(items) + ")"
		case "int32":
			col = "(KI32 " + cq.List(items) + ")"
		case "int":
			col = "(KInt " + cq.List(items) + ")"
		case "missing":
			col = "KMissing"
		default:
			col = "(KOther " + cq.Nat(len(ch.Vals)) + ")"
		}
		coqChunks = append(coqChunks, cq.Tuple(cq.Nat(n), col))
	}
	var coqOut []string
	for _, v := range obs.Out {
		if in.Agg == "min" || in.Agg == "max" || in.Agg == "avg" {
			coqOut = append(coqOut, cq.ZU(uint64(v))) // IEEE bit pattern
		} else {
			coqOut = append(coqOut, cq.Z(v))
		}
	}
	res.Coq = cq.Rec(cq.F("k_agg", cq.Nat(aggIdx)), cq.F("k_thr", cq.Z(thr)), cq.F("k_chunks", cq.List(coqChunks)),
		cq.F("k_code", cq.Nat(obs.Code)), cq.F("k_out", cq.List(coqOut)))

	// ---- the property's oracle, computed independently on the input, judged on the implementation's output ----
	// float32 view of all values ("as single-precision numbers"), row count, defect classes of the input
	var v32 []float32
	rows := 0
	unsupportedRows, malformed, hasNaN, hasInf := false, false, false, false
	for ci := range in.Chunks {
		ch := &in.Chunks[ci]
		if in.Agg == "gap" {
			continue
		}
		rows += len(ch.Epochs)
		if ch.Type == "missing" || len(ch.Vals) != len(ch.Epochs) {
			malformed = true
			continue
		}
		if !c23Supported(ch.Type) {
			if len(ch.Vals) > 0 {
				unsupportedRows = true
			}
			continue
		}
		for _, v := range ch.Vals {
			var f float32
			switch ch.Type {
			case "float32":
				f = math.Float32frombits(uint32(v))
			case "float64":
				f = float32(math.Float64frombits(v))
			default:
				f = float32(int64(v))
			}
			if f != f {
				hasNaN = true
			}
			if math.IsInf(float64(f), 0) {
				hasInf = true
			}
			v32 = append(v32, f)
		}
	}
	res.Holds = true
	fail := func(format string, a ...interface{}) {
		res.Holds, res.Detail = false, fmt.Sprintf(format, a...)
	}
	switch in.Agg {
	case "count":
		res.InDomain = true
		if obs.Code != 0 || len(obs.Out) != 1 || obs.Out[0] != int64(rows) {
			fail("count = %v (code %d) for %d input rows", obs.Out, obs.Code, rows)
		}
		res.Nontrivial = rows >= 2
	case "min", "max":
		wellTyped := !malformed && !unsupportedRows
		res.InDomain = wellTyped && !hasNaN
		if !malformed && !hasNaN {
			// (inputs holding NaN or lacking the column are outside the property's "numeric columns")
			if obs.Code != 0 || len(obs.Out) != 1 {
				fail("%s failed with code %d (%s) on a numeric column", in.Agg, obs.Code, obs.Err)
			} else if len(v32) > 0 || unsupportedRows {
				got := math.Float32frombits(uint32(obs.Out[0]))
				member := false
				for _, f := range v32 {
					if math.Float32bits(f) == math.Float32bits(got) {
						member = true
					}
					if (in.Agg == "min" && !(got <= f)) || (in.Agg == "max" && !(got >= f)) {
						fail("%s = %v but the column holds %v", in.Agg, got, f)
					}
				}
				if res.Holds && !member {
					fail("%s = %v is not a value of the column", in.Agg, got)
				}
			}
			if !res.Holds && unsupportedRows {
				res.Class = "unsupported-column-type"
			}
		}
		res.Nontrivial = res.InDomain && len(v32) >= 2
	case "avg":
		wellTyped := !malformed && !unsupportedRows
		res.InDomain = wellTyped
		if !malformed && !hasNaN && !hasInf && (len(v32) > 0 || unsupportedRows) {
			if obs.Code != 0 || len(obs.Out) != 1 {
				fail("avg failed with code %d (%s) on a numeric column", obs.Code, obs.Err)
			} else {
				got := math.Float64frombits(uint64(obs.Out[0]))
				if got != got || math.IsInf(got, 0) {
					fail("avg = %v for finite input", got)
				} else if len(v32) > 0 {
					sum, abs := new(big.Rat), new(big.Rat)
					for _, f := range v32 {
						x := new(big.Rat).SetFloat64(float64(f))
						sum.Add(sum, x)
						abs.Add(abs, new(big.Rat).Abs(x))
					}
					n := big.NewRat(int64(len(v32)), 1)
					mean := new(big.Rat).Quo(sum, n)
					// |got - mean| <= (n+1) * 2^-52 * (sum |v|) / n : the error bound of float64 recursive summation + one division
					tol := new(big.Rat).Quo(abs, n)
					tol.Mul(tol, big.NewRat(int64(len(v32)+1), 1))
					tol.Mul(tol, new(big.Rat).SetFrac(big.NewInt(1), new(big.Int).Lsh(big.NewInt(1), 52)))
					diff := new(big.Rat).Sub(new(big.Rat).SetFloat64(got), mean)
					if diff.Abs(diff).Cmp(tol) > 0 {
						m, _ := mean.Float64()
						fail("avg = %v but the mean of the %d values is %v", got, len(v32), m)
					}
				}
			}
			if !res.Holds && unsupportedRows {
				res.Class = "unsupported-column-type"
			}
		}
		res.Nontrivial = res.InDomain && len(v32) >= 2
	case "gap":
		// the last Accum's input decides the output
		var ep []int64
		epochOK, beyond := true, false
		if len(in.Chunks) > 0 {
			ch := &in.Chunks[len(in.Chunks)-1]
			if ch.Type != "int64" {
				epochOK = false
			}
			for _, v := range ch.Vals {
				e := int64(v)
				if e >= 1<<53 || e <= -(1<<53) {
					beyond = true
				}
				ep = append(ep, e)
			}
		}
		allInt64 := true
		for ci := range in.Chunks {
			if in.Chunks[ci].Type != "int64" {
				allInt64 = false
			}
			for _, v := range in.Chunks[ci].Vals {
				if e := int64(v); e >= 1<<53 || e <= -(1<<53) {
					beyond = true
				}
			}
		}
		res.InDomain = thr >= 0 && allInt64 && !beyond
		if thr >= 0 && epochOK && allInt64 { // "gap with an explicit threshold" on an int64 Epoch column
			var want []int64
			for i := 0; i+1 < len(ep); i++ {
				d := new(big.Int).Sub(big.NewInt(ep[i+1]), big.NewInt(ep[i]))
				if d.Cmp(big.NewInt(thr)) > 0 {
					want = append(want, ep[i], ep[i+1], ep[i+1]-ep[i])
				}
			}
			if obs.Code != 0 {
				fail("gap failed with code %d (%s)", obs.Code, obs.Err)
			} else if fmt.Sprint(want) != fmt.Sprint(append([]int64(nil), obs.Out...)) && !(len(want) == 0 && len(obs.Out) == 0) {
				fail("gap(%ds) reported %v, the pairs exceeding the threshold are %v", thr, obs.Out, want)
			}
			if !res.Holds && beyond {
				res.Class = "gap-epoch-beyond-2p53"
			}
		}
		res.Nontrivial = res.InDomain && len(ep) >= 3
	}

	// ---- tags ----
	res.Tags = []string{"agg:" + in.Agg, fmt.Sprintf("code=%d", obs.Code), fmt.Sprintf("chunks=%d", len(in.Chunks))}
	if in.Runner {
		res.Tags = append(res.Tags, "via-runner")
	} else {
		res.Tags = append(res.Tags, "direct")
	}
	for ci := range in.Chunks {
		res.Tags = append(res.Tags, "type:"+in.Chunks[ci].Type, fmt.Sprintf("rows=%d", bucket(len(in.Chunks[ci].Vals))))
	}
	if in.Agg == "gap" {
		if thr < 0 {
			res.Tags = append(res.Tags, "gap:zscore-or-bad-literal")
		} else {
			res.Tags = append(res.Tags, "gap:explicit-threshold")
		}
	}
	if hasNaN {
		res.Tags = append(res.Tags, "nan")
	}
	if hasInf {
		res.Tags = append(res.Tags, "inf")
	}
	if malformed {
		res.Tags = append(res.Tags, "malformed")
	}
	if res.InDomain {
		res.Tags = append(res.Tags, "in-domain")
	} else {
		res.Tags = append(res.Tags, "outside-domain")
	}
	res.Key = string(raw)
	return res, nil
}

func c23Neighbours(raw json.RawMessage, r *rng.Rand) []interface{} {
	var in c23In
	if json.Unmarshal(raw, &in) != nil {
		return nil
	}
	var out []interface{}
	for _, a := range c23Aggs {
		if a != in.Agg && a != "gap" && in.Agg != "gap" {
			n := in
			n.Agg = a
			out = append(out, n)
		}
	}
	for ci := range in.Chunks {
		if len(in.Chunks[ci].Vals) > 1 {
			n := in
			n.Chunks = append([]c23Chunk{}, in.Chunks...)
			c := n.Chunks[ci]
			c.Vals = append([]uint64{}, c.Vals[1:]...)
			if len(c.Epochs) > 0 {
				c.Epochs = append([]int64{}, c.Epochs[1:]...)
			}
			n.Chunks[ci] = c
			out = append(out, n)
		}
	}
	return out
}

func init() {
	Register(&Spec{
		ID:          "C23",
		CoqRequire:  "Require Import MS.Corr.C23.",
		CoqCaseType: "C23.case",
		Rule: "one of count/min/max/avg/gap, through AggRunner.Run (40%) or New + 0-3 Accum calls; column of float32/float64/int64/int32/int " +
			"(85%), another numeric type (10%) or missing (5%); 0-8 rows per call (0-60 thorough; 15% forced to 0-2 rows); values: small, " +
			"random bits, IEEE specials (NaN, inf, +-0, subnormal, rounding ties), near-equal; gap: Epoch steps around the thresholds of 14 " +
			"literals, extremes, values around 2^53; distinct = distinct input JSON; non-trivial = inside the theorem's guard with >=2 rows " +
			"(gap: >=3 epochs)",
		Gen:        c23Gen,
		Run:        c23Run,
		Neighbours: c23Neighbours,
	})
}
