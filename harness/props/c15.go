package props

import (
	"encoding/binary"
	"encoding/json"
	"fmt"
	"os"
	"path/filepath"
	"sort"
	"strings"
	"sync"
	"time"

	"github.com/alpacahq/marketstore/v4/catalog"
	"github.com/alpacahq/marketstore/v4/executor"
	"github.com/alpacahq/marketstore/v4/utils"
	"github.com/alpacahq/marketstore/v4/utils/io"
	"github.com/alpacahq/marketstore/v4/utils/log"

	"verifharness/internal/cq"
	"verifharness/internal/rng"
)

// C15 — Bucket schema is preserved across restarts.
// Implementation under test: io.NewTimeBucketInfo + catalog.(*Directory).AddTimeBucket (WriteHeader),
// executor.(*Writer).WriteRecords + WAL flush (real TimeToIndex / IndexToOffset / primary writes),
// then a restart = catalog.NewDirectory on the same root + GetLatestTimeBucketInfoFromKey (readHeader/load).

type c15Col struct {
	Name []byte `json:"name"` // arbitrary bytes
	Type string `json:"type"`
}
type c15Write struct {
	Epoch   int64  `json:"epoch"`
	Payload []byte `json:"payload"` // padded / cut to the record's payload length
}
type c15In struct {
	TF       string     `json:"tf"`
	Variable bool       `json:"variable"`
	Year     int        `json:"year"`
	Descr    []byte     `json:"descr"`
	Cols     []c15Col   `json:"cols"`
	Writes   []c15Write `json:"writes"`
}

const c15HS = 37024 // mirror of io.Headersize for the oracle only (the model uses the generated constant)

var c15Types = []string{"float32", "float64", "int16", "int32", "int64", "uint8", "uint16", "uint32", "uint64", "string16", "bool", "byte"}
var c15TFs = []string{"1Min", "5Min", "15Min", "1H", "1D"}

func c15Name(r *rng.Rand, j int) []byte {
	base := []string{"Open", "High", "Low", "Close", "Volume", "Bid", "Ask", "Price", "Size", "x"}[r.Intn(10)]
	switch k := r.Intn(100); {
	case k < 70:
		return []byte(fmt.Sprintf("%s%d", base, j))
	case k < 80: // boundary lengths 30..34
		n := 30 + r.Intn(5)
		return []byte((fmt.Sprintf("%s%d_", base, j) + strings.Repeat("n", 40))[:n])
	case k < 84: // long
		return []byte(fmt.Sprintf("%s%d_", base, j) + strings.Repeat("L", 30+r.Intn(70)))
	case k < 87: // NUL at an edge
		if r.Bool() {
			return append([]byte{0}, []byte(fmt.Sprintf("%s%d", base, j))...)
		}
		return append([]byte(fmt.Sprintf("%s%d", base, j)), 0)
	case k < 89:
		return []byte{}
	case k < 93: // multi-byte runes around the boundary
		return []byte((fmt.Sprintf("%d", j) + strings.Repeat("é", 20))[:29+r.Intn(6)])
	case k < 95:
		return []byte("Epoch") // dropped by CreateShapesForTimeBucketInfo
	case k < 97: // NUL in the middle (survives)
		return []byte(fmt.Sprintf("a\x00b%d", j))
	}
	return []byte(fmt.Sprintf("%s_%d", base, j))
}

func c15Gen(r *rng.Rand, i int, tier string) interface{} {
	in := c15In{TF: c15TFs[r.Intn(len(c15TFs))], Variable: r.Chance(25), Year: 1990 + r.Intn(45), Descr: []byte("Default")}
	if r.Chance(35) {
		in.TF = "1D"
	}
	clean := r.Chance(40)
	switch k := r.Intn(100); {
	case clean:
	case k < 5:
		in.Descr = []byte(strings.Repeat("d", 250+r.Intn(12)))
	case k < 7:
		in.Descr = []byte("\x00lead")
	case k < 9:
		in.Descr = []byte{}
	}
	kind := r.Intn(100)
	if tier != "thorough" && kind < 10 {
		// the big schemas (57-64 string16 columns, 1021-1027 columns) cost seconds each inside Coq: thorough tier only.
		// The quick tier keeps their boundary cases as corpus files: elements_1024.json, too_many_elements.json,
		// daily_jan1_write.json (61 string16 columns), name_32_bytes.json, long_name.json.
		kind = 50
	}
	switch {
	case !clean && kind < 7: // many string16 columns around the threshold where a daily index-0 record reaches the type bytes
		in.TF, in.Variable = "1D", false
		n := 57 + r.Intn(8)
		for j := 0; j < n; j++ {
			in.Cols = append(in.Cols, c15Col{[]byte(fmt.Sprintf("s%d", j)), "string16"})
		}
	case !clean && kind < 10: // around maxNumElements
		in.TF = []string{"1D", "1H"}[r.Intn(2)]
		n := 1021 + r.Intn(7)
		for j := 0; j < n; j++ {
			in.Cols = append(in.Cols, c15Col{[]byte(fmt.Sprintf("c%d", j)), []string{"uint8", "byte", "bool"}[r.Intn(3)]})
		}
	default:
		n := r.Intn(9)
		if r.Chance(85) {
			in.Cols = append(in.Cols, c15Col{[]byte("Epoch"), "int64"})
		}
		for j := 0; j < n; j++ {
			nm := c15Name(r, j)
			if clean {
				nm = []byte(fmt.Sprintf("%s%d", []string{"Open", "High", "Low", "Close", "Volume"}[r.Intn(5)], j))
				if r.Chance(15) {
					nm = []byte((string(nm) + strings.Repeat("w", 32))[:31+r.Intn(2)])
				}
			}
			in.Cols = append(in.Cols, c15Col{nm, c15Types[r.Intn(len(c15Types))]})
		}
	}
	// writes: mostly inside the creation year; in ~35% of the cases some records fall into one or two OTHER
	// years (next, previous, next-but-one), each creating that year's file from the catalog's template.
	// Index 0 is reachable only for 1D on Jan 1.
	multiYear := r.Chance(45)
	yearSpan := func(y int) (int64, int64) {
		return time.Date(y, 1, 1, 0, 0, 0, 0, time.UTC).Unix(), time.Date(y+1, 1, 1, 0, 0, 0, 0, time.UTC).Unix()
	}
	y0, y1 := yearSpan(in.Year)
	nw := r.Intn(5)
	if len(in.Cols) > 200 && r.Chance(50) {
		nw = 0
	}
	if len(in.Cols) > 40 && nw > 2 {
		nw = 2
	}
	for w := 0; w < nw; w++ {
		y0, y1 := y0, y1
		otherYear := false
		if multiYear && r.Chance(60) {
			otherYear = true
			y0, y1 = yearSpan(in.Year + []int{1, 1, 1, -1, 2}[r.Intn(5)])
		}
		var ep int64
		switch k := r.Intn(100); {
		case clean && in.TF == "1D":
			ep = y0 + 86400 + r.Range(0, y1-y0-86401)
		case otherYear && k < 50 && !clean:
			ep = y0 + r.Range(0, 3599) // the first interval(s) of that year
		case otherYear && k < 50:
			ep = y0 + 86400 + r.Range(0, 3599)
		case k < 30 && !clean:
			ep = y0 + r.Range(0, 86399) // Jan 1
		case k < 40:
			ep = y1 - 1 - r.Range(0, 3600) // last interval
		case k < 50:
			ep = y0 + 86400 + r.Range(0, 60) // Jan 2
		default:
			ep = y0 + r.Range(0, y1-y0-1)
		}
		// 16 random bytes, then a fill byte (mostly 0 so that a record landing in the header leaves short
		// non-zero runs; 0xff sometimes) up to the longest payload the schema can have
		n := 16
		if len(in.Cols) > 40 {
			n = 4096
		}
		p := make([]byte, n)
		copy(p, r.Bytes(16))
		if r.Chance(15) {
			for j := 16; j < n; j++ {
				p[j] = 0xff
			}
		}
		in.Writes = append(in.Writes, c15Write{ep, p})
	}
	return in
}

type c15Tbi struct {
	Version int64    `json:"version"`
	Descr   []byte   `json:"descr"`
	Year    int      `json:"year"`
	TF      int64    `json:"tf"`
	RecType int      `json:"rectype"`
	NElems  int      `json:"nelems"`
	RecLen  int      `json:"reclen"`
	Names   [][]byte `json:"names"`
	Types   []int    `json:"types"`
}
type c15Run struct {
	Off  int64  `json:"off"`
	Data []byte `json:"data"`
}
type c15WObs struct {
	Year  int    `json:"year"`
	Index int64  `json:"index"`
	Code  int    `json:"code"`
	Rec   []byte `json:"rec,omitempty"`
}
type c15Obs struct {
	CreateCode int              `json:"create_code"`
	Created    *c15Tbi          `json:"created,omitempty"`
	Hdr0       []c15Run         `json:"hdr0,omitempty"`
	Writes     []c15WObs        `json:"writes,omitempty"`
	Hdr1       []c15Run         `json:"hdr1,omitempty"`  // creation-year file after the writes
	Files      map[int][]c15Run `json:"files,omitempty"` // every year file after the writes
	ReloadCode int              `json:"reload_code"`
	Reloaded   *c15Tbi          `json:"reloaded,omitempty"`
}

func c15TbiOf(t *io.TimeBucketInfo) *c15Tbi {
	o := &c15Tbi{Version: t.GetVersion(), Descr: []byte(t.GetDescription()), Year: int(t.Year), TF: int64(t.GetTimeframe()),
		RecType: int(t.GetRecordType()), NElems: int(t.GetNelements()), RecLen: int(t.GetRecordLength())}
	for _, n := range t.GetElementNames() {
		o.Names = append(o.Names, []byte(n))
	}
	for _, e := range t.GetElementTypes() {
		o.Types = append(o.Types, int(e))
	}
	return o
}

func c15Runs(h []byte) []c15Run {
	var out []c15Run
	for i := 0; i < len(h); {
		if h[i] == 0 {
			i++
			continue
		}
		j := i
		for j < len(h) && h[j] != 0 {
			j++
		}
		out = append(out, c15Run{int64(i), append([]byte{}, h[i:j]...)})
		i = j
	}
	return out
}

// c15HexChunks prints a byte string as a list of 256-byte hex literals (decoded by C15.unhexl).
func c15HexChunks(b []byte) string {
	var l []string
	for i := 0; i < len(b); i += 256 {
		j := i + 256
		if j > len(b) {
			j = len(b)
		}
		l = append(l, cq.Hex(b[i:j]))
	}
	return cq.List(l)
}

func c15CoqFiles(m map[int][]c15Run) string {
	var ys []int
	for y := range m {
		ys = append(ys, y)
	}
	sort.Ints(ys)
	var l []string
	for _, y := range ys {
		l = append(l, cq.Tuple(cq.Z(int64(y)), c15CoqRuns(m[y])))
	}
	return cq.List(l)
}

func c15CutZeros(b []byte) []byte {
	n := len(b)
	for n > 0 && b[n-1] == 0 {
		n--
	}
	return b[:n]
}

func c15CoqRuns(rs []c15Run) string {
	var l []string
	for _, r := range rs {
		l = append(l, cq.Tuple(cq.Z(r.Off), c15HexChunks(r.Data)))
	}
	return cq.List(l)
}

func c15ReadHeader(path string) ([]byte, error) {
	f, err := os.Open(path)
	if err != nil {
		return nil, err
	}
	defer f.Close()
	h := make([]byte, c15HS)
	n, _ := f.ReadAt(h, 0)
	return h[:n], nil
}

var (
	c15Pipe *executor.TransactionPipe
	c15Tpd  *executor.TriggerPluginDispatcher
	c15Seq  int64
)

func c15Type(name string) io.EnumElementType {
	switch name {
	case "float32":
		return io.FLOAT32
	case "float64":
		return io.FLOAT64
	case "int16":
		return io.INT16
	case "int32":
		return io.INT32
	case "int64":
		return io.INT64
	case "uint8":
		return io.UINT8
	case "uint16":
		return io.UINT16
	case "uint32":
		return io.UINT32
	case "uint64":
		return io.UINT64
	case "string16":
		return io.STRING16
	case "bool":
		return io.BOOL
	case "byte":
		return io.BYTE
	}
	return io.NONE
}

func c15StorableName(n []byte, k int) bool {
	return len(n) <= k && (len(n) == 0 || (n[0] != 0 && n[len(n)-1] != 0))
}

func c15RunCase(raw json.RawMessage) (res Result, err error) {
	var in c15In
	if err = json.Unmarshal(raw, &in); err != nil {
		return
	}
	os.Setenv("TZ", "UTC")
	time.Local = time.UTC
	utils.InstanceConfig.Timezone = time.UTC
	log.SetLevel(log.FATAL)
	base := os.Getenv("VERIF_TMP")
	if base == "" {
		if st, e := os.Stat("/dev/shm"); e == nil && st.IsDir() {
			base = "/dev/shm"
		}
	}
	root, err := os.MkdirTemp(base, "vc15")
	if err != nil {
		return
	}
	defer os.RemoveAll(root)
	utils.InstanceConfig.RootDirectory = root

	key := "SYM/" + in.TF + "/ATTR"
	tbk := io.NewTimeBucketKey(key)
	tf, err := tbk.GetTimeFrame()
	if err != nil {
		return
	}
	rt := io.FIXED
	if in.Variable {
		rt = io.VARIABLE
	}
	var dsv []io.DataShape
	var coqDsv []string
	for _, c := range in.Cols {
		t := c15Type(c.Type)
		dsv = append(dsv, io.DataShape{Name: string(c.Name), Type: t})
		coqDsv = append(coqDsv, cq.Tuple(cq.Hex(c.Name), cq.Z(int64(t))))
	}
	obs := c15Obs{}
	cat, e := catalog.NewDirectory(root)
	if e != nil {
		if _, ok := e.(catalog.ErrCategoryFileNotFound); !ok {
			return res, e
		}
	}
	// ---- create ----
	var created *io.TimeBucketInfo
	func() {
		defer func() {
			if p := recover(); p != nil {
				obs.CreateCode = 2
			}
		}()
		created = io.NewTimeBucketInfo(*tf, tbk.GetPathToYearFiles(root), string(in.Descr), int16(in.Year), dsv, rt)
		obs.Created = c15TbiOf(created)
		if e := cat.AddTimeBucket(tbk, created); e != nil {
			obs.CreateCode = 1
		}
	}()
	binPath := filepath.Join(root, "SYM", in.TF, "ATTR", fmt.Sprintf("%d.bin", in.Year))
	var coqWrites []string
	jan1 := false
	if obs.CreateCode == 0 {
		h0, e := c15ReadHeader(binPath)
		if e != nil {
			return res, e
		}
		obs.Hdr0 = c15Runs(h0)
		// ---- writes through the real writer ----
		var wg sync.WaitGroup
		if c15Tpd == nil {
			c15Tpd = executor.StartNewTriggerPluginDispatcher(nil)
			c15Pipe = executor.NewTransactionPipe()
		}
		c15Seq++
		walf, e := executor.NewWALFile(root, time.Now().UnixNano()+c15Seq, nil, false, &wg, c15Tpd, c15Pipe)
		if e != nil {
			return res, e
		}
		defer func() {
			if walf.FilePtr != nil {
				walf.FilePtr.Close()
			}
		}()
		executor.NewInstanceSetup(cat, walf)
		wr, e := executor.NewWriter(cat, walf)
		if e != nil {
			return res, e
		}
		recLen := int(created.GetRecordLength())
		for _, w := range in.Writes {
			t := time.Unix(w.Epoch, 0).UTC()
			wo := c15WObs{Year: t.Year(), Index: io.TimeToIndex(t, tf.Duration)}
			yearPath := filepath.Join(root, "SYM", in.TF, "ATTR", fmt.Sprintf("%d.bin", t.Year()))
			if in.TF == "1D" && t.Month() == time.January && t.Day() == 1 {
				jan1 = true
			}
			// the row handed to WriteRecords: 8-byte epoch + payload
			plen := recLen - 8
			if in.Variable {
				plen = int(created.GetVariableRecordLength()) - 4
			}
			if plen < 0 {
				plen = 0
			}
			payload := make([]byte, plen)
			copy(payload, w.Payload)
			row := make([]byte, 8, 8+plen)
			binary.LittleEndian.PutUint64(row, uint64(w.Epoch))
			row = append(row, payload...)
			func() {
				defer func() {
					if p := recover(); p != nil {
						wo.Code = 2
					}
				}()
				tbi, e := cat.GetLatestTimeBucketInfoFromKey(tbk)
				if e != nil {
					wo.Code = 1
					return
				}
				if e := wr.WriteRecords([]time.Time{t}, row, tbi.GetDataShapesWithEpoch(), tbi); e != nil {
					wo.Code = 1
					return
				}
				walf.RequestFlush()
			}()
			if in.Variable {
				// the 24-byte {index, offset, len} record the real code left at the primary offset
				off := io.IndexToOffset(wo.Index, 24)
				if f, e := os.Open(yearPath); e == nil {
					rec := make([]byte, 24)
					if off >= 0 {
						n, _ := f.ReadAt(rec, off)
						rec = rec[:n]
					}
					f.Close()
					wo.Rec = rec
				}
				coqWrites = append(coqWrites, cq.Tuple("true", cq.Z(int64(wo.Year)), cq.Z(wo.Index), c15HexChunks(c15CutZeros(wo.Rec)), cq.Nat(len(wo.Rec))))
			} else {
				coqWrites = append(coqWrites, cq.Tuple("false", cq.Z(int64(wo.Year)), cq.Z(wo.Index), c15HexChunks(c15CutZeros(payload)), cq.Nat(len(payload))))
			}
			obs.Writes = append(obs.Writes, wo)
		}
		h1, e := c15ReadHeader(binPath)
		if e != nil {
			return res, e
		}
		obs.Hdr1 = c15Runs(h1)
		// every year file of the bucket (new year files are created by the writes)
		obs.Files = map[int][]c15Run{}
		if ents, e := os.ReadDir(filepath.Dir(binPath)); e == nil {
			for _, en := range ents {
				var y int
				if _, e := fmt.Sscanf(en.Name(), "%d.bin", &y); e == nil && strings.HasSuffix(en.Name(), ".bin") {
					if hy, e := c15ReadHeader(filepath.Join(filepath.Dir(binPath), en.Name())); e == nil {
						obs.Files[y] = c15Runs(hy)
					}
				}
			}
		}
		// ---- restart ----
		func() {
			defer func() {
				if p := recover(); p != nil {
					obs.ReloadCode = 2
				}
			}()
			cat2, e := catalog.NewDirectory(root)
			if e != nil {
				obs.ReloadCode = 1
				return
			}
			tbi, e := cat2.GetLatestTimeBucketInfoFromKey(tbk)
			if e != nil {
				obs.ReloadCode = 1
				return
			}
			obs.Reloaded = c15TbiOf(tbi)
		}()
	}
	res.Obs = obs
	rl := obs.Reloaded
	if rl == nil {
		rl = &c15Tbi{}
	}
	var names, types []string
	for _, n := range rl.Names {
		names = append(names, cq.Hex(n))
	}
	for _, t := range rl.Types {
		types = append(types, cq.Z(int64(t)))
	}
	coqReload := cq.Rec(cq.F("o_version", cq.Z(rl.Version)), cq.F("o_descr", cq.Hex(rl.Descr)), cq.F("o_year", cq.Z(int64(rl.Year))),
		cq.F("o_tf", cq.Z(rl.TF)), cq.F("o_rectype", cq.Z(int64(rl.RecType))), cq.F("o_nelems", cq.Z(int64(rl.NElems))),
		cq.F("o_reclen", cq.Z(int64(rl.RecLen))), cq.F("o_names", cq.List(names)), cq.F("o_types", cq.List(types)))
	res.Coq = cq.Rec(cq.F("k_tf", cq.Z(int64(tf.Duration))), cq.F("k_descr", cq.Hex(in.Descr)), cq.F("k_year", cq.Z(int64(int16(in.Year)))),
		cq.F("k_dsv", cq.List(coqDsv)), cq.F("k_rt", cq.Z(int64(rt))), cq.F("k_writes", cq.List(coqWrites)),
		cq.F("k_create_code", cq.Nat(obs.CreateCode)), cq.F("k_hdr0", c15CoqRuns(obs.Hdr0)), cq.F("k_hdr1", c15CoqFiles(obs.Files)),
		cq.F("k_reload_code", cq.Nat(obs.ReloadCode)), cq.F("k_reload", coqReload))

	// ---- executable mirrors of Header.creatable / writes_ok (independent of the code under test) ----
	nElems, namesOK := 0, true
	for _, c := range in.Cols {
		if string(c.Name) == "Epoch" {
			continue
		}
		nElems++
		if !c15StorableName(c.Name, 32) {
			namesOK = false
		}
	}
	descrOK := c15StorableName(in.Descr, 256)
	countOK := nElems <= 1024
	idxOK := true
	for _, w := range obs.Writes {
		if w.Index < 1 {
			idxOK = false
		}
	}
	if obs.CreateCode != 0 { // writes not executed: evaluate the index guard on the timestamps
		for _, w := range in.Writes {
			t := time.Unix(w.Epoch, 0).UTC()
			if in.TF == "1D" && t.Month() == time.January && t.Day() == 1 {
				idxOK = false
			}
		}
	}
	// names and column count are no longer guards: since the fixes d005c52 / e807cb3 in /repo an unstorable
	// schema is refused at creation
	res.InDomain = descrOK && idxOK
	if obs.CreateCode != 0 {
		res.InDomain = descrOK // k_writes is empty in the Coq case
	}

	// ---- property oracle: the schema reported after the restart is the schema created, or creation was refused ----
	res.Holds = true
	switch {
	case obs.CreateCode == 1: // refused with an error
	case obs.CreateCode == 2:
		res.Holds, res.Detail = false, fmt.Sprintf("creating a bucket with %d elements panicked instead of being rejected", nElems)
	case obs.ReloadCode != 0:
		res.Holds, res.Detail = false, fmt.Sprintf("reading the schema back after the restart failed (code %d)", obs.ReloadCode)
	default:
		c, g := obs.Created, obs.Reloaded
		// the schema the bucket was created with: the non-Epoch columns given to NewTimeBucketInfo
		var wantNames [][]byte
		var wantTypes []int
		for _, cl := range in.Cols {
			if string(cl.Name) != "Epoch" {
				wantNames = append(wantNames, cl.Name)
				wantTypes = append(wantTypes, int(c15Type(cl.Type)))
			}
		}
		switch {
		case g.TF != int64(tf.Duration) || g.RecType != int(rt):
			res.Holds, res.Detail = false, fmt.Sprintf("timeframe/record type changed: %d/%d, created %d/%d", g.TF, g.RecType, int64(tf.Duration), int(rt))
		case len(g.Names) != len(wantNames) || len(g.Types) != len(wantTypes):
			res.Holds, res.Detail = false, fmt.Sprintf("%d columns reported, %d created", len(g.Names), len(wantNames))
		default:
			for j := range wantNames {
				if string(g.Names[j]) != string(wantNames[j]) || g.Types[j] != wantTypes[j] {
					res.Holds = false
					res.Detail = fmt.Sprintf("column %d reported as %q/type %d, created as %q/type %d", j, g.Names[j], g.Types[j], wantNames[j], wantTypes[j])
					break
				}
			}
		}
		if res.Holds && (g.RecLen != c.RecLen || g.NElems != c.NElems) {
			res.Holds, res.Detail = false, fmt.Sprintf("record length/element count changed: %d/%d, created %d/%d", g.RecLen, g.NElems, c.RecLen, c.NElems)
		}
	}
	// the only known finding class left: a daily index-0 record long enough to reach the element type bytes
	// (type byte i lies at 33080+i, the record starts at 37024-recLen)
	if !res.Holds && namesOK && countOK && jan1 && obs.CreateCode == 0 && obs.Created != nil &&
		obs.Created.RecLen+nElems > 3944 {
		res.Class = "daily-jan1-write"
	}
	// ---- tags ----
	res.Tags = []string{"tf:" + in.TF, fmt.Sprintf("create=%d", obs.CreateCode), fmt.Sprintf("reload=%d", obs.ReloadCode),
		fmt.Sprintf("writes=%d", len(obs.Writes)), fmt.Sprintf("elems=%d", bucket(nElems))}
	for _, t := range []struct {
		on  bool
		tag string
	}{{in.Variable, "variable"}, {!in.Variable, "fixed"}, {res.InDomain, "in-guard"}, {!namesOK, "unstorable-name"}, {!descrOK, "unstorable-descr"},
		{!countOK, "too-many-elements"}, {jan1, "jan1-daily-write"}, {!idxOK, "index-0-write"},
		{len(obs.Files) > 1, "new-year-file"}, {len(obs.Files) > 2, "two-new-year-files"}} {
		if t.on {
			res.Tags = append(res.Tags, t.tag)
		}
	}
	hdrChanged := fmt.Sprint(obs.Hdr0) != fmt.Sprint(obs.Hdr1)
	if hdrChanged {
		res.Tags = append(res.Tags, "header-bytes-changed-by-write")
	}
	res.Nontrivial = res.InDomain && namesOK && countOK && nElems >= 2 && len(obs.Writes) >= 1
	res.Key = string(raw)
	return res, nil
}

func init() {
	Register(&Spec{
		ID:          "C15",
		CoqRequire:  "Require Import MS.Corr.C15.",
		CoqCaseType: "C15.case",
		Rule: "schemas: timeframe 1Min/5Min/15Min/1H/1D (35% forced 1D), 25% variable, year 1990-2034, 0-8 columns over the 12 fixed-width types " +
			"(40% clean; otherwise names of boundary length 30-34, long, NUL at an edge, empty, multi-byte, 'Epoch', 7% 57-64 string16 columns, " +
			"3% 1021-1027 columns), descriptions around 256 bytes; 0-4 single-record writes through Writer.WriteRecords + WAL flush at random " +
			"instants of the file's year (35% of the cases: some records in the next / previous / next-but-one year, creating new year files), " +
			"30% on Jan 1, 10% in the last hour; distinct = distinct input JSON; non-trivial = storable schema inside the " +
			"theorem's guard with >=2 elements and >=1 write",
		Gen: c15Gen,
		Run: c15RunCase,
	})
}
