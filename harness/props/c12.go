package props

import (
	"encoding/binary"
	"encoding/json"
	"fmt"
	"path/filepath"
	"sort"
	"strconv"
	"strings"
	"time"

	"github.com/alpacahq/marketstore/v4/planner"
	"github.com/alpacahq/marketstore/v4/utils"
	"github.com/alpacahq/marketstore/v4/utils/io"

	"verifharness/internal/cq"
	"verifharness/internal/fxinst"
	"verifharness/internal/rng"
)

// C12 — Row limits return the first or last N rows of the range.
// Implementation under test: QueryService.ExecuteQuery (timeframe rewriting, QueryableNrecords, SetRowLimit) ->
// planner.Parse -> executor.Reader.Read: readForward / readBackward with limit bytes, packingReader chunks,
// readSecondStage, trimResultsToRange, trimResultsToLimit — on fixed AND variable buckets of a real instance.

type c12Row struct {
	T  int64  `json:"t"`
	NS int32  `json:"ns"`
	P  []byte `json:"p"`
}
type c12Dense struct {
	Start int64 `json:"start"`
	Count int   `json:"count"`
	Step  int64 `json:"step"`
}
type c12Q struct {
	ReqTF     string `json:"req_tf"`
	S         int64  `json:"s"`
	SNs       int64  `json:"s_ns"`
	E         int64  `json:"e"`
	ENs       int64  `json:"e_ns"`
	EMax      bool   `json:"e_max"` // end = planner.MaxTime
	N         int    `json:"n"`     // 0 = no limit
	FromStart bool   `json:"from_start"`
}
type c12In struct {
	Var   bool         `json:"var"`
	TF    string       `json:"tf"`
	Cols  []fxinst.Col `json:"cols"`
	Reqs  [][]c12Row   `json:"reqs"`
	Dense *c12Dense    `json:"dense,omitempty"` // fixed only: Count rows at Start + i*Step, payload = uint32(i) padded
	Qs    []c12Q       `json:"qs"`
}

var c12VarTFs = []string{"1Sec", "1Min", "5Min", "1H", "1D"}

// a timestamp strictly inside its interval (away from the boundaries: the tick codec is C10's)
func c12VarTime(r *rng.Rand, tfs int64, y int) (int64, int32) {
	j := fxJan1(y)
	ylen := fxJan1(y+1) - j
	n := ylen / tfs
	var slot int64
	switch r.Intn(5) {
	case 0:
		slot = 1 // not slot 0 of a 1D bucket (index 0, finding F2 of C08/C09)
	case 1:
		slot = n - 1
	case 2:
		slot = n - 2
	default:
		slot = 1 + r.Range(0, n-2)
	}
	start := j + slot*tfs
	if tfs == 1 {
		return start, int32(r.Range(100000000, 800000000))
	}
	lo, hi := tfs/10+1, tfs*9/10
	return start + r.Range(lo, hi), int32(r.Range(0, 999999999))
}

func c12Gen(r *rng.Rand, i int, tier string) interface{} {
	in := c12In{Var: r.Bool()}
	var tfs int64
	forceDense := false && i == 7 // (quick tier: the > 8192-live-slot history is corpus/C12/dense_8300.json; thorough draws them at 3%)
	if forceDense {
		in.Var = false
	}
	if in.Var {
		in.TF = c12VarTFs[r.Intn(len(c12VarTFs))]
		tfs = fxTfSeconds(in.TF)
		in.Cols = fxSchema(r, 24)
	} else {
		in.TF = fxTFs[r.Intn(len(fxTFs))]
		if forceDense {
			in.TF = []string{"1Min", "5Min", "15Min"}[r.Intn(3)]
		}
		tfs = fxTfSeconds(in.TF)
		mp := 64
		if tfs < 60 {
			mp = 16
		}
		in.Cols = fxSchema(r, mp)
	}
	ny := 1 + r.Intn(3)
	if tfs < 60 && ny > 2 {
		ny = 2
	}
	var years []int
	for len(years) < ny {
		y := fxYears[r.Intn(len(fxYears))]
		if r.Chance(50) && len(years) > 0 {
			y = years[len(years)-1] + 1
		}
		dup := false
		for _, x := range years {
			dup = dup || x == y
		}
		if !dup && y <= 2100 {
			years = append(years, y)
		}
	}
	var times []int64 // all written timestamps (seconds), for choosing range bounds
	tag := byte(1)
	nreq := 1 + r.Intn(3)
	for q := 0; q < nreq; q++ {
		nrows := 1 + r.Intn(8)
		var rows []c12Row
		for k := 0; k < nrows; k++ {
			y := years[r.Intn(len(years))]
			var t int64
			var ns int32
			if in.Var {
				t, ns = c12VarTime(r, tfs, y)
				if len(times) > 0 && r.Chance(45) { // several records in one interval
					base := times[r.Intn(len(times))]
					jj := fxJan1(time.Unix(base, 0).UTC().Year())
					st := jj + (base-jj)/tfs*tfs
					if tfs == 1 {
						t, ns = st, int32(r.Range(100000000, 800000000))
					} else {
						t, ns = st+r.Range(tfs/10+1, tfs*9/10), int32(r.Range(0, 999999999))
					}
				}
			} else {
				t = fxEdgeTime(r, tfs, y)
				if r.Chance(30) { // sparse rows within the first ~2 read chunks after the start of the year (backward-scan edge)
					t = fxJan1(y) + tfs*r.Range(0, 17000)
					if t >= fxJan1(y+1) {
						t = fxJan1(y) + tfs*r.Range(0, 300)
					}
				}
				if tfs == 86400 && time.Unix(t, 0).UTC().YearDay() == 1 {
					t += 86400
				}
			}
			rows = append(rows, c12Row{T: t, NS: ns, P: fxPayload(r, in.Cols, tag)})
			times = append(times, t)
			tag++
		}
		if !r.Chance(30) {
			sort.SliceStable(rows, func(a, b int) bool { return rows[a].T < rows[b].T })
		}
		in.Reqs = append(in.Reqs, rows)
	}
	if !in.Var && tfs >= 60 && tfs <= 3600 && ((tier == "thorough" && r.Chance(3)) || forceDense) {
		// more than 8192 (sometimes more than 16384) live slots in one year file: the chunk loops
		cnt := 8192 + r.Intn(600)
		if !forceDense && r.Chance(40) && 366*86400/tfs > 20000 {
			cnt = 16384 + r.Intn(600)
		}
		if int64(cnt) > 360*86400/tfs {
			cnt = int(360 * 86400 / tfs)
		}
		in.Cols = []fxinst.Col{{Name: "V", Type: "uint32"}}
		in.Reqs = nil
		y := years[0]
		in.Dense = &c12Dense{Start: fxJan1(y) + tfs*int64(r.Intn(50)), Count: cnt, Step: tfs}
		times = []int64{in.Dense.Start, in.Dense.Start + int64(cnt/2)*tfs, in.Dense.Start + int64(cnt-1)*tfs}
	}
	sort.Slice(times, func(a, b int) bool { return times[a] < times[b] })
	total := len(times)
	if in.Dense != nil {
		total = in.Dense.Count
	}
	// queries
	nq := 3 + r.Intn(4)
	pickN := func() int {
		switch r.Intn(8) {
		case 0:
			return 1
		case 1:
			return 2
		case 2:
			return 3
		case 3:
			return total
		case 4:
			return total + 1 + r.Intn(3)
		case 5:
			if total > 1 {
				return total - 1
			}
			return 1
		case 6:
			if in.Dense != nil {
				return []int{8191, 8192, 8193, 16384, 16385, 100}[r.Intn(6)]
			}
			return 1000
		}
		return 1 + r.Intn(total+1)
	}
	bound := func() (int64, int64) { // a range bound near the data
		t := times[r.Intn(len(times))]
		jj := fxJan1(time.Unix(t, 0).UTC().Year())
		st := jj + (t-jj)/tfs*tfs
		switch r.Intn(7) {
		case 0:
			return st, 0 // interval boundary
		case 1:
			return st + tfs, 0
		case 2:
			return t, 0
		case 3:
			return t, int64(r.Range(0, 999999999))
		case 4:
			if tfs > 1 {
				return st + r.Range(0, tfs-1), int64(r.Range(0, 999999999))
			}
			return st, int64(r.Range(0, 999999999))
		case 5:
			return st - 1, 999999999
		}
		return t + int64(r.Range(-2, 2))*tfs, 0
	}
	for k := 0; k < nq; k++ {
		q := c12Q{ReqTF: in.TF, N: pickN(), FromStart: r.Bool()}
		if k == 0 { // every case: the last total+1 rows of all time (the backward scan walks every chunk of every file)
			q.FromStart, q.N = false, total+1
		}
		rk := r.Intn(5)
		if k == 0 {
			rk = 0
		}
		switch rk {
		case 0, 1: // all time
			q.S, q.EMax = 0, true
		case 2: // bounded both sides
			q.S, q.SNs = bound()
			q.E, q.ENs = bound()
			if q.E < q.S && !r.Chance(10) {
				q.S, q.E, q.SNs, q.ENs = q.E, q.S, q.ENs, q.SNs
			}
		case 3:
			q.S, q.SNs = bound()
			q.EMax = true
		default:
			q.S = 0
			q.E, q.ENs = bound()
		}
		if q.S < 0 {
			q.S, q.SNs = 0, 0
		}
		if q.E < 0 {
			q.E, q.ENs = 0, 0
		}
		if r.Chance(6) && k != 0 { // a non-queryable request timeframe: the limit is scaled by QueryableNrecords
			switch in.TF {
			case "1Min":
				q.ReqTF = []string{"2Min", "3Min", "60Sec"}[r.Intn(3)]
			case "1H":
				q.ReqTF = "3H"
			case "1D":
				q.ReqTF = "1W"
			case "2H":
				q.ReqTF = "6H"
			case "1Sec":
				q.ReqTF = "5Sec"
			}
		}
		if r.Chance(8) && k != 0 {
			q.N = 0
		}
		in.Qs = append(in.Qs, q)
	}
	if in.Var && len(times) > 0 && r.Chance(60) {
		// "last N" reaching one slot into the previous year file (the bufferMeta over-read class)
		ymax := time.Unix(times[len(times)-1], 0).UTC().Year()
		seen := map[int64]bool{}
		for _, t := range times {
			if time.Unix(t, 0).UTC().Year() == ymax {
				seen[(t-fxJan1(ymax))/tfs] = true
			}
		}
		in.Qs = append(in.Qs, c12Q{ReqTF: in.TF, S: 0, EMax: true, N: len(seen) + 1 + r.Intn(2), FromStart: false})
	}
	return in
}

type c12ObsRec struct {
	T  int64  `json:"t"`
	NS int64  `json:"ns"`
	P  []byte `json:"p"`
}
type c12Slot struct {
	year int
	idx  int64 // (t - Jan 1) / tf
	recs []c12ObsRec
}
type c12ObsQ struct {
	Code  int         `json:"code"`
	Err   string      `json:"err,omitempty"`
	Rows  []c12ObsRec `json:"rows"`
	Base  []c12ObsRec `json:"-"` // the same query without a limit
	BCode int         `json:"base_code"`
}
type c12Obs struct {
	RecLen int       `json:"reclen"`
	Years  []int     `json:"years"`
	NState int       `json:"nstate"`
	Qs     []c12ObsQ `json:"qs"`
}

func c12Exec(inst *fxinst.Inst, key string, variable bool, start, end time.Time, n int, fromStart bool) (code int, errs string, out []c12ObsRec) {
	defer func() {
		if p := recover(); p != nil {
			code, errs, out = 2, fmt.Sprint(p), nil
		}
	}()
	csm, e := inst.Q.ExecuteQuery(io.NewTimeBucketKey(key), start, end, n, fromStart, nil)
	if e != nil {
		return 1, e.Error(), nil
	}
	for _, cs := range csm {
		eps, ps, _, _ := fxinst.Rows(cs)
		for i := range eps {
			rec := c12ObsRec{T: eps[i], P: ps[i]}
			if variable && len(ps[i]) >= 4 {
				rec.NS = int64(int32(binary.LittleEndian.Uint32(ps[i][len(ps[i])-4:])))
				rec.P = ps[i][:len(ps[i])-4]
			}
			out = append(out, rec)
		}
	}
	return 0, "", out
}

// c12DenseRun reports whether rows are exactly the dense rows a..a+len-1 (row i: T = Start+i*Step, payload = le32(i) padded).
func c12DenseRun(d *c12Dense, rows []c12ObsRec) (a int64, ok bool) {
	if d == nil {
		return 0, false
	}
	if len(rows) == 0 {
		return 0, true
	}
	if (rows[0].T-d.Start)%d.Step != 0 {
		return 0, false
	}
	a = (rows[0].T - d.Start) / d.Step
	for k, rc := range rows {
		i := a + int64(k)
		if i < 0 || i >= int64(d.Count) || rc.T != d.Start+i*d.Step || rc.NS != 0 || len(rc.P) != 4 ||
			binary.LittleEndian.Uint32(rc.P) != uint32(i) {
			return 0, false
		}
	}
	return a, true
}

// c12SpanGarbage recognises the pattern of the class variable-last-limit-spans-year-files (fixed in /repo ca55ae9; used for
// the input-distribution tag only): a LAST-n scan over the 24-byte index slots of a variable
// bucket that, in an earlier year file, reads (in whole 8192-slot chunks from the end of the file plan) more live
// slots than were still missing, after a later year file already contributed slots.
func c12SpanGarbage(tfs int64, slots []c12Slot, q c12Q, n int) bool {
	const recLen, hdr = int64(24), int64(37024)
	yearOf := func(t int64) int { return time.Unix(t, 0).UTC().Year() }
	idxOf := func(t int64) int64 {
		j := fxJan1(yearOf(t))
		if tfs == 86400 {
			return (t - j) / 86400
		}
		return 1 + (t-j)/tfs
	}
	sy := yearOf(q.S)
	ey := 30579
	if !q.EMax {
		ey = yearOf(q.E)
	}
	// per year file (descending): chunk numbers of the live slots inside the plan, ascending offset
	byYear := map[int][]int64{}
	var years []int
	for _, s := range slots {
		y := s.year
		if y < sy || y > ey {
			continue
		}
		nsl := (fxJan1(y+1) - fxJan1(y)) / tfs
		so := hdr
		if y == sy {
			so = hdr + (idxOf(q.S)-1)*recLen
		}
		eo := hdr + nsl*recLen
		if !q.EMax && y == ey {
			eo = hdr + (idxOf(q.E)-1)*recLen + recLen
		}
		ln := eo - so
		if mx := nsl*recLen + recLen; ln > mx {
			ln = mx
		}
		idx := s.idx + 1
		if tfs == 86400 {
			idx = s.idx
		}
		off := hdr + (idx-1)*recLen
		if off < so || off+recLen > so+ln {
			continue
		}
		if _, ok := byYear[y]; !ok {
			years = append(years, y)
		}
		byYear[y] = append(byYear[y], (so+ln-off-recLen)/(8192*recLen))
	}
	sort.Sort(sort.Reverse(sort.IntSlice(years)))
	left, seen := n, false
	for _, y := range years {
		cs := byYear[y]
		if len(cs) < left {
			left -= len(cs)
			seen = seen || len(cs) > 0
			continue
		}
		if !seen || left < 1 {
			return false
		}
		c := cs[len(cs)-left] // the slot that completes the request
		cnt := 0
		for _, x := range cs {
			if x <= c {
				cnt++
			}
		}
		return cnt > left
	}
	return false
}

func c12Tle(as, an, bs, bn int64) bool { return as < bs || (as == bs && an <= bn) }

func c12RecsEq(a, b []c12ObsRec) bool {
	if len(a) != len(b) {
		return false
	}
	for i := range a {
		if a[i].T != b[i].T || a[i].NS != b[i].NS || string(a[i].P) != string(b[i].P) {
			return false
		}
	}
	return true
}

func c12Run(raw json.RawMessage) (res Result, err error) {
	var in c12In
	if err = json.Unmarshal(raw, &in); err != nil {
		return
	}
	tfs := fxTfSeconds(in.TF)
	if tfs == 0 || len(in.Cols) == 0 {
		return res, fmt.Errorf("bad input")
	}
	inst, err := fxinst.New()
	if err != nil {
		return res, err
	}
	defer inst.Close()
	key := "SYM/" + in.TF + "/ATT"
	tbk := io.NewTimeBucketKey(key)
	cols := in.Cols
	if in.Var {
		cols = append(append([]fxinst.Col{}, in.Cols...), fxinst.Col{Name: "Nanoseconds", Type: "int32"})
	}
	// ---- writes ----
	var werr error
	func() {
		defer func() {
			if p := recover(); p != nil {
				werr = fmt.Errorf("panic in write: %v", p)
			}
		}()
		for _, rq := range in.Reqs {
			rows := make([]fxRow, len(rq))
			for i, x := range rq {
				p := append([]byte{}, x.P...)
				if in.Var {
					var b [4]byte
					binary.LittleEndian.PutUint32(b[:], uint32(x.NS))
					p = append(p, b[:]...)
				}
				rows[i] = fxRow{T: x.T, P: p}
			}
			if werr = fxWrite(inst, key, cols, rows, in.Var); werr != nil {
				return
			}
		}
		if in.Dense != nil {
			rows := make([]fxRow, in.Dense.Count)
			plen := fxinst.PayloadLen(cols)
			for i := range rows {
				p := make([]byte, plen)
				binary.LittleEndian.PutUint32(p, uint32(i))
				rows[i] = fxRow{T: in.Dense.Start + int64(i)*in.Dense.Step, P: p}
			}
			werr = fxWrite(inst, key, cols, rows, false)
		}
	}()
	if werr != nil {
		return res, fmt.Errorf("write failed: %v", werr)
	}
	obs := c12Obs{}
	if tbi, e := inst.Cat.GetLatestTimeBucketInfoFromKey(tbk); e == nil {
		obs.RecLen = int(tbi.GetRecordLength())
	}
	files, _ := filepath.Glob(filepath.Join(tbk.GetPathToYearFiles(inst.Root), "*.bin"))
	for _, f := range files {
		if y, e := strconv.Atoi(strings.TrimSuffix(filepath.Base(f), ".bin")); e == nil {
			obs.Years = append(obs.Years, y)
		}
	}
	sort.Ints(obs.Years)
	// ---- the stored state, as the unlimited all-time query shows it ----
	scode, serr, state := c12Exec(inst, key, in.Var, time.Unix(0, 0).UTC(), planner.MaxTime, 0, false)
	if scode != 0 {
		return res, fmt.Errorf("state query failed: %s", serr)
	}
	obs.NState = len(state)
	type slot = c12Slot
	var slots []slot
	slotOf := func(t int64) (int, int64) {
		y := time.Unix(t, 0).UTC().Year()
		return y, (t - fxJan1(y)) / tfs
	}
	for _, rc := range state {
		y, ix := slotOf(rc.T)
		if n := len(slots); n > 0 && slots[n-1].year == y && slots[n-1].idx == ix {
			slots[n-1].recs = append(slots[n-1].recs, rc)
		} else {
			slots = append(slots, slot{y, ix, []c12ObsRec{rc}})
		}
	}
	coqRec := func(rc c12ObsRec) string { return cq.Tuple(cq.Z(rc.T), cq.Z(rc.NS), cq.Hex(rc.P)) }
	var coqSlots, coqYears, coqQs []string
	coqDense := "None"
	dense := in.Dense
	if dense != nil {
		// the state must BE the dense series (checked here), then it travels as (start, count, step)
		if a, ok := c12DenseRun(dense, state); ok && a == 0 && len(state) == dense.Count && len(in.Reqs) == 0 {
			coqDense = cq.Some(cq.Tuple(cq.Z(dense.Start), cq.Z(int64(dense.Count)), cq.Z(dense.Step)))
		} else {
			dense = nil
		}
	}
	for _, s := range slots {
		if dense != nil {
			break
		}
		var l []string
		for _, rc := range s.recs {
			l = append(l, coqRec(rc))
		}
		coqSlots = append(coqSlots, cq.Tuple(cq.Z(s.recs[0].T), cq.List(l)))
	}
	for _, y := range obs.Years {
		coqYears = append(coqYears, cq.Z(int64(y)))
	}
	// ---- queries ----
	res.Holds = true
	anyGuard := false
	spanSeen := false
	sortedState := true
	for i := 1; i < len(state); i++ {
		if !c12Tle(state[i-1].T, state[i-1].NS, state[i].T, state[i].NS) {
			sortedState = false
		}
	}
	for _, q := range in.Qs {
		qkey := "SYM/" + q.ReqTF + "/ATT"
		start := time.Unix(q.S, q.SNs).UTC()
		end := planner.MaxTime
		if !q.EMax {
			end = time.Unix(q.E, q.ENs).UTC()
		}
		var oq c12ObsQ
		oq.Code, oq.Err, oq.Rows = c12Exec(inst, qkey, in.Var, start, end, q.N, q.FromStart)
		if q.N != 0 {
			oq.BCode, _, oq.Base = c12Exec(inst, qkey, in.Var, start, end, 0, false)
		}
		if in.Dense != nil && len(oq.Rows) > 50 {
			oq2 := oq
			oq2.Rows = append(append([]c12ObsRec{}, oq.Rows[:3]...), oq.Rows[len(oq.Rows)-3:]...)
			oq2.Err = fmt.Sprintf("%d rows (first/last 3 shown)", len(oq.Rows))
			obs.Qs = append(obs.Qs, oq2)
		} else {
			obs.Qs = append(obs.Qs, oq)
		}
		var l []string
		run := "None"
		if a, ok := c12DenseRun(dense, oq.Rows); ok && dense != nil {
			run = cq.Some(cq.Tuple(cq.Z(a), cq.Z(int64(len(oq.Rows)))))
		} else {
			for _, rc := range oq.Rows {
				l = append(l, coqRec(rc))
			}
		}
		reqS := int64(0)
		if cd, e := utils.CandleDurationFromString(q.ReqTF); e == nil {
			reqS = int64(cd.Duration() / time.Second)
		}
		re := "None"
		if !q.EMax {
			re = cq.Some(cq.Tuple(cq.Z(q.E), cq.Z(q.ENs)))
		}
		lim := "None"
		if q.N != 0 {
			lim = cq.Some(cq.Tuple(cq.Bool(q.FromStart), cq.Z(int64(q.N))))
		}
		coqQs = append(coqQs, cq.Rec(cq.F("q_req", cq.Z(reqS)), cq.F("q_rs", cq.Tuple(cq.Z(q.S), cq.Z(q.SNs))), cq.F("q_re", re),
			cq.F("q_lim", lim), cq.F("q_code", cq.Nat(oq.Code)), cq.F("q_rows", cq.List(l)), cq.F("q_run", run)))
		if q.N == 0 {
			continue
		}
		// ---- oracle: the limited answer is the first/last N rows of the same query without a limit ----
		ok := oq.Code == 0 && oq.BCode == 0
		if ok {
			want := oq.Base
			if len(want) > q.N {
				if q.FromStart {
					want = want[:q.N]
				} else {
					want = want[len(want)-q.N:]
				}
			}
			ok = c12RecsEq(oq.Rows, want)
		} else if oq.Code == oq.BCode && oq.Code == 1 {
			ok = true // both rejected alike (e.g. nothing stored under the rewritten key)
		}
		// ---- the guard, mirrored: Corr/C12.q_guard ----
		scaled := reqS != tfs
		guard := !scaled && q.N >= 1 && len(obs.Years) > 0
		if guard && in.Var {
			// scanned index slots: intervals from interval(start) to interval(end)
			sy, si := slotOf(q.S)
			ey, ei := 1<<30, int64(0)
			if !q.EMax {
				ey, ei = slotOf(q.E)
			}
			var cand []c12ObsRec
			ns := 0
			for _, s := range slots {
				if (s.year > sy || (s.year == sy && s.idx >= si)) && (s.year < ey || (s.year == ey && s.idx <= ei)) {
					ns++
					cand = append(cand, s.recs...)
				}
			}
			side := true
			for _, rc := range cand {
				if q.FromStart && !c12Tle(q.S, q.SNs, rc.T, rc.NS) {
					side = false
				}
				if !q.FromStart && !q.EMax && !c12Tle(rc.T, rc.NS, q.E, q.ENs) {
					side = false
				}
			}
			guard = sortedState && (ns <= q.N || side)
		}
		span := in.Var && !scaled && !q.FromStart && q.N >= 1 && c12SpanGarbage(tfs, slots, q, q.N)
		if span {
			spanSeen = true // pre-ca55ae9 class variable-last-limit-spans-year-files (fixed): tag only
		}
		if guard {
			anyGuard = true
		}
		if !ok && res.Holds {
			res.Holds = false
			res.Detail = fmt.Sprintf("query %+v: %d rows (code %d), the unlimited query has %d rows (code %d): not its first/last N",
				q, len(oq.Rows), oq.Code, len(oq.Base), oq.BCode)
			switch {
			case scaled:
				res.Class = "limit-scaled-by-timeframe-ratio"
			case in.Var && !guard:
				res.Class = "variable-limit-counts-intervals"
			}
		}
	}
	res.Obs = obs
	res.Coq = cq.Rec(cq.F("k_var", cq.Bool(in.Var)), cq.F("k_tfs", cq.Z(tfs)), cq.F("k_reclen", cq.Z(int64(obs.RecLen))),
		cq.F("k_years", cq.List(coqYears)), cq.F("k_slots", cq.List(coqSlots)), cq.F("k_dense", coqDense), cq.F("k_qs", cq.List(coqQs)))
	res.InDomain = anyGuard
	kind := "fixed"
	if in.Var {
		kind = "variable"
	}
	res.Tags = []string{kind, "tf:" + in.TF, fmt.Sprintf("state=%d", bucket(len(state))), fmt.Sprintf("years=%d", len(obs.Years)),
		fmt.Sprintf("slots=%d", bucket(len(slots)))}
	if in.Dense != nil {
		res.Tags = append(res.Tags, fmt.Sprintf("dense>%d", in.Dense.Count/8192*8192))
	}
	for _, q := range in.Qs {
		switch {
		case q.N == 0:
			res.Tags = append(res.Tags, "q:nolimit")
		case q.FromStart:
			res.Tags = append(res.Tags, "q:first")
		default:
			res.Tags = append(res.Tags, "q:last")
		}
		if q.ReqTF != in.TF {
			res.Tags = append(res.Tags, "q:scaled-timeframe")
		}
	}
	if spanSeen {
		res.Tags = append(res.Tags, "q:last-spans-year-files")
	}
	if res.InDomain {
		res.Tags = append(res.Tags, "in-domain")
	}
	res.Nontrivial = res.InDomain && len(state) >= 2
	res.Key = string(raw)
	return res, nil
}

func init() {
	Register(&Spec{
		ID:          "C12",
		CoqRequire:  "Require Import MS.Corr.C12.",
		CoqCaseType: "C12.case",
		Rule: "one bucket per case on a real instance, fixed (timeframes 1Sec..1D) or variable (1Sec,1Min,5Min,1H,1D; several records per " +
			"interval, nanoseconds) with 1-3 write requests over 1-3 (often adjacent) years, ~1% fixed buckets with > 8192 / > 16384 live " +
			"slots in one year file; 3-6 queries per case: all-time / bounded on one or both sides (bounds on records, interval " +
			"boundaries, inside intervals, +-1 interval), N in {1,2,3,total-1,total,total+k,8191..16385,random}, from the start or the " +
			"end, 6% with a non-queryable request timeframe, each limited query paired with its unlimited twin; distinct = distinct " +
			"input JSON; non-trivial = some query inside the theorem's guard on a bucket with >= 2 stored records",
		Gen: c12Gen,
		Run: c12Run,
	})
}
