package props

import (
	"encoding/binary"
	"encoding/csv"
	"encoding/json"
	"fmt"
	goio "io"
	"math"
	"os"
	"path/filepath"
	"strconv"
	"strings"

	"github.com/alpacahq/marketstore/v4/cmd/connect/loader"
	"github.com/alpacahq/marketstore/v4/utils/io"
	"github.com/alpacahq/marketstore/v4/utils/log"

	"verifharness/internal/cq"
	"verifharness/internal/rng"
)

// C33 — CSV import loads every row or reports an error.
// Implementation under test: loader.ReadMetadata (real csv.Reader, real column mapping) and the
// loader.CSVtoNumpyMulti chunk loop driven exactly as cmd/connect/session/load.go:54-91 drives it
// (that loop is inline in an unexported method that needs an API client; c33Loop is its replica with
// the chunk size as a parameter and the datasets collected instead of sent).

type c33Col struct {
	Name string `json:"name"`
	Type string `json:"type"`
}
type c33Line struct {
	Text string `json:"text"` // the raw csv line (without newline)
	Kind string `json:"kind"` // ok | fieldcount | badquote | badcell | badtime
}
type c33In struct {
	Cols     []c33Col  `json:"cols"`   // bucket columns after Epoch (DSV order)
	Header   []string  `json:"header"` // csv header row (Epoch first)
	Lines    []c33Line `json:"lines"`
	Chunk    int       `json:"chunk"`
	Variable bool      `json:"variable"`
}

var c33Types = []string{"float32", "float64", "byte", "int16", "int32", "int64", "uint8", "uint16", "uint32", "uint64", "bool"}

func c33Elem(t string) io.EnumElementType {
	switch t {
	case "float32":
		return io.FLOAT32
	case "float64":
		return io.FLOAT64
	case "byte":
		return io.BYTE
	case "int16":
		return io.INT16
	case "int32":
		return io.INT32
	case "int64":
		return io.INT64
	case "uint8":
		return io.UINT8
	case "uint16":
		return io.UINT16
	case "uint32":
		return io.UINT32
	case "uint64":
		return io.UINT64
	case "bool":
		return io.BOOL
	}
	return io.NONE
}

func c33GoodCell(r *rng.Rand, t string) string {
	switch t {
	case "float32", "float64":
		return []string{"1.5", "-0", "3", "1e10", "2.5E-3", "NaN", "+Inf", "0.1", "123456.789", "-7.25", "0x1p-2", "inf", "1e-50", ".5"}[r.Intn(14)]
	case "byte":
		return []string{"0", "-128", "127", "5", "+7", "-1", "007"}[r.Intn(7)]
	case "int16":
		return []string{"0", "-32768", "32767", "12", "-5"}[r.Intn(5)]
	case "int32":
		return []string{"0", "-2147483648", "2147483647", "100000", "-42"}[r.Intn(5)]
	case "int64":
		return []string{"0", "-9223372036854775808", "9223372036854775807", "1600000000", "-3", "+15"}[r.Intn(6)]
	case "uint8":
		return []string{"0", "255", "9", "010"}[r.Intn(4)]
	case "uint16":
		return []string{"0", "65535", "1234"}[r.Intn(3)]
	case "uint32":
		return []string{"0", "4294967295", "77"}[r.Intn(3)]
	case "uint64":
		return []string{"0", "18446744073709551615", "31"}[r.Intn(3)]
	case "bool":
		return []string{"1", "t", "T", "TRUE", "true", "True", "0", "f", "F", "FALSE", "false", "False"}[r.Intn(12)]
	}
	return "0"
}

func c33BadCell(r *rng.Rand, t string) string {
	switch t {
	case "float32":
		return []string{"abc", "", "1e", "3.5e39", "1..2", "0x"}[r.Intn(6)]
	case "float64":
		return []string{"abc", "", "e5", "1e400", "--1"}[r.Intn(5)]
	case "byte":
		return []string{"128", "-129", "1.5", "", "x", "+", "1_0"}[r.Intn(7)]
	case "int16":
		return []string{"32768", "-32769", "1e3", ""}[r.Intn(4)]
	case "int32":
		return []string{"2147483648", "-2147483649", "0x10", " 1"}[r.Intn(4)]
	case "int64":
		return []string{"9223372036854775808", "-9223372036854775809", "1.0", "-", "99999999999999999999999"}[r.Intn(5)]
	case "uint8":
		return []string{"256", "-1", "+1", ""}[r.Intn(4)]
	case "uint16":
		return []string{"65536", "-0", "a"}[r.Intn(3)]
	case "uint32":
		return []string{"4294967296", "1e2", "+5"}[r.Intn(3)]
	case "uint64":
		return []string{"18446744073709551616", "-1", "1 "}[r.Intn(3)]
	case "bool":
		return []string{"yes", "2", "tRUE", ""}[r.Intn(4)]
	}
	return "?"
}

func c33GoodTime(r *rng.Rand, i int) string {
	base := int64(1600000000 + 60*i)
	switch r.Intn(10) {
	case 0:
		return fmt.Sprintf("%d.%03d", base, r.Intn(1000))
	case 1:
		return fmt.Sprintf("%d.%09d", base, r.Intn(1000000000))
	case 2:
		return fmt.Sprintf("%d.5", base)
	case 3:
		return fmt.Sprintf("+%d", base)
	case 4:
		return fmt.Sprintf("%d.-5", base) // negative fraction: time.Unix normalises
	case 5:
		return fmt.Sprintf("%d.1234567890", base) // more than 9 fraction digits: multiplier int64(Pow10(-1)) = 0
	case 6:
		return fmt.Sprintf("%d.1.2", base) // third part ignored
	case 7:
		return fmt.Sprintf("-%d", r.Intn(100000))
	}
	return fmt.Sprintf("%d", base)
}

func c33BadTime(r *rng.Rand) string {
	return []string{"x123", "12.", "", "2020-01-01", "1.5e3", ".5", "12.ab", "99999999999999999999"}[r.Intn(8)]
}

func c33Gen(r *rng.Rand, i int, tier string) interface{} {
	maxRows := 10
	if tier == "thorough" {
		maxRows = 60
	}
	in := c33In{Variable: r.Chance(30)}
	nc := 1 + r.Intn(5)
	for j := 0; j < nc; j++ {
		in.Cols = append(in.Cols, c33Col{fmt.Sprintf("C%d", j), c33Types[r.Intn(len(c33Types))]})
	}
	// csv layout: Epoch first, then the bucket columns in a random order, optionally an unused column
	order := make([]int, nc)
	for j := range order {
		order[j] = j
	}
	for j := nc - 1; j > 0; j-- {
		k := r.Intn(j + 1)
		order[j], order[k] = order[k], order[j]
	}
	extraAt := -1
	if r.Chance(30) {
		extraAt = 1 + r.Intn(nc+1)
	}
	in.Header = []string{"Epoch"}
	var layout []int // csv column -> bucket column index, -1 = unused
	for _, j := range order {
		layout = append(layout, j)
	}
	if extraAt >= 0 {
		layout = append(layout[:extraAt-1], append([]int{-1}, layout[extraAt-1:]...)...)
	}
	for _, j := range layout {
		if j < 0 {
			in.Header = append(in.Header, "Unused")
			continue
		}
		name := in.Cols[j].Name
		switch r.Intn(6) {
		case 0:
			name = strings.ToLower(name)
		case 1:
			name = " " + name + " "
		}
		in.Header = append(in.Header, name)
	}
	clean := r.Chance(45)
	n := r.Intn(maxRows + 1)
	for li := 0; li < n; li++ {
		kind := "ok"
		if !clean {
			switch k := r.Intn(100); {
			case k < 7:
				kind = "fieldcount"
			case k < 11:
				kind = "badquote"
			case k < 17:
				kind = "badcell"
			case k < 22:
				kind = "badtime"
			}
		}
		fields := []string{c33GoodTime(r, li)}
		if kind == "badtime" {
			fields[0] = c33BadTime(r)
		}
		badAt := r.Intn(len(layout))
		for ci, j := range layout {
			switch {
			case j < 0:
				fields = append(fields, "u")
			case kind == "badcell" && ci == badAt:
				fields = append(fields, c33BadCell(r, in.Cols[j].Type))
			case kind == "badcell" && layout[badAt] < 0 && ci == (badAt+1)%len(layout):
				fields = append(fields, c33BadCell(r, in.Cols[j].Type))
			default:
				fields = append(fields, c33GoodCell(r, in.Cols[j].Type))
			}
		}
		if kind == "badcell" && layout[badAt] < 0 && len(layout) == 1 {
			kind = "ok"
		}
		switch kind {
		case "fieldcount":
			if r.Bool() || len(fields) <= 1 {
				fields = append(fields, "9")
			} else {
				fields = fields[:len(fields)-1]
			}
		case "badquote":
			fields[len(fields)-1] = fields[len(fields)-1] + "\"x"
		}
		in.Lines = append(in.Lines, c33Line{strings.Join(fields, ","), kind})
	}
	in.Chunk = 1 + r.Intn(n+2)
	return in
}

type c33Obs struct {
	MetaErr string            `json:"meta_err,omitempty"`
	Index   []int             `json:"column_index,omitempty"`
	Events  []string          `json:"events,omitempty"` // "row:<n fields>" | "err:<msg>"
	Code    int               `json:"code"`
	Rows    int               `json:"rows"`
	Chunks  int               `json:"chunks"`
	Cols    map[string][]byte `json:"cols,omitempty"`
	Names   []string          `json:"names,omitempty"`
}

// c33Loop is cmd/connect/session/load.go:54-91 with the chunk size as a parameter; every non-nil
// dataset is "written" by appending its columns to out.
func c33Loop(reader *csv.Reader, tbk io.TimeBucketKey, cvm *loader.CSVMetadata, chunk int, isVariable bool, obs *c33Obs) (code int) {
	defer func() {
		if p := recover(); p != nil {
			code = 2
		}
	}()
	for {
		npm, endReached, err := loader.CSVtoNumpyMulti(reader, tbk, cvm, chunk, isVariable)
		if err != nil {
			return 1
		}
		if npm != nil {
			obs.Chunks++
			obs.Rows += npm.Length
			if obs.Names == nil {
				obs.Names = append([]string{}, npm.ColumnNames...)
			}
			for i, name := range npm.ColumnNames {
				obs.Cols[name] = append(obs.Cols[name], npm.ColumnData[i]...)
			}
		}
		if endReached {
			break
		}
	}
	return 0
}

// c33Expect parses one cell independently of the loader (ground truth for the oracle).
func c33Expect(t, s string) ([]byte, bool) {
	switch t {
	case "float32":
		v, err := strconv.ParseFloat(s, 32)
		if err != nil {
			return nil, false
		}
		b := make([]byte, 4)
		binary.LittleEndian.PutUint32(b, math.Float32bits(float32(v)))
		return b, true
	case "float64":
		v, err := strconv.ParseFloat(s, 64)
		if err != nil {
			return nil, false
		}
		b := make([]byte, 8)
		binary.LittleEndian.PutUint64(b, math.Float64bits(v))
		return b, true
	case "bool":
		v, err := strconv.ParseBool(s)
		if err != nil {
			return nil, false
		}
		if v {
			return []byte{1}, true
		}
		return []byte{0}, true
	}
	bits := map[string]int{"byte": 8, "int16": 16, "int32": 32, "int64": 64, "uint8": 8, "uint16": 16, "uint32": 32, "uint64": 64}[t]
	b := make([]byte, 8)
	if strings.HasPrefix(t, "u") {
		v, err := strconv.ParseUint(s, 10, bits)
		if err != nil {
			return nil, false
		}
		binary.LittleEndian.PutUint64(b, v)
	} else {
		v, err := strconv.ParseInt(s, 10, bits)
		if err != nil {
			return nil, false
		}
		binary.LittleEndian.PutUint64(b, uint64(v))
	}
	return b[:bits/8], true
}

// c33PlainTime: "[+]digits" or "[+]digits.d{1,9}" -> (seconds, nanoseconds); other forms are not judged.
func c33PlainTime(s string) (sec, ns int64, ok bool) {
	s = strings.TrimPrefix(s, "+")
	parts := strings.Split(s, ".")
	if len(parts) > 2 || parts[0] == "" || len(parts[0]) > 15 {
		return 0, 0, false
	}
	for _, p := range parts {
		for _, ch := range p {
			if ch < '0' || ch > '9' {
				return 0, 0, false
			}
		}
	}
	for _, ch := range parts[0] {
		sec = sec*10 + int64(ch-'0')
	}
	if len(parts) == 2 {
		if len(parts[1]) == 0 || len(parts[1]) > 9 {
			return 0, 0, false
		}
		for _, ch := range parts[1] {
			ns = ns*10 + int64(ch-'0')
		}
		for k := len(parts[1]); k < 9; k++ {
			ns *= 10
		}
	}
	return sec, ns, true
}

func c33Run(raw json.RawMessage) (res Result, err error) {
	var in c33In
	if err = json.Unmarshal(raw, &in); err != nil {
		return
	}
	log.SetLevel(log.FATAL)
	dir, err := os.MkdirTemp("", "vc33")
	if err != nil {
		return
	}
	defer os.RemoveAll(dir)
	var sb strings.Builder
	sb.WriteString(strings.Join(in.Header, ",") + "\n")
	for _, l := range in.Lines {
		sb.WriteString(l.Text + "\n")
	}
	dataPath, ctlPath := filepath.Join(dir, "data.csv"), filepath.Join(dir, "ctl.yaml")
	if err = os.WriteFile(dataPath, []byte(sb.String()), 0o600); err != nil {
		return
	}
	if err = os.WriteFile(ctlPath, []byte("firstRowHasColumnNames: true\ntimeFormat: \"timestamp\"\ntimeZone: \"UTC\"\n"), 0o600); err != nil {
		return
	}
	dsv := []io.DataShape{{Name: "Epoch", Type: io.INT64}}
	for _, c := range in.Cols {
		dsv = append(dsv, io.DataShape{Name: c.Name, Type: c33Elem(c.Type)})
	}
	obs := c33Obs{Cols: map[string][]byte{}}
	// ---- the event stream the real csv.Reader yields for this file (after the header row) ----
	var coqEvs []string
	floatCells := map[string]bool{}
	var coqFloats []string
	colOfCSV := map[int]string{} // csv column -> element type name (filled from the real ColumnIndex below)
	{
		f, e := os.Open(dataPath)
		if e != nil {
			return res, e
		}
		rd := csv.NewReader(f)
		if _, e := rd.Read(); e != nil { // header (sets FieldsPerRecord)
			f.Close()
			return res, fmt.Errorf("header: %v", e)
		}
		for {
			rec, e := rd.Read()
			if e == goio.EOF {
				break
			}
			if e != nil {
				obs.Events = append(obs.Events, "err:"+e.Error())
				coqEvs = append(coqEvs, "None")
				continue
			}
			obs.Events = append(obs.Events, fmt.Sprintf("row:%d", len(rec)))
			var fs []string
			for _, s := range rec {
				fs = append(fs, cq.Hex([]byte(s)))
			}
			coqEvs = append(coqEvs, cq.Some(cq.List(fs)))
		}
		f.Close()
	}
	// ---- the real import ----
	dataFD, e := os.Open(dataPath)
	if e != nil {
		return res, e
	}
	defer dataFD.Close()
	ctlFD, e := os.Open(ctlPath)
	if e != nil {
		return res, e
	}
	reader, cvm, e := loader.ReadMetadata(dataFD, ctlFD, dsv)
	if e != nil {
		return res, fmt.Errorf("ReadMetadata: %v", e) // the generator always produces a mappable header
	}
	obs.Index = cvm.ColumnIndex
	tbk := io.NewTimeBucketKey("SYM/1Min/CSV")
	obs.Code = c33Loop(reader, *tbk, cvm, in.Chunk, in.Variable, &obs)
	res.Obs = obs
	// ---- Coq case ----
	var coqCols []string
	for j, c := range in.Cols {
		idx := cvm.ColumnIndex[3+j]
		coqCols = append(coqCols, cq.Tuple(cq.Z(int64(c33Elem(c.Type))), cq.Nat(idx)))
		colOfCSV[idx] = c.Type
	}
	// record strconv.ParseFloat for every cell of a float column in every record of the stream
	{
		f, _ := os.Open(dataPath)
		rd := csv.NewReader(f)
		rd.Read()
		for {
			rec, e := rd.Read()
			if e == goio.EOF {
				break
			}
			if e != nil {
				continue
			}
			for ci, s := range rec {
				t := colOfCSV[ci]
				if t != "float32" && t != "float64" {
					continue
				}
				bits := 32
				if t == "float64" {
					bits = 64
				}
				k := fmt.Sprintf("%d|%s", bits, s)
				if floatCells[k] {
					continue
				}
				floatCells[k] = true
				v, ok := c33Expect(t, s)
				val := "None"
				if ok {
					val = cq.Some(cq.Hex(v))
				}
				coqFloats = append(coqFloats, cq.Tuple(cq.Z(int64(bits)), cq.Hex([]byte(s)), val))
			}
		}
		f.Close()
	}
	var coqData []string
	for _, name := range obs.Names {
		if name == "Epoch" || name == "Nanoseconds" {
			continue
		}
		coqData = append(coqData, cq.Hex(obs.Cols[name]))
	}
	if obs.Names == nil && obs.Code == 0 { // nothing was written: the empty dataset has one empty column per used column
		for _, c := range in.Cols {
			_ = c
			coqData = append(coqData, cq.Hex(nil))
		}
	}
	res.Coq = cq.Rec(cq.F("k_time", cq.Nat(cvm.ColumnIndex[2])), cq.F("k_cols", cq.List(coqCols)), cq.F("k_chunk", cq.Nat(in.Chunk)),
		cq.F("k_variable", cq.Bool(in.Variable)), cq.F("k_evs", cq.List(coqEvs)), cq.F("k_floats", cq.List(coqFloats)),
		cq.F("k_code", cq.Nat(obs.Code)), cq.F("k_epochs", cq.Hex(obs.Cols["Epoch"])), cq.F("k_nanos", cq.Hex(obs.Cols["Nanoseconds"])),
		cq.F("k_data", cq.List(coqData)))

	// ---- guard mirror (from the generator's own labels) and the property oracle ----
	// csv-level and timestamp malformedness come from the generator's labels; whether a cell is
	// unparsable is decided here by strconv itself (independent of the loader), not by the label
	csvBad, timeBad, cellBad := false, false, false
	for _, l := range in.Lines {
		switch l.Kind {
		case "fieldcount", "badquote":
			csvBad = true
		case "badtime":
			timeBad = true
		default:
			rec, e := csv.NewReader(strings.NewReader(l.Text)).Read()
			if e != nil || len(rec) != len(in.Header) {
				csvBad = true
				continue
			}
			for j, c := range in.Cols {
				if _, ok := c33Expect(c.Type, rec[cvm.ColumnIndex[3+j]]); !ok {
					cellBad = true
				}
			}
		}
	}
	res.InDomain = in.Chunk >= 1 // no guard on the file's contents since the fixes 85c538e / 4016039 in /repo
	// Oracle: the import either reports an error, or every data line of the file is loaded with its
	// parsed values.  A file with any malformed line cannot be loaded completely, so it must report an error.
	res.Holds = true
	switch obs.Code {
	case 1:
	case 2:
		res.Holds, res.Detail = false, "the import panicked instead of reporting an error"
	default:
		if csvBad || timeBad || cellBad {
			res.Holds = false
			res.Detail = fmt.Sprintf("import succeeded with %d of %d data lines although the file has malformed lines", obs.Rows, len(in.Lines))
		} else if obs.Rows != len(in.Lines) {
			res.Holds, res.Detail = false, fmt.Sprintf("import succeeded with %d of %d data lines", obs.Rows, len(in.Lines))
		} else {
			// values: recompute every cell with strconv, independent of the loader
			want := map[string][]byte{}
			for _, l := range in.Lines {
				rec, e := csv.NewReader(strings.NewReader(l.Text)).Read()
				if e != nil {
					res.Holds, res.Detail = false, "oracle: line labelled ok does not parse: "+l.Text
					break
				}
				for j, c := range in.Cols {
					b, ok := c33Expect(c.Type, rec[cvm.ColumnIndex[3+j]])
					if !ok {
						res.Holds, res.Detail = false, "oracle: cell labelled ok does not parse: "+l.Text
					}
					want[c.Name] = append(want[c.Name], b...)
				}
			}
			for _, c := range in.Cols {
				if res.Holds && len(in.Lines) > 0 && string(want[c.Name]) != string(obs.Cols[c.Name]) {
					res.Holds, res.Detail = false, fmt.Sprintf("column %s loaded with different values", c.Name)
				}
			}
			if res.Holds && len(obs.Cols["Epoch"]) != 8*len(in.Lines) {
				res.Holds, res.Detail = false, "Epoch column has the wrong length"
			}
			// timestamps of the plain forms  [+]sec  and  [+]sec.frac (1-9 digits): seconds and nanoseconds
			// recomputed here, independent of the loader
			for li, l := range in.Lines {
				if !res.Holds {
					break
				}
				rec, _ := csv.NewReader(strings.NewReader(l.Text)).Read()
				sec, ns, ok := c33PlainTime(rec[cvm.ColumnIndex[2]])
				if !ok {
					continue
				}
				if got := int64(binary.LittleEndian.Uint64(obs.Cols["Epoch"][8*li:])); got != sec {
					res.Holds, res.Detail = false, fmt.Sprintf("line %d loaded with epoch %d, the file says %d", li, got, sec)
				}
				if nb := obs.Cols["Nanoseconds"]; res.Holds && in.Variable && len(nb) >= 4*(li+1) {
					if got := int64(int32(binary.LittleEndian.Uint32(nb[4*li:]))); got != ns {
						res.Holds, res.Detail = false, fmt.Sprintf("line %d loaded with %d nanoseconds, the file says %d", li, got, ns)
					}
				}
			}
		}
	}
	// no known finding class is left for C33 (both defects are fixed in /repo): every oracle failure is unlisted
	res.Tags = []string{fmt.Sprintf("code=%d", obs.Code), fmt.Sprintf("lines=%d", bucket(len(in.Lines))), fmt.Sprintf("chunks=%d", bucket(obs.Chunks)),
		fmt.Sprintf("cols=%d", len(in.Cols))}
	for _, t := range []struct {
		on  bool
		tag string
	}{{in.Variable, "variable"}, {res.InDomain, "in-guard"}, {csvBad, "csv-error"}, {timeBad, "bad-time"}, {cellBad, "bad-cell"},
		{in.Chunk == 1, "chunk=1"}, {in.Chunk > len(in.Lines), "single-chunk"}} {
		if t.on {
			res.Tags = append(res.Tags, t.tag)
		}
	}
	for _, c := range in.Cols {
		res.Tags = append(res.Tags, "type:"+c.Type)
	}
	res.Nontrivial = res.InDomain && len(in.Lines) >= 2 && in.Chunk < len(in.Lines) && !csvBad && !timeBad
	res.Key = string(raw)
	return res, nil
}

func init() {
	Register(&Spec{
		ID:          "C33",
		CoqRequire:  "Require Import MS.Corr.C33.",
		CoqCaseType: "C33.case",
		Rule: "csv files over a bucket of 1-5 columns of the 11 parsable fixed-width types, Epoch first then the columns in random order (30% an " +
			"unused column, header names in other case / padded), timeFormat timestamp (integers, fractions of 1-10 digits, signs), 0-10 data " +
			"lines (0-60 thorough); 45% clean files, otherwise per line 7% wrong field count, 4% bare quote, 6% unparsable/out-of-range cell, " +
			"5% unparsable timestamp; chunk size 1..lines+2; distinct = distinct input JSON; non-trivial = well-formed csv and timestamps, >=2 lines, >1 chunk",
		Gen: c33Gen,
		Run: c33Run,
	})
}
