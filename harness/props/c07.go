package props

import (
	"encoding/json"
	"fmt"
	"sort"
	"strings"
	"sync"
	"sync/atomic"
	"time"

	"github.com/alpacahq/marketstore/v4/executor"

	"verifharness/internal/cq"
	"verifharness/internal/rng"
	"verifharness/internal/schedx"
)

// C07 — A write returns only after it is durable and visible.
//
// Implementation under test: Writer.WriteCSM -> WriteRecords/QueueWriteCommand -> RequestFlush, the
// SyncWAL goroutine (token arm), FlushToWAL/FlushCommandsToWAL.  Three kinds of runs:
//
//   loop    the REAL SyncWAL goroutine runs; the harness forces a schedule at the granularity
//           "one writer runs until it returns or blocks" by starting writers one at a time and by
//           holding the loop inside FlushCommandsToWAL (after the WAL fsync, before the primary write)
//           through the ReplicationSender callback.  Quiescence is detected from real counters only
//           (started = returned + len(flushChannel) + loop parked).
//   noloop  no SyncWAL goroutine: haveWALWriter is set through the verif shim, a token is queued as
//           RequestFlush would (DESIGN §6 C07 replay), writers are started, and the token arm of the
//           loop is played by the harness calling the real FlushToWAL.  With haveWALWriter=false the
//           writers flush inline.
//   free    real loop with millisecond tickers, all writers concurrent; search only (oracle, no labels).
//
// Every run is turned into the label sequence it performed plus the observations made from the real
// code at each quiescent point (returned set, TGs in the WAL file on disk, channel lengths, query
// results); Corr/C07.v replays that in the LTS.

type c07Op struct {
	Op string `json:"op"` // start | release | faketoken | sethave | hloop | enq | flush
	W  int    `json:"w,omitempty"`
	B  bool   `json:"b,omitempty"`
}
type c07In struct {
	Mode   string  `json:"mode"`
	Ks     []int   `json:"ks"`
	Gated  bool    `json:"gated"`
	Ops    []c07Op `json:"ops"`
	Rounds int     `json:"rounds,omitempty"`
}

func c07Gen(r *rng.Rand, i int, tier string) interface{} {
	kind := r.Intn(100)
	nw := 2 + r.Intn(5) // 2..6 writers
	in := c07In{}
	for w := 0; w < nw; w++ {
		k := 1 + r.Intn(3)
		if r.Chance(12) {
			k = 0
		}
		in.Ks = append(in.Ks, k)
	}
	order := make([]int, nw)
	for w := range order {
		order[w] = w
	}
	for a := nw - 1; a > 0; a-- {
		b := r.Intn(a + 1)
		order[a], order[b] = order[b], order[a]
	}
	switch {
	case kind < 60: // forced schedules against the real loop
		in.Mode = "loop"
		in.Gated = !r.Chance(15)
		// some writers perform the two halves of WriteCSM (queue the records / RequestFlush) at different points, so
		// that a flush started for another writer can drain their records in between
		var late []int
		for _, w := range order {
			for r.Chance(35) {
				in.Ops = append(in.Ops, c07Op{Op: "release"})
			}
			if r.Chance(30) {
				in.Ops = append(in.Ops, c07Op{Op: "enq", W: w})
				late = append(late, w)
			} else {
				in.Ops = append(in.Ops, c07Op{Op: "start", W: w})
			}
			if len(late) > 0 && r.Chance(50) {
				in.Ops = append(in.Ops, c07Op{Op: "flush", W: late[0]})
				late = late[1:]
			}
		}
		for _, w := range late {
			if r.Chance(40) {
				in.Ops = append(in.Ops, c07Op{Op: "release"})
			}
			in.Ops = append(in.Ops, c07Op{Op: "flush", W: w})
		}
		for r.Chance(50) {
			in.Ops = append(in.Ops, c07Op{Op: "release"})
		}
	case kind < 90: // no loop: shim-driven
		in.Mode = "noloop"
		have := r.Chance(70)
		if have {
			in.Ops = append(in.Ops, c07Op{Op: "sethave", B: true})
			// writer order[0] is played by the harness: it only queues a token (k forced to 0)
			in.Ks[order[0]] = 0
			in.Ops = append(in.Ops, c07Op{Op: "faketoken", W: order[0]})
			for _, w := range order[1:] {
				in.Ops = append(in.Ops, c07Op{Op: "start", W: w})
				if r.Chance(30) {
					in.Ops = append(in.Ops, c07Op{Op: "hloop"})
				}
			}
			if r.Chance(60) {
				in.Ops = append(in.Ops, c07Op{Op: "hloop"})
			}
		} else {
			for _, w := range order {
				in.Ops = append(in.Ops, c07Op{Op: "start", W: w})
			}
		}
	default:
		in.Mode = "free"
		in.Rounds = 1
	}
	return in
}

type c07Obs struct {
	Events      []string       `json:"events"`
	Returned    map[string]int `json:"returned_at"` // writer -> index of the op after which it was first seen returned
	Unflushed   []string       `json:"unflushed,omitempty"`
	Stuck       string         `json:"stuck,omitempty"`
	Unexplained []int          `json:"unexplained_returns,omitempty"`
	TGs         [][]schedx.Cmd `json:"tgs"`
}

type c07run struct {
	in          c07In
	inst        *schedx.Inst
	evs         []string
	enc         []byte
	started     int
	ret         []int32
	startedW    []bool
	fake        map[int]chan struct{} // harness-played writers blocked on their token
	fakeRet     map[int]*int32
	unexplained []int
	enqd        []bool
	firstRet    map[int]bool
	obs         c07Obs
	holds       bool
	class       string
	detail      string
	loopHeld    int // tokens taken by the harness-played loop and not yet acknowledged (always 0 between ops)
}

func (c *c07run) lab(s string)                    { c.ev("L (" + s + ")") }
func (c *c07run) labf(f string, a ...interface{}) { c.lab(fmt.Sprintf(f, a...)) }

// ev appends an event in its Gallina spelling (kept in the evidence) and in the compact byte
// encoding decoded by Corr/C07.v [decode].
func (c *c07run) ev(s string) {
	c.evs = append(c.evs, s)
	c.enc = append(c.enc, c07Encode(s)...)
}

var c07Op0 = map[string]byte{"LStart": 5, "LRecv": 6, "LTick": 7, "LCkpt": 8, "LFl": 9, "LAckL": 10, "EnvShut": 11, "LShut": 12, "LShutC": 13}
var c07OpN = map[string]byte{"Enq": 0, "RdHave": 1, "SendTok": 3, "InlFl": 4, "ORet": 16, "OVis": 18, "OFch": 19, "OWch": 20, "OHave": 21}

func c07Encode(s string) []byte {
	s = strings.TrimSuffix(strings.TrimPrefix(s, "L ("), ")")
	f := strings.Fields(s)
	if b, ok := c07Op0[f[0]]; ok {
		return []byte{b}
	}
	out := []byte{c07OpN[f[0]]}
	for _, a := range f[1:] {
		switch a {
		case "true":
			out = append(out, 1)
		case "false":
			out = append(out, 0)
		default:
			var n int
			fmt.Sscan(a, &n)
			out = append(out, byte(n))
		}
	}
	return out
}

func (c *c07run) nReturned() int {
	n := 0
	for w := range c.ret {
		if atomic.LoadInt32(&c.ret[w]) == 1 {
			n++
		}
	}
	return n
}

// quiesce waits until every started writer has either returned or is blocked on a token that sits in
// flushChannel or is held by the parked loop.  All quantities are read from the real code.
func (c *c07run) quiesce() bool {
	deadline := time.Now().Add(10 * time.Second)
	stable := 0
	for {
		held := 0
		if c.inst.S.IsParked() {
			held = 1
		}
		fl := executor.VerifHFlushLen(c.inst.WAL)
		if c.started == c.nReturned()+fl+held && (held == 1 || fl == 0 || c.in.Mode == "noloop") {
			stable++
			if stable >= 3 {
				return true
			}
		} else {
			stable = 0
		}
		if time.Now().After(deadline) {
			return false
		}
		time.Sleep(30 * time.Microsecond)
	}
}

func cmdsStr(b []schedx.Cmd) string {
	var l []string
	for _, x := range b {
		l = append(l, fmt.Sprintf("(%d, %d)", x[0], x[1]))
	}
	return cq.List(l)
}

// observe records what the real code shows now and evaluates the property's oracle on it.
func (c *c07run) observe(opIdx int) {
	for w := range c.in.Ks {
		b := atomic.LoadInt32(&c.ret[w]) == 1
		c.ev(fmt.Sprintf("ORet %d %s", w, cq.Bool(b)))
	}
	tgs, err := c.inst.WALGroups()
	if err != nil {
		c.holds, c.detail = false, "WAL file unreadable: "+err.Error()
	}
	var tl []string
	inWal := map[schedx.Cmd]bool{}
	for _, g := range tgs {
		tl = append(tl, cmdsStr(g))
		for _, x := range g {
			inWal[x] = true
		}
	}
	c.obs.TGs = tgs
	c.evs = append(c.evs, "OWal "+cq.List(tl))
	c.enc = append(c.enc, 17, byte(len(tgs)))
	for _, g := range tgs {
		c.enc = append(c.enc, byte(len(g)))
		for _, x := range g {
			c.enc = append(c.enc, byte(x[0]), byte(x[1]))
		}
	}
	c.ev(fmt.Sprintf("OFch %d", executor.VerifHFlushLen(c.inst.WAL)))
	c.ev(fmt.Sprintf("OWch %d", executor.VerifHWriteLen(c.inst.WAL)))
	c.ev("OHave " + cq.Bool(executor.VerifHGetHave()))
	for w, k := range c.in.Ks {
		if (!c.startedW[w] && !c.enqd[w]) || k == 0 {
			continue
		}
		vis, err := c.inst.Visible(w)
		if err != nil {
			c.holds, c.detail = false, fmt.Sprintf("query of writer %d failed: %v", w, err)
		}
		for i := 0; i < k; i++ {
			c.ev(fmt.Sprintf("OVis %d %d %s", w, i, cq.Bool(vis[i])))
		}
		// ---- the property: a returned write is in the synced WAL and visible to a query started now
		if atomic.LoadInt32(&c.ret[w]) == 1 {
			if !c.firstRet[w] {
				c.firstRet[w] = true
				c.obs.Returned[fmt.Sprint(w)] = opIdx
			}
			for i := 0; i < k; i++ {
				if !inWal[schedx.Cmd{w, i}] || !vis[i] {
					msg := fmt.Sprintf("writer %d returned but row %d: inWAL=%v visible=%v (after op %d)", w, i, inWal[schedx.Cmd{w, i}], vis[i], opIdx)
					c.obs.Unflushed = append(c.obs.Unflushed, msg)
					if c.holds {
						c.holds, c.detail = false, msg
					}
					break
				}
			}
		}
	}
}

// spawnFlush runs only the second half of WriteCSM (RequestFlush) for a writer whose records were queued by "enq".
func (c *c07run) spawnFlush(w int) {
	c.started++
	c.startedW[w] = true
	go func() {
		defer func() { recover() }()
		c.inst.WAL.RequestFlush()
		atomic.StoreInt32(&c.ret[w], 1)
	}()
}

func (c *c07run) spawn(w int) {
	c.started++
	c.startedW[w] = true
	go func() {
		defer func() { recover() }()
		if err := c.inst.W.WriteCSM(schedx.CSM(w, c.in.Ks[w]), false); err == nil {
			atomic.StoreInt32(&c.ret[w], 1)
		}
	}()
}

// flushLabels: the loop performed a FlushToWAL that produced batch b and is now parked after the fsync
func (c *c07run) flushLabelsParked(who string, n int) {
	c.lab(who) // count
	for i := 0; i < n; i++ {
		c.lab(who)
	}
	c.lab(who) // WAL write + fsync (the gate sits right after it)
}

func c07Run(raw json.RawMessage) (res Result, err error) {
	var in c07In
	if err = json.Unmarshal(raw, &in); err != nil {
		return
	}
	res.Key = string(raw)
	if in.Mode == "free" {
		return c07Free(in, raw)
	}
	c := &c07run{in: in, holds: true, fake: map[int]chan struct{}{}, fakeRet: map[int]*int32{}, firstRet: map[int]bool{}}
	c.obs.Returned = map[string]int{}
	c.ret = make([]int32, len(in.Ks))
	c.startedW = make([]bool, len(in.Ks))
	c.enqd = make([]bool, len(in.Ks))
	c.inst, err = schedx.New(len(in.Ks), in.Gated && in.Mode == "loop", false)
	if err != nil {
		return res, err
	}
	defer c.inst.Close()
	executor.VerifHSetHave(false)
	S := c.inst.S
	if in.Mode == "loop" {
		c.inst.StartLoop(0)
		c.lab("LStart")
	}
	stuck := func(what string) {
		c.obs.Stuck = what
		if c.holds {
			c.holds, c.detail = false, "run did not reach a quiescent state: "+what
		}
	}
	nAcked := 0
opsLoop:
	for oi, op := range in.Ops {
		switch op.Op {
		case "sethave":
			executor.VerifHSetHave(op.B)
			if op.B {
				c.lab("LStart")
			}
		case "faketoken": // the harness plays writer op.W (0 commands): read have, read len = 0, send token
			if executor.VerifHFlushLen(c.inst.WAL) != 0 || c.startedW[op.W] || in.Ks[op.W] != 0 {
				continue
			}
			f := executor.VerifHPutToken(c.inst.WAL)
			c.started++
			c.startedW[op.W] = true
			w := op.W
			go func() { <-f; atomic.StoreInt32(&c.ret[w], 1) }()
			c.labf("RdHave %d true", w)
			c.labf("SendTok %d", w)
		case "enq": // first half of WriteCSM only: the records are queued, RequestFlush is not called yet
			w := op.W
			if w < 0 || w >= len(in.Ks) || c.startedW[w] || c.enqd[w] || in.Mode != "loop" {
				continue
			}
			if e := c.inst.EnqueueOnly(w, in.Ks[w]); e != nil {
				return res, e
			}
			c.enqd[w] = true
			for i := 0; i < in.Ks[w]; i++ {
				c.labf("Enq %d", w)
			}
		case "start", "flush":
			w := op.W
			if w < 0 || w >= len(in.Ks) || c.startedW[w] || (op.Op == "flush") != c.enqd[w] {
				continue
			}
			k := in.Ks[w]
			if op.Op == "flush" {
				k = 0 // its Enq labels were emitted by "enq"
			}
			parked0 := S.IsParked()
			fl0 := executor.VerifHFlushLen(c.inst.WAL)
			have0 := executor.VerifHGetHave()
			hits0 := S.NHits()
			if op.Op == "flush" {
				c.spawnFlush(w)
			} else {
				c.spawn(w)
			}
			if !c.quiesce() {
				stuck(fmt.Sprintf("start %d", w))
				break opsLoop
			}
			for i := 0; i < k; i++ {
				c.labf("Enq %d", w)
			}
			c.labf("RdHave %d %s", w, cq.Bool(have0))
			returned := atomic.LoadInt32(&c.ret[w]) == 1
			switch {
			case !have0: // inline FlushToWAL in the writer's goroutine
				c.labf("InlFl %d", w)
				if S.NHits() > hits0 {
					bs, _ := S.Batches()
					n := len(bs[len(bs)-1])
					for i := 0; i < n+2; i++ {
						c.labf("InlFl %d", w)
					}
				}
			case returned && !parked0 && fl0 == 0: // loop was idle: own token answered by a flush
				c.labf("SendTok %d", w)
				c.lab("LRecv")
				c.lab("LFl")
				if S.NHits() > hits0 { // ungated loop: full flush then ack
					bs, _ := S.Batches()
					n := len(bs[len(bs)-1])
					for i := 0; i < n+2; i++ {
						c.lab("LFl")
					}
				}
				c.lab("LAckL")
				nAcked++
			case returned:
				// returned although the loop was held or other tokens were queued ahead of its own: nothing in the
				// protocol explains that; no further labels (the ORet observation will not match the model)
				c.unexplained = append(c.unexplained, w)
			default: // blocked on its own token
				c.labf("SendTok %d", w)
				if !parked0 && fl0 == 0 && S.IsParked() { // the loop took the token and is now held after the fsync
					bs, _ := S.Batches()
					c.lab("LRecv")
					c.flushLabelsParked("LFl", len(bs[len(bs)-1]))
				}
			}
		case "release":
			if !S.IsParked() {
				continue
			}
			fl0 := executor.VerifHFlushLen(c.inst.WAL)
			hits0 := S.NHits()
			S.Release()
			if !c.quiesce() {
				stuck("release")
				break opsLoop
			}
			c.lab("LFl") // primary writes
			c.lab("LAckL")
			nAcked++
			// the loop then serves queued tokens one by one until flushChannel is empty or a non-empty flush parks it
			consumed := fl0 - executor.VerifHFlushLen(c.inst.WAL)
			reparked := S.NHits() > hits0
			for i := 1; i <= consumed; i++ {
				c.lab("LRecv")
				if i == consumed && reparked {
					bs, _ := S.Batches()
					c.flushLabelsParked("LFl", len(bs[len(bs)-1]))
				} else {
					c.lab("LFl")
					c.lab("LAckL")
					nAcked++
				}
			}
		case "hloop": // the token arm of SyncWAL (wal.go:735-739) played by the harness on the real FlushToWAL
			if in.Mode != "noloop" {
				continue
			}
			f, ok := executor.VerifHTakeToken(c.inst.WAL)
			if !ok {
				continue
			}
			hits0 := S.NHits()
			c.lab("LRecv")
			func() {
				defer func() { recover() }()
				c.inst.WAL.FlushToWAL()
			}()
			c.lab("LFl")
			if S.NHits() > hits0 {
				bs, _ := S.Batches()
				for i := 0; i < len(bs[len(bs)-1])+2; i++ {
					c.lab("LFl")
				}
			}
			f <- struct{}{}
			c.lab("LAckL")
			nAcked++
			if !c.quiesce() {
				stuck("hloop")
				break opsLoop
			}
		}
		c.observe(oi)
	}
	// tear-down of blocked parties is not part of the recorded schedule
	if in.Mode == "noloop" {
		for {
			f, ok := executor.VerifHTakeToken(c.inst.WAL)
			if !ok {
				break
			}
			func() { defer func() { recover() }(); c.inst.WAL.FlushToWAL() }()
			select {
			case f <- struct{}{}:
			case <-time.After(time.Second):
			}
		}
	}

	c.obs.Events = c.evs
	c.obs.Unexplained = c.unexplained
	res.Obs = c.obs
	ks := make([]string, len(in.Ks))
	for i, k := range in.Ks {
		ks[i] = fmt.Sprint(k)
	}
	res.Coq = cq.Rec(cq.F("k_ks", cq.List(ks)), cq.F("k_enc", cq.Hex(c.enc)))
	res.Holds, res.Class, res.Detail = c.holds, c.class, c.detail
	steady := true
	for _, e := range c.evs {
		if strings.HasPrefix(e, "L (InlFl") || (strings.HasPrefix(e, "L (RdHave") && strings.HasSuffix(e, "false)")) {
			steady = false
		}
	}
	res.InDomain = steady
	res.Nontrivial = c.started >= 2 && nAcked >= 1
	res.Tags = []string{"mode:" + in.Mode, fmt.Sprintf("writers=%d", len(in.Ks)), fmt.Sprintf("acked=%d", nAcked)}
	if in.Gated && in.Mode == "loop" {
		res.Tags = append(res.Tags, "gated")
	}
	if !steady {
		res.Tags = append(res.Tags, "inline-flush")
	}
	if c.obs.Stuck != "" {
		res.Tags = append(res.Tags, "stuck")
	}
	if res.InDomain {
		res.Tags = append(res.Tags, "in-domain")
	}
	return res, nil
}

// c07Free: real loop with millisecond tickers, all writers concurrent.  Search only: the oracle is
// evaluated on sequence numbers taken at the WAL-synced point (Send callback) and at return.
func c07Free(in c07In, raw json.RawMessage) (res Result, err error) {
	inst, err := schedx.New(len(in.Ks), false, false)
	if err != nil {
		return res, err
	}
	defer inst.Close()
	inst.StartLoop(5 * time.Millisecond)
	type wres struct {
		retSeq int64
		vis    map[int]bool
		err    error
	}
	out := make([]wres, len(in.Ks))
	var wg sync.WaitGroup
	startCh := make(chan struct{})
	for w := range in.Ks {
		wg.Add(1)
		go func(w int) {
			defer wg.Done()
			defer func() { recover() }()
			<-startCh
			if e := inst.W.WriteCSM(schedx.CSM(w, in.Ks[w]), false); e != nil {
				out[w].err = e
				return
			}
			out[w].retSeq = atomic.AddInt64(&inst.Seq, 1)
			out[w].vis, out[w].err = inst.Visible(w)
		}(w)
	}
	close(startCh)
	done := make(chan struct{})
	go func() { wg.Wait(); close(done) }()
	holds, detail := true, ""
	select {
	case <-done:
	case <-time.After(20 * time.Second):
		holds, detail = false, "writers did not return within 20 s"
	}
	bs, seqs := inst.S.Batches()
	syncedAt := map[schedx.Cmd]int64{}
	for i, b := range bs {
		for _, x := range b {
			syncedAt[x] = seqs[i]
		}
	}
	var bad []string
	if holds {
		for w, k := range in.Ks {
			if out[w].err != nil || out[w].retSeq == 0 {
				continue
			}
			for i := 0; i < k; i++ {
				s, ok := syncedAt[schedx.Cmd{w, i}]
				if !ok || s > out[w].retSeq || !out[w].vis[i] {
					bad = append(bad, fmt.Sprintf("writer %d row %d: synced_seq=%d ret_seq=%d visible=%v", w, i, s, out[w].retSeq, out[w].vis[i]))
				}
			}
		}
	}
	sort.Strings(bad)
	if len(bad) > 0 {
		holds, detail = false, bad[0]
	}
	res.Key = string(raw) + fmt.Sprint(len(bs))
	res.Holds, res.Detail = holds, detail
	res.Obs = map[string]interface{}{"batches": bs, "bad": bad}
	ks := make([]string, len(in.Ks))
	for i, k := range in.Ks {
		ks[i] = fmt.Sprint(k)
	}
	res.Coq = cq.Rec(cq.F("k_ks", cq.List(ks)), cq.F("k_enc", cq.Hex(nil)))
	res.Tags = []string{"mode:free", fmt.Sprintf("writers=%d", len(in.Ks)), fmt.Sprintf("tgs=%d", len(bs))}
	return res, nil
}

func init() {
	Register(&Spec{
		ID:          "C07",
		CoqRequire:  "Require Import MS.Corr.C07.",
		CoqCaseType: "C07.case",
		Rule: "2-6 writers with 0-3 commands each; 60% forced schedules against the real SyncWAL goroutine (writers started one at a time " +
			"in random order, the loop held after the WAL fsync and released at random points), 30% shim-driven runs without the loop " +
			"(queued token / inline flush / harness-played token arm), 10% free concurrent runs (search only); distinct = distinct " +
			"schedule; non-trivial = >= 2 writers started and >= 1 acknowledgement",
		Gen: c07Gen,
		Run: c07Run,
	})
}
