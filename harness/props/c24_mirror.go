package props

import "math"

// Executable mirror (Go) of coq/Model/AggTrigger.v — the behaviour of the trigger AS MODELLED AT HEAD — used only to
// decide to which known-finding class a failing history belongs: a history is in a known class only if the modelled
// original behaviour fails the property on it, and fails it in the same way (same destination buckets).
// Any other failure is unclassified.

type c24Cache struct {
	cs         []c24Bar
	tail, head int64
}
type c24State struct {
	base  []c24Bar
	dest  [][]c24Bar
	cache *c24Cache
}

func c24TruncS(d, t int64) int64 {
	if d <= 0 {
		return t
	}
	m := (t + 62135596800) % d
	if m < 0 {
		m += d
	}
	return t - m
}
func c24CeilS(d, t int64) int64 { return c24TruncS(d, t+d) }

func c24Put(s []c24Bar, b c24Bar) []c24Bar {
	for i, x := range s {
		if b.Epoch < x.Epoch {
			out := append([]c24Bar{}, s[:i]...)
			out = append(out, b)
			return append(out, s[i:]...)
		}
		if b.Epoch == x.Epoch {
			out := append([]c24Bar{}, s...)
			out[i] = b
			return out
		}
	}
	return append(append([]c24Bar{}, s...), b)
}
func c24PutAll(s, l []c24Bar) []c24Bar {
	for _, b := range l {
		s = c24Put(s, b)
	}
	return s
}
func c24Query(s []c24Bar, start, end int64) (out []c24Bar) {
	for _, b := range s {
		if start <= b.Epoch && b.Epoch <= end {
			out = append(out, b)
		}
	}
	return
}

// SliceColumnSeriesByEpoch: untouched when no epoch >= start (resp. < end); end exclusive.
func c24Slice(cs []c24Bar, start, end int64) []c24Bar {
	s1 := cs
	for i, b := range cs {
		if b.Epoch >= start {
			s1 = cs[i:]
			break
		}
	}
	for i := len(s1) - 1; i >= 0; i-- {
		if s1[i].Epoch < end {
			return s1[:i+1]
		}
	}
	return s1
}
func c24Union(left, right []c24Bar) []c24Bar { return c24PutAll(c24PutAll(nil, left), right) }

func c24Aggregate(d int64, l []c24Bar) (out []c24Bar) {
	f := math.Float32frombits
	for i := 0; i < len(l); {
		key := c24TruncS(d, l[i].Epoch)
		b := c24Bar{Epoch: key, O: l[i].O, H: l[i].H, L: l[i].L, C: l[i].C}
		v := float32(0) + f(l[i].V)
		j := i + 1
		for ; j < len(l) && c24TruncS(d, l[j].Epoch) == key; j++ {
			if f(l[j].H) > f(b.H) {
				b.H = l[j].H
			}
			if f(l[j].L) < f(b.L) {
				b.L = l[j].L
			}
			b.C = l[j].C
			v += f(l[j].V)
		}
		b.V = math.Float32bits(v)
		out = append(out, b)
		i = j
	}
	return
}

func c24Step(dests []int64, st *c24State, w []c24Bar) {
	if len(w) == 0 {
		return
	}
	st.base = c24PutAll(st.base, w)
	head, tail := w[0].Epoch, w[len(w)-1].Epoch
	U := dests[0]
	for _, d := range dests[1:] {
		if U < d {
			U = d
		}
	}
	var cs []c24Bar
	k := st.cache
	if c := st.cache; c != nil && c.tail <= tail && head <= c.head {
		cs = c24Union(w, c.cs)
	} else {
		k = nil
		cs = c24Query(st.base, c24TruncS(U, head), c24CeilS(U, tail)-1)
	}
	for i, d := range dests {
		start, end := c24TruncS(d, head), c24CeilS(d, tail)-1
		slc := c24Slice(cs, start, end)
		if len(slc) == 0 {
			continue
		}
		if d == U {
			t := c24TruncS(d, tail)
			k = &c24Cache{cs: append([]c24Bar{}, c24Slice(cs, t, end)...), tail: t, head: end}
		}
		st.dest[i] = c24PutAll(st.dest[i], c24Aggregate(d, slc))
	}
	st.cache = k
}

// c24Mirror runs the whole history; it returns the destination stores and the base store at the end.
func c24Mirror(dests []int64, writes [][]c24Bar) ([][]c24Bar, []c24Bar) {
	st := &c24State{dest: make([][]c24Bar, len(dests))}
	for _, w := range writes {
		c24Step(dests, st, w)
	}
	return st.dest, st.base
}

func c24SameBars(a, b []c24Bar) bool {
	if len(a) != len(b) {
		return false
	}
	for i := range a {
		if a[i] != b[i] {
			return false
		}
	}
	return true
}
