package props

import (
	"bytes"
	"context"
	"encoding/binary"
	"encoding/json"
	"fmt"
	"os"
	"path/filepath"
	"strings"
	"sync"

	"github.com/alpacahq/marketstore/v4/catalog"
	"github.com/alpacahq/marketstore/v4/executor"
	"github.com/alpacahq/marketstore/v4/executor/wal"
	"github.com/alpacahq/marketstore/v4/utils/io"

	"verifharness/internal/cq"
	"verifharness/internal/mk"
	"verifharness/internal/rng"
)

// C28 — WAL transaction records round-trip.
// Implementation under test: executor.serializeTG (through the add-only shim executor/verif_e1.go),
// executor.ParseTGData, io.DSVToBytes/DSVFromBytes; for kind "writer" additionally the real write path
// (Writer.WriteCSM -> WriteRecords) produces the commands.

type c28Shape struct {
	Name []byte `json:"name"`
	Type int    `json:"type"`
}
type c28Cmd struct {
	RT     int        `json:"rt"`
	Path   []byte     `json:"path"`
	VRL    int64      `json:"vrl"`
	Off    int64      `json:"off"`
	Idx    int64      `json:"idx"`
	Data   []byte     `json:"data"`
	Shapes []c28Shape `json:"shapes"`
}
type c28Writer struct {
	Names    [][]byte `json:"names"` // data column names (Epoch is added)
	Types    []string `json:"types"`
	Epochs   []int64  `json:"epochs"`
	Variable bool     `json:"variable"`
	Seed     uint64   `json:"seed"`
}
type c28In struct {
	Kind   string     `json:"kind"` // direct | raw | writer
	TGID   int64      `json:"tgid"`
	Root   []byte     `json:"root"`
	Cmds   []c28Cmd   `json:"cmds,omitempty"`
	Raw    []byte     `json:"raw,omitempty"`
	Writer *c28Writer `json:"writer,omitempty"`
}

var c28Paths = []string{"AAPL/1Min/OHLCV/2020.bin", "TSLA/1D/TICK/1999.bin", "a/b", "x", "", ".", "..", "../../etc/passwd",
	"a//b/./c/../d", "/abs/path/2021.bin", "a/../../b", "./", "//", "a/", "sp ace/ü/2020.bin", "a\x00b/2020.bin"}
var c28Roots = []string{"/data/mktsdb", "/tmp/x/", "", "rel/root", "/", "/a/../b", "."}
var c28Names = []string{"Epoch", "Open", "High", "Low", "Close", "Volume", "Bid", "Ask", "Nanoseconds", "x", ""}
var c28Int64s = []int64{0, 1, -1, 37024, 1 << 31, -(1 << 31), 1<<63 - 1, -1 << 63, 255, 256, 65535, 1 << 32}

func c28Name(r *rng.Rand, boundary bool, thorough int) []byte {
	if boundary {
		n := []int{255, 256, 257, 300, 256, 257, 511, 254, 512, 513}[r.Intn(8+2*thorough)]
		if r.Chance(20) {
			n = []int{127, 128, 129}[r.Intn(3)] // inside the guard: the sign boundary of the length byte
		}
		b := make([]byte, n)
		mode := r.Intn(3)
		for i := range b {
			switch mode {
			case 0:
				b[i] = 'A' + byte(i%26)
			case 1:
				b[i] = byte(r.U64())
			default:
				b[i] = byte(1 + r.Intn(3)) // small bytes: re-read as plausible name lengths
			}
		}
		return b
	}
	if r.Chance(80) {
		return []byte(c28Names[r.Intn(len(c28Names))])
	}
	return r.Bytes(r.Intn(40))
}

func c28GenCmd(r *rng.Rand, tier string, class int) c28Cmd {
	c := c28Cmd{}
	th := 0
	if tier == "thorough" {
		th = 1
	}
	switch r.Intn(10) {
	case 0:
		c.RT = int(int8(r.U64()))
	case 1:
		c.RT = 2
	default:
		c.RT = r.Intn(2)
	}
	switch pk := r.Intn(12); {
	case class == 3: // path length at the boundary of the int16 length field
		n := []int{32767, 32768, 40000}[r.Intn(3)]
		c.Path = bytes.Repeat([]byte("abcdefg/"), n/8+1)[:n]
	case pk == 0:
		c.Path = r.Bytes(r.Intn(60))
	case pk == 1:
		n := []int{127, 128, 255, 256, 1000, 4095, 4096, 5000}[r.Intn(5+3*th)]
		c.Path = bytes.Repeat([]byte("d/"), n/2+1)[:n]
	default:
		c.Path = []byte(c28Paths[r.Intn(len(c28Paths))])
	}
	switch r.Intn(8) {
	case 0:
		c.VRL = c28Int64s[r.Intn(len(c28Int64s))]
	case 1:
		c.VRL = []int64{1<<31 - 1, -(1 << 31), 1 << 31, -(1 << 31) - 1, 1 << 40, 127, 128, 32767, 32768, 65535, 65536, -32769}[r.Intn(12)]
	default:
		c.VRL = int64(r.Intn(200))
	}
	if r.Chance(30) {
		c.Off, c.Idx = c28Int64s[r.Intn(len(c28Int64s))], c28Int64s[r.Intn(len(c28Int64s))]
	} else if r.Chance(50) {
		c.Off, c.Idx = r.I64(), r.I64()
	} else {
		c.Idx = int64(1 + r.Intn(527040))
		c.Off = 37024 + (c.Idx-1)*int64(8+r.Intn(64))
	}
	dl := r.Intn(65)
	if r.Chance(10) {
		dl = 0
	} else if r.Chance(3) {
		dl = 300 + r.Intn(1200)
		if tier == "thorough" {
			dl = 1000 + r.Intn(5000)
		}
	}
	c.Data = r.Bytes(dl)
	if class == 5 { // payload length at the boundaries of narrower length fields
		n := []int{32767, 32768, 65535, 65536, 72000, 40000, 127, 128, 255, 256}[r.Intn(10)]
		c.Data = bytes.Repeat([]byte{byte(1 + r.Intn(255))}, n)
		if th == 1 && r.Bool() {
			c.Data = r.Bytes(n)
		}
		if r.Bool() && n > 16 { // not one single run
			c.Data[n/2] ^= 0xff
		}
	}
	ns := 1 + r.Intn(6)
	boundaryName := -1
	switch class {
	case 1: // finding class: a name longer than 255 bytes
		boundaryName = r.Intn(ns)
	case 2: // finding class / boundary: number of shapes around 255/256
		ns = []int{255, 256, 257, 254, 127, 128, 300, 512}[r.Intn(6+2*th)]
	case 4: // outside the property's domain: no shapes at all
		ns = 0
	}
	for j := 0; j < ns; j++ {
		s := c28Shape{Name: c28Name(r, j == boundaryName, th), Type: r.Intn(15)}
		if r.Chance(5) {
			s.Type = r.Intn(256)
		}
		if ns > 100 {
			s.Name = []byte(fmt.Sprintf("c%d", j))
		}
		c.Shapes = append(c.Shapes, s)
	}
	return c
}

func c28Gen(r *rng.Rand, i int, tier string) interface{} {
	in := c28In{Kind: "direct", TGID: r.I64(), Root: []byte(c28Roots[r.Intn(len(c28Roots))])}
	if r.Chance(30) {
		in.TGID = c28Int64s[r.Intn(len(c28Int64s))]
	}
	kind := r.Intn(100)
	maxCmds := 4
	if tier == "thorough" {
		maxCmds = 12
	}
	switch {
	case kind < 8: // the real write path produces the commands
		w := &c28Writer{Variable: r.Chance(30), Seed: r.U64()}
		nc := 1 + r.Intn(5)
		wk := r.Intn(10)
		if wk == 0 {
			nc = []int{254, 255, 256}[r.Intn(3)] // with Epoch: 255, 256, 257 shapes
		}
		for j := 0; j < nc; j++ {
			name := []byte(fmt.Sprintf("c%d", j))
			if nc < 10 {
				name = []byte([]string{"Open", "High", "Low", "Close", "Volume", "Bid", "Ask", "Px"}[j])
			}
			if wk == 1 && j == 0 {
				name = bytes.Repeat([]byte("N"), []int{255, 256, 257, 300}[r.Intn(4)])
			}
			w.Names = append(w.Names, name)
			w.Types = append(w.Types, []string{"float32", "float64", "int32", "int64", "uint8", "int16"}[r.Intn(6)])
		}
		nrows := 1 + r.Intn(4)
		base := int64(1577836800) + int64(r.Intn(300))*86400 // 2020
		for j := 0; j < nrows; j++ {
			w.Epochs = append(w.Epochs, base+int64(j*60*r.Intn(3)))
		}
		in.Kind, in.Writer, in.Root = "writer", w, nil
		return in
	case kind < 22: // malformed stream: arbitrary / mutated bytes straight into ParseTGData
		n := r.Intn(maxCmds + 1)
		var cmds []c28Cmd
		for j := 0; j < n; j++ {
			cmds = append(cmds, c28GenCmd(r, tier, 0))
		}
		raw := c28Encode(in.TGID, cmds)
		switch r.Intn(6) {
		case 0:
			raw = raw[:r.Intn(len(raw)+1)]
		case 1:
			for k := 0; k < 1+r.Intn(3) && len(raw) > 0; k++ {
				raw[r.Intn(len(raw))] ^= 1 << uint(r.Intn(8))
			}
		case 2:
			if len(raw) >= 16 {
				binary.LittleEndian.PutUint64(raw[8:], uint64([]int64{-1, -1 << 63, int64(n) + 1, int64(len(raw)) + 1, 100000, 1 << 62, 1<<63 - 1, 0}[r.Intn(8)]))
			}
		case 3:
			raw = r.Bytes(r.Intn(80))
		case 4:
			raw = append(raw, r.Bytes(1+r.Intn(20))...)
		default:
			if len(raw) > 20 {
				p := 16 + r.Intn(len(raw)-16)
				raw[p] = []byte{0, 0xff, 0x80, 0x7f}[r.Intn(4)]
			}
		}
		raw = c28Defuse(raw)
		in.Kind, in.Raw = "raw", raw
		return in
	}
	class := 0
	switch {
	case kind < 32:
		class = 1
	case kind < 40:
		class = 2
	case kind < 41:
		class = 3
	case kind < 45:
		class = 4
	case kind < 50:
		class = 5
	case kind < 52:
		class = 6
	}
	n := r.Intn(maxCmds + 1)
	if class == 6 { // number of commands around the boundaries of narrower count fields
		n = []int{127, 128, 255, 256, 257}[r.Intn(5)]
		for j := 0; j < n; j++ {
			c := c28Cmd{RT: j & 1, Path: []byte(fmt.Sprintf("s/%d", j)), VRL: int64(j), Off: int64(37024 + 8*j), Idx: int64(j + 1), Data: []byte{byte(j)},
				Shapes: []c28Shape{{[]byte("Epoch"), 3}}}
			in.Cmds = append(in.Cmds, c)
		}
		return in
	}
	if class != 0 && n == 0 {
		n = 1
	}
	special := r.Intn(n + 1)
	for j := 0; j < n; j++ {
		cl := 0
		if j == special || (class != 0 && n == 1) {
			cl = class
		}
		in.Cmds = append(in.Cmds, c28GenCmd(r, tier, cl))
	}
	return in
}

// c28Encode: an independent straightforward encoder used ONLY to seed the malformed-stream mutator.
func c28Encode(tgid int64, cmds []c28Cmd) []byte {
	var b []byte
	le := func(v uint64, n int) {
		for i := 0; i < n; i++ {
			b = append(b, byte(v>>(8*uint(i))))
		}
	}
	le(uint64(tgid), 8)
	le(uint64(len(cmds)), 8)
	for _, c := range cmds {
		le(uint64(c.RT), 1)
		le(uint64(len(c.Path)), 2)
		b = append(b, c.Path...)
		le(uint64(len(c.Data)), 4)
		le(uint64(c.VRL), 4)
		le(uint64(c.Off), 8)
		le(uint64(c.Idx), 8)
		b = append(b, c.Data...)
		if len(c.Shapes)%256 != 0 {
			le(uint64(len(c.Shapes)), 1)
			for _, s := range c.Shapes {
				le(uint64(len(s.Name)), 1)
				b = append(b, s.Name...)
				le(uint64(s.Type), 1)
			}
		}
	}
	return b
}

const c28SizeofWTSet = 88
const c28MaxAlloc = 1 << 48

// c28Dangerous: a WTCount for which make([]wal.WTSet, WTCount) neither panics at once nor is harmless:
// the real code would try to allocate gigabytes (DESIGN §10: modelled as an allocation, not as OOM).
func c28Dangerous(raw []byte) bool {
	if len(raw) < 16 {
		return false
	}
	cnt := int64(binary.LittleEndian.Uint64(raw[8:16]))
	return cnt > 1<<20 && cnt <= c28MaxAlloc/c28SizeofWTSet
}
func c28Defuse(raw []byte) []byte {
	if c28Dangerous(raw) {
		raw[12], raw[13], raw[14], raw[15] = 0, 0, 0, 0x40 // > maxAlloc/sizeof: makeslice panics immediately
		raw[11] = 0
		if c28Dangerous(raw) {
			binary.LittleEndian.PutUint64(raw[8:], 1<<62)
		}
	}
	return raw
}

type c28WT struct {
	RT      int        `json:"rt"`
	Path    []byte     `json:"path"`
	DataLen int        `json:"datalen"`
	VRL     int        `json:"vrl"`
	Buf     []byte     `json:"buf"`
	Shapes  []c28Shape `json:"shapes"`
}
type c28Obs struct {
	Ser     []byte  `json:"ser"`
	Code    int     `json:"code"`
	TGID    int64   `json:"tgid"`
	WTs     []c28WT `json:"wts"`
	Panic   string  `json:"panic,omitempty"`
	NCmds   int     `json:"ncmds"`
	WErr    string  `json:"writer_err,omitempty"`
	PerFile bool    `json:"perfile_ok"`
}

// c28Hex prints a byte string as a Gallina term of type list byte; long strings are chunked because
// coqc's number-literal parser overflows its stack on literals of more than ~10^4 digits.
func c28Hex(b []byte) string {
	const chunk = 2048
	const minRun = 256
	var parts []string
	lit := func(x []byte) {
		for i := 0; i < len(x); i += chunk {
			j := i + chunk
			if j > len(x) {
				j = len(x)
			}
			parts = append(parts, "unhexp "+cq.Hex(x[i:j]))
		}
	}
	start := 0 // start of the pending literal part
	for i := 0; i < len(b); {
		j := i
		for j < len(b) && b[j] == b[i] {
			j++
		}
		if j-i >= minRun { // long run of one byte value: printed as [repeat], not as digits
			lit(b[start:i])
			parts = append(parts, fmt.Sprintf("repeat (byte_of_N %d%%N) (Z.to_nat %d%%Z)", b[i], j-i))
			start = j
		}
		i = j
	}
	lit(b[start:])
	if len(parts) == 0 {
		return "(unhexp " + cq.Hex(nil) + ")"
	}
	return "(" + strings.Join(parts, " ++ ") + ")"
}

func c28Shapes(l []c28Shape) string {
	var s []string
	for _, x := range l {
		s = append(s, cq.Tuple(c28Hex(x.Name), cq.Z(int64(x.Type))))
	}
	return cq.List(s)
}

var c28Pipe *executor.TransactionPipe

// c28TmpBase: a memory-backed directory when there is one (NewWALFile fsyncs its status record).
func c28TmpBase() string {
	if st, err := os.Stat("/dev/shm"); err == nil && st.IsDir() {
		return "/dev/shm"
	}
	return ""
}

// c28Sender records what FlushCommandsToWAL hands to the replication sender: the serialized transaction group
// exactly as the real write path produced it (no hook needed).
type c28Sender struct{ got [][]byte }

func (s *c28Sender) Run(_ context.Context) {}
func (s *c28Sender) Send(tg []byte)        { s.got = append(s.got, append([]byte{}, tg...)) }

// c28WriterTG runs the real write path (catalog + WAL file + Writer.WriteCSM, which flushes) in a scratch
// directory and returns the serialized transaction group it wrote and the data shapes of the bucket.
func c28WriterTG(w *c28Writer) (ser []byte, shapes []c28Shape, root string, err error) {
	root, err = os.MkdirTemp(c28TmpBase(), "c28w")
	if err != nil {
		return nil, nil, "", err
	}
	defer os.RemoveAll(root)
	defer func() {
		if p := recover(); p != nil {
			err = fmt.Errorf("write path panicked: %v", p)
		}
	}()
	dir, e := catalog.NewDirectory(root)
	if e != nil && dir == nil {
		return nil, nil, root, e
	}
	var wg sync.WaitGroup
	tpd := executor.StartNewTriggerPluginDispatcher(nil)
	if c28Pipe == nil {
		c28Pipe = executor.NewTransactionPipe() // two 1M-slot channels: ~0.7 s to allocate, so shared (always drained)
	}
	snd := &c28Sender{}
	wf, e := executor.NewWALFile(root, 4711, snd, false, &wg, tpd, c28Pipe)
	if e != nil {
		return nil, nil, root, e
	}
	defer wf.FilePtr.Close()
	wr, e := executor.NewWriter(dir, wf)
	if e != nil {
		return nil, nil, root, e
	}
	cs := io.NewColumnSeries()
	cs.AddColumn("Epoch", append([]int64{}, w.Epochs...))
	r := rng.New(w.Seed)
	for j, nm := range w.Names {
		col, e := mk.Col(w.Types[j], r.Bytes(len(w.Epochs)*mk.SizeOf(w.Types[j])))
		if e != nil {
			return nil, nil, root, e
		}
		cs.AddColumn(string(nm), col)
	}
	if w.Variable {
		ns := make([]int32, len(w.Epochs))
		for j := range ns {
			ns[j] = int32(r.Intn(1000000000))
		}
		cs.AddColumn("Nanoseconds", ns)
	}
	tbk := io.NewTimeBucketKey("SYM/1Min/TST")
	csm := io.NewColumnSeriesMap()
	csm.AddColumnSeries(*tbk, cs)
	if werr := wr.WriteCSM(csm, w.Variable); werr != nil {
		return nil, nil, root, fmt.Errorf("WriteCSM rejected the write: %v", werr)
	}
	if len(snd.got) != 1 {
		return nil, nil, root, fmt.Errorf("write path flushed %d transaction groups", len(snd.got))
	}
	tbi, e := dir.GetLatestTimeBucketInfoFromKey(tbk)
	if e != nil {
		return nil, nil, root, e
	}
	for _, ds := range tbi.GetDataShapesWithEpoch() {
		shapes = append(shapes, c28Shape{[]byte(ds.Name), int(ds.Type)})
	}
	return snd.got[0], shapes, root, nil
}

func c28Run(raw json.RawMessage) (res Result, err error) {
	var in c28In
	if err = json.Unmarshal(raw, &in); err != nil {
		return
	}
	obs := c28Obs{}
	cmds := in.Cmds
	root := string(in.Root)
	var writerShapes []c28Shape
	var writerSer []byte
	if in.Kind == "writer" {
		var e error
		writerSer, writerShapes, root, e = c28WriterTG(in.Writer)
		if e != nil {
			// the write path did not accept the write: nothing to round-trip (outside the property's domain)
			obs.WErr = e.Error()
			res.Obs, res.Holds, res.Key = obs, true, string(raw)
			res.Tags = []string{"kind:writer", "writer-rejected"}
			return res, nil
		}
		if len(writerShapes) <= 255 {
			// decodable: recover the commands with the real decoder; the model must re-encode them to the very bytes
			// the write path produced
			cp := append([]byte{}, writerSer...)
			id, wts := executor.ParseTGData(cp, root)
			in.TGID = id
			for _, w := range wts {
				rel, _ := filepath.Rel(root, w.FilePath)
				c := c28Cmd{RT: int(w.RecordType), Path: []byte(rel), VRL: int64(w.VarRecLen)}
				if len(w.Buffer) >= 16 {
					c.Off, c.Idx, c.Data = w.Buffer.Offset(), w.Buffer.Index(), append([]byte{}, w.Buffer.Payload()...)
				}
				for _, ds := range w.DataShapes {
					c.Shapes = append(c.Shapes, c28Shape{[]byte(ds.Name), int(ds.Type)})
				}
				cmds = append(cmds, c)
			}
		} else {
			in.Kind, in.Raw = "raw", writerSer // not decodable into commands: the model sees the bytes
		}
	}
	obs.NCmds = len(cmds)
	// ---- the real encoder
	var ser []byte
	if in.Kind == "raw" {
		if c28Dangerous(in.Raw) {
			return res, fmt.Errorf("refusing to run: WTCount would make the real code allocate gigabytes")
		}
		ser = in.Raw
	} else {
		wcs := make([]*wal.WriteCommand, len(cmds))
		for i, c := range cmds {
			wc := &wal.WriteCommand{RecordType: io.EnumRecordType(int8(c.RT)), WALKeyPath: string(c.Path), VarRecLen: int(c.VRL),
				Offset: c.Off, Index: c.Idx, Data: c.Data}
			for _, s := range c.Shapes {
				wc.DataShapes = append(wc.DataShapes, io.DataShape{Name: string(s.Name), Type: io.EnumElementType(byte(s.Type))})
			}
			wcs[i] = wc
		}
		var perFile map[string][]wal.OffsetIndexBuffer
		ser, perFile = executor.VerifSerializeTG(in.TGID, wcs)
		// writesPerFile: per key path, the (offset,index,payload) buffers in command order
		obs.PerFile = true
		want := map[string][][]byte{}
		for _, c := range cmds {
			b := make([]byte, 16, 16+len(c.Data))
			binary.LittleEndian.PutUint64(b, uint64(c.Off))
			binary.LittleEndian.PutUint64(b[8:], uint64(c.Idx))
			want[string(c.Path)] = append(want[string(c.Path)], append(b, c.Data...))
		}
		if len(want) != len(perFile) {
			obs.PerFile = false
		}
		for k, l := range want {
			if len(perFile[k]) != len(l) {
				obs.PerFile = false
				continue
			}
			for i := range l {
				if !bytes.Equal(l[i], perFile[k][i]) {
					obs.PerFile = false
				}
			}
		}
	}
	obs.Ser = append([]byte{}, ser...)
	writerMismatch := writerSer != nil && !bytes.Equal(writerSer, ser)
	// ---- the real decoder, on a buffer with cap = len exactly as walreplay.go readTGData allocates it
	buf := make([]byte, len(ser))
	copy(buf, ser)
	var wts []wal.WTSet
	func() {
		defer func() {
			if p := recover(); p != nil {
				obs.Code, obs.Panic = 2, fmt.Sprint(p)
			}
		}()
		obs.TGID, wts = executor.ParseTGData(buf, root)
	}()
	var coqW []string
	if obs.Code == 0 {
		for i, w := range wts {
			o := c28WT{RT: int(w.RecordType), Path: []byte(w.FilePath), DataLen: w.DataLen, VRL: w.VarRecLen, Buf: append([]byte{}, w.Buffer...)}
			for _, ds := range w.DataShapes {
				o.Shapes = append(o.Shapes, c28Shape{[]byte(ds.Name), int(ds.Type)})
			}
			obs.WTs = append(obs.WTs, o)
			// buffer / shapes identical to input command i's are printed as None (see Corr/C28.v kwt)
			bufS, shS := cq.Some(c28Hex(o.Buf)), cq.Some(c28Shapes(o.Shapes))
			if i < len(cmds) && in.Kind != "raw" {
				c := cmds[i]
				want := make([]byte, 16, 16+len(c.Data))
				binary.LittleEndian.PutUint64(want, uint64(c.Off))
				binary.LittleEndian.PutUint64(want[8:], uint64(c.Idx))
				if bytes.Equal(append(want, c.Data...), o.Buf) {
					bufS = "None"
				}
				same := len(c.Shapes) == len(o.Shapes)
				for j := 0; same && j < len(c.Shapes); j++ {
					same = bytes.Equal(c.Shapes[j].Name, o.Shapes[j].Name) && int(byte(c.Shapes[j].Type)) == o.Shapes[j].Type
				}
				if same {
					shS = "None"
				}
			}
			coqW = append(coqW, cq.Rec(cq.F("kw_rt", cq.Z(int64(o.RT))), cq.F("kw_path", c28Hex(o.Path)), cq.F("kw_datalen", cq.Z(int64(o.DataLen))),
				cq.F("kw_vrl", cq.Z(int64(o.VRL))), cq.F("kw_buf", bufS), cq.F("kw_shapes", shS)))
		}
	} else {
		obs.TGID = 0
	}
	var coqC []string
	for _, c := range cmds {
		coqC = append(coqC, cq.Rec(cq.F("kc_rt", cq.Z(int64(int8(c.RT)))), cq.F("kc_path", c28Hex(c.Path)), cq.F("kc_vrl", cq.Z(c.VRL)),
			cq.F("kc_off", cq.Z(c.Off)), cq.F("kc_idx", cq.Z(c.Idx)), cq.F("kc_data", c28Hex(c.Data)), cq.F("kc_shapes", c28Shapes(c.Shapes))))
	}
	res.Coq = cq.Rec(cq.F("k_raw", cq.Bool(in.Kind == "raw")), cq.F("k_tgid", cq.Z(in.TGID)), cq.F("k_root", c28Hex([]byte(root))),
		cq.F("k_cmds", cq.List(coqC)), cq.F("k_ser", c28Hex(obs.Ser)), cq.F("k_code", cq.Nat(obs.Code)), cq.F("k_ptgid", cq.Z(obs.TGID)),
		cq.F("k_wts", cq.List(coqW)))
	small := obs
	if len(small.Ser) > 600 {
		small.Ser = small.Ser[:600]
	}
	if len(small.WTs) > 0 && len(obs.Ser) > 600 {
		small.WTs = nil
	}
	res.Obs = small

	// ---- guard (mirror of TGCodec.encodableb), property domain (acceptableb) and finding classes
	encodable, acceptable, longName, manyShapes := true, true, false, false
	for _, c := range cmds {
		base := len(c.Path) < 32768 && len(c.Data) < 1<<31 && c.VRL >= -(1<<31) && c.VRL < 1<<31 && c.RT >= -128 && c.RT <= 127
		// mirror of TGCodec.acceptableb: + TimeBucketInfo.CheckStorable on the names (elementNameHeaderBytes = 32, no NUL
		// at either end) and at most maxNumElements = 1024 elements besides Epoch
		if !base || len(c.Shapes) < 1 || len(c.Shapes) > 1024+1 {
			acceptable = false
		}
		if len(c.Shapes) > 255 {
			manyShapes = true
		}
		for _, s := range c.Shapes {
			if len(s.Name) > 255 {
				longName = true
			}
			if len(s.Name) > 32 || (len(s.Name) > 0 && (s.Name[0] == 0 || s.Name[len(s.Name)-1] == 0)) {
				acceptable = false
			}
		}
	}
	encodable = c28Encodable(cmds)
	res.InDomain = in.Kind != "raw" && encodable
	res.Holds = true
	if in.Kind != "raw" && acceptable {
		// the property as stated: decoding yields exactly the original target file, record type, offset,
		// interval index, payload and column schema
		fail := func(f string, a ...interface{}) {
			if res.Holds {
				res.Holds, res.Detail = false, fmt.Sprintf(f, a...)
			}
		}
		if obs.Code != 0 {
			fail("ParseTGData panicked: %s", obs.Panic)
		} else if obs.TGID != in.TGID || len(wts) != len(cmds) {
			fail("decoded tgID %d / %d WTSets, want %d / %d", obs.TGID, len(wts), in.TGID, len(cmds))
		} else {
			for i, c := range cmds {
				w := wts[i]
				if int(w.RecordType) != int(int8(c.RT)) {
					fail("cmd %d: record type %d, want %d", i, w.RecordType, c.RT)
				}
				if w.FilePath != filepath.Join(root, string(c.Path)) {
					fail("cmd %d: target file %q, want %q", i, w.FilePath, filepath.Join(root, string(c.Path)))
				}
				if len(w.Buffer) != 16+len(c.Data) || w.DataLen != len(c.Data) || int64(w.VarRecLen) != c.VRL {
					fail("cmd %d: buffer length %d dataLen %d varRecLen %d, want %d %d %d", i, len(w.Buffer), w.DataLen, w.VarRecLen, 16+len(c.Data), len(c.Data), c.VRL)
				} else {
					if w.Buffer.Offset() != c.Off || w.Buffer.Index() != c.Idx {
						fail("cmd %d: offset/index %d/%d, want %d/%d", i, w.Buffer.Offset(), w.Buffer.Index(), c.Off, c.Idx)
					}
					if !bytes.Equal(w.Buffer.Payload(), c.Data) {
						fail("cmd %d: payload differs", i)
					}
				}
				if len(w.DataShapes) != len(c.Shapes) {
					fail("cmd %d: %d data shapes decoded, want %d", i, len(w.DataShapes), len(c.Shapes))
				} else {
					for j, s := range c.Shapes {
						if w.DataShapes[j].Name != string(s.Name) || int(w.DataShapes[j].Type) != int(byte(s.Type)) {
							fail("cmd %d: data shape %d is (%q,%d), want (%q,%d)", i, j, trunc(w.DataShapes[j].Name), w.DataShapes[j].Type, trunc(string(s.Name)), s.Type)
							break
						}
					}
				}
			}
		}
		if !obs.PerFile {
			fail("writesPerFile buffers differ from the commands' offset/index/payload")
		}
		if !res.Holds && manyShapes {
			res.Class = "more-than-255-data-shapes"
		}
	}
	if writerShapes != nil && res.Holds {
		// through the real write path: every decoded write set must carry the bucket's column schema, and
		// re-encoding the decoded commands must give the bytes the write path wrote
		if writerMismatch {
			res.Holds, res.Detail = false, "serializeTG of the decoded commands differs from the transaction group the write path wrote"
		}
		if obs.Code != 0 || len(wts) == 0 {
			res.Holds, res.Detail = false, fmt.Sprintf("the transaction group written by the write path does not decode (code %d, %d write sets)", obs.Code, len(wts))
		}
		for i, w := range wts {
			same := len(w.DataShapes) == len(writerShapes)
			for j := 0; same && j < len(writerShapes); j++ {
				same = w.DataShapes[j].Name == string(writerShapes[j].Name) && int(w.DataShapes[j].Type) == writerShapes[j].Type
			}
			if !same && res.Holds {
				res.Holds, res.Detail = false, fmt.Sprintf("write set %d decodes with %d data shapes, the bucket has %d", i, len(w.DataShapes), len(writerShapes))
			}
		}
		if !res.Holds && len(writerShapes) > 255 {
			res.Class = "more-than-255-data-shapes"
		}
	}
	// the acceptance predicate itself is tied to the code: whatever the real write path accepted must be acceptable
	if writerShapes != nil {
		for _, sh := range writerShapes {
			if len(sh.Name) > 32 || (len(sh.Name) > 0 && (sh.Name[0] == 0 || sh.Name[len(sh.Name)-1] == 0)) {
				acceptable = false
			}
		}
		if len(writerShapes) > 1025 {
			acceptable = false
		}
	}
	if writerShapes != nil && !acceptable && res.Holds {
		res.Holds, res.Detail = false, "the write path (bucket creation + WriteCSM) accepted a write outside the modelled acceptance predicate (CheckStorable: names <= 32 bytes, <= 1024 elements)"
	}
	res.Tags = []string{"kind:" + in.Kind, fmt.Sprintf("cmds=%d", bucket(len(cmds))), fmt.Sprintf("code=%d", obs.Code)}
	if res.InDomain {
		res.Tags = append(res.Tags, "in-domain")
	} else {
		res.Tags = append(res.Tags, "outside-domain")
	}
	if longName {
		res.Tags = append(res.Tags, "long-name")
	}
	if manyShapes {
		res.Tags = append(res.Tags, "many-shapes")
	}
	if in.Kind != "raw" && !acceptable {
		res.Tags = append(res.Tags, "not-acceptable")
	}
	if !res.Holds {
		res.Tags = append(res.Tags, "oracle-fails")
	}
	res.Nontrivial = res.InDomain && len(cmds) >= 1
	res.Key = string(raw)
	return res, nil
}

// c28Encodable mirrors TGCodec.encodableb (the guard of C28_roundtrip).
func c28Encodable(cmds []c28Cmd) bool {
	for _, c := range cmds {
		if !(len(c.Path) < 32768 && len(c.Data) < 1<<31 && c.VRL >= -(1<<31) && c.VRL < 1<<31 && c.RT >= -128 && c.RT <= 127) {
			return false
		}
		if len(c.Shapes) < 1 || len(c.Shapes) > 255 {
			return false
		}
		for _, s := range c.Shapes {
			if len(s.Name) > 255 {
				return false
			}
		}
	}
	return true
}

func trunc(s string) string {
	if len(s) > 40 {
		return s[:40] + fmt.Sprintf("...(%d bytes)", len(s))
	}
	return s
}

func init() {
	Register(&Spec{
		ID:          "C28",
		CoqRequire:  "Require Import MS.Corr.C28.",
		CoqCaseType: "C28.case",
		Rule: "transaction groups of 0-4 (thorough 0-12) write commands: record types incl. invalid ones, typical/odd/long/binary key paths " +
			"(.., //, NUL, 4 KiB, around 32767/32768), payloads of 0-6000 bytes, extreme offsets/indexes/VarRecLen (int32 edge and beyond), " +
			"1-6 shapes with names of 0-40 bytes; boundary classes: name of 254-513 bytes, 254-512 shapes, 0 shapes; ~8% produced by the REAL " +
			"write path (catalog+WAL+Writer.WriteCSM, commands captured before the flush); ~14% malformed byte strings (truncated, bit-flipped, " +
			"count-edited, random) straight into ParseTGData; distinct = distinct input JSON; non-trivial = inside the guard with >= 1 command",
		Gen: c28Gen,
		Run: c28Run,
	})
}
