// Package props holds one file per property: a seeded generator, a runner that executes the REAL
// marketstore code on the generated input, the Gallina rendering of (input, observed output) for the
// in-Coq model evaluation, and the property oracle evaluated on the implementation's own outputs.
package props

import (
	"encoding/json"
	"fmt"
	"sort"

	"verifharness/internal/rng"
)

// Result of running the implementation on one input.
type Result struct {
	Coq        string      `json:"-"`          // Gallina term of the case (input + observed), type Spec.CoqCaseType
	Obs        interface{} `json:"obs"`        // observed outputs (canonical, JSON)
	Holds      bool        `json:"holds"`      // the property predicate, evaluated on the implementation's outputs
	Class      string      `json:"class"`      // when !Holds: name of the finding class the INPUT falls in ("" = none)
	Detail     string      `json:"detail"`     // when !Holds: what failed
	InDomain   bool        `json:"in_domain"`  // input satisfies the guard of the guarded theorem
	Tags       []string    `json:"tags"`       // generator tags, for the input-distribution histogram
	Nontrivial bool        `json:"nontrivial"` // by the property's stated rule
	Key        string      `json:"key"`        // canonical key for distinctness
}

type Spec struct {
	ID          string
	CoqRequire  string // e.g. "Require Import MS.Corr.C29."
	CoqCaseType string // e.g. "C29.case"
	Rule        string // how cases are generated; what makes one distinct / non-trivial
	// Gen returns a JSON-able input. i is the case index; tier "quick"|"thorough".
	Gen func(r *rng.Rand, i int, tier string) interface{}
	// Run executes the real code on the (JSON round-tripped) input.
	Run func(input json.RawMessage) (Result, error)
	// Neighbours (optional): perturbations of an input, used by the search after a broken
	// proof/correspondence.
	Neighbours func(input json.RawMessage, r *rng.Rand) []interface{}
}

var registry = map[string]*Spec{}

func Register(s *Spec) {
	if _, dup := registry[s.ID]; dup {
		panic("duplicate property " + s.ID)
	}
	registry[s.ID] = s
}

func Get(id string) (*Spec, error) {
	s, ok := registry[id]
	if !ok {
		return nil, fmt.Errorf("no harness registered for property %s", id)
	}
	return s, nil
}

func IDs() []string {
	var l []string
	for k := range registry {
		l = append(l, k)
	}
	sort.Strings(l)
	return l
}
