package props

import (
	"encoding/json"
	"fmt"
	"strings"

	"github.com/alpacahq/marketstore/v4/utils/io"

	"verifharness/internal/cq"
	"verifharness/internal/mk"
	"verifharness/internal/rng"
)

// C29 — Row serialization round-trips with alignment.
// Implementation under test: (*ColumnSeries).ToRowSeries -> SerializeColumnsToRows, and
// (*RowSeries).GetColumn -> Rows.GetColumn / get<T>Column.

type c29Col struct {
	Name string `json:"name"`
	Type string `json:"type"`
	Data []byte `json:"data"` // raw little-endian values
}
type c29In struct {
	Cols  []c29Col `json:"cols"`
	Align bool     `json:"align"`
	Rows  int      `json:"rows"`
}

var c29Names = []string{"Open", "High", "Low", "Close", "Volume", "Bid", "Ask", "x", "A", "b1", "Nanoseconds", "Ticks", "V2"}
var c29EpochLike = []string{"EPOCH", "epoch", "ePoch", "EpocH"}

func c29Vals(r *rng.Rand, typ string, n int) []byte {
	sz := mk.SizeOf(typ)
	b := make([]byte, n*sz)
	mode := r.Intn(4)
	for i := 0; i < n; i++ {
		w := b[i*sz : (i+1)*sz]
		switch mode {
		case 0: // random bits
			copy(w, r.Bytes(sz))
		case 1: // extremes
			v := byte(0xff)
			if r.Bool() {
				v = 0
			}
			for j := range w {
				w[j] = v
			}
			if r.Bool() {
				w[sz-1] ^= 0x80
			}
		case 2: // small counters
			w[0] = byte(i + 1)
		default: // repetitive
			for j := range w {
				w[j] = 0x41
			}
		}
		if typ == "bool" {
			w[0] &= 1
		}
		if typ == "string16" && r.Chance(50) {
			// text-like values: ASCII runes with zero runes sprinkled in (leading, interior and trailing padding)
			for j := 0; j < 16; j++ {
				w[4*j], w[4*j+1], w[4*j+2], w[4*j+3] = 0, 0, 0, 0
				if !r.Chance(40) {
					w[4*j] = byte(0x30 + r.Intn(75))
				}
			}
		}
	}
	return b
}

func c29Gen(r *rng.Rand, i int, tier string) interface{} {
	maxRows := 6
	if tier == "thorough" {
		maxRows = 40
	}
	n := r.Intn(maxRows + 1)
	in := c29In{Align: r.Bool(), Rows: n}
	kind := r.Intn(100)
	// Epoch column: mostly first and int64
	epochType, epochFirst, haveEpoch := "int64", true, true
	switch {
	case kind < 4:
		haveEpoch = false // malformed: no Epoch
	case kind < 8:
		epochType = []string{"int32", "float64", "uint64"}[r.Intn(3)] // malformed: wrong type
	case kind < 12:
		epochFirst = false
	}
	ncols := r.Intn(7)
	var others []c29Col
	used := map[string]bool{}
	for j := 0; j < ncols; j++ {
		name := c29Names[r.Intn(len(c29Names))]
		if kind >= 12 && kind < 20 && j == 0 {
			name = c29EpochLike[r.Intn(len(c29EpochLike))] // finding class: epoch-like second column
		}
		if j > 0 && r.Chance(12) { // a name differing from an earlier one only in letter case
			prev := others[r.Intn(len(others))].Name
			if r.Bool() {
				name = strings.ToUpper(prev)
			} else {
				name = strings.ToLower(prev)
			}
			if strings.EqualFold(name, "epoch") {
				name = "Open"
			}
		}
		if used[name] && !r.Chance(15) { // duplicates only sometimes (AddColumn renames them)
			name = fmt.Sprintf("%s%d", name, j)
		}
		used[name] = true
		typ := mk.TypeNames[r.Intn(len(mk.TypeNames))]
		rows := n
		if kind >= 20 && kind < 24 && r.Bool() { // malformed: unequal lengths
			rows = n + r.Intn(3) - 1
			if rows < 0 {
				rows = 0
			}
		}
		others = append(others, c29Col{name, typ, c29Vals(r, typ, rows)})
	}
	ep := c29Col{"Epoch", epochType, c29Vals(r, epochType, n)}
	if !haveEpoch {
		in.Cols = others
	} else if epochFirst || len(others) == 0 {
		in.Cols = append([]c29Col{ep}, others...)
	} else {
		k := 1 + r.Intn(len(others))
		in.Cols = append(append(append([]c29Col{}, others[:k]...), ep), others[k:]...)
	}
	return in
}

type c29Obs struct {
	Names  []string `json:"names"`
	Types  []int    `json:"types"`
	Code   int      `json:"code"`
	RowLen int      `json:"rowlen"`
	Data   []byte   `json:"data"`
	Get    []c29Get `json:"get"`
}
type c29Get struct {
	Code    int    `json:"code"`
	Present bool   `json:"present"`
	Type    int    `json:"type"`
	Data    []byte `json:"data"`
}

func c29Run(raw json.RawMessage) (res Result, err error) {
	var in c29In
	if err = json.Unmarshal(raw, &in); err != nil {
		return
	}
	cs := io.NewColumnSeries()
	for _, c := range in.Cols {
		col, e := mk.Col(c.Type, c.Data)
		if e != nil {
			return res, e
		}
		cs.AddColumn(c.Name, col)
	}
	// the model's input is the column series as the implementation holds it
	obs := c29Obs{}
	shapes := cs.GetDataShapes()
	var coqCols []string
	var rawCols [][]byte
	for _, ds := range shapes {
		obs.Names = append(obs.Names, ds.Name)
		obs.Types = append(obs.Types, int(ds.Type))
		rc := mk.Raw(cs.GetColumn(ds.Name))
		rawCols = append(rawCols, rc)
		coqCols = append(coqCols, cq.Tuple(cq.Hex([]byte(ds.Name)), cq.Z(int64(ds.Type)), cq.Hex(rc)))
	}
	var rs *io.RowSeries
	func() {
		defer func() {
			if p := recover(); p != nil {
				obs.Code = 2
			}
		}()
		var e error
		rs, e = cs.ToRowSeries(io.TimeBucketKey{}, in.Align)
		if e != nil {
			obs.Code = 1
		}
	}()
	var coqGet []string
	if obs.Code == 0 {
		obs.RowLen = rs.GetRowLen()
		obs.Data = append([]byte{}, rs.GetData()...)
		for _, ds := range shapes {
			g := c29Get{}
			func() {
				defer func() {
					if p := recover(); p != nil {
						g.Code = 2
					}
				}()
				col := rs.GetColumn(ds.Name)
				if col != nil {
					g.Present = true
					g.Type = int(io.GetElementType(col))
					g.Data = mk.Raw(col)
				}
			}()
			obs.Get = append(obs.Get, g)
			coqGet = append(coqGet, cq.Rec(cq.F("o_code", cq.Nat(g.Code)), cq.F("o_present", cq.Bool(g.Present)),
				cq.F("o_type", cq.Z(int64(g.Type))), cq.F("o_data", cq.Hex(g.Data))))
		}
	}
	res.Obs = obs
	res.Coq = cq.Rec(cq.F("k_cols", cq.List(coqCols)), cq.F("k_align", cq.Bool(in.Align)), cq.F("k_nrows", cq.Nat(in.Rows)),
		cq.F("k_code", cq.Nat(obs.Code)), cq.F("k_data", cq.Hex(obs.Data)), cq.F("k_rowlen", cq.Nat(obs.RowLen)),
		cq.F("k_get", cq.List(coqGet)))

	// ---- guard (mirror of Rows.wf_csb) and finding class, as executable predicates on the input ----
	epochFirst := len(shapes) > 0 && shapes[0].Name == "Epoch" && shapes[0].Type == io.INT64
	epochLike := false
	equalLens := true
	for j, ds := range shapes {
		if j > 0 && strings.EqualFold(ds.Name, "Epoch") {
			epochLike = true
		}
		if len(rawCols[j]) != in.Rows*ds.Type.Size() {
			equalLens = false
		}
	}
	res.InDomain = epochFirst && !epochLike && equalLens
	// ---- property oracle on the implementation's outputs: every column reads back bit-identical ----
	res.Holds = true
	if epochFirst && equalLens { // the property's own domain ("all column schemas", well-formed series)
		if obs.Code != 0 {
			res.Holds, res.Detail = false, fmt.Sprintf("ToRowSeries failed with code %d", obs.Code)
		} else {
			for j, ds := range shapes {
				g := obs.Get[j]
				if g.Code != 0 || !g.Present || string(g.Data) != string(rawCols[j]) {
					res.Holds = false
					res.Detail = fmt.Sprintf("column %q (type %d) does not read back: code=%d present=%v type=%d len=%d want len=%d",
						ds.Name, ds.Type, g.Code, g.Present, g.Type, len(g.Data), len(rawCols[j]))
					break
				}
			}
			sum := 0
			for _, ds := range shapes {
				sum += ds.Type.Size()
			}
			if res.Holds && !epochLike && (obs.RowLen < sum || (in.Align && obs.RowLen%8 != 0)) {
				res.Holds, res.Detail = false, fmt.Sprintf("row length %d for columns of total size %d (align=%v)", obs.RowLen, sum, in.Align)
			}
		}
		if !res.Holds && epochLike {
			res.Class = "epochlike-column-name"
		}
	}
	// ---- distribution tags ----
	res.Tags = []string{fmt.Sprintf("rows=%d", bucket(in.Rows)), fmt.Sprintf("cols=%d", len(shapes)), fmt.Sprintf("code=%d", obs.Code)}
	if in.Align {
		res.Tags = append(res.Tags, "aligned")
	}
	if res.InDomain {
		res.Tags = append(res.Tags, "in-domain")
	} else {
		res.Tags = append(res.Tags, "outside-domain")
	}
	if epochLike {
		res.Tags = append(res.Tags, "epochlike")
	}
	for _, ds := range shapes {
		res.Tags = append(res.Tags, "type:"+ds.Type.String())
	}
	res.Nontrivial = res.InDomain && in.Rows >= 1 && len(shapes) >= 2
	res.Key = string(raw)
	return res, nil
}

func bucket(n int) int {
	switch {
	case n <= 2:
		return n
	case n <= 8:
		return 8
	case n <= 64:
		return 64
	}
	return 1000
}

func init() {
	Register(&Spec{
		ID:          "C29",
		CoqRequire:  "Require Import MS.Corr.C29.",
		CoqCaseType: "C29.case",
		Rule: "column series of 0-6 columns over all 12 fixed-width element types plus Epoch, 0-6 rows (0-40 thorough), random/extreme/" +
			"repetitive bit patterns, aligned or not; ~25% malformed (no Epoch, Epoch of wrong type or not first, unequal lengths, " +
			"epoch-like second name); distinct = distinct input JSON; non-trivial = inside the theorem's guard with >=1 row and >=2 columns",
		Gen: c29Gen,
		Run: c29Run,
	})
}
