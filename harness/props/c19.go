package props

import (
	"encoding/json"
	"fmt"
	"math"
	"math/big"
	"sort"
	"strconv"
	"strings"
	"time"

	"github.com/alpacahq/marketstore/v4/sqlparser"
	"github.com/alpacahq/marketstore/v4/utils/io"

	"verifharness/internal/cq"
	"verifharness/internal/rng"
	"verifharness/internal/sqlinst"
)

// C19 — SQL WHERE predicates select exactly the matching rows.
// Implementation under test: sqlparser.BuildQueryTree -> NewExecutableStatement -> Materialize on a
// bucket written into a real temporary instance.  The abstract query (a conjunction of comparisons /
// BETWEEN) is printed as SQL for the real pipeline and as a predicate list for the Coq model.

type c19Col struct {
	Name string `json:"name"`
	Type string `json:"type"`
}
type c19Row struct {
	Epoch int64   `json:"epoch"`
	Vals  []int64 `json:"vals"` // integer columns: the value (uint64: its bits); float columns: the IEEE bits
}
type c19Lit struct {
	K   string `json:"k"`             // "int" | "flt" | "time"
	I   int64  `json:"i,omitempty"`   // int: the literal; time: UnixNano of the datetime string
	F   uint64 `json:"f,omitempty"`   // flt: float64 bits
	Fmt int    `json:"fmt,omitempty"` // time: index into c19TimeFormats
}
type c19Pred struct {
	Col string  `json:"col"`
	Op  string  `json:"op"` // = < <= > >= <> between
	L   c19Lit  `json:"l"`
	H   *c19Lit `json:"h,omitempty"`
}
type c19In struct {
	TF    string    `json:"tf"`
	Cols  []c19Col  `json:"cols"`
	Rows  []c19Row  `json:"rows"`
	Preds []c19Pred `json:"preds"`
}

var c19TFs = map[string]int64{"1Sec": 1, "1Min": 60, "5Min": 300, "1H": 3600}

// the layouts CoerceToNumeric accepts (without the zone form)
var c19TimeFormats = []string{"2006-01-02-15:04:05.00000000", "2006-01-02-15:04:05", "2006-01-02-15:04", "2006-01-02"}
var c19FmtUnit = []int64{10, 1e9, 60e9, 86400e9}

const c19Threshold = 32503680000 // isNanosec
const c19MaxSec = 9223372036

var c19ElemType = map[string]io.EnumElementType{"float32": io.FLOAT32, "float64": io.FLOAT64, "int32": io.INT32, "int64": io.INT64,
	"int16": io.INT16, "uint8": io.UINT8, "uint16": io.UINT16, "uint32": io.UINT32, "uint64": io.UINT64, "byte": io.BYTE}

func c19IsFloat(t string) bool { return t == "float32" || t == "float64" }

// ---------------------------------------------------------------- generator

var c19Names = []string{"V", "W", "Price", "Qty", "a", "B2"}
var c19MainTypes = []string{"float32", "float64", "int32", "int64"}
var c19OtherTypes = []string{"int16", "uint8", "uint16", "uint32", "uint64", "byte"}
var c19Bases = []string{"2021-03-01T10:00:00Z", "2020-12-31T23:00:00Z", "2019-06-30T00:00:00Z", "2022-01-01T00:00:00Z", "2021-12-31T22:00:00Z"}
// values for float columns and literals: dyadic ones and decimals that are NOT exactly representable in
// binary (their float32 and float64 images differ, so comparing in the wrong precision shows)
var c19NiceFloats = []float64{0, 0.5, 1, 1.5, 2, 2.5, 3, 4, 5.25, 7, 0.1, 0.3, 100.75, 16777217, 1e6,
	10.1, 10.3, 10.7, 2.2, 0.7, 99.99, 1.1, 3.3}

func c19GenVal(r *rng.Rand, typ string, allowNaN bool) int64 {
	if c19IsFloat(typ) {
		var f float64
		switch k := r.Intn(100); {
		case allowNaN && r.Chance(20):
			f = math.NaN()
		case k < 50:
			f = float64(r.Range(-4, 12)) / 2
		case k < 85:
			f = c19NiceFloats[r.Intn(len(c19NiceFloats))]
		case k < 89:
			f = math.Copysign(0, -1)
		case k < 92:
			f = math.Inf(1 - 2*r.Intn(2))
		default:
			f = float64(r.Range(-3, 8))
		}
		if typ == "float32" {
			return int64(math.Float32bits(float32(f)))
		}
		return int64(math.Float64bits(f))
	}
	v := r.Range(-3, 8)
	if r.Chance(6) {
		switch typ {
		case "int32":
			v = []int64{math.MaxInt32, math.MinInt32}[r.Intn(2)]
		case "int64":
			v = []int64{math.MaxInt64, math.MinInt64, 1 << 53, 1<<53 + 1}[r.Intn(4)]
		}
	}
	switch typ {
	case "uint8", "uint16", "uint32", "uint64":
		if v < 0 {
			v = -v
		}
	}
	return v
}

func c19GenTimeLit(r *rng.Rand, in *c19In, tfs int64) c19Lit {
	tfn := tfs * 1e9
	var ns int64
	first, last := int64(1614592800), int64(1614592800)
	if len(in.Rows) > 0 {
		first, last = in.Rows[0].Epoch, in.Rows[len(in.Rows)-1].Epoch
	}
	pick := first
	if len(in.Rows) > 0 {
		pick = in.Rows[r.Intn(len(in.Rows))].Epoch
	}
	switch k := r.Intn(100); {
	case k < 40: // on a bar
		ns = pick * 1e9
	case k < 50: // just off a bar
		ns = pick*1e9 + []int64{-10, 10, -1, 1}[r.Intn(4)]
	case k < 62: // inside the bar's interval
		ns = pick*1e9 + tfn/2
	case k < 72: // a grid point next to a bar (a gap or another bar)
		ns = (pick + tfs*r.Range(-2, 2)) * 1e9
	case k < 82: // before the first bar
		ns = (first - tfs*r.Range(1, 3)) * 1e9
		if r.Chance(30) {
			ns = (first - 366*86400) * 1e9
		}
	case k < 92: // after the last bar
		ns = (last + tfs*r.Range(1, 3)) * 1e9
		if r.Chance(30) {
			ns = (last + 366*86400) * 1e9
		}
	default:
		ns = first*1e9 + r.Range(0, (last-first)*1e9+tfn)
	}
	switch k := r.Intn(100); {
	case k < 50: // datetime string, the coarsest layout that represents it (or the 8-digit one)
		ns -= ((ns % 10) + 10) % 10
		f := 0
		for j := len(c19FmtUnit) - 1; j >= 0; j-- {
			if ns%c19FmtUnit[j] == 0 {
				f = j
				break
			}
		}
		if f > 0 && r.Chance(30) {
			f = r.Intn(f + 1)
		}
		return c19Lit{K: "time", I: ns, Fmt: f}
	case k < 72: // integer nanoseconds
		return c19Lit{K: "int", I: ns}
	case k < 97: // integer seconds
		return c19Lit{K: "int", I: ns / 1e9}
	case k < 99:
		return c19Lit{K: "int", I: r.Range(0, 40)}
	default:
		return c19Lit{K: "flt", F: math.Float64bits(float64(ns/1e9) + 0.5)}
	}
}

func c19GenValLit(r *rng.Rand, in *c19In, ci int) c19Lit {
	typ := in.Cols[ci].Type
	// a stored value of the column to aim at
	var base float64
	if len(in.Rows) > 0 {
		v := in.Rows[r.Intn(len(in.Rows))].Vals[ci]
		switch typ {
		case "float32":
			base = float64(math.Float32frombits(uint32(v)))
		case "float64":
			base = math.Float64frombits(uint64(v))
		case "uint64":
			base = float64(uint64(v))
		default:
			base = float64(v)
		}
	}
	if math.IsNaN(base) || math.IsInf(base, 0) || math.Abs(base) > 1e15 {
		base = float64(r.Range(0, 6))
	}
	var f float64
	switch k := r.Intn(100); {
	case k < 52 && c19IsFloat(typ) && r.Chance(25): // a hair off the stored value (collapses in float32, not in float64)
		f = base * (1 + []float64{1e-9, -1e-9, 3e-8, -3e-8}[r.Intn(4)])
	case k < 52: // on the stored value
		f = base
		if typ == "float32" && r.Chance(75) {
			// as a user writes it: the shortest decimal that identifies the stored float32 (10.3, not
			// 10.300000190734863); its float64 value differs from the widened float32
			if g, err := strconv.ParseFloat(strconv.FormatFloat(base, 'g', -1, 32), 64); err == nil {
				f = g
			}
		}
	case k < 66: // between stored values
		f = base + []float64{0.5, -0.5, 0.25}[r.Intn(3)]
	case k < 78:
		f = base + float64(r.Range(-2, 2))
	case k < 86: // outside
		f = base + float64(r.Range(10, 20))
	case k < 92:
		f = 0
	default:
		f = c19NiceFloats[r.Intn(len(c19NiceFloats))]
	}
	if f < 0 || (f == 0 && math.Signbit(f)) { // negative literals do not parse
		f = 0
	}
	wantInt := !c19IsFloat(typ)
	if r.Chance(12) {
		wantInt = !wantInt
	}
	if wantInt {
		if !c19IsFloat(typ) && typ == "int32" && r.Chance(4) {
			return c19Lit{K: "int", I: 1<<32 + int64(f)} // wraps in int32(...)
		}
		return c19Lit{K: "int", I: int64(math.Floor(f))}
	}
	return c19Lit{K: "flt", F: math.Float64bits(f)}
}

// c19GenPrecision: the precision stream. One float column (float32 or float64) holding decimals that are not
// exactly representable in binary, and one or two predicates on it whose bounds are stored values written as their
// shortest decimal (or, for float64, a hair off a stored value): the outcome depends on comparing in the column's
// own precision.
func c19GenPrecision(r *rng.Rand, tier string) interface{} {
	in := &c19In{TF: []string{"1Min", "5Min", "1H"}[r.Intn(3)]}
	tfs := c19TFs[in.TF]
	typ := []string{"float32", "float32", "float64"}[r.Intn(3)]
	in.Cols = []c19Col{{c19Names[r.Intn(len(c19Names))], typ}}
	if r.Chance(40) {
		in.Cols = append(in.Cols, c19Col{"Z", c19MainTypes[r.Intn(len(c19MainTypes))]})
	}
	decimals := []float64{10.1, 10.3, 10.7, 2.2, 0.7, 99.99, 1.1, 3.3, 0.1, 0.3, 10.5, 7}
	n := 3 + r.Intn(4)
	bt, _ := time.Parse(time.RFC3339, c19Bases[r.Intn(len(c19Bases))])
	e := bt.Unix()
	var stored []float64
	for k := 0; k < n; k++ {
		d := decimals[r.Intn(len(decimals))]
		row := c19Row{Epoch: e}
		if typ == "float32" {
			row.Vals = append(row.Vals, int64(math.Float32bits(float32(d))))
		} else {
			row.Vals = append(row.Vals, int64(math.Float64bits(d)))
		}
		for _, c := range in.Cols[1:] {
			row.Vals = append(row.Vals, c19GenVal(r, c.Type, false))
		}
		stored = append(stored, d)
		in.Rows = append(in.Rows, row)
		e += tfs * r.Range(1, 3)
	}
	lit := func() c19Lit {
		d := stored[r.Intn(len(stored))]
		if typ == "float64" && r.Chance(50) {
			d *= 1 + []float64{1e-9, -1e-9, 3e-8, -3e-8}[r.Intn(4)]
		}
		return c19Lit{K: "flt", F: math.Float64bits(d)}
	}
	name := in.Cols[0].Name
	switch k := r.Intn(100); {
	case k < 70:
		in.Preds = []c19Pred{{Col: name, Op: []string{"<", "<=", ">", ">=", "="}[r.Intn(5)], L: lit()}}
	case k < 85:
		lo, hi := lit(), lit()
		if c19LitLess(hi, lo) {
			lo, hi = hi, lo
		}
		in.Preds = []c19Pred{{Col: name, Op: "between", L: lo, H: &hi}}
	default:
		lo, hi := lit(), lit()
		if c19LitLess(hi, lo) {
			lo, hi = hi, lo
		}
		in.Preds = []c19Pred{{Col: name, Op: []string{">", ">="}[r.Intn(2)], L: lo}, {Col: name, Op: []string{"<", "<="}[r.Intn(2)], L: hi}}
	}
	return in
}

// c19GenTightRange: the tight-range stream. A lower and an upper bound on the same int64-valued column (Epoch as
// nanosecond literals, or an int64 column holding values above 2^53) that differ by 1..200 and bracket a stored
// value, in all inclusive/exclusive combinations: GenericComparison compares int64 bounds as float64, so the two
// bounds usually round to the SAME float64 — IsFalse must still not call the range empty.
func c19GenTightRange(r *rng.Rand, tier string) interface{} {
	in := &c19In{TF: []string{"1Min", "5Min", "1H"}[r.Intn(3)]}
	tfs := c19TFs[in.TF]
	in.Cols = []c19Col{{"Seq", "int64"}}
	if r.Chance(40) {
		in.Cols = append(in.Cols, c19Col{"Z", c19MainTypes[r.Intn(len(c19MainTypes))]})
	}
	n := 3 + r.Intn(4)
	bt, _ := time.Parse(time.RFC3339, c19Bases[r.Intn(len(c19Bases))])
	e := bt.Unix()
	big := []int64{1 << 60, 1<<53 + 1, 1 << 62, 1234567890123456789}[r.Intn(4)]
	for k := 0; k < n; k++ {
		row := c19Row{Epoch: e, Vals: []int64{big + int64(k)*r.Range(1, 300)}}
		for _, c := range in.Cols[1:] {
			row.Vals = append(row.Vals, c19GenVal(r, c.Type, false))
		}
		in.Rows = append(in.Rows, row)
		e += tfs * r.Range(1, 3)
	}
	target := in.Rows[r.Intn(n)]
	col, v := "Seq", target.Vals[0]
	onEpoch := r.Chance(55)
	if onEpoch {
		col, v = "Epoch", target.Epoch*1e9
	}
	d1, d2 := r.Range(0, 100), r.Range(1, 100)
	loOp, hiOp := []string{">", ">="}[r.Intn(2)], []string{"<", "<="}[r.Intn(2)]
	if loOp == ">" && d1 == 0 {
		d1 = 1
	}
	mk := func(x int64) c19Lit {
		if onEpoch && x%10 == 0 && r.Chance(35) {
			return c19Lit{K: "time", I: x, Fmt: 0} // the 8-digit fractional layout
		}
		return c19Lit{K: "int", I: x}
	}
	lo, hi := mk(v-d1), mk(v+d2)
	switch k := r.Intn(100); {
	case k < 25 && d1 > 0:
		in.Preds = []c19Pred{{Col: col, Op: "between", L: lo, H: &hi}}
	case k < 60:
		in.Preds = []c19Pred{{Col: col, Op: loOp, L: lo}, {Col: col, Op: hiOp, L: hi}}
	default:
		in.Preds = []c19Pred{{Col: col, Op: hiOp, L: hi}, {Col: col, Op: loOp, L: lo}}
	}
	return in
}

func c19Gen(r *rng.Rand, i int, tier string) interface{} {
	if r.Chance(12) {
		return c19GenPrecision(r, tier)
	}
	if r.Chance(10) {
		return c19GenTightRange(r, tier)
	}
	tfNames := []string{"1Min", "1Min", "1Min", "5Min", "5Min", "1H", "1H", "1H", "1H", "1Sec"}
	in := &c19In{TF: tfNames[r.Intn(len(tfNames))]}
	tfs := c19TFs[in.TF]
	ncols := 1 + r.Intn(3)
	perm := []int{0, 1, 2, 3, 4, 5}
	for j := range perm {
		k := j + r.Intn(len(perm)-j)
		perm[j], perm[k] = perm[k], perm[j]
	}
	nanCase := r.Chance(10)
	for j := 0; j < ncols; j++ {
		typ := c19MainTypes[r.Intn(len(c19MainTypes))]
		if r.Chance(10) {
			typ = c19OtherTypes[r.Intn(len(c19OtherTypes))]
		}
		in.Cols = append(in.Cols, c19Col{c19Names[perm[j]], typ})
	}
	maxRows := 7
	if tier == "thorough" {
		maxRows = 14
	}
	nrows := 1 + r.Intn(maxRows)
	if r.Chance(70) && nrows < 3 {
		nrows = 3 + r.Intn(4)
	}
	bt, _ := time.Parse(time.RFC3339, c19Bases[r.Intn(len(c19Bases))])
	e := bt.Unix() + tfs*r.Range(0, 5)
	for k := 0; k < nrows; k++ {
		row := c19Row{Epoch: e}
		for _, c := range in.Cols {
			row.Vals = append(row.Vals, c19GenVal(r, c.Type, nanCase))
		}
		in.Rows = append(in.Rows, row)
		step := int64(1)
		if r.Chance(35) {
			step = r.Range(2, 4)
		}
		if r.Chance(4) {
			step = 86400 / tfs * r.Range(1, 40) // days later
		}
		e += step * tfs
	}
	// predicates
	npreds := []int{0, 1, 1, 1, 1, 1, 2, 2, 2, 2, 3, 3}[r.Intn(12)]
	avail := []int{-1} // -1 = Epoch
	for j := range in.Cols {
		avail = append(avail, j)
	}
	ops := []string{"=", "<", "<=", ">", ">=", "between"}
	mk := func(ci int, op string) c19Pred {
		p := c19Pred{Op: op}
		gen := func() c19Lit {
			if ci < 0 {
				return c19GenTimeLit(r, in, tfs)
			}
			return c19GenValLit(r, in, ci)
		}
		if ci < 0 {
			p.Col = "Epoch"
		} else {
			p.Col = in.Cols[ci].Name
		}
		p.L = gen()
		if op == "between" {
			h := gen()
			if r.Chance(85) && c19LitLess(h, p.L) {
				p.L, h = h, p.L
			}
			p.H = &h
		}
		return p
	}
	for len(in.Preds) < npreds {
		ci := avail[r.Intn(len(avail))]
		if r.Chance(40) {
			ci = -1
		} else if r.Chance(35) { // a float column when there is one: precision-sensitive comparisons
			for _, a := range avail {
				if a >= 0 && c19IsFloat(in.Cols[a].Type) {
					ci = a
					break
				}
			}
		}
		if npreds-len(in.Preds) >= 2 && r.Chance(30) { // a lower and an upper bound on the same column
			lo := mk(ci, []string{">", ">="}[r.Intn(2)])
			hi := mk(ci, []string{"<", "<="}[r.Intn(2)])
			if r.Chance(85) && c19LitLess(hi.L, lo.L) {
				lo.L, hi.L = hi.L, lo.L
			}
			if r.Bool() {
				lo, hi = hi, lo
			}
			in.Preds = append(in.Preds, lo, hi)
			continue
		}
		op := ops[r.Intn(len(ops))]
		if r.Chance(2) {
			op = "<>"
		}
		in.Preds = append(in.Preds, mk(ci, op))
		// mostly distinct columns
		if r.Chance(80) && len(avail) > 1 {
			for j, a := range avail {
				if a == ci {
					avail = append(append([]int{}, avail[:j]...), avail[j+1:]...)
					break
				}
			}
		}
	}
	return in
}

func c19LitVal(l c19Lit) *big.Float {
	if l.K == "flt" {
		return new(big.Float).SetFloat64(math.Float64frombits(l.F))
	}
	return new(big.Float).SetInt64(l.I)
}
func c19LitLess(a, b c19Lit) bool { return c19LitVal(a).Cmp(c19LitVal(b)) < 0 }

// ---------------------------------------------------------------- SQL printing

func c19LitSQL(l c19Lit) (string, error) {
	switch l.K {
	case "int":
		if l.I < 0 {
			return "", fmt.Errorf("negative literal")
		}
		return strconv.FormatInt(l.I, 10), nil
	case "flt":
		f := math.Float64frombits(l.F)
		if math.IsNaN(f) || math.IsInf(f, 0) || f < 0 || math.Signbit(f) {
			return "", fmt.Errorf("unprintable float literal")
		}
		s := strconv.FormatFloat(f, 'f', -1, 64)
		if !strings.Contains(s, ".") {
			s += ".0"
		}
		if g, err := strconv.ParseFloat(s, 64); err != nil || g != f {
			return "", fmt.Errorf("float literal does not round-trip")
		}
		return s, nil
	case "time":
		if l.Fmt < 0 || l.Fmt >= len(c19TimeFormats) || l.I%c19FmtUnit[l.Fmt] != 0 || l.I < 0 {
			return "", fmt.Errorf("time literal not representable in its layout")
		}
		s := time.Unix(0, l.I).UTC().Format(c19TimeFormats[l.Fmt])
		t, err := time.Parse(c19TimeFormats[l.Fmt], s)
		if err != nil || t.UnixNano() != l.I {
			return "", fmt.Errorf("time literal does not round-trip")
		}
		return "'" + s + "'", nil
	}
	return "", fmt.Errorf("unknown literal kind %q", l.K)
}

func c19WhereSQL(preds []c19Pred) (string, error) {
	var parts []string
	for _, p := range preds {
		l, err := c19LitSQL(p.L)
		if err != nil {
			return "", err
		}
		switch p.Op {
		case "=", "<", "<=", ">", ">=", "<>":
			parts = append(parts, fmt.Sprintf("%s %s %s", p.Col, p.Op, l))
		case "between":
			if p.H == nil {
				return "", fmt.Errorf("between without upper literal")
			}
			h, err := c19LitSQL(*p.H)
			if err != nil {
				return "", err
			}
			parts = append(parts, fmt.Sprintf("%s BETWEEN %s AND %s", p.Col, l, h))
		default:
			return "", fmt.Errorf("unknown operator %q", p.Op)
		}
	}
	if len(parts) == 0 {
		return "", nil
	}
	return " WHERE " + strings.Join(parts, " AND "), nil
}

// ---------------------------------------------------------------- store

func c19BuildCS(cols []c19Col, rows []c19Row) (*io.ColumnSeries, error) {
	cs := io.NewColumnSeries()
	ep := make([]int64, len(rows))
	for i, r := range rows {
		ep[i] = r.Epoch
		if len(r.Vals) != len(cols) {
			return nil, fmt.Errorf("row %d has %d values for %d columns", i, len(r.Vals), len(cols))
		}
		if i > 0 && rows[i-1].Epoch >= r.Epoch {
			return nil, fmt.Errorf("rows not in strictly increasing time order")
		}
	}
	cs.AddColumn("Epoch", ep)
	for j, c := range cols {
		switch c.Type {
		case "float32":
			col := make([]float32, len(rows))
			for i, r := range rows {
				col[i] = math.Float32frombits(uint32(r.Vals[j]))
			}
			cs.AddColumn(c.Name, col)
		case "float64":
			col := make([]float64, len(rows))
			for i, r := range rows {
				col[i] = math.Float64frombits(uint64(r.Vals[j]))
			}
			cs.AddColumn(c.Name, col)
		case "int32":
			col := make([]int32, len(rows))
			for i, r := range rows {
				col[i] = int32(r.Vals[j])
			}
			cs.AddColumn(c.Name, col)
		case "int64":
			col := make([]int64, len(rows))
			for i, r := range rows {
				col[i] = r.Vals[j]
			}
			cs.AddColumn(c.Name, col)
		case "int16":
			col := make([]int16, len(rows))
			for i, r := range rows {
				col[i] = int16(r.Vals[j])
			}
			cs.AddColumn(c.Name, col)
		case "byte":
			col := make([]int8, len(rows))
			for i, r := range rows {
				col[i] = int8(r.Vals[j])
			}
			cs.AddColumn(c.Name, col)
		case "uint8":
			col := make([]uint8, len(rows))
			for i, r := range rows {
				col[i] = uint8(r.Vals[j])
			}
			cs.AddColumn(c.Name, col)
		case "uint16":
			col := make([]uint16, len(rows))
			for i, r := range rows {
				col[i] = uint16(r.Vals[j])
			}
			cs.AddColumn(c.Name, col)
		case "uint32":
			col := make([]uint32, len(rows))
			for i, r := range rows {
				col[i] = uint32(r.Vals[j])
			}
			cs.AddColumn(c.Name, col)
		case "uint64":
			col := make([]uint64, len(rows))
			for i, r := range rows {
				col[i] = uint64(r.Vals[j])
			}
			cs.AddColumn(c.Name, col)
		default:
			return nil, fmt.Errorf("unsupported column type %q", c.Type)
		}
	}
	return cs, nil
}

// canonical stored value (what the typed column holds) as (integer value | float bits)
func c19Canon(typ string, v int64) int64 {
	switch typ {
	case "float32":
		return int64(uint32(v))
	case "int32":
		return int64(int32(v))
	case "int16":
		return int64(int16(v))
	case "byte":
		return int64(int8(v))
	case "uint8":
		return int64(uint8(v))
	case "uint16":
		return int64(uint16(v))
	case "uint32":
		return int64(uint32(v))
	}
	return v
}

// the value of row i of a returned column, in the canonical form above
func c19ColAt(col interface{}, i int) (int64, bool) {
	switch c := col.(type) {
	case []float32:
		return int64(math.Float32bits(c[i])), true
	case []float64:
		return int64(math.Float64bits(c[i])), true
	case []int32:
		return int64(c[i]), true
	case []int64:
		return c[i], true
	case []int16:
		return int64(c[i]), true
	case []int8:
		return int64(c[i]), true
	case []uint8:
		return int64(c[i]), true
	case []uint16:
		return int64(c[i]), true
	case []uint32:
		return int64(c[i]), true
	case []uint64:
		return int64(c[i]), true
	}
	return 0, false
}

// ---------------------------------------------------------------- reference semantics (the property text)

// compare: -1, 0, +1, or 2 when unordered (NaN)
func c19CmpEpoch(e int64, l c19Lit) (int, bool) {
	if l.K == "flt" {
		return 0, false
	}
	ns := big.NewInt(l.I)
	if l.K == "int" && l.I <= c19Threshold {
		ns.Mul(ns, big.NewInt(1e9))
	}
	ev := new(big.Int).Mul(big.NewInt(e), big.NewInt(1e9))
	return ev.Cmp(ns), true
}

func c19LitF64(l c19Lit) float64 {
	if l.K == "flt" {
		return math.Float64frombits(l.F)
	}
	return float64(l.I)
}

func c19CmpCell(typ string, v int64, l c19Lit) int {
	fc := func(a, b float64) int {
		switch {
		case a < b:
			return -1
		case a > b:
			return 1
		case a == b:
			return 0
		}
		return 2
	}
	switch typ {
	case "float32": // in the column's precision: against float32(literal)
		a, b := math.Float32frombits(uint32(v)), float32(c19LitF64(l))
		switch {
		case a < b:
			return -1
		case a > b:
			return 1
		case a == b:
			return 0
		}
		return 2
	case "float64":
		return fc(math.Float64frombits(uint64(v)), c19LitF64(l))
	}
	var a *big.Float
	if typ == "uint64" {
		a = new(big.Float).SetPrec(128).SetUint64(uint64(v))
	} else {
		a = new(big.Float).SetPrec(128).SetInt64(v)
	}
	var b *big.Float
	if l.K == "flt" {
		f := math.Float64frombits(l.F)
		if math.IsNaN(f) {
			return 2
		}
		b = new(big.Float).SetPrec(1100).SetFloat64(f)
	} else {
		b = new(big.Float).SetPrec(128).SetInt64(l.I)
	}
	return a.Cmp(b)
}

func c19SemOp(op string, c int) bool {
	if c == 2 {
		return false
	}
	switch op {
	case "=":
		return c == 0
	case "<":
		return c < 0
	case "<=":
		return c <= 0
	case ">":
		return c > 0
	case ">=":
		return c >= 0
	case "<>":
		return c != 0
	}
	return false
}

func c19RowMatches(in *c19In, r c19Row, colIdx map[string]int) bool {
	for _, p := range in.Preds {
		cmp := func(l c19Lit) int {
			if p.Col == "Epoch" {
				c, ok := c19CmpEpoch(r.Epoch, l)
				if !ok {
					return 2
				}
				return c
			}
			j := colIdx[p.Col]
			return c19CmpCell(in.Cols[j].Type, c19Canon(in.Cols[j].Type, r.Vals[j]), l)
		}
		ok := false
		if p.Op == "between" {
			ok = p.H != nil && c19SemOp(">", cmp(p.L)) && c19SemOp("<", cmp(*p.H))
		} else {
			ok = c19SemOp(p.Op, cmp(p.L))
		}
		if !ok {
			return false
		}
	}
	return true
}

// ---------------------------------------------------------------- guards / finding classes (mirror of Model/Sql.v)

type c19Bound struct {
	l    c19Lit
	incl bool
}

func c19Lows(col string, ps []c19Pred) (out []c19Bound) {
	for _, p := range ps {
		if p.Col != col {
			continue
		}
		switch p.Op {
		case ">":
			out = append(out, c19Bound{p.L, false})
		case ">=":
			out = append(out, c19Bound{p.L, true})
		case "between":
			out = append(out, c19Bound{p.L, false})
		}
	}
	return
}
func c19Ups(col string, ps []c19Pred) (out []c19Bound) {
	for _, p := range ps {
		if p.Col != col {
			continue
		}
		switch p.Op {
		case "<":
			out = append(out, c19Bound{p.L, false})
		case "<=":
			out = append(out, c19Bound{p.L, true})
		case "between":
			if p.H != nil {
				out = append(out, c19Bound{*p.H, false})
			}
		}
	}
	return
}
func c19Eqs(col string, ps []c19Pred) (out []c19Lit) {
	for _, p := range ps {
		if p.Col == col && p.Op == "=" {
			out = append(out, p.L)
		}
	}
	return
}
func c19Lits(p c19Pred) []c19Lit {
	if p.Op == "between" && p.H != nil {
		return []c19Lit{p.L, *p.H}
	}
	return []c19Lit{p.L}
}

// the raw int64 the visitor holds for an Epoch literal (GetValueAsInt64)
func c19RawI64(l c19Lit) int64 {
	if l.K == "flt" {
		return int64(math.Float64frombits(l.F))
	}
	return l.I
}

type c19Classes struct {
	wfStore, wfQuery                                                            bool
	epochSeconds, inclUpperOnBar, repeated, unfiltered, badIntLit, nanValue bool
	f32Ordered                                                                  bool
}

func c19Classify(in *c19In) c19Classes {
	var k c19Classes
	tfs := c19TFs[in.TF]
	colIdx := map[string]int{}
	k.wfStore = tfs > 0
	for j, c := range in.Cols {
		if _, dup := colIdx[c.Name]; dup || c.Name == "Epoch" || c.Name == "Nanoseconds" {
			k.wfStore = false
		}
		if _, ok := c19ElemType[c.Type]; !ok {
			k.wfStore = false
		}
		colIdx[c.Name] = j
	}
	for i, r := range in.Rows {
		if r.Epoch < 33 || r.Epoch > c19MaxSec || (tfs > 0 && r.Epoch%tfs != 0) || len(r.Vals) != len(in.Cols) {
			k.wfStore = false
		}
		if i > 0 && in.Rows[i-1].Epoch >= r.Epoch {
			k.wfStore = false
		}
		for j, c := range in.Cols {
			if j < len(r.Vals) && !c19IsFloat(c.Type) && c.Type != "uint64" && c19Canon(c.Type, r.Vals[j]) != r.Vals[j] {
				k.wfStore = false // value outside the column type's range
			}
		}
	}
	k.wfQuery = true
	for _, p := range in.Preds {
		if p.Op == "<>" || (p.Op == "between" && p.H == nil) {
			k.wfQuery = false
		}
		j, isCol := colIdx[p.Col]
		for _, l := range c19Lits(p) {
			if p.Col == "Epoch" {
				ok := l.K != "flt" && l.I >= 0
				if ok && l.I <= c19Threshold && l.I > c19MaxSec {
					ok = false
				}
				if ok && l.I > c19Threshold && l.I >= math.MaxInt64 {
					ok = false
				}
				if !ok {
					k.wfQuery = false
				}
			} else if !isCol {
				k.wfQuery = false
			} else if l.K == "flt" {
				f := math.Float64frombits(l.F)
				if math.IsNaN(f) || math.IsInf(f, 0) {
					k.wfQuery = false
				}
			} else if l.I < 0 {
				k.wfQuery = false
			}
		}
		if p.Col != "Epoch" && isCol {
			typ := in.Cols[j].Type
			if !(c19IsFloat(typ) || typ == "int32" || typ == "int64") {
				k.unfiltered = true
			}
			if typ == "int32" || typ == "int64" {
				for _, l := range c19Lits(p) {
					if l.K == "flt" || (typ == "int32" && (l.I > math.MaxInt32 || l.I < math.MinInt32)) {
						k.badIntLit = true
					}
				}
			}
			if c19IsFloat(typ) {
				for _, r := range in.Rows {
					if j < len(r.Vals) {
						var f float64
						if typ == "float32" {
							f = float64(math.Float32frombits(uint32(r.Vals[j])))
						} else {
							f = math.Float64frombits(uint64(r.Vals[j]))
						}
						if math.IsNaN(f) {
							k.nanValue = true
						}
					}
				}
			}
		}
		if len(c19Lows(p.Col, in.Preds)) > 1 || len(c19Ups(p.Col, in.Preds)) > 1 || len(c19Eqs(p.Col, in.Preds)) > 1 {
			k.repeated = true
		}
	}
	for _, b := range c19Ups("Epoch", in.Preds) {
		raw := c19RawI64(b.l)
		if raw <= c19Threshold {
			k.epochSeconds = true
		}
		if b.incl {
			for _, r := range in.Rows {
				if r.Epoch <= c19MaxSec && r.Epoch >= -c19MaxSec && r.Epoch*1e9 == raw {
					k.inclUpperOnBar = true
				}
			}
		}
	}
	for _, b := range c19Lows("Epoch", in.Preds) {
		if raw := c19RawI64(b.l); raw <= c19Threshold && raw < 33 {
			k.epochSeconds = true
		}
	}
	for _, l := range c19Eqs("Epoch", in.Preds) {
		if raw := c19RawI64(l); raw <= c19Threshold && raw < 33 {
			k.epochSeconds = true
		}
	}
	k.f32Ordered = true
	for _, p := range in.Preds {
		if j, ok := colIdx[p.Col]; ok && in.Cols[j].Type == "float32" {
			for _, a := range c19Lows(p.Col, in.Preds) {
				for _, b := range c19Ups(p.Col, in.Preds) {
					fa, fb := c19LitF64(a.l), c19LitF64(b.l)
					if fa > fb && !(float32(fa) > float32(fb)) {
						k.f32Ordered = false
					}
				}
			}
		}
	}
	return k
}

func (k c19Classes) inDomain() bool {
	return k.wfStore && k.wfQuery && !k.epochSeconds && !k.inclUpperOnBar && !k.repeated && !k.unfiltered &&
		!k.badIntLit && !k.nanValue && k.f32Ordered
}

func (k c19Classes) class() string {
	switch {
	case k.epochSeconds:
		return "epoch-seconds-literal"
	case k.inclUpperOnBar:
		return "epoch-inclusive-upper-on-bar"
	case k.repeated:
		return "repeated-bound"
	case k.unfiltered:
		return "unfiltered-column-type"
	case k.badIntLit:
		return "non-int-literal-on-int-column"
	case k.nanValue:
		return "nan-value"
	}
	return ""
}

// ---------------------------------------------------------------- Gallina printing

func c19CoqLit(l c19Lit) string {
	if l.K == "flt" {
		return "(KLFlt " + cq.ZU(l.F) + ")"
	}
	return "(KLInt " + cq.Z(l.I) + ")"
}

var c19OpCode = map[string]io.ComparisonOperatorEnum{"=": io.EQ, "<>": io.NEQ, "<": io.LT, "<=": io.LTE, ">": io.GT, ">=": io.GTE}

func c19CoqPred(p c19Pred) string {
	if p.Op == "between" {
		return fmt.Sprintf("(KBetween %s %s %s)", cq.Str(p.Col), c19CoqLit(p.L), c19CoqLit(*p.H))
	}
	return fmt.Sprintf("(KCmp %s %s %s)", cq.Str(p.Col), cq.Z(int64(c19OpCode[p.Op])), c19CoqLit(p.L))
}

func c19CoqCell(typ string, v int64) string {
	switch typ {
	case "float32":
		return "(KF32 " + cq.ZU(uint64(uint32(v))) + ")"
	case "float64":
		return "(KF64 " + cq.ZU(uint64(v)) + ")"
	case "uint64":
		return "(KI " + cq.ZU(uint64(v)) + ")"
	}
	return "(KI " + cq.Z(v) + ")"
}

func c19CoqOptLit(v interface{}) string {
	switch x := v.(type) {
	case nil:
		return "None"
	case int64:
		return "(Some (KLInt " + cq.Z(x) + "))"
	case float64:
		return "(Some (KLFlt " + cq.ZU(math.Float64bits(x)) + "))"
	}
	return "(Some (KLInt 0%Z))"
}

func c19CoqGroup(preds []sqlparser.VerifStaticPredicate) string {
	sort.Slice(preds, func(a, b int) bool { return preds[a].Column < preds[b].Column })
	var l []string
	for _, p := range preds {
		l = append(l, cq.Rec(cq.F("o_col", cq.Str(p.Column)), cq.F("o_min", c19CoqOptLit(p.Min)), cq.F("o_max", c19CoqOptLit(p.Max)),
			cq.F("o_eq", c19CoqOptLit(p.Equal)), cq.F("o_flags", cq.Z(int64(p.Contents)))))
	}
	return cq.List(l)
}

func c19CoqStore(in *c19In) (schema, rows string) {
	var sc, rs []string
	for _, c := range in.Cols {
		sc = append(sc, cq.Tuple(cq.Str(c.Name), cq.Z(int64(c19ElemType[c.Type]))))
	}
	for _, r := range in.Rows {
		var cells []string
		for j, c := range in.Cols {
			cells = append(cells, c19CoqCell(c.Type, c19Canon(c.Type, r.Vals[j])))
		}
		rs = append(rs, cq.Tuple(cq.Z(r.Epoch), cq.List(cells)))
	}
	return cq.List(sc), cq.List(rs)
}

// ---------------------------------------------------------------- runner

type c19Obs struct {
	SQL    string        `json:"sql"`
	Code   int           `json:"code"`
	Err    string        `json:"err,omitempty"`
	Out    []int64       `json:"out"`    // epochs returned
	Want   []int64       `json:"want"`   // epochs the property demands
	Group  []interface{} `json:"group"`  // observed static predicates
	Intact bool          `json:"intact"` // every returned row is bit-identical to the stored row of that epoch
}

func c19Run(raw json.RawMessage) (res Result, err error) {
	var in c19In
	if err = json.Unmarshal(raw, &in); err != nil {
		return
	}
	tfs, ok := c19TFs[in.TF]
	if !ok {
		return res, fmt.Errorf("unsupported timeframe %q", in.TF)
	}
	for _, p := range in.Preds {
		if p.Op == "between" && p.H == nil {
			return res, fmt.Errorf("between without upper literal")
		}
	}
	where, err := c19WhereSQL(in.Preds)
	if err != nil {
		return res, err
	}
	cs, err := c19BuildCS(in.Cols, in.Rows)
	if err != nil {
		return res, err
	}
	inst, err := sqlinst.Get()
	if err != nil {
		return res, err
	}
	sym := inst.NewSymbol("C")
	key := sym + "/" + in.TF + "/T"
	defer inst.RemoveBucket(sym)
	if len(in.Rows) > 0 {
		if err = inst.Write(key, cs); err != nil {
			return res, fmt.Errorf("write: %w", err)
		}
	} else {
		// an empty history still needs the bucket: write one row and one far away is not possible without
		// changing the history, so the empty history is represented by a bucket holding a single row that
		// every query sees — not supported; use at least one row
		return res, fmt.Errorf("empty history not supported")
	}
	obs := c19Obs{SQL: "SELECT * FROM `" + key + "`" + where + ";"}
	r := inst.RunSQL(obs.SQL)
	obs.Code, obs.Err = r.Code, r.Err
	for _, p := range r.Preds {
		obs.Group = append(obs.Group, map[string]interface{}{"col": p.Column, "min": p.Min, "max": p.Max, "eq": p.Equal, "flags": p.Contents})
	}
	colIdx := map[string]int{}
	for j, c := range in.Cols {
		colIdx[c.Name] = j
	}
	byEpoch := map[int64]c19Row{}
	for _, row := range in.Rows {
		byEpoch[row.Epoch] = row
	}
	obs.Intact = true
	obs.Out = []int64{}
	if r.Code == 0 && r.CS != nil && r.CS.Len() > 0 {
		ep := r.CS.GetEpoch()
		obs.Out = append(obs.Out, ep...)
		for i, e := range ep {
			st, found := byEpoch[e]
			if !found {
				obs.Intact = false
				continue
			}
			for j, c := range in.Cols {
				col := r.CS.GetColumn(c.Name)
				v, ok := c19ColAt(col, i)
				if col == nil || !ok || c19Canon(c.Type, v) != c19Canon(c.Type, st.Vals[j]) {
					obs.Intact = false
				}
			}
		}
	}
	obs.Want = []int64{}
	for _, row := range in.Rows {
		if c19RowMatches(&in, row, colIdx) {
			obs.Want = append(obs.Want, row.Epoch)
		}
	}
	res.Obs = obs

	schema, rows := c19CoqStore(&in)
	var cp []string
	for _, p := range in.Preds {
		cp = append(cp, c19CoqPred(p))
	}
	var outs []string
	for _, e := range obs.Out {
		outs = append(outs, cq.Z(e))
	}
	res.Coq = cq.Rec(cq.F("k_tfs", cq.Z(tfs)), cq.F("k_schema", schema), cq.F("k_rows", rows), cq.F("k_preds", cq.List(cp)),
		cq.F("k_group", c19CoqGroup(r.Preds)), cq.F("k_code", cq.Nat(obs.Code)), cq.F("k_out", cq.List(outs)))

	k := c19Classify(&in)
	res.InDomain = k.inDomain()
	res.Holds = true
	if k.wfStore && k.wfQuery { // the property's own domain
		switch {
		case obs.Code != 0:
			res.Holds, res.Detail = false, fmt.Sprintf("statement failed (code %d): %s", obs.Code, obs.Err)
		case !obs.Intact:
			res.Holds, res.Detail = false, "a returned row is not a stored row"
		case fmt.Sprint(obs.Out) != fmt.Sprint(obs.Want):
			res.Holds, res.Detail = false, fmt.Sprintf("returned rows %v, matching rows %v", c19Rel(obs.Out, in.Rows), c19Rel(obs.Want, in.Rows))
		}
		if !res.Holds {
			res.Class = k.class()
		}
	}
	res.Tags = []string{"tf:" + in.TF, fmt.Sprintf("preds=%d", len(in.Preds)), fmt.Sprintf("rows=%d", bucket(len(in.Rows))), fmt.Sprintf("code=%d", obs.Code)}
	if res.InDomain {
		res.Tags = append(res.Tags, "in-domain")
	} else {
		res.Tags = append(res.Tags, "outside-domain")
		if c := k.class(); c != "" {
			res.Tags = append(res.Tags, "class:"+c)
		}
	}
	for _, p := range in.Preds {
		t := "value"
		if p.Col == "Epoch" {
			t = "epoch-" + p.L.K
		}
		res.Tags = append(res.Tags, "pred:"+t+":"+p.Op)
	}
	if len(obs.Want) > 0 && len(obs.Want) < len(in.Rows) {
		res.Tags = append(res.Tags, "selective")
	}
	res.Nontrivial = res.InDomain && len(in.Preds) >= 1 && len(in.Rows) >= 2
	res.Key = string(raw)
	return res, nil
}

// row positions instead of epochs, for readable failure details
func c19Rel(eps []int64, rows []c19Row) []int {
	pos := map[int64]int{}
	for i, r := range rows {
		pos[r.Epoch] = i
	}
	out := []int{}
	for _, e := range eps {
		if p, ok := pos[e]; ok {
			out = append(out, p)
		} else {
			out = append(out, -1)
		}
	}
	return out
}

func init() {
	Register(&Spec{
		ID:          "C19",
		CoqRequire:  "Require Import MS.Corr.C19.",
		CoqCaseType: "C19.case",
		Rule: "a bucket of 1-3 value columns (float32/float64/int32/int64, 10% other integer types) and 1-7 rows (1-14 thorough) on the grid of " +
			"1Sec/1Min/5Min/1H, sometimes across a year boundary or with NaN/Inf/-0 cells, written into a real temporary instance; 0-3 WHERE " +
			"conjuncts (= < <= > >= BETWEEN, 2% <>) over Epoch (datetime string / epoch ns / epoch s) and value columns with literals on, " +
			"between and outside stored values; distinct = distinct input JSON; non-trivial = inside the theorem's guard with >=1 predicate and >=2 rows",
		Gen: c19Gen,
		Run: c19Run,
	})
}
