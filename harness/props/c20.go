package props

import (
	"encoding/json"
	"fmt"
	"math"
	"strings"
	"time"

	"github.com/alpacahq/marketstore/v4/utils/io"

	"verifharness/internal/cq"
	"verifharness/internal/rng"
	"verifharness/internal/sqlinst"
)

// C20 — SQL projection, alias, LIMIT and INSERT INTO behave relationally.
// Implementation under test: the real SQL pipeline (BuildQueryTree -> NewExecutableStatement -> Materialize)
// for `SELECT <list> FROM src [WHERE ...] [LIMIT n]` and `INSERT INTO tgt [(cols)] SELECT ...`, on buckets
// written into a real temporary instance; the target is read back with SELECT * afterwards.
// Types and helpers of the WHERE part are shared with c19.go.

type c20Sel struct {
	P string `json:"p"`           // PrimaryName
	A string `json:"a,omitempty"` // alias ("" = none)
}
type c20Ins struct {
	TF   string   `json:"tf"`
	Cols []c19Col `json:"cols"`
	Rows []c19Row `json:"rows"`           // target contents before (at least one row: the bucket must exist)
	List []string `json:"list,omitempty"` // INSERT column list (nil = none)
}
type c20In struct {
	TF    string    `json:"tf"`
	Cols  []c19Col  `json:"cols"`
	Rows  []c19Row  `json:"rows"`
	Preds []c19Pred `json:"preds"`
	Star  bool      `json:"star"`
	Sel   []c20Sel  `json:"sel,omitempty"`
	Limit int       `json:"limit"` // -1 = no LIMIT clause
	Ins   *c20Ins   `json:"ins,omitempty"`
}

// ---------------------------------------------------------------- generator

var c20Aliases = []string{"x", "y", "px", "Q2", "vol", "Z9"}

func c20Gen(r *rng.Rand, i int, tier string) interface{} {
	tfNames := []string{"1Min", "1Min", "5Min", "1H", "1H"}
	in := &c20In{TF: tfNames[r.Intn(len(tfNames))], Limit: -1}
	tfs := c19TFs[in.TF]
	ncols := 1 + r.Intn(3)
	perm := []int{0, 1, 2, 3, 4, 5}
	for j := range perm {
		k := j + r.Intn(len(perm)-j)
		perm[j], perm[k] = perm[k], perm[j]
	}
	for j := 0; j < ncols; j++ {
		typ := c19MainTypes[r.Intn(len(c19MainTypes))]
		if r.Chance(6) {
			typ = c19OtherTypes[r.Intn(len(c19OtherTypes))]
			if typ == "byte" { // BYTE columns are read back as []uint8: not comparable cell by cell
				typ = "int16"
			}
		}
		in.Cols = append(in.Cols, c19Col{c19Names[perm[j]], typ})
	}
	maxRows := 7
	if tier == "thorough" {
		maxRows = 14
	}
	nrows := 2 + r.Intn(maxRows-1)
	bt, _ := time.Parse(time.RFC3339, c19Bases[r.Intn(len(c19Bases))])
	e := bt.Unix() + tfs*r.Range(0, 5)
	for k := 0; k < nrows; k++ {
		row := c19Row{Epoch: e}
		for _, c := range in.Cols {
			row.Vals = append(row.Vals, c19GenVal(r, c.Type, false))
		}
		in.Rows = append(in.Rows, row)
		step := int64(1)
		if r.Chance(30) {
			step = r.Range(2, 4)
		}
		e += step * tfs
	}
	// WHERE: mostly none or one simple predicate inside C19's guard
	c19in := &c19In{TF: in.TF, Cols: in.Cols, Rows: in.Rows}
	if r.Chance(45) {
		np := 1 + r.Intn(2)
		used := map[string]bool{}
		for k := 0; k < np; k++ {
			ci := r.Intn(len(in.Cols)+1) - 1
			name := "Epoch"
			if ci >= 0 {
				name = in.Cols[ci].Name
			}
			if used[name] {
				continue
			}
			used[name] = true
			p := c19Pred{Col: name, Op: []string{"<", "<=", ">", ">=", "=", "between"}[r.Intn(6)]}
			if ci < 0 {
				p.L = c19GenTimeLit(r, c19in, tfs)
				if p.Op == "between" {
					h := c19GenTimeLit(r, c19in, tfs)
					if c19LitLess(h, p.L) {
						p.L, h = h, p.L
					}
					p.H = &h
				}
			} else {
				p.L = c19GenValLit(r, c19in, ci)
				if p.Op == "between" {
					h := c19GenValLit(r, c19in, ci)
					if c19LitLess(h, p.L) {
						p.L, h = h, p.L
					}
					p.H = &h
				}
			}
			in.Preds = append(in.Preds, p)
		}
	}
	// select list
	in.Star = r.Chance(35)
	if !in.Star {
		n := 1 + r.Intn(4)
		names := []string{"Epoch"}
		for _, c := range in.Cols {
			names = append(names, c.Name)
		}
		avail := append([]string{}, names...)
		usedAlias := map[string]bool{}
		for k := 0; k < n; k++ {
			var p string
			if len(avail) > 0 && !r.Chance(6) {
				j := r.Intn(len(avail))
				if k == 0 && r.Chance(60) {
					j = 0 // Epoch first, as INSERT needs it
				}
				if j >= len(avail) {
					j = 0
				}
				p = avail[j]
				avail = append(avail[:j], avail[j+1:]...)
			} else {
				p = names[r.Intn(len(names))] // possibly a duplicate
			}
			it := c20Sel{P: p}
			if r.Chance(35) && p != "Epoch" {
				switch q := r.Intn(100); {
				case q < 86:
					a := c20Aliases[r.Intn(len(c20Aliases))]
					if usedAlias[a] && !r.Chance(10) {
						a = a + fmt.Sprint(k)
					}
					it.A = a
				case q < 91:
					it.A = names[r.Intn(len(names))] // collides with a column name
				case q < 95:
					it.A = strings.ToLower(p) // EqualFolds its own name
				case q < 98:
					it.A = p
				default:
					it.A = "epoch"
				}
				usedAlias[it.A] = true
			}
			in.Sel = append(in.Sel, it)
		}
		if r.Chance(1) {
			in.Sel = append(in.Sel, c20Sel{P: "Nope"}) // unknown column
		}
	}
	// LIMIT
	if r.Chance(55) {
		switch q := r.Intn(100); {
		case q < 8:
			in.Limit = 0
		case q < 90:
			in.Limit = 1 + r.Intn(nrows+2)
		default:
			in.Limit = 1000
		}
	}
	// the Epoch-bound x LIMIT stream: a single Epoch bound (mid-interval or on the grid, so that the scan reads a
	// slot the filter then drops) with a LIMIT smaller than the number of matching rows: LIMIT must cut the
	// FILTERED rows, not the scanned ones
	if r.Chance(16) {
		op := []string{">=", ">=", ">=", ">", "<=", "<", "between"}[r.Intn(7)]
		i := r.Intn(nrows)
		if (op == ">=" || op == ">" || op == "between") && nrows > 2 {
			i = r.Intn(nrows - 2) // leave several rows above a lower bound
		}
		off := []int64{0, tfs * 1e9 / 2, 1e9, tfs*1e9 - 1e9}[r.Intn(4)]
		if op == "<=" && off == 0 {
			off = tfs * 1e9 / 2 // Epoch <= (a bar's time) is C19's finding epoch-inclusive-upper-on-bar
		}
		mkLit := func(ns int64) c19Lit {
			if r.Bool() {
				return c19Lit{K: "int", I: ns}
			}
			f := 0
			for j := len(c19FmtUnit) - 1; j >= 0; j-- {
				if ns%c19FmtUnit[j] == 0 {
					f = j
					break
				}
			}
			return c19Lit{K: "time", I: ns, Fmt: f}
		}
		p := c19Pred{Col: "Epoch", Op: op, L: mkLit(in.Rows[i].Epoch*1e9 + off)}
		if op == "between" {
			h := mkLit(in.Rows[nrows-1].Epoch*1e9 + tfs*1e9/2)
			p.H = &h
		}
		in.Preds = []c19Pred{p}
		c19q := &c19In{TF: in.TF, Cols: in.Cols, Rows: in.Rows, Preds: in.Preds}
		matches := 0
		for _, row := range in.Rows {
			if c19RowMatches(c19q, row, map[string]int{}) {
				matches++
			}
		}
		in.Limit = 1
		if matches > 2 {
			in.Limit = 1 + r.Intn(matches-1)
		}
	}
	// INSERT INTO
	if r.Chance(40) {
		ins := &c20Ins{}
		ttfs := tfs
		ins.TF = in.TF
		if r.Chance(40) {
			switch in.TF {
			case "1Min":
				ins.TF = "5Min"
			case "5Min":
				ins.TF = "1H"
			case "1H":
				ins.TF = "1H"
			}
			ttfs = c19TFs[ins.TF]
		}
		// target columns: a subset of the result's non-Epoch columns, named by their output names
		type oc struct{ name, typ string }
		var outs []oc
		typeOf := map[string]string{}
		for _, c := range in.Cols {
			typeOf[c.Name] = c.Type
		}
		if in.Star {
			for _, c := range in.Cols {
				outs = append(outs, oc{c.Name, c.Type})
			}
		} else {
			seen := map[string]bool{}
			for _, it := range in.Sel {
				n := it.P
				if it.A != "" {
					n = it.A
				}
				if t, ok := typeOf[it.P]; ok && !seen[n] && n != "Epoch" {
					outs = append(outs, oc{n, t})
					seen[n] = true
				}
			}
		}
		for j := range outs {
			k := j + r.Intn(len(outs)-j)
			outs[j], outs[k] = outs[k], outs[j]
		}
		nt := len(outs)
		if nt > 1 && r.Chance(40) {
			nt = 1 + r.Intn(nt)
		}
		for _, o := range outs[:nt] {
			ins.Cols = append(ins.Cols, c19Col{o.name, o.typ})
		}
		if len(ins.Cols) > 0 {
			// existing target rows on the target grid around the source's times
			base := in.Rows[0].Epoch - in.Rows[0].Epoch%ttfs
			ne := 1 + r.Intn(3)
			te := base + ttfs*r.Range(-2, 1)
			for k := 0; k < ne; k++ {
				row := c19Row{Epoch: te}
				for _, c := range ins.Cols {
					row.Vals = append(row.Vals, c19GenVal(r, c.Type, false))
				}
				ins.Rows = append(ins.Rows, row)
				te += ttfs * r.Range(1, 3)
			}
			switch q := r.Intn(100); {
			case q < 10: // the full list in bucket order
				ins.List = []string{"Epoch"}
				for _, c := range ins.Cols {
					ins.List = append(ins.List, c.Name)
				}
			case q < 22 && len(ins.Cols) >= 1: // another arrangement of Epoch and the target's columns
				ins.List = []string{"Epoch"}
				for _, c := range ins.Cols {
					ins.List = append(ins.List, c.Name)
				}
				for j := range ins.List {
					k := j + r.Intn(len(ins.List)-j)
					ins.List[j], ins.List[k] = ins.List[k], ins.List[j]
				}
			case q < 25 && len(ins.Cols) >= 2: // a strict subset: always rejected by WriteCSM
				ins.List = []string{"Epoch", ins.Cols[0].Name}
			}
			in.Ins = ins
			// a column that EqualFolds "Epoch" in the written series hits C29's finding (SerializeColumnsToRows
			// skips it) or WriteCSM's Epoch type check with an integer width the model does not see: such
			// results are only generated without INSERT
			for _, it := range in.Sel {
				if it.A != "" && strings.EqualFold(it.A, "Epoch") {
					in.Ins = nil
				}
			}
			// after an alias collision a result column may hold another column's data of another element type,
			// which WriteCSM coerces (C14's subject, not modelled): collisions are generated without INSERT
			if in.Ins != nil && c20Classify(in).aliasCollision {
				in.Ins = nil
			}
		}
	}
	return in
}

// ---------------------------------------------------------------- SQL

func c20SelectSQL(in *c20In, key string) (string, error) {
	where, err := c19WhereSQL(in.Preds)
	if err != nil {
		return "", err
	}
	list := "*"
	if !in.Star {
		if len(in.Sel) == 0 {
			return "", fmt.Errorf("empty select list")
		}
		var parts []string
		for _, it := range in.Sel {
			if it.A != "" {
				parts = append(parts, it.P+" AS "+it.A)
			} else {
				parts = append(parts, it.P)
			}
		}
		list = strings.Join(parts, ", ")
	}
	s := "SELECT " + list + " FROM `" + key + "`" + where
	if in.Limit >= 0 {
		s += fmt.Sprintf(" LIMIT %d", in.Limit)
	}
	return s, nil
}

// ---------------------------------------------------------------- observation

type c20Col struct {
	Name string  `json:"name"`
	Nil  bool    `json:"nil,omitempty"`
	Type string  `json:"type,omitempty"`
	Vals []int64 `json:"vals"`
}

func c20TypeName(col interface{}) string {
	switch col.(type) {
	case []float32:
		return "float32"
	case []float64:
		return "float64"
	case []int32:
		return "int32"
	case []int64:
		return "int64"
	case []int16:
		return "int16"
	case []int8:
		return "byte"
	case []uint8:
		return "uint8"
	case []uint16:
		return "uint16"
	case []uint32:
		return "uint32"
	case []uint64:
		return "uint64"
	}
	return "?"
}

func c20Observe(cs *io.ColumnSeries) []c20Col {
	out := []c20Col{}
	if cs == nil {
		return out
	}
	for _, n := range cs.GetColumnNames() {
		col := cs.GetColumn(n)
		if col == nil {
			out = append(out, c20Col{Name: n, Nil: true})
			continue
		}
		c := c20Col{Name: n, Type: c20TypeName(col), Vals: []int64{}}
		for i := 0; ; i++ {
			v, ok := c20At(col, i)
			if !ok {
				break
			}
			c.Vals = append(c.Vals, v)
		}
		out = append(out, c)
	}
	return out
}

func c20At(col interface{}, i int) (v int64, ok bool) {
	defer func() {
		if recover() != nil {
			ok = false
		}
	}()
	return c19ColAt(col, i)
}

func c20CoqCellOf(typ string, v int64) string {
	return c19CoqCell(typ, v)
}

func c20CoqView(cols []c20Col) string {
	var l []string
	for _, c := range cols {
		if c.Nil {
			l = append(l, cq.Tuple(cq.Str(c.Name), "None"))
			continue
		}
		var cells []string
		for _, v := range c.Vals {
			cells = append(cells, c20CoqCellOf(c.Type, v))
		}
		l = append(l, cq.Tuple(cq.Str(c.Name), "(Some "+cq.List(cells)+")"))
	}
	return cq.List(l)
}

// ---------------------------------------------------------------- reference semantics

type c20Exp struct {
	Names []string
	Types []string
	Cols  [][]int64
}

func c20Expected(in *c20In) (exp c20Exp, nrows int, ok bool) {
	colIdx := map[string]int{}
	for j, c := range in.Cols {
		colIdx[c.Name] = j
	}
	c19in := &c19In{TF: in.TF, Cols: in.Cols, Rows: in.Rows, Preds: in.Preds}
	var rows []c19Row
	for _, r := range in.Rows {
		if c19RowMatches(c19in, r, colIdx) {
			rows = append(rows, r)
		}
	}
	if in.Limit >= 0 && len(rows) > in.Limit {
		rows = rows[:in.Limit]
	}
	colOf := func(p string) (string, []int64, bool) {
		vals := []int64{}
		if p == "Epoch" {
			for _, r := range rows {
				vals = append(vals, r.Epoch)
			}
			return "int64", vals, true
		}
		j, found := colIdx[p]
		if !found {
			return "", nil, false
		}
		for _, r := range rows {
			vals = append(vals, c19Canon(in.Cols[j].Type, r.Vals[j]))
		}
		return in.Cols[j].Type, vals, true
	}
	add := func(out, p string) bool {
		t, v, found := colOf(p)
		if !found {
			return false
		}
		exp.Names = append(exp.Names, out)
		exp.Types = append(exp.Types, t)
		exp.Cols = append(exp.Cols, v)
		return true
	}
	if in.Star {
		add("Epoch", "Epoch")
		for _, c := range in.Cols {
			add(c.Name, c.Name)
		}
	} else {
		for _, it := range in.Sel {
			out := it.P
			if it.A != "" {
				out = it.A
			}
			if !add(out, it.P) {
				return exp, 0, false
			}
		}
	}
	return exp, len(rows), true
}

func c20ViewEqual(obs []c20Col, exp c20Exp) bool {
	if len(obs) != len(exp.Names) {
		return false
	}
	for i, c := range obs {
		if c.Nil || c.Name != exp.Names[i] || len(c.Vals) != len(exp.Cols[i]) {
			return false
		}
		for j, v := range c.Vals {
			if c19Canon(exp.Types[i], v) != c19Canon(exp.Types[i], exp.Cols[i][j]) {
				return false
			}
		}
	}
	return true
}

func c20FoldEq(a, b string) bool { return strings.EqualFold(a, b) }

type c20Classes struct {
	selWf, aliasCollision, limitZero, foldDistinct bool
	insWf                                          bool
}

func c20Classify(in *c20In) c20Classes {
	var k c20Classes
	names := []string{"Epoch"}
	typeOf := map[string]string{"Epoch": "int64"}
	for _, c := range in.Cols {
		names = append(names, c.Name)
		typeOf[c.Name] = c.Type
	}
	k.foldDistinct = true
	for i := range names {
		for j := i + 1; j < len(names); j++ {
			if c20FoldEq(names[i], names[j]) {
				k.foldDistinct = false
			}
		}
	}
	k.selWf = in.Star || len(in.Sel) > 0
	var aliases []string
	count := map[string]int{}
	for _, it := range in.Sel {
		if _, ok := typeOf[it.P]; !ok {
			k.selWf = false
		}
		count[it.P]++
		if it.A != "" {
			aliases = append(aliases, it.A)
		}
	}
	if !in.Star {
		for i, a := range aliases {
			if c20FoldEq(a, "Epoch") {
				k.aliasCollision = true
			}
			for _, it := range in.Sel {
				if c20FoldEq(a, it.P) {
					k.aliasCollision = true
				}
			}
			for j := i + 1; j < len(aliases); j++ {
				if c20FoldEq(a, aliases[j]) {
					k.aliasCollision = true
				}
			}
		}
		for _, it := range in.Sel {
			if it.A != "" && count[it.P] != 1 {
				k.aliasCollision = true
			}
		}
	}
	k.limitZero = in.Limit == 0
	if in.Ins != nil {
		ins := in.Ins
		ttfs := c19TFs[ins.TF]
		k.insWf = ttfs > 0 && len(ins.Rows) > 0
		// output name -> source type
		outType := map[string]string{}
		outPrim := map[string]string{}
		if in.Star {
			for n, t := range typeOf {
				outType[n], outPrim[n] = t, n
			}
		} else {
			for _, it := range in.Sel {
				n := it.P
				if it.A != "" {
					n = it.A
				}
				if _, dup := outType[n]; !dup {
					outType[n], outPrim[n] = typeOf[it.P], it.P
				}
			}
		}
		if outPrim["Epoch"] != "Epoch" {
			k.insWf = false
		}
		seen := map[string]bool{"Epoch": true}
		for _, c := range ins.Cols {
			if seen[c.Name] || outType[c.Name] != c.Type {
				k.insWf = false
			}
			seen[c.Name] = true
		}
		for i, r := range ins.Rows {
			if ttfs > 0 && r.Epoch%ttfs != 0 || len(r.Vals) != len(ins.Cols) {
				k.insWf = false
			}
			if i > 0 && ins.Rows[i-1].Epoch >= r.Epoch {
				k.insWf = false
			}
			for j, c := range ins.Cols {
				if j < len(r.Vals) && !c19IsFloat(c.Type) && c.Type != "uint64" && c19Canon(c.Type, r.Vals[j]) != r.Vals[j] {
					k.insWf = false
				}
			}
		}
		if ins.List != nil { // any arrangement of Epoch + the target's columns
			want := map[string]bool{"Epoch": true}
			for _, c := range ins.Cols {
				want[c.Name] = true
			}
			got := map[string]bool{}
			for _, n := range ins.List {
				if !want[n] || got[n] {
					k.insWf = false
				}
				got[n] = true
			}
			if len(got) != len(want) {
				k.insWf = false
			}
		}
	}
	return k
}

func (k c20Classes) class() string {
	switch {
	case k.limitZero:
		return "limit-zero"
	case k.aliasCollision:
		return "alias-collision"
	}
	return ""
}

// expected target contents: last-writer-wins insertion by column NAME, epochs truncated to the target timeframe
func c20ExpectedAfter(in *c20In, exp c20Exp) []c19Row {
	ins := in.Ins
	ttfs := c19TFs[ins.TF]
	store := map[int64][]int64{}
	for _, r := range ins.Rows {
		vals := make([]int64, len(r.Vals))
		for j, c := range ins.Cols {
			vals[j] = c19Canon(c.Type, r.Vals[j])
		}
		store[r.Epoch] = vals
	}
	idx := map[string]int{}
	for i, n := range exp.Names {
		if _, dup := idx[n]; !dup {
			idx[n] = i
		}
	}
	ei, ok := idx["Epoch"]
	if ok {
		for i := range exp.Cols[ei] {
			e := exp.Cols[ei][i]
			e -= ((e % ttfs) + ttfs) % ttfs
			vals := make([]int64, len(ins.Cols))
			for j, c := range ins.Cols {
				if ci, found := idx[c.Name]; found && i < len(exp.Cols[ci]) {
					vals[j] = c19Canon(c.Type, exp.Cols[ci][i])
				}
			}
			store[e] = vals
		}
	}
	var eps []int64
	for e := range store {
		eps = append(eps, e)
	}
	for i := range eps { // insertion sort (small)
		for j := i; j > 0 && eps[j-1] > eps[j]; j-- {
			eps[j-1], eps[j] = eps[j], eps[j-1]
		}
	}
	var out []c19Row
	for _, e := range eps {
		out = append(out, c19Row{Epoch: e, Vals: store[e]})
	}
	return out
}

// ---------------------------------------------------------------- runner

type c20Obs struct {
	SQL      string   `json:"sql"`
	Code     int      `json:"code"`
	Err      string   `json:"err,omitempty"`
	View     []c20Col `json:"view"`
	InsSQL   string   `json:"ins_sql,omitempty"`
	InsCode  int      `json:"ins_code"`
	InsErr   string   `json:"ins_err,omitempty"`
	After    []c19Row `json:"after,omitempty"`
	WantRows int      `json:"want_rows"`
}

func c20Run(raw json.RawMessage) (res Result, err error) {
	var in c20In
	if err = json.Unmarshal(raw, &in); err != nil {
		return
	}
	tfs, ok := c19TFs[in.TF]
	if !ok || len(in.Rows) == 0 {
		return res, fmt.Errorf("unsupported timeframe or empty history")
	}
	for _, p := range in.Preds {
		if p.Op == "between" && p.H == nil {
			return res, fmt.Errorf("between without upper literal")
		}
	}
	cs, err := c19BuildCS(in.Cols, in.Rows)
	if err != nil {
		return res, err
	}
	inst, err := sqlinst.Get()
	if err != nil {
		return res, err
	}
	sym := inst.NewSymbol("S")
	key := sym + "/" + in.TF + "/T"
	defer inst.RemoveBucket(sym)
	if err = inst.Write(key, cs); err != nil {
		return res, fmt.Errorf("write: %w", err)
	}
	sel, err := c20SelectSQL(&in, key)
	if err != nil {
		return res, err
	}
	obs := c20Obs{SQL: sel + ";"}
	r := inst.RunSQL(obs.SQL)
	obs.Code, obs.Err = r.Code, r.Err
	obs.View = []c20Col{}
	if r.Code == 0 {
		obs.View = c20Observe(r.CS)
	}
	var coqIns = "None"
	if in.Ins != nil {
		ins := in.Ins
		ttfs, ok := c19TFs[ins.TF]
		if !ok || len(ins.Rows) == 0 {
			return res, fmt.Errorf("unsupported target")
		}
		tcs, err := c19BuildCS(ins.Cols, ins.Rows)
		if err != nil {
			return res, err
		}
		tsym := inst.NewSymbol("T")
		tkey := tsym + "/" + ins.TF + "/T"
		defer inst.RemoveBucket(tsym)
		if err = inst.Write(tkey, tcs); err != nil {
			return res, fmt.Errorf("write target: %w", err)
		}
		list := ""
		coqList := "None"
		if ins.List != nil {
			list = " (" + strings.Join(ins.List, ", ") + ")"
			var l []string
			for _, n := range ins.List {
				l = append(l, cq.Str(n))
			}
			coqList = "(Some " + cq.List(l) + ")"
		}
		obs.InsSQL = "INSERT INTO `" + tkey + "`" + list + " " + sel + ";"
		ir := inst.RunSQL(obs.InsSQL)
		obs.InsCode, obs.InsErr = ir.Code, ir.Err
		_ = inst.Flush()
		back := inst.RunSQL("SELECT * FROM `" + tkey + "`;")
		if back.Code != 0 || back.CS == nil {
			return res, fmt.Errorf("reading the target back failed: %s", back.Err)
		}
		ep := back.CS.GetEpoch()
		for i, e := range ep {
			row := c19Row{Epoch: e}
			for _, c := range ins.Cols {
				v, _ := c20At(back.CS.GetColumn(c.Name), i)
				row.Vals = append(row.Vals, c19Canon(c.Type, v))
			}
			obs.After = append(obs.After, row)
		}
		tin := &c19In{TF: ins.TF, Cols: ins.Cols, Rows: ins.Rows}
		tschema, trows := c19CoqStore(tin)
		_, arows := c19CoqStore(&c19In{TF: ins.TF, Cols: ins.Cols, Rows: obs.After})
		coqIns = "(Some " + cq.Rec(cq.F("i_tfs", cq.Z(ttfs)), cq.F("i_schema", tschema), cq.F("i_rows", trows), cq.F("i_cols", coqList),
			cq.F("i_code", cq.Nat(obs.InsCode)), cq.F("i_after", arows)) + ")"
	}
	exp, nrows, expOK := c20Expected(&in)
	obs.WantRows = nrows
	res.Obs = obs

	c19in := &c19In{TF: in.TF, Cols: in.Cols, Rows: in.Rows, Preds: in.Preds}
	schema, rows := c19CoqStore(c19in)
	var cp []string
	for _, p := range in.Preds {
		cp = append(cp, c19CoqPred(p))
	}
	coqSel := "None"
	if !in.Star {
		var l []string
		for _, it := range in.Sel {
			a := "None"
			if it.A != "" {
				a = "(Some " + cq.Str(it.A) + ")"
			}
			l = append(l, cq.Tuple(cq.Str(it.P), a))
		}
		coqSel = "(Some " + cq.List(l) + ")"
	}
	coqLim := "None"
	if in.Limit >= 0 {
		coqLim = "(Some " + cq.Nat(in.Limit) + ")"
	}
	res.Coq = cq.Rec(cq.F("k_tfs", cq.Z(tfs)), cq.F("k_schema", schema), cq.F("k_rows", rows), cq.F("k_preds", cq.List(cp)),
		cq.F("k_sel", coqSel), cq.F("k_limit", coqLim), cq.F("k_code", cq.Nat(obs.Code)), cq.F("k_view", c20CoqView(obs.View)),
		cq.F("k_ins", coqIns))

	k19 := c19Classify(c19in)
	k := c20Classify(&in)
	judged := k19.inDomain() && k.selWf && k.foldDistinct && expOK && in.Limit <= 1000000 && (in.Ins == nil || k.insWf)
	res.InDomain = judged && !k.aliasCollision && !k.limitZero
	res.Holds = true
	if judged {
		switch {
		case obs.Code != 0:
			res.Holds, res.Detail = false, fmt.Sprintf("SELECT failed (code %d): %s", obs.Code, obs.Err)
		case nrows == 0:
			for _, c := range obs.View {
				if c.Nil || len(c.Vals) != 0 {
					res.Holds, res.Detail = false, "rows returned where none match"
				}
			}
		case !c20ViewEqual(obs.View, exp):
			res.Holds, res.Detail = false, fmt.Sprintf("SELECT returned %s, expected names %v with %d rows", c20ViewString(obs.View), exp.Names, nrows)
		}
		if res.Holds && in.Ins != nil {
			want := c20ExpectedAfter(&in, exp)
			if obs.InsCode != 0 {
				res.Holds, res.Detail = false, fmt.Sprintf("INSERT failed (code %d): %s", obs.InsCode, obs.InsErr)
			} else if fmt.Sprint(want) != fmt.Sprint(obs.After) {
				res.Holds, res.Detail = false, fmt.Sprintf("target after INSERT %v, expected %v", obs.After, want)
			}
		}
		if !res.Holds {
			res.Class = k.class()
		}
	}
	res.Tags = []string{"tf:" + in.TF, fmt.Sprintf("preds=%d", len(in.Preds)), fmt.Sprintf("code=%d", obs.Code)}
	if in.Star {
		res.Tags = append(res.Tags, "select:*")
	} else {
		res.Tags = append(res.Tags, fmt.Sprintf("select:%d", len(in.Sel)))
		for _, it := range in.Sel {
			if it.A != "" {
				res.Tags = append(res.Tags, "alias")
				break
			}
		}
	}
	switch {
	case in.Limit < 0:
		res.Tags = append(res.Tags, "limit:none")
	case in.Limit < nrowsAll(&in):
		res.Tags = append(res.Tags, "limit:cuts")
	default:
		res.Tags = append(res.Tags, "limit:loose")
	}
	if in.Ins != nil {
		res.Tags = append(res.Tags, "insert", "insert-tf:"+in.Ins.TF, fmt.Sprintf("insert-code=%d", obs.InsCode))
	}
	if res.InDomain {
		res.Tags = append(res.Tags, "in-domain")
	} else {
		res.Tags = append(res.Tags, "outside-domain")
		if c := k.class(); c != "" {
			res.Tags = append(res.Tags, "class:"+c)
		}
	}
	res.Nontrivial = res.InDomain && nrows >= 1 && (!in.Star || in.Limit >= 0 || in.Ins != nil)
	res.Key = string(raw)
	return res, nil
}

func nrowsAll(in *c20In) int { return len(in.Rows) }

func c20ViewString(v []c20Col) string {
	var parts []string
	for _, c := range v {
		if c.Nil {
			parts = append(parts, c.Name+"=nil")
		} else {
			parts = append(parts, fmt.Sprintf("%s=%v", c.Name, c.Vals))
		}
	}
	return "{" + strings.Join(parts, " ") + "}"
}

var _ = math.MaxInt32

func init() {
	Register(&Spec{
		ID:          "C20",
		CoqRequire:  "Require Import MS.Corr.C20.",
		CoqCaseType: "C20.case",
		Rule: "a source bucket as in C19 (1-3 value columns, 2-7 rows, 2-14 thorough, no NaN) in a real temporary instance; SELECT * or a list of 1-4 " +
			"columns over Epoch and the bucket's columns, 35% of items aliased (a few colliding aliases, duplicates, unknown names); 0-2 WHERE " +
			"conjuncts; LIMIT absent / 0 / 1..rows+2 / 1000; 40% INSERT INTO an existing target bucket of the same or a coarser timeframe whose " +
			"columns are a subset of the result's (a few with an INSERT column list, some reordered); distinct = distinct input JSON; " +
			"non-trivial = inside the theorems' guards, >=1 result row and a select list, LIMIT or INSERT",
		Gen: c20Gen,
		Run: c20Run,
	})
}
