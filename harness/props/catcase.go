package props

import (
	"fmt"
	"strings"
	"time"

	"github.com/alpacahq/marketstore/v4/catalog"
	"github.com/alpacahq/marketstore/v4/utils/io"

	"verifharness/internal/catinst"
	"verifharness/internal/cq"
)

// Shared by C16 and C17: request lists against a real instance in a sandbox, observed after every
// request (result code, change of the sandbox listing, the catalog's own view, optionally the view of
// a fresh NewDirectory on the same disk), printed as blobs for Corr/CatCase.v.

type CatOp struct {
	Op     string `json:"op"`               // create | write | destroy | query | restart (C17 only)
	Key    string `json:"key"`              // the key string as a client supplies it
	Years  []int  `json:"years,omitempty"`  // write: the year of every row
	Schema int    `json:"schema,omitempty"` // which of the fixed schemas the request carries
}

// the fixed schemas (pairwise mismatching by name or length, so that "same tag" <=> accepted)
var catSchemas = []struct {
	Names, Types []string
}{
	{[]string{"Epoch", "A"}, []string{"i8", "f4"}},
	{[]string{"Epoch", "B", "C"}, []string{"i8", "i4", "f8"}},
	{[]string{"Epoch", "A", "Z"}, []string{"i8", "f4", "i8"}},
}

func catColumnSeries(schema int, years []int) *io.ColumnSeries {
	cs := io.NewColumnSeries()
	ep := make([]int64, len(years))
	for i, y := range years {
		ep[i] = time.Date(y, 6, 1, 12, 0, 0, 0, time.UTC).Unix()
	}
	cs.AddColumn("Epoch", ep)
	s := catSchemas[schema%len(catSchemas)]
	for j := 1; j < len(s.Names); j++ {
		switch s.Types[j] {
		case "f4":
			c := make([]float32, len(years))
			for i := range c {
				c[i] = float32(i) + 1.5
			}
			cs.AddColumn(s.Names[j], c)
		case "f8":
			c := make([]float64, len(years))
			for i := range c {
				c[i] = float64(i) + 2.5
			}
			cs.AddColumn(s.Names[j], c)
		case "i4":
			c := make([]int32, len(years))
			for i := range c {
				c[i] = int32(i) + 3
			}
			cs.AddColumn(s.Names[j], c)
		default:
			c := make([]int64, len(years))
			for i := range c {
				c[i] = int64(i) + 4
			}
			cs.AddColumn(s.Names[j], c)
		}
	}
	return cs
}

// ---- runner ----

type catStepObs struct {
	Code    int               `json:"code"`
	Msg     string            `json:"msg,omitempty"`
	TfOK    bool              `json:"tfok"`
	Year    int               `json:"year,omitempty"`
	Outside []string          `json:"outside,omitempty"` // what changed outside the root
	FS      []catinst.Entry   `json:"-"`
	TBK     []string          `json:"tbk"`
	Files   []catinst.CatFile `json:"files"`
	Fresh   *catFresh         `json:"fresh,omitempty"` // C17: NewDirectory(root) on the same disk
}
type catFresh struct {
	Code  int               `json:"code"`
	TBK   []string          `json:"tbk"`
	Files []catinst.CatFile `json:"files"`
}

// catTBKForOp builds the TimeBucketKey exactly as the request handler does, to ask the real
// TimeframeFromString about it.
func catTfOK(op CatOp) bool {
	var tbk *io.TimeBucketKey
	switch op.Op {
	case "create":
		parts := strings.Split(op.Key, ":")
		if len(parts) != 2 {
			return false
		}
		tbk = io.NewTimeBucketKey(parts[0], parts[1])
	case "write":
		tbk = io.NewTimeBucketKeyFromString(op.Key)
	default:
		return false
	}
	return catinst.TimeframeOK(tbk)
}

// catRunOp performs one request on the real instance.
func catRunOp(in *catinst.Inst, op CatOp) (o catStepObs) {
	o.TfOK = catTfOK(op)
	s := catSchemas[op.Schema%len(catSchemas)]
	switch op.Op {
	case "create":
		o.Code, o.Msg, o.Year = in.Create(op.Key, s.Names, s.Types)
	case "write":
		csm := io.NewColumnSeriesMap()
		tbk := io.NewTimeBucketKeyFromString(op.Key)
		csm.AddColumnSeries(*tbk, catColumnSeries(op.Schema, op.Years))
		o.Code, o.Msg = in.WriteCSM(csm, false)
	case "destroy":
		o.Code, o.Msg = in.Destroy(op.Key)
	case "query":
		o.Code, o.Msg, _ = in.Query(op.Key)
	}
	return o
}

// cqBlob prints a flat field sequence (2-byte big-endian length + bytes each) as one hex literal.
func cqBlob(fields [][]byte) string {
	var buf []byte
	for _, f := range fields {
		buf = append(buf, byte(len(f)>>8), byte(len(f)))
		buf = append(buf, f...)
	}
	return cq.Hex(buf)
}

func dec(n int) []byte { return []byte(fmt.Sprint(n)) }
func b01(b bool) []byte {
	if b {
		return []byte("1")
	}
	return []byte("0")
}

type catEnt struct{ Rel, Kind, Content string }

func catEnts(es []catinst.Entry) []catEnt {
	l := make([]catEnt, len(es))
	for i, e := range es {
		k := "f"
		if e.Dir {
			k = "d"
		}
		l[i] = catEnt{e.Rel, k, string(e.Content)}
	}
	return l
}

// entDiff: the entries of a that are not in b, in a's order (mirror of CatCase.ent_diff).
func entDiff(a, b []catEnt) []catEnt {
	in := map[catEnt]bool{}
	for _, e := range b {
		in[e] = true
	}
	var d []catEnt
	for _, e := range a {
		if !in[e] {
			d = append(d, e)
		}
	}
	return d
}

func tbkFields(tbks []string) [][]byte {
	l := [][]byte{dec(len(tbks))}
	for _, t := range tbks {
		p := strings.SplitN(t, "/", 3)
		for len(p) < 3 {
			p = append(p, "")
		}
		l = append(l, []byte(p[0]), []byte(p[1]), []byte(p[2]))
	}
	return l
}
func fileFields(fs []catinst.CatFile) [][]byte {
	l := [][]byte{dec(len(fs))}
	for _, f := range fs {
		l = append(l, []byte(f.Path), dec(f.Year))
	}
	return l
}

var catKinds = map[string]int{"create": 0, "write": 1, "destroy": 2, "query": 3, "restart": 4}

func cqOp(op CatOp, o catStepObs) string {
	f := [][]byte{dec(catKinds[op.Op]), []byte(op.Key), b01(o.TfOK), dec(op.Schema % len(catSchemas))}
	if op.Op == "create" {
		f = append(f, dec(o.Year))
	} else {
		for _, y := range op.Years {
			f = append(f, dec(y))
		}
	}
	return cqBlob(f)
}

func cqStep(o catStepObs, before, after []catEnt, sameView bool) string {
	f := [][]byte{dec(o.Code)}
	add, del := entDiff(after, before), entDiff(before, after)
	f = append(f, dec(len(add)))
	for _, e := range add {
		f = append(f, []byte(e.Rel), []byte(e.Kind), []byte(e.Content))
	}
	f = append(f, dec(len(del)))
	for _, e := range del {
		f = append(f, []byte(e.Rel), []byte(e.Kind), []byte(e.Content))
	}
	f = append(f, b01(sameView))
	if !sameView {
		f = append(f, tbkFields(o.TBK)...)
		f = append(f, fileFields(o.Files)...)
	}
	switch {
	case o.Fresh == nil:
		f = append(f, dec(0), dec(0))
	case fmt.Sprint(o.Fresh.TBK, o.Fresh.Files) == fmt.Sprint(o.TBK, o.Files):
		f = append(f, dec(2), dec(o.Fresh.Code)) // identical to the catalog's own view
	default:
		f = append(f, dec(1), dec(o.Fresh.Code))
		f = append(f, tbkFields(o.Fresh.TBK)...)
		f = append(f, fileFields(o.Fresh.Files)...)
	}
	return cqBlob(f)
}

// catRun performs the request list on a fresh instance; withFresh adds the view of a fresh
// NewDirectory(root) after every request.  hook (optional) sees every step.
func catRun(ops []CatOp, withFresh bool, hook func(i int, op CatOp, o *catStepObs)) (obs []catStepObs, coqOps, coqObs []string, err error) {
	return catRunHook(ops, withFresh, func(_ *catinst.Inst, i int, op CatOp, o *catStepObs) {
		if hook != nil {
			hook(i, op, o)
		}
	})
}

// catRunHook is catRun with the instance handed to the hook.
func catRunHook(ops []CatOp, withFresh bool, hook func(inst *catinst.Inst, i int, op CatOp, o *catStepObs)) (obs []catStepObs, coqOps, coqObs []string, err error) {
	inst, err := catinst.New()
	if err != nil {
		return nil, nil, nil, err
	}
	defer inst.Close()
	before := inst.Snapshot()
	prevView := fmt.Sprint([]string{}, []catinst.CatFile{})
	for i, op := range ops {
		var o catStepObs
		if op.Op == "restart" {
			if inst.WF != nil && inst.WF.FilePtr != nil {
				inst.WF.FilePtr.Close()
			}
			if e := inst.Start(); e != nil {
				o.Code, o.Msg = 1, e.Error()
			}
		} else {
			o = catRunOp(inst, op)
		}
		after := inst.Snapshot()
		o.FS = after
		o.Outside = catinst.DiffOutside(before, after)
		o.TBK = catinst.TBKs(inst.Cat)
		o.Files = inst.CatFilesOf(inst.Cat)
		if withFresh {
			fr := &catFresh{}
			d, e := catalog.NewDirectory(inst.Root)
			if e != nil {
				if _, ok := e.(catalog.ErrCategoryFileNotFound); !ok {
					fr.Code = 1
				}
			}
			fr.TBK = catinst.TBKs(d)
			fr.Files = inst.CatFilesOf(d)
			o.Fresh = fr
		}
		if hook != nil {
			hook(inst, i, op, &o)
		}
		obs = append(obs, o)
		coqOps = append(coqOps, cqOp(op, o))
		view := fmt.Sprint(o.TBK, o.Files)
		coqObs = append(coqObs, cqStep(o, catEnts(before), catEnts(after), view == prevView))
		prevView = view
		before = after
	}
	return obs, coqOps, coqObs, nil
}
