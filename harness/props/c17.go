package props

import (
	"encoding/json"
	"fmt"
	"os"
	"path/filepath"
	"sort"
	"strconv"
	"strings"

	"github.com/alpacahq/marketstore/v4/catalog"
	"github.com/alpacahq/marketstore/v4/utils/io"

	"verifharness/internal/catinst"
	"verifharness/internal/cq"
	"verifharness/internal/rng"
)

// C17 — Catalog stays consistent with disk (sequential half).
// Implementation under test: catalog.Directory (AddTimeBucket via DataService.Create and via WriteCSM's
// auto-create, AddFile via writes into new years, RemoveTimeBucket via DataService.Destroy, NewDirectory on
// restart) on a real instance; after every request the catalog's listing is compared with the disk and with
// a fresh catalog.NewDirectory(root).

type c17In struct {
	Ops []CatOp `json:"ops"`
}

// names that are string prefixes of one another at the same level (A / AB, G / GH): the path index is keyed by path strings
var c17Syms = []string{"A", "AB", "B"}
var c17Tfs = []string{"1Min", "5Min"}
var c17Grps = []string{"G", "GH"}
var c17Years = []int{2021, 2022, 2023}

func c17Gen(r *rng.Rand, i int, tier string) interface{} {
	in := c17In{}
	n := 4 + r.Intn(9)
	live := map[string]int{} // the generator's own idea of which buckets exist, with which schema
	for j := 0; j < n; j++ {
		key := pick(r, c17Syms) + "/" + pick(r, c17Tfs) + "/" + pick(r, c17Grps)
		if len(live) > 0 && r.Chance(50) { // revisit a live bucket
			ks := make([]string, 0, len(live))
			for k := range live {
				ks = append(ks, k)
			}
			sort.Strings(ks)
			key = ks[r.Intn(len(ks))]
		}
		op := CatOp{Key: key}
		sch, isLive := live[key]
		switch k := r.Intn(100); {
		case k < 30:
			op.Op = "create"
			op.Key = key + ":Symbol/Timeframe/AttributeGroup"
			if r.Chance(20) {
				op.Key = key + ":" // Create also accepts an empty category part
			}
			if isLive {
				op.Schema = sch // a second year file of a live bucket keeps the bucket's schema
			} else {
				op.Schema = r.Intn(3)
				live[key] = op.Schema
			}
		case k < 65:
			op.Op = "write"
			m := 1 + r.Intn(3)
			for q := 0; q < m; q++ {
				op.Years = append(op.Years, c17Years[r.Intn(len(c17Years))])
			}
			if r.Chance(4) {
				op.Years = nil
			}
			if isLive {
				op.Schema = sch
				if r.Chance(15) {
					op.Schema = (sch + 1) % 3 // mismatching schema: rejected
				}
			} else {
				op.Schema = r.Intn(3)
				if len(op.Years) > 0 {
					live[key] = op.Schema
				}
			}
		case k < 88:
			op.Op = "destroy"
			delete(live, key)
			in.Ops = append(in.Ops, op)
			// probe the survivors: a row in a year they do not have yet goes through GetSubDirectoryAndAddFile
			if len(live) > 0 && r.Chance(70) {
				ks := make([]string, 0, len(live))
				for k2 := range live {
					ks = append(ks, k2)
				}
				sort.Strings(ks)
				k2 := ks[r.Intn(len(ks))]
				in.Ops = append(in.Ops, CatOp{Op: "write", Key: k2, Years: []int{2030 + j, 2031 + j}, Schema: live[k2]})
			}
			continue
		case k < 94:
			op.Op = "restart"
			op.Key = ""
		default:
			op.Op = "query"
		}
		in.Ops = append(in.Ops, op)
	}
	return in
}

// diskListing walks the data root: the buckets (three directory levels) and their year files.
func diskListing(root string) (tbks []string, files []catinst.CatFile, sandboxRoot string) {
	syms, _ := os.ReadDir(root)
	for _, s := range syms {
		if !s.IsDir() {
			continue
		}
		tfs, _ := os.ReadDir(filepath.Join(root, s.Name()))
		for _, t := range tfs {
			if !t.IsDir() {
				continue
			}
			grps, _ := os.ReadDir(filepath.Join(root, s.Name(), t.Name()))
			for _, g := range grps {
				if !g.IsDir() {
					continue
				}
				tbks = append(tbks, s.Name()+"/"+t.Name()+"/"+g.Name())
				ys, _ := os.ReadDir(filepath.Join(root, s.Name(), t.Name(), g.Name()))
				for _, y := range ys {
					if strings.HasSuffix(y.Name(), ".bin") {
						yr, _ := strconv.Atoi(strings.TrimSuffix(y.Name(), ".bin"))
						files = append(files, catinst.CatFile{Path: catinst.ModelRoot + "/" + s.Name() + "/" + t.Name() + "/" + g.Name() + "/" + y.Name(), Year: yr})
					}
				}
			}
		}
	}
	sort.Strings(tbks)
	sort.Slice(files, func(i, j int) bool { return files[i].Path < files[j].Path })
	return
}

func c17GoodKey(key string) bool {
	parts := strings.Split(key, ":")
	if len(parts) > 2 || (len(parts) == 2 && parts[1] != "" && parts[1] != "Symbol/Timeframe/AttributeGroup") {
		return false
	}
	items := strings.Split(parts[0], "/")
	if len(items) != 3 {
		return false
	}
	for _, c := range items {
		if c == "" || c == "." || c == ".." || c == "category_name" || c == "metadata.db" {
			return false
		}
	}
	return true
}

func c17Run(raw json.RawMessage) (res Result, err error) {
	var in c17In
	if err = json.Unmarshal(raw, &in); err != nil {
		return
	}
	for _, op := range in.Ops {
		if strings.Count(op.Key, "..") > 3 {
			return res, fmt.Errorf("key %q has more than three '..'", op.Key)
		}
	}
	res.Holds = true
	inDom := true
	nMut := 0
	var root string
	obs, coqOps, coqObs, err := catRunHook(in.Ops, true, func(inst *catinst.Inst, i int, op CatOp, o *catStepObs) {
		root = inst.Root
		if op.Op != "restart" {
			inDom = inDom && c17GoodKey(op.Key)
		}
		if o.Code == 0 && (op.Op == "create" || op.Op == "write" || op.Op == "destroy") {
			nMut++
		}
		if !res.Holds {
			return
		}
		dt, df, _ := diskListing(inst.Root)
		fail := func(what string) {
			res.Holds = false
			res.Detail = fmt.Sprintf("after op %d (%s %q): %s", i, op.Op, op.Key, what)
		}
		// every listed bucket must be served: the path index (directMap) finds it, with the latest year a restart finds
		if fresh, e := catalog.NewDirectory(inst.Root); e == nil || fresh != nil {
			for _, k := range o.TBK {
				tbk := io.NewTimeBucketKeyFromString(k)
				a, ea := inst.Cat.GetLatestTimeBucketInfoFromKey(tbk)
				b, eb := fresh.GetLatestTimeBucketInfoFromKey(tbk)
				switch {
				case ea != nil && eb == nil:
					fail(fmt.Sprintf("bucket %s is listed and on disk, but GetLatestTimeBucketInfoFromKey fails on the running catalog: %v", k, ea))
				case ea == nil && eb == nil && a.Year != b.Year:
					fail(fmt.Sprintf("bucket %s: latest year %d on the running catalog, %d after a restart", k, a.Year, b.Year))
				}
			}
		}
		if !res.Holds {
			return
		}
		if fmt.Sprint(o.TBK) != fmt.Sprint(dt) {
			fail(fmt.Sprintf("catalog lists buckets %v, the disk has %v", o.TBK, dt))
		} else if fmt.Sprint(o.Files) != fmt.Sprint(df) {
			fail(fmt.Sprintf("catalog lists year files %v, the disk has %v", o.Files, df))
		} else if o.Fresh != nil && (fmt.Sprint(o.Fresh.TBK) != fmt.Sprint(o.TBK) || fmt.Sprint(o.Fresh.Files) != fmt.Sprint(o.Files)) {
			fail(fmt.Sprintf("a fresh NewDirectory lists %v %v, the running catalog %v %v", o.Fresh.TBK, o.Fresh.Files, o.TBK, o.Files))
		}
	})
	if err != nil {
		return res, err
	}
	_ = root
	res.Obs = map[string]interface{}{"steps": obs}
	res.Coq = cq.Rec(cq.F("k_root", cq.Hex([]byte(catinst.ModelRoot))), cq.F("k_ops", cq.List(coqOps)), cq.F("k_obs", cq.List(coqObs)))
	res.InDomain = inDom
	for i, op := range in.Ops {
		res.Tags = append(res.Tags, fmt.Sprintf("%s:code=%d", op.Op, obs[i].Code))
	}
	if len(obs) > 0 {
		res.Tags = append(res.Tags, fmt.Sprintf("final-buckets=%d", len(obs[len(obs)-1].TBK)), fmt.Sprintf("final-files=%d", bucket(len(obs[len(obs)-1].Files))))
	}
	if inDom {
		res.Tags = append(res.Tags, "in-domain")
	} else {
		res.Tags = append(res.Tags, "outside-domain")
	}
	res.Nontrivial = inDom && nMut >= 2
	res.Key = string(raw)
	return res, nil
}

func init() {
	Register(&Spec{
		ID:          "C17",
		CoqRequire:  "Require Import MS.Corr.C17.",
		CoqCaseType: "C17.case",
		Rule: "4-12 requests over the key space {A,AB,B} x {1Min,5Min} x {G,GH} (names that are string prefixes of one another) x years {2021,2022,2023,current, fresh years after a destroy}: create (DataService.Create), write of 1-3 rows " +
			"(WriteCSM: auto-create, new-year files, mismatching schema), destroy, restart (NewDirectory + new WAL/writer on the same root), query; after every " +
			"request the catalog's buckets and year files are compared with a walk of the disk and with a fresh NewDirectory(root), and GetLatestTimeBucketInfoFromKey of every listed bucket must succeed with the restart's latest year; distinct = distinct input; " +
			"non-trivial = well-formed keys and >=2 successful mutating requests",
		Gen: c17Gen,
		Run: c17Run,
	})
}
