package props

import (
	"encoding/binary"
	"encoding/json"
	"fmt"
	"math"
	"sort"
	"time"

	"github.com/alpacahq/marketstore/v4/executor"
	"github.com/alpacahq/marketstore/v4/utils/io"

	"verifharness/internal/cq"
	"verifharness/internal/mk"
	"verifharness/internal/rng"
	"verifharness/internal/stq"
)

// C09 — Variable-length buckets keep every record in time order.
// Implementation under test: Writer.WriteCSM (WriteRecords, formatRecord, GetIntervalTicks32Bit) ->
// WAL flush -> WriteBufferToFileIndirect (append, sort.Stable by ticks, snappy) on a real temp instance,
// then QueryService.ExecuteQuery over all time (NewIOPlan, packingReader, readSecondStage,
// RewriteBuffer/GetTimeFromTicks, trimResultsToRange).

type c09In struct {
	Tf     string      `json:"tf"`
	Types  []string    `json:"types"`
	Writes [][]stq.Row `json:"writes"`
}

var c09Tfs = []struct {
	name string
	d    time.Duration
	w    int
}{
	{"1Min", time.Minute, 30}, {"5Min", 5 * time.Minute, 8}, {"15Min", 15 * time.Minute, 4}, {"1H", time.Hour, 12},
	{"2H", 2 * time.Hour, 3}, {"4H", 4 * time.Hour, 3}, {"1D", 24 * time.Hour, 16}, {"30Min", 30 * time.Minute, 3},
	{"30Sec", 30 * time.Second, 3}, {"10Sec", 10 * time.Second, 4}, {"1Sec", time.Second, 4},
}

func c09Gen(r *rng.Rand, i int, tier string) interface{} {
	tot := 0
	for _, t := range c09Tfs {
		tot += t.w
	}
	k := r.Intn(tot)
	tfName, tf := "1Min", time.Minute
	for _, t := range c09Tfs {
		if k < t.w {
			tfName, tf = t.name, t.d
			break
		}
		k -= t.w
	}
	in := c09In{Tf: tfName}
	wide := r.Chance(14) // wide, repetitive payloads: the reader's buffer estimate (F4)
	if wide {
		in.Types = []string{"string16"}
		if tier == "thorough" && r.Bool() {
			in.Types = append(in.Types, "string16")
		}
	} else {
		for j, n := 0, 1+r.Intn(3); j < n; j++ {
			in.Types = append(in.Types, c11Types[r.Intn(len(c11Types))])
		}
	}
	plen := 0
	for _, t := range in.Types {
		plen += mk.SizeOf(t)
	}
	by := []int{1970, 1999, 2000, 2015, 2016, 2019, 2020, 2023, 2037}[r.Intn(9)]
	ny := 1 + r.Intn(2)
	if r.Chance(10) {
		ny = 3
	}
	var pool []time.Time
	for y := by; y < by+ny; y++ {
		j, jn := c11Jan1(y), c11Jan1(y+1)
		n := int(jn.Sub(j) / tf)
		pool = append(pool, j, j.Add(tf), jn.Add(-tf), time.Date(y, 2, 28, 0, 0, 0, 0, time.UTC).Truncate(tf),
			time.Date(y, 3, 1, 0, 0, 0, 0, time.UTC), j.Add(time.Duration(r.Intn(n))*tf), j.Add(time.Duration(r.Intn(n))*tf))
	}
	offset := func() time.Duration {
		switch r.Intn(9) {
		case 0:
			return 0
		case 1:
			return 1
		case 2:
			return tf - 1
		case 3: // whole second + a few ns: C10's rounding defect (F1) for tf > 1s
			return (time.Duration(r.Intn(int(tf/time.Second)))*time.Second + time.Duration(r.Intn(12))) % tf
		case 4: // last nanoseconds of a second
			return (time.Duration(1+r.Intn(int(tf/time.Second)))*time.Second - time.Duration(1+r.Intn(8))) % tf
		case 5:
			return (time.Duration(r.Intn(int(tf/time.Second)))*time.Second + 500000000 + time.Duration(r.Intn(1000))) % tf
		case 6:
			return time.Duration(r.Intn(1000)) * time.Millisecond % tf
		}
		return time.Duration(r.Intn(int(tf)))
	}
	maxRows := 8
	if tier == "thorough" {
		maxRows = 30
	}
	payload := func() []byte {
		if wide || r.Chance(10) {
			b := make([]byte, plen)
			v := byte(r.Intn(3))
			for j := range b {
				b[j] = v
			}
			return b
		}
		return r.Bytes(plen)
	}
	var prevFocus time.Time
	for w, nw := 0, 1+r.Intn(4); w < nw; w++ {
		var ts []time.Time
		focus := pool[r.Intn(len(pool))]
		if w > 0 && r.Chance(55) {
			// a later request to an interval that already holds records (earlier or later ticks, other batch size)
			focus = prevFocus
		}
		prevFocus = focus
		n := 1 + r.Intn(maxRows)
		if wide && w < 1 && r.Chance(70) {
			n = 10 + r.Intn(14)
		}
		for j := 0; j < n; j++ {
			ist := focus
			if !wide && r.Chance(35) {
				ist = pool[r.Intn(len(pool))]
			} else if r.Chance(25) {
				ist = focus.Add(time.Duration(r.Intn(3)-1) * tf)
			}
			ts = append(ts, ist.Add(offset()))
		}
		switch r.Intn(10) {
		case 0, 1, 2: // unsorted input
			for j := len(ts) - 1; j > 0; j-- {
				k := r.Intn(j + 1)
				ts[j], ts[k] = ts[k], ts[j]
			}
		case 3: // unsorted across years with equal slot index (F3): [Y s; Y+1 s'; Y s']
			a := c11Jan1(by).Add(time.Duration(r.Intn(1000)) * tf)
			b := a.Add(time.Duration(1+r.Intn(5)) * tf)
			b1 := c11Jan1(by + 1).Add(b.Sub(c11Jan1(by)))
			ts = append([]time.Time{a.Add(offset()), b1.Add(offset()), b.Add(offset())}, ts...)
		default:
			sort.Slice(ts, func(a, b int) bool { return ts[a].Before(ts[b]) })
		}
		var rows []stq.Row
		for _, t := range ts {
			if t.Unix() < 0 {
				t = time.Unix(0, int64(t.Nanosecond()))
			}
			rows = append(rows, stq.Row{Sec: t.Unix(), Ns: int32(t.Nanosecond()), Pay: payload()})
		}
		in.Writes = append(in.Writes, rows)
	}
	return in
}

type c09Obs struct {
	Code   int    `json:"code"`
	Out    []byte `json:"out"`
	Msg    string `json:"msg,omitempty"`
	Files  int    `json:"files"`
	Slots  int    `json:"slots"`
	WCodes []int  `json:"wcodes"`
}

func c09Run(raw json.RawMessage) (res Result, err error) {
	var in c09In
	if err = json.Unmarshal(raw, &in); err != nil {
		return
	}
	res.Holds, res.Key = true, string(raw)
	inst, sym, err := stq.Acquire()
	if err != nil {
		return res, err
	}
	key := sym + "/" + in.Tf + "/T"
	o := c09Obs{}
	plen := 0
	for _, t := range in.Types {
		plen += mk.SizeOf(t)
	}
	allOK := true
	for _, w := range in.Writes {
		for _, row := range w {
			if len(row.Pay) != plen {
				return res, fmt.Errorf("row payload of %d bytes, schema needs %d", len(row.Pay), plen)
			}
		}
		code, _ := inst.Write(key, in.Types, true, w)
		o.WCodes = append(o.WCodes, code)
		if code != 0 {
			allOK = false
		}
	}
	res.Tags = append(res.Tags, "tf="+in.Tf)
	if !allOK {
		// the property speaks of successful writes only
		res.Obs = o
		res.Tags = append(res.Tags, "write-failed")
		return res, nil
	}
	st, err := inst.ReadState(key)
	if err != nil {
		return res, fmt.Errorf("read state: %w", err)
	}
	tf := time.Duration(st.TfNs)
	ipd := st.Intervals
	code, cs, msg := inst.Query(key, time.Unix(0, 0).UTC(), time.Unix(math.MaxInt64, 0).UTC())
	o.Code, o.Msg, o.Files = code, msg, len(st.Files)
	if code == 0 {
		if o.Out, err = st.Pack(cs); err != nil {
			return res, err
		}
	}
	// ---- Coq case
	var hist, state []string
	nrows := 0
	for _, w := range in.Writes {
		hist = append(hist, c11RowsCoq(w))
		nrows += len(w)
	}
	for _, f := range st.Files {
		for _, sl := range f.Slots {
			var recs []string
			for _, rc := range sl.Recs {
				recs = append(recs, cq.Tuple(cq.Hex(rc.Pay), cq.Z(int64(rc.Ticks))))
			}
			state = append(state, cq.Tuple(cq.Z(int64(f.Year)), cq.Z(sl.Pos), cq.Z(sl.Clen), cq.List(recs)))
			o.Slots++
		}
	}
	res.Obs = o
	res.Coq = cq.Rec(cq.F("k_tf", cq.Z(st.TfNs)), cq.F("k_plen", cq.Z(int64(plen))), cq.F("k_hist", cq.List(hist)),
		cq.F("k_state", cq.List(state)), cq.F("k_code", cq.Nat(o.Code)), cq.F("k_out", cq.Hex(o.Out)))

	// ---- finding classes: executable mirrors of the Coq guards, decided PER WRITTEN ROW on the input
	// (real TimeToIndex / GetIntervalTicks32Bit / GetTimeFromTicks)
	step := (int64(tf) + 4294967295) / 4294967296
	type wr struct {
		t, q             time.Time // written time; the time the codec quantises it to (in its OWN interval)
		pay              string
		late, idx0, misf bool // outside C10's bound (finding F1, fixed: never excused); F2 row; F3 row (merged into another year's command)
	}
	var written []wr
	f1, f2, f3 := false, false, false
	for _, w := range in.Writes {
		var y0, ccy int16
		var pi int64
		for i, row := range w {
			t := time.Unix(row.Sec, int64(row.Ns)).UTC()
			y := int16(t.Year())
			idx := io.TimeToIndex(t, tf)
			x := wr{t: t, pay: string(row.Pay), idx0: idx == 0}
			if i == 0 {
				y0, pi, ccy = y, idx, y
			} else if idx == pi && y == y0 {
				x.misf = ccy != y
			} else {
				pi, ccy = idx, y
			}
			ticks := io.GetIntervalTicks32Bit(t, idx, ipd)
			ist := io.IndexToTime(idx, tf, y)
			sec, ns := executor.GetTimeFromTicks(uint64(ist.Unix()), uint32(ipd), ticks)
			x.q = time.Unix(int64(sec), int64(int32(ns)))
			d := t.Sub(x.q)
			x.late = d < 0 || int64(d) > step || x.q.Before(ist) || !x.q.Before(ist.Add(tf))
			f1, f2, f3 = f1 || x.late, f2 || x.idx0, f3 || x.misf
			written = append(written, x)
		}
	}
	fourH := in.Tf == "4H"

	// ---- property oracle on the implementation's outputs.
	// Part A (what no known finding excuses): the query succeeds; exactly the index-0 rows
	// are missing; every row but the index-0 ones is returned with its quantised time and its payload;
	// those rows appear in time order.  Part B: the full property.  A failure of A is never classified.
	rl := int(st.Vrl) + 8
	type rr struct {
		t    time.Time
		pay  string
		used bool
	}
	var got []rr
	for i := 0; i+rl <= len(o.Out); i += rl {
		row := o.Out[i : i+rl]
		got = append(got, rr{t: time.Unix(int64(binary.LittleEndian.Uint64(row)), int64(int32(binary.LittleEndian.Uint32(row[rl-4:])))),
			pay: string(row[8 : rl-4])})
	}
	detailA, detailB := "", ""
	nIdx0 := 0
	for _, w := range written {
		if w.idx0 {
			nIdx0++
		}
	}
	switch {
	case o.Code != 0:
		detailA = fmt.Sprintf("the query over all time failed (code %d): %s", o.Code, o.Msg)
	case len(got) != len(written)-nIdx0:
		detailA = fmt.Sprintf("%d records written (%d with index 0), %d returned", len(written), nIdx0, len(got))
	default:
		// clean rows: exact match on (quantised time, payload)
		for _, w := range written {
			if w.idx0 {
				continue
			}
			found := false
			for j := range got {
				if !got[j].used && got[j].pay == w.pay && got[j].t.Equal(w.q) {
					got[j].used, found = true, true
					break
				}
			}
			if !found {
				detailA = fmt.Sprintf("record written at %s (quantised %s) is not returned with its time and payload",
					w.t.Format(time.RFC3339Nano), w.q.UTC().Format(time.RFC3339Nano))
				break
			}
		}
		var last time.Time
		seen := false
		for _, g := range got {
			if g.used {
				if seen && g.t.Before(last) {
					detailA = "returned rows (those no known finding touches) are not in time order"
				}
				last, seen = g.t, true
			}
		}
		// part B: everything, as the property states it
		if nIdx0 > 0 {
			detailB = fmt.Sprintf("%d records written, %d returned", len(written), len(got))
		}
		for j := 1; j < len(got) && detailB == ""; j++ {
			if got[j].t.Before(got[j-1].t) {
				detailB = fmt.Sprintf("returned rows are not in time order at row %d", j)
			}
		}
	}
	switch {
	case detailA != "":
		res.Holds, res.Detail = false, detailA
	case detailB != "":
		res.Holds, res.Detail = false, detailB
		switch {
		case f2:
			res.Class = "daily-jan1-index0"
		}
	}
	res.InDomain = !f1 && !f2 && o.Code == 0
	res.Nontrivial = res.InDomain && nrows >= 2
	res.Tags = append(res.Tags, fmt.Sprintf("rows=%d", bucket(nrows)), fmt.Sprintf("years=%d", len(st.Files)),
		fmt.Sprintf("slots=%d", bucket(o.Slots)), fmt.Sprintf("code=%d", o.Code))
	for name, b := range map[string]bool{"outside-C10-bound": f1, "F2": f2, "cross-year-same-index": f3, "4H": fourH} {
		if b {
			res.Tags = append(res.Tags, name)
		}
	}
	if res.InDomain {
		res.Tags = append(res.Tags, "in-domain")
	}
	if plen >= 64 {
		res.Tags = append(res.Tags, "wide-payload")
	}
	return res, nil
}

func init() {
	Register(&Spec{
		ID:          "C09",
		CoqRequire:  "Require Import MS.Corr.C09.",
		CoqCaseType: "C09.case",
		Rule: "write histories for one variable-length bucket on a real temp instance: 11 timeframes, 1-3 years from {1970..2037}, 1-4 " +
			"WriteCSM requests of 1-8 rows (1-30 thorough; 10-23 rows of wide repetitive payload in 14% of the cases), many records per " +
			"interval, interval/year edges, Feb 29, whole seconds + a few ns, last ns of a second, sorted / shuffled / cross-year input, 55% of the later requests hit the previous request's interval again; " +
			"then the raw file state and the query over all time; distinct = distinct input JSON; non-trivial = inside the guard with >= 2 rows",
		Gen: c09Gen,
		Run: c09Run,
	})
}
