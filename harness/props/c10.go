package props

import (
	"encoding/json"
	"fmt"
	"math/big"
	"time"

	"github.com/alpacahq/marketstore/v4/executor"
	"github.com/alpacahq/marketstore/v4/utils"
	"github.com/alpacahq/marketstore/v4/utils/io"

	"verifharness/internal/cq"
	"verifharness/internal/rng"
)

// C10 — Sub-interval timestamp encoding is monotone and precise.
// Implementation under test: io.GetIntervalTicks32Bit (with io.IndexToTimeDepr as its base time) and
// executor.GetTimeFromTicks.

type c10In struct {
	IPD   int64  `json:"ipd"`   // intervalsPerDay
	Index int64  `json:"index"` // interval index within the year (1-based)
	Off   int64  `json:"off"`   // offset of the timestamp inside the interval, ns
	Off2  int64  `json:"off2"`  // a second offset (order test)
	Raw   uint32 `json:"raw"`   // arbitrary tick count to decode
	Start uint64 `json:"start"` // intervalStart epoch passed to the decoder
}

func c10IPDs() []int64 {
	var l []int64
	for _, tf := range utils.Timeframes {
		l = append(l, int64(utils.Day/tf.Duration))
	}
	return l
}

// whole-second offsets: for every timeframe with an interval of at most 60 s ALL of them are enumerated by the case
// index (1 + 10 + 30 + 60 = 101 cases), so that every run covers the offsets that reach the decoder's nanosecond carry
func c10Enumerated(i int) (ipd, off int64, ok bool) {
	for _, x := range c10IPDs() {
		secs := 86400 / x
		if secs > 60 {
			continue
		}
		if int64(i) < secs {
			return x, int64(i) * 1e9, true
		}
		i -= int(secs)
	}
	return 0, 0, false
}

func c10Gen(r *rng.Rand, i int, tier string) interface{} {
	ipds := c10IPDs()
	in := c10In{IPD: ipds[r.Intn(len(ipds))]}
	if r.Chance(30) {
		in.IPD = 86400 // 1Sec: the exactness claim
	}
	eIPD, eOff, enumerated := c10Enumerated(i)
	if enumerated {
		in.IPD = eIPD
	}
	n := int64(86400e9) / in.IPD // interval length in ns
	in.Index = 1 + r.Range(0, 365*in.IPD-1)
	if r.Chance(20) {
		in.Index = []int64{1, 2, 365 * in.IPD, in.IPD, in.IPD + 1}[r.Intn(5)]
	}
	small := func() int64 { return r.Range(0, 40) - 20 }
	pick := func() int64 {
		var o int64
		switch k := r.Intn(15); {
		case k >= 12: // exact whole seconds and +-1..3 ns around them, every timeframe
			o = r.Range(0, n/1e9-1)*1e9 + []int64{0, 0, 0, 1, -1, 2, -2, 3, -3}[r.Intn(9)]
		case k == 0:
			o = r.Range(0, 30) // interval start
		case k == 1:
			o = n - 1 - r.Range(0, 30) // interval end
		case k < 5: // whole seconds +- 20 ns (F1 lives just below / just above them)
			o = r.Range(0, n/1e9)*1e9 + small()
		case k < 7: // multiples of the tick length +- small
			tick := new(big.Int).Div(new(big.Int).Mul(big.NewInt(r.Range(0, 1<<32-1)), big.NewInt(n)), big.NewInt(1<<32)).Int64()
			o = tick + small()
		case k < 8: // .5 / .999999995 fractions
			o = r.Range(0, n/1e9)*1e9 + []int64{500000000, 999999994, 999999995, 999999996, 999999999, 999999990, 999999989, 5, 4}[r.Intn(9)]
		default:
			o = r.Range(0, n-1)
		}
		if o < 0 {
			o = 0
		}
		if o >= n {
			o = n - 1
		}
		return o
	}
	in.Off = pick()
	if enumerated {
		in.Off = eOff
	}
	switch k := r.Intn(4); {
	case k == 0:
		in.Off2 = in.Off + r.Range(0, 3)
	case k == 1:
		in.Off2 = in.Off + r.Range(0, 2*n/(1<<32)+2)
	default:
		in.Off2 = pick()
	}
	if in.Off2 >= n {
		in.Off2 = n - 1
	}
	in.Raw = uint32(r.U64())
	if r.Chance(25) {
		in.Raw = []uint32{0, 1, 1<<32 - 1, 1<<32 - 2, 1 << 31, 49710, 49711}[r.Intn(7)]
	}
	in.Start = uint64(time.Date(2021, 1, 1, 0, 0, 0, 0, time.UTC).Unix()) + uint64((in.Index-1)*(86400/in.IPD))
	return in
}

type c10Obs struct {
	Base   int64  `json:"base"`
	Ticks  uint32 `json:"ticks"`
	Ticks2 uint32 `json:"ticks2"`
	Sec    uint64 `json:"sec"`
	Ns     uint32 `json:"ns"`
	RSec   uint64 `json:"rsec"`
	RNs    uint32 `json:"rns"`
}

// exact position of a tick in nanoseconds: floor(ticks * interval / 2^32)  (mirror of Ticks.tick_pos_ns)
func c10TickPos(ipd int64, ticks uint32) int64 {
	n := big.NewInt(int64(86400e9) / ipd)
	p := new(big.Int).Mul(big.NewInt(int64(ticks)), n)
	return p.Div(p, big.NewInt(1<<32)).Int64()
}

func c10Run(raw json.RawMessage) (res Result, err error) {
	var in c10In
	if err = json.Unmarshal(raw, &in); err != nil {
		return
	}
	if in.IPD <= 0 || in.IPD > 86400 {
		return res, fmt.Errorf("ipd out of range")
	}
	const year = 2021
	jan1 := time.Date(year, 1, 1, 0, 0, 0, 0, time.UTC)
	base := io.IndexToTimeDepr(in.Index, in.IPD, year)
	obs := c10Obs{Base: base.Unix() - jan1.Unix()}
	// the timestamp is built from the interval start computed HERE with integers (January 1st + (index-1) * interval), not
	// from the implementation's IndexToTimeDepr, so a wrong base time inside GetIntervalTicks32Bit shows up in the ticks
	start := jan1.Add(time.Duration(in.Index-1) * (utils.Day / time.Duration(in.IPD)))
	obs.Ticks = io.GetIntervalTicks32Bit(start.Add(time.Duration(in.Off)), in.Index, in.IPD)
	obs.Ticks2 = io.GetIntervalTicks32Bit(start.Add(time.Duration(in.Off2)), in.Index, in.IPD)
	obs.Sec, obs.Ns = executor.GetTimeFromTicks(in.Start, uint32(in.IPD), obs.Ticks)
	obs.RSec, obs.RNs = executor.GetTimeFromTicks(in.Start, uint32(in.IPD), in.Raw)
	res.Obs = obs
	res.Coq = cq.Rec(cq.F("k_ipd", cq.Z(in.IPD)), cq.F("k_index", cq.Z(in.Index)), cq.F("k_off", cq.Z(in.Off)), cq.F("k_off2", cq.Z(in.Off2)),
		cq.F("k_raw", cq.Z(int64(in.Raw))), cq.F("k_start", cq.ZU(in.Start)), cq.F("k_base", cq.Z(obs.Base)),
		cq.F("k_ticks", cq.Z(int64(obs.Ticks))), cq.F("k_ticks2", cq.Z(int64(obs.Ticks2))),
		cq.F("k_sec", cq.ZU(obs.Sec)), cq.F("k_ns", cq.Z(int64(obs.Ns))), cq.F("k_rsec", cq.ZU(obs.RSec)), cq.F("k_rns", cq.Z(int64(obs.RNs))))

	n := int64(86400e9) / in.IPD
	isTF := false
	for _, x := range c10IPDs() {
		if x == in.IPD {
			isTF = true
		}
	}
	valid := isTF && in.Off >= 0 && in.Off < n && in.Off2 >= 0 && in.Off2 < n
	// the former finding class F1 (fixed): tick position in the last 10 ns of a second; kept as a tag only
	formerF1 := c10TickPos(in.IPD, obs.Ticks)%1e9 >= 999999990
	res.InDomain = valid
	res.Holds = true
	if valid {
		step := (n + (1<<32 - 1)) / (1 << 32)
		dec := (int64(obs.Sec)-int64(in.Start))*1e9 + int64(obs.Ns)
		fail := func(cl, f string, a ...interface{}) {
			if res.Holds {
				res.Holds, res.Class, res.Detail = false, cl, fmt.Sprintf(f, a...)
			}
		}
		if obs.Base != (in.Index-1)*(86400/in.IPD) {
			fail("", "IndexToTimeDepr(%d, %d) is %d s after January 1st, the interval starts at %d s", in.Index, in.IPD, obs.Base, (in.Index-1)*(86400/in.IPD))
		}
		if (in.Off <= in.Off2 && obs.Ticks > obs.Ticks2) || (in.Off2 <= in.Off && obs.Ticks2 > obs.Ticks) {
			fail("", "order not preserved: offsets %d,%d -> ticks %d,%d", in.Off, in.Off2, obs.Ticks, obs.Ticks2)
		}
		cl := ""
		if dec < 0 || dec > in.Off || in.Off-dec > step || (in.IPD == 86400 && dec != in.Off) {
			fail(cl, "ipd=%d offset %d ns -> ticks %d -> (%d s, %d ns) = offset %d ns (step %d ns)", in.IPD, in.Off, obs.Ticks,
				int64(obs.Sec)-int64(in.Start), obs.Ns, dec, step)
		}
	}
	res.Tags = []string{fmt.Sprintf("ipd:%d", in.IPD)}
	if formerF1 {
		res.Tags = append(res.Tags, "former-F1-class")
	}
	if res.InDomain {
		res.Tags = append(res.Tags, "in-domain")
	} else {
		res.Tags = append(res.Tags, "outside-domain")
	}
	res.Nontrivial = res.InDomain && in.Off > 0
	res.Key = string(raw)
	return res, nil
}

func init() {
	Register(&Spec{
		ID:          "C10",
		CoqRequire:  "Require Import MS.Corr.C10.",
		CoqCaseType: "C10.case",
		Rule: "intervalsPerDay of every utils.Timeframes entry (1Sec 30%+); offsets at interval start/end, whole seconds +-20 ns, exact tick positions " +
			"+-20 ns, .5/.99999999x fractions, uniform; a second offset (equal, within one step, or independent) for the order test; an arbitrary uint32 " +
			"tick count decoded as well; distinct = distinct input; non-trivial = valid offsets with offset > 0",
		Gen: c10Gen,
		Run: c10Run,
	})
}
