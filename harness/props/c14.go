package props

import (
	"encoding/binary"
	"encoding/json"
	"fmt"
	"math"
	"sort"
	"strings"
	"time"

	"github.com/alpacahq/marketstore/v4/executor"
	"github.com/alpacahq/marketstore/v4/utils/io"

	"verifharness/internal/catinst"
	"verifharness/internal/cq"
	"verifharness/internal/mk"
	"verifharness/internal/rng"
)

// C14 — Writes are validated against the bucket schema.
// Implementation under test: executor.Writer.WriteCSM (schema check, GetMissingAndTypeCoercionColumns,
// CoerceColumnType, queueing + flush) on a real instance, observed through QueryService.ExecuteQuery and
// the add-only hook executor.VerifQueuedWrites; plus stand-alone ColumnSeries.CoerceColumnType calls.

type c14Col struct {
	Name string `json:"name"`
	Type string `json:"type"`
	Data []byte `json:"data"` // raw little-endian values (for "Epoch": unix seconds)
}
type c14Bucket struct {
	Key  string   `json:"key"`
	Cols []c14Col `json:"cols"`
}
type c14Step struct {
	Buckets []c14Bucket `json:"buckets"`
}
type c14Coerce struct {
	Src  string `json:"src"`
	Dst  string `json:"dst"`
	Data []byte `json:"data"`
}
type c14In struct {
	Steps  []c14Step   `json:"steps"`
	Coerce []c14Coerce `json:"coerce,omitempty"`
	Retry  int         `json:"retry,omitempty"` // re-run the whole case (map order is random) until the oracle fails, at most Retry times
}

var c14Num = []string{"float32", "float64", "int16", "int32", "int64", "uint8", "uint16", "uint32", "uint64", "byte"}
var c14All = append(append([]string{}, c14Num...), "bool", "string16")

func c14TypeID(t string) io.EnumElementType {
	switch t {
	case "float32":
		return io.FLOAT32
	case "float64":
		return io.FLOAT64
	case "int16":
		return io.INT16
	case "int32":
		return io.INT32
	case "int64":
		return io.INT64
	case "uint8":
		return io.UINT8
	case "uint16":
		return io.UINT16
	case "uint32":
		return io.UINT32
	case "uint64":
		return io.UINT64
	case "byte":
		return io.BYTE
	case "bool":
		return io.BOOL
	case "string16":
		return io.STRING16
	}
	return io.NONE
}

func c14IsFloat(t string) bool { return t == "float32" || t == "float64" }

// interesting numeric values of a type, as raw bytes
func c14Value(r *rng.Rand, typ string) []byte {
	sz := mk.SizeOf(typ)
	b := make([]byte, sz)
	put := func(u uint64) {
		for i := 0; i < sz; i++ {
			b[i] = byte(u >> (8 * uint(i)))
		}
	}
	switch typ {
	case "float32":
		vals := []float32{0, 1, -1, 1.5, -2.75, 255, 256, 65535.9, -32768.5, 2147483648, 4294967296, 1e10, -1e10, 3.4e38, 1e-40,
			16777216, 16777217, 9.223372e18, 1.8446744e19, float32(math.Inf(1)), float32(math.Inf(-1)), float32(math.NaN()), 0.99999994, -0.5, 127.99, 128}
		if r.Chance(70) {
			put(uint64(math.Float32bits(vals[r.Intn(len(vals))])))
		} else {
			put(r.U64())
		}
	case "float64":
		vals := []float64{0, 1, -1, 1.5, -2.75, 255.99, 256, 65536, -32769, 2147483647.5, 2147483648, 4294967295.9, 4294967296, 9007199254740992, 9007199254740993,
			9223372036854775807, 9223372036854775808, 1.8446744073709552e19, 1e300, -1e300, 5e-324, 3.4028235677973366e38, 3.4028234663852886e38, 1.0000000596046448,
			16777217, math.Inf(1), math.Inf(-1), math.NaN(), -0.9, 0.1, 1e10, -9223372036854775808, -9223372036854777856}
		if r.Chance(70) {
			put(math.Float64bits(vals[r.Intn(len(vals))]))
		} else {
			put(r.U64())
		}
	case "bool":
		b[0] = byte(r.Intn(2))
	case "string16":
		copy(b, r.Bytes(sz))
	default: // integers: extremes, neighbours of powers of two, random
		bits := uint(8 * sz)
		var u uint64
		switch r.Intn(6) {
		case 0:
			u = 0
		case 1:
			u = ^uint64(0) // -1 / max unsigned
		case 2:
			u = uint64(1) << (bits - 1) // min signed / 2^(n-1)
		case 3:
			u = uint64(1)<<(bits-1) - 1 // max signed
		case 4: // around 2^k, the float32/float64 precision edges included
			k := []uint{7, 8, 15, 16, 23, 24, 25, 31, 32, 52, 53, 54, 62, 63}[r.Intn(14)]
			if k >= bits {
				k = bits - 1
			}
			u = uint64(1)<<k + uint64(r.Intn(5)) - 2
			if r.Chance(30) {
				u += uint64(1) << (k / 2)
			}
			if r.Bool() {
				u = -u
			}
		default:
			u = r.U64()
		}
		put(u)
	}
	return b
}

func c14Column(r *rng.Rand, name, typ string, n int) c14Col {
	var d []byte
	for i := 0; i < n; i++ {
		d = append(d, c14Value(r, typ)...)
	}
	return c14Col{name, typ, d}
}

var c14Base = time.Date(2021, 3, 1, 0, 0, 0, 0, time.UTC).Unix()

func c14Epochs(next *int, n int) c14Col {
	d := make([]byte, 8*n)
	for i := 0; i < n; i++ {
		binary.LittleEndian.PutUint64(d[8*i:], uint64(c14Base+int64(*next)*60))
		*next++
	}
	return c14Col{"Epoch", "int64", d}
}

type c14Schema struct {
	Names []string
	Types []string
}

func c14Gen(r *rng.Rand, i int, tier string) interface{} {
	in := c14In{}
	next := 0
	keys := []string{"A/1Min/G", "B/1Min/G", "C/1Min/G"}
	names := []string{"x", "y", "Open", "v"}
	schemas := map[string]c14Schema{}
	mkBucket := func(key string, mode int) c14Bucket {
		n := 1 + r.Intn(3)
		if r.Chance(5) {
			n = 0
		}
		sc, known := schemas[key]
		if !known {
			nc := 1 + r.Intn(3)
			for j := 0; j < nc; j++ {
				t := c14Num[r.Intn(len(c14Num))]
				if r.Chance(8) {
					t = c14All[r.Intn(len(c14All))]
				}
				sc.Names = append(sc.Names, names[j])
				sc.Types = append(sc.Types, t)
			}
			if n > 0 {
				schemas[key] = sc
			}
			mode = 0
		}
		b := c14Bucket{Key: key}
		b.Cols = append(b.Cols, c14Epochs(&next, n))
		cn := append([]string{}, sc.Names...)
		ct := append([]string{}, sc.Types...)
		switch mode {
		case 1: // retyped: one or all columns get another numeric type
			for j := range ct {
				if j == 0 || r.Bool() {
					ct[j] = c14Num[r.Intn(len(c14Num))]
					if r.Chance(6) {
						ct[j] = c14All[r.Intn(len(c14All))]
					}
				}
			}
		case 2: // renamed column
			cn[r.Intn(len(cn))] = "zz"
		case 3: // missing column
			k := r.Intn(len(cn))
			cn, ct = append(cn[:k], cn[k+1:]...), append(ct[:k], ct[k+1:]...)
		case 4: // extra column
			cn, ct = append(cn, "extra"), append(ct, c14Num[r.Intn(len(c14Num))])
		case 5: // reordered (+ sometimes retyped)
			if len(cn) >= 2 {
				cn[0], cn[len(cn)-1] = cn[len(cn)-1], cn[0]
				ct[0], ct[len(ct)-1] = ct[len(ct)-1], ct[0]
				if r.Chance(30) {
					ct[0] = c14Num[r.Intn(len(c14Num))]
				}
			}
		case 6: // renamed and retyped
			cn[0] = "zz"
			ct[0] = c14Num[r.Intn(len(c14Num))]
		}
		for j := range cn {
			b.Cols = append(b.Cols, c14Column(r, cn[j], ct[j], n))
		}
		if mode == 7 && len(b.Cols) >= 2 { // Epoch not first
			b.Cols[0], b.Cols[1] = b.Cols[1], b.Cols[0]
		}
		return b
	}
	nsteps := 2 + r.Intn(4)
	for s := 0; s < nsteps; s++ {
		st := c14Step{}
		nb := 1
		if r.Chance(30) {
			nb = 2 + r.Intn(2)
		}
		perm := []int{0, 1, 2}
		for j := 2; j > 0; j-- {
			k := r.Intn(j + 1)
			perm[j], perm[k] = perm[k], perm[j]
		}
		for j := 0; j < nb; j++ {
			mode := 0
			switch k := r.Intn(100); {
			case k < 35:
				mode = 0
			case k < 70:
				mode = 1
			case k < 90:
				mode = 2 + r.Intn(3)
			case k < 96:
				mode = 5
			case k < 98:
				mode = 6
			default:
				mode = 7
			}
			st.Buckets = append(st.Buckets, mkBucket(keys[perm[j]], mode))
		}
		in.Steps = append(in.Steps, st)
	}
	// a final accepted request on a bucket of its own forces the flush of whatever stayed queued
	in.Steps = append(in.Steps, c14Step{Buckets: []c14Bucket{{Key: "Z/1Min/G", Cols: []c14Col{c14Epochs(&next, 1), c14Column(r, "f", "int32", 1)}}}})
	nco := 2 + r.Intn(4)
	for j := 0; j < nco; j++ {
		src := c14Num[r.Intn(len(c14Num))]
		dst := c14Num[r.Intn(len(c14Num))]
		if r.Chance(8) {
			src = c14All[r.Intn(len(c14All))]
		}
		if r.Chance(8) {
			dst = c14All[r.Intn(len(c14All))]
		}
		in.Coerce = append(in.Coerce, c14Coerce{src, dst, c14Column(r, "c", src, r.Intn(5)).Data})
	}
	return in
}

// ---- Go's own numeric conversion, element-wise (the specification side of the oracle) ----

// goConvert returns the bytes of T_dst(v) for the element at b (type src); ok=false when the conversion is
// implementation-defined (float -> integer of a value that does not fit, NaN) or not numeric.
func goConvert(src, dst string, b []byte) (out []byte, ok bool) {
	var isF bool
	var f float64
	var i int64
	var u uint64
	var isU bool
	switch src {
	case "float32":
		isF, f = true, float64(math.Float32frombits(binary.LittleEndian.Uint32(b)))
	case "float64":
		isF, f = true, math.Float64frombits(binary.LittleEndian.Uint64(b))
	case "int16":
		i = int64(int16(binary.LittleEndian.Uint16(b)))
	case "int32":
		i = int64(int32(binary.LittleEndian.Uint32(b)))
	case "int64":
		i = int64(binary.LittleEndian.Uint64(b))
	case "byte":
		i = int64(int8(b[0]))
	case "uint8":
		isU, u = true, uint64(b[0])
	case "uint16":
		isU, u = true, uint64(binary.LittleEndian.Uint16(b))
	case "uint32":
		isU, u = true, uint64(binary.LittleEndian.Uint32(b))
	case "uint64":
		isU, u = true, binary.LittleEndian.Uint64(b)
	default:
		return nil, false
	}
	sz := mk.SizeOf(dst)
	out = make([]byte, sz)
	putU := func(x uint64) {
		for k := 0; k < sz; k++ {
			out[k] = byte(x >> (8 * uint(k)))
		}
	}
	switch dst {
	case "float32":
		var r float32
		switch {
		case isF && src == "float32":
			r = math.Float32frombits(binary.LittleEndian.Uint32(b))
		case isF:
			r = float32(f)
		case isU:
			r = float32(u)
		default:
			r = float32(i)
		}
		if r != r {
			return nil, false // NaN payloads are not compared
		}
		putU(uint64(math.Float32bits(r)))
	case "float64":
		var r float64
		switch {
		case isF:
			r = f
		case isU:
			r = float64(u)
		default:
			r = float64(i)
		}
		if r != r {
			return nil, false
		}
		putU(math.Float64bits(r))
	case "int16", "int32", "int64", "uint8", "uint16", "uint32", "uint64", "byte":
		if isF {
			t := math.Trunc(f)
			var lo, hi float64
			switch dst {
			case "int16":
				lo, hi = -32768, 32767
			case "int32":
				lo, hi = -2147483648, 2147483647
			case "int64":
				lo, hi = -9223372036854775808, 9223372036854774784 // largest float64 below 2^63
			case "byte":
				lo, hi = -128, 127
			case "uint8":
				lo, hi = 0, 255
			case "uint16":
				lo, hi = 0, 65535
			case "uint32":
				lo, hi = 0, 4294967295
			case "uint64":
				lo, hi = 0, 9223372036854774784 // the half of uint64 the theorem covers
			}
			if !(t >= lo && t <= hi) { // also false for NaN
				return nil, false
			}
			if t < 0 {
				putU(uint64(int64(t)))
			} else {
				putU(uint64(t))
			}
		} else if isU {
			putU(u)
		} else {
			putU(uint64(i))
		}
	default:
		return nil, false
	}
	return out, true
}

// ---- runner ----

type c14BucketObs struct {
	Key    string   `json:"key"`
	Exists bool     `json:"exists"`
	Cols   []c14Col `json:"cols,omitempty"`
}
type c14StepObs struct {
	Code    int            `json:"code"`
	Msg     string         `json:"msg,omitempty"`
	Queued  int            `json:"queued"`
	Buckets []c14BucketObs `json:"buckets"`
}
type c14CoerceObs struct {
	Code int    `json:"code"`
	Out  []byte `json:"out,omitempty"`
}

func c14TypeName(t io.EnumElementType) string { return strings.ToLower(t.String()) }

func c14Query(inst *catinst.Inst, key string) (o c14BucketObs) {
	o.Key = key
	tbk := io.NewTimeBucketKeyFromString(key)
	tbi, err := inst.Cat.GetLatestTimeBucketInfoFromKey(tbk)
	if err != nil {
		return o
	}
	o.Exists = true
	shapes := tbi.GetDataShapesWithEpoch()
	var csm io.ColumnSeriesMap
	code, _ := func() (int, string) {
		defer func() { recover() }()
		var e error
		csm, e = inst.QS.ExecuteQuery(tbk, time.Date(2020, 1, 1, 0, 0, 0, 0, time.UTC), time.Date(2030, 1, 1, 0, 0, 0, 0, time.UTC), 0, false, nil)
		if e != nil {
			return 1, e.Error()
		}
		return 0, ""
	}()
	var cs *io.ColumnSeries
	if code == 0 {
		for k, v := range csm {
			if k.GetItemKey() == tbk.GetItemKey() {
				cs = v
			}
		}
	}
	for _, ds := range shapes {
		c := c14Col{Name: ds.Name, Type: fmt.Sprint(int(ds.Type))}
		if cs != nil {
			c.Data = mk.Raw(cs.GetColumn(ds.Name))
		}
		o.Cols = append(o.Cols, c)
	}
	return o
}

// c14RunOnce performs the case on a fresh instance.
func c14RunOnce(in c14In) (steps []c14StepObs, err error) {
	inst, err := catinst.New()
	if err != nil {
		return nil, err
	}
	defer inst.Close()
	known := map[string]bool{}
	var order []string
	for _, st := range in.Steps {
		csm := io.NewColumnSeriesMap()
		for _, b := range st.Buckets {
			cs := io.NewColumnSeries()
			for _, c := range b.Cols {
				col, e := mk.Col(c.Type, c.Data)
				if e != nil {
					return nil, e
				}
				cs.AddColumn(c.Name, col)
			}
			csm[*io.NewTimeBucketKeyFromString(b.Key)] = cs
			if !known[b.Key] {
				known[b.Key] = true
				order = append(order, b.Key)
			}
		}
		var o c14StepObs
		o.Code, o.Msg = inst.WriteCSM(csm, false)
		o.Queued = executor.VerifQueuedWrites(inst.WF)
		for _, k := range order {
			o.Buckets = append(o.Buckets, c14Query(inst, k))
		}
		steps = append(steps, o)
	}
	return steps, nil
}

func c14CoerceOnce(c c14Coerce) (o c14CoerceObs) {
	defer func() {
		if p := recover(); p != nil {
			o = c14CoerceObs{Code: 2}
		}
	}()
	cs := io.NewColumnSeries()
	col, e := mk.Col(c.Src, c.Data)
	if e != nil {
		return c14CoerceObs{Code: 9}
	}
	cs.AddColumn("c", col)
	if err := cs.CoerceColumnType("c", c14TypeID(c.Dst)); err != nil {
		return c14CoerceObs{Code: 1}
	}
	return c14CoerceObs{Code: 0, Out: mk.Raw(cs.GetColumn("c"))}
}

// ---- oracle ----

type c14Verdict struct {
	Holds  bool
	Class  string
	Detail string
}

func colTypeIDs(cols []c14Col) map[string]string {
	m := map[string]string{}
	for _, c := range cols {
		m[c.Name] = c.Type
	}
	return m
}

// c14Oracle evaluates the property on the implementation's outputs:
//  (1) a request naming a bucket whose columns do not match the bucket's columns by name is rejected, and no row of it
//      ever shows up in any bucket (every row of the case has its own epoch);
//  (2) an accepted request's rows are stored, per column NAME, as Go's own conversion of the supplied values
//      (elements whose conversion is implementation-defined are skipped).
func c14Oracle(in c14In, steps []c14StepObs) (v c14Verdict, inDomain bool, nontrivial bool) {
	v.Holds, inDomain = true, true
	reorderedSeen := false
	fail := func(class, detail string) {
		if v.Holds {
			v.Holds, v.Class, v.Detail = false, class, detail
		}
	}
	// the schema a bucket has: that of the first accepted request that created it (read back from the implementation)
	schema := map[string][]c14Col{} // as observed: names and numeric type ids, in bucket order
	final := steps[len(steps)-1]
	finalCols := map[string]map[string][]byte{}
	finalEpochs := map[string][]int64{}
	for _, b := range final.Buckets {
		finalCols[b.Key] = map[string][]byte{}
		for _, c := range b.Cols {
			finalCols[b.Key][c.Name] = c.Data
			if c.Name == "Epoch" {
				for k := 0; k+8 <= len(c.Data); k += 8 {
					finalEpochs[b.Key] = append(finalEpochs[b.Key], int64(binary.LittleEndian.Uint64(c.Data[k:])))
				}
			}
		}
	}
	stored := func(key string, epoch int64) int {
		for idx, e := range finalEpochs[key] {
			if e == epoch {
				return idx
			}
		}
		return -1
	}
	typeName := map[string]string{}
	for _, t := range c14All {
		typeName[fmt.Sprint(int(c14TypeID(t)))] = t
	}
	for si, st := range in.Steps {
		o := steps[si]
		// bucket schemas as they were BEFORE this request
		before := map[string][]c14Col{}
		for k, s := range schema {
			before[k] = s
		}
		mismatch := false
		for _, b := range st.Buckets {
			sc, ok := before[b.Key]
			if !ok {
				continue
			}
			want := map[string]bool{}
			for _, c := range sc {
				want[c.Name] = true
			}
			have := map[string]bool{}
			for _, c := range b.Cols {
				have[c.Name] = true
			}
			if len(want) != len(have) {
				mismatch = true
			}
			for n := range want {
				if !have[n] {
					mismatch = true
				}
			}
		}
		if mismatch && len(st.Buckets) > 1 {
			inDomain = false // map order decides whether earlier buckets stay queued (F13)
		}
		if mismatch && o.Code == 0 {
			fail("", fmt.Sprintf("request %d names a bucket with mismatching column names but was accepted", si))
		}
		for _, b := range st.Buckets {
			ep := b.Cols[0]
			for _, c := range b.Cols {
				if c.Name == "Epoch" {
					ep = c
				}
			}
			nrows := len(ep.Data) / 8
			sc, had := before[b.Key]
			for row := 0; row < nrows; row++ {
				epoch := int64(binary.LittleEndian.Uint64(ep.Data[8*row:]))
				idx := stored(b.Key, epoch)
				if o.Code != 0 {
					if mismatch && idx >= 0 {
						fail("rejected-request-leaves-queued-rows", fmt.Sprintf("request %d was rejected (%s) but its row epoch=%d for bucket %s is stored after the next accepted request", si, o.Msg, epoch, b.Key))
					}
					continue
				}
				if idx < 0 {
					fail("", fmt.Sprintf("request %d was accepted but its row epoch=%d is not in bucket %s", si, epoch, b.Key))
					continue
				}
				if !had {
					continue // the request created the bucket from its own columns
				}
				// per column name: stored value = Go conversion of the supplied value
				for pos, c := range b.Cols {
					if pos < len(sc) && sc[pos].Name != c.Name {
						reorderedSeen = true
					}
				}
				bt := colTypeIDs(sc)
				for _, c := range b.Cols {
					if c.Name == "Epoch" {
						continue
					}
					dst := typeName[bt[c.Name]]
					ssz, dsz := mk.SizeOf(c.Type), mk.SizeOf(dst)
					if dsz == 0 || ssz == 0 {
						continue
					}
					want, ok := goConvert(c.Type, dst, c.Data[row*ssz:(row+1)*ssz])
					if c.Type == dst {
						want, ok = c.Data[row*ssz:(row+1)*ssz], true
					}
					if !ok {
						inDomain = inDomain && (c.Type == dst || !c14IsFloat(c.Type) || c14IsFloat(dst))
						continue
					}
					f32edge := (c.Type == "int64" || c.Type == "uint64") && dst == "float32" && c14Big53(c.Type, c.Data[row*ssz:(row+1)*ssz])
					if f32edge {
						inDomain = false
					}
					got := finalCols[b.Key][c.Name]
					if (idx+1)*dsz > len(got) || string(got[idx*dsz:(idx+1)*dsz]) != string(want) {
						class := ""
						if f32edge {
							class = "int-to-float32-double-rounding"
						}
						fail(class, fmt.Sprintf("request %d bucket %s column %s (%s -> %s) row epoch=%d: stored %x, Go conversion gives %x",
							si, b.Key, c.Name, c.Type, dst, epoch, sliceOr(got, idx*dsz, (idx+1)*dsz), want))
					} else if c.Type != dst {
						nontrivial = true
					}
				}
			}
		}
		// adopt the schemas of buckets this request created
		for _, bo := range o.Buckets {
			if _, ok := schema[bo.Key]; !ok && bo.Exists {
				schema[bo.Key] = bo.Cols
			}
		}
	}
	_ = reorderedSeen
	return v, inDomain, nontrivial
}

func sliceOr(b []byte, lo, hi int) []byte {
	if lo < 0 || hi > len(b) {
		return nil
	}
	return b[lo:hi]
}

// |v| >= 2^53 for an int64/uint64 element
func c14Big53(typ string, b []byte) bool {
	u := binary.LittleEndian.Uint64(b)
	if typ == "uint64" {
		return u >= 1<<53
	}
	i := int64(u)
	return i >= 1<<53 || i <= -(1<<53)
}

func c14Run(raw json.RawMessage) (res Result, err error) {
	var in c14In
	if err = json.Unmarshal(raw, &in); err != nil {
		return
	}
	if len(in.Steps) == 0 {
		return res, fmt.Errorf("no steps")
	}
	var steps []c14StepObs
	var v c14Verdict
	var inDom, nontriv bool
	tries := 1 + in.Retry
	for t := 0; t < tries; t++ {
		steps, err = c14RunOnce(in)
		if err != nil {
			return res, err
		}
		v, inDom, nontriv = c14Oracle(in, steps)
		if !v.Holds {
			break
		}
	}
	var cobs []c14CoerceObs
	var cf [][]byte
	for _, c := range in.Coerce {
		o := c14CoerceOnce(c)
		cobs = append(cobs, o)
		cf = append(cf, dec(int(c14TypeID(c.Src))), dec(int(c14TypeID(c.Dst))), c.Data, dec(o.Code), o.Out)
		// the property on stand-alone coercions: in-range numeric conversions agree with Go's own
		if o.Code == 0 {
			ssz, dsz := mk.SizeOf(c.Src), mk.SizeOf(c.Dst)
			for k := 0; ssz > 0 && dsz > 0 && (k+1)*ssz <= len(c.Data); k++ {
				want, ok := goConvert(c.Src, c.Dst, c.Data[k*ssz:(k+1)*ssz])
				if !ok {
					continue
				}
				edge := (c.Src == "int64" || c.Src == "uint64") && c.Dst == "float32" && c14Big53(c.Src, c.Data[k*ssz:(k+1)*ssz])
				if edge {
					inDom = false
				}
				if (k+1)*dsz > len(o.Out) || string(o.Out[k*dsz:(k+1)*dsz]) != string(want) {
					if v.Holds {
						v.Holds = false
						v.Detail = fmt.Sprintf("CoerceColumnType %s -> %s of %x gives %x, Go conversion gives %x", c.Src, c.Dst, c.Data[k*ssz:(k+1)*ssz], sliceOr(o.Out, k*dsz, (k+1)*dsz), want)
						if edge {
							v.Class = "int-to-float32-double-rounding"
						}
					}
				} else if c.Src != c.Dst {
					nontriv = true
				}
			}
		}
	}
	// Coq case
	var coqSteps []string
	prevObs := map[string]string{}
	for si, st := range in.Steps {
		o := steps[si]
		f := [][]byte{dec(o.Code), dec(o.Queued), dec(len(st.Buckets))}
		for _, b := range st.Buckets {
			f = append(f, []byte(b.Key), dec(len(b.Cols)))
			for _, c := range b.Cols {
				f = append(f, []byte(c.Name), dec(int(c14TypeID(c.Type))), c.Data)
			}
		}
		// only the buckets whose observation changed since the previous request; the last request lists all
		var changed []c14BucketObs
		for _, b := range o.Buckets {
			cur := fmt.Sprint(b)
			if si == len(in.Steps)-1 || prevObs[b.Key] != cur {
				changed = append(changed, b)
			}
			prevObs[b.Key] = cur
		}
		f = append(f, dec(len(changed)))
		for _, b := range changed {
			f = append(f, []byte(b.Key), b01(b.Exists), dec(len(b.Cols)))
			for _, c := range b.Cols {
				f = append(f, []byte(c.Name), []byte(c.Type), c.Data)
			}
		}
		coqSteps = append(coqSteps, cqBlob(f))
	}
	res.Coq = cq.Rec(cq.F("k_steps", cq.List(coqSteps)), cq.F("k_coerce", cqBlob(cf)))
	res.Obs = map[string]interface{}{"steps": steps, "coerce": cobs}
	res.Holds, res.Class, res.Detail = v.Holds, v.Class, v.Detail
	res.InDomain = inDom
	res.Nontrivial = inDom && nontriv
	// tags
	tags := map[string]bool{}
	for si, st := range in.Steps {
		tags[fmt.Sprintf("request:code=%d", steps[si].Code)] = true
		if len(st.Buckets) > 1 {
			tags["multi-bucket-request"] = true
		}
		if steps[si].Queued > 0 {
			tags["rows-left-queued"] = true
		}
	}
	for _, c := range in.Coerce {
		tags["coerce:"+c.Src+"->"+c.Dst] = true
	}
	if inDom {
		tags["in-domain"] = true
	} else {
		tags["outside-domain"] = true
	}
	if !v.Holds {
		tags["oracle-failed:"+v.Class] = true
	}
	for t := range tags {
		res.Tags = append(res.Tags, t)
	}
	sort.Strings(res.Tags)
	res.Key = string(raw)
	return res, nil
}

func init() {
	Register(&Spec{
		ID:          "C14",
		CoqRequire:  "Require Import MS.Corr.C14.",
		CoqCaseType: "C14.case",
		Rule: "3-6 write requests of 1-3 buckets each on a fresh real instance (the first write of a key creates the bucket; later ones are " +
			"unchanged / retyped / renamed / missing / extra / reordered column sets, 0-3 rows, boundary-heavy values of all numeric types, some bool/string16), " +
			"always ending with an accepted request that forces a flush; after every request: code, commands left in the pipe, every bucket's content via " +
			"ExecuteQuery; plus 2-5 stand-alone CoerceColumnType calls over all type pairs; distinct = distinct input JSON; non-trivial = inside the guards and " +
			"at least one value stored/converted through a real type change",
		Gen: c14Gen,
		Run: c14Run,
	})
}
