package props

import (
	"encoding/json"
	"fmt"
	"sort"
	"time"

	"github.com/alpacahq/marketstore/v4/planner"
	"github.com/alpacahq/marketstore/v4/utils"
	"github.com/alpacahq/marketstore/v4/utils/io"

	"verifharness/internal/cq"
	"verifharness/internal/fxinst"
	"verifharness/internal/mk"
	"verifharness/internal/rng"
)

// C08 — Fixed-length buckets behave like last-writer-wins interval maps.
// Implementation under test: Writer.WriteCSM -> WriteRecords -> (synchronous) FlushToWAL ->
// writeFixedBuffer/WriteBufferToFile, catalog year files, QueryService.ExecuteQuery -> planner.Parse ->
// executor.NewReader/Read (NewIOPlan, readForward, packingReader) on a REAL instance in a temp root.

type fxRow struct {
	T int64  `json:"t"` // epoch second
	P []byte `json:"p"` // row payload: concatenated little-endian column values
}
type c08In struct {
	TF     string       `json:"tf"`
	Cols   []fxinst.Col `json:"cols"`
	Create int          `json:"create"` // 0: bucket created by the first WriteCSM; else year of an explicit AddTimeBucket
	Reqs   [][]fxRow    `json:"reqs"`
}

var fxTFs = []string{"1Sec", "10Sec", "30Sec", "1Min", "5Min", "15Min", "30Min", "1H", "2H", "4H", "1D"}
var fxYears = []int{1970, 1971, 1999, 2000, 2004, 2016, 2017, 2018, 2019, 2020, 2023, 2024, 2038, 2099, 2100}
var fxColNames = []string{"Open", "High", "Low", "Close", "Volume", "Bid", "Ask", "x", "A", "b1", "Ticks", "V2"}

func fxTfSeconds(tf string) int64 {
	t := utils.TimeframeFromString(tf)
	if t == nil {
		return 0
	}
	return int64(t.Duration / time.Second)
}

func fxIsLeap(y int) bool { return y%4 == 0 && (y%100 != 0 || y%400 == 0) }

func fxJan1(y int) int64 { return time.Date(y, 1, 1, 0, 0, 0, 0, time.UTC).Unix() }

// fxEdgeTime draws a timestamp of year y, mostly from the edges the property names.
func fxEdgeTime(r *rng.Rand, tfs int64, y int) int64 {
	j := fxJan1(y)
	ylen := fxJan1(y+1) - j
	within := func(start int64) int64 { // a second inside the interval starting at start
		switch r.Intn(4) {
		case 0:
			return start
		case 1:
			return start + tfs - 1
		case 2:
			return start + r.Range(0, tfs-1)
		}
		return start + 1%tfs
	}
	date := func(m time.Month, d, h, mi, s int) int64 { return time.Date(y, m, d, h, mi, s, 0, time.UTC).Unix() }
	floor := func(t int64) int64 { return j + (t-j)/tfs*tfs }
	switch r.Intn(12) {
	case 0:
		return within(j) // first interval of the year
	case 1:
		return within(j + tfs) // second interval
	case 2:
		return within(j + ylen - tfs) // last interval of the year
	case 3:
		return within(j + ylen - 2*tfs)
	case 4:
		return within(floor(date(2, 28, 23, 59, 59)))
	case 5:
		return within(floor(date(2, 29, 12, 0, 0))) // Feb 29 (or Mar 1 in a common year)
	case 6:
		return within(floor(date(3, 1, 0, 0, 0)))
	case 7:
		return within(floor(date(12, 31, 0, 0, 0)))
	case 8:
		return within(floor(date(1, 2, 0, 0, 0)))
	}
	return within(floor(j + r.Range(0, ylen-1)))
}

func fxSchema(r *rng.Rand, maxPayload int) []fxinst.Col {
	for {
		n := 1 + r.Intn(4)
		var cols []fxinst.Col
		used := map[string]bool{}
		for len(cols) < n {
			name := fxColNames[r.Intn(len(fxColNames))]
			if used[name] {
				continue
			}
			used[name] = true
			cols = append(cols, fxinst.Col{Name: name, Type: mk.TypeNames[r.Intn(len(mk.TypeNames))]})
		}
		if fxinst.PayloadLen(cols) <= maxPayload {
			return cols
		}
	}
}

func fxPayload(r *rng.Rand, cols []fxinst.Col, tag byte) []byte {
	n := fxinst.PayloadLen(cols)
	var p []byte
	switch r.Intn(4) {
	case 0:
		p = r.Bytes(n)
	case 1:
		p = make([]byte, n)
		for i := range p {
			p[i] = 0xff
		}
	case 2:
		p = make([]byte, n)
		p[0] = tag
	default:
		p = make([]byte, n)
		for i := range p {
			p[i] = tag
		}
	}
	fxinst.NormalizePayload(cols, p)
	return p
}

func c08Gen(r *rng.Rand, i int, tier string) interface{} {
	in := c08In{TF: fxTFs[r.Intn(len(fxTFs))]}
	if r.Chance(12) {
		in.TF = "1D" // the daily Jan-1 class needs weight
	}
	tfs := fxTfSeconds(in.TF)
	maxPayload := 200
	if tfs < 60 {
		maxPayload = 16 // year files of sub-minute buckets are scanned slot by slot: keep them narrow
	}
	in.Cols = fxSchema(r, maxPayload)
	// years used by this case
	ny := 1 + r.Intn(3)
	if tfs < 60 && ny > 2 {
		ny = 2
	}
	var years []int
	for len(years) < ny {
		y := fxYears[r.Intn(len(fxYears))]
		if r.Chance(40) && len(years) > 0 {
			y = years[0] + 1 // adjacent years: the year boundary
		}
		dup := false
		for _, x := range years {
			dup = dup || x == y
		}
		if !dup && y <= 2100 {
			years = append(years, y)
		}
	}
	if r.Chance(10) {
		in.Create = fxYears[r.Intn(len(fxYears))]
	}
	// a small pool of timestamps so that duplicates within and across requests are frequent
	npool := 2 + r.Intn(8)
	pool := make([]int64, npool)
	for k := range pool {
		pool[k] = fxEdgeTime(r, tfs, years[r.Intn(len(years))])
	}
	nreq := 1 + r.Intn(4)
	tag := byte(1)
	for q := 0; q < nreq; q++ {
		nrows := 1 + r.Intn(10)
		if r.Chance(4) {
			nrows = 100 + r.Intn(60) // >= batchThreshold writes to one file: the buffile path
		}
		if r.Chance(3) {
			nrows = 0
		}
		var rows []fxRow
		for k := 0; k < nrows; k++ {
			t := pool[r.Intn(npool)]
			if nrows >= 100 || r.Chance(20) {
				t = fxEdgeTime(r, tfs, years[r.Intn(len(years))])
			}
			rows = append(rows, fxRow{T: t, P: fxPayload(r, in.Cols, tag)})
			tag++
		}
		switch r.Intn(3) {
		case 0:
			sort.SliceStable(rows, func(a, b int) bool { return rows[a].T < rows[b].T })
		case 1:
			sort.SliceStable(rows, func(a, b int) bool { return rows[a].T > rows[b].T })
		}
		if r.Chance(8) && len(years) >= 2 {
			// the prevYear pattern: [Y0 slot s; Y1 slot s'; Y0 slot s'] (same offset within the year)
			y0, y1 := years[0], years[1]
			d1 := r.Range(0, 300*86400/tfs) * tfs
			d2 := r.Range(0, 300*86400/tfs) * tfs
			rows = append([]fxRow{
				{T: fxJan1(y0) + d1, P: fxPayload(r, in.Cols, tag)},
				{T: fxJan1(y1) + d2, P: fxPayload(r, in.Cols, tag+1)},
				{T: fxJan1(y0) + d2, P: fxPayload(r, in.Cols, tag+2)},
			}, rows...)
			tag += 3
		}
		in.Reqs = append(in.Reqs, rows)
	}
	return in
}

type fxObsRow struct {
	T int64  `json:"t"`
	P []byte `json:"p"`
}
type c08Obs struct {
	RecLen  int        `json:"reclen"`
	QTfs    int64      `json:"qtfs"`
	Code    int        `json:"code"`
	Err     string     `json:"err,omitempty"`
	Rows    []fxObsRow `json:"rows"`
	WriteOK bool       `json:"write_ok"`
}

func fxCoqRows(rows []fxRow) string {
	var l []string
	for _, x := range rows {
		l = append(l, cq.Tuple(cq.Z(x.T), cq.Hex(x.P)))
	}
	return cq.List(l)
}

// fxWrite writes one request through the real Writer.WriteCSM (fixed-length).
func fxWrite(in *fxinst.Inst, key string, cols []fxinst.Col, rows []fxRow, variable bool) error {
	eps := make([]int64, len(rows))
	ps := make([][]byte, len(rows))
	for i, x := range rows {
		eps[i], ps[i] = x.T, x.P
	}
	cs, err := fxinst.BuildCS(cols, eps, ps)
	if err != nil {
		return err
	}
	csm := io.NewColumnSeriesMap()
	csm.AddColumnSeries(*io.NewTimeBucketKey(key), cs)
	return in.W.WriteCSM(csm, variable)
}

// fxMisfire recognises the request pattern on which the pre-49eddda WriteRecords merged a row into a command of another
// year (`prevYear` was never updated; class prevyear-misfire, now fixed). Used for the input-distribution tags only.
func fxMisfire(tfs int64, rows []fxRow) bool {
	if len(rows) == 0 {
		return false
	}
	yearOf := func(t int64) int { return time.Unix(t, 0).UTC().Year() }
	idxOf := func(t int64) int64 {
		j := fxJan1(yearOf(t))
		if tfs == 86400 {
			return (t - j) / 86400
		}
		return 1 + (t-j)/tfs
	}
	y0 := yearOf(rows[0].T)
	prevIndex, ccy := idxOf(rows[0].T), y0
	for _, x := range rows[1:] {
		idx, y := idxOf(x.T), yearOf(x.T)
		if idx == prevIndex && y == y0 {
			if ccy != y0 {
				return true
			}
			continue
		}
		prevIndex, ccy = idx, y
	}
	return false
}

func c08Run(raw json.RawMessage) (res Result, err error) {
	var in c08In
	if err = json.Unmarshal(raw, &in); err != nil {
		return
	}
	tfs := fxTfSeconds(in.TF)
	if tfs == 0 || len(in.Cols) == 0 {
		return res, fmt.Errorf("bad input")
	}
	inst, err := fxinst.New()
	if err != nil {
		return res, err
	}
	defer inst.Close()
	key := "SYM/" + in.TF + "/ATT"
	tbk := io.NewTimeBucketKey(key)
	obs := c08Obs{WriteOK: true}
	func() {
		defer func() {
			if p := recover(); p != nil {
				obs.Code, obs.Err = 2, fmt.Sprint(p)
			}
		}()
		if in.Create != 0 {
			if e := inst.Create(key, fxinst.Shapes(in.Cols), io.FIXED, int16(in.Create)); e != nil {
				obs.WriteOK, obs.Err = false, e.Error()
				return
			}
		}
		for _, rq := range in.Reqs {
			if e := fxWrite(inst, key, in.Cols, rq, false); e != nil {
				obs.WriteOK, obs.Err = false, e.Error()
				return
			}
		}
		if tbi, e := inst.Cat.GetLatestTimeBucketInfoFromKey(tbk); e == nil {
			obs.RecLen = int(tbi.GetRecordLength())
		} else {
			obs.RecLen = int(io.AlignedSize(fxinst.PayloadLen(in.Cols))) + 8
		}
		if cd, e := utils.CandleDurationFromString(in.TF); e == nil {
			obs.QTfs = fxTfSeconds(cd.QueryableTimeframe())
		}
		csm, e := inst.Q.ExecuteQuery(io.NewTimeBucketKey(key), time.Unix(0, 0).UTC(), planner.MaxTime, 0, false, nil)
		if e != nil {
			obs.Code, obs.Err = 1, e.Error()
			return
		}
		for _, cs := range csm {
			eps, ps, _, _ := fxinst.Rows(cs)
			for i := range eps {
				obs.Rows = append(obs.Rows, fxObsRow{eps[i], ps[i]})
			}
		}
	}()
	if !obs.WriteOK {
		return res, fmt.Errorf("write failed: %s", obs.Err)
	}
	res.Obs = obs
	var coqReqs, coqRows, coqCreate []string
	for _, rq := range in.Reqs {
		coqReqs = append(coqReqs, fxCoqRows(rq))
	}
	for _, x := range obs.Rows {
		coqRows = append(coqRows, cq.Tuple(cq.Z(x.T), cq.Hex(x.P)))
	}
	if in.Create != 0 {
		coqCreate = append(coqCreate, cq.Z(int64(in.Create)))
	}
	res.Coq = cq.Rec(cq.F("k_tfs", cq.Z(tfs)), cq.F("k_reclen", cq.Z(int64(obs.RecLen))), cq.F("k_create", cq.List(coqCreate)),
		cq.F("k_reqs", cq.List(coqReqs)), cq.F("k_qtfs", cq.Z(obs.QTfs)), cq.F("k_code", cq.Nat(obs.Code)), cq.F("k_rows", cq.List(coqRows)))

	// ---- the property's oracle, computed independently of the model: last-writer-wins interval map ----
	want := map[int64][]byte{}
	nrows, jan1Daily, misfire := 0, false, false
	yearsSeen := map[int]bool{}
	for _, rq := range in.Reqs {
		for _, x := range rq {
			want[x.T-x.T%tfs] = x.P // interval start (UTC; every supported timeframe divides a day)
			nrows++
			tt := time.Unix(x.T, 0).UTC()
			yearsSeen[tt.Year()] = true
			if tfs == 86400 && tt.YearDay() == 1 {
				jan1Daily = true
			}
		}
		if fxMisfire(tfs, rq) {
			misfire = true
		}
	}
	var keys []int64
	for k := range want {
		keys = append(keys, k)
	}
	sort.Slice(keys, func(a, b int) bool { return keys[a] < keys[b] })
	res.Holds = true
	if nrows > 0 {
		if obs.Code != 0 {
			res.Holds, res.Detail = false, fmt.Sprintf("all-time query failed (code %d): %s", obs.Code, obs.Err)
		} else if len(obs.Rows) != len(keys) {
			res.Holds, res.Detail = false, fmt.Sprintf("%d rows returned for %d written intervals", len(obs.Rows), len(keys))
		} else {
			for i, k := range keys {
				if obs.Rows[i].T != k || string(obs.Rows[i].P) != string(want[k]) {
					res.Holds = false
					res.Detail = fmt.Sprintf("row %d: got epoch %d, want interval start %d with the last written values", i, obs.Rows[i].T, k)
					break
				}
			}
		}
	}
	requeried := obs.QTfs != tfs
	if !res.Holds {
		switch {
		case requeried:
			res.Class = "timeframe-requeried-as-other"
		case jan1Daily:
			res.Class = "daily-jan1-index0"
		}
	}
	res.InDomain = nrows > 0 && in.Create == 0 && !requeried && !jan1Daily
	res.Tags = []string{"tf:" + in.TF, fmt.Sprintf("cols=%d", len(in.Cols)), fmt.Sprintf("reqs=%d", len(in.Reqs)),
		fmt.Sprintf("rows=%d", bucket(nrows)), fmt.Sprintf("years=%d", len(yearsSeen)), fmt.Sprintf("code=%d", obs.Code)}
	for _, c := range in.Cols {
		res.Tags = append(res.Tags, "type:"+c.Type)
	}
	if len(want) < nrows {
		res.Tags = append(res.Tags, "duplicate-intervals")
	}
	if jan1Daily {
		res.Tags = append(res.Tags, "daily-jan1")
	}
	if misfire {
		res.Tags = append(res.Tags, "prevyear-pattern") // the pre-49eddda misfire pattern (class prevyear-misfire, fixed)
	}
	if in.Create != 0 {
		res.Tags = append(res.Tags, "explicit-create")
	}
	if res.InDomain {
		res.Tags = append(res.Tags, "in-domain")
	}
	res.Nontrivial = res.InDomain && nrows >= 2
	res.Key = string(raw)
	return res, nil
}

func init() {
	Register(&Spec{
		ID:          "C08",
		CoqRequire:  "Require Import MS.Corr.C08.",
		CoqCaseType: "C08.case",
		Rule: "one fixed bucket per case on a real instance: timeframe from utils.Timeframes (1Sec..1D), 1-4 columns over all 12 fixed-width " +
			"types, 1-4 write requests of 0-10 rows (4%: 100-160 rows, the buffile path), timestamps in 1-3 years (often adjacent) drawn from " +
			"edges (first/second/last interval of a year, Feb 28/29, Mar 1, Dec 31, Jan 2) and a small pool so that duplicates are frequent, " +
			"sorted / reverse / unsorted; 8% carry the prevYear pattern, 10% an explicitly created bucket of another year; " +
			"distinct = distinct input JSON; non-trivial = inside the theorem's guard with >= 2 rows",
		Gen: c08Gen,
		Run: c08Run,
	})
}
