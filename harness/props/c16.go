package props

import (
	"encoding/json"
	"fmt"
	"path"
	"path/filepath"
	"strings"

	"verifharness/internal/catinst"
	"verifharness/internal/cq"
	"verifharness/internal/rng"
)

// C16 — No request can touch files outside the data root.
// Implementation under test: frontend.DataService.Create / Destroy / Query and executor.Writer.WriteCSM
// on a real instance in a sandbox; the whole sandbox is snapshotted before and after every request.

type c16In struct {
	Ops   []CatOp     `json:"ops"`
	Paths [][2]string `json:"paths,omitempty"` // extra string pairs for the lexical path functions
}

// ---- generator ----

var c16Syms = []string{"A", "B", "AAPL", "x y", "é", "a.b", "-", "A,B", "*"}
var c16Tfs = []string{"1Min", "1Min", "5Min", "1D", "1Sec", "1H"}
var c16Grps = []string{"OHLCV", "TICK", "G"}
var c16Odd = []string{"..", "..", ".", "", "...", "category_name", "metadata.db", "2020.bin", "x", "Min", "0Min", "WALFile.x.walfile"}
var c16Cats = []string{"", "Symbol/Timeframe/AttributeGroup", "A/Symbol/Timeframe/AttributeGroup", "Symbol/X/Timeframe/AttributeGroup",
	"Symbol/Timeframe", "Timeframe/Symbol/AttributeGroup", "Symbol/Timeframe/AttributeGroup/Y/Z", "Timeframe"}

func pick(r *rng.Rand, l []string) string { return l[r.Intn(len(l))] }

// minDepth is the lowest level the walk over the items reaches relative to its start (” and '.' stay, '..' goes up,
// anything else goes down).
func minDepth(items []string) int {
	d, lo := 0, 0
	for _, it := range items {
		switch it {
		case "", ".":
		case "..":
			d--
		default:
			d++
		}
		if d < lo {
			lo = d
		}
	}
	return lo
}

// limitDotDot keeps every key from climbing more than three levels above the root (the data root is four levels
// below the sandbox): surplus ".." components are replaced.
func limitDotDot(items []string) []string {
	for i := range items {
		if items[i] == ".." && minDepth(items[:i+1]) < -3 {
			items[i] = "dd"
		}
	}
	return items
}

func c16Key(r *rng.Rand, hostile bool) string {
	items := []string{pick(r, c16Syms[:3]), pick(r, c16Tfs), pick(r, c16Grps[:2])}
	cat := ""
	if r.Chance(30) {
		cat = "Symbol/Timeframe/AttributeGroup"
	}
	if hostile {
		switch r.Intn(12) {
		case 10, 11: // MORE items than categories, the surplus a run of ".." long enough to climb above the root
			if r.Bool() {
				items = append(items, pick(r, []string{"x", "extra", "2020.bin"}))
			}
			n := len(items) + 1 + r.Intn(3)
			for j := 0; j < n; j++ {
				items = append(items, "..")
			}
			if r.Chance(70) {
				cat = "Symbol/Timeframe/AttributeGroup"
			}
		case 8: // the symbol climbs out of the root
			items[0] = ".."
		case 9: // down one, up two: the category key keeps the timeframe reachable
			items = append([]string{pick(r, c16Syms[:3]), "..", ".."}, items...)
			cat = "X/Y/Z/Symbol/Timeframe/AttributeGroup"
		case 0: // odd symbol
			items[0] = pick(r, c16Odd)
		case 1: // an odd component inserted somewhere, category key extended to keep the timeframe reachable
			k := r.Intn(4)
			odd := pick(r, c16Odd)
			items = append(items[:k], append([]string{odd}, items[k:]...)...)
			cats := []string{"Symbol", "Timeframe", "AttributeGroup"}
			cats = append(cats[:k], append([]string{"X"}, cats[k:]...)...)
			cat = strings.Join(cats, "/")
		case 2: // several odd components
			n := 1 + r.Intn(3)
			for j := 0; j < n; j++ {
				k := r.Intn(len(items) + 1)
				items = append(items[:k], append([]string{pick(r, c16Odd)}, items[k:]...)...)
			}
			cat = pick(r, c16Cats)
		case 3: // trailing climb
			n := 1 + r.Intn(3)
			for j := 0; j < n; j++ {
				items = append(items, "..")
			}
			cat = pick(r, c16Cats)
		case 4: // absolute-looking
			items = append([]string{""}, items...)
			if r.Bool() {
				cat = "A/Symbol/Timeframe/AttributeGroup"
			}
		case 5: // odd category key only
			cat = pick(r, c16Cats)
		case 6: // odd symbol from the wider pool, odd timeframe
			items[0] = pick(r, c16Syms)
			if r.Bool() {
				items[1] = pick(r, c16Odd)
			}
		default: // fewer components
			items = items[:1+r.Intn(2)]
			cat = pick(r, c16Cats)
		}
	}
	key := strings.Join(limitDotDot(items), "/")
	if cat != "" || r.Chance(10) {
		key += ":" + cat
	}
	if hostile && r.Chance(5) {
		key += ":extra"
	}
	return key
}

func c16Gen(r *rng.Rand, i int, tier string) interface{} {
	in := c16In{}
	nops := 1 + r.Intn(6)
	hostileRun := r.Chance(65)
	var keys []string
	for j := 0; j < nops; j++ {
		var key string
		if len(keys) > 0 && r.Chance(60) {
			key = keys[r.Intn(len(keys))] // revisit a key: destroy/write what was created
			if r.Chance(15) {             // ... through a different spelling of the category part
				key = strings.Split(key, ":")[0]
			}
		} else {
			key = c16Key(r, hostileRun && r.Chance(70))
			keys = append(keys, key)
		}
		op := CatOp{Key: key}
		switch k := r.Intn(10); {
		case k < 4:
			op.Op = "create"
			if !strings.Contains(key, ":") && r.Chance(90) {
				op.Key = key + ":Symbol/Timeframe/AttributeGroup" // Create demands exactly one ':'
			}
		case k < 7:
			op.Op = "write"
			n := 1 + r.Intn(3)
			for q := 0; q < n; q++ {
				op.Years = append(op.Years, []int{2021, 2022, 2023, 2021, 1999, 70000}[r.Intn(6)])
			}
			if r.Chance(5) {
				op.Years = nil
			}
		case k < 9:
			op.Op = "destroy"
		default:
			op.Op = "query"
		}
		if r.Chance(10) {
			op.Schema = 1 + r.Intn(2)
		}
		in.Ops = append(in.Ops, op)
	}
	np := 1 + r.Intn(2)
	alphabet := []string{"a", "b", "..", ".", "", "/", "//", "x.bin", ".bin", "c/d", "../e", "/f", "g/", "2020.bin"}
	for j := 0; j < np; j++ {
		mk := func() string {
			s := ""
			n := r.Intn(5)
			for q := 0; q < n; q++ {
				s += alphabet[r.Intn(len(alphabet))]
				if r.Chance(60) {
					s += "/"
				}
			}
			return s
		}
		in.Paths = append(in.Paths, [2]string{mk(), mk()})
	}
	return in
}

// climbs reports whether the item part of a key would leave its starting directory if it were joined into a path
// (” and '.' stay, '..' goes up, anything else goes down).  Since the fix "AddTimeBucket validates the items of the
// key" such keys are rejected; the predicate only tags the input distribution.
func climbs(key string) bool {
	item := strings.Split(key, ":")[0]
	d := 0
	for _, c := range strings.Split(item, "/") {
		switch c {
		case "", ".":
		case "..":
			if d == 0 {
				return true
			}
			d--
		default:
			d++
		}
	}
	return false
}

func c16Run(raw json.RawMessage) (res Result, err error) {
	var in c16In
	if err = json.Unmarshal(raw, &in); err != nil {
		return
	}
	// safety net of the sandbox: refuse keys that could climb out of it
	for _, op := range in.Ops {
		if minDepth(strings.Split(strings.Split(op.Key, ":")[0], "/")) < -3 {
			return res, fmt.Errorf("key %q climbs more than three levels above the root (the sandbox is four levels deep)", op.Key)
		}
	}
	res.Holds = true
	obs, coqOps, coqObs, err := catRun(in.Ops, false, func(i int, op CatOp, o *catStepObs) {
		if len(o.Outside) > 0 && res.Holds {
			res.Holds = false
			res.Detail = fmt.Sprintf("op %d (%s %q) changed the file system outside the root: %s", i, op.Op, op.Key, strings.Join(o.Outside, ", "))
		}
	})
	if err != nil {
		return res, err
	}
	// lexical path functions
	type pobs struct{ A, B, Join, PJoin, Clean, Dir, Base string }
	var pl []pobs
	var pf [][]byte
	for _, p := range in.Paths {
		a, b := p[0], p[1]
		po := pobs{a, b, filepath.Join(a, b), path.Join(a, b), filepath.Clean(a), path.Dir(a), filepath.Base(a)}
		pl = append(pl, po)
		pf = append(pf, []byte(a), []byte(b), []byte(po.Join), []byte(po.PJoin), []byte(po.Clean), []byte(po.Dir), []byte(po.Base),
			b01(filepath.Ext(po.Base) == ".bin"))
		sp := strings.Split(a, "/")
		pf = append(pf, dec(len(sp)))
		for _, c := range sp {
			pf = append(pf, []byte(c))
		}
	}
	res.Obs = map[string]interface{}{"steps": obs, "paths": pl}
	res.Coq = cq.Rec(cq.F("k_root", cq.Hex([]byte(catinst.ModelRoot))), cq.F("k_ops", cq.List(coqOps)), cq.F("k_obs", cq.List(coqObs)),
		cq.F("k_paths", cqBlob(pf)))
	res.InDomain = true // the theorem holds for all keys
	// tags
	nMut := 0
	for i, op := range in.Ops {
		res.Tags = append(res.Tags, fmt.Sprintf("%s:code=%d", op.Op, obs[i].Code))
		if obs[i].Code == 0 && op.Op != "query" {
			nMut++
		}
		if (op.Op == "create" || op.Op == "write") && climbs(op.Key) {
			res.Tags = append(res.Tags, "climbing-key")
		} else if strings.Contains(strings.Split(op.Key, ":")[0], "..") || strings.Contains(op.Key, "//") || strings.HasPrefix(op.Key, "/") {
			res.Tags = append(res.Tags, "odd-key")
		}
	}
	if !res.Holds {
		res.Tags = append(res.Tags, "escaped")
	}
	res.Nontrivial = nMut >= 1
	res.Key = string(raw)
	return res, nil
}

func init() {
	Register(&Spec{
		ID:          "C16",
		CoqRequire:  "Require Import MS.Corr.C16.",
		CoqCaseType: "C16.case",
		Rule: "1-6 requests (create via DataService.Create, write via Writer.WriteCSM incl. auto-create and new-year files, destroy via " +
			"DataService.Destroy, query) on a fresh instance in a sandbox whose data root is four levels deep; ~45% of the runs use hostile keys " +
			"('..', '.', empty, absolute-looking, extra/missing components, reserved names, odd category keys; at most three '..' per key); the whole " +
			"sandbox is listed after every request; plus 2-4 random string pairs for the lexical path functions; distinct = distinct input JSON; " +
			"non-trivial = at least one successful mutating request",
		Gen: c16Gen,
		Run: c16Run,
	})
}
