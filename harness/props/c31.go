package props

import (
	"encoding/json"
	"fmt"
	"regexp"
	"strconv"
	"time"

	"github.com/alpacahq/marketstore/v4/utils"

	"verifharness/internal/cq"
	"verifharness/internal/rng"
	"verifharness/internal/tzd"
)

// C31 — Timeframe and candle-window arithmetic is consistent.
// Implementation under test: utils.CandleDurationFromString, (*CandleDuration).Truncate / Ceil / IsWithin /
// QueryableTimeframe / Duration, utils.TimeframeFromString, utils.TimeframeFromDuration.

type c31In struct {
	Str   string `json:"str"`   // candle duration string
	Zone  string `json:"zone"`  // location of the timestamps
	Sec   int64  `json:"sec"`   // ts
	Nsec  int64  `json:"nsec"`
	Other int64  `json:"other"` // second start instant = ts + Other ns
	TFStr string `json:"tfstr"` // TimeframeFromString argument
	Dur   int64  `json:"dur"`   // TimeframeFromDuration argument
}

var c31Zones = []string{"UTC", "America/New_York", "Europe/London", "Asia/Tokyo", "Australia/Sydney", "Asia/Kolkata",
	"America/Sao_Paulo", "Pacific/Apia", "Asia/Kathmandu", "fixed:3600", "fixed:-18000", "fixed:0", "America/Los_Angeles"}
var c31Suffix = []string{"Sec", "Min", "H", "D", "W", "M", "Y"}
var c31DefNames = []string{"S", "Sec", "T", "Min", "H", "D", "W", "Y"}
var c31Noise = []string{"", "", "", "x", " ", "a1", "7", "Se", "Mi", "M", "1", "-", "+", "0", "S", "T", "_", "1D"}

func c31Mult(r *rng.Rand) string {
	if r.Chance(35) {
		return "1" // the unit candles (1W is the only W covered by the window theorem)
	}
	switch k := r.Intn(20); {
	case k < 12:
		return strconv.Itoa(1 + r.Intn(120))
	case k < 14:
		return strconv.Itoa(r.Intn(3)) // 0,1,2
	case k < 15:
		return "0" + strconv.Itoa(r.Intn(100)) // leading zero
	case k < 16:
		return []string{"2147483647", "2147483648", "9223372036", "9223372036854775807", "9223372036854775808", "99999999999999999999", "292", "293", "106752", "15251"}[r.Intn(10)]
	default:
		return strconv.Itoa(1 + r.Intn(100000))
	}
}

func c31CandleStr(r *rng.Rand) string {
	s := c31Mult(r) + c31Suffix[r.Intn(len(c31Suffix))]
	switch k := r.Intn(12); {
	case k == 0:
		return c31Noise[r.Intn(len(c31Noise))] + s
	case k == 1:
		return s + c31Noise[r.Intn(len(c31Noise))]
	case k == 2:
		return c31Noise[r.Intn(len(c31Noise))] + c31Mult(r) + c31Noise[r.Intn(len(c31Noise))] + s
	case k == 3:
		return c31Mult(r) + c31Noise[r.Intn(len(c31Noise))]
	}
	return s
}

func c31TFStr(r *rng.Rand) string {
	sign := []string{"", "", "", "", "+", "-"}[r.Intn(6)]
	s := sign + c31Mult(r) + c31DefNames[r.Intn(len(c31DefNames))]
	switch k := r.Intn(12); {
	case k == 0:
		return c31Noise[r.Intn(len(c31Noise))] + s
	case k == 1:
		return s + c31Noise[r.Intn(len(c31Noise))]
	case k == 2:
		return c31Mult(r) + c31Noise[r.Intn(len(c31Noise))]
	case k == 3:
		return utils.Timeframes[r.Intn(len(utils.Timeframes))].String
	}
	return s
}

func c31Gen(r *rng.Rand, i int, tier string) interface{} {
	in := c31In{Str: c31CandleStr(r), Zone: c31Zones[r.Intn(len(c31Zones))], TFStr: c31TFStr(r)}
	if r.Chance(25) {
		in.Zone = []string{"UTC", "fixed:0"}[r.Intn(2)]
	}
	forceBoundary := false
	if r.Chance(8) { // the one-week candle in UTC around new year: the whole domain of the W window theorem
		in.Str, in.Zone, forceBoundary = "1W", []string{"UTC", "fixed:0"}[r.Intn(2)], true
	}
	loc, err := tzd.Load(in.Zone)
	if err != nil {
		loc, in.Zone = time.UTC, "UTC"
	}
	year := 1990 + r.Intn(60)
	if r.Chance(10) {
		year = 1971 + r.Intn(280)
	}
	y0 := time.Date(year, 1, 1, 0, 0, 0, 0, loc)
	small := []int64{0, 1, -1, 1e9, -1e9, 1800e9, 3600e9, -3600e9, 3600e9 - 1, 86400e9, -86400e9, 86400e9 - 1, 7 * 86400e9, 30 * 60e9}
	pick := func() time.Duration { return time.Duration(small[r.Intn(len(small))]) }
	var t time.Time
	kk := r.Intn(15)
	if forceBoundary {
		kk = 12
	}
	switch k := kk; {
	case k >= 12: // year boundary: Dec 28 .. Jan 4 (ISO week-year differs from the calendar year), incl. 53-week ISO years
		yb := []int{2015, 2016, 2020, 2021, 2026, 2027, 2009, 2010, 2024, 2025, year}[r.Intn(11)]
		t = time.Date(yb, 12, 28+r.Intn(8), r.Intn(24), r.Intn(60), r.Intn(60), r.Intn(2)*r.Intn(1e9), loc)
		if r.Chance(30) {
			t = time.Date(yb, 12, 28+r.Intn(8), 0, 0, 0, 0, loc).Add(pick())
		}
	case k < 4: // around a zone transition (25h / 23h days)
		tr := tzd.Transitions(loc, y0.Unix(), y0.Unix()+366*86400)
		if len(tr) > 0 {
			base := time.Unix(tr[r.Intn(len(tr))], 0).In(loc)
			// local midnight of the transition day, plus up to 26 hours
			t = time.Date(base.Year(), base.Month(), base.Day(), 0, 0, 0, 0, loc).Add(time.Duration(r.Range(0, 26*3600)) * time.Second).Add(pick())
		} else {
			t = y0.Add(time.Duration(r.Range(0, 365*86400)) * time.Second)
		}
	case k < 6: // Monday / Sunday edges (UTC and local)
		d := y0.Add(time.Duration(r.Intn(52)) * 7 * 24 * time.Hour)
		for d.Weekday() != time.Monday {
			d = d.Add(24 * time.Hour)
		}
		t = time.Date(d.Year(), d.Month(), d.Day(), 0, 0, 0, 0, []*time.Location{loc, time.UTC}[r.Intn(2)]).Add(pick())
	case k < 8: // month / year edges
		t = time.Date(year, time.Month(1+r.Intn(12)), 1, 0, 0, 0, 0, loc).Add(pick())
	case k < 9: // local midnight
		t = time.Date(year, time.Month(1+r.Intn(12)), 1+r.Intn(28), 0, 0, 0, 0, loc).Add(pick())
	default:
		t = y0.Add(time.Duration(r.Range(0, 366*86400)) * time.Second).Add(time.Duration(r.Intn(1e9)))
	}
	in.Sec, in.Nsec = t.Unix(), int64(t.Nanosecond())
	in.Other = []int64{0, -1, 1, -3600e9, -86400e9, -7 * 86400e9, -30 * 86400e9, -365 * 86400e9, 86400e9, -400 * 86400e9}[r.Intn(10)]
	if r.Bool() {
		in.Other = -r.Range(0, 40*86400e9)
	}
	switch k := r.Intn(10); {
	case k < 5: // unit multiples
		u := []int64{1e9, 60e9, 3600e9, 86400e9, 7 * 86400e9, 365 * 86400e9}[r.Intn(6)]
		in.Dur = u * int64(1+r.Intn(70))
	case k < 7:
		in.Dur = int64(r.Range(0, 400*86400)) * 1e9
	case k < 8:
		in.Dur = r.Range(-5, 2e9)
	default:
		in.Dur = int64(utils.Timeframes[r.Intn(len(utils.Timeframes))].Duration) + []int64{0, 0, 1, -1, 1e9}[r.Intn(5)]
	}
	return in
}

type c31Obs struct {
	CDOk   bool     `json:"cd_ok"`
	CD     []string `json:"cd"`
	QTF    string   `json:"qtf"`
	FS     string   `json:"fs"`
	FD     string   `json:"fd"`
	FSFD   string   `json:"fsfd"`
	FSFDFS string   `json:"fsfdfs"`
}

func c31TF(tf *utils.Timeframe) string {
	if tf == nil {
		return "None"
	}
	return cq.Some(cq.Tuple(cq.Str(tf.String), cq.Z(int64(tf.Duration))))
}

var c31Re = regexp.MustCompile(`(\d+)(Sec|Min|H|D|W|M|Y)`)
var c31Units = map[string]int64{"Sec": 1e9, "Min": 60e9, "H": 3600e9, "D": 86400e9, "W": 7 * 86400e9, "M": 0, "Y": 365 * 86400e9}

func b2i(b bool) int64 {
	if b {
		return 1
	}
	return 0
}

// floor division of local seconds into days
func c31LocalDays(tb tzd.Table, sec int64) int64 {
	l := sec + tb.OffsetAt(sec)
	d := l / 86400
	if l%86400 < 0 {
		d--
	}
	return d
}

// mirrors Timeframe.print_okb
func c31PrintOK(d int64) bool {
	if d < 1e9 {
		return false
	}
	lower := int64(1e9)
	for _, def := range []int64{1e9, 1e9, 60e9, 60e9, 3600e9, 86400e9, 7 * 86400e9, 365 * 86400e9} {
		if def == d {
			return true
		} else if d < def {
			return d%lower == 0
		}
		lower = def
	}
	return false
}

func c31Run(raw json.RawMessage) (res Result, err error) {
	var in c31In
	if err = json.Unmarshal(raw, &in); err != nil {
		return
	}
	loc, err := tzd.Load(in.Zone)
	if err != nil {
		return res, err
	}
	ts := time.Unix(in.Sec, in.Nsec).In(loc)
	other := ts.Add(time.Duration(in.Other))
	obs := c31Obs{}
	var trunc, ceil time.Time
	var within, withinOther bool
	var dur time.Duration
	cd, cerr := utils.CandleDurationFromString(in.Str)
	lo, hi := ts.Unix(), ts.Unix()
	if other.Unix() < lo {
		lo = other.Unix()
	}
	if cerr == nil {
		obs.CDOk = true
		dur = cd.Duration()
		trunc, ceil = cd.Truncate(ts), cd.Ceil(ts)
		within, withinOther = cd.IsWithin(ts, trunc), cd.IsWithin(ts, other)
		obs.QTF = cd.QueryableTimeframe()
		obs.CD = []string{cq.Z(int64(dur)), tzd.Nanos(trunc), tzd.Nanos(ceil), cq.Z(b2i(within)), cq.Z(b2i(withinOther))}
		for _, x := range []time.Time{trunc, ceil, ts.Add(utils.Day)} {
			if x.Unix() < lo {
				lo = x.Unix()
			}
			if x.Unix() > hi {
				hi = x.Unix()
			}
		}
	}
	const pad = 800 * 86400
	tab := tzd.Dump(loc, lo-pad, hi+pad)
	fs := utils.TimeframeFromString(in.TFStr)
	fd := utils.TimeframeFromDuration(time.Duration(in.Dur))
	var fsfd, fsfdfs *utils.Timeframe
	if fs != nil {
		fsfd = utils.TimeframeFromDuration(fs.Duration)
		if fsfd != nil {
			fsfdfs = utils.TimeframeFromString(fsfd.String)
		}
	}
	obs.FS, obs.FD, obs.FSFD, obs.FSFDFS = c31TF(fs), c31TF(fd), c31TF(fsfd), c31TF(fsfdfs)
	res.Obs = obs
	res.Coq = cq.Rec(cq.F("k_str", cq.Str(in.Str)), cq.F("k_z", tab.Coq()), cq.F("k_t", tzd.Nanos(ts)), cq.F("k_other", tzd.Nanos(other)),
		cq.F("k_tfstr", cq.Str(in.TFStr)), cq.F("k_dur", cq.Z(in.Dur)), cq.F("k_cd_ok", cq.Bool(obs.CDOk)), cq.F("k_cd", cq.List(obs.CD)),
		cq.F("k_qtf", cq.Str(obs.QTF)), cq.F("k_fs", obs.FS), cq.F("k_fd", obs.FD), cq.F("k_fsfd", obs.FSFD), cq.F("k_fsfdfs", obs.FSFDFS))

	// ---- executable mirrors of the guards (Timeframe.window_okb / print_okb) ----
	suffix, multOK, mult1 := "", false, false
	if m := c31Re.FindStringSubmatch(in.Str); m != nil {
		suffix = m[2]
		v, e := strconv.ParseInt(m[1], 10, 64) // on overflow v is clamped to MaxInt64, as Atoi's ignored-error result in the code
		if ne, isNum := e.(*strconv.NumError); e == nil || (isNum && ne.Err == strconv.ErrRange) {
			e = nil
		}
		if e == nil && v >= 1 {
			u := c31Units[suffix]
			multOK = u == 0 || v <= (1<<63-1)/u
			mult1 = v == 1
		}
	}
	windowOK := false
	if obs.CDOk && multOK {
		switch suffix {
		case "D":
			d, d2 := c31LocalDays(tab, in.Sec), c31LocalDays(tab, ts.Add(utils.Day).Unix())
			windowOK = tab.CrossOK(d*86400) && tab.CrossOK(d2*86400) && d < d2
		case "W":
			windowOK = mult1 && tab.OffsetAt(in.Sec) == 0 && tab.OffsetAt(ts.Truncate(dur).Unix()) == 0
		case "M":
			ly, lm, _ := ts.Date()
			d0 := time.Date(ly, lm, 1, 0, 0, 0, 0, time.UTC).Unix() / 86400
			d1 := time.Date(ly, lm+1, 1, 0, 0, 0, 0, time.UTC).Unix() / 86400
			windowOK = tab.CrossOK(d0*86400) && tab.CrossOK(d1*86400)
		case "Y":
			windowOK = tab.OffsetAt(in.Sec) == tab.OffsetAt(ts.Truncate(dur).Unix())
		default:
			windowOK = true
		}
	}
	printOK := fs != nil && c31PrintOK(int64(fs.Duration))
	res.InDomain = windowOK

	// ---- property oracle on the implementation's outputs ----
	res.Holds = true
	fail := func(cl, f string, a ...interface{}) {
		if res.Holds {
			res.Holds, res.Class, res.Detail = false, cl, fmt.Sprintf(f, a...)
		}
	}
	if obs.CDOk {
		cl := ""
		switch {
		case !multOK:
			cl = "multiplier-zero-or-overflow"
		case suffix == "D" && !windowOK:
			cl = "day-not-24h"
		case suffix == "W" && !windowOK:
			cl = "week-not-utc-or-multiple"
		}
		if trunc.After(ts) {
			fail(cl, "Truncate(%v) = %v is after the timestamp (%s)", ts, trunc, in.Str)
		}
		if !ceil.After(ts) {
			fail(cl, "Ceil(%v) = %v is not after the timestamp (%s)", ts, ceil, in.Str)
		}
		if !within {
			fail(cl, "IsWithin(%v, Truncate = %v) = false (%s)", ts, trunc, in.Str)
		}
		q := utils.TimeframeFromString(obs.QTF)
		if q == nil || q.Duration == 0 || dur%q.Duration != 0 {
			fail(cl, "QueryableTimeframe %q does not divide %v (%s)", obs.QTF, dur, in.Str)
		}
	}
	if fs != nil {
		cl := ""
		if !printOK {
			cl = "print-non-unit-duration"
		}
		if fsfd == nil || fsfdfs == nil || fsfdfs.Duration != fs.Duration {
			fail(cl, "TimeframeFromString(%q) = %v prints as %s which parses as %s", in.TFStr, fs.Duration, obs.FSFD, obs.FSFDFS)
		}
	}
	res.Tags = []string{"zone:" + in.Zone, "suffix:" + suffix, fmt.Sprintf("cd_ok=%v", obs.CDOk), fmt.Sprintf("fs=%v", fs != nil), fmt.Sprintf("fd=%v", fd != nil)}
	if windowOK {
		res.Tags = append(res.Tags, "window-domain")
	}
	if printOK {
		res.Tags = append(res.Tags, "print-domain")
	}
	res.Nontrivial = windowOK || printOK
	res.Key = string(raw)
	return res, nil
}

func init() {
	Register(&Spec{
		ID:          "C31",
		CoqRequire:  "Require Import MS.Corr.C31.",
		CoqCaseType: "C31.case",
		Rule: "candle strings: multiplier (1-120 mostly; 0, leading zeros, int32/int64 limits, up to 100000) x every suffix Sec|Min|H|D|W|M|Y, ~30% with " +
			"noise around/inside; timestamps in 13 zones at DST transition days (0-26 h after local midnight), Monday/Sunday edges (UTC and local), " +
			"month/year edges, midnights, random; TimeframeFromString arguments over all 8 unit names with signs/noise; TimeframeFromDuration over unit " +
			"multiples, arbitrary seconds, sub-second, on-disk timeframes +-1; distinct = distinct input; non-trivial = inside a guarded theorem's domain",
		Gen: c31Gen,
		Run: c31Run,
	})
}
