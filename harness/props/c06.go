package props

import (
	"bytes"
	"crypto/md5"
	"encoding/binary"
	"encoding/json"
	"fmt"
	"os"
	"path/filepath"
	"sort"
	"strings"
	"sync"

	"github.com/alpacahq/marketstore/v4/catalog"
	"github.com/alpacahq/marketstore/v4/executor"
	"github.com/alpacahq/marketstore/v4/executor/wal"
	"github.com/alpacahq/marketstore/v4/utils/io"
	"github.com/alpacahq/marketstore/v4/utils/log"

	"verifharness/internal/cq"
	"verifharness/internal/rng"
)

// C06 — WAL replay tolerates arbitrary damage to the log.
// Implementation under test: executor.TakeOverWALFile + (*WALFileType).Replay(false) — what
// CleanupOldWALFiles runs at startup for a WAL file of more than 10 bytes — on structured mutants of
// valid WAL files written by the REAL writer (catalog + NewWALFile + Writer.WriteCSM + CreateCheckpoint).

type c06Mut struct {
	Op   string `json:"op"` // trunc flip zero over insert del dup swap setlen craft ckpt append
	Off  int    `json:"off,omitempty"`
	Len  int    `json:"len,omitempty"`
	Val  int64  `json:"val,omitempty"`
	A    int    `json:"a,omitempty"` // record index (0 = the status record)
	B    int    `json:"b,omitempty"`
	Data []byte `json:"data,omitempty"`
}
type c06In struct {
	Base  int      `json:"base"`          // which valid WAL (number of TGs, checkpoints): see c06BaseSpecs
	Raw   []byte   `json:"raw,omitempty"` // kind raw: these bytes ARE the file (no base)
	Muts  []c06Mut `json:"muts,omitempty"`
	IsRaw bool     `json:"is_raw,omitempty"`
}

// ---- record framing of a VALID file (as the writer emits it)
type c06Rec struct {
	Off, Len int
	Kind     int // 0 TGDATA 1 TXNINFO 2 STATUS
	ID       int64
	Dest     int
	Status   int
}

func c06Records(b []byte) []c06Rec {
	var recs []c06Rec
	p := 0
	for p < len(b) {
		switch b[p] {
		case 2:
			if p+11 > len(b) {
				return recs
			}
			recs = append(recs, c06Rec{Off: p, Len: 11, Kind: 2})
			p += 11
		case 1:
			if p+11 > len(b) {
				return recs
			}
			recs = append(recs, c06Rec{Off: p, Len: 11, Kind: 1, ID: int64(binary.LittleEndian.Uint64(b[p+1:])), Dest: int(b[p+9]), Status: int(b[p+10])})
			p += 11
		case 0:
			if p+9 > len(b) {
				return recs
			}
			l := int(binary.LittleEndian.Uint64(b[p+1:]))
			if l < 8 || p+9+l+16 > len(b) {
				return recs
			}
			recs = append(recs, c06Rec{Off: p, Len: 9 + l + 16, Kind: 0, ID: int64(binary.LittleEndian.Uint64(b[p+9:]))})
			p += 9 + l + 16
		default:
			return recs
		}
	}
	return recs
}

// ---- valid WAL files produced by the real writer (cached per process)
type c06Base struct {
	bytes []byte
	recs  []c06Rec
	files map[string][]byte // primary files (relative path -> content) the TGs write to
}

// number of TGs, after which TG (1-based) a checkpoint is taken (0 = none)
var c06BaseSpecs = []struct{ ntg, ckpt, rows int }{{3, 0, 1}, {3, 1, 2}, {3, 2, 1}, {2, 0, 3}, {4, 3, 1}, {1, 0, 1}}

var c06Bases = map[int]*c06Base{}
var c06Pipe *executor.TransactionPipe

func c06GetBase(k int) (*c06Base, error) {
	k = ((k % len(c06BaseSpecs)) + len(c06BaseSpecs)) % len(c06BaseSpecs)
	if b, ok := c06Bases[k]; ok {
		return b, nil
	}
	log.SetLevel(log.FATAL)
	spec := c06BaseSpecs[k]
	root, err := os.MkdirTemp(c28TmpBase(), "c06b")
	if err != nil {
		return nil, err
	}
	defer os.RemoveAll(root)
	dir, e := catalog.NewDirectory(root)
	if e != nil && dir == nil {
		return nil, e
	}
	var wg sync.WaitGroup
	tpd := executor.StartNewTriggerPluginDispatcher(nil)
	if c06Pipe == nil {
		c06Pipe = executor.NewTransactionPipe()
	}
	wf, e := executor.NewWALFile(root, 4711+int64(k), nil, false, &wg, tpd, c06Pipe)
	if e != nil {
		return nil, e
	}
	wr, e := executor.NewWriter(dir, wf)
	if e != nil {
		return nil, e
	}
	r := rng.New(uint64(1000 + k))
	for t := 0; t < spec.ntg; t++ {
		cs := io.NewColumnSeries()
		ep := make([]int64, spec.rows)
		px := make([]float32, spec.rows)
		vol := make([]int32, spec.rows)
		for j := range ep {
			ep[j] = 1580515200 + int64(t*10+j)*86400 // Feb 2020 onwards, one row per day
			px[j] = float32(r.Intn(10000)) / 7
			vol[j] = int32(r.Intn(1 << 20))
		}
		cs.AddColumn("Epoch", ep)
		cs.AddColumn("Px", px)
		cs.AddColumn("Vol", vol)
		tbk := io.NewTimeBucketKey(fmt.Sprintf("S%d/1D/OHLC", t%2))
		csm := io.NewColumnSeriesMap()
		csm.AddColumnSeries(*tbk, cs)
		if err := wr.WriteCSM(csm, false); err != nil {
			return nil, fmt.Errorf("base %d: WriteCSM: %v", k, err)
		}
		if spec.ckpt == t+1 {
			if err := wf.CreateCheckpoint(); err != nil {
				return nil, err
			}
		}
	}
	name := wf.FilePtr.Name()
	wf.FilePtr.Close()
	b, err := os.ReadFile(name)
	if err != nil {
		return nil, err
	}
	base := &c06Base{bytes: b, recs: c06Records(b), files: map[string][]byte{}}
	for s := 0; s < 2; s++ {
		rel := fmt.Sprintf("S%d/1D/OHLC/2020.bin", s)
		if fb, err := os.ReadFile(filepath.Join(root, rel)); err == nil {
			base.files[rel] = fb
		}
	}
	c06Bases[k] = base
	return base, nil
}

// c06TG frames a TGDATA record with a valid checksum around body.
func c06TG(body []byte) []byte {
	out := []byte{0}
	l := make([]byte, 8)
	binary.LittleEndian.PutUint64(l, uint64(len(body)))
	out = append(out, l...)
	out = append(out, body...)
	h := md5.New()
	h.Write(l)
	h.Write(body)
	return h.Sum(out)
}
func c06Txn(id int64, dest, status byte) []byte {
	out := []byte{1}
	l := make([]byte, 8)
	binary.LittleEndian.PutUint64(l, uint64(id))
	return append(append(out, l...), dest, status)
}

// c06Apply applies the mutations to the valid bytes.
func c06Apply(base *c06Base, muts []c06Mut) []byte {
	b := append([]byte{}, base.bytes...)
	clampOff := func(o int) int {
		if len(b) == 0 {
			return 0
		}
		return ((o % (len(b) + 1)) + len(b) + 1) % (len(b) + 1)
	}
	rec := func(i int) (c06Rec, bool) {
		recs := c06Records(b)
		if len(recs) == 0 {
			return c06Rec{}, false
		}
		return recs[((i%len(recs))+len(recs))%len(recs)], true
	}
	for _, m := range muts {
		switch m.Op {
		case "trunc":
			b = b[:clampOff(m.Off)]
		case "truncrec": // cut the file at the start of record A
			if r, ok := rec(m.A); ok && r.Off > 0 {
				b = b[:r.Off]
			}
		case "flip":
			if len(b) > 0 {
				b[clampOff(m.Off)%len(b)] ^= 1 << uint(m.Val&7)
			}
		case "zero", "over":
			o := clampOff(m.Off)
			for i := 0; i < m.Len && o+i < len(b); i++ {
				if m.Op == "zero" {
					b[o+i] = 0
				} else if i < len(m.Data) {
					b[o+i] = m.Data[i]
				}
			}
		case "insert":
			o := clampOff(m.Off)
			b = append(b[:o:o], append(append([]byte{}, m.Data...), b[o:]...)...)
		case "insertrec": // garbage/record at the START of record A
			if r, ok := rec(m.A); ok {
				o := r.Off
				b = append(b[:o:o], append(append([]byte{}, m.Data...), b[o:]...)...)
			}
		case "append":
			b = append(b, m.Data...)
		case "del":
			if r, ok := rec(m.A); ok && r.Off > 0 {
				b = append(b[:r.Off:r.Off], b[r.Off+r.Len:]...)
			}
		case "dup": // copy of record A inserted after record B
			ra, ok1 := rec(m.A)
			rb, ok2 := rec(m.B)
			if ok1 && ok2 {
				cp := append([]byte{}, b[ra.Off:ra.Off+ra.Len]...)
				o := rb.Off + rb.Len
				b = append(b[:o:o], append(cp, b[o:]...)...)
			}
		case "swap":
			ra, ok1 := rec(m.A)
			rb, ok2 := rec(m.B)
			if ok1 && ok2 && ra.Off != rb.Off && ra.Off > 0 && rb.Off > 0 {
				if ra.Off > rb.Off {
					ra, rb = rb, ra
				}
				var nb []byte
				nb = append(nb, b[:ra.Off]...)
				nb = append(nb, b[rb.Off:rb.Off+rb.Len]...)
				nb = append(nb, b[ra.Off+ra.Len:rb.Off]...)
				nb = append(nb, b[ra.Off:ra.Off+ra.Len]...)
				nb = append(nb, b[rb.Off+rb.Len:]...)
				b = nb
			}
		case "setlen": // length field of the m.A-th TGDATA record := Val (or Val relative to the true length when Len != 0)
			var tgs []c06Rec
			for _, r := range c06Records(b) {
				if r.Kind == 0 {
					tgs = append(tgs, r)
				}
			}
			if len(tgs) > 0 {
				r := tgs[((m.A%len(tgs))+len(tgs))%len(tgs)]
				v := m.Val
				switch m.Len {
				case 1:
					v = int64(r.Len-25) + m.Val
				case 2:
					v = 1000*int64(len(b)) + m.Val
				}
				binary.LittleEndian.PutUint64(b[r.Off+1:], uint64(v))
			}
		case "craft": // an intact TGDATA record (valid checksum) inserted before record A
			// Val: 0 body = Data as is; 1 body = body of the m.B-th TG with a fresh id; 2 same body, same id (duplicate);
			// 3 body of the m.B-th TG with its key path bytes edited (missing file); 4 fresh id, zero commands
			var tgs []c06Rec
			for _, r := range c06Records(b) {
				if r.Kind == 0 {
					tgs = append(tgs, r)
				}
			}
			body := append([]byte{}, m.Data...)
			if m.Val == 5 { // a big intact TG from the real serializer: body length exactly at a 2^15 / 2^16 boundary
				target := []int{32767, 32768, 65535, 65536, 70000}[((m.Len%5)+5)%5]
				mk := func(n int) []byte {
					wc := &wal.WriteCommand{RecordType: io.FIXED, WALKeyPath: "S0/1D/OHLC/2020.bin", Offset: 37024 + 16*300, Index: 301,
						Data: bytes.Repeat([]byte{0x5a}, n), DataShapes: []io.DataShape{{Name: "Epoch", Type: io.INT64}, {Name: "Px", Type: io.FLOAT32}}}
					bb, _ := executor.VerifSerializeTG(int64(900000+m.Len), []*wal.WriteCommand{wc})
					return bb
				}
				body = mk(target - len(mk(0)))
			} else if m.Val != 0 && len(tgs) > 0 {
				r := tgs[((m.B%len(tgs))+len(tgs))%len(tgs)]
				body = append([]byte{}, b[r.Off+9:r.Off+r.Len-16]...)
				switch m.Val {
				case 1:
					binary.LittleEndian.PutUint64(body, uint64(r.ID+1000+int64(m.Len)))
				case 3:
					nid := r.ID + 2000 + int64(m.Len)
					if m.Len%2 == 1 { // sorts before every genuine transaction: its failure aborts the rest
						nid = r.ID - 5000 - int64(m.Len)
					}
					binary.LittleEndian.PutUint64(body, uint64(nid))
					if len(body) > 21 {
						body[19] = 'Z' // first byte of the key path: S0/... -> Z0/... (no such file)
					}
				case 4:
					body = body[:16]
					binary.LittleEndian.PutUint64(body, uint64(r.ID+3000+int64(m.Len)))
					binary.LittleEndian.PutUint64(body[8:], 0)
				}
			}
			if ra, ok := rec(m.A); ok {
				o := ra.Off
				if o == 0 {
					o = 11
				}
				if o > len(b) {
					o = len(b)
				}
				b = append(b[:o:o], append(c06TG(body), b[o:]...)...)
			}
		case "ckpt": // an (unchecksummed) checkpoint COMMITCOMPLETE record for the id of the m.B-th TG (+Val), inserted before record A
			var tgs []c06Rec
			for _, r := range c06Records(b) {
				if r.Kind == 0 {
					tgs = append(tgs, r)
				}
			}
			if ra, ok := rec(m.A); ok && len(tgs) > 0 {
				r := tgs[((m.B%len(tgs))+len(tgs))%len(tgs)]
				o := ra.Off
				if o == 0 {
					o = 11
				}
				b = append(b[:o:o], append(c06Txn(r.ID+m.Val, 1, 2), b[o:]...)...)
			}
		}
	}
	return b
}

// ---- an independent Go re-statement of the scanner, used ONLY by the oracle to name finding classes
type c06Frame struct {
	abort      bool
	sched      []int64          // ids with a non-nil body at the end of pass one, ascending
	bodies     map[int64][]byte // their bodies
	pruneAfter []int64          // ids of CHECKPOINT/COMMITCOMPLETE records that pruned, with the offset they stood at
	pruneOff   []int
}

func c06Scan(b []byte) c06Frame {
	fr := c06Frame{bodies: map[int64][]byte{}}
	present := map[int64]bool{}
	seen := map[int64]bool{}
	size := int64(len(b))
	p := 0
	setBad := func() bool { // returns true when the duplicate test aborts
		delete(fr.bodies, 0)
		present[0] = true
		if seen[0] {
			return true
		}
		seen[0] = true
		return false
	}
loop:
	for {
		if p >= len(b) {
			break
		}
		mid := int8(b[p])
		p++
		switch mid {
		case 0:
			if len(b)-p < 8 {
				delete(fr.bodies, 0)
				present[0] = true
				break loop
			}
			l := int64(binary.LittleEndian.Uint64(b[p:]))
			lenb := b[p : p+8]
			p += 8
			if !(l < 1000*size) || l < 8 { // insane: too large, or (since the fix) shorter than the id
				if setBad() {
					fr.abort = true
					break loop
				}
				continue
			}
			if int64(len(b)-p) < l {
				delete(fr.bodies, 0)
				present[0] = true
				break loop
			}
			body := b[p : p+int(l)]
			p += int(l)
			if len(b)-p < 16 {
				delete(fr.bodies, 0)
				present[0] = true
				break loop
			}
			ck := b[p : p+16]
			p += 16
			h := md5.New()
			h.Write(lenb)
			h.Write(body)
			if !bytes.Equal(h.Sum(nil), ck) {
				if setBad() {
					fr.abort = true
					break loop
				}
				continue
			}
			var idb [8]byte
			copy(idb[:], body)
			id := int64(binary.LittleEndian.Uint64(idb[:]))
			fr.bodies[id] = body
			present[id] = true
			if seen[id] {
				fr.abort = true
				break loop
			}
			seen[id] = true
		case 1:
			if len(b)-p < 10 {
				break loop
			}
			id := int64(binary.LittleEndian.Uint64(b[p:]))
			dest, st := int8(b[p+8]), int8(b[p+9])
			at := p - 1
			p += 10
			if (dest != 0 && dest != 1) || st < 0 || st > 2 {
				continue
			}
			if dest == 1 && st == 2 && present[id] {
				for k := range present {
					if k <= id {
						delete(present, k)
						delete(fr.bodies, k)
					}
				}
				fr.pruneAfter = append(fr.pruneAfter, id)
				fr.pruneOff = append(fr.pruneOff, at)
			}
		case 2:
			if len(b)-p < 10 { // EOF or short read: the loop ends (since the fix also at EOF)
				break loop
			}
			p += 10
		}
	}
	for id := range fr.bodies {
		fr.sched = append(fr.sched, id)
	}
	sort.Slice(fr.sched, func(i, j int) bool { return fr.sched[i] < fr.sched[j] })
	return fr
}

// c06IntactIDs: ids of every intact TGDATA record at ANY offset of the file (brute force): the set a
// replay may legitimately apply from.
func c06IntactIDs(b []byte) map[int64]bool {
	ids := map[int64]bool{}
	for p := 0; p+9 <= len(b); p++ {
		if b[p] != 0 {
			continue
		}
		l := int64(binary.LittleEndian.Uint64(b[p+1:]))
		if l < 8 || l > int64(len(b)) || int64(p)+9+l+16 > int64(len(b)) {
			continue
		}
		body := b[p+9 : p+9+int(l)]
		h := md5.New()
		h.Write(b[p+1 : p+9])
		h.Write(body)
		if bytes.Equal(h.Sum(nil), b[p+9+int(l):p+9+int(l)+16]) {
			ids[int64(binary.LittleEndian.Uint64(body))] = true
		}
	}
	return ids
}

type c06Obs struct {
	Size    int     `json:"size"`
	Code    int     `json:"code"` // 0 nil, 1 error, 2 panic, 3 not replayed (<= 10 bytes: the cleaner removes it)
	Err     string  `json:"err,omitempty"`
	Applied []int64 `json:"applied"`
	State   int     `json:"replay_state"`
	D       int     `json:"first_damage"`
	Req     []int64 `json:"required"`
}

// c06RunReal materialises the directory and runs the real startup replay on the file bytes.
func c06RunReal(file []byte, files map[string][]byte) (obs c06Obs, root string, err error) {
	log.SetLevel(log.FATAL)
	obs.Size = len(file)
	root, err = os.MkdirTemp(c28TmpBase(), "c06r")
	if err != nil {
		return
	}
	defer os.RemoveAll(root)
	for rel, content := range files {
		p := filepath.Join(root, rel)
		os.MkdirAll(filepath.Dir(p), 0o755)
		if err = os.WriteFile(p, content, 0o600); err != nil {
			return
		}
	}
	wp := filepath.Join(root, "WALFile.1.walfile")
	if err = os.WriteFile(wp, file, 0o600); err != nil {
		return
	}
	if len(file) <= 10 { // CleanupOldWALFiles: fi.Size() <= walStatusLenBytes -> removed, never replayed
		obs.Code = 3
		return
	}
	var wf *executor.WALFileType
	func() {
		defer func() {
			if p := recover(); p != nil {
				obs.Code, obs.Err = 2, fmt.Sprint(p)
			}
		}()
		var e error
		wf, e = executor.TakeOverWALFile(wp)
		if e != nil {
			obs.Code, obs.Err = 1, e.Error()
			return
		}
		if e = wf.Replay(false); e != nil {
			obs.Code, obs.Err = 1, e.Error()
		}
	}()
	if wf != nil && wf.FilePtr != nil {
		wf.FilePtr.Close()
	}
	after, e := os.ReadFile(wp)
	if e != nil {
		err = e
		return
	}
	if len(after) > 2 {
		obs.State = int(after[2])
	}
	// every successfully replayed TG (>= 1 WTSet, id != 0) appended its checkpoint records
	for p := len(file); p+11 <= len(after); p += 11 {
		if after[p] == 1 && after[p+9] == 1 && after[p+10] == 2 {
			obs.Applied = append(obs.Applied, int64(binary.LittleEndian.Uint64(after[p+1:])))
		}
	}
	if len(obs.Err) > 300 {
		obs.Err = obs.Err[:300]
	}
	return
}

func c06Run(raw json.RawMessage) (res Result, err error) {
	var in c06In
	if err = json.Unmarshal(raw, &in); err != nil {
		return
	}
	base, err := c06GetBase(in.Base)
	if err != nil {
		return res, err
	}
	var file []byte
	valid := base.bytes
	if in.IsRaw {
		file = in.Raw
		valid = nil
	} else {
		file = c06Apply(base, in.Muts)
	}
	obs, root, err := c06RunReal(file, base.files)
	if err != nil {
		return res, err
	}
	// ---- first damaged offset and the transactions that precede the damage
	d := 0
	for d < len(valid) && d < len(file) && valid[d] == file[d] {
		d++
	}
	obs.D = d
	var req []int64
	if !in.IsRaw {
		// a transaction covered by a checkpoint-commit record of the ORIGINAL file that is still present in the
		// mutant (byte-identical, anywhere) is durable in the primary store: it needs no replay
		var cks []int64
		for _, r := range base.recs {
			if r.Kind == 1 && r.Dest == 1 && r.Status == 2 && bytes.Contains(file, base.bytes[r.Off:r.Off+r.Len]) {
				cks = append(cks, r.ID)
			}
		}
		type cand struct {
			id        int64
			committed bool
		}
		var cands []cand
		for _, r := range base.recs {
			if r.Off+r.Len > d {
				break
			}
			switch {
			case r.Kind == 0:
				cands = append(cands, cand{id: r.ID})
			case r.Kind == 1 && r.Dest == 0 && r.Status == 2:
				for i := range cands {
					if cands[i].id == r.ID {
						cands[i].committed = true
					}
				}
			}
		}
		for _, c := range cands {
			covered := false
			for _, ck := range cks {
				if c.id <= ck {
					covered = true
				}
			}
			if c.committed && !covered {
				req = append(req, c.id)
			}
		}
	}
	obs.Req = req
	res.Obs = obs
	var files []string
	for rel := range base.files {
		files = append(files, c28Hex([]byte(filepath.Join(root, rel))))
	}
	sort.Strings(files)
	zs := func(l []int64) string {
		var s []string
		for _, x := range l {
			s = append(s, cq.Z(x))
		}
		return cq.List(s)
	}
	res.Coq = cq.Rec(cq.F("k_bytes", c28Hex(file)), cq.F("k_root", c28Hex([]byte(root))), cq.F("k_files", cq.List(files)),
		cq.F("k_code", cq.Nat(obs.Code)), cq.F("k_applied", zs(obs.Applied)), cq.F("k_good", cq.Nat(d)), cq.F("k_req", zs(req)))

	// ---- oracle: the property as stated, on the implementation's outputs
	fr := c06Frame{}
	startOK := len(file) > 10
	if startOK {
		owner := int64(binary.LittleEndian.Uint64(file[3:11]))
		rs := int8(file[2])
		startOK = owner != 0 && (rs == 1 || rs == 3)
		if startOK {
			fb := append([]byte{2, 1, 3}, file[3:]...)
			fr = c06Scan(fb)
		}
	}
	intact := c06IntactIDs(file)
	applied := map[int64]bool{}
	for _, id := range obs.Applied {
		applied[id] = true
	}
	res.Holds = true
	fail := func(f string, a ...interface{}) {
		if res.Holds {
			res.Holds, res.Detail = false, fmt.Sprintf(f, a...)
		}
	}
	if obs.Code == 2 {
		fail("startup replay panicked: %s", obs.Err)
	}
	for _, id := range obs.Applied {
		if !intact[id] {
			fail("applied transaction %d is not an intact record of the file", id)
		}
	}
	var missing []int64
	for _, id := range req {
		if !applied[id] {
			missing = append(missing, id)
		}
	}
	if len(missing) > 0 {
		fail("intact committed transaction(s) %v precede the damage at offset %d but were not applied (exit %d %s)", missing, d, obs.Code, obs.Err)
	}
	// executable mirrors of the Coq guards (finding classes), evaluated on the INPUT bytes
	applyErr := false
	if startOK && !fr.abort {
		for _, id := range fr.sched {
			ok, aok := c06ParseOK(fr.bodies[id], root, base.files)
			if !ok {
				continue // undecodable intact body: logged and skipped (since the fix)
			}
			if !aok {
				applyErr = true
				break
			}
		}
	}
	prunes := false
	for i, id := range fr.pruneAfter {
		for _, q := range req {
			if fr.pruneOff[i]+11 > d && id >= q { // the record reaches into the damaged part
				prunes = true
			}
		}
	}
	if !res.Holds {
		switch {
		case obs.Code != 2 && len(missing) > 0 && fr.abort:
			res.Class = "duplicate-tgdata-aborts-replay"
		case obs.Code != 2 && len(missing) > 0 && prunes:
			res.Class = "unchecksummed-txninfo-prunes"
		case obs.Code != 2 && len(missing) > 0 && applyErr:
			res.Class = "apply-error-aborts-replay"
		}
	}
	res.InDomain = startOK && !fr.abort && !applyErr && !prunes
	res.Tags = []string{fmt.Sprintf("code=%d", obs.Code), fmt.Sprintf("applied=%d", len(obs.Applied)), fmt.Sprintf("req=%d", len(req))}
	for _, m := range in.Muts {
		res.Tags = append(res.Tags, "op:"+m.Op)
	}
	if in.IsRaw {
		res.Tags = append(res.Tags, "raw")
	}
	if len(in.Muts) == 0 && !in.IsRaw {
		res.Tags = append(res.Tags, "unmutated")
	}
	if res.InDomain {
		res.Tags = append(res.Tags, "in-domain")
	} else {
		res.Tags = append(res.Tags, "outside-domain")
	}
	if fr.abort {
		res.Tags = append(res.Tags, "dup-abort")
	}
	if !res.Holds {
		res.Tags = append(res.Tags, "oracle-fails")
	}
	res.Nontrivial = res.InDomain && len(req) >= 1 && (len(in.Muts) > 0 || in.IsRaw)
	res.Key = string(raw)
	return res, nil
}

// c06ParseOK: does ParseTGData return on this body (no panic), and would replayTGData return nil
// (every target an existing primary file, record type FIXED, non-negative offset)?
func c06ParseOK(body []byte, root string, files map[string][]byte) (parsed, applyOK bool) {
	buf := make([]byte, len(body))
	copy(buf, body)
	var wts []wal.WTSet
	func() {
		defer func() { recover() }()
		_, wts = executor.ParseTGData(buf, root)
		parsed = wts != nil // (0, nil) is how the exported function reports an undecodable body
	}()
	if !parsed {
		return false, false
	}
	applyOK = true
	for _, w := range wts {
		rel, _ := filepath.Rel(root, w.FilePath)
		if _, ok := files[rel]; !ok || w.RecordType != io.FIXED || len(w.Buffer) < 16 || w.Buffer.Offset() < 0 {
			applyOK = false
		}
	}
	return
}

// ---- generator
func c06Gen(r *rng.Rand, i int, tier string) interface{} {
	in := c06In{Base: r.Intn(len(c06BaseSpecs))}
	base, err := c06GetBase(in.Base)
	if err != nil {
		return in
	}
	n := len(base.bytes)
	nrec := len(base.recs)
	boundary := func() int { // an offset at or near a record / field boundary
		rc := base.recs[r.Intn(nrec)]
		cands := []int{rc.Off, rc.Off + 1, rc.Off + rc.Len - 1, rc.Off + rc.Len, rc.Off + 9, rc.Off + 8, rc.Off + 10, rc.Off + rc.Len - 16, rc.Off + rc.Len - 17, rc.Off + 17, rc.Off + 25}
		o := cands[r.Intn(len(cands))]
		if o < 0 {
			o = 0
		}
		if o > n {
			o = n
		}
		return o
	}
	off := func() int {
		if r.Chance(60) {
			return boundary()
		}
		return r.Intn(n + 1)
	}
	one := func() c06Mut {
		switch k := r.Intn(100); {
		case k < 6:
			return c06Mut{Op: "truncrec", A: 1 + r.Intn(nrec)}
		case k < 22:
			return c06Mut{Op: "trunc", Off: off()}
		case k < 34:
			return c06Mut{Op: "flip", Off: off(), Val: int64(r.Intn(8))}
		case k < 42:
			return c06Mut{Op: "zero", Off: off(), Len: []int{1, 2, 8, 9, 16, 40, 200}[r.Intn(7)]}
		case k < 48:
			d := r.Bytes(1 + r.Intn(12))
			return c06Mut{Op: "over", Off: off(), Len: len(d), Data: d}
		case k < 58:
			var d []byte
			switch r.Intn(6) {
			case 0:
				d = make([]byte, 9) // message id TGDATA + length 0
			case 1:
				d = []byte{2}
			case 2:
				d = append([]byte{0}, r.Bytes(8)...)
			case 3:
				d = []byte{1}
			default:
				d = r.Bytes(1 + r.Intn(30))
			}
			if r.Bool() {
				return c06Mut{Op: "insertrec", A: r.Intn(nrec + 1), Data: d}
			}
			return c06Mut{Op: "insert", Off: off(), Data: d}
		case k < 63:
			return c06Mut{Op: "del", A: 1 + r.Intn(nrec)}
		case k < 70:
			return c06Mut{Op: "dup", A: 1 + r.Intn(nrec), B: r.Intn(nrec)}
		case k < 76:
			return c06Mut{Op: "swap", A: 1 + r.Intn(nrec), B: 1 + r.Intn(nrec)}
		case k < 86:
			vals := []struct {
				v   int64
				rel int
			}{{0, 0}, {1, 0}, {6, 0}, {7, 0}, {8, 0}, {15, 0}, {16, 0}, {-1, 0}, {-1 << 63, 0}, {1<<63 - 1, 0}, {-1, 1}, {1, 1}, {16, 1}, {-16, 1}, {-1, 2}, {0, 2}, {1, 2}, {127, 0}, {128, 0}, {255, 0}, {256, 0}, {65535, 0}, {65536, 0},
				{1 << 8, 1}, {1 << 16, 1}, {1 << 32, 1}, {-(1 << 32), 1}, {1 << 31, 0}, {1 << 32, 0}}
			v := vals[r.Intn(len(vals))]
			return c06Mut{Op: "setlen", A: r.Intn(8), Val: v.v, Len: v.rel}
		case k < 94:
			m := c06Mut{Op: "craft", A: 1 + r.Intn(nrec+1), B: r.Intn(8), Val: int64(1 + r.Intn(4)), Len: r.Intn(50)}
			if tier == "thorough" && r.Chance(12) { // quick: the two 2^15 / 2^16 bodies of corpus/C06/big_tg_*.json only
				m.Val = 5
			}
			if r.Chance(25) {
				m.Val = 0
				switch r.Intn(4) {
				case 0:
					m.Data = r.Bytes(7 + r.Intn(40)) // intact but unparsable
				case 1:
					m.Data = r.Bytes(7)
				case 2:
					m.Data = c06LongNameTG(int64(77 + r.Intn(1000)))
				default:
					m.Data = make([]byte, 16) // id 0, zero commands
				}
			}
			return m
		case k < 98:
			return c06Mut{Op: "ckpt", A: 1 + r.Intn(nrec+1), B: r.Intn(8), Val: int64(r.Intn(3) - 1)}
		default:
			return c06Mut{Op: "append", Data: [][]byte{{2}, {0}, {1}, {0, 0, 0, 0, 0, 0, 0, 0, 0}, {9, 9}}[r.Intn(5)]}
		}
	}
	switch k := r.Intn(100); {
	case k < 4: // the valid file itself
	case k < 10: // arbitrary garbage behind a plausible status record
		in.IsRaw = true
		hdr := []byte{2, 1, byte(1 + 2*r.Intn(2))}
		own := make([]byte, 8)
		binary.LittleEndian.PutUint64(own, uint64(1+r.Intn(9999)))
		body := r.Bytes(r.Intn(120))
		if r.Bool() { // small alphabet: message ids and zeros are frequent
			for j := range body {
				body[j] = []byte{0, 0, 1, 2, 1, 0, 7, 255}[r.Intn(8)]
			}
		}
		in.Raw = append(append(hdr, own...), body...)
		if r.Chance(20) {
			in.Raw = in.Raw[:r.Intn(len(in.Raw)+1)]
		}
		if r.Chance(10) {
			in.Raw[2] = byte(r.Intn(5)) // other replay states
		}
		if r.Chance(5) && len(in.Raw) >= 11 {
			copy(in.Raw[3:11], make([]byte, 8)) // owner 0
		}
	case k < 80:
		in.Muts = []c06Mut{one()}
	default:
		in.Muts = []c06Mut{one(), one()}
		if r.Chance(30) {
			in.Muts = append(in.Muts, one())
		}
	}
	if tier == "thorough" && i < 4000 { // truncation at EVERY offset of the first bases
		b0, _ := c06GetBase(i % 3)
		in = c06In{Base: i % 3, Muts: []c06Mut{{Op: "trunc", Off: (i / 3) % (len(b0.bytes) + 1)}}}
	}
	return in
}

// c06LongNameTG: a TG body produced by the REAL serializer from a command with a 300-byte column name
// (C28's class): intact, yet ParseTGData mis-parses it.
func c06LongNameTG(id int64) []byte {
	wc := &wal.WriteCommand{RecordType: io.FIXED, WALKeyPath: "S0/1D/OHLC/2020.bin", Offset: 37024 + 16*40, Index: 41, Data: make([]byte, 8),
		DataShapes: []io.DataShape{{Name: "Epoch", Type: io.INT64}, {Name: strings.Repeat("N", 300), Type: io.FLOAT32}}}
	b, _ := executor.VerifSerializeTG(id, []*wal.WriteCommand{wc})
	return b
}

func init() {
	Register(&Spec{
		ID:          "C06",
		CoqRequire:  "Require Import MS.Base.Hex MS.Corr.C06.",
		CoqCaseType: "C06.case",
		Rule: "valid WAL files written by the real writer (1-5 transaction groups of 1-3 rows into two 1D buckets, optional checkpoint), " +
			"then 1-3 structured mutations: truncate (60% at record/field boundaries), bit flip, zero fill, overwrite, insert garbage / nine zero " +
			"bytes / lone message ids, delete / duplicate / swap records, length-field edits (0,1,6,7,8,-1,min,max,+-1,+-16, around 1000*size, " +
			"127..65536), crafted intact TGs (fresh id, duplicate id, missing target file, zero commands, random body, 7-byte body, C28 long-name body), " +
			"inserted unchecksummed checkpoint records, appended lone ids; ~6% raw garbage behind a status record; thorough: truncation at EVERY offset; " +
			"distinct = distinct input; non-trivial = mutated file inside the guard with >= 1 transaction preceding the damage",
		Gen: c06Gen,
		Run: c06Run,
	})
}
