package props

import (
	"encoding/json"
	"fmt"
	"net/http"
	"reflect"
	"sort"
	"strings"
	"time"

	"github.com/vmihailenco/msgpack"

	"github.com/alpacahq/marketstore/v4/frontend"
	"github.com/alpacahq/marketstore/v4/utils/io"

	"verifharness/internal/cq"
	"verifharness/internal/mk"
	"verifharness/internal/rng"
)

// C27 — Query/write wire format round-trips.
// Implementation under test: io.NewNumpyDataset / NewNumpyMultiDataset / (*NumpyMultiDataset).Append
// (folded exactly as frontend/query.go executeQuery does, and additionally through the real
// DataService.Query loop), the real msgpack Marshal/Unmarshal of the RPC envelopes, and the two
// decoders (*NumpyMultiDataset).ToColumnSeriesMap (write path) and
// (*MultiQueryResponse).ToColumnSeriesMap (query path).

type c27Col struct {
	Name string `json:"name"`
	Type string `json:"type"`
	Data []byte `json:"data"`
}
type c27Bucket struct {
	Item string   `json:"item"` // NewTimeBucketKey(Item, Cat); Zero => the zero-value TimeBucketKey
	Cat  string   `json:"cat"`
	Zero bool     `json:"zero,omitempty"`
	Cols []c27Col `json:"cols"`
}
type c27In struct {
	Buckets []c27Bucket `json:"buckets"`
	// Shared: the columns of all buckets are sub-slices (cap > len) of ONE backing array per column position,
	// laid out in the physical order Phys (a permutation of the bucket indices) — as when several buckets are
	// cut out of one read buffer.  Values are the same as with independent columns; only aliasing differs.
	Shared bool  `json:"shared,omitempty"`
	Phys   []int `json:"phys,omitempty"`
}

var c27WireTypes = []string{"float32", "float64", "int16", "int32", "int64", "uint8", "uint16", "uint32", "uint64", "string16", "byte"}
var c27Names = []string{"Open", "High", "Low", "Close", "Volume", "Bid", "Ask", "x", "A", "b1", "Nanoseconds", "Ticks", "V2"}

// c27Canonical mirrors Wire.key_canonical (decode_key k = k) WITHOUT calling the code under test:
// the first two colon-separated parts, an empty/missing category replaced by the default schema.
func c27Canonical(k string) bool {
	parts := strings.Split(k, ":")
	cat := ""
	if len(parts) >= 2 {
		cat = parts[1]
	}
	if cat == "" {
		cat = "Symbol/Timeframe/AttributeGroup"
	}
	return parts[0]+":"+cat == k
}

func c27Key(b c27Bucket) io.TimeBucketKey {
	if b.Zero {
		return io.TimeBucketKey{}
	}
	return *io.NewTimeBucketKey(b.Item, b.Cat)
}

func c27Gen(r *rng.Rand, i int, tier string) interface{} {
	maxRows, pStr16 := 5, 25 // quick: few rows, string16 (64 bytes/value) kept rare so that cases.v stays small
	if tier == "thorough" {
		maxRows, pStr16 = 50, 100
	}
	nb := 1 + r.Intn(5)
	if tier != "thorough" {
		nb = 1 + r.Intn(4)
	}
	clean := r.Chance(45) // no perturbation at all: inside the theorem's guard
	if !clean && r.Chance(3) {
		nb = 0
	}
	// base shape
	type sh struct{ name, typ string }
	ncols := 1 + r.Intn(6)
	if tier != "thorough" {
		ncols = 1 + r.Intn(5)
	}
	var base []sh
	used := map[string]bool{}
	for j := 0; j < ncols; j++ {
		name := c27Names[r.Intn(len(c27Names))]
		if j == 0 && r.Chance(85) {
			name = "Epoch"
		}
		for used[name] {
			name = fmt.Sprintf("%s%d", name, j)
		}
		used[name] = true
		typ := c27WireTypes[r.Intn(len(c27WireTypes))]
		for typ == "string16" && !r.Chance(pStr16) {
			typ = c27WireTypes[r.Intn(len(c27WireTypes))]
		}
		if name == "Epoch" {
			typ = "int64"
		}
		if !clean && r.Chance(3) {
			typ = "bool" // not wire-supported
		}
		base = append(base, sh{name, typ})
	}
	in := c27In{}
	seenDecoded := map[string]bool{}
	for b := 0; b < nb; b++ {
		bk := c27Bucket{Item: fmt.Sprintf("SYM%d/1Min/OHLCV", b), Cat: ""}
		kk0 := r.Intn(100)
		if clean && kk0 < 8 {
			kk0 = 8
		}
		if clean && kk0 >= 20 {
			kk0 = 99
		}
		switch k := kk0; {
		case k < 4:
			bk.Item = fmt.Sprintf("S%d:X/1D/TICK", b) // colon inside the item key
		case k < 6:
			bk.Zero = true
		case k < 8:
			bk.Cat = fmt.Sprintf("Sym/TF/AG:%d", b) // colon inside the category
		case k < 16:
			bk.Cat = "Symbol/Timeframe/AttributeGroup"
		case k < 20:
			bk.Cat = "Sym/TF/AG"
		case k < 23 && b > 0:
			bk.Item, bk.Cat, bk.Zero = in.Buckets[0].Item, in.Buckets[0].Cat, in.Buckets[0].Zero // duplicate key
		}
		kk := c27Key(bk)
		dec := io.NewTimeBucketKeyFromString(kk.String()).String()
		dup := false
		for _, o := range in.Buckets {
			ok := c27Key(o)
			if ok.String() == kk.String() {
				dup = true
			}
		}
		if seenDecoded[dec] && !dup { // distinct keys that collide after decoding: outside the model
			bk = c27Bucket{Item: fmt.Sprintf("SYM%d/1Min/OHLCV", b)}
			kk = c27Key(bk)
			dec = io.NewTimeBucketKeyFromString(kk.String()).String()
		}
		seenDecoded[dec] = true
		shape := append([]sh{}, base...)
		pk := r.Intn(100)
		if clean {
			pk = 99
		}
		switch k := pk; {
		case k < 9: // same names, one type changed
			j := r.Intn(len(shape))
			shape[j].typ = c27WireTypes[r.Intn(len(c27WireTypes))]
		case k < 13: // one name changed
			j := r.Intn(len(shape))
			shape[j].name = shape[j].name + "_"
		case k < 16: // column count changed
			if r.Bool() && len(shape) > 1 {
				shape = shape[:len(shape)-1]
			} else {
				shape = append(shape, sh{"Extra", "int32"})
			}
		}
		rows := 1 + r.Intn(maxRows)
		if !clean && r.Chance(12) {
			rows = 0
		}
		ragged := !clean && r.Chance(3)
		for _, s := range shape {
			n := rows
			if ragged && r.Bool() {
				n = rows + r.Intn(3) - 1
				if n < 0 {
					n = 0
				}
			}
			bk.Cols = append(bk.Cols, c27Col{s.name, s.typ, c29Vals(r, s.typ, n)})
		}
		in.Buckets = append(in.Buckets, bk)
	}
	// one shared backing array per column, buckets cut out of it in a shuffled physical order
	if clean && len(in.Buckets) >= 2 && r.Chance(60) {
		in.Shared = true
		in.Phys = make([]int, len(in.Buckets))
		for j := range in.Phys {
			in.Phys[j] = j
		}
		for j := len(in.Phys) - 1; j > 0; j-- {
			k := r.Intn(j + 1)
			in.Phys[j], in.Phys[k] = in.Phys[k], in.Phys[j]
		}
	}
	return in
}

// c27SharedColumns builds, for an input with Shared set, every bucket's columns as sub-slices of one typed
// backing array per column position (physical order in.Phys).  nil when the layout is not applicable (column
// counts or types differ between buckets, ragged columns, bad permutation).
func c27SharedColumns(in c27In) [][]interface{} {
	nb := len(in.Buckets)
	if !in.Shared || nb == 0 || len(in.Phys) != nb {
		return nil
	}
	seen := make([]bool, nb)
	for _, p := range in.Phys {
		if p < 0 || p >= nb || seen[p] {
			return nil
		}
		seen[p] = true
	}
	nc := len(in.Buckets[0].Cols)
	for _, b := range in.Buckets {
		if len(b.Cols) != nc {
			return nil
		}
		for j, c := range b.Cols {
			sz := mk.SizeOf(c.Type)
			if c.Type != in.Buckets[0].Cols[j].Type || sz == 0 || len(c.Data)%sz != 0 {
				return nil
			}
		}
	}
	out := make([][]interface{}, nb)
	for i := range out {
		out[i] = make([]interface{}, nc)
	}
	for j := 0; j < nc; j++ {
		typ := in.Buckets[0].Cols[j].Type
		sz := mk.SizeOf(typ)
		var all []byte
		start := make([]int, nb)
		for _, p := range in.Phys {
			start[p] = len(all) / sz
			all = append(all, in.Buckets[p].Cols[j].Data...)
		}
		big, e := mk.Col(typ, all)
		if e != nil {
			return nil
		}
		bv := reflect.ValueOf(big)
		for bi := range in.Buckets {
			rows := len(in.Buckets[bi].Cols[j].Data) / sz
			out[bi][j] = bv.Slice(start[bi], start[bi]+rows).Interface() // cap reaches the end of the backing array
		}
	}
	return out
}

// ---- observed values ----
type c27Wire struct {
	Types  []string       `json:"types"`
	Names  []string       `json:"names"`
	Data   [][]byte       `json:"data"`
	Length int            `json:"length"`
	Start  map[string]int `json:"start"`
	Lens   map[string]int `json:"lens"`
}
type c27ObsCol struct {
	Name string `json:"name"`
	Type int    `json:"type"`
	Data []byte `json:"data"`
}
type c27ObsCSM struct {
	Code int                    `json:"code"`
	Same bool                   `json:"same"` // decoded map identical to the input buckets (then Map is not printed to Coq)
	Map  map[string][]c27ObsCol `json:"map,omitempty"`
}
type c27Obs struct {
	Keys    []string  `json:"keys"`
	EncCode int       `json:"enc_code"`
	EncNil  bool      `json:"enc_nil"`
	Wire    *c27Wire  `json:"wire,omitempty"`
	FoldTie bool      `json:"foldtie"`
	TieNote string    `json:"tienote,omitempty"`
	Dec     c27ObsCSM `json:"dec"`
	Resp    c27ObsCSM `json:"resp"`
}

type c27B struct {
	tbk io.TimeBucketKey
	cs  *io.ColumnSeries
}

// c27Fold is frontend/query.go:231-251 with an explicit iteration order (the loop is inline in
// executeQuery and ranges over a Go map; c27RealFold runs the original and the two are compared).
func c27Fold(bs []c27B) (nmds *io.NumpyMultiDataset, code int) {
	defer func() {
		if p := recover(); p != nil {
			nmds, code = nil, 2
		}
	}()
	var err error
	for _, b := range bs {
		nds, err2 := io.NewNumpyDataset(b.cs)
		if err != nil { // sic: the original tests err, not err2
			_ = err2
			return nil, 1
		}
		if nmds == nil {
			nmds, err = io.NewNumpyMultiDataset(nds, b.tbk)
			if err != nil {
				return nil, 1
			}
		} else {
			if err3 := nmds.Append(b.cs, b.tbk); err3 != nil {
				return nil, 1
			}
		}
	}
	return nmds, 0
}

type c27FakeQuery struct{ csm io.ColumnSeriesMap }

func (f c27FakeQuery) ExecuteQuery(tbk *io.TimeBucketKey, start, end time.Time, limit int, fromStart bool, cols []string,
) (io.ColumnSeriesMap, error) {
	return f.csm, nil
}

// c27RealFold runs the real DataService.Query -> executeQuery loop over a ColumnSeriesMap.
func c27RealFold(bs []c27B) (nmds *io.NumpyMultiDataset, code int) {
	defer func() {
		if p := recover(); p != nil {
			nmds, code = nil, 2
		}
	}()
	csm := io.NewColumnSeriesMap()
	for _, b := range bs {
		csm[b.tbk] = b.cs
	}
	ds := frontend.NewDataService("", nil, nil, nil, c27FakeQuery{csm})
	var resp frontend.MultiQueryResponse
	req := &frontend.MultiQueryRequest{Requests: []frontend.QueryRequest{{Destination: "X/1Min/OHLCV"}}}
	if err := ds.Query((*http.Request)(nil), req, &resp); err != nil {
		return nil, 1
	}
	return resp.Responses[0].Result, 0
}

func c27WireOf(n *io.NumpyMultiDataset) *c27Wire {
	w := &c27Wire{Types: n.ColumnTypes, Names: n.ColumnNames, Length: n.Length, Start: n.StartIndex, Lens: n.Lengths}
	for _, d := range n.ColumnData {
		w.Data = append(w.Data, append([]byte{}, d...))
	}
	return w
}

func c27WireEq(a, b *c27Wire) bool {
	if len(a.Types) != len(b.Types) || len(a.Names) != len(b.Names) || len(a.Data) != len(b.Data) || a.Length != b.Length {
		return false
	}
	for i := range a.Types {
		if a.Types[i] != b.Types[i] {
			return false
		}
	}
	for i := range a.Names {
		if a.Names[i] != b.Names[i] {
			return false
		}
	}
	for i := range a.Data {
		if string(a.Data[i]) != string(b.Data[i]) {
			return false
		}
	}
	return reflect.DeepEqual(a.Start, b.Start) && reflect.DeepEqual(a.Lens, b.Lens)
}

func c27ObsOf(m map[io.TimeBucketKey]*io.ColumnSeries) map[string][]c27ObsCol {
	out := map[string][]c27ObsCol{}
	for k, cs := range m {
		kk := k
		var cols []c27ObsCol
		if cs != nil {
			for _, ds := range cs.GetDataShapes() {
				cols = append(cols, c27ObsCol{ds.Name, int(ds.Type), mk.Raw(cs.GetColumn(ds.Name))})
			}
		}
		out[kk.String()] = cols
	}
	return out
}

func c27CoqCSM(o c27ObsCSM) string {
	if o.Same {
		return cq.Rec(cq.F("d_code", cq.Nat(o.Code)), cq.F("d_same", "true"), cq.F("d_map", "[]"))
	}
	var keys []string
	for k := range o.Map {
		keys = append(keys, k)
	}
	sort.Strings(keys)
	var ents []string
	for _, k := range keys {
		var cols []string
		for _, c := range o.Map[k] {
			cols = append(cols, cq.Tuple(cq.Hex([]byte(c.Name)), cq.Z(int64(c.Type)), cq.Hex(c.Data)))
		}
		ents = append(ents, cq.Tuple(cq.Hex([]byte(k)), cq.List(cols)))
	}
	return cq.Rec(cq.F("d_code", cq.Nat(o.Code)), cq.F("d_same", "false"), cq.F("d_map", cq.List(ents)))
}

func c27MapEq(a, b map[string][]c27ObsCol) bool {
	if len(a) != len(b) {
		return false
	}
	for k, ca := range a {
		cb, ok := b[k]
		if !ok || len(ca) != len(cb) {
			return false
		}
		for j := range ca {
			if ca[j].Name != cb[j].Name || ca[j].Type != cb[j].Type || string(ca[j].Data) != string(cb[j].Data) {
				return false
			}
		}
	}
	return true
}

func c27CoqMap(m map[string]int) string {
	var keys []string
	for k := range m {
		keys = append(keys, k)
	}
	sort.Strings(keys)
	var ents []string
	for _, k := range keys {
		ents = append(ents, cq.Tuple(cq.Hex([]byte(k)), cq.Nat(m[k])))
	}
	return cq.List(ents)
}

func c27Run(raw json.RawMessage) (res Result, err error) {
	var in c27In
	if err = json.Unmarshal(raw, &in); err != nil {
		return
	}
	// ---- build the real column series; the model's input is what the implementation holds ----
	var bs []c27B
	type held struct {
		names []string
		types []io.EnumElementType
		raws  [][]byte
	}
	var hs []held
	obs := c27Obs{FoldTie: true}
	var coqB []string
	shared := c27SharedColumns(in)
	for bi, b := range in.Buckets {
		cs := io.NewColumnSeries()
		for j, c := range b.Cols {
			col, e := mk.Col(c.Type, c.Data)
			if e != nil {
				return res, e
			}
			if shared != nil {
				col = shared[bi][j]
			}
			cs.AddColumn(c.Name, col)
		}
		tbk := c27Key(b)
		bs = append(bs, c27B{tbk, cs})
		h := held{}
		var cols []string
		for _, ds := range cs.GetDataShapes() {
			rc := mk.Raw(cs.GetColumn(ds.Name))
			h.names, h.types, h.raws = append(h.names, ds.Name), append(h.types, ds.Type), append(h.raws, rc)
			cols = append(cols, cq.Tuple(cq.Hex([]byte(ds.Name)), cq.Z(int64(ds.Type)), cq.Hex(rc)))
		}
		hs = append(hs, h)
		obs.Keys = append(obs.Keys, tbk.String())
		coqB = append(coqB, cq.Tuple(cq.Hex([]byte(tbk.String())), cq.List(cols)))
	}
	// ---- encode (replica of the loop, explicit order) ----
	nmds, code := c27Fold(bs)
	obs.EncCode, obs.EncNil = code, code == 0 && nmds == nil
	// ---- tie of the replica to the real executeQuery loop ----
	distinct := true
	for i := range obs.Keys {
		for j := 0; j < i; j++ {
			if obs.Keys[i] == obs.Keys[j] {
				distinct = false
			}
		}
	}
	if distinct && len(bs) > 0 {
		rn, rcode := c27RealFold(bs)
		switch {
		case rcode == 1:
			if code == 0 {
				obs.FoldTie, obs.TieNote = false, "real loop returned an error, the replica succeeded"
			}
		case rcode == 2:
			obs.TieNote = "real loop panicked (order-dependent): not compared"
		case rn == nil:
			obs.FoldTie, obs.TieNote = false, "real loop returned nil"
		default:
			// recover the map iteration order from StartIndex (zero-length buckets sort first among ties)
			idx := make([]int, len(bs))
			for i := range idx {
				idx[i] = i
			}
			sort.SliceStable(idx, func(a, b int) bool {
				ka, kb := obs.Keys[idx[a]], obs.Keys[idx[b]]
				if rn.StartIndex[ka] != rn.StartIndex[kb] {
					return rn.StartIndex[ka] < rn.StartIndex[kb]
				}
				return rn.Lengths[ka] == 0 && rn.Lengths[kb] != 0
			})
			ambiguous := false
			for i := 1; i < len(idx); i++ {
				ka, kb := obs.Keys[idx[i-1]], obs.Keys[idx[i]]
				if rn.StartIndex[ka] == rn.StartIndex[kb] && rn.Lengths[ka] == 0 && rn.Lengths[kb] == 0 &&
					!(reflect.DeepEqual(hs[idx[i-1]].names, hs[idx[i]].names) && reflect.DeepEqual(hs[idx[i-1]].types, hs[idx[i]].types)) {
					ambiguous = true
				}
			}
			if ambiguous {
				obs.TieNote = "order of zero-length buckets with different shapes not recoverable: not compared"
			} else {
				ord := make([]c27B, len(bs))
				for i, j := range idx {
					ord[i] = bs[j]
				}
				pn, pcode := c27Fold(ord)
				if pcode != 0 || pn == nil || !c27WireEq(c27WireOf(pn), c27WireOf(rn)) {
					obs.FoldTie, obs.TieNote = false, fmt.Sprintf("replica in the recovered order gives code %d / a different dataset", pcode)
				}
			}
		}
	}
	// ---- real msgpack, both decoders ----
	if code == 0 && nmds != nil {
		func() {
			defer func() {
				if p := recover(); p != nil {
					obs.Dec.Code = 2
				}
			}()
			rawW, e := msgpack.Marshal(&frontend.MultiWriteRequest{Requests: []frontend.WriteRequest{{Data: nmds}}})
			if e != nil {
				panic(e)
			}
			var back frontend.MultiWriteRequest
			if e = msgpack.Unmarshal(rawW, &back); e != nil {
				panic(e)
			}
			obs.Wire = c27WireOf(back.Requests[0].Data)
			m, e := back.Requests[0].Data.ToColumnSeriesMap()
			if e != nil {
				obs.Dec.Code = 1
				return
			}
			obs.Dec.Map = c27ObsOf(m)
		}()
		func() {
			defer func() {
				if p := recover(); p != nil {
					obs.Resp.Code = 2
				}
			}()
			rawR, e := msgpack.Marshal(&frontend.MultiQueryResponse{Responses: []frontend.QueryResponse{{Result: nmds}}})
			if e != nil {
				panic(e)
			}
			var back frontend.MultiQueryResponse
			if e = msgpack.Unmarshal(rawR, &back); e != nil {
				panic(e)
			}
			m, e := back.ToColumnSeriesMap()
			if e != nil {
				obs.Resp.Code = 1
				return
			}
			obs.Resp.Map = c27ObsOf(*m)
		}()
	}
	// identical to the input? (only meaningful when the input keys are distinct)
	if distinct && len(bs) > 0 {
		wantAll := map[string][]c27ObsCol{}
		for i, h := range hs {
			var cols []c27ObsCol
			for j := range h.names {
				cols = append(cols, c27ObsCol{h.names[j], int(h.types[j]), h.raws[j]})
			}
			wantAll[obs.Keys[i]] = cols
		}
		obs.Dec.Same = obs.Dec.Code == 0 && obs.Dec.Map != nil && c27MapEq(obs.Dec.Map, wantAll)
		obs.Resp.Same = obs.Resp.Code == 0 && obs.Resp.Map != nil && c27MapEq(obs.Resp.Map, wantAll)
	}
	res.Obs = obs
	w := obs.Wire
	if w == nil {
		w = &c27Wire{}
	}
	var types, names, data []string
	for _, t := range w.Types {
		types = append(types, cq.Str(t))
	}
	for _, n := range w.Names {
		names = append(names, cq.Hex([]byte(n)))
	}
	for _, d := range w.Data {
		data = append(data, cq.Hex(d))
	}
	res.Coq = cq.Rec(cq.F("k_buckets", cq.List(coqB)), cq.F("k_enc_code", cq.Nat(obs.EncCode)), cq.F("k_enc_nil", cq.Bool(obs.EncNil)),
		cq.F("k_types", cq.List(types)), cq.F("k_names", cq.List(names)), cq.F("k_data", cq.List(data)),
		cq.F("k_length", cq.Nat(w.Length)), cq.F("k_start", c27CoqMap(w.Start)), cq.F("k_lens", c27CoqMap(w.Lens)),
		cq.F("k_foldtie", cq.Bool(obs.FoldTie)), cq.F("k_dec", c27CoqCSM(obs.Dec)), cq.F("k_resp", c27CoqCSM(obs.Resp)))

	// ---- executable mirrors of Wire.dom / no_zero_rows / same_shapes / keys_canonical ----
	dom := len(bs) > 0 && distinct
	zeroRows, sameShapes, canonical := false, true, true
	for i, h := range hs {
		if len(h.names) == 0 {
			dom = false
			continue
		}
		n := len(h.raws[0]) / h.types[0].Size()
		for j := range h.names {
			if _, ok := io.ToTypeStr(h.types[j]); !ok {
				dom = false
			}
			if len(h.raws[j]) != n*h.types[j].Size() {
				dom = false
			}
		}
		if n == 0 {
			zeroRows = true
		}
		if !(reflect.DeepEqual(h.names, hs[0].names) && reflect.DeepEqual(h.types, hs[0].types)) {
			sameShapes = false
		}
		if !c27Canonical(obs.Keys[i]) {
			canonical = false
		}
	}
	// zero rows and mixed shapes are no longer guards (fixed in /repo): only the key class is left
	res.InDomain = dom && canonical

	// ---- property oracle on the implementation's outputs ----
	// Inside the property's domain the conversion must either be refused with an error, or both
	// decoders must return exactly the input buckets (keys, column names in order, types, bytes).
	res.Holds = true
	if dom {
		want := map[string][]c27ObsCol{}
		for i, h := range hs {
			var cols []c27ObsCol
			for j := range h.names {
				cols = append(cols, c27ObsCol{h.names[j], int(h.types[j]), h.raws[j]})
			}
			want[obs.Keys[i]] = cols
		}
		check := func(which string, o c27ObsCSM) {
			if !res.Holds {
				return
			}
			if o.Code != 0 {
				res.Holds, res.Detail = false, fmt.Sprintf("%s: decoder failed with code %d", which, o.Code)
				return
			}
			for k, cols := range want {
				got, ok := o.Map[k]
				if !ok {
					res.Holds, res.Detail = false, fmt.Sprintf("%s: bucket %q is missing from the decoded map", which, k)
					return
				}
				if len(got) != len(cols) {
					res.Holds, res.Detail = false, fmt.Sprintf("%s: bucket %q has %d columns, want %d", which, k, len(got), len(cols))
					return
				}
				for j := range cols {
					if got[j].Name != cols[j].Name || got[j].Type != cols[j].Type || string(got[j].Data) != string(cols[j].Data) {
						res.Holds = false
						res.Detail = fmt.Sprintf("%s: bucket %q column %d: got %s/type %d/%d bytes, want %s/type %d/%d bytes (or different values)",
							which, k, j, got[j].Name, got[j].Type, len(got[j].Data), cols[j].Name, cols[j].Type, len(cols[j].Data))
						return
					}
				}
			}
			if len(o.Map) != len(want) {
				res.Holds, res.Detail = false, fmt.Sprintf("%s: %d buckets decoded, want %d", which, len(o.Map), len(want))
			}
		}
		switch obs.EncCode {
		case 1: // refused with an error: allowed
		case 2:
			res.Holds, res.Detail = false, "building the dataset panicked"
		default:
			check("write-path ToColumnSeriesMap", obs.Dec)
			check("query-path ToColumnSeriesMap", obs.Resp)
		}
		if !res.Holds && !canonical {
			res.Class = "noncanonical-bucket-key" // the only known finding class left
		}
	}
	if !obs.FoldTie && res.Holds {
		// the replica of the loop no longer matches the real loop: a broken correspondence (reported through agrees)
		res.Detail = "fold tie broken: " + obs.TieNote
	}
	// ---- tags ----
	res.Tags = []string{fmt.Sprintf("buckets=%d", len(bs)), fmt.Sprintf("enc=%d", obs.EncCode)}
	if len(hs) > 0 {
		res.Tags = append(res.Tags, fmt.Sprintf("cols=%d", len(hs[0].names)))
	}
	for _, t := range []struct {
		on  bool
		tag string
	}{{dom, "property-domain"}, {res.InDomain, "in-guard"}, {zeroRows, "zero-row-bucket"}, {!sameShapes, "shape-mismatch"},
		{!canonical, "noncanonical-key"}, {!distinct, "duplicate-key"}, {shared != nil, "shared-backing-array"}, {obs.TieNote != "", "tie-not-compared"},
		{obs.Dec.Code == 2 || obs.Resp.Code == 2, "decoder-panic"}} {
		if t.on {
			res.Tags = append(res.Tags, t.tag)
		}
	}
	seenT := map[string]bool{}
	rows := 0
	for _, h := range hs {
		for j, t := range h.types {
			if !seenT[t.String()] {
				seenT[t.String()] = true
				res.Tags = append(res.Tags, "type:"+strings.ToLower(t.String()))
			}
			if j == 0 && t.Size() > 0 {
				rows += len(h.raws[0]) / t.Size()
			}
		}
	}
	res.Tags = append(res.Tags, fmt.Sprintf("rows=%d", bucket(rows)))
	res.Nontrivial = res.InDomain && sameShapes && len(bs) >= 2 && len(hs[0].names) >= 2
	res.Key = string(raw)
	return res, nil
}

func init() {
	Register(&Spec{
		ID:          "C27",
		CoqRequire:  "Require Import MS.Corr.C27.",
		CoqCaseType: "C27.case",
		Rule: "0-4 buckets (0-5 thorough) sharing a base shape of 1-5 (1-6) columns over the 11 wire types (bool rarely), 1-5 rows per bucket (1-50 thorough, " +
			"10% forced zero), per bucket 9% one type changed / 4% one name changed / 3% column count changed / 3% ragged columns; " +
			"60% of the unperturbed multi-bucket cases cut all buckets' columns out of one shared backing array per column (cap > len) in a shuffled physical order; keys mostly SYM/1Min/OHLCV with default or explicit category, ~8% non-canonical (colon inside, zero value), 3% duplicate; " +
			"distinct = distinct input JSON; non-trivial = inside the theorem's domain, one shared shape, >=2 buckets and >=2 columns",
		Gen: c27Gen,
		Run: c27Run,
	})
}
