package props

import (
	"encoding/json"
	"fmt"
	"path/filepath"
	"regexp"
	"sort"
	"strings"
	"sync"
	"time"

	"github.com/alpacahq/marketstore/v4/executor"
	"github.com/alpacahq/marketstore/v4/plugins/trigger"
	"github.com/alpacahq/marketstore/v4/utils/io"

	"verifharness/internal/cq"
	"verifharness/internal/rng"
	"verifharness/internal/tginst"
)

// C32 — Every flushed write reaches matching triggers exactly once.
// Implementation under test: a real instance (catalog, WAL file, trigger dispatcher, optional SyncWAL
// goroutine) in a temporary root; recording triggers registered through trigger.NewMatcher /
// executor.StartNewTriggerPluginDispatcher; real Writer.WriteCSM (-> WriteRecords -> QueueWriteCommand ->
// RequestFlush -> FlushToWAL -> FlushCommandsToWAL -> AppendRecord/DispatchRecords -> run -> fire).
// Ground truth for "written in a flushed transaction": the serialized TG the WAL goroutine hands to the
// ReplicationSender after the WAL sync, parsed by the real executor.ParseTGData.

type c32Trig struct {
	On     string `json:"on"`
	Panics bool   `json:"panics,omitempty"` // the trigger panics after recording (fire() recovers)
}
type c32Bucket struct {
	Sym  string `json:"sym"`
	TF   string `json:"tf"`
	Attr string `json:"attr"` // TICK* = variable-length bucket, anything else fixed
	Year int    `json:"year"`
}
type c32Rows struct {
	B      int     `json:"b"` // bucket index
	Epochs []int64 `json:"epochs"`
	A      []int32 `json:"a"`
	Bv     []int64 `json:"bv"`
}
type c32Call struct {
	Rows []c32Rows `json:"rows"` // one WriteCSM call (all buckets of one record type)
}
type c32Probe struct {
	On  string `json:"on"`
	Key string `json:"key"`
}
type c32In struct {
	Trigs   []c32Trig   `json:"trigs"`
	Buckets []c32Bucket `json:"buckets"`
	Writers [][]c32Call `json:"writers"`
	Mode    string      `json:"mode"`  // "sync": no WAL goroutine, calls made one at a time in Order; "bg": SyncWAL + one goroutine per writer
	Order   []int       `json:"order"` // sync mode: which writer makes its next call
	Probes  []c32Probe  `json:"probes"`
}

var c32Syms = []string{"AAPL", "XAAPL", "AAPLX", "AA", "BRK.A", "BRKXA", "T", "a_b", "MSFT"}
var c32TFs = []string{"1Min", "5Min", "1H", "1D", "1Sec", "15Min"}
var c32Attrs = []string{"OHLCV", "OHLCV2", "TICK", "OHLC", "TICK2"}

func (b c32Bucket) isVar() bool { return strings.HasPrefix(b.Attr, "TICK") }

// c32InModel mirrors Dispatch.parse_on: ASCII, no regexp metacharacter other than '*' and '.'.
func c32InModel(on string) bool {
	for i := 0; i < len(on); i++ {
		if on[i] >= 0x80 || strings.IndexByte(`\+?()|[]{}^$`, on[i]) >= 0 {
			return false
		}
	}
	return true
}

// c32Glob is the oracle's own matcher (independent of regexp): '*' = one or more non-'/' bytes, '.' = any
// byte but '\n', anything else literal; the pattern may match anywhere in the key (unanchored search),
// which is what Matcher.Match implements.
func c32Glob(on, key string) bool {
	var here func(p, s string) bool
	here = func(p, s string) bool {
		if p == "" {
			return true
		}
		switch p[0] {
		case '*':
			for n := 1; n <= len(s) && s[n-1] != '/'; n++ {
				if here(p[1:], s[n:]) {
					return true
				}
			}
			return false
		case '.':
			return s != "" && s[0] != '\n' && here(p[1:], s[1:])
		default:
			return s != "" && s[0] == p[0] && here(p[1:], s[1:])
		}
	}
	for i := 0; i <= len(key); i++ {
		if here(on, key[i:]) {
			return true
		}
	}
	return false
}

// c32OracleMatch: the oracle's notion of "pattern matches the bucket": the glob above inside the model's
// alphabet; outside it (other regexp metacharacters) the documented construction itself.
func c32OracleMatch(on, key string) bool {
	if c32InModel(on) {
		return c32Glob(on, key)
	}
	m, _ := regexp.MatchString(strings.Replace(on, "*", "[^/]+", -1), key)
	return m
}

func c32Pattern(r *rng.Rand, buckets []c32Bucket) string {
	b := buckets[r.Intn(len(buckets))]
	switch r.Intn(20) {
	case 0:
		return "*/" + b.TF + "/" + b.Attr
	case 1:
		return b.Sym + "/" + b.TF + "/" + b.Attr
	case 2:
		return b.Sym + "/*/" + b.Attr
	case 3:
		return "*/*/*"
	case 4:
		return "*"
	case 5:
		return ""
	case 6:
		return b.Sym + "/" + b.TF + "/" + b.Attr + fmt.Sprintf("/%d.bin", b.Year)
	case 7:
		return b.TF
	case 8:
		return "*/" + b.TF + "/OHLC" // prefix of OHLCV / OHLCV2
	case 9:
		return b.Sym + "/" + b.TF + "/" + b.Attr + "/*.bin"
	case 10:
		return "**/" + b.TF
	case 11:
		return "NOPE/*"
	case 12:
		return "/" + b.TF + "/"
	case 13:
		return b.Sym + "/*"
	case 14:
		return "*/" + b.TF + "/" + b.Attr + "/*"
	case 15:
		return strings.Replace(b.Sym, ".", "X", 1) + "/" + b.TF // no dot: literal
	case 16:
		return "*" + b.Sym[len(b.Sym)-1:] + "/" + b.TF
	case 17:
		return b.Sym + "/" + b.TF + "/" + b.Attr + "/*/x"
	case 18:
		return "*.bin"
	default:
		return "*/" + b.TF + "/*"
	}
}

var c32OutOfModel = []string{"AAPL/(1Min|5Min)/OHLCV", "A+/1Min", "^AAPL/1Min/OHLCV", "*/1Min/OHLCV/[0-9]+.bin$", "AAPL/1Min/OHLCV$", "(", "a\\b"}

func c32Gen(r *rng.Rand, i int, tier string) interface{} {
	in := c32In{Mode: "sync"}
	if r.Chance(45) {
		in.Mode = "bg"
	}
	nb := 1 + r.Intn(4)
	seen := map[string]bool{}
	for len(in.Buckets) < nb {
		b := c32Bucket{Sym: c32Syms[r.Intn(len(c32Syms))], TF: c32TFs[r.Intn(len(c32TFs))], Attr: c32Attrs[r.Intn(len(c32Attrs))], Year: 2019 + r.Intn(3)}
		k := b.Sym + "/" + b.TF + "/" + b.Attr
		if seen[k] {
			continue
		}
		seen[k] = true
		in.Buckets = append(in.Buckets, b)
	}
	nt := r.Intn(5)
	for j := 0; j < nt; j++ {
		t := c32Trig{On: c32Pattern(r, in.Buckets), Panics: r.Chance(8)}
		if r.Chance(4) {
			t.On = c32OutOfModel[r.Intn(len(c32OutOfModel))]
		}
		in.Trigs = append(in.Trigs, t)
	}
	nw := 1 + r.Intn(4)
	maxCalls, maxRows := 3, 4
	if tier == "thorough" {
		maxCalls, maxRows = 6, 12
	}
	for w := 0; w < nw; w++ {
		var calls []c32Call
		nc := r.Intn(maxCalls + 1)
		for c := 0; c < nc; c++ {
			var call c32Call
			first := r.Intn(len(in.Buckets))
			isVar := in.Buckets[first].isVar()
			used := map[int]bool{}
			for _, bi := range []int{first, r.Intn(len(in.Buckets))} {
				if used[bi] || in.Buckets[bi].isVar() != isVar {
					continue
				}
				used[bi] = true
				b := in.Buckets[bi]
				n := 1 + r.Intn(maxRows)
				rows := c32Rows{B: bi}
				base := time.Date(b.Year, time.Month(1+r.Intn(12)), 1+r.Intn(28), r.Intn(24), r.Intn(60), r.Intn(60), 0, time.UTC).Unix()
				ep := base
				for k := 0; k < n; k++ {
					rows.Epochs = append(rows.Epochs, ep)
					rows.A = append(rows.A, int32(r.U64()))
					rows.Bv = append(rows.Bv, r.I64())
					switch r.Intn(4) { // same second / same interval / next intervals
					case 0:
						if b.isVar() {
							break // same epoch again: only meaningful for variable buckets
						}
						ep += 1
					case 1:
						ep += 1
					case 2:
						ep += 60
					default:
						ep += int64(3600 * (1 + r.Intn(30)))
					}
					if time.Unix(ep, 0).UTC().Year() != b.Year {
						ep = base + int64(k) + 1
					}
				}
				call.Rows = append(call.Rows, rows)
			}
			calls = append(calls, call)
		}
		in.Writers = append(in.Writers, calls)
		for c := 0; c < nc; c++ {
			in.Order = append(in.Order, w)
		}
	}
	// shuffle the sync-mode interleaving (Fisher-Yates); per-writer order is preserved by construction
	for j := len(in.Order) - 1; j > 0; j-- {
		k := r.Intn(j + 1)
		in.Order[j], in.Order[k] = in.Order[k], in.Order[j]
	}
	// direct Match probes: patterns x keys, real and adversarial
	np := 4 + r.Intn(6)
	for j := 0; j < np; j++ {
		b := in.Buckets[r.Intn(len(in.Buckets))]
		key := fmt.Sprintf("%s/%s/%s/%d.bin", b.Sym, b.TF, b.Attr, b.Year)
		switch r.Intn(8) {
		case 0:
			key = "X" + key
		case 1:
			key = key[:r.Intn(len(key)+1)]
		case 2:
			key = strings.Replace(key, "/", "//", 1)
		case 3:
			key = key + "\n" + key
		case 4:
			key = ""
		case 5:
			key = strings.ToLower(key)
		}
		in.Probes = append(in.Probes, c32Probe{On: c32Pattern(r, in.Buckets), Key: key})
	}
	return in
}

type c32Cmd struct {
	Key     string `json:"key"`
	Index   int64  `json:"index"`
	Payload []byte `json:"payload"`
}
type c32Fire struct {
	Trig int      `json:"trig"`
	Key  string   `json:"key"`
	Recs []c32Cmd `json:"recs"` // Key unused inside
}
type c32Obs struct {
	Code    int            `json:"code"` // 0 ok, 2 panic, 3 timeout
	Flushes [][]c32Cmd     `json:"flushes"`
	Fired   []c32Fire      `json:"fired"`
	Probes  []bool         `json:"probes"`
	WErrs   []string       `json:"write_errors,omitempty"`
	Rows    map[string]int `json:"rows_written"`
}

// ---- the long-lived instance -------------------------------------------------------------------------
// Creating an instance per case is not affordable: every instance allocates three 1,000,000-slot channels
// (WriteChannelCommandDepth).  One instance lives as long as the implrun process; what differs per case
// is plugged into it while it is quiescent:
//   - the dispatcher is started once with c32Slots matchers (trigger.NewMatcher) + one barrier matcher;
//     per case the exported fields On/Trigger of the first len(trigs) matchers are set to the case's
//     patterns and recording triggers, the others get a pattern that matches no key;
//   - a SyncWAL goroutine runs for the whole process with hour-long tickers, so it only ever acts on
//     RequestFlush; "sync" cases switch RequestFlush to its in-caller mode through the verif hook;
//   - every case ends with a barrier: one more real WriteCSM to the bucket c32BarrierKey after everything
//     else has been flushed.  The dispatcher goroutine handles tpd.c in FIFO order and completely (Match
//     loop, Add, go fire) before receiving the next message, so once the barrier trigger has fired every
//     earlier message has been processed, and VerifC32WaitTriggers then waits for the fire goroutines.
//     The barrier write is part of the observed history (its TG is flushed, patterns like "*" see it).
const c32Slots = 6
const c32BarrierKey = "ZZBARRIER/1D/B"
const c32NoMatch = "\x00<unused matcher slot>"

type c32RecTrig struct {
	id     int
	panics bool
	st     *c32Pool
}

func (t *c32RecTrig) Fire(keyPath string, records []trigger.Record) {
	f := c32Fire{Trig: t.id, Key: keyPath}
	for i := range records {
		rec := records[i]
		f.Recs = append(f.Recs, c32Cmd{Index: rec.Index(), Payload: append([]byte{}, rec.Payload()...)})
	}
	t.st.mu.Lock()
	t.st.fired = append(t.st.fired, f)
	t.st.mu.Unlock()
	if t.panics {
		panic("verif: trigger panics after recording")
	}
}

type c32NopTrig struct{}

func (c32NopTrig) Fire(string, []trigger.Record) {}

type c32BarrierTrig struct{ ch chan struct{} }

func (t c32BarrierTrig) Fire(string, []trigger.Record) {
	select { // never block a fire goroutine: a misbehaving dispatcher may fire the barrier more than once
	case t.ch <- struct{}{}:
	default:
	}
}

type c32Pool struct {
	inst    *tginst.Inst
	sender  *tginst.RecSender
	slots   []*trigger.Matcher
	barrier chan struct{}
	mu      sync.Mutex
	fired   []c32Fire
	nbar    int64
}

var c32P *c32Pool
var c32Timeouts int

func c32GetPool() (*c32Pool, error) {
	if c32P != nil {
		return c32P, nil
	}
	p := &c32Pool{sender: &tginst.RecSender{}, barrier: make(chan struct{}, 16)}
	var ms []*trigger.Matcher
	for i := 0; i < c32Slots; i++ {
		m := trigger.NewMatcher(c32NopTrig{}, c32NoMatch)
		p.slots = append(p.slots, m)
		ms = append(ms, m)
	}
	ms = append(ms, trigger.NewMatcher(c32BarrierTrig{p.barrier}, c32BarrierKey))
	inst, err := tginst.New(ms, p.sender)
	if err != nil {
		return nil, err
	}
	p.inst = inst
	if err := c32Ensure(inst, c32Bucket{Sym: "ZZBARRIER", TF: "1D", Attr: "B", Year: 2020}); err != nil {
		return nil, err
	}
	inst.StartBackground(time.Hour)
	c32P = p
	return p, nil
}

func c32Schema() []io.DataShape {
	return []io.DataShape{{Name: "Epoch", Type: io.INT64}, {Name: "A", Type: io.INT32}, {Name: "B", Type: io.INT64}}
}

// c32Ensure creates the bucket and its year file if they do not exist yet (the catalog is only modified
// here, before the writers of a case start: catalog races are C17/C18's subject).
func c32Ensure(inst *tginst.Inst, b c32Bucket) error {
	tbk := io.NewTimeBucketKey(b.Sym + "/" + b.TF + "/" + b.Attr)
	if tbi, err := inst.Cat.GetLatestTimeBucketInfoFromKey(tbk); err == nil {
		_, err = inst.Cat.GetSubDirectoryAndAddFile(tbi.Path, int16(b.Year))
		return err
	}
	tf, err := tbk.GetTimeFrame()
	if err != nil {
		return err
	}
	rt := io.FIXED
	if b.isVar() {
		rt = io.VARIABLE
	}
	tbi := io.NewTimeBucketInfo(*tf, tbk.GetPathToYearFiles(inst.Root), "verif", int16(b.Year), c32Schema(), rt)
	if err := inst.Cat.AddTimeBucket(tbk, tbi); err != nil {
		return fmt.Errorf("AddTimeBucket %v: %w", tbk, err)
	}
	return nil
}

func c32CSM(in *c32In, call c32Call) (io.ColumnSeriesMap, bool) {
	csm := io.NewColumnSeriesMap()
	isVar := false
	for _, rw := range call.Rows {
		b := in.Buckets[rw.B]
		isVar = b.isVar()
		cs := io.NewColumnSeries()
		cs.AddColumn("Epoch", append([]int64{}, rw.Epochs...))
		cs.AddColumn("A", append([]int32{}, rw.A...))
		cs.AddColumn("B", append([]int64{}, rw.Bv...))
		csm.AddColumnSeries(*io.NewTimeBucketKey(b.Sym + "/" + b.TF + "/" + b.Attr), cs)
	}
	return csm, isVar
}

func c32Exec(in *c32In, obs *c32Obs) error {
	if len(in.Trigs) > c32Slots {
		return fmt.Errorf("at most %d triggers per case", c32Slots)
	}
	if c32Timeouts >= 2 { // the dispatcher does not quiesce any more: do not spend 20 s on every remaining case
		obs.Code = 3
		return nil
	}
	p, err := c32GetPool()
	if err != nil {
		return err
	}
	inst := p.inst
	// ---- plug the case into the quiescent instance
	for i, m := range p.slots {
		if i < len(in.Trigs) {
			m.On, m.Trigger = in.Trigs[i].On, &c32RecTrig{id: i, panics: in.Trigs[i].Panics, st: p}
		} else {
			m.On, m.Trigger = c32NoMatch, c32NopTrig{}
		}
	}
	p.mu.Lock()
	p.fired = nil
	p.mu.Unlock()
	p.sender.Reset()
	for _, b := range in.Buckets {
		if err := c32Ensure(inst, b); err != nil {
			return err
		}
	}
	executor.VerifC32SetHaveWALWriter(in.Mode == "bg")
	var emu sync.Mutex
	doCSM := func(csm io.ColumnSeriesMap, isVar bool) {
		w, err := executor.NewWriter(inst.Cat, inst.WAL)
		if err == nil {
			err = w.WriteCSM(csm, isVar)
		}
		if err != nil {
			emu.Lock()
			obs.WErrs = append(obs.WErrs, err.Error())
			emu.Unlock()
		}
	}
	doCall := func(call c32Call) {
		if len(call.Rows) > 0 {
			doCSM(c32CSM(in, call))
		}
	}
	if in.Mode == "bg" {
		var wg sync.WaitGroup
		for _, calls := range in.Writers {
			wg.Add(1)
			go func(calls []c32Call) {
				defer wg.Done()
				for _, c := range calls {
					doCall(c)
				}
			}(calls)
		}
		wg.Wait()
	} else {
		next := make([]int, len(in.Writers))
		for _, w := range in.Order {
			if w >= 0 && w < len(in.Writers) && next[w] < len(in.Writers[w]) {
				doCall(in.Writers[w][next[w]])
				next[w]++
			}
		}
		for w := range in.Writers { // whatever Order did not cover (hand-written replays)
			for ; next[w] < len(in.Writers[w]); next[w]++ {
				doCall(in.Writers[w][next[w]])
			}
		}
	}
	// ---- barrier: flush what is still queued, then one more write whose trigger tells us the dispatcher is done
	inst.WAL.RequestFlush()
	for len(p.barrier) > 0 { // stale signals
		<-p.barrier
	}
	p.nbar++
	bcs := io.NewColumnSeries()
	bcs.AddColumn("Epoch", []int64{time.Date(2020, 1, 1, 0, 0, 0, 0, time.UTC).Unix() + 86400*(p.nbar%360)})
	bcs.AddColumn("A", []int32{int32(p.nbar)})
	bcs.AddColumn("B", []int64{p.nbar})
	bcsm := io.NewColumnSeriesMap()
	bcsm.AddColumnSeries(*io.NewTimeBucketKey(c32BarrierKey), bcs)
	doCSM(bcsm, false)
	select {
	case <-p.barrier:
	case <-time.After(20 * time.Second):
		obs.Code = 3
		c32P = nil // give up on this instance
		c32Timeouts++
		return nil
	}
	inst.TPD.VerifC32WaitTriggers()
	for _, tg := range p.sender.Snapshot() {
		_, wts := executor.ParseTGData(tg, inst.Root)
		var cmds []c32Cmd
		for _, wt := range wts {
			rel, _ := filepath.Rel(inst.Root, wt.FilePath)
			cmds = append(cmds, c32Cmd{Key: rel, Index: wt.Buffer.Index(), Payload: append([]byte{}, wt.Buffer.Payload()...)})
		}
		obs.Flushes = append(obs.Flushes, cmds)
	}
	p.mu.Lock()
	obs.Fired = append([]c32Fire{}, p.fired...)
	p.mu.Unlock()
	return nil
}

func c32EventKey(t int, key string, idx int64, payload []byte) string {
	return fmt.Sprintf("%d|%s|%d|%x", t, key, idx, payload)
}

func c32Run(raw json.RawMessage) (res Result, err error) {
	var in c32In
	if err = json.Unmarshal(raw, &in); err != nil {
		return
	}
	obs := c32Obs{Rows: map[string]int{}}
	done := make(chan error, 1)
	go func() {
		defer func() {
			if p := recover(); p != nil {
				obs.Code = 2
				c32P = nil
				done <- nil
			}
		}()
		done <- c32Exec(&in, &obs)
	}()
	select {
	case e := <-done:
		if e != nil {
			return res, e
		}
	case <-time.After(60 * time.Second):
		obs = c32Obs{Code: 3}
		c32P = nil
	}
	for _, p := range in.Probes {
		obs.Probes = append(obs.Probes, trigger.NewMatcher(nil, p.On).Match(p.Key))
	}
	// canonical order of the observed Fire calls (they are concurrent goroutines)
	sort.SliceStable(obs.Fired, func(a, b int) bool {
		x, y := obs.Fired[a], obs.Fired[b]
		if x.Trig != y.Trig {
			return x.Trig < y.Trig
		}
		return x.Key < y.Key
	})
	res.Obs = obs

	// ---- Gallina case ----
	inModel := true
	var ctrigs, cfl, cfired, cprobes []string
	for _, t := range in.Trigs {
		ctrigs = append(ctrigs, cq.Hex([]byte(t.On)))
		if !c32InModel(t.On) {
			inModel = false
		}
	}
	for _, fl := range obs.Flushes {
		var l []string
		for _, c := range fl {
			l = append(l, cq.Tuple(cq.Hex([]byte(c.Key)), cq.Z(c.Index), cq.Hex(c.Payload)))
		}
		cfl = append(cfl, cq.List(l))
	}
	for _, f := range obs.Fired {
		var l []string
		for _, c := range f.Recs {
			l = append(l, cq.Tuple(cq.Z(c.Index), cq.Hex(c.Payload)))
		}
		cfired = append(cfired, cq.Rec(cq.F("of_trig", cq.Nat(f.Trig)), cq.F("of_key", cq.Hex([]byte(f.Key))), cq.F("of_recs", cq.List(l))))
	}
	for i, p := range in.Probes {
		if c32InModel(p.On) && isASCII(p.Key) {
			cprobes = append(cprobes, cq.Tuple(cq.Hex([]byte(p.On)), cq.Hex([]byte(p.Key)), cq.Bool(obs.Probes[i])))
		}
	}
	res.Coq = cq.Rec(cq.F("k_code", cq.Nat(obs.Code)), cq.F("k_trigs", cq.List(ctrigs)), cq.F("k_flushes", cq.List(cfl)),
		cq.F("k_fired", cq.List(cfired)), cq.F("k_match", cq.List(cprobes)))

	// ---- property oracle on the implementation's own outputs ----
	res.Holds = true
	fail := func(f string, a ...interface{}) {
		if res.Holds {
			res.Holds, res.Detail = false, fmt.Sprintf(f, a...)
		}
	}
	if obs.Code != 0 {
		fail("run ended with code %d (2 = panic, 3 = the barrier write did not reach its trigger within 20 s)", obs.Code)
	}
	if len(obs.WErrs) > 0 {
		fail("WriteCSM returned an error: %s", obs.WErrs[0])
	}
	want := map[string]int{}
	nrec := 0
	rowsFlushed := map[string]int{}
	for _, fl := range obs.Flushes {
		for _, c := range fl {
			nrec++
			for t, tr := range in.Trigs {
				if c32OracleMatch(tr.On, c.Key) {
					want[c32EventKey(t, c.Key, c.Index, c.Payload)]++
				}
			}
			rowsFlushed[c.Key] += len(c.Payload)
		}
	}
	got := map[string]int{}
	nev := 0
	for _, f := range obs.Fired {
		if len(f.Recs) == 0 {
			fail("trigger %d fired on %q with no records", f.Trig, f.Key)
		}
		for _, c := range f.Recs {
			got[c32EventKey(f.Trig, f.Key, c.Index, c.Payload)]++
			nev++
		}
	}
	for k, n := range want {
		if got[k] != n {
			fail("event %s: written %d time(s) in flushed transactions to a matching bucket, seen %d time(s) by the trigger", k, n, got[k])
		}
	}
	for k, n := range got {
		if want[k] != n {
			fail("event %s: seen %d time(s) by the trigger, expected %d (non-matching bucket, never written, or duplicate)", k, n, want[k])
		}
	}
	// every row handed to WriteCSM reached a flushed transaction (payload bytes per year file).  WriteRecords
	// merges consecutive rows of one call that fall in the same interval into one command: for a FIXED
	// bucket the later row replaces the earlier one (formatRecord returns the row alone), for a VARIABLE
	// bucket they are concatenated.
	if obs.Code == 0 && len(obs.WErrs) == 0 {
		wantBytes := map[string]int{c32BarrierKey + "/2020.bin": 12}
		for _, calls := range in.Writers {
			for _, c := range calls {
				for _, rw := range c.Rows {
					b := in.Buckets[rw.B]
					tf, _ := io.NewTimeBucketKey(b.Sym + "/" + b.TF + "/" + b.Attr).GetTimeFrame()
					for j, ep := range rw.Epochs {
						t := time.Unix(ep, 0).UTC()
						k := fmt.Sprintf("%s/%s/%s/%d.bin", b.Sym, b.TF, b.Attr, t.Year())
						if b.isVar() {
							wantBytes[k] += 16
							continue
						}
						if j+1 < len(rw.Epochs) {
							n := time.Unix(rw.Epochs[j+1], 0).UTC()
							if n.Year() == t.Year() && io.TimeToIndex(n, tf.Duration) == io.TimeToIndex(t, tf.Duration) {
								continue // replaced by the next row of the same interval
							}
						}
						wantBytes[k] += 12
					}
				}
			}
		}
		for k, n := range wantBytes {
			if rowsFlushed[k] != n {
				fail("bucket file %s: %d payload bytes handed to WriteCSM but %d in the flushed transactions", k, n, rowsFlushed[k])
			}
		}
		for k, n := range rowsFlushed {
			if wantBytes[k] != n {
				fail("bucket file %s: %d payload bytes in the flushed transactions but %d handed to WriteCSM", k, n, wantBytes[k])
			}
		}
	}
	for i, p := range in.Probes {
		if obs.Probes[i] != c32OracleMatch(p.On, p.Key) {
			fail("Matcher{On:%q}.Match(%q) = %v, the glob semantics says %v", p.On, p.Key, obs.Probes[i], !obs.Probes[i])
		}
	}
	res.InDomain = inModel && obs.Code == 0
	res.Tags = []string{"mode:" + in.Mode, fmt.Sprintf("trigs=%d", len(in.Trigs)), fmt.Sprintf("writers=%d", len(in.Writers)),
		fmt.Sprintf("flushes=%d", c32Bk(len(obs.Flushes))), fmt.Sprintf("records=%d", c32Bk(nrec)), fmt.Sprintf("events=%d", c32Bk(nev))}
	if !inModel {
		res.Tags = append(res.Tags, "pattern-outside-model")
	}
	for _, t := range in.Trigs {
		if t.Panics {
			res.Tags = append(res.Tags, "panicking-trigger")
			break
		}
	}
	for _, b := range in.Buckets {
		if b.isVar() {
			res.Tags = append(res.Tags, "variable-bucket")
			break
		}
	}
	res.Nontrivial = res.InDomain && nrec >= 2 && nev >= 1 && len(in.Trigs) >= 1
	res.Key = string(raw)
	return res, nil
}

func isASCII(s string) bool {
	for i := 0; i < len(s); i++ {
		if s[i] >= 0x80 {
			return false
		}
	}
	return true
}

func init() {
	Register(&Spec{
		ID:          "C32",
		CoqRequire:  "Require Import MS.Corr.C32.",
		CoqCaseType: "C32.case",
		Rule: "1-4 buckets (9 symbols incl. look-alikes AAPL/XAAPL/AAPLX/BRK.A/BRKXA x 6 timeframes x 4 attribute groups, fixed or variable), " +
			"0-4 recording triggers with glob patterns derived from the buckets (exact, */tf/attr, prefixes, infixes, '', '*', with '.', " +
			"non-matching; 4% with other regexp metacharacters = outside the model; 8% panic after recording), 1-4 writers x 0-3 WriteCSM calls " +
			"x 1-2 buckets x 1-4 rows; 45% background mode (SyncWAL goroutine + one goroutine per writer), else synchronous calls in a " +
			"generated interleaving; plus 4-9 direct Matcher.Match probes on real and adversarial keys; distinct = distinct input JSON; " +
			"non-trivial = in the model's pattern alphabet, >=2 flushed records, >=1 trigger, >=1 delivered event",
		Gen: c32Gen,
		Run: c32Run,
	})
}

func c32Bk(n int) int {
	switch {
	case n <= 2:
		return n
	case n <= 8:
		return 8
	case n <= 64:
		return 64
	}
	return 1000
}
