package props

import (
	"bytes"
	"context"
	"encoding/hex"
	"encoding/json"
	"fmt"
	"os"
	"os/exec"
	"path/filepath"
	"strings"
	"time"

	"verifharness/internal/c26x"
	"verifharness/internal/cq"
	"verifharness/internal/rng"
)

// C26 — Replication survives replicas connecting and disconnecting.
//
// Implementation under test: the REAL replication.GRPCReplicationServer (GetWALStream,
// SendReplicationMessage) and replication.Sender (Run's goroutine, Send), with fake
// pb.Replication_GetWALStreamServer stream objects.  Every case runs in a CHILD PROCESS (bin/c26child,
// harness/internal/c26x), because the faults under study kill the process ("send on
// closed channel" in the sender goroutine, "fatal error: concurrent map ...").
//
// Hook points without editing tracked files: the code logs through the zap global logger at exactly
// the places where a schedule has to be observed or held —
//   grpc_server.go:82  Debug "sending a replication message to <addr>"   (sender: iterator has produced the
//                                                                           entry, the send has not happened)
//   grpc_server.go:57  Debug "[master] waiting for write requests..."      (stream: map insert done / loop top)
//   grpc_server.go:66  Error "an error occurred while sending ..."         (stream: Send failed, before delete)
//   grpc_server.go:75  Info  "[master] closed replication connection"      (stream: after close)
// so the child installs a zap core whose Write records the point and, when a breakpoint is set, blocks
// the calling goroutine there.  Fake streams add Send (stall / fail) as further control points.

func c26Gen(r *rng.Rand, i int, tier string) interface{} {
	kind := r.Intn(100)
	n := 1 + r.Intn(4)
	in := c26x.In{Mode: "forced"}
	for j := 0; j < n; j++ {
		in.Addrs = append(in.Addrs, 10+j)
	}
	switch {
	case kind < 45: // stable: connect all, then commits with stalls
		for j := 0; j < n; j++ {
			in.Ops = append(in.Ops, c26x.Op{Op: "connect", R: j})
		}
		m := 1 + r.Intn(6)
		for c := 0; c < m; c++ {
			if r.Chance(25) {
				in.Ops = append(in.Ops, c26x.Op{Op: "stall", R: r.Intn(n)})
			}
			if r.Chance(25) {
				in.Ops = append(in.Ops, c26x.Op{Op: "unstall", R: r.Intn(n)})
			}
			in.Ops = append(in.Ops, c26x.Op{Op: "commit"})
		}
		for j := 0; j < n; j++ {
			in.Ops = append(in.Ops, c26x.Op{Op: "unstall", R: j})
		}
	case kind < 70: // churn at quiescent points: connects and disconnects between commits
		conn := 1
		in.Ops = append(in.Ops, c26x.Op{Op: "connect", R: 0})
		m := 3 + r.Intn(8)
		for c := 0; c < m; c++ {
			switch r.Intn(5) {
			case 0:
				if conn < n {
					in.Ops = append(in.Ops, c26x.Op{Op: "connect", R: conn})
					conn++
				}
			case 1:
				if conn > 0 {
					x := r.Intn(conn)
					in.Ops = append(in.Ops, c26x.Op{Op: "stall", R: x}, c26x.Op{Op: "commit"}, c26x.Op{Op: "fail", R: x})
				}
			default:
				in.Ops = append(in.Ops, c26x.Op{Op: "commit"})
			}
		}
	case kind < 80: // disconnect while the sender holds the channel (F22b)
		for j := 0; j < n; j++ {
			in.Ops = append(in.Ops, c26x.Op{Op: "connect", R: j})
		}
		x := r.Intn(n)
		in.Ops = append(in.Ops, c26x.Op{Op: "stall", R: x}, c26x.Op{Op: "commit"}, c26x.Op{Op: "hold", R: x}, c26x.Op{Op: "commit"},
			c26x.Op{Op: "fail", R: x}, c26x.Op{Op: "release"})
	case kind < 88: // connect while the sender is inside its iteration (race; F22a without the runtime noticing)
		if n < 2 {
			n = 2
			in.Addrs = []int{10, 11}
		}
		in.Ops = append(in.Ops, c26x.Op{Op: "connect", R: 0}, c26x.Op{Op: "hold", R: 0}, c26x.Op{Op: "commit"},
			c26x.Op{Op: "connect", R: 1}, c26x.Op{Op: "release"}, c26x.Op{Op: "commit"})
	case kind < 94 && kind >= 92: // a replica a full channel behind whose stream then fails: the master must resume (C26-2's shape)
		if n < 2 {
			n = 2
			in.Addrs = []int{10, 11}
		}
		x := r.Intn(n)
		for j := 0; j < n; j++ {
			in.Ops = append(in.Ops, c26x.Op{Op: "connect", R: j})
		}
		in.Ops = append(in.Ops, c26x.Op{Op: "stall", R: x}, c26x.Op{Op: "commit"}, c26x.Op{Op: "behindfail", R: x, N: 1 + r.Intn(3)},
			c26x.Op{Op: "commit"})
	case kind < 94: // same client address twice (F22c)
		if n < 2 {
			n = 2
			in.Addrs = []int{10, 11}
		}
		in.Addrs[1] = in.Addrs[0]
		in.Ops = append(in.Ops, c26x.Op{Op: "connect", R: 0}, c26x.Op{Op: "stall", R: 0}, c26x.Op{Op: "commit"},
			c26x.Op{Op: "connect", R: 1}, c26x.Op{Op: "fail", R: 0}, c26x.Op{Op: "commit"})
	default:
		in.Mode = "stress"
		if r.Bool() {
			in.Mode = "stress_connect"
		}
		in.Ms = 150
		if tier == "thorough" {
			in.Ms = 600
		}
	}
	return in
}

// ---------------------------------------------------------------------------------------------- parent

func c26Run(raw json.RawMessage) (res Result, err error) {
	var in c26x.In
	if err = json.Unmarshal(raw, &in); err != nil {
		return
	}
	res.Key = string(raw)
	dir, err := os.MkdirTemp("", "c26")
	if err != nil {
		return res, err
	}
	defer os.RemoveAll(dir)
	inf := filepath.Join(dir, "in.json")
	os.WriteFile(inf, raw, 0o644)
	logp := filepath.Join(dir, "events.log")
	exe, _ := os.Executable()
	ctx, cancel := context.WithTimeout(context.Background(), 60*time.Second)
	defer cancel()
	cmd := exec.CommandContext(ctx, filepath.Join(filepath.Dir(exe), "c26child"), inf, logp)
	var stderr bytes.Buffer
	cmd.Stderr = &stderr
	cmd.Stdout = nil
	runErr := cmd.Run()
	// ---- collect what the child recorded
	var enc []byte
	var evs []string
	var rline map[string]interface{}
	survived := false
	if lb, e := os.ReadFile(logp); e == nil {
		for _, ln := range strings.Split(string(lb), "\n") {
			switch {
			case strings.HasPrefix(ln, "E "):
				p := strings.SplitN(ln[2:], " ", 2)
				b, _ := hex.DecodeString(p[0])
				enc = append(enc, b...)
				if len(p) > 1 {
					evs = append(evs, p[1])
				}
			case strings.HasPrefix(ln, "R "):
				json.Unmarshal([]byte(ln[2:]), &rline)
			case strings.HasPrefix(ln, "X "):
				survived = true
			}
		}
	}
	se := stderr.String()
	fault := 0
	switch {
	case strings.Contains(se, "concurrent map iteration and map write"):
		fault = 1
	case strings.Contains(se, "concurrent map writes"), strings.Contains(se, "concurrent map read and map write"):
		fault = 2
	case strings.Contains(se, "send on closed channel"):
		fault = 3
	}
	res.Holds = true
	tags := []string{"mode:" + in.Mode, fmt.Sprintf("replicas=%d", len(in.Addrs))}
	nd, nc := 0, 0
	if rline != nil {
		res.Holds, _ = rline["holds"].(bool)
		res.Class, _ = rline["class"].(string)
		res.Detail, _ = rline["detail"].(string)
		if t, ok := rline["tags"].([]interface{}); ok {
			for _, x := range t {
				tags = append(tags, fmt.Sprint(x))
			}
		}
		if v, ok := rline["ndeliv"].(float64); ok {
			nd = int(v)
		}
		if v, ok := rline["ncommit"].(float64); ok {
			nc = int(v)
		}
	}
	if fault != 0 || (runErr != nil && rline == nil) {
		res.Holds = false
		names := []string{"", "fatal error: concurrent map iteration and map write", "fatal error: concurrent map writes", "panic: send on closed channel"}
		if fault == 0 {
			res.Detail = "child died: " + strings.TrimSpace(lastLines(se, 3))
		} else {
			res.Detail = "master process died: " + names[fault]
		}
		// a runtime fault of the master is outside every listed class since the fix of F22a/b: it is a VIOLATION
		tags = append(tags, fmt.Sprintf("fault=%d", fault))
		if strings.HasPrefix(in.Mode, "stress") {
			// no label trace in stress runs
			enc, evs = nil, nil
		} else if fault != 0 && !strings.HasSuffix(strings.Join(evs, ";"), fmt.Sprintf("OFault %d", fault)) {
			enc = append(enc, 20, byte(fault))
			evs = append(evs, fmt.Sprintf("OFault %d", fault))
		}
	}
	if survived {
		enc = append(enc, 20, 0)
		evs = append(evs, "OFault 0")
	}
	res.Obs = map[string]interface{}{"events": evs, "fault": fault, "stderr_tail": lastLines(se, 4)}
	ks := make([]string, len(in.Addrs))
	for i, k := range in.Addrs {
		ks[i] = fmt.Sprint(k)
	}
	var chunks []string
	for i := 0; i < len(enc); i += 1024 {
		j := i + 1024
		if j > len(enc) {
			j = len(enc)
		}
		chunks = append(chunks, cq.Hex(enc[i:j]))
	}
	res.Coq = cq.Rec(cq.F("k_keys", cq.List(ks)), cq.F("k_enc", cq.List(chunks)))
	// guard of the stable theorems (mirror of Corr/C26.in_domain)
	dup := false
	for i := range in.Addrs {
		for j := 0; j < i; j++ {
			if in.Addrs[i] == in.Addrs[j] {
				dup = true
			}
		}
	}
	churn, seenOther := false, false
	for _, op := range in.Ops {
		switch op.Op {
		case "connect":
			if seenOther {
				churn = true
			}
		case "fail", "behindfail":
			churn = true
			seenOther = true
		case "commit":
			seenOther = true
		}
	}
	res.InDomain = in.Mode == "forced" && !dup && !churn
	res.Nontrivial = nd >= 2 && nc >= 1
	if res.InDomain {
		tags = append(tags, "in-domain")
	}
	res.Tags = tags
	return res, nil
}

func lastLines(s string, n int) string {
	l := strings.Split(strings.TrimSpace(s), "\n")
	var keep []string
	for _, x := range l {
		if !strings.Contains(x, "\"level\"") {
			keep = append(keep, x)
		}
	}
	if len(keep) > n {
		keep = keep[:n]
	}
	return strings.Join(keep, " | ")
}

func init() {
	Register(&Spec{
		ID:          "C26",
		CoqRequire:  "Require Import MS.Corr.C26.",
		CoqCaseType: "C26.case",
		Rule: "1-4 fake replica streams against the real GRPCReplicationServer + Sender, each case in a child process; 45% stable " +
			"(connect all, then commits with stalled/unstalled replicas), 25% connects/disconnects between commits, 10% disconnect " +
			"while the sender holds the channel, 8% connect inside the sender's iteration, 6% same client address twice, 6% stress " +
			"(search only); distinct = distinct schedule; non-trivial = >= 2 deliveries",
		Gen: c26Gen,
		Run: c26Run,
	})
}
