package props

import (
	"encoding/json"
	"fmt"
	"math"
	"math/big"
	"sort"
	"strings"
	"time"

	"github.com/alpacahq/marketstore/v4/sqlparser"
	"github.com/alpacahq/marketstore/v4/utils"
	"github.com/alpacahq/marketstore/v4/utils/functions"
	"github.com/alpacahq/marketstore/v4/utils/io"

	"verifharness/internal/cq"
	"verifharness/internal/rng"
)

// C21 — Candle aggregation computes correct OHLC candles.
// Implementation under test: contrib/candler (TickCandler, CandleCandler, Candler.GetCandle/Output,
// Candle.AddCandle), utils.CandleDuration.Truncate/IsWithin, reached through sqlparser.AggRunner.Run
// (one call string) or AggRunner.GetFunc + New + several Accum calls on the same candler.

type c21Col struct {
	Type string   `json:"type"`
	Vals []uint64 `json:"vals"`
}
type c21Chunk struct {
	Epochs []int64    `json:"epochs"`
	Nanos  []int32    `json:"nanos"` // nil: no Nanoseconds column
	Price  [][]c21Col `json:"price"` // tick: one group (CandlePrice); candle: Open, High, Low, Close groups
	Acc    []c21Col   `json:"acc"`   // the columns mapped to Sum:: / Avg::
}
type c21In struct {
	Kind   string     `json:"kind"` // tick | candle
	Mult   int        `json:"mult"`
	Suffix string     `json:"suffix"` // Sec | Min | H | D
	Runner bool       `json:"runner"`
	Zone   int        `json:"zone"` // UTC offset (seconds) of the system timezone (utils.InstanceConfig.Timezone); 0 = UTC
	SumIdx []int      `json:"sum_idx"` // indices into Acc, output order of the _SUM columns
	AvgIdx []int      `json:"avg_idx"`
	Chunks []c21Chunk `json:"chunks"`
}

var c21Suffixes = []string{"Sec", "Min", "H", "D"}
var c21Mults = []int{1, 1, 1, 2, 3, 5, 7, 10, 15, 30, 45, 60, 90}
var c21Zones = []int{19800, -18000, 3600, 1800, 32400, -34200, 45900} // +05:30 -05:00 +01:00 +00:30 +09:00 -09:30 +12:45

// c21SetZone configures the system timezone the candlers see and returns the restore function.
func c21SetZone(off int) func() {
	old := utils.InstanceConfig.Timezone
	if off == 0 {
		utils.InstanceConfig.Timezone = time.UTC
	} else {
		utils.InstanceConfig.Timezone = time.FixedZone(fmt.Sprintf("F%+d", off), off)
	}
	return func() { utils.InstanceConfig.Timezone = old }
}

const c21ZeroTimeUnix = -62135596800

func c21Price(r *rng.Rand, mode int) uint64 {
	switch mode {
	case 0:
		return uint64(math.Float32bits(float32(r.Range(-40, 400)) / 4))
	case 1:
		return uint64(math.Float32bits(100 + float32(r.Range(-8, 8))/8))
	case 2: // extremes, signed zeros, subnormals, rarely NaN / inf
		return uint64([]uint32{0, 0x80000000, 0x7f7fffff, 0xff7fffff, 1, 0x80000001, 0x3f800000, 0xbf800000, 0x7f800000, 0xff800000, 0x7fc00000,
			0x4b800000, 0xcb800001}[r.Intn(13)])
	default:
		return uint64(uint32(r.U64()))
	}
}

// c21Times draws n timestamps over a few windows of duration d seconds: boundaries, duplicates, out of order.
func c21Times(r *rng.Rand, n int, d int64, withNanos bool) ([]int64, []int32) {
	if d <= 0 {
		d = 1
	}
	base := int64(1600000000) + r.Range(-5, 5)*d
	if r.Chance(10) {
		base = -r.Range(0, 3)*d - r.Range(0, 100) // around and before 1970
	}
	base -= base % d
	ep := make([]int64, n)
	var ns []int32
	if withNanos {
		ns = make([]int32, n)
	}
	nwin := int64(1 + r.Intn(4))
	for i := range ep {
		w := r.Range(0, nwin-1)
		var off int64
		switch r.Intn(5) {
		case 0:
			off = 0
		case 1:
			off = d - 1
		default:
			off = r.Range(0, d-1)
		}
		ep[i] = base + w*d + off
		if withNanos {
			ns[i] = int32(r.Range(0, 999999999))
			if r.Chance(20) {
				ns[i] = 0
			}
		}
		if i > 0 && r.Chance(12) { // duplicate timestamp
			ep[i] = ep[r.Intn(i)]
			if withNanos {
				ns[i] = 0
			}
		}
	}
	if r.Chance(55) { // in time order (the common case); otherwise permuted
		idx := make([]int, n)
		for i := range idx {
			idx[i] = i
		}
		sort.SliceStable(idx, func(a, b int) bool {
			if ep[idx[a]] != ep[idx[b]] {
				return ep[idx[a]] < ep[idx[b]]
			}
			return withNanos && ns[idx[a]] < ns[idx[b]]
		})
		ep2 := make([]int64, n)
		var ns2 []int32
		if withNanos {
			ns2 = make([]int32, n)
		}
		for i, j := range idx {
			ep2[i] = ep[j]
			if withNanos {
				ns2[i] = ns[j]
			}
		}
		ep, ns = ep2, ns2
	}
	return ep, ns
}

func c21Dur(mult int, suffix string) int64 { // seconds
	switch suffix {
	case "Sec":
		return int64(mult)
	case "Min":
		return int64(mult) * 60
	case "H":
		return int64(mult) * 3600
	}
	return 86400
}

func c21GenCols(r *rng.Rand, n, k int, mode int, typ string) []c21Col {
	cols := make([]c21Col, k)
	for j := range cols {
		c := c21Col{Type: typ, Vals: make([]uint64, n)}
		for i := range c.Vals {
			switch typ {
			case "float32":
				c.Vals[i] = c21Price(r, mode)
			case "float64":
				c.Vals[i] = math.Float64bits(float64(math.Float32frombits(uint32(c21Price(r, mode)))) * 1.0000001)
			default:
				c.Vals[i] = uint64(r.Range(-1000, 100000))
			}
		}
		cols[j] = c
	}
	return cols
}

func c21Gen(r *rng.Rand, i int, tier string) interface{} {
	maxRows := 10
	if tier == "thorough" {
		maxRows = 80
	}
	in := c21In{Kind: "tick", Runner: r.Chance(40)}
	if r.Chance(40) {
		in.Kind = "candle"
	}
	in.Suffix = c21Suffixes[r.Intn(len(c21Suffixes))]
	in.Mult = c21Mults[r.Intn(len(c21Mults))]
	if in.Suffix == "D" && r.Chance(80) {
		in.Mult = 1
	}
	if r.Chance(2) {
		in.Mult = 0
	}
	if r.Chance(25) { // a system timezone at a fixed offset other than UTC
		in.Zone = c21Zones[r.Intn(len(c21Zones))]
	}
	nacc := []int{0, 0, 1, 1, 2, 3}[r.Intn(6)]
	used := make([]bool, nacc)
	for a := 0; a < nacc; a++ {
		if r.Bool() {
			in.SumIdx = append(in.SumIdx, a)
			used[a] = true
		}
		if !used[a] || r.Chance(40) {
			in.AvgIdx = append(in.AvgIdx, a)
		}
	}
	nch := 1
	if !in.Runner {
		nch = []int{1, 1, 2, 2, 3}[r.Intn(5)]
	}
	withNanos := r.Chance(30)
	mode := []int{0, 0, 0, 1, 1, 2, 3}[r.Intn(7)]
	ngroups := 1
	if in.Kind == "candle" {
		ngroups = 4
	}
	percol := 1
	if r.Chance(20) {
		percol = 2
	}
	ptype := "float32"
	if r.Chance(15) {
		ptype = []string{"float64", "int64", "int32", "int16"}[r.Intn(4)]
	}
	for c := 0; c < nch; c++ {
		n := 1 + r.Intn(maxRows)
		if r.Chance(5) {
			n = 0
		}
		ch := c21Chunk{}
		ch.Epochs, ch.Nanos = c21Times(r, n, c21Dur(in.Mult, in.Suffix), withNanos)
		for g := 0; g < ngroups; g++ {
			ch.Price = append(ch.Price, c21GenCols(r, n, percol, mode, ptype))
		}
		if in.Kind == "candle" && r.Chance(70) && ptype == "float32" { // well-formed bars: high >= open, close >= low
			for i := 0; i < n; i++ {
				for j := 0; j < percol; j++ {
					o := math.Float32frombits(uint32(ch.Price[0][j].Vals[i]))
					cl := math.Float32frombits(uint32(ch.Price[3][j].Vals[i]))
					hi, lo := o, o
					if cl > hi {
						hi = cl
					}
					if cl < lo {
						lo = cl
					}
					if o == o && cl == cl {
						ch.Price[1][j].Vals[i] = uint64(math.Float32bits(hi + float32(r.Intn(3))))
						ch.Price[2][j].Vals[i] = uint64(math.Float32bits(lo - float32(r.Intn(3))))
					}
				}
			}
		}
		atype := []string{"float32", "float32", "int64", "float64", "int32"}[r.Intn(5)]
		ch.Acc = c21GenCols(r, n, nacc, []int{0, 0, 1, 3}[r.Intn(4)], atype)
		if r.Chance(4) && n > 1 { // malformed: a column shorter than Epoch
			if len(ch.Acc) > 0 && r.Bool() {
				ch.Acc[0].Vals = ch.Acc[0].Vals[:n-1]
			} else {
				ch.Price[0][0].Vals = ch.Price[0][0].Vals[:n-1]
			}
		}
		if r.Chance(2) && len(ch.Acc) > 0 {
			ch.Acc[0].Type = "missing"
		}
		in.Chunks = append(in.Chunks, ch)
	}
	return in
}

func c21Lit(in *c21In) string { return fmt.Sprintf("%d%s", in.Mult, in.Suffix) }

var c21PriceNames = [][]string{{"CandlePrice"}, {"Open", "High", "Low", "Close"}}

func c21Params(in *c21In, ch *c21Chunk) []string {
	var p []string
	names := c21PriceNames[0]
	if in.Kind == "candle" {
		names = c21PriceNames[1]
	}
	for g := range ch.Price {
		for j := range ch.Price[g] {
			p = append(p, fmt.Sprintf("%s::P%d_%d", names[g], g, j))
		}
	}
	for _, a := range in.SumIdx {
		p = append(p, fmt.Sprintf("Sum::A%d", a))
	}
	for _, a := range in.AvgIdx {
		p = append(p, fmt.Sprintf("Avg::A%d", a))
	}
	return p
}

func c21CS(ch *c21Chunk) *io.ColumnSeries {
	cs := io.NewColumnSeries()
	ep := ch.Epochs
	if ep == nil {
		ep = []int64{}
	}
	cs.AddColumn("Epoch", ep)
	if ch.Nanos != nil {
		cs.AddColumn("Nanoseconds", ch.Nanos)
	}
	for g := range ch.Price {
		for j, c := range ch.Price[g] {
			if c.Type != "missing" {
				cs.AddColumn(fmt.Sprintf("P%d_%d", g, j), c23Column(c.Type, c.Vals))
			}
		}
	}
	for a, c := range ch.Acc {
		if c.Type != "missing" {
			cs.AddColumn(fmt.Sprintf("A%d", a), c23Column(c.Type, c.Vals))
		}
	}
	return cs
}

type c21Row struct {
	Epoch      int64
	O, H, L, C uint32
	Sums, Avgs []uint64
}
type c21Obs struct {
	Code int      `json:"code"`
	Err  string   `json:"err,omitempty"`
	Rows []c21Row `json:"rows"`
}

func c21Extract(in *c21In, cs *io.ColumnSeries) ([]c21Row, error) {
	if cs == nil {
		return nil, fmt.Errorf("nil output")
	}
	ep, ok := cs.GetColumn("Epoch").([]int64)
	if !ok {
		return nil, fmt.Errorf("output Epoch is %T", cs.GetColumn("Epoch"))
	}
	f := func(name string) ([]float32, error) {
		c, ok := cs.GetColumn(name).([]float32)
		if !ok || len(c) != len(ep) {
			return nil, fmt.Errorf("output column %s is %T", name, cs.GetColumn(name))
		}
		return c, nil
	}
	o, e1 := f("Open")
	h, e2 := f("High")
	l, e3 := f("Low")
	c, e4 := f("Close")
	for _, e := range []error{e1, e2, e3, e4} {
		if e != nil {
			return nil, e
		}
	}
	rows := make([]c21Row, len(ep))
	for i := range ep {
		rows[i] = c21Row{Epoch: ep[i], O: uint32(c23F32Bits(o[i])), H: uint32(c23F32Bits(h[i])), L: uint32(c23F32Bits(l[i])), C: uint32(c23F32Bits(c[i]))}
	}
	g := func(name string) ([]float64, error) {
		c, ok := cs.GetColumn(name).([]float64)
		if !ok || len(c) != len(ep) {
			return nil, fmt.Errorf("output column %s is %T", name, cs.GetColumn(name))
		}
		return c, nil
	}
	for _, a := range in.SumIdx {
		col, e := g(fmt.Sprintf("A%d_SUM", a))
		if e != nil {
			return nil, e
		}
		for i := range rows {
			rows[i].Sums = append(rows[i].Sums, c23F64Bits(col[i]))
		}
	}
	for _, a := range in.AvgIdx {
		col, e := g(fmt.Sprintf("A%d_AVG", a))
		if e != nil {
			return nil, e
		}
		for i := range rows {
			rows[i].Avgs = append(rows[i].Avgs, c23F64Bits(col[i]))
		}
	}
	return rows, nil
}

// c21Exec runs the real candler. lastCS receives the last Accum's output column series (for C22).
func c21Exec(in *c21In) (obs c21Obs, lastCS *io.ColumnSeries, err error) {
	tbk := io.TimeBucketKey{}
	ar := sqlparser.NewDefaultAggRunner(nil)
	name := "tickcandler"
	if in.Kind == "candle" {
		name = "candlecandler"
	}
	defer c21SetZone(in.Zone)()
	defer func() {
		if p := recover(); p != nil {
			obs.Code, obs.Err, err = 2, fmt.Sprint(p), nil
		}
	}()
	if len(in.Chunks) == 0 {
		return obs, nil, fmt.Errorf("no chunks")
	}
	if in.Runner {
		call := fmt.Sprintf("%s('%s', %s)", name, c21Lit(in), strings.Join(c21Params(in, &in.Chunks[0]), ", "))
		out, e := ar.Run([]string{call}, c21CS(&in.Chunks[0]), tbk)
		if e != nil {
			obs.Code, obs.Err = 1, e.Error()
			return obs, nil, nil
		}
		lastCS = out
	} else {
		agg := ar.GetFunc(name)
		argMap := functions.NewArgumentMap(agg.GetRequiredArgs(), agg.GetOptionalArgs()...)
		if e := argMap.PrepareArguments(c21Params(in, &in.Chunks[0])); e != nil {
			return obs, nil, e
		}
		obj, e := agg.New(argMap, []string{c21Lit(in)})
		if e != nil {
			return obs, nil, e
		}
		for ci := range in.Chunks {
			out, e := obj.Accum(tbk, argMap, c21CS(&in.Chunks[ci]))
			if e != nil {
				obs.Code, obs.Err = 1, e.Error()
				return obs, nil, nil
			}
			lastCS = out
		}
	}
	obs.Rows, err = c21Extract(in, lastCS)
	return obs, lastCS, err
}

func c21CoqCol(c *c21Col) string {
	var items []string
	for _, v := range c.Vals {
		switch c.Type {
		case "float32", "float64":
			items = append(items, cq.ZU(v))
		default:
			items = append(items, cq.Z(int64(v)))
		}
	}
	switch c.Type {
	case "float32":
		return "(KF32 " + cq.List(items) + ")"
	case "float64":
		return "(KF64 " + cq.List(items) + ")"
	case "int64":
		return "(KI64 " + cq.List(items) + ")"
	case "int32":
		return "(KI32 " + cq.List(items) + ")"
	case "int":
		return "(KInt " + cq.List(items) + ")"
	case "missing":
		return "KMissing"
	}
	return "(KOther " + cq.Nat(len(c.Vals)) + ")"
}

func c21CoqInput(ch *c21Chunk) string {
	var ep, groups, acc []string
	for _, e := range ch.Epochs {
		ep = append(ep, cq.Z(e))
	}
	nanos := "None"
	if ch.Nanos != nil {
		var ns []string
		for _, n := range ch.Nanos {
			ns = append(ns, cq.Z(int64(n)))
		}
		nanos = cq.Some(cq.List(ns))
	}
	for g := range ch.Price {
		var cols []string
		for j := range ch.Price[g] {
			cols = append(cols, c21CoqCol(&ch.Price[g][j]))
		}
		groups = append(groups, cq.List(cols))
	}
	for a := range ch.Acc {
		acc = append(acc, c21CoqCol(&ch.Acc[a]))
	}
	return cq.Rec(cq.F("ki_epoch", cq.List(ep)), cq.F("ki_nanos", nanos), cq.F("ki_price", cq.List(groups)), cq.F("ki_acc", cq.List(acc)))
}

func c21CoqRows(rows []c21Row) string {
	var out []string
	for _, r := range rows {
		items := []string{cq.Z(r.Epoch), cq.ZU(uint64(r.O)), cq.ZU(uint64(r.H)), cq.ZU(uint64(r.L)), cq.ZU(uint64(r.C))}
		for _, s := range r.Sums {
			items = append(items, cq.ZU(s))
		}
		for _, s := range r.Avgs {
			items = append(items, cq.ZU(s))
		}
		out = append(out, cq.List(items))
	}
	return cq.List(out)
}

func c21Nats(l []int) string {
	var s []string
	for _, v := range l {
		s = append(s, cq.Nat(v))
	}
	return cq.List(s)
}

// ---- the oracle's own view of the input ----
type c21Tick struct {
	t          *big.Int // ns since the Unix epoch
	o, h, l, c float32
	acc        []float32
}

func c21F32(typ string, v uint64) float32 {
	switch typ {
	case "float32":
		return math.Float32frombits(uint32(v))
	case "float64":
		return float32(math.Float64frombits(v))
	}
	return float32(int64(v))
}

// c21Ticks flattens well-formed chunks into rows; ok=false when a column is missing/short/of an unconvertible type.
func c21Ticks(in *c21In) (rows []c21Tick, ok bool) {
	for ci := range in.Chunks {
		ch := &in.Chunks[ci]
		n := len(ch.Epochs)
		if n == 0 {
			return nil, false
		}
		if ch.Nanos != nil && len(ch.Nanos) != n {
			return nil, false
		}
		price := make([][]float32, len(ch.Price))
		for g := range ch.Price {
			price[g] = make([]float32, n)
			for _, c := range ch.Price[g] {
				if !c23Supported(c.Type) || len(c.Vals) < n {
					return nil, false
				}
				if len(ch.Price[g]) == 1 {
					for i := 0; i < n; i++ {
						price[g][i] = c21F32(c.Type, c.Vals[i])
					}
				} else {
					for i := 0; i < n; i++ {
						price[g][i] += c21F32(c.Type, c.Vals[i])
					}
				}
			}
			if len(ch.Price[g]) > 1 {
				for i := 0; i < n; i++ {
					price[g][i] /= float32(len(ch.Price[g]))
				}
			}
		}
		for _, c := range ch.Acc {
			if !c23Supported(c.Type) || len(c.Vals) < n {
				return nil, false
			}
		}
		for i := 0; i < n; i++ {
			t := new(big.Int).Mul(big.NewInt(ch.Epochs[i]), big.NewInt(1000000000))
			if ch.Nanos != nil {
				t.Add(t, big.NewInt(int64(ch.Nanos[i])))
			}
			row := c21Tick{t: t}
			if len(price) == 1 {
				row.o, row.h, row.l, row.c = price[0][i], price[0][i], price[0][i], price[0][i]
			} else {
				row.o, row.h, row.l, row.c = price[0][i], price[1][i], price[2][i], price[3][i]
			}
			for _, c := range ch.Acc {
				row.acc = append(row.acc, c21F32(c.Type, c.Vals[i]))
			}
			rows = append(rows, row)
		}
	}
	return rows, true
}

// c21Window: the window start (Unix seconds) of a timestamp, by the standard library (not by the code under test).
func c21Window(in *c21In, t *big.Int) int64 {
	sec, ns := new(big.Int).DivMod(t, big.NewInt(1000000000), new(big.Int))
	tm := time.Unix(sec.Int64(), ns.Int64()).UTC()
	if in.Suffix == "D" { // the local calendar day of the configured zone
		loc := time.FixedZone("oracle", in.Zone)
		y, m, d := tm.In(loc).Date()
		return time.Date(y, m, d, 0, 0, 0, 0, loc).Unix()
	}
	return tm.Truncate(time.Duration(c21Dur(in.Mult, in.Suffix)) * time.Second).Unix()
}

type c21Want struct {
	start        int64
	rows         []c21Tick
	opens, close map[uint32]bool
	hi, lo       float32
}

func c21Expected(in *c21In, rows []c21Tick) []*c21Want {
	byW := map[int64]*c21Want{}
	for _, r := range rows {
		w := c21Window(in, r.t)
		if byW[w] == nil {
			byW[w] = &c21Want{start: w}
		}
		byW[w].rows = append(byW[w].rows, r)
	}
	var ws []*c21Want
	for _, w := range byW {
		tmin, tmax := w.rows[0].t, w.rows[0].t
		w.hi, w.lo = w.rows[0].h, w.rows[0].l
		for _, r := range w.rows {
			if r.t.Cmp(tmin) < 0 {
				tmin = r.t
			}
			if r.t.Cmp(tmax) > 0 {
				tmax = r.t
			}
			if r.h > w.hi {
				w.hi = r.h
			}
			if r.l < w.lo {
				w.lo = r.l
			}
		}
		w.opens, w.close = map[uint32]bool{}, map[uint32]bool{}
		for _, r := range w.rows {
			if r.t.Cmp(tmin) == 0 {
				w.opens[math.Float32bits(r.o)] = true
			}
			if r.t.Cmp(tmax) == 0 {
				w.close[math.Float32bits(r.c)] = true
			}
		}
		ws = append(ws, w)
	}
	sort.Slice(ws, func(a, b int) bool { return ws[a].start < ws[b].start })
	return ws
}

func c21SumOK(got float64, vals []float32, div int) bool {
	if got != got || math.IsInf(got, 0) {
		return false
	}
	sum, abs := new(big.Rat), new(big.Rat)
	for _, f := range vals {
		x := new(big.Rat).SetFloat64(float64(f))
		sum.Add(sum, x)
		abs.Add(abs, new(big.Rat).Abs(x))
	}
	d := big.NewRat(int64(div), 1)
	want := new(big.Rat).Quo(sum, d)
	tol := new(big.Rat).Quo(abs, d)
	tol.Mul(tol, big.NewRat(int64(len(vals)+1), 1))
	tol.Mul(tol, new(big.Rat).SetFrac(big.NewInt(1), new(big.Int).Lsh(big.NewInt(1), 52)))
	diff := new(big.Rat).Sub(new(big.Rat).SetFloat64(got), want)
	return diff.Abs(diff).Cmp(tol) <= 0
}

// c21Judge evaluates the property on the implementation's output rows. It returns "" or what failed.
func c21Judge(in *c21In, rows []c21Tick, obs []c21Row, checkSums bool) string {
	want := c21Expected(in, rows)
	if len(obs) != len(want) {
		return fmt.Sprintf("%d candles for %d windows holding rows", len(obs), len(want))
	}
	for i, w := range want {
		g := obs[i]
		if g.Epoch != w.start {
			return fmt.Sprintf("candle %d starts at %d, window %d expected (time order / one candle per window)", i, g.Epoch, w.start)
		}
		nan := false
		for _, r := range w.rows {
			if r.o != r.o || r.h != r.h || r.l != r.l || r.c != r.c {
				nan = true
			}
		}
		if !nan {
			if !w.opens[g.O] {
				return fmt.Sprintf("window %d: open %v is not the price of an earliest row", w.start, math.Float32frombits(g.O))
			}
			if !w.close[g.C] {
				return fmt.Sprintf("window %d: close %v is not the price of a latest row", w.start, math.Float32frombits(g.C))
			}
			if h := math.Float32frombits(g.H); h != w.hi {
				return fmt.Sprintf("window %d: high %v, the highest price is %v", w.start, h, w.hi)
			}
			if l := math.Float32frombits(g.L); l != w.lo {
				return fmt.Sprintf("window %d: low %v, the lowest price is %v", w.start, l, w.lo)
			}
		}
		if !checkSums {
			continue
		}
		for k, a := range in.SumIdx {
			vals, fin := c21AccVals(w.rows, a)
			if fin && !c21SumOK(math.Float64frombits(g.Sums[k]), vals, 1) {
				return fmt.Sprintf("window %d: sum of column A%d is %v over %v", w.start, a, math.Float64frombits(g.Sums[k]), vals)
			}
		}
		for k, a := range in.AvgIdx {
			vals, fin := c21AccVals(w.rows, a)
			if fin && !c21SumOK(math.Float64frombits(g.Avgs[k]), vals, len(vals)) {
				return fmt.Sprintf("window %d: average of column A%d is %v over %v", w.start, a, math.Float64frombits(g.Avgs[k]), vals)
			}
		}
	}
	return ""
}

func c21AccVals(rows []c21Tick, a int) (vals []float32, finite bool) {
	finite = true
	for _, r := range rows {
		v := r.acc[a]
		if v != v || math.IsInf(float64(v), 0) {
			finite = false
		}
		vals = append(vals, v)
	}
	return
}

// c21Reverse returns the same rows in reverse order (chunks reversed, rows within each chunk reversed).
func c21Reverse(in *c21In) *c21In {
	out := *in
	out.Chunks = nil
	revCol := func(c c21Col) c21Col {
		n := c21Col{Type: c.Type, Vals: make([]uint64, len(c.Vals))}
		for i, v := range c.Vals {
			n.Vals[len(c.Vals)-1-i] = v
		}
		return n
	}
	for ci := len(in.Chunks) - 1; ci >= 0; ci-- {
		ch := in.Chunks[ci]
		n := c21Chunk{Epochs: make([]int64, len(ch.Epochs))}
		for i, e := range ch.Epochs {
			n.Epochs[len(ch.Epochs)-1-i] = e
		}
		if ch.Nanos != nil {
			n.Nanos = make([]int32, len(ch.Nanos))
			for i, e := range ch.Nanos {
				n.Nanos[len(ch.Nanos)-1-i] = e
			}
		}
		for g := range ch.Price {
			var grp []c21Col
			for _, c := range ch.Price[g] {
				grp = append(grp, revCol(c))
			}
			n.Price = append(n.Price, grp)
		}
		for _, c := range ch.Acc {
			n.Acc = append(n.Acc, revCol(c))
		}
		out.Chunks = append(out.Chunks, n)
	}
	return &out
}

// c21SameOHLC compares two outputs' windows and OHLC as numbers (NaN equals NaN, +0 equals -0).
func c21SameOHLC(a, b []c21Row, la, lb string) string {
	if len(a) != len(b) {
		return fmt.Sprintf("%d candles %s, %d candles %s", len(a), la, len(b), lb)
	}
	eq := func(x, y uint32) bool {
		fx, fy := math.Float32frombits(x), math.Float32frombits(y)
		return fx == fy || (fx != fx && fy != fy)
	}
	for i := range a {
		if a[i].Epoch != b[i].Epoch || !eq(a[i].O, b[i].O) || !eq(a[i].H, b[i].H) || !eq(a[i].L, b[i].L) || !eq(a[i].C, b[i].C) {
			f := math.Float32frombits
			return fmt.Sprintf("window %d: OHLC %v %v %v %v %s, %v %v %v %v %s",
				a[i].Epoch, f(a[i].O), f(a[i].H), f(a[i].L), f(a[i].C), la, f(b[i].O), f(b[i].H), f(b[i].L), f(b[i].C), lb)
		}
	}
	return ""
}

func c21Distinct(rows []c21Tick) bool {
	seen := map[string]bool{}
	for _, r := range rows {
		k := r.t.String()
		if seen[k] {
			return false
		}
		seen[k] = true
	}
	return true
}

func c21Run(raw json.RawMessage) (res Result, err error) {
	var in c21In
	if err = json.Unmarshal(raw, &in); err != nil {
		return
	}
	obs, _, err := c21Exec(&in)
	if err != nil {
		return res, err
	}
	res.Obs = obs
	var inputs []string
	for ci := range in.Chunks {
		inputs = append(inputs, c21CoqInput(&in.Chunks[ci]))
	}
	res.Coq = cq.Rec(cq.F("k_off", cq.Z(int64(in.Zone))), cq.F("k_mult", cq.Z(int64(in.Mult))), cq.F("k_suffix", cq.Str(in.Suffix)),
		cq.F("k_sum_idx", c21Nats(in.SumIdx)), cq.F("k_avg_idx", c21Nats(in.AvgIdx)),
		cq.F("k_inputs", cq.List(inputs)), cq.F("k_code", cq.Nat(obs.Code)), cq.F("k_out", c21CoqRows(obs.Rows)))

	// ---- oracle ----
	rows, wellFormed := c21Ticks(&in)
	zeroTime, hasNaN := false, false
	for _, r := range rows {
		if r.t.Cmp(new(big.Int).Mul(big.NewInt(c21ZeroTimeUnix), big.NewInt(1000000000))) == 0 {
			zeroTime = true
		}
		if r.o != r.o || r.h != r.h || r.l != r.l || r.c != r.c {
			hasNaN = true
		}
	}
	multiday := in.Suffix == "D" && in.Mult > 1
	scope := in.Mult >= 1 && !multiday
	res.InDomain = wellFormed && scope && !zeroTime
	res.Holds = true
	if wellFormed && scope {
		if obs.Code != 0 {
			res.Holds, res.Detail = false, fmt.Sprintf("candler failed with code %d (%s) on well-formed input", obs.Code, obs.Err)
		} else if d := c21Judge(&in, rows, obs.Rows, true); d != "" {
			res.Holds, res.Detail = false, d
		}
		if !res.Holds && zeroTime {
			res.Class = "candle-zero-time-sentinel"
		}
		// order independence for distinct timestamps: the same rows in reverse order
		if res.Holds && !zeroTime && c21Distinct(rows) {
			rin := c21Reverse(&in)
			robs, _, rerr := c21Exec(rin)
			if rerr == nil {
				if robs.Code != 0 {
					res.Holds, res.Detail = false, fmt.Sprintf("candler failed with code %d on the reversed rows", robs.Code)
				} else if d := c21SameOHLC(obs.Rows, robs.Rows, "in input order", "with the rows reversed (distinct timestamps)"); d != "" {
					res.Holds, res.Detail = false, d
				}
				if !res.Holds && hasNaN {
					res.Class = "nan-price"
				}
			}
		}
	}
	// "<n>D", n > 1: whatever the alignment of n-day windows, K consecutive days are covered by at most ceil((K-1)/n)+1 of them
	if wellFormed && multiday && !zeroTime && obs.Code == 0 {
		days := map[int64]bool{}
		for _, g := range obs.Rows {
			days[(g.Epoch+int64(in.Zone))/86400] = true
		}
		for d := range days {
			if days[d-1] {
				continue
			}
			k := int64(0)
			for days[d+k] {
				k++
			}
			n := int64(in.Mult)
			if bound := (k-1+n-1)/n + 1; k > bound {
				res.Holds, res.Class = false, "multiday-window"
				res.Detail = fmt.Sprintf("%d%s: %d candles over %d consecutive days, at most %d windows of %d days can cover them", in.Mult, in.Suffix, k, k, bound, n)
			}
		}
	}
	res.Nontrivial = res.InDomain && len(rows) >= 3
	res.Tags = []string{"kind:" + in.Kind, "suffix:" + in.Suffix, fmt.Sprintf("code=%d", obs.Code), fmt.Sprintf("chunks=%d", len(in.Chunks)),
		fmt.Sprintf("rows=%d", bucket(len(rows))), fmt.Sprintf("candles=%d", bucket(len(obs.Rows))), fmt.Sprintf("acc=%d", len(in.SumIdx)+len(in.AvgIdx))}
	if in.Zone != 0 {
		res.Tags = append(res.Tags, fmt.Sprintf("zone=%+d", in.Zone))
	}
	if multiday {
		res.Tags = append(res.Tags, "multiday")
	}
	if in.Runner {
		res.Tags = append(res.Tags, "via-runner")
	} else {
		res.Tags = append(res.Tags, "direct")
	}
	if hasNaN {
		res.Tags = append(res.Tags, "nan")
	}
	if !wellFormed {
		res.Tags = append(res.Tags, "malformed")
	}
	if len(in.Chunks) > 0 && in.Chunks[0].Nanos != nil {
		res.Tags = append(res.Tags, "nanoseconds")
	}
	if res.InDomain {
		res.Tags = append(res.Tags, "in-domain")
	} else {
		res.Tags = append(res.Tags, "outside-domain")
	}
	res.Key = string(raw)
	return res, nil
}

func c21Neighbours(raw json.RawMessage, r *rng.Rand) []interface{} {
	var in c21In
	if json.Unmarshal(raw, &in) != nil {
		return nil
	}
	var out []interface{}
	for _, s := range c21Suffixes {
		if s != in.Suffix {
			n := in
			n.Suffix = s
			out = append(out, n)
		}
	}
	return out
}

func init() {
	Register(&Spec{
		ID:          "C21",
		CoqRequire:  "Require Import MS.Corr.C21.",
		CoqCaseType: "C21.case",
		Rule: "tick (60%) or candle input; timeframe <mult><Sec|Min|H|D>, mult from 13 values; through AggRunner.Run (40%) or New + 1-3 Accum " +
			"calls; 1-10 rows per call (1-80 thorough) over 1-4 windows incl. window boundaries, duplicate timestamps, 45% out of time " +
			"order, 30% with a Nanoseconds column, dates before 1970; prices: quarters, near-equal, IEEE extremes/NaN, random bits; 1-2 " +
			"columns per price (averaged), float32/float64/int price columns; 0-3 Sum/Avg columns; ~6% malformed (short/missing column, " +
			"empty input); distinct = distinct input JSON; non-trivial = inside the theorem's guard with >= 3 rows",
		Gen:        c21Gen,
		Run:        c21Run,
		Neighbours: c21Neighbours,
	})
}
