package props

import (
	"context"
	"encoding/json"
	"fmt"
	goio "io"
	"path/filepath"
	"regexp"
	"strconv"
	"time"

	"github.com/alpacahq/marketstore/v4/executor"
	"github.com/alpacahq/marketstore/v4/planner"
	"github.com/alpacahq/marketstore/v4/replication"
	"github.com/alpacahq/marketstore/v4/utils/io"

	"verifharness/internal/cq"
	"verifharness/internal/mk"
	"verifharness/internal/rng"
	"verifharness/internal/tginst"
)

// C25 — Replicas converge to the master.
// Implementation under test: an in-process MASTER instance whose WAL file hands every flushed, synced
// transaction group to a recording executor.ReplicationSender (executor/wal.go:318-320), and a REPLICA
// instance (second root) driven by the real replication.Receiver.Run loop -> replication.ReplayerImpl.Replay
// (ParseTGData -> WTSetToCSM/wtSetToCS/serializeVariableRecords -> the replica Writer's WriteCSM).
// The receiver's gRPC client is a fake (replication.GRPCClient is an exported interface) that delivers the
// recorded TGs in order and then EOF.  Afterwards every bucket is queried in full on both instances
// (frontend.QueryService.ExecuteQuery) and compared row by row.
//
// A transaction group is produced on the master by one or more writes followed by ONE flush: either one real
// Writer.WriteCSM call (single bucket), or, to control the order of the write sets inside the TG (a multi-
// bucket csm is a Go map), the steps WriteCSM itself performs per bucket (GetTime, Remove("Nanoseconds"),
// ToRowSeries, Writer.WriteRecords) for each write in the chosen order, then WALFile.RequestFlush().  This
// is what concurrent clients produce in background mode: their commands share a flush.

type c25Bucket struct {
	TF  string `json:"tf"`
	Var bool   `json:"var,omitempty"`
}
type c25Row struct {
	Epoch int64 `json:"epoch"`
	Nanos int32 `json:"nanos,omitempty"` // variable buckets only
	A     int32 `json:"a"`
	B     int64 `json:"b"`
}
type c25Write struct {
	Bucket int      `json:"bucket"`
	Rows   []c25Row `json:"rows"`
}
type c25In struct {
	Buckets []c25Bucket  `json:"buckets"`
	TGs     [][]c25Write `json:"tgs"`
	ViaCSM  []bool       `json:"via_csm,omitempty"` // TG i (single write) goes through the real WriteCSM
}

var c25TFs = []string{"1Sec", "1Min", "5Min", "15Min", "1H", "1D", "10Sec", "30Min"} // 4H, 2H: full-range queries fail ("no files returned from query parse", C31's subject)

func c25Gen(r *rng.Rand, i int, tier string) interface{} {
	var in c25In
	nb := 1 + r.Intn(3)
	mode := r.Intn(10) // 0-4 homogeneous-friendly (all fixed / all variable), 5-9 anything
	for j := 0; j < nb; j++ {
		b := c25Bucket{TF: c25TFs[r.Intn(len(c25TFs))], Var: r.Bool()}
		switch {
		case mode <= 2:
			b.Var = false
		case mode <= 4:
			b.Var = true
			if r.Chance(60) {
				b.TF = "1Sec"
			}
		}
		in.Buckets = append(in.Buckets, b)
	}
	maxTG, maxRows := 4, 3
	if tier == "thorough" {
		maxTG, maxRows = 8, 6
	}
	year := 2018 + r.Intn(4)
	base := time.Date(year, time.Month(1+r.Intn(12)), 1+r.Intn(28), r.Intn(24), r.Intn(60), r.Intn(60), 0, time.UTC).Unix()
	if r.Chance(10) {
		base = time.Date(year, 12, 31, 23, 59, 50, 0, time.UTC).Unix() // year edge
	}
	if r.Chance(10) {
		base = time.Date(year, 1, 1, 0, 0, 0, 0, time.UTC).Unix()
	}
	ntg := 1 + r.Intn(maxTG)
	for t := 0; t < ntg; t++ {
		var tg []c25Write
		nw := 1 + r.Intn(3)
		for w := 0; w < nw; w++ {
			bi := r.Intn(nb)
			b := in.Buckets[bi]
			wr := c25Write{Bucket: bi}
			n := 1 + r.Intn(maxRows)
			ep := base + int64(r.Intn(4000))
			for k := 0; k < n; k++ {
				row := c25Row{Epoch: ep, A: int32(r.U64()), B: r.I64()}
				if b.Var {
					switch r.Intn(5) {
					case 0:
						row.Nanos = 0
					case 1:
						row.Nanos = 999999999
					case 2:
						row.Nanos = int32(r.Intn(1000))
					default:
						row.Nanos = int32(r.Intn(1000000000))
					}
				}
				wr.Rows = append(wr.Rows, row)
				switch r.Intn(4) {
				case 0: // same second again (variable) / next second
					if !b.Var {
						ep++
					}
				case 1:
					ep++
				case 2:
					ep += int64(1 + r.Intn(120))
				default:
					ep += int64(3600 * (1 + r.Intn(40)))
				}
			}
			tg = append(tg, wr)
		}
		in.TGs = append(in.TGs, tg)
		in.ViaCSM = append(in.ViaCSM, len(tg) == 1 && r.Chance(60))
	}
	return in
}

type c25WS struct {
	RT      int         `json:"rt"`
	Bucket  string      `json:"bucket"`
	TF      int64       `json:"tf"`
	Year    int         `json:"year"`
	Index   int64       `json:"index"`
	Payload []byte      `json:"payload"`
	VRL     int         `json:"vrl"`
	Shapes  [][2]string `json:"shapes"`
	shapes  []io.DataShape
}
type c25QRow struct {
	T    int64  `json:"t"` // ns since the epoch
	Data []byte `json:"data"`
}
type c25QB struct {
	Bucket  string    `json:"bucket"`
	Master  []c25QRow `json:"master"`
	MOK     bool      `json:"master_present"`
	Replica []c25QRow `json:"replica"`
	ROK     bool      `json:"replica_present"`
}
type c25Obs struct {
	Code      int       `json:"code"` // 0 ok, 2 panic
	TGs       [][]c25WS `json:"tgs"`
	ReplayErr string    `json:"replay_error,omitempty"`
	Applied   int       `json:"applied"` // TGs handed to Replay before the receiver loop ended
	WErrs     []string  `json:"write_errors,omitempty"`
	Q         []c25QB   `json:"q"`
}

type c25Pool struct {
	m, r   *tginst.Inst
	sender *tginst.RecSender
	n      int64
}

var c25P *c25Pool

func c25GetPool() (*c25Pool, error) {
	if c25P != nil {
		return c25P, nil
	}
	// Keep: the transmitted messages are the very slices the WAL goroutine handed to the sender, read only after
	// the master has committed the whole history (a replication backlog: the replica is behind by every TG)
	p := &c25Pool{sender: &tginst.RecSender{Keep: true}}
	var err error
	if p.m, err = tginst.New(nil, p.sender); err != nil {
		return nil, err
	}
	if p.r, err = tginst.New(nil, nil); err != nil {
		return nil, err
	}
	c25P = p
	return p, nil
}

// fake gRPC client: delivers the recorded TGs, then EOF
type c25Client struct {
	tgs [][]byte
	i   int
}

func (c *c25Client) Connect(context.Context) error { return nil }
func (c *c25Client) Recv() ([]byte, error) {
	if c.i >= len(c.tgs) {
		return nil, goio.EOF
	}
	c.i++
	return c.tgs[c.i-1], nil
}

func c25Schema() []io.DataShape {
	return []io.DataShape{{Name: "Epoch", Type: io.INT64}, {Name: "A", Type: io.INT32}, {Name: "B", Type: io.INT64}}
}

func c25CS(b c25Bucket, rows []c25Row) *io.ColumnSeries {
	cs := io.NewColumnSeries()
	ep, a, bv, ns := make([]int64, len(rows)), make([]int32, len(rows)), make([]int64, len(rows)), make([]int32, len(rows))
	for i, r := range rows {
		ep[i], a[i], bv[i], ns[i] = r.Epoch, r.A, r.B, r.Nanos
	}
	cs.AddColumn("Epoch", ep)
	cs.AddColumn("A", a)
	cs.AddColumn("B", bv)
	if b.Var {
		cs.AddColumn("Nanoseconds", ns)
	}
	return cs
}

var c25KeyRe = regexp.MustCompile(`^([^/]+/[^/]+/[^/]+)/([0-9]+)\.bin$`)

func c25Query(in *tginst.Inst, key string) (rows []c25QRow, present bool, err error) {
	defer func() {
		if p := recover(); p != nil {
			err = fmt.Errorf("query panic: %v", p)
		}
	}()
	tbk := io.NewTimeBucketKey(key)
	if _, e := in.Cat.GetLatestTimeBucketInfoFromKey(tbk); e != nil {
		return nil, false, nil
	}
	csm, e := in.Q.ExecuteQuery(tbk, time.Unix(0, 0).UTC(), planner.MaxTime, 0, false, nil)
	if e != nil {
		return nil, true, e
	}
	tbi, _ := in.Cat.GetLatestTimeBucketInfoFromKey(tbk)
	isVar := tbi != nil && tbi.GetRecordType() == io.VARIABLE
	for _, cs := range csm {
		ep := cs.GetEpoch()
		var ns []int32
		if isVar {
			ns, _ = cs.GetColumn("Nanoseconds").([]int32)
		}
		type rawcol struct {
			raw []byte
			sz  int
		}
		var cols []rawcol
		for _, name := range cs.GetColumnNames() {
			if name == "Epoch" || (isVar && name == "Nanoseconds") {
				continue
			}
			raw := mk.Raw(cs.GetColumn(name))
			if len(ep) > 0 {
				cols = append(cols, rawcol{raw, len(raw) / len(ep)})
			}
		}
		for i := range ep {
			q := c25QRow{T: ep[i] * 1000000000, Data: []byte{}}
			if ns != nil {
				q.T += int64(ns[i])
			}
			for _, c := range cols {
				q.Data = append(q.Data, c.raw[i*c.sz:(i+1)*c.sz]...)
			}
			rows = append(rows, q)
		}
	}
	return rows, true, nil
}

func c25Exec(in *c25In, obs *c25Obs) (keys []string, err error) {
	p, err := c25GetPool()
	if err != nil {
		return nil, err
	}
	p.n++
	p.sender.Reset()
	for i := range in.Buckets {
		attr := "F"
		if in.Buckets[i].Var {
			attr = "V"
		}
		keys = append(keys, fmt.Sprintf("C%dB%d/%s/%s", p.n, i, in.Buckets[i].TF, attr))
	}
	ensure := func(bi int, year int16) (*io.TimeBucketInfo, error) {
		tbk := io.NewTimeBucketKey(keys[bi])
		if tbi, err := p.m.Cat.GetLatestTimeBucketInfoFromKey(tbk); err == nil {
			return tbi, nil
		}
		tf, err := tbk.GetTimeFrame()
		if err != nil {
			return nil, err
		}
		rt := io.FIXED
		if in.Buckets[bi].Var {
			rt = io.VARIABLE
		}
		tbi := io.NewTimeBucketInfo(*tf, tbk.GetPathToYearFiles(p.m.Root), "verif", year, c25Schema()[1:], rt)
		if err := p.m.Cat.AddTimeBucket(tbk, tbi); err != nil {
			return nil, err
		}
		return p.m.Cat.GetLatestTimeBucketInfoFromKey(tbk)
	}
	for ti, tg := range in.TGs {
		if len(tg) == 1 && ti < len(in.ViaCSM) && in.ViaCSM[ti] {
			w := tg[0]
			csm := io.NewColumnSeriesMap()
			csm.AddColumnSeries(*io.NewTimeBucketKey(keys[w.Bucket]), c25CS(in.Buckets[w.Bucket], w.Rows))
			if err := p.m.W.WriteCSM(csm, in.Buckets[w.Bucket].Var); err != nil {
				obs.WErrs = append(obs.WErrs, err.Error())
			}
			continue
		}
		for _, w := range tg {
			if len(w.Rows) == 0 {
				continue
			}
			b := in.Buckets[w.Bucket]
			cs := c25CS(b, w.Rows)
			times, err := cs.GetTime()
			if err != nil {
				return keys, err
			}
			if b.Var {
				cs.Remove("Nanoseconds")
			}
			tbi, err := ensure(w.Bucket, int16(times[0].Year()))
			if err != nil {
				return keys, err
			}
			rs, err := cs.ToRowSeries(*io.NewTimeBucketKey(keys[w.Bucket]), false)
			if err != nil {
				return keys, err
			}
			if err := p.m.W.WriteRecords(times, rs.GetData(), tbi.GetDataShapesWithEpoch(), tbi); err != nil {
				obs.WErrs = append(obs.WErrs, err.Error())
			}
		}
		p.m.WAL.RequestFlush()
	}
	tgs := p.sender.Snapshot()
	for _, tg := range tgs {
		_, wts := executor.ParseTGData(tg, p.m.Root)
		var l []c25WS
		for _, wt := range wts {
			rel, _ := filepath.Rel(p.m.Root, wt.FilePath)
			m := c25KeyRe.FindStringSubmatch(rel)
			if m == nil {
				return keys, fmt.Errorf("unexpected key path %q", rel)
			}
			year, _ := strconv.Atoi(m[2])
			tf, err := io.NewTimeBucketKey(m[1]).GetTimeFrame()
			if err != nil {
				return keys, err
			}
			ws := c25WS{RT: int(wt.RecordType), Bucket: m[1], TF: int64(tf.Duration), Year: year, Index: wt.Buffer.Index(),
				Payload: append([]byte{}, wt.Buffer.Payload()...), VRL: wt.VarRecLen, shapes: wt.DataShapes}
			for _, s := range wt.DataShapes {
				ws.Shapes = append(ws.Shapes, [2]string{s.Name, s.Type.String()})
			}
			l = append(l, ws)
		}
		obs.TGs = append(obs.TGs, l)
	}
	// ---- the replica: real Receiver loop over the recorded stream
	client := &c25Client{tgs: tgs}
	rep := replication.NewReplayer(executor.ParseTGData, p.r.W.WriteCSM, p.r.Root)
	rerr := replication.NewReceiver(client, rep).Run(context.Background())
	obs.Applied = client.i
	if rerr != nil && client.i >= len(tgs) && rerr.Error() == "received EOF from master server" {
		rerr = nil
	}
	if rerr != nil {
		obs.ReplayErr = rerr.Error()
	}
	for _, k := range keys {
		qb := c25QB{Bucket: k}
		var e error
		if qb.Master, qb.MOK, e = c25Query(p.m, k); e != nil {
			return keys, fmt.Errorf("master query %s: %w", k, e)
		}
		if qb.Replica, qb.ROK, e = c25Query(p.r, k); e != nil {
			return keys, fmt.Errorf("replica query %s: %w", k, e)
		}
		obs.Q = append(obs.Q, qb)
	}
	return keys, nil
}

var c25IPD = map[string]int64{"1Sec": 86400, "10Sec": 8640, "1Min": 1440, "5Min": 288, "15Min": 96, "1H": 24, "30Min": 48, "1D": 1}

func c25Run(raw json.RawMessage) (res Result, err error) {
	var in c25In
	if err = json.Unmarshal(raw, &in); err != nil {
		return
	}
	for _, tg := range in.TGs {
		for _, w := range tg {
			if w.Bucket < 0 || w.Bucket >= len(in.Buckets) {
				return res, fmt.Errorf("bad bucket index")
			}
		}
	}
	var obs c25Obs
	func() {
		defer func() {
			if p := recover(); p != nil {
				obs.Code = 2
				obs.ReplayErr = fmt.Sprint(p)
				c25P = nil
			}
		}()
		_, err = c25Exec(&in, &obs)
	}()
	if err != nil {
		return res, err
	}
	res.Obs = obs

	// ---- Gallina case ----
	var ctgs, cq_ []string
	for _, tg := range obs.TGs {
		var l []string
		for _, w := range tg {
			var sh []string
			for _, s := range w.shapes {
				sh = append(sh, cq.Tuple(cq.Hex([]byte(s.Name)), cq.Z(int64(s.Type))))
			}
			l = append(l, cq.Rec(cq.F("w_rt", cq.Z(int64(w.RT))), cq.F("w_bucket", cq.Hex([]byte(w.Bucket))), cq.F("w_tf", cq.Z(w.TF)),
				cq.F("w_year", cq.Z(int64(w.Year))), cq.F("w_idx", cq.Z(w.Index)), cq.F("w_payload", cq.Hex(w.Payload)),
				cq.F("w_vrl", cq.Z(int64(w.VRL))), cq.F("w_shapes", cq.List(sh))))
		}
		ctgs = append(ctgs, cq.List(l))
	}
	rowsCoq := func(present bool, rows []c25QRow) string {
		if !present {
			return "None"
		}
		var l []string
		for _, q := range rows {
			l = append(l, cq.Tuple(cq.Z(q.T), cq.Hex(q.Data)))
		}
		return cq.Some(cq.List(l))
	}
	for _, qb := range obs.Q {
		cq_ = append(cq_, cq.Tuple(cq.Hex([]byte(qb.Bucket)), rowsCoq(qb.MOK, qb.Master), rowsCoq(qb.ROK, qb.Replica)))
	}
	rcode := 0
	if obs.ReplayErr != "" {
		rcode = 1
	}
	if obs.Code == 2 {
		rcode = 2
	}
	res.Coq = cq.Rec(cq.F("k_tgs", cq.List(ctgs)), cq.F("k_rcode", cq.Nat(rcode)), cq.F("k_q", cq.List(cq_)))

	// ---- classes (executable mirrors of the Coq guards) and the property oracle ----
	mixed := false
	nvar, nfix := 0, 0
	for _, tg := range obs.TGs {
		for _, w := range tg {
			if w.RT != tg[0].RT {
				mixed = true
			}
			if w.RT == int(io.VARIABLE) && w.VRL >= 4 {
				nvar++
			} else {
				nfix++
			}
		}
	}
	res.Holds = true
	fail := func(f string, a ...interface{}) {
		if res.Holds {
			res.Holds, res.Detail = false, fmt.Sprintf(f, a...)
		}
	}
	if obs.Code != 0 {
		fail("panic: %s", obs.ReplayErr)
	}
	if len(obs.WErrs) > 0 {
		fail("master write error: %s", obs.WErrs[0])
	}
	for bi, qb := range obs.Q {
		if !qb.MOK {
			continue // nothing written to it
		}
		if !qb.ROK {
			fail("bucket %s exists on the master (%d rows) but not on the replica", qb.Bucket, len(qb.Master))
			continue
		}
		if len(qb.Master) != len(qb.Replica) {
			fail("bucket %s: %d rows on the master, %d on the replica", qb.Bucket, len(qb.Master), len(qb.Replica))
			continue
		}
		tol := int64(0)
		if in.Buckets[bi].Var { // the bucket's timestamp resolution: one tick = interval / 2^32, rounded up; twice that
			ipd := c25IPD[in.Buckets[bi].TF]
			tol = 2 * ((86400000000000/ipd + 4294967295) / 4294967296)
		}
		// same rows: every master row is matched by its own replica row with the same column bytes and a timestamp
		// within the tolerance (records whose ticks differ by less than the resolution may come back in another order)
		used := make([]bool, len(qb.Replica))
		for i := range qb.Master {
			found := false
			for j := range qb.Replica {
				d := qb.Master[i].T - qb.Replica[j].T
				if d < 0 {
					d = -d
				}
				if !used[j] && d <= tol && string(qb.Master[i].Data) == string(qb.Replica[j].Data) {
					used[j], found = true, true
					break
				}
			}
			if !found {
				fail("bucket %s: master row %d (t=%d ns, %x) has no replica row with the same columns within %d ns (replica row %d: t=%d ns, %x)",
					qb.Bucket, i, qb.Master[i].T, qb.Master[i].Data, tol, i, qb.Replica[i].T, qb.Replica[i].Data)
				break
			}
		}
	}
	res.InDomain = obs.Code == 0
	res.Tags = []string{fmt.Sprintf("tgs=%d", len(obs.TGs)), fmt.Sprintf("buckets=%d", len(in.Buckets))}
	if mixed {
		res.Tags = append(res.Tags, "mixed-tg")
	}
	if nvar > 0 {
		res.Tags = append(res.Tags, "has-variable")
	}
	if nfix > 0 {
		res.Tags = append(res.Tags, "has-fixed")
	}
	if obs.ReplayErr != "" {
		res.Tags = append(res.Tags, "replay-error")
	}
	if res.InDomain {
		res.Tags = append(res.Tags, "in-domain")
	}
	res.Nontrivial = res.InDomain && nvar+nfix >= 2
	res.Key = string(raw)
	return res, nil
}

func init() {
	Register(&Spec{
		ID:          "C25",
		CoqRequire:  "Require Import MS.Corr.C25.",
		CoqCaseType: "C25.case",
		Rule: "1-3 buckets (fixed or variable, 8 timeframes 1Sec..1D; 30% all fixed, 20% all variable mostly 1Sec), 1-4 transaction groups of " +
			"1-3 writes x 1-3 rows (same second / same interval / later intervals, year edges, nanoseconds 0 / 999999999 / small / random), " +
			"each TG = one flush on a real master instance; single-write TGs go through the real WriteCSM 60% of the time; the recorded TG " +
			"stream is replayed on a real replica instance by replication.Receiver.Run; distinct = distinct input JSON; non-trivial = inside " +
			"the guard (well-formed write sets) with >= 2 write sets",
		Gen: c25Gen,
		Run: c25Run,
	})
}
