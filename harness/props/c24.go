package props

import (
	"encoding/json"
	"fmt"
	"math"
	"sort"
	"time"

	"github.com/alpacahq/marketstore/v4/utils/io"

	"verifharness/internal/aggx"
	"verifharness/internal/cq"
	"verifharness/internal/rng"
)

// C24 — On-disk aggregation matches the base data.
// Implementation under test: contrib/ondiskagg/aggtrigger (NewTrigger, Fire, write, writeAggregates, aggregate),
// io.ColumnSeriesUnion / SliceColumnSeriesByEpoch, trigger.RecordsToColumnSeries, on a real instance: the trigger is
// registered through trigger.NewMatcher on a real TriggerPluginDispatcher; base bars are written with
// executor.WriteCSM (synchronous WAL flush, records dispatched to the trigger in the background); after every
// write the harness waits until Fire has returned and reads all destination buckets back.

type c24Bar struct {
	Epoch         int64  `json:"epoch"`
	O, H, L, C, V uint32 // float32 bit patterns
}
type c24In struct {
	Dests  []string   `json:"dests"`
	Writes [][]c24Bar `json:"writes"`
}

const c24Key = "AAA/1Min/OHLCV"

var c24DestPool = []string{"5Min", "15Min", "30Min", "1H", "2H", "4H", "1D"}
var c24DestSecs = map[string]int64{"5Min": 300, "15Min": 900, "30Min": 1800, "1H": 3600, "2H": 7200, "4H": 14400, "1D": 86400, "10Min": 600, "20Min": 1200}

func c24Val(r *rng.Rand, mode int) float32 {
	switch mode {
	case 0:
		return float32(r.Range(4, 400)) / 4
	case 1:
		return 100 + float32(r.Range(-8, 8))/8
	default:
		return float32(r.Range(-50, 50))
	}
}

func c24MkBar(r *rng.Rand, epoch int64, mode int) c24Bar {
	o, c := c24Val(r, mode), c24Val(r, mode)
	hi, lo := o, o
	if c > hi {
		hi = c
	}
	if c < lo {
		lo = c
	}
	hi += float32(r.Intn(3)) / 2
	lo -= float32(r.Intn(3)) / 2
	v := float32(r.Range(0, 5000))
	b := c24Bar{Epoch: epoch, O: math.Float32bits(o), H: math.Float32bits(hi), L: math.Float32bits(lo), C: math.Float32bits(c), V: math.Float32bits(v)}
	if r.Chance(1) {
		b.H = 0x7fc00000 // NaN high (outside the oracle's domain)
	}
	return b
}

func c24Gen(r *rng.Rand, i int, tier string) interface{} {
	in := c24In{}
	nd := 1 + r.Intn(3)
	perm := []int{0, 1, 2, 3, 4, 5, 6}
	for j := len(perm) - 1; j > 0; j-- {
		k := r.Intn(j + 1)
		perm[j], perm[k] = perm[k], perm[j]
	}
	for j := 0; j < nd; j++ {
		in.Dests = append(in.Dests, c24DestPool[perm[j]])
	}
	if r.Chance(6) { // a destination that does not nest in the others
		in.Dests[r.Intn(len(in.Dests))] = []string{"10Min", "20Min"}[r.Intn(2)] // (timeframes dividing 24 h: bucket slots and Truncate windows coincide)
		if len(in.Dests) == 1 {
			in.Dests = append(in.Dests, "15Min")
		}
	}
	ub := int64(0)
	for _, d := range in.Dests {
		if c24DestSecs[d] > ub {
			ub = c24DestSecs[d]
		}
	}
	maxW, maxRows := 4, 6
	if tier == "thorough" {
		maxW, maxRows = 8, 12
	}
	nw := 1 + r.Intn(maxW)
	base := int64(1578700800) + r.Range(0, 200)*ub // 2020-01-11 00:00 UTC + whole upper-bound windows
	if ub == 86400 {
		base = int64(1578700800) + r.Range(0, 40)*ub
	}
	cur := base + r.Range(0, ub/60-1)*60
	mode := r.Intn(3)
	kindOfHistory := r.Intn(100) // < 45: append-only in order; else mixed
	var written []int64
	lateIn := int64(0) // an epoch in the first upper-bound window of the last multi-window write
	for w := 0; w < nw; w++ {
		n := 1 + r.Intn(maxRows)
		kind := 0 // append after everything written so far
		if kindOfHistory >= 45 && w > 0 {
			kind = []int{0, 0, 1, 1, 2, 2, 3, 4, 4}[r.Intn(9)]
		}
		var bars []c24Bar
		switch kind {
		case 0:
			for j := 0; j < n; j++ {
				cur += []int64{60, 60, 60, 120, 300, 900, ub, ub + 60, 3 * 60}[r.Intn(9)]
				bars = append(bars, c24MkBar(r, cur, mode))
			}
		case 1: // correction of bars already written (same epochs, new values), possibly plus a new one
			for j := 0; j < n && j < len(written); j++ {
				bars = append(bars, c24MkBar(r, written[r.Intn(len(written))], mode))
			}
			sort.Slice(bars, func(a, b int) bool { return bars[a].Epoch < bars[b].Epoch })
			ded := bars[:0]
			for j, b := range bars { // one row per slot (equal adjacent indexes are merged by the writer: C08's territory)
				if j == 0 || b.Epoch != bars[j-1].Epoch {
					ded = append(ded, b)
				}
			}
			bars = ded
			if r.Chance(30) {
				cur += 60
				bars = append(bars, c24MkBar(r, cur, mode))
			}
		case 2: // late arrival: bars earlier than the latest one (free or occupied slots), in time order
			t := written[r.Intn(len(written))] - r.Range(1, 40)*60
			if t < base-ub {
				t = base - ub
			}
			for j := 0; j < n; j++ {
				t += []int64{60, 60, 120, 300, 900}[r.Intn(5)]
				bars = append(bars, c24MkBar(r, t, mode))
			}
		case 4: // a write spanning two or more upper-bound windows, then (next write) a late bar in the EARLIER of them
			if r.Bool() || len(written) == 0 {
				for j := 0; j < n+1; j++ {
					cur += []int64{60, ub, ub + 60, 2 * ub}[r.Intn(4)]
					bars = append(bars, c24MkBar(r, cur, mode))
				}
				lateIn = bars[0].Epoch
			} else {
				t := c24TruncS(ub, lateIn) + r.Range(0, ub/60-1)*60
				if lateIn == 0 {
					t = written[0] + 60
				}
				bars = append(bars, c24MkBar(r, t, mode))
				if r.Chance(30) {
					bars = append(bars, c24MkBar(r, t+60, mode))
				}
			}
		default: // a write whose rows are not in time order
			for j := 0; j < n; j++ {
				cur += 60 * r.Range(1, 6)
				bars = append(bars, c24MkBar(r, cur, mode))
			}
			for j := len(bars) - 1; j > 0; j-- {
				k := r.Intn(j + 1)
				bars[j], bars[k] = bars[k], bars[j]
			}
		}
		if len(bars) == 0 {
			continue
		}
		for _, b := range bars {
			written = append(written, b.Epoch)
		}
		in.Writes = append(in.Writes, bars)
	}
	return in
}

func c24CS(bars []c24Bar) *io.ColumnSeries {
	n := len(bars)
	ep := make([]int64, n)
	cols := make([][]float32, 5)
	for k := range cols {
		cols[k] = make([]float32, n)
	}
	for i, b := range bars {
		ep[i] = b.Epoch
		for k, v := range []uint32{b.O, b.H, b.L, b.C, b.V} {
			cols[k][i] = math.Float32frombits(v)
		}
	}
	cs := io.NewColumnSeries()
	cs.AddColumn("Epoch", ep)
	for k, name := range []string{"Open", "High", "Low", "Close", "Volume"} {
		cs.AddColumn(name, cols[k])
	}
	return cs
}

func c24Read(in *aggx.Inst, key string, from, to int64) ([]c24Bar, error) {
	cs, err := in.ReadAll(key, from, to)
	if err != nil {
		return nil, err
	}
	if cs == nil {
		return nil, nil
	}
	ep := cs.GetEpoch()
	out := make([]c24Bar, len(ep))
	get := func(name string) ([]float32, error) {
		c, ok := cs.GetColumn(name).([]float32)
		if !ok || len(c) != len(ep) {
			return nil, fmt.Errorf("%s: column %s is %T", key, name, cs.GetColumn(name))
		}
		return c, nil
	}
	cols := make([][]float32, 5)
	for k, name := range []string{"Open", "High", "Low", "Close", "Volume"} {
		if cols[k], err = get(name); err != nil {
			return nil, err
		}
	}
	for i := range ep {
		f := func(k int) uint32 { return uint32(c23F32Bits(cols[k][i])) }
		out[i] = c24Bar{Epoch: ep[i], O: f(0), H: f(1), L: f(2), C: f(3), V: f(4)}
	}
	return out, nil
}

type c24Obs struct {
	Snaps  [][][]c24Bar `json:"snaps"` // after each write: per destination, its bars
	Base   []c24Bar     `json:"base"`
	Panics []string     `json:"panics,omitempty"`
	Extra  int          `json:"extra_fires,omitempty"`
}

func c24Exec(in *c24In) (obs c24Obs, err error) {
	inst, err := aggx.New(in.Dests, "*/1Min/OHLCV")
	if err != nil {
		return obs, err
	}
	defer inst.Close()
	from, to := int64(math.MaxInt64), int64(math.MinInt64)
	for _, w := range in.Writes {
		for _, b := range w {
			if b.Epoch < from {
				from = b.Epoch
			}
			if b.Epoch > to {
				to = b.Epoch
			}
		}
	}
	from, to = from-2*86400, to+2*86400 // every bar any destination can hold lies within a day of the base bars
	for _, w := range in.Writes {
		years := map[int]bool{}
		for _, b := range w {
			years[time.Unix(b.Epoch, 0).UTC().Year()] = true
		}
		p, e := inst.Write(c24Key, c24CS(w), len(years))
		obs.Panics = append(obs.Panics, p...)
		if e != nil {
			return obs, e
		}
		var snap [][]c24Bar
		for _, d := range in.Dests {
			bars, e := c24Read(inst, "AAA/"+d+"/OHLCV", from, to)
			if e != nil {
				return obs, e
			}
			snap = append(snap, bars)
		}
		obs.Snaps = append(obs.Snaps, snap)
	}
	obs.Base, err = c24Read(inst, c24Key, from, to)
	obs.Extra = inst.Extra
	return obs, err
}

func c24CoqBars(bars []c24Bar) string {
	var out []string
	for _, b := range bars {
		out = append(out, cq.List([]string{cq.Z(b.Epoch), cq.ZU(uint64(b.O)), cq.ZU(uint64(b.H)), cq.ZU(uint64(b.L)), cq.ZU(uint64(b.C)), cq.ZU(uint64(b.V))}))
	}
	return cq.List(out)
}

// c24Trunc: window start by the standard library (Time.Truncate), not by the code under test.
func c24Trunc(d int64, t int64) int64 {
	return time.Unix(t, 0).UTC().Truncate(time.Duration(d) * time.Second).Unix()
}

// c24Expected aggregates the final base bars per destination window: first open, max high, min low, last close, total volume.
func c24Expected(d int64, base []c24Bar) []c24Bar {
	var out []c24Bar
	f := math.Float32frombits
	for _, b := range base { // base is sorted by epoch
		w := c24Trunc(d, b.Epoch)
		if n := len(out); n > 0 && out[n-1].Epoch == w {
			a := &out[n-1]
			if f(b.H) > f(a.H) {
				a.H = b.H
			}
			if f(b.L) < f(a.L) {
				a.L = b.L
			}
			a.C = b.C
			a.V = math.Float32bits(f(a.V) + f(b.V))
		} else {
			out = append(out, c24Bar{Epoch: w, O: b.O, H: b.H, L: b.L, C: b.C, V: math.Float32bits(0 + f(b.V))})
		}
	}
	return out
}

func c24Run(raw json.RawMessage) (res Result, err error) {
	var in c24In
	if err = json.Unmarshal(raw, &in); err != nil {
		return
	}
	var dsecs []int64
	for _, d := range in.Dests {
		s, ok := c24DestSecs[d]
		if !ok {
			return res, fmt.Errorf("unknown destination %q", d)
		}
		dsecs = append(dsecs, s)
	}
	obs, err := c24Exec(&in)
	if err != nil {
		return res, err
	}
	res.Obs = obs
	var cd, cw, cs []string
	for _, s := range dsecs {
		cd = append(cd, cq.Z(s))
	}
	for _, w := range in.Writes {
		cw = append(cw, c24CoqBars(w))
	}
	for _, sn := range obs.Snaps {
		var per []string
		for _, bars := range sn {
			per = append(per, c24CoqBars(bars))
		}
		cs = append(cs, cq.List(per))
	}
	res.Coq = cq.Rec(cq.F("k_dests", cq.List(cd)), cq.F("k_writes", cq.List(cw)), cq.F("k_snaps", cq.List(cs)), cq.F("k_base", c24CoqBars(obs.Base)))

	// ---- classes of the history (executable mirrors of the Coq guard) ----
	seen := map[int64]bool{}
	maxSeen := int64(math.MinInt64)
	unsorted, rewrite, late, nan, aligned := false, false, false, false, true
	for _, w := range in.Writes {
		for j, b := range w {
			if j > 0 && b.Epoch <= w[j-1].Epoch {
				unsorted = true
			}
			if b.Epoch%60 != 0 {
				aligned = false
			}
			for _, v := range []uint32{b.O, b.H, b.L, b.C, b.V} {
				if x := math.Float32frombits(v); x != x {
					nan = true
				}
			}
		}
		for _, b := range w {
			if seen[b.Epoch] {
				rewrite = true
			} else if b.Epoch < maxSeen {
				late = true
			}
		}
		for _, b := range w {
			seen[b.Epoch] = true
			if b.Epoch > maxSeen {
				maxSeen = b.Epoch
			}
		}
	}
	ub := int64(0)
	for _, s := range dsecs {
		if s > ub {
			ub = s
		}
	}
	nested := true
	for _, s := range dsecs {
		if ub%s != 0 {
			nested = false
		}
	}
	res.InDomain = !unsorted && !rewrite && !late && nested && aligned && !nan
	// ---- oracle: every destination bucket = aggregation of the bars now stored in the base bucket ----
	res.Holds = true
	if !nan && aligned {
		if len(obs.Panics) > 0 {
			res.Holds, res.Detail = false, "the trigger panicked: "+obs.Panics[0]
		}
		for k, d := range in.Dests {
			if !res.Holds {
				break
			}
			want := c24Expected(dsecs[k], obs.Base)
			var got []c24Bar
			if n := len(obs.Snaps); n > 0 {
				got = obs.Snaps[n-1][k]
			}
			if len(got) != len(want) {
				res.Holds, res.Detail = false, fmt.Sprintf("%s: %d bars, but %d windows hold base bars", d, len(got), len(want))
				break
			}
			f := math.Float32frombits
			for j := range want {
				g, w := got[j], want[j]
				if g.Epoch != w.Epoch || f(g.O) != f(w.O) || f(g.H) != f(w.H) || f(g.L) != f(w.L) || f(g.C) != f(w.C) || f(g.V) != f(w.V) {
					res.Holds = false
					res.Detail = fmt.Sprintf("%s window %d: stored O/H/L/C/V %v %v %v %v %v at %d, the base bars give %v %v %v %v %v",
						d, w.Epoch, f(g.O), f(g.H), f(g.L), f(g.C), f(g.V), g.Epoch, f(w.O), f(w.H), f(w.L), f(w.C), f(w.V))
					break
				}
			}
		}
		mirrorSame := true // the modelled original behaviour yields exactly these destination buckets
		if !res.Holds {
			md, _ := c24Mirror(dsecs, in.Writes)
			for k := range in.Dests {
				var got []c24Bar
				if n := len(obs.Snaps); n > 0 {
					got = obs.Snaps[n-1][k]
				}
				canon := make([]c24Bar, len(md[k]))
				for j, b := range md[k] { // NaNs are canonicalised in the observed bars
					f := func(v uint32) uint32 { return uint32(c23F32Bits(math.Float32frombits(v))) }
					canon[j] = c24Bar{Epoch: b.Epoch, O: f(b.O), H: f(b.H), L: f(b.L), C: f(b.C), V: f(b.V)}
				}
				if !c24SameBars(got, canon) {
					mirrorSame = false
				}
			}
		}
		if !res.Holds && !mirrorSame {
			res.Detail += " [not the behaviour of the trigger as modelled at HEAD: unclassified]"
		}
		if !res.Holds && mirrorSame {
			switch {
			case unsorted:
				res.Class = "unsorted-write"
			case rewrite:
				res.Class = "rewrite-of-stored-bar"
			case late:
				res.Class = "write-before-cached-window"
			case !nested:
				res.Class = "non-nesting-destinations"
			}
		}
	}
	nrows := 0
	for _, w := range in.Writes {
		nrows += len(w)
	}
	res.Nontrivial = res.InDomain && len(in.Writes) >= 2 && nrows >= 4
	res.Tags = []string{fmt.Sprintf("dests=%d", len(in.Dests)), fmt.Sprintf("writes=%d", len(in.Writes)), fmt.Sprintf("rows=%d", bucket(nrows))}
	for _, d := range in.Dests {
		res.Tags = append(res.Tags, "dest:"+d)
	}
	for name, b := range map[string]bool{"unsorted-write": unsorted, "rewrite": rewrite, "late-arrival": late, "nan": nan, "nested": nested} {
		if b {
			res.Tags = append(res.Tags, name)
		}
	}
	if obs.Extra > 0 {
		res.Tags = append(res.Tags, "extra-fire")
	}
	if res.InDomain {
		res.Tags = append(res.Tags, "in-domain")
	} else {
		res.Tags = append(res.Tags, "outside-domain")
	}
	res.Key = string(raw)
	return res, nil
}

func init() {
	Register(&Spec{
		ID:          "C24",
		CoqRequire:  "Require Import MS.Corr.C24.",
		CoqCaseType: "C24.case",
		Rule: "histories of 1-4 writes (1-8 thorough) of 1-6 one-minute bars (1-12 thorough) to AAA/1Min/OHLCV on a fresh real instance with the " +
			"real trigger and 1-3 destinations among 5Min 15Min 30Min 1H 2H 4H 1D in random order (6%: a non-nesting 10Min/20Min); 45% append-only " +
			"in time order, else mixed with corrections of stored bars, late arrivals before the cached window, writes spanning several " +
			"windows and writes whose rows are not in time order; distinct = distinct input JSON; non-trivial = inside the theorem's guard " +
			"with >= 2 writes and >= 4 bars",
		Gen: c24Gen,
		Run: c24Run,
	})
}
