package props

import (
	"encoding/binary"
	"encoding/json"
	"fmt"
	"sort"
	"strings"

	"github.com/alpacahq/marketstore/v4/frontend"
	"github.com/alpacahq/marketstore/v4/utils/io"

	"verifharness/internal/cq"
	"verifharness/internal/fxinst"
	"verifharness/internal/rng"
)

// C13 — Multi-symbol and column-projected queries agree with single queries.
// Implementation under test: DataService.Query -> executeQuery ('*' expansion via gatherAllSymbols, key with a
// comma separated symbol list) -> QueryService.ExecuteQuery -> planner.Parse / Reader.Read -> FilterColumns /
// ColumnSeries.Project -> NewNumpyDataset / NewNumpyMultiDataset / NumpyMultiDataset.Append; the response is
// decoded per key exactly as a client does (StartIndex/Lengths/ColumnTypes).

type c13Sym struct {
	Name string       `json:"name"`
	Cols []fxinst.Col `json:"cols"`
	Rows []c12Row     `json:"rows"`
}
type c13Q struct {
	Syms []string `json:"syms"` // ["*"] = every symbol
	Cols []string `json:"cols"`
}
type c13In struct {
	TF    string   `json:"tf"`
	Var   bool     `json:"var"`
	Syms  []c13Sym `json:"syms"`
	Other []string `json:"other"` // symbols that exist only under another timeframe / attribute group
	Start *int64   `json:"start,omitempty"`
	End   *int64   `json:"end,omitempty"`
	Qs    []c13Q   `json:"qs"`
}

var c13SymNames = []string{"AAPL", "TSLA", "A", "B1", "CG", "USDJPY", "X-Y", "Z9"}

// every column name has ONE type throughout (same name, different types is C27's finding F23)
var c13Cols = []fxinst.Col{{Name: "Open", Type: "float32"}, {Name: "High", Type: "float64"}, {Name: "Low", Type: "int32"},
	{Name: "Close", Type: "int64"}, {Name: "Volume", Type: "uint32"}, {Name: "Bid", Type: "int16"}, {Name: "Ask", Type: "uint8"},
	{Name: "Tag", Type: "string16"}, {Name: "U", Type: "uint64"}, {Name: "B", Type: "byte"}, {Name: "W", Type: "uint16"}}

func c13Gen(r *rng.Rand, i int, tier string) interface{} {
	in := c13In{TF: []string{"1Min", "1H", "1D", "5Min"}[r.Intn(4)], Var: r.Chance(30)}
	tfs := fxTfSeconds(in.TF)
	nsym := 2 + r.Intn(3)
	perm := r.Intn(len(c13SymNames))
	// base schema and a variant
	pick := func() []fxinst.Col {
		n := 1 + r.Intn(4)
		var cols []fxinst.Col
		used := map[int]bool{}
		for len(cols) < n {
			k := r.Intn(len(c13Cols))
			if !used[k] {
				used[k] = true
				cols = append(cols, c13Cols[k])
			}
		}
		return cols
	}
	base := pick()
	variant := pick()
	if r.Bool() && len(base) > 1 { // the variant shares a prefix with the base: a common-column projection reconciles them
		variant = append(append([]fxinst.Col{}, base[:1]...), fxinst.Col{Name: "Extra", Type: "int32"})
	}
	year := fxYears[3+r.Intn(8)]
	tag := byte(1)
	for k := 0; k < nsym; k++ {
		s := c13Sym{Name: c13SymNames[(perm+k)%len(c13SymNames)], Cols: base}
		if r.Chance(15) {
			s.Cols = variant
		}
		nrows := r.Intn(6)
		if r.Chance(10) {
			nrows = 0
		}
		for j := 0; j < nrows; j++ {
			var t int64
			var ns int32
			if in.Var {
				t, ns = c12VarTime(r, tfs, year)
			} else {
				t = fxEdgeTime(r, tfs, year)
				if tfs == 86400 && (t-fxJan1(year))/86400 == 0 {
					t += 86400
				}
			}
			s.Rows = append(s.Rows, c12Row{T: t, NS: ns, P: fxPayload(r, s.Cols, tag)})
			tag++
		}
		sort.SliceStable(s.Rows, func(a, b int) bool { return s.Rows[a].T < s.Rows[b].T })
		in.Syms = append(in.Syms, s)
	}
	if r.Chance(40) {
		in.Other = []string{"ZZ"}
	}
	if r.Chance(25) {
		var all []int64
		for _, s := range in.Syms {
			for _, x := range s.Rows {
				all = append(all, x.T)
			}
		}
		if len(all) > 0 {
			sort.Slice(all, func(a, b int) bool { return all[a] < all[b] })
			lo, hi := all[r.Intn(len(all))], all[r.Intn(len(all))]
			if lo > hi {
				lo, hi = hi, lo
			}
			in.Start, in.End = &lo, &hi
		}
	}
	// queries
	colPool := func() []string {
		var l []string
		for _, c := range base {
			l = append(l, c.Name)
		}
		for _, c := range variant {
			l = append(l, c.Name)
		}
		return append(l, "nope", "Epoch", "Nanoseconds", "open", "Q?")
	}()
	nq := 4 + r.Intn(4)
	for k := 0; k < nq; k++ {
		var q c13Q
		kind := r.Intn(12)
		if kind == 5 && in.Var && in.Start != nil {
			kind = 1 // (a doubled variable scan interacts with the range trim of C11; rep_rows models the plain doubling only)
		}
		if kind > 6 {
			kind = []int{1, 2, 3, 6, 6}[kind-7]
		}
		switch kind {
		case 0:
			q.Syms = []string{"*"}
		case 1: // every symbol, request order shuffled
			for _, s := range in.Syms {
				q.Syms = append(q.Syms, s.Name)
			}
			for a := len(q.Syms) - 1; a > 0; a-- {
				b := r.Intn(a + 1)
				q.Syms[a], q.Syms[b] = q.Syms[b], q.Syms[a]
			}
		case 2: // one symbol
			q.Syms = []string{in.Syms[r.Intn(len(in.Syms))].Name}
		case 3: // with a missing symbol
			q.Syms = []string{in.Syms[r.Intn(len(in.Syms))].Name, "MISSING"}
			if r.Bool() {
				q.Syms[0], q.Syms[1] = q.Syms[1], q.Syms[0]
			}
		case 4: // only missing
			q.Syms = []string{"MISSING"}
			if r.Bool() && len(in.Other) > 0 {
				q.Syms = []string{in.Other[0]}
			}
		case 5: // a symbol named twice
			a := in.Syms[r.Intn(len(in.Syms))].Name
			q.Syms = []string{a, in.Syms[r.Intn(len(in.Syms))].Name, a}
		default: // a subset
			for _, s := range in.Syms {
				if r.Bool() {
					q.Syms = append(q.Syms, s.Name)
				}
			}
			if len(q.Syms) == 0 {
				q.Syms = []string{in.Syms[0].Name}
			}
		}
		switch r.Intn(6) {
		case 0, 1: // no projection
		case 2: // unknown names first, then existing ones, duplicates
			q.Cols = []string{"nope", colPool[r.Intn(len(colPool))], colPool[r.Intn(len(colPool))]}
			if r.Bool() {
				q.Cols = append(q.Cols, q.Cols[1])
			}
		case 3: // the base's first column only (common to base and variant in half of the cases)
			q.Cols = []string{base[0].Name}
		case 4:
			q.Cols = []string{"nope"}
		default:
			n := 1 + r.Intn(4)
			for j := 0; j < n; j++ {
				q.Cols = append(q.Cols, colPool[r.Intn(len(colPool))])
			}
		}
		in.Qs = append(in.Qs, q)
	}
	return in
}

type c13ObsCol struct {
	Name string `json:"name"`
	Type int    `json:"type"`
	Data []byte `json:"data"`
}
type c13ObsQ struct {
	Code int                    `json:"code"`
	Err  string                 `json:"err,omitempty"`
	Resp map[string][]c13ObsCol `json:"resp"`
}
type c13Obs struct {
	Cat     map[string][]c13ObsCol `json:"cat"`
	AllSyms []string               `json:"allsyms"`
	Qs      []c13ObsQ              `json:"qs"`
}

// c13Query runs one request through the real DataService.Query and decodes the response per key.
func c13Query(ds *frontend.DataService, dest string, cols []string, start, end *int64) (out c13ObsQ) {
	defer func() {
		if p := recover(); p != nil {
			out = c13ObsQ{Code: 2, Err: fmt.Sprint(p)}
		}
	}()
	req := frontend.MultiQueryRequest{Requests: []frontend.QueryRequest{{Destination: dest, Columns: cols, EpochStart: start, EpochEnd: end}}}
	var resp frontend.MultiQueryResponse
	if err := ds.Query(nil, &req, &resp); err != nil {
		return c13ObsQ{Code: 1, Err: err.Error()}
	}
	r := resp.Responses[0].Result
	out.Resp = map[string][]c13ObsCol{}
	if r == nil {
		return out
	}
	for key, st := range r.StartIndex {
		sym := strings.SplitN(key, "/", 2)[0]
		n := r.Lengths[key]
		var l []c13ObsCol
		for i, name := range r.ColumnNames {
			et, ok := io.TypeStrToElemType(r.ColumnTypes[i])
			if !ok {
				panic("unknown type string " + r.ColumnTypes[i])
			}
			sz := et.Size()
			l = append(l, c13ObsCol{Name: name, Type: int(et), Data: append([]byte{}, r.ColumnData[i][st*sz:(st+n)*sz]...)})
		}
		out.Resp[sym] = l
	}
	return out
}

func c13CoqCols(l []c13ObsCol) string {
	var s []string
	for _, c := range l {
		s = append(s, cq.Tuple(cq.Hex([]byte(c.Name)), cq.Z(int64(c.Type)), cq.Hex(c.Data)))
	}
	return cq.List(s)
}

func c13Run(raw json.RawMessage) (res Result, err error) {
	var in c13In
	if err = json.Unmarshal(raw, &in); err != nil {
		return
	}
	inst, err := fxinst.New()
	if err != nil {
		return res, err
	}
	defer inst.Close()
	ds := frontend.NewDataService(inst.Root, inst.Cat, nil, inst.W, inst.Q)
	tfAg := "/" + in.TF + "/OHLC"
	// ---- writes ----
	var werr error
	func() {
		defer func() {
			if p := recover(); p != nil {
				werr = fmt.Errorf("panic in write: %v", p)
			}
		}()
		for _, s := range in.Syms {
			cols := s.Cols
			if in.Var {
				cols = append(append([]fxinst.Col{}, s.Cols...), fxinst.Col{Name: "Nanoseconds", Type: "int32"})
			}
			if len(s.Rows) == 0 { // an empty bucket: created explicitly
				rt := io.FIXED
				if in.Var {
					rt = io.VARIABLE
				}
				if werr = inst.Create(s.Name+tfAg, fxinst.Shapes(s.Cols), rt, 2020); werr != nil {
					return
				}
				continue
			}
			rows := make([]fxRow, len(s.Rows))
			for i, x := range s.Rows {
				p := append([]byte{}, x.P...)
				if in.Var {
					var b [4]byte
					binary.LittleEndian.PutUint32(b[:], uint32(x.NS))
					p = append(p, b[:]...)
				}
				rows[i] = fxRow{T: x.T, P: p}
			}
			if werr = fxWrite(inst, s.Name+tfAg, cols, rows, in.Var); werr != nil {
				return
			}
		}
		for _, o := range in.Other {
			if werr = fxWrite(inst, o+"/1H/OTHER", []fxinst.Col{{Name: "V", Type: "int32"}}, []fxRow{{T: 1583143210, P: []byte{1, 0, 0, 0}}}, false); werr != nil {
				return
			}
		}
	}()
	if werr != nil {
		return res, fmt.Errorf("write failed: %v", werr)
	}
	// ---- state: per symbol the single unprojected query ----
	obs := c13Obs{Cat: map[string][]c13ObsCol{}}
	var symNames []string
	oneYear := map[string]bool{}
	for _, s := range in.Syms {
		q := c13Query(ds, s.Name+tfAg, nil, in.Start, in.End)
		if q.Code != 0 {
			return res, fmt.Errorf("state query of %s failed: %s", s.Name, q.Err)
		}
		obs.Cat[s.Name] = q.Resp[s.Name]
		symNames = append(symNames, s.Name)
		oneYear[s.Name] = true
	}
	if m, e := inst.Cat.GatherCategoriesAndItems(); e == nil {
		for s := range m["Symbol"] {
			obs.AllSyms = append(obs.AllSyms, s)
		}
	}
	sort.Strings(obs.AllSyms)
	// ---- queries ----
	res.Holds = true
	anyGuard := false
	var coqQs []string
	exists := func(s string) bool { _, ok := obs.Cat[s]; return ok }
	for _, q := range in.Qs {
		dest := strings.Join(q.Syms, ",") + tfAg
		oq := c13Query(ds, dest, q.Cols, in.Start, in.End)
		obs.Qs = append(obs.Qs, oq)
		star := len(q.Syms) == 1 && q.Syms[0] == "*"
		var coqResp []string
		var keys []string
		for k := range oq.Resp {
			keys = append(keys, k)
		}
		sort.Strings(keys)
		for _, k := range keys {
			coqResp = append(coqResp, cq.Tuple(cq.Hex([]byte(k)), c13CoqCols(oq.Resp[k])))
		}
		coqSyms := "None"
		if !star {
			var l []string
			for _, s := range q.Syms {
				l = append(l, cq.Hex([]byte(s)))
			}
			coqSyms = cq.Some(cq.List(l))
		}
		var coqCols []string
		for _, c := range q.Cols {
			coqCols = append(coqCols, cq.Hex([]byte(c)))
		}
		coqQs = append(coqQs, cq.Rec(cq.F("q_syms", coqSyms), cq.F("q_cols", cq.List(coqCols)), cq.F("q_code", cq.Nat(oq.Code)),
			cq.F("q_resp", cq.List(coqResp))))

		// ---- oracle, independent of the model ----
		req := q.Syms
		if star {
			req = obs.AllSyms
		}
		dup := false
		seen := map[string]bool{}
		var want []string // the catalogued symbols of the request
		for _, s := range req {
			if seen[s] {
				dup = true
				continue
			}
			seen[s] = true
			if exists(s) {
				want = append(want, s)
			}
		}
		// expected per key: the single series, restricted to {Epoch} + requested existing + {Nanoseconds}
		expect := func(s string) map[string]c13ObsCol {
			m := map[string]c13ObsCol{}
			keep := map[string]bool{"Epoch": true, "Nanoseconds": true}
			for _, c := range q.Cols {
				keep[c] = true
			}
			for _, c := range obs.Cat[s] {
				if len(q.Cols) == 0 || keep[c.Name] {
					m[c.Name] = c
				}
			}
			return m
		}
		// schema compatibility after projection (mirror of MQuery.compat): equal column-name lists
		projNames := func(s string) string {
			if len(q.Cols) == 0 {
				var l []string
				for _, c := range obs.Cat[s] {
					l = append(l, c.Name)
				}
				return strings.Join(l, ",")
			}
			has := map[string]bool{}
			for _, c := range obs.Cat[s] {
				has[c.Name] = true
			}
			var l []string
			for _, n := range append(append([]string{"Epoch"}, q.Cols...), "Nanoseconds") {
				if has[n] {
					l = append(l, n)
				}
			}
			return strings.Join(l, ",")
		}
		compat := true
		for _, s := range want {
			if projNames(s) != projNames(want[0]) {
				compat = false
			}
		}
		ok := true
		detail := ""
		if len(want) == 0 {
			ok = oq.Code == 1 // nothing to return: "no files returned from query parse"
			detail = "no catalogued symbol in the request but the query did not fail"
		} else if oq.Code != 0 {
			ok, detail = false, fmt.Sprintf("query failed (code %d: %s) although %v exist", oq.Code, oq.Err, want)
		} else if len(oq.Resp) != len(want) {
			ok, detail = false, fmt.Sprintf("response has %d keys, want %v", len(oq.Resp), want)
		} else {
			for _, s := range want {
				got, present := oq.Resp[s]
				exp := expect(s)
				if !present {
					ok, detail = false, "symbol "+s+" missing from the response"
					break
				}
				gotSet := map[string]bool{}
				for _, c := range got {
					e, in := exp[c.Name]
					if !in || e.Type != c.Type || string(e.Data) != string(c.Data) {
						ok, detail = false, fmt.Sprintf("symbol %s column %s differs from the single query", s, c.Name)
					}
					gotSet[c.Name] = true
				}
				if len(gotSet) != len(exp) {
					ok, detail = false, fmt.Sprintf("symbol %s: column set %v, want %d columns", s, gotSet, len(exp))
				}
				if !ok {
					break
				}
			}
		}
		guard := !dup && compat && len(want) > 0
		if guard {
			anyGuard = true
		}
		if !ok && res.Holds {
			res.Holds, res.Detail = false, fmt.Sprintf("query %v cols %v: %s", q.Syms, q.Cols, detail)
			switch {
			case dup:
				res.Class = "duplicate-symbol-in-list"
			case !compat:
				res.Class = "mixed-schema-multi-query-rejected"
			}
		}
	}
	res.Obs = obs
	var coqCat, coqAll []string
	sort.Strings(symNames)
	for _, s := range symNames {
		coqCat = append(coqCat, cq.Tuple(cq.Hex([]byte(s)), c13CoqCols(obs.Cat[s])))
	}
	for _, s := range obs.AllSyms {
		coqAll = append(coqAll, cq.Hex([]byte(s)))
	}
	res.Coq = cq.Rec(cq.F("k_cat", cq.List(coqCat)), cq.F("k_allsyms", cq.List(coqAll)), cq.F("k_qs", cq.List(coqQs)))
	res.InDomain = anyGuard
	kind := "fixed"
	if in.Var {
		kind = "variable"
	}
	res.Tags = []string{kind, "tf:" + in.TF, fmt.Sprintf("syms=%d", len(in.Syms))}
	for _, q := range in.Qs {
		switch {
		case len(q.Syms) == 1 && q.Syms[0] == "*":
			res.Tags = append(res.Tags, "q:star")
		case len(q.Syms) == 1:
			res.Tags = append(res.Tags, "q:single")
		default:
			res.Tags = append(res.Tags, "q:multi")
		}
		if len(q.Cols) > 0 {
			res.Tags = append(res.Tags, "q:projected")
		}
	}
	if in.Start != nil {
		res.Tags = append(res.Tags, "ranged")
	}
	if res.InDomain {
		res.Tags = append(res.Tags, "in-domain")
	}
	res.Nontrivial = res.InDomain && len(in.Syms) >= 2
	res.Key = string(raw)
	return res, nil
}

func init() {
	Register(&Spec{
		ID:          "C13",
		CoqRequire:  "Require Import MS.Corr.C13.",
		CoqCaseType: "C13.case",
		Rule: "2-4 symbols under one timeframe/attribute group on a real instance (fixed or variable buckets, 0-5 rows each, 25% of the symbols " +
			"with a variant schema, sometimes an empty bucket, sometimes a symbol that exists only under another timeframe), optional epoch " +
			"range; 4-7 DataService.Query requests per case: '*', all symbols shuffled, one symbol, with a missing symbol, only missing, a " +
			"symbol named twice, subsets; column lists: none, unknown-first + existing + duplicates, common column, only unknown, random " +
			"incl. Epoch/Nanoseconds/wrong case; distinct = distinct input JSON; non-trivial = some query inside the guard with >= 2 symbols",
		Gen: c13Gen,
		Run: c13Run,
	})
}
