package props

import (
	"encoding/binary"
	"encoding/json"
	"fmt"
	"math"
	"sort"
	"time"

	"github.com/alpacahq/marketstore/v4/executor"
	"github.com/alpacahq/marketstore/v4/planner"
	"github.com/alpacahq/marketstore/v4/utils/io"

	"verifharness/internal/cq"
	"verifharness/internal/rng"
	"verifharness/internal/stq"
)

// C11 — Time-range queries return exactly the rows in range.
// Implementation under test:
//   trim  : executor.trimResultsToRange / trimResultsToLimit (hooks executor/verif_c11.go)
//   time  : time.Time methods + io.TimeToIndex / IndexToTime / TimeToOffset / FileSize
//   query : frontend.QueryService.ExecuteQuery on a real temp instance (planner.Parse, NewIOPlan, Reader.Read)

type c11Trim struct {
	Rowlen int       `json:"rowlen"`
	Src    []byte    `json:"src"`
	Rows   []stq.Row `json:"rows,omitempty"` // set when Src is exactly the encoding of these rows
	Limit  int       `json:"limit"`
	First  bool      `json:"first"`
}
type c11Time struct {
	Tf    int64 `json:"tf"`
	Year  int16 `json:"year"`
	Index int64 `json:"index"`
	Rec   int32 `json:"rec"`
}
type c11Query struct {
	Tf     string      `json:"tf"`
	Var    bool        `json:"var"`
	Types  []string    `json:"types"`
	Writes [][]stq.Row `json:"writes"`
	Mode   int         `json:"mode"` // 0 explicit (S,E); 1 the query carries planner.MinTime / planner.MaxTime
}
type c11In struct {
	Kind  string    `json:"kind"`
	S     [2]int64  `json:"s"` // time.Unix(sec, nsec)
	E     [2]int64  `json:"e"`
	Trim  *c11Trim  `json:"trim,omitempty"`
	Time  *c11Time  `json:"time,omitempty"`
	Query *c11Query `json:"query,omitempty"`
}

func c11T(p [2]int64) time.Time { return time.Unix(p[0], p[1]).UTC() }
func c11P(t time.Time) [2]int64 { return [2]int64{t.Unix(), int64(t.Nanosecond())} }

var c11Tfs = []struct {
	name string
	d    time.Duration
	w    int
}{
	{"1Min", time.Minute, 22}, {"5Min", 5 * time.Minute, 10}, {"15Min", 15 * time.Minute, 6}, {"30Min", 30 * time.Minute, 4},
	{"1H", time.Hour, 14}, {"2H", 2 * time.Hour, 4}, {"4H", 4 * time.Hour, 8}, {"1D", 24 * time.Hour, 18},
	{"30Sec", 30 * time.Second, 4}, {"10Sec", 10 * time.Second, 4}, {"1Sec", time.Second, 2},
}

func c11PickTf(r *rng.Rand, tier string) (string, time.Duration) {
	tot := 0
	for _, t := range c11Tfs {
		tot += t.w
	}
	k := r.Intn(tot)
	for _, t := range c11Tfs {
		if k < t.w {
			return t.name, t.d
		}
		k -= t.w
	}
	return "1Min", time.Minute
}

func c11EncRows(rows []stq.Row) []byte {
	var b []byte
	for _, r := range rows {
		b = binary.LittleEndian.AppendUint64(b, uint64(r.Sec))
		b = append(b, r.Pay...)
		b = binary.LittleEndian.AppendUint32(b, uint32(r.Ns))
	}
	return b
}

func c11Jan1(y int) time.Time { return time.Date(y, 1, 1, 0, 0, 0, 0, time.UTC) }

var c11Deltas = []time.Duration{0, 0, 1, -1, time.Second, -time.Second, 999999999, -999999999}

// ------------------------------------------------------------------------------------------ generators

func c11GenTrim(r *rng.Rand, tier string) c11In {
	in := c11In{Kind: "trim"}
	plen := r.Intn(13)
	rowlen := plen + 4
	n := r.Intn(7)
	if tier == "thorough" {
		n = r.Intn(20)
	}
	base := []int64{0, 1609459200, -86400, 946684799, 4102444800}[r.Intn(5)]
	var rows []stq.Row
	t := time.Unix(base, 0)
	for i := 0; i < n; i++ {
		switch r.Intn(6) {
		case 0: // same instant again
		case 1:
			t = t.Add(1)
		case 2:
			t = t.Add(time.Duration(r.Intn(2000000000)))
		case 3:
			t = t.Add(time.Second)
		default:
			t = t.Add(time.Duration(r.Intn(120)) * time.Second / 2)
		}
		row := stq.Row{Sec: t.Unix(), Ns: int32(t.Nanosecond()), Pay: r.Bytes(plen)}
		if r.Chance(8) { // un-normalised nanoseconds (RewriteBuffer can produce 10^9)
			row.Sec, row.Ns = row.Sec-1, row.Ns+1000000000
			if row.Ns < 0 { // overflowed int32: undo
				row.Sec, row.Ns = t.Unix(), int32(t.Nanosecond())
			}
		}
		rows = append(rows, row)
	}
	mode := r.Intn(100)
	if mode < 10 && len(rows) > 1 { // unsorted buffer (outside the theorem's hypothesis)
		i, j := r.Intn(len(rows)), r.Intn(len(rows))
		rows[i], rows[j] = rows[j], rows[i]
	}
	src := c11EncRows(rows)
	whole := true
	if mode >= 10 && mode < 18 { // trailing partial row
		src = append(src, r.Bytes(1+r.Intn(rowlen+7))...)
		whole = false
	}
	if mode >= 18 && mode < 24 { // tiny rowlen: epoch and nanoseconds overlap
		rowlen = r.Intn(4)
		src = r.Bytes((rowlen + 8) * r.Intn(5))
		whole = false
	}
	// range: anchored at rows
	pick := func() time.Time {
		if len(rows) == 0 || r.Chance(15) {
			return time.Unix(base+int64(r.Intn(400))-100, int64(r.Intn(1000000000)))
		}
		x := rows[r.Intn(len(rows))]
		return time.Unix(x.Sec, int64(x.Ns)).Add(c11Deltas[r.Intn(len(c11Deltas))])
	}
	s, e := pick(), pick()
	k := r.Intn(100)
	switch {
	case k < 60:
		if e.Before(s) {
			s, e = e, s
		}
	case k < 75: // inverted
		if s.Before(e) {
			s, e = e, s
		}
	case k < 85 && len(rows) > 0: // end before every candidate (F11)
		x := rows[r.Intn(len(rows))]
		e = time.Unix(x.Sec, int64(x.Ns)).Add(-1 - time.Duration(r.Intn(3)))
		s = e.Add(-time.Duration(r.Intn(5)) * time.Second)
	}
	in.S, in.E = c11P(s), c11P(e)
	in.Trim = &c11Trim{Rowlen: rowlen, Src: src, Limit: r.Intn(n + 3), First: r.Bool()}
	if whole {
		in.Trim.Rows = rows
	}
	return in
}

func c11GenTime(r *rng.Rand, tier string) c11In {
	in := c11In{Kind: "time"}
	var sec int64
	switch r.Intn(10) {
	case 0:
		sec = []int64{0, -1, 1, math.MaxInt64, math.MaxInt64 - 1, math.MinInt64, math.MinInt64 + 8139454208, math.MinInt64 + 8139454207,
			1<<63 - 62135596801, 1<<63 - 62135596800, 253402300799, 253402300800, -62135596800, -62135596801}[r.Intn(14)]
	case 1, 2, 3: // year boundaries
		y := []int{1, 2, 1600, 1900, 1969, 1970, 1971, 2000, 2001, 2016, 2020, 2021, 2038, 2100, 2400, 9999, 10000, 32767, 32768, 65536 + 2020, -1, 0}[r.Intn(22)]
		if r.Bool() {
			y = 1 + r.Intn(9999)
		}
		sec = c11Jan1(y).Unix() + []int64{0, -1, 1, 86399, 86400, -86400}[r.Intn(6)]
	case 4: // leap days
		y := []int{1600, 1900, 2000, 2016, 2020, 2100, 2024}[r.Intn(7)]
		sec = time.Date(y, 2, 28+r.Intn(3), r.Intn(24), r.Intn(60), r.Intn(60), 0, time.UTC).Unix()
	default:
		y := 1960 + r.Intn(90)
		sec = c11Jan1(y).Unix() + int64(r.Intn(366*86400))
	}
	ns := int64(r.Intn(1000000000))
	switch r.Intn(8) {
	case 0:
		ns = 0
	case 1:
		ns = 999999999
	case 2:
		ns = int64(r.Intn(4000000000)) - 2000000000 // normalised by time.Unix
	}
	in.S = [2]int64{sec, ns}
	tf := c11Tfs[r.Intn(len(c11Tfs))].d
	if r.Chance(8) {
		tf = []time.Duration{7 * time.Minute, 1500 * time.Millisecond, 45 * time.Second, 3 * time.Hour, 48 * time.Hour}[r.Intn(5)]
	}
	year := int16(1960 + r.Intn(90))
	if r.Chance(15) {
		year = []int16{-32768, 32767, 1, 0, -1, 9999, 10000}[r.Intn(7)]
	}
	nsl := int64(366 * 24 * time.Hour / tf)
	idx := int64(r.Intn(int(nsl) + 3))
	if r.Chance(25) {
		idx = []int64{0, 1, 2, nsl, nsl - 1, nsl + 1, 365 * int64(24*time.Hour/tf)}[r.Intn(7)]
	}
	in.Time = &c11Time{Tf: int64(tf), Year: year, Index: idx, Rec: int32(8 + r.Intn(60))}
	return in
}

var c11Types = []string{"int32", "float32", "int64", "float64", "uint8", "int16", "uint32", "uint16"}

func c11GenQuery(r *rng.Rand, tier string) c11In {
	in := c11In{Kind: "query"}
	tfName, tf := c11PickTf(r, tier)
	q := &c11Query{Tf: tfName, Var: r.Chance(55)}
	for i, n := 0, 1+r.Intn(3); i < n; i++ {
		q.Types = append(q.Types, c11Types[r.Intn(len(c11Types))])
	}
	plen := 0
	for _, t := range q.Types {
		plen += sizeOfType(t)
	}
	by := []int{1970, 1999, 2000, 2015, 2016, 2019, 2020, 2023, 2037, 1969}[r.Intn(10)]
	ny := 1 + r.Intn(3)
	// pool of interval starts, edge-heavy
	var pool []time.Time
	for y := by; y < by+ny; y++ {
		j, jn := c11Jan1(y), c11Jan1(y+1)
		pool = append(pool, j, j.Add(tf), jn.Add(-tf), jn.Add(-2*tf),
			time.Date(y, 2, 28, 0, 0, 0, 0, time.UTC).Truncate(tf), time.Date(y, 3, 1, 0, 0, 0, 0, time.UTC),
			j.Add(time.Duration(r.Intn(int(jn.Sub(j)/tf)))*tf), j.Add(time.Duration(r.Intn(int(jn.Sub(j)/tf)))*tf))
	}
	offs := []time.Duration{0, 0, 1, 999, tf / 2, tf - 1, tf - 2, time.Duration(r.Intn(int(tf))), 999999999 % tf, 500000000 % tf}
	var all []time.Time
	for w, nw := 0, 1+r.Intn(3); w < nw; w++ {
		var rows []stq.Row
		var ts []time.Time
		focus := pool[r.Intn(len(pool))]
		for i, n := 0, 1+r.Intn(6); i < n; i++ {
			ist := focus
			if r.Chance(45) {
				ist = pool[r.Intn(len(pool))]
			} else if r.Chance(40) {
				ist = focus.Add(time.Duration(r.Intn(4)-1) * tf)
			}
			t := ist
			if q.Var {
				t = ist.Add(offs[r.Intn(len(offs))])
			} else if tf > time.Second && r.Chance(30) {
				t = ist.Add(time.Duration(r.Intn(int(tf/time.Second))) * time.Second)
			}
			ts = append(ts, t)
		}
		if !r.Chance(20) {
			sort.Slice(ts, func(i, j int) bool { return ts[i].Before(ts[j]) })
		}
		for _, t := range ts {
			rows = append(rows, stq.Row{Sec: t.Unix(), Ns: int32(t.Nanosecond()), Pay: r.Bytes(plen)})
			all = append(all, t)
		}
		q.Writes = append(q.Writes, rows)
	}
	anchors := append(append([]time.Time{}, all...), pool...)
	ds := []time.Duration{0, 0, 0, 1, -1, time.Second, -time.Second, tf / 2, -tf / 2, tf, -tf, tf - 1}
	pick := func() time.Time { return anchors[r.Intn(len(anchors))].Add(ds[r.Intn(len(ds))]) }
	s, e := pick(), pick()
	k := r.Intn(100)
	switch {
	case k < 50:
		if e.Before(s) {
			s, e = e, s
		}
	case k < 60: // inverted
		if s.Before(e) {
			s, e = e, s
		}
		if s.Equal(e) {
			s = s.Add(1)
		}
	case k < 68: // both ends inside one interval
		a := all[r.Intn(len(all))].Truncate(time.Second)
		s = a.Add(ds[r.Intn(len(ds))] / 4)
		e = s.Add(time.Duration(r.Intn(int(tf))))
	case k < 80: // range ends just before a stored record, inside its interval (F11 for variable)
		a := all[r.Intn(len(all))]
		e = a.Add(-1 - time.Duration(r.Intn(2)))
		s = e.Add(-time.Duration(r.Intn(3)) * tf).Add(-time.Duration(r.Intn(1000)))
	case k < 85: // far outside
		if r.Bool() {
			s, e = c11Jan1(by-5), c11Jan1(by-4).Add(time.Duration(r.Intn(1000)))
		} else {
			s, e = c11Jan1(by+ny+3), c11Jan1(by+ny+9)
		}
	case k < 90: // the query API's defaults: time.Unix(0,0) .. time.Unix(MaxInt64,0)
		s, e = time.Unix(0, 0), time.Unix(math.MaxInt64, 0)
	case k < 94: // whole span
		s, e = c11Jan1(by-1), c11Jan1(by+ny+1)
	case k < 97:
		q.Mode = 1
	}
	in.S, in.E = c11P(s), c11P(e)
	in.Query = q
	return in
}

func sizeOfType(t string) int {
	switch t {
	case "uint8":
		return 1
	case "int16", "uint16":
		return 2
	case "int32", "float32", "uint32":
		return 4
	}
	return 8
}

func c11Gen(r *rng.Rand, i int, tier string) interface{} {
	k := r.Intn(100)
	switch {
	case k < 30:
		return c11GenTrim(r, tier)
	case k < 45:
		return c11GenTime(r, tier)
	}
	return c11GenQuery(r, tier)
}

// ------------------------------------------------------------------------------------------ runners

func c11QT(p [2]int64) string { return cq.Tuple(cq.Z(p[0]), cq.Z(p[1])) }

func c11RowsCoq(rows []stq.Row) string {
	var l []string
	for _, r := range rows {
		l = append(l, cq.Tuple(cq.Z(r.Sec), cq.Z(int64(r.Ns)), cq.Hex(r.Pay)))
	}
	return cq.List(l)
}

func c11TimeOf(r stq.Row) time.Time { return time.Unix(r.Sec, int64(r.Ns)) }

func c11RunTrim(in c11In, res *Result) error {
	t := in.Trim
	if t.Rowlen < 0 || t.Limit < 0 {
		return fmt.Errorf("negative rowlen/limit are outside the modelled domain")
	}
	s, e := c11T(in.S), c11T(in.E)
	type obs struct {
		Code  int    `json:"code"`
		Out   []byte `json:"out"`
		LCode int    `json:"lcode"`
		LOut  []byte `json:"lout"`
	}
	o := obs{}
	func() {
		defer func() {
			if p := recover(); p != nil {
				o.Code = 2
			}
		}()
		src := append([]byte{}, t.Src...)
		o.Out = append([]byte{}, executor.VerifC11TrimResultsToRange(&planner.DateRange{Start: s, End: e}, t.Rowlen, src)...)
	}()
	func() {
		defer func() {
			if p := recover(); p != nil {
				o.LCode = 2
			}
		}()
		src := append([]byte{}, t.Src...)
		dir := io.LAST
		if t.First {
			dir = io.FIRST
		}
		o.LOut = append([]byte{}, executor.VerifC11TrimResultsToLimit(&planner.RowLimit{Number: int32(t.Limit), Direction: dir}, t.Rowlen, src)...)
	}()
	res.Obs = o
	if o.Code != 0 || o.LCode != 0 {
		// no panic is reachable in the modelled domain; report as an oracle failure with no class
		res.Holds, res.Detail = false, "trimResultsToRange/Limit panicked"
	}
	res.Coq = "(KTrim " + cq.Rec(cq.F("tr_rowlen", cq.Nat(t.Rowlen)), cq.F("tr_src", cq.Hex(t.Src)),
		cq.F("tr_s", c11QT(in.S)), cq.F("tr_e", c11QT(in.E)), cq.F("tr_out", cq.Hex(o.Out)),
		cq.F("tr_limit", cq.Nat(t.Limit)), cq.F("tr_first", cq.Bool(t.First)), cq.F("tr_lout", cq.Hex(o.LOut)),
		cq.F("tr_rows", c11RowsCoq(t.Rows))) + ")"
	res.Tags = append(res.Tags, "kind=trim", fmt.Sprintf("rows=%d", bucket(len(t.Src)/(t.Rowlen+8))))
	// ---- oracle: on whole-row buffers sorted by time, the result is exactly the rows in [s, e]
	sorted := len(t.Rows) > 0 && t.Rowlen >= 4
	for i := 1; i < len(t.Rows); i++ {
		if c11TimeOf(t.Rows[i]).Before(c11TimeOf(t.Rows[i-1])) {
			sorted = false
		}
	}
	if !sorted {
		res.Tags = append(res.Tags, "trim:outside-hypothesis")
		return nil
	}
	var want []stq.Row
	var d []stq.Row // rows from the first one >= s on
	for _, r := range t.Rows {
		tt := c11TimeOf(r)
		if !tt.Before(s) && !tt.After(e) {
			want = append(want, r)
		}
		if len(d) > 0 || !tt.Before(s) {
			d = append(d, r)
		}
	}
	_ = d
	res.InDomain = true
	res.Nontrivial = len(t.Rows) >= 2
	if res.Holds && string(c11EncRows(want)) != string(o.Out) {
		res.Holds = false
		res.Detail = fmt.Sprintf("trimResultsToRange returned %d rows, %d are in [start,end]", len(o.Out)/(t.Rowlen+8), len(want))
	}
	if len(d) > 0 && c11TimeOf(d[0]).After(e) {
		res.Tags = append(res.Tags, "end-before-first-candidate") // the former finding F11 (fixed): regression class
	}
	if e.Before(s) {
		res.Tags = append(res.Tags, "inverted")
	}
	return nil
}

func c11RunTime(in c11In, res *Result) error {
	tm := in.Time
	if tm.Tf <= 0 {
		return fmt.Errorf("tf <= 0 panics (division by zero); not modelled")
	}
	t := c11T(in.S)
	tf := time.Duration(tm.Tf)
	type obs struct {
		Year, Yday, Unix, Index, Offset, I2T, Fsize int64
		Code                                        int
	}
	o := obs{}
	func() {
		defer func() {
			if p := recover(); p != nil {
				o.Code = 2
			}
		}()
		o.Year, o.Yday, o.Unix = int64(t.Year()), int64(t.YearDay()-1), t.Unix()
		o.Index = io.TimeToIndex(t, tf)
		o.Offset = io.TimeToOffset(t, tf, tm.Rec)
		o.I2T = io.IndexToTime(tm.Index, tf, tm.Year).Unix()
		o.Fsize = io.FileSize(tf, int(tm.Year), int(tm.Rec))
	}()
	res.Obs = o
	if o.Code != 0 {
		res.Holds, res.Detail = false, "time functions panicked"
	}
	res.Coq = "(KTime " + cq.Rec(cq.F("tm_t", c11QT(in.S)), cq.F("tm_tf", cq.Z(tm.Tf)), cq.F("tm_year", cq.Z(int64(tm.Year))),
		cq.F("tm_index", cq.Z(tm.Index)), cq.F("tm_rec", cq.Z(int64(tm.Rec))),
		cq.F("tm_o_year", cq.Z(o.Year)), cq.F("tm_o_yday", cq.Z(o.Yday)), cq.F("tm_o_unix", cq.Z(o.Unix)),
		cq.F("tm_o_index", cq.Z(o.Index)), cq.F("tm_o_offset", cq.Z(o.Offset)), cq.F("tm_o_i2t", cq.Z(o.I2T)),
		cq.F("tm_o_fsize", cq.Z(o.Fsize))) + ")"
	res.Tags = append(res.Tags, "kind=time")
	return nil
}

type c11QObs struct {
	Code  int    `json:"code"`
	Out   []byte `json:"out"`
	ACode int    `json:"acode"`
	All   []byte `json:"all"`
	Msg   string `json:"msg,omitempty"`
	Files int    `json:"files"`
	Slots int    `json:"slots"`
}

func c11StateCoq(st *stq.State) string {
	var files []string
	for _, f := range st.Files {
		var sls []string
		for _, sl := range f.Slots {
			var recs []string
			for _, rc := range sl.Recs {
				recs = append(recs, cq.Tuple(cq.Z(rc.Sec), cq.Z(int64(rc.Ns)), cq.Hex(rc.Pay)))
			}
			sls = append(sls, cq.Tuple(cq.Z(sl.Pos), cq.Z(sl.Idx), cq.Hex(sl.Pay), cq.Z(sl.Clen), cq.List(recs)))
		}
		files = append(files, cq.Tuple(cq.Z(int64(f.Year)), cq.List(sls)))
	}
	return cq.List(files)
}

// start of the interval (anchored at Jan 1 of t's year) that contains t
func c11IntervalStart(t time.Time, tf time.Duration) time.Time {
	j := c11Jan1(t.Year())
	return j.Add(t.Sub(j) / tf * tf)
}

func floorDiv(a, b int64) int64 {
	q := a / b
	if a%b != 0 && (a < 0) != (b < 0) {
		q--
	}
	return q
}
func floorMod(a, b int64) int64 { return a - floorDiv(a, b)*b }

func c11Sane(t time.Time) bool { return t.Year() >= 1 && t.Year() <= 9999 }

func c11RunQuery(in c11In, res *Result) error {
	q := in.Query
	inst, sym, err := stq.Acquire()
	if err != nil {
		return err
	}
	key := sym + "/" + q.Tf + "/A"
	wrote := false
	for _, w := range q.Writes {
		if code, _ := inst.Write(key, q.Types, q.Var, w); code == 0 {
			wrote = true
		}
	}
	if !wrote {
		res.Tags = append(res.Tags, "kind=query", "no-successful-write")
		return nil
	}
	st, err := inst.ReadState(key)
	if err != nil {
		return fmt.Errorf("read state: %w", err)
	}
	tf := time.Duration(st.TfNs)
	s, e := c11T(in.S), c11T(in.E)
	qs, qe := s, e
	if q.Mode == 1 {
		qs, qe = planner.MinTime, planner.MaxTime
	}
	o := c11QObs{Files: len(st.Files)}
	code, cs, msg := inst.Query(key, qs, qe)
	o.Code, o.Msg = code, msg
	if code == 0 {
		if o.Out, err = st.Pack(cs); err != nil {
			return err
		}
	}
	code, cs, msg = inst.Query(key, planner.MinTime, planner.MaxTime)
	o.ACode = code
	if code == 0 {
		if o.All, err = st.Pack(cs); err != nil {
			return err
		}
	} else if o.Msg == "" {
		o.Msg = msg
	}
	for _, f := range st.Files {
		o.Slots += len(f.Slots)
	}
	res.Obs = o
	res.Coq = "(KQuery " + cq.Rec(cq.F("q_tf", cq.Z(st.TfNs)), cq.F("q_var", cq.Bool(st.Var)), cq.F("q_reclen", cq.Z(st.RecLen)),
		cq.F("q_vrl", cq.Z(st.Vrl)), cq.F("q_files", c11StateCoq(st)), cq.F("q_mode", cq.Nat(q.Mode)),
		cq.F("q_s", c11QT(in.S)), cq.F("q_e", c11QT(in.E)), cq.F("q_code", cq.Nat(o.Code)), cq.F("q_out", cq.Hex(o.Out)),
		cq.F("q_acode", cq.Nat(o.ACode)), cq.F("q_all", cq.Hex(o.All))) + ")"

	// ---- oracle on the implementation's own outputs: Qr = filter in_range Qall, same order
	rl := int(st.RecLen)
	if st.Var {
		rl = int(st.Vrl) + 8
	}
	// mathematical comparison of (sec, nsec) instants (Go's Time comparison wraps for time.Unix(MaxInt64, 0))
	cmp := func(as, an, bs, bn int64) int {
		as, an = as+floorDiv(an, 1000000000), floorMod(an, 1000000000)
		bs, bn = bs+floorDiv(bn, 1000000000), floorMod(bn, 1000000000)
		switch {
		case as < bs || (as == bs && an < bn):
			return -1
		case as == bs && an == bn:
			return 0
		}
		return 1
	}
	lo := in.S
	oracle := true
	if !st.Var {
		if c11Sane(s) {
			lo = c11P(c11IntervalStart(s, tf))
		} else {
			oracle = false // the interval containing an instant outside years 1..9999 is not computed here
		}
	}
	rowKey := func(row []byte) (int64, int64) {
		sec := int64(binary.LittleEndian.Uint64(row))
		if st.Var {
			return sec, int64(int32(binary.LittleEndian.Uint32(row[rl-4:])))
		}
		return sec, 0
	}
	var want []byte
	if q.Mode == 1 {
		want = o.All
	} else {
		for i := 0; i+rl <= len(o.All); i += rl {
			rs, rn := rowKey(o.All[i : i+rl])
			if cmp(rs, rn, lo[0], lo[1]) >= 0 && cmp(rs, rn, in.E[0], in.E[1]) <= 0 {
				want = append(want, o.All[i:i+rl]...)
			}
		}
	}
	// mirror of the plan: the candidate intervals, for the finding class and the guard
	var cand []stq.Rec
	wf := true
	ys, ye := int16(s.Year()), int16(e.Year())
	is, ie := io.TimeToIndex(s, tf), io.TimeToIndex(e, tf)
	for _, f := range st.Files {
		for _, sl := range f.Slots {
			if sl.Idx != sl.Pos {
				wf = false
			}
			ist := io.IndexToTime(sl.Pos, tf, f.Year)
			for i, rc := range sl.Recs {
				t := time.Unix(rc.Sec, int64(rc.Ns))
				if t.Before(ist) || !t.Before(ist.Add(tf)) || (i > 0 && t.Before(time.Unix(sl.Recs[i-1].Sec, int64(sl.Recs[i-1].Ns)))) {
					wf = false
				}
			}
			if f.Year < ys || f.Year > ye || (f.Year == ys && sl.Pos < is) || (f.Year == ye && sl.Pos > ie) {
				continue
			}
			cand = append(cand, sl.Recs...)
		}
	}
	guard := true
	if st.Var {
		for _, rc := range cand {
			t := time.Unix(rc.Sec, int64(rc.Ns))
			if !t.Before(s) {
				guard = !t.After(e)
				break
			}
		}
	}
	res.InDomain = q.Mode == 0 && wf && c11Sane(s) && c11Sane(e) && o.Code == 0 && o.ACode == 0
	res.Nontrivial = res.InDomain && len(o.All) > 0
	switch {
	case o.Code == 1 && o.ACode == 1:
		// both queries are rejected alike (a 4H bucket is looked up as 2H by QueryableTimeframe: recorded
		// under C09, where "a query over all time returns every record" fails); nothing is returned either way
		res.Tags = append(res.Tags, "unqueryable-timeframe")
	case o.Code != 0 || o.ACode != 0:
		res.Holds, res.Detail = false, fmt.Sprintf("query failed: code=%d unrestricted code=%d: %s", o.Code, o.ACode, o.Msg)
	case !oracle:
		res.Tags = append(res.Tags, "oracle-skipped")
	case string(want) != string(o.Out):
		res.Holds = false
		res.Detail = fmt.Sprintf("range query returned %d rows; %d of the %d rows of the unrestricted query are in range",
			len(o.Out)/rl, len(want)/rl, len(o.All)/rl)
	}
	rt := "fixed"
	if st.Var {
		rt = "variable"
	}
	res.Tags = append(res.Tags, "kind=query", "tf="+q.Tf, rt, fmt.Sprintf("years=%d", len(st.Files)), fmt.Sprintf("mode=%d", q.Mode),
		fmt.Sprintf("all=%d", bucket(len(o.All)/rl)), fmt.Sprintf("out=%d", bucket(len(o.Out)/rl)))
	if e.Before(s) {
		res.Tags = append(res.Tags, "inverted")
	}
	if !guard {
		res.Tags = append(res.Tags, "end-before-first-candidate")
	}
	if !wf {
		res.Tags = append(res.Tags, "state-not-wf")
	}
	if len(o.Out) > 0 && len(o.Out) < len(o.All) {
		res.Tags = append(res.Tags, "partial-result")
	}
	return nil
}

func c11Run(raw json.RawMessage) (res Result, err error) {
	var in c11In
	if err = json.Unmarshal(raw, &in); err != nil {
		return
	}
	res.Holds = true
	res.Key = string(raw)
	switch {
	case in.Kind == "trim" && in.Trim != nil:
		err = c11RunTrim(in, &res)
	case in.Kind == "time" && in.Time != nil:
		err = c11RunTime(in, &res)
	case in.Kind == "query" && in.Query != nil:
		err = c11RunQuery(in, &res)
	default:
		err = fmt.Errorf("unknown case kind %q", in.Kind)
	}
	if res.InDomain {
		res.Tags = append(res.Tags, "in-domain")
	}
	return res, err
}

func init() {
	Register(&Spec{
		ID:          "C11",
		CoqRequire:  "Require Import MS.Corr.C11.",
		CoqCaseType: "C11.case",
		Rule: "30% trim: trimResultsToRange/Limit on generated buffers (0-6 rows, 0-19 thorough; sorted / unsorted / trailing partial " +
			"row / tiny rowlen; ranges anchored at row times +-1ns/1s, inverted, ending just before a row); 15% time: Go time + " +
			"TimeToIndex/IndexToTime/TimeToOffset/FileSize at year boundaries, leap days, int64 extremes; 55% query: a real temp " +
			"instance, fixed or variable bucket over 11 timeframes, 1-3 writes of 1-6 rows at year edges / Feb 29 / interval edges " +
			"over 1-3 years, one range query (inside intervals, on edges, across years, empty, inverted, API defaults, planner " +
			"default) + the unrestricted query; distinct = distinct input JSON; non-trivial = inside the guarded theorem's domain " +
			"with a non-empty history (query) or >= 2 rows (trim)",
		Gen: c11Gen,
		Run: c11Run,
	})
}
