package props

import (
	"encoding/json"
	"fmt"
	"math"
	"math/big"

	"github.com/alpacahq/marketstore/v4/sqlparser"
	"github.com/alpacahq/marketstore/v4/utils/io"

	"verifharness/internal/cq"
	"verifharness/internal/rng"
)

// C22 — Candle aggregation composes across timeframes.
// Real pipeline: ticks --TickCandler(fine)--> A --CandleCandler(coarse, Open::Open ...)--> B
// versus        ticks --TickCandler(coarse)--> C ;  property: B and C have the same windows and OHLC.

type c22In struct {
	FMult   int      `json:"fmult"`
	FSuffix string   `json:"fsuffix"`
	CMult   int      `json:"cmult"`
	CSuffix string   `json:"csuffix"`
	Zone    int      `json:"zone"` // UTC offset (seconds) of the system timezone
	Ticks   c21Chunk `json:"ticks"` // one price group with one float32 column, no Acc
}

// pairs (fine, coarse); most divide, some do not
var c22Pairs = [][4]interface{}{
	{1, "Sec", 10, "Sec"}, {1, "Sec", 1, "Min"}, {10, "Sec", 1, "Min"}, {30, "Sec", 5, "Min"}, {1, "Min", 5, "Min"}, {1, "Min", 15, "Min"},
	{5, "Min", 15, "Min"}, {5, "Min", 1, "H"}, {15, "Min", 1, "H"}, {30, "Min", 4, "H"}, {1, "H", 4, "H"}, {1, "H", 1, "D"}, {4, "H", 1, "D"},
	{15, "Min", 1, "D"}, {1, "Min", 1, "D"}, {7, "Sec", 21, "Sec"}, {7, "Min", 21, "Min"}, {7, "H", 1, "D"}, {7, "Min", 1, "H"}, {1, "Min", 1, "Min"},
	{5, "Min", 7, "Min"}, {2, "H", 3, "H"}, {1, "D", 1, "D"}, {90, "Sec", 3, "Min"}, {45, "Min", 90, "Min"},
}

func c22Gen(r *rng.Rand, i int, tier string) interface{} {
	maxRows := 14
	if tier == "thorough" {
		maxRows = 100
	}
	p := c22Pairs[r.Intn(len(c22Pairs))]
	in := c22In{FMult: p[0].(int), FSuffix: p[1].(string), CMult: p[2].(int), CSuffix: p[3].(string)}
	if r.Chance(30) {
		in.Zone = c21Zones[r.Intn(len(c21Zones))]
	}
	n := 1 + r.Intn(maxRows)
	if r.Chance(3) {
		n = 0
	}
	// timestamps spread over 1-3 coarse windows, i.e. several fine windows
	cd := c21Dur(in.CMult, in.CSuffix)
	withNanos := r.Chance(25)
	in.Ticks.Epochs, in.Ticks.Nanos = c21Times(r, n, cd, withNanos)
	if r.Chance(60) { // also hit fine-window boundaries
		fd := c21Dur(in.FMult, in.FSuffix)
		for j := range in.Ticks.Epochs {
			if r.Chance(30) {
				e := in.Ticks.Epochs[j]
				e -= ((e % fd) + fd) % fd
				if r.Bool() {
					e += fd - 1
				}
				in.Ticks.Epochs[j] = e
			}
		}
	}
	if r.Chance(70) { // distinct timestamps (the property's hypothesis for order independence)
		seen := map[int64]bool{}
		for j, e := range in.Ticks.Epochs {
			for seen[e] && !withNanos {
				e++
			}
			seen[e] = true
			in.Ticks.Epochs[j] = e
		}
	}
	mode := []int{0, 0, 0, 1, 1, 2, 3}[r.Intn(7)]
	in.Ticks.Price = [][]c21Col{c21GenCols(r, n, 1, mode, "float32")}
	return in
}

type c22Obs struct {
	A, B, C c21Obs
}

func c22Exec(in *c22In) (obs c22Obs, err error) {
	tickIn := func(mult int, suffix string) *c21In {
		return &c21In{Kind: "tick", Mult: mult, Suffix: suffix, Runner: true, Zone: in.Zone, Chunks: []c21Chunk{in.Ticks}}
	}
	var csA *io.ColumnSeries
	if obs.A, csA, err = c21Exec(tickIn(in.FMult, in.FSuffix)); err != nil {
		return
	}
	if obs.C, _, err = c21Exec(tickIn(in.CMult, in.CSuffix)); err != nil {
		return
	}
	if obs.A.Code != 0 {
		return
	}
	// B: the fine candler's output column series itself goes into the coarse CandleCandler
	func() {
		defer c21SetZone(in.Zone)()
		defer func() {
			if p := recover(); p != nil {
				obs.B.Code, obs.B.Err = 2, fmt.Sprint(p)
			}
		}()
		ar := sqlparser.NewDefaultAggRunner(nil)
		call := fmt.Sprintf("candlecandler('%d%s', Open::Open, High::High, Low::Low, Close::Close)", in.CMult, in.CSuffix)
		out, e := ar.Run([]string{call}, csA, io.TimeBucketKey{})
		if e != nil {
			obs.B.Code, obs.B.Err = 1, e.Error()
			return
		}
		obs.B.Rows, err = c21Extract(&c21In{}, out)
	}()
	return
}

func c22Divides(in *c22In) bool {
	f, c := c21Dur(in.FMult, in.FSuffix), c21Dur(in.CMult, in.CSuffix)
	if in.FMult < 1 || in.CMult < 1 {
		return false
	}
	return f > 0 && c%f == 0
}

// c22ZoneOK mirrors the origin condition of divides_in_zone: the grids of the two timeframes (0001-01-01 UTC for
// Sec/Min/H, local midnight for D) differ by a multiple of the fine window length.
func c22ZoneOK(in *c22In) bool {
	f := c21Dur(in.FMult, in.FSuffix)
	const absEpoch = 62135596800
	origin := func(suffix string) int64 {
		if suffix == "D" {
			return int64(in.Zone)
		}
		return absEpoch
	}
	return f > 0 && (origin(in.CSuffix)-origin(in.FSuffix))%f == 0
}

func c22Run(raw json.RawMessage) (res Result, err error) {
	var in c22In
	if err = json.Unmarshal(raw, &in); err != nil {
		return
	}
	obs, err := c22Exec(&in)
	if err != nil {
		return res, err
	}
	res.Obs = obs
	res.Coq = cq.Rec(cq.F("k_off", cq.Z(int64(in.Zone))), cq.F("k_fmult", cq.Z(int64(in.FMult))), cq.F("k_fsuffix", cq.Str(in.FSuffix)),
		cq.F("k_cmult", cq.Z(int64(in.CMult))), cq.F("k_csuffix", cq.Str(in.CSuffix)),
		cq.F("k_ticks", c21CoqInput(&in.Ticks)),
		cq.F("k_codeA", cq.Nat(obs.A.Code)), cq.F("k_outA", c21CoqRows(obs.A.Rows)),
		cq.F("k_codeB", cq.Nat(obs.B.Code)), cq.F("k_outB", c21CoqRows(obs.B.Rows)),
		cq.F("k_codeC", cq.Nat(obs.C.Code)), cq.F("k_outC", c21CoqRows(obs.C.Rows)))

	tin := &c21In{Kind: "tick", Mult: in.FMult, Suffix: in.FSuffix, Zone: in.Zone, Chunks: []c21Chunk{in.Ticks}}
	rows, wellFormed := c21Ticks(tin)
	hasNaN, zeroTime := false, false
	zt := new(big.Int).Mul(big.NewInt(c21ZeroTimeUnix), big.NewInt(1000000000))
	for _, r := range rows {
		if r.o != r.o {
			hasNaN = true
		}
		d := new(big.Int).Sub(r.t, zt)
		if d.Sign() >= 0 && d.Cmp(big.NewInt(86400*1000000000)) < 0 { // in the first day of year 1: fine window may start at the zero time
			zeroTime = true
		}
	}
	divides := c22Divides(&in) && (in.FSuffix != "D" || in.FMult == 1) && (in.CSuffix != "D" || in.CMult == 1)
	distinct := c21Distinct(rows)
	zoneOK := c22ZoneOK(&in)
	res.InDomain = wellFormed && divides && zoneOK && distinct && !hasNaN && !zeroTime
	res.Holds = true
	if wellFormed && divides && !zeroTime { // "all row sets and all pairs of timeframes where one divides the other"
		switch {
		case obs.A.Code != 0 || obs.B.Code != 0 || obs.C.Code != 0:
			res.Holds, res.Detail = false, fmt.Sprintf("a candler failed: codes %d %d %d (%s %s %s)", obs.A.Code, obs.B.Code, obs.C.Code, obs.A.Err, obs.B.Err, obs.C.Err)
		default:
			if d := c21SameOHLC(obs.C.Rows, obs.B.Rows, "from the rows directly", "from the fine candles"); d != "" {
				res.Holds, res.Detail = false, d
			}
		}
		if !res.Holds && hasNaN {
			res.Class = "nan-price"
		} else if !res.Holds && !zoneOK {
			res.Class = "zone-offset-splits-fine-window"
		}
	}
	res.Nontrivial = res.InDomain && len(rows) >= 3 && len(obs.A.Rows) >= 2
	res.Tags = []string{"fine:" + fmt.Sprintf("%d%s", in.FMult, in.FSuffix), "coarse:" + fmt.Sprintf("%d%s", in.CMult, in.CSuffix),
		fmt.Sprintf("rows=%d", bucket(len(rows))), fmt.Sprintf("fine-candles=%d", bucket(len(obs.A.Rows))), fmt.Sprintf("coarse-candles=%d", bucket(len(obs.C.Rows)))}
	if in.Zone != 0 {
		res.Tags = append(res.Tags, fmt.Sprintf("zone=%+d", in.Zone))
	}
	if !zoneOK {
		res.Tags = append(res.Tags, "zone-not-multiple-of-fine")
	}
	if divides {
		res.Tags = append(res.Tags, "divides")
	} else {
		res.Tags = append(res.Tags, "not-dividing")
	}
	if hasNaN {
		res.Tags = append(res.Tags, "nan")
	}
	if !distinct {
		res.Tags = append(res.Tags, "duplicate-timestamps")
	}
	if res.InDomain {
		res.Tags = append(res.Tags, "in-domain")
	} else {
		res.Tags = append(res.Tags, "outside-domain")
	}
	_ = math.Pi
	res.Key = string(raw)
	return res, nil
}

func init() {
	Register(&Spec{
		ID:          "C22",
		CoqRequire:  "Require Import MS.Corr.C22.",
		CoqCaseType: "C22.case",
		Rule: "ticks (1-14 rows, 1-100 thorough; float32 prices incl. IEEE specials/NaN; 25% with nanoseconds; timestamps over 1-4 coarse windows " +
			"hitting fine and coarse window boundaries; 70% forced distinct) through TickCandler(fine) -> CandleCandler(coarse) and through " +
			"TickCandler(coarse); 25 timeframe pairs Sec/Min/H/D of which 20 divide; distinct = distinct input JSON; non-trivial = inside the " +
			"theorem's guard with >= 3 rows and >= 2 fine candles",
		Gen: c22Gen,
		Run: c22Run,
	})
}
