// crashrun — the durability group's engine (C01 C02 C03 C04 C05 C34 C35).
//
//	crashrun _workload <root> <history.json> <ackfile> [instanceID]   child: REAL instance runs the history
//	crashrun _recover  <instanceID> <dir>...                          child: REAL start-up + queries, one JSON line per dir
//	crashrun record    <history.json> <outdir>                        trace one history, write ops.json
//	crashrun image     <ops.json> <k> <dir>                           materialise the crash image of prefix k
//	crashrun <Cxx> -seed S -n N -tier T -out DIR [-corpus DIR] [-input FILE] [-stream K]
//	                                                                  implrun-compatible driver (cases.v, cases.jsonl)
package main

import (
	"encoding/json"
	"fmt"
	"os"
	"strconv"

	"verifharness/internal/crash"
)

func die(f string, a ...interface{}) {
	fmt.Fprintf(os.Stderr, f+"\n", a...)
	os.Exit(2)
}

func main() {
	if len(os.Args) < 2 {
		die("usage: crashrun _workload|_recover|record|image|<Cxx> ...")
	}
	switch os.Args[1] {
	case "_workload":
		os.Exit(crash.WorkloadMain(os.Args[2:]))
	case "_recover":
		os.Exit(crash.RecoverMain(os.Args[2:]))
	case "record":
		if len(os.Args) < 4 {
			die("record <history.json> <outdir>")
		}
		raw, err := os.ReadFile(os.Args[2])
		if err != nil {
			die("%v", err)
		}
		var h crash.History
		if err := json.Unmarshal(raw, &h); err != nil {
			die("%v", err)
		}
		rec, err := crash.Record(&h, os.Args[3], true)
		if err != nil {
			die("record: %v", err)
		}
		b, _ := json.MarshalIndent(rec, "", " ")
		os.WriteFile(os.Args[3]+"/ops.json", b, 0o644)
		fmt.Printf("%d ops, exit %d\n", len(rec.Ops), rec.Exit)
	case "image":
		if len(os.Args) < 5 {
			die("image <ops.json> <k> <dir>")
		}
		raw, err := os.ReadFile(os.Args[2])
		if err != nil {
			die("%v", err)
		}
		var rec crash.Recording
		if err := json.Unmarshal(raw, &rec); err != nil {
			die("%v", err)
		}
		k, _ := strconv.Atoi(os.Args[3])
		if err := crash.Materialise(os.Args[4], rec.Ops, k); err != nil {
			die("%v", err)
		}
	default:
		os.Exit(crash.DriverMain(os.Args[1], os.Args[2:]))
	}
}
