// c26child runs one C26 case in-process: c26child <input.json> <events.log>
package main

import (
	"encoding/json"
	"os"

	"verifharness/internal/c26x"
)

func main() {
	if len(os.Args) < 3 {
		os.Exit(3)
	}
	raw, err := os.ReadFile(os.Args[1])
	if err != nil {
		os.Exit(3)
	}
	var in c26x.In
	if json.Unmarshal(raw, &in) != nil {
		os.Exit(3)
	}
	c26x.RunChild(in, os.Args[2])
}
