// c18race: built with `go build -race`; runs the real SyncWAL goroutine against concurrent real
// WriteCSM calls and real queries so that the race detector can report unsynchronised shared variables
// (haveWALWriter, *shutdownPending).  Search only: a report supports finding F18, its absence proves nothing.
package main

import (
	"fmt"
	"os"
	"sync"
	"time"

	"verifharness/internal/schedx"
)

func main() {
	in, err := schedx.New(4, false, false)
	if err != nil {
		fmt.Println("setup:", err)
		os.Exit(3)
	}
	go func() { // writers that start before the loop has announced itself read haveWALWriter concurrently with its write
		time.Sleep(200 * time.Microsecond)
	}()
	var wg sync.WaitGroup
	for w := 0; w < 4; w++ {
		wg.Add(1)
		go func(w int) {
			defer wg.Done()
			defer func() { recover() }()
			for i := 0; i < 3; i++ {
				_ = in.W.WriteCSM(schedx.CSM(w, 2), false)
				_, _ = in.Visible(w)
			}
		}(w)
	}
	in.StartLoop(2 * time.Millisecond)
	wg.Wait()
	in.Close()
	fmt.Println("c18race: done")
}
