// c18race: meant to be built with `go build -race` (checks/C18.py does that in --setup / thorough tier).
// Runs the real SyncWAL goroutine against concurrent real WriteCSM calls and queries, and a real
// Shutdown, touching the shared flags only through marketstore's own code, so that every race report
// whose two stacks are inside /repo is a race of the implementation:
//
//	haveWALWriter     written at executor/wal.go:722,765 (SyncWAL), read at wal.go:788 (RequestFlush)
//	*shutdownPending  written at wal.go:804 (Shutdown), read at wal.go:730 (SyncWAL)
//	catalog maps      (*Directory).datafile / subDirs: a writer that rolls a bucket over into new years (AddFile inserts
//	                  into datafile) while readers query the same bucket and look up its latest year file
//
// Search only: silence proves nothing; a report names the two racing stacks.
package main

import (
	"fmt"
	"os"
	"sync"
	"sync/atomic"
	"time"

	"github.com/alpacahq/marketstore/v4/utils/io"

	"verifharness/internal/schedx"
)

func main() {
	in, err := schedx.New(4, false, false)
	if err != nil {
		fmt.Println("setup:", err)
		os.Exit(3)
	}
	in.WAL.IncrementWaitGroup()
	go in.WAL.SyncWAL(2*time.Millisecond, time.Hour, 1000)
	time.Sleep(50 * time.Millisecond) // no synchronisation: the loop has long set haveWALWriter, yet nothing orders it
	var wg sync.WaitGroup
	for w := 0; w < 4; w++ {
		wg.Add(1)
		go func(w int) {
			defer wg.Done()
			defer func() { recover() }()
			for i := 0; i < 3; i++ {
				_ = in.W.WriteCSM(schedx.CSM(w, 2), false)
				_, _ = in.Visible(w)
			}
		}(w)
	}
	wg.Wait()
	// year rollover of bucket W0 against readers of the same bucket's catalog entry
	stop := int32(0)
	var rg sync.WaitGroup
	for g := 0; g < 3; g++ {
		rg.Add(1)
		go func(g int) {
			defer rg.Done()
			defer func() { recover() }()
			tbk := io.NewTimeBucketKey(schedx.Key(0))
			for atomic.LoadInt32(&stop) == 0 {
				if g == 0 {
					_, _ = in.Cat.GetLatestTimeBucketInfoFromKey(tbk)
				} else {
					_, _ = in.QueryYears(0, 2019, 2032)
				}
			}
		}(g)
	}
	for y := 2021; y <= 2028; y++ {
		_ = in.W.WriteCSM(schedx.CSMYear(0, y), false)
		time.Sleep(2 * time.Millisecond)
	}
	atomic.StoreInt32(&stop, 1)
	rg.Wait()
	done := make(chan struct{})
	go func() { in.WAL.Shutdown(); close(done) }()
	select {
	case <-done:
	case <-time.After(10 * time.Second):
	}
	fmt.Println("c18race: done")
	os.Exit(0)
}
