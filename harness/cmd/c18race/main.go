// c18race: meant to be built with `go build -race` (checks/C18.py does that in --setup / thorough tier).
// Runs the real SyncWAL goroutine against concurrent real WriteCSM calls and queries, and a real
// Shutdown, touching the shared flags only through marketstore's own code, so that every race report
// whose two stacks are inside /repo is a race of the implementation:
//   haveWALWriter     written at executor/wal.go:722,765 (SyncWAL), read at wal.go:788 (RequestFlush)
//   *shutdownPending  written at wal.go:804 (Shutdown), read at wal.go:730 (SyncWAL)
// Search only: a report supports finding F18; silence proves nothing.
package main

import (
	"fmt"
	"os"
	"sync"
	"time"

	"verifharness/internal/schedx"
)

func main() {
	in, err := schedx.New(4, false, false)
	if err != nil {
		fmt.Println("setup:", err)
		os.Exit(3)
	}
	in.WAL.IncrementWaitGroup()
	go in.WAL.SyncWAL(2*time.Millisecond, time.Hour, 1000)
	time.Sleep(50 * time.Millisecond) // no synchronisation: the loop has long set haveWALWriter, yet nothing orders it
	var wg sync.WaitGroup
	for w := 0; w < 4; w++ {
		wg.Add(1)
		go func(w int) {
			defer wg.Done()
			defer func() { recover() }()
			for i := 0; i < 3; i++ {
				_ = in.W.WriteCSM(schedx.CSM(w, 2), false)
				_, _ = in.Visible(w)
			}
		}(w)
	}
	wg.Wait()
	done := make(chan struct{})
	go func() { in.WAL.Shutdown(); close(done) }()
	select {
	case <-done:
	case <-time.After(10 * time.Second):
	}
	fmt.Println("c18race: done")
	os.Exit(0)
}
