//go:build fxprobe

package main

import (
	"fmt"
	"time"

	"github.com/alpacahq/marketstore/v4/planner"
	"github.com/alpacahq/marketstore/v4/utils/io"

	"verifharness/internal/fxinst"
)

func main() {
	in, err := fxinst.New()
	if err != nil {
		panic(err)
	}
	defer in.Close()
	key := "A/1H/T"
	w := func(eps []int64, ns []int32, v []int32) {
		cs := io.NewColumnSeries()
		cs.AddColumn("Epoch", eps)
		cs.AddColumn("V", v)
		cs.AddColumn("Nanoseconds", ns)
		csm := io.NewColumnSeriesMap()
		csm.AddColumnSeries(*io.NewTimeBucketKey(key), cs)
		fmt.Println("write", in.W.WriteCSM(csm, true))
	}
	t19 := time.Date(2019, 3, 1, 10, 20, 0, 0, time.UTC).Unix()
	t20 := time.Date(2020, 3, 1, 10, 20, 0, 0, time.UTC).Unix()
	w([]int64{t19, t19 + 3600, t19 + 7200, t20}, []int32{5e8, 5e8, 5e8, 5e8}, []int32{1, 2, 3, 4})
	q := func(n int, fromStart bool) {
		defer func() {
			if p := recover(); p != nil {
				fmt.Println("  PANIC", p)
			}
		}()
		csm, err := in.Q.ExecuteQuery(io.NewTimeBucketKey(key), time.Unix(0, 0).UTC(), planner.MaxTime, n, fromStart, nil)
		fmt.Println("query n", n, "fromStart", fromStart, "err", err)
		for _, cs := range csm {
			fmt.Println("   ", cs.GetEpoch(), cs.GetColumn("V"))
		}
	}
	q(0, false)
	q(1, false)
	q(2, false)
	q(3, false)
	q(4, false)
	q(5, false)
	q(2, true)
}
