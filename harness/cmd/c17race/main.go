// c17race: replays the Destroy || Create race of the catalog (C17, finding F17) on the REAL code.
//
// Model witness (Properties/C17conc.v, schedule race2): AddTimeBucket of ANY bucket of symbol A scans A's directory
// (NewDirectory) and later installs the scanned sub-tree (addSubdir); RemoveTimeBucket of A/1Min/G runs on the old nodes in
// between (it does not take the root lock): the installed sub-tree still lists A/1Min/G, the disk no longer has it.
//
// RemoveTimeBucket's walk needs the root's read lock, so it must come first; to keep its RemoveAll of the bucket directory
// busy for a few milliseconds the target A/1Min/G holds <years> year files.  Each trial starts DataService.Destroy(A/1Min/G)
// and, a little later, DataService.Create(A/5Min/N<i>) in two goroutines, then compares ListTimeBucketKeyNames with a walk
// of the disk and with a fresh NewDirectory.
// Prints one JSON object; exit code 0 whether or not the race was hit.
package main

import (
	"encoding/json"
	"flag"
	"fmt"
	"os"
	"path/filepath"
	"sort"
	"sync"
	"time"

	"github.com/alpacahq/marketstore/v4/catalog"
	"github.com/alpacahq/marketstore/v4/utils/io"

	"verifharness/internal/catinst"
)

type result struct {
	Hit        bool     `json:"hit"`
	Trials     int      `json:"trials"`
	Trial      int      `json:"trial,omitempty"`
	DelayUs    int      `json:"delay_us,omitempty"`
	Catalog    []string `json:"catalog_only,omitempty"` // listed by the running catalog, not on disk
	Disk       []string `json:"disk_only,omitempty"`    // on disk, not listed
	FreshDiff  bool     `json:"fresh_differs,omitempty"`
	CreateMsg  string   `json:"create_msg,omitempty"`
	DestroyMsg string   `json:"destroy_msg,omitempty"`
	Err        string   `json:"err,omitempty"`
	Elapsed    float64  `json:"elapsed_s"`
}

func disk(root string) []string {
	var out []string
	syms, _ := os.ReadDir(root)
	for _, s := range syms {
		if !s.IsDir() {
			continue
		}
		tfs, _ := os.ReadDir(filepath.Join(root, s.Name()))
		for _, t := range tfs {
			if !t.IsDir() {
				continue
			}
			gs, _ := os.ReadDir(filepath.Join(root, s.Name(), t.Name()))
			for _, g := range gs {
				if g.IsDir() {
					out = append(out, s.Name()+"/"+t.Name()+"/"+g.Name())
				}
			}
		}
	}
	sort.Strings(out)
	return out
}

func diff(a, b []string) (onlyA []string) {
	in := map[string]bool{}
	for _, x := range b {
		in[x] = true
	}
	for _, x := range a {
		if !in[x] {
			onlyA = append(onlyA, x)
		}
	}
	return
}

func main() {
	trials := flag.Int("trials", 200, "maximum number of trials")
	fillers := flag.Int("fillers", 3, "other buckets under the symbol")
	years := flag.Int("years", 400, "year files of the target bucket")
	budget := flag.Float64("budget", 25, "seconds")
	flag.Parse()
	t0 := time.Now()
	res := result{}
	defer func() {
		res.Elapsed = time.Since(t0).Seconds()
		b, _ := json.Marshal(res)
		fmt.Println(string(b))
	}()
	inst, err := catinst.New()
	if err != nil {
		res.Err = err.Error()
		return
	}
	defer inst.Close()
	names, types := []string{"Epoch", "A"}, []string{"i8", "f4"}
	const cat = ":Symbol/Timeframe/AttributeGroup"
	for i := 0; i < *fillers; i++ {
		inst.Create(fmt.Sprintf("A/5Min/F%03d%s", i, cat), names, types)
	}
	const target = "A/1Min/G"
	ys := make([]int, *years)
	for i := range ys {
		ys[i] = 1000 + i
	}
	for i := 0; i < *trials && time.Since(t0).Seconds() < *budget; i++ {
		res.Trials = i + 1
		// (re)create the target with many year files: one write with a row per year (AddFile for each new year)
		csm := io.NewColumnSeriesMap()
		cs := io.NewColumnSeries()
		ep := make([]int64, len(ys))
		col := make([]float32, len(ys))
		for j, y := range ys {
			ep[j] = time.Date(y, 6, 1, 12, 0, 0, 0, time.UTC).Unix()
		}
		cs.AddColumn("Epoch", ep)
		cs.AddColumn("A", col)
		csm.AddColumnSeries(*io.NewTimeBucketKeyFromString(target), cs)
		inst.WriteCSM(csm, false)
		if len(diff(catinst.TBKs(inst.Cat), disk(inst.Root))) != 0 {
			res.Err = "catalog inconsistent before the trial"
			return
		}
		delay := time.Duration(50+(i*131)%1500) * time.Microsecond
		var wg sync.WaitGroup
		var cmsg, dmsg string
		wg.Add(2)
		go func() {
			defer wg.Done()
			defer func() { recover() }()
			_, dmsg = inst.Destroy(target)
		}()
		go func() {
			defer wg.Done()
			defer func() { recover() }()
			time.Sleep(delay)
			_, cmsg, _ = inst.Create(fmt.Sprintf("A/5Min/N%04d%s", i, cat), names, types)
		}()
		wg.Wait()
		listed, onDisk := catinst.TBKs(inst.Cat), disk(inst.Root)
		co, do := diff(listed, onDisk), diff(onDisk, listed)
		if len(co) > 0 || len(do) > 0 {
			res.Hit, res.Trial, res.DelayUs, res.Catalog, res.Disk = true, i, int(delay/time.Microsecond), co, do
			res.CreateMsg, res.DestroyMsg = cmsg, dmsg
			if d, e := catalog.NewDirectory(inst.Root); e == nil {
				res.FreshDiff = fmt.Sprint(catinst.TBKs(d)) != fmt.Sprint(listed)
			}
			return
		}
	}
}
