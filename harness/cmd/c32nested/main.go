// c32nested: replays finding C32/trigger-writes-during-fire on the REAL dispatcher.
//
// Synchronous mode (no SyncWAL goroutine, i.e. background sync disabled): RequestFlush runs FlushToWAL in the
// caller.  A trigger whose Fire itself writes (as contrib/ondiskagg does: Fire -> executor.WriteCSM) therefore
// runs FlushCommandsToWAL -> AppendRecord/DispatchRecords in the FIRE goroutine, on the same dispatcher.  The
// writer's DispatchRecords (executor/written.go:62-67) has sent its entries to tpd.c but resets tpd.m only
// afterwards, unsynchronised: a nested flush that gets in between finds the writer's records still in tpd.m and
// dispatches them a second time.  (The same window can also end in Go's fatal "concurrent map iteration and map
// write", which is why this runs in its own process.)
//
// usage: c32nested <input.json>   input: {"keys":K, "attempts":N}
// output (stdout, one JSON object): {"attempts":n, "duplicate":bool, "detail":"...", "events":e, "written":w}
package main

import (
	"encoding/json"
	"fmt"
	"os"
	"path/filepath"
	"sync"
	"time"

	"github.com/alpacahq/marketstore/v4/executor"
	"github.com/alpacahq/marketstore/v4/plugins/trigger"
	"github.com/alpacahq/marketstore/v4/utils/io"

	"verifharness/internal/tginst"
)

type input struct {
	Keys     int `json:"keys"`
	Attempts int `json:"attempts"`
}

type event struct {
	trig  int
	key   string
	index int64
	data  string
}

type state struct {
	mu     sync.Mutex
	events map[event]int
	inst   *tginst.Inst
	n      int64
}

// recording trigger; if writes is set, Fire also writes one row to an aggregate bucket (like ondiskagg)
type trig struct {
	id     int
	writes bool
	st     *state
}

func schema() []io.DataShape {
	return []io.DataShape{{Name: "Epoch", Type: io.INT64}, {Name: "A", Type: io.INT32}}
}

func (t *trig) Fire(keyPath string, records []trigger.Record) {
	t.st.mu.Lock()
	for i := range records {
		r := records[i]
		t.st.events[event{t.id, keyPath, r.Index(), string(r.Payload())}]++
	}
	t.st.n++
	n := t.st.n
	t.st.mu.Unlock()
	if t.writes {
		cs := io.NewColumnSeries()
		cs.AddColumn("Epoch", []int64{time.Date(2020, 1, 2, 0, 0, 0, 0, time.UTC).Unix() + 3600*(n%8000)})
		cs.AddColumn("A", []int32{int32(n)})
		csm := io.NewColumnSeriesMap()
		csm.AddColumnSeries(*io.NewTimeBucketKey("AGG/1H/AGG"), cs)
		if w, err := executor.NewWriter(t.st.inst.Cat, t.st.inst.WAL); err == nil {
			_ = w.WriteCSM(csm, false)
		}
	}
}

func ensure(inst *tginst.Inst, key string) error {
	tbk := io.NewTimeBucketKey(key)
	tf, err := tbk.GetTimeFrame()
	if err != nil {
		return err
	}
	tbi := io.NewTimeBucketInfo(*tf, tbk.GetPathToYearFiles(inst.Root), "verif", 2020, schema(), io.FIXED)
	return inst.Cat.AddTimeBucket(tbk, tbi)
}

func main() {
	in := input{Keys: 32, Attempts: 300}
	if len(os.Args) > 1 {
		if raw, err := os.ReadFile(os.Args[1]); err == nil {
			var w struct {
				Input json.RawMessage `json:"input"`
			}
			if json.Unmarshal(raw, &w) == nil && len(w.Input) > 0 {
				raw = w.Input
			}
			_ = json.Unmarshal(raw, &in)
		}
	}
	st := &state{events: map[event]int{}}
	sender := &tginst.RecSender{}
	// exactly ONE bucket has a writing trigger (so there is one nested writer at a time: the only concurrency is
	// writer vs. the fire goroutine); the other buckets of the flush only lengthen the writer's DispatchRecords loop
	ms := []*trigger.Matcher{
		trigger.NewMatcher(&trig{id: 0, writes: true, st: st}, "S0/1Min/BASE"),
		trigger.NewMatcher(&trig{id: 1, st: st}, "*/1H/AGG"),
		trigger.NewMatcher(&trig{id: 2, st: st}, "*/1Min/BASE"),
	}
	inst, err := tginst.New(ms, sender)
	if err != nil {
		fmt.Fprintln(os.Stderr, err)
		os.Exit(3)
	}
	defer inst.Close()
	st.inst = inst
	if err := ensure(inst, "AGG/1H/AGG"); err != nil {
		fmt.Fprintln(os.Stderr, err)
		os.Exit(3)
	}
	for k := 0; k < in.Keys; k++ {
		if err := ensure(inst, fmt.Sprintf("S%d/1Min/BASE", k)); err != nil {
			fmt.Fprintln(os.Stderr, err)
			os.Exit(3)
		}
	}
	out := map[string]interface{}{"attempts": 0, "duplicate": false}
	base := time.Date(2020, 2, 1, 0, 0, 0, 0, time.UTC).Unix()
	for a := 0; a < in.Attempts; a++ {
		csm := io.NewColumnSeriesMap()
		for k := 0; k < in.Keys; k++ {
			cs := io.NewColumnSeries()
			cs.AddColumn("Epoch", []int64{base + 60*int64(a)})
			cs.AddColumn("A", []int32{int32(a*1000 + k)})
			csm.AddColumnSeries(*io.NewTimeBucketKey(fmt.Sprintf("S%d/1Min/BASE", k)), cs)
		}
		w, err := executor.NewWriter(inst.Cat, inst.WAL)
		if err == nil {
			err = w.WriteCSM(csm, false)
		}
		if err != nil {
			fmt.Fprintln(os.Stderr, "write:", err)
			os.Exit(3)
		}
		// quiescence (heuristic, this is a search): nothing queued on tpd.c and no new Fire call for 5 ms.
		// (triggerWg.Wait cannot be used here: with nested writes the dispatcher may Add concurrently.)
		last, stable := int64(-1), 0
		deadline := time.Now().Add(10 * time.Second)
		for stable < 5 && time.Now().Before(deadline) {
			time.Sleep(time.Millisecond)
			st.mu.Lock()
			n := st.n
			st.mu.Unlock()
			if inst.TPD.VerifC32Pending() == 0 && n == last {
				stable++
			} else {
				stable = 0
			}
			last = n
		}
		// first the events seen so far, THEN the flushed TGs (a record is handed to the ReplicationSender before
		// it can reach a trigger, so every event copied here has its TG in the later snapshot)
		st.mu.Lock()
		seen := make(map[event]int, len(st.events))
		for e, n := range st.events {
			seen[e] = n
		}
		st.mu.Unlock()
		written := map[event]int{}
		for _, tg := range sender.Snapshot() {
			_, wts := executor.ParseTGData(tg, inst.Root)
			for _, wt := range wts {
				rel, _ := filepath.Rel(inst.Root, wt.FilePath)
				written[event{0, rel, wt.Buffer.Index(), string(wt.Buffer.Payload())}]++
			}
		}
		out["attempts"] = a + 1
		nev := 0
		for e, n := range seen {
			nev += n
			if w := written[event{0, e.key, e.index, e.data}]; n > w {
				out["duplicate"] = true
				out["detail"] = fmt.Sprintf("trigger %d saw (%s, index %d, payload %x) %d time(s); it is in the flushed transaction groups %d time(s)",
					e.trig, e.key, e.index, e.data, n, w)
			}
		}
		out["events"] = nev
		out["written"] = len(written)
		if out["duplicate"].(bool) {
			break
		}
	}
	b, _ := json.Marshal(out)
	fmt.Println(string(b))
}
