// implrun: runs the implementation (/repo, built with -tags verif) on generated / corpus / replay
// inputs of one property and writes
//   <out>/cases.v      Definition cases : list <CaseType> := [...]   (inputs + observed outputs)
//   <out>/cases.jsonl  one JSON object per case: index, source, input, observed, oracle verdict, tags
//   <out>/summary.json counts, tag histogram
package main

import (
	"bufio"
	"encoding/json"
	"flag"
	"fmt"
	"os"
	"path/filepath"
	"sort"
	"strings"

	"verifharness/internal/rng"
	"verifharness/props"
)

type line struct {
	I      int             `json:"i"`
	Source string          `json:"source"`
	Input  json.RawMessage `json:"input"`
	props.Result
	Err string `json:"err,omitempty"`
}

func main() {
	if len(os.Args) < 2 {
		fmt.Fprintln(os.Stderr, "usage: implrun <prop> [-seed S -n N -tier T -out DIR -corpus DIR -input FILE -stream K]")
		fmt.Fprintln(os.Stderr, "registered:", strings.Join(props.IDs(), " "))
		os.Exit(2)
	}
	id := os.Args[1]
	fs := flag.NewFlagSet("implrun", flag.ExitOnError)
	seed := fs.Uint64("seed", 1, "seed")
	n := fs.Int("n", 100, "number of generated cases")
	tier := fs.String("tier", "quick", "tier")
	out := fs.String("out", "", "output directory")
	corpus := fs.String("corpus", "", "corpus directory (inputs *.json run first)")
	input := fs.String("input", "", "run only this input file (replay)")
	stream := fs.Uint64("stream", 0, "generator stream (search uses other streams)")
	neigh := fs.String("neighbours", "", "also run neighbours of this input file (search)")
	fs.Parse(os.Args[2:])
	spec, err := props.Get(id)
	if err != nil {
		fmt.Fprintln(os.Stderr, err)
		os.Exit(2)
	}
	if *out == "" {
		fmt.Fprintln(os.Stderr, "-out required")
		os.Exit(2)
	}
	os.MkdirAll(*out, 0o755)
	type item struct {
		src string
		raw json.RawMessage
	}
	var items []item
	if *input != "" {
		raw, err := os.ReadFile(*input)
		if err != nil {
			fmt.Fprintln(os.Stderr, err)
			os.Exit(2)
		}
		// a replay file may wrap the input
		var w struct {
			Input json.RawMessage `json:"input"`
		}
		if json.Unmarshal(raw, &w) == nil && len(w.Input) > 0 {
			raw = w.Input
		}
		items = append(items, item{"replay:" + *input, raw})
	} else {
		if *corpus != "" {
			files, _ := filepath.Glob(filepath.Join(*corpus, "*.json"))
			sort.Strings(files)
			for _, f := range files {
				raw, err := os.ReadFile(f)
				if err != nil {
					continue
				}
				var w struct {
					Input json.RawMessage `json:"input"`
				}
				if json.Unmarshal(raw, &w) == nil && len(w.Input) > 0 {
					raw = w.Input
				}
				items = append(items, item{"corpus:" + filepath.Base(f), raw})
			}
		}
		base := rng.New(*seed*0x9e3779b97f4a7c15 + *stream*0x2545f4914f6cdd1d + 12345)
		if *neigh != "" && spec.Neighbours != nil {
			raw, err := os.ReadFile(*neigh)
			if err == nil {
				for _, nb := range spec.Neighbours(raw, base.Fork(999999)) {
					b, _ := json.Marshal(nb)
					items = append(items, item{"neighbour", b})
				}
			}
		}
		for i := 0; i < *n; i++ {
			in := spec.Gen(base.Fork(uint64(i)), i, *tier)
			b, err := json.Marshal(in)
			if err != nil {
				fmt.Fprintln(os.Stderr, "marshal:", err)
				os.Exit(2)
			}
			items = append(items, item{fmt.Sprintf("gen:seed=%d,stream=%d,i=%d", *seed, *stream, i), b})
		}
	}
	jf, _ := os.Create(filepath.Join(*out, "cases.jsonl"))
	jw := bufio.NewWriter(jf)
	vf, _ := os.Create(filepath.Join(*out, "cases.v"))
	vw := bufio.NewWriter(vf)
	fmt.Fprintf(vw, "Definition cases : list %s := [\n", spec.CoqCaseType)
	tags := map[string]int{}
	keys := map[string]bool{}
	nontriv := map[string]bool{}
	fails, indom, first := 0, 0, true
	for i, it := range items {
		res, err := spec.Run(it.raw)
		l := line{I: i, Source: it.src, Input: it.raw, Result: res}
		if err != nil {
			l.Err = err.Error()
		}
		b, _ := json.Marshal(l)
		jw.Write(b)
		jw.WriteByte('\n')
		if res.Coq != "" {
			if !first {
				vw.WriteString(";\n")
			}
			first = false
			vw.WriteString(res.Coq)
		}
		for _, t := range res.Tags {
			tags[t]++
		}
		keys[res.Key] = true
		if res.Nontrivial {
			nontriv[res.Key] = true
		}
		if !res.Holds {
			fails++
		}
		if res.InDomain {
			indom++
		}
	}
	vw.WriteString("\n].\n")
	vw.Flush()
	vf.Close()
	jw.Flush()
	jf.Close()
	sum := map[string]interface{}{
		"property": id, "cases": len(items), "distinct": len(keys), "distinct_nontrivial": len(nontriv),
		"oracle_failures": fails, "in_domain": indom, "tags": tags, "rule": spec.Rule,
		"coq_require": spec.CoqRequire, "coq_case_type": spec.CoqCaseType,
	}
	sb, _ := json.MarshalIndent(sum, "", " ")
	os.WriteFile(filepath.Join(*out, "summary.json"), sb, 0o644)
}
