module verifharness

go 1.18

require (
	github.com/alpacahq/marketstore/v4 v4.0.0
	github.com/klauspost/compress v1.10.4
	github.com/vmihailenco/msgpack v4.0.4+incompatible
	go.uber.org/zap v1.15.0
	google.golang.org/grpc v1.46.2
)

require (
	github.com/alpacahq/rpc v1.3.0 // indirect
	github.com/antlr/antlr4 v0.0.0-20181031000400-73836edf1f84 // indirect
	github.com/beorn7/perks v1.0.1 // indirect
	github.com/cespare/xxhash/v2 v2.1.2 // indirect
	github.com/golang/protobuf v1.5.2 // indirect
	github.com/matttproud/golang_protobuf_extensions v1.0.1 // indirect
	github.com/pkg/errors v0.9.1 // indirect
	github.com/prometheus/client_golang v1.7.1 // indirect
	github.com/prometheus/client_model v0.2.0 // indirect
	github.com/prometheus/common v0.10.0 // indirect
	github.com/prometheus/procfs v0.1.3 // indirect
	go.uber.org/atomic v1.6.0 // indirect
	go.uber.org/multierr v1.5.0 // indirect
	golang.org/x/net v0.0.0-20220722155237-a158d28d115b // indirect
	golang.org/x/sys v0.0.0-20220722155257-8c9f86f7a55f // indirect
	golang.org/x/text v0.3.7 // indirect
	gonum.org/v1/gonum v0.0.0-20190618015908-5dc218f86579 // indirect
	google.golang.org/genproto v0.0.0-20220527130721-00d5c0f3be58 // indirect
	google.golang.org/protobuf v1.28.0 // indirect
	gopkg.in/yaml.v2 v2.4.0 // indirect
)

replace github.com/alpacahq/marketstore/v4 => /repo
