module verifharness

go 1.18

require github.com/alpacahq/marketstore/v4 v4.0.0

require (
	github.com/pkg/errors v0.9.1 // indirect
	go.uber.org/atomic v1.6.0 // indirect
	go.uber.org/multierr v1.5.0 // indirect
	go.uber.org/zap v1.15.0 // indirect
	gopkg.in/yaml.v2 v2.4.0 // indirect
)

replace github.com/alpacahq/marketstore/v4 => /repo
