// Package tzd: zone handling shared by the time-arithmetic properties (C30, C31).
// Zones are loaded from Go's tzdata; the transition table the Coq model receives is dumped from the
// very *time.Location the real code runs with (Time.ZoneBounds), restricted to a window.
package tzd

import (
	"fmt"
	"strconv"
	"strings"
	"time"
	_ "time/tzdata"

	"verifharness/internal/cq"
)

// Load: IANA name, "UTC", or "fixed:<seconds east>".
func Load(name string) (*time.Location, error) {
	if strings.HasPrefix(name, "fixed:") {
		o, err := strconv.Atoi(name[6:])
		if err != nil {
			return nil, err
		}
		return time.FixedZone(fmt.Sprintf("F%+d", o), o), nil
	}
	return time.LoadLocation(name)
}

type Table struct {
	Init  int64      `json:"init"`
	Trans [][2]int64 `json:"trans"` // (utc second, offset) — only real offset changes
}

// Dump the offset function of loc on [from, to] (unix seconds).
// Time.ZoneBounds is used to jump from period to period; on the last day of a leap year past the
// end of the zone's explicit table Go's rule-based lookup (tzset) returns bounds that do not contain
// the instant (end <= t), so whenever ZoneBounds does not advance we step one day and, if the
// offset changed on the way, bisect for the exact second.
func Dump(loc *time.Location, from, to int64) Table {
	offAt := func(u int64) int {
		_, o := time.Unix(u, 0).In(loc).Zone()
		return o
	}
	cur := from
	last := offAt(cur)
	tb := Table{Init: int64(last)}
	for i := 0; i < 200000 && cur <= to; i++ {
		_, end := time.Unix(cur, 0).In(loc).ZoneBounds()
		next := cur + 86400
		if !end.IsZero() && end.Unix() > cur {
			next = end.Unix()
		} else if end.IsZero() && offAt(to) == last {
			break // open-ended last period
		}
		if o := offAt(next); o != last {
			// the change happens somewhere in (cur, next]: find the first second with the new offset
			lo, hi := cur, next // offAt(lo) == last, offAt(hi) != last
			for hi-lo > 1 {
				mid := lo + (hi-lo)/2
				if offAt(mid) == last {
					lo = mid
				} else {
					hi = mid
				}
			}
			next = hi
			o = offAt(next)
			if next <= to {
				tb.Trans = append(tb.Trans, [2]int64{next, int64(o)})
			}
			last = o
		}
		cur = next
	}
	return tb
}

func (tb Table) Coq() string {
	var l []string
	for _, t := range tb.Trans {
		l = append(l, cq.Tuple(cq.Z(t[0]), cq.Z(t[1])))
	}
	return cq.Tuple(cq.Z(tb.Init), cq.List(l))
}

func (tb Table) OffsetAt(u int64) int64 {
	o := tb.Init
	for _, t := range tb.Trans {
		if u < t[0] {
			break
		}
		o = t[1]
	}
	return o
}

// NoTransIn: no transition instant in (a, b]  (mirror of Tz.no_trans_in)
func (tb Table) NoTransIn(a, b int64) bool {
	for _, t := range tb.Trans {
		if !(t[0] <= a || b < t[0]) {
			return false
		}
	}
	return true
}

// EdgeOK mirrors Tz.edge_okb: offsets within a day and no transition within a day of wall second L.
func (tb Table) EdgeOK(L int64) bool {
	if tb.Init < -86400 || tb.Init > 86400 {
		return false
	}
	for _, t := range tb.Trans {
		if t[1] < -86400 || t[1] > 86400 {
			return false
		}
	}
	return tb.NoTransIn(L-86400, L+86400)
}

// Transitions of loc inside [from,to] as unix seconds (for boundary-heavy generation).
func Transitions(loc *time.Location, from, to int64) []int64 {
	var l []int64
	for _, t := range Dump(loc, from, to).Trans {
		l = append(l, t[0])
	}
	return l
}

// Nanos prints the instant as an exact Z literal expression (seconds*10^9 + nanoseconds).
func Nanos(t time.Time) string {
	return fmt.Sprintf("(%d * 1000000000 + %d)%%Z", t.Unix(), t.Nanosecond())
}
