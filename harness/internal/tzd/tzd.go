// Package tzd: zone handling shared by the time-arithmetic properties (C30, C31).
// Zones are loaded from Go's tzdata; the transition table the Coq model receives is dumped from the
// very *time.Location the real code runs with (Time.ZoneBounds), restricted to a window.
package tzd

import (
	"fmt"
	"strconv"
	"strings"
	"time"
	_ "time/tzdata"

	"verifharness/internal/cq"
)

// Load: IANA name, "UTC", or "fixed:<seconds east>".
func Load(name string) (*time.Location, error) {
	if strings.HasPrefix(name, "fixed:") {
		o, err := strconv.Atoi(name[6:])
		if err != nil {
			return nil, err
		}
		return time.FixedZone(fmt.Sprintf("F%+d", o), o), nil
	}
	return time.LoadLocation(name)
}

type Table struct {
	Init  int64      `json:"init"`
	Trans [][2]int64 `json:"trans"` // (utc second, offset) — only real offset changes
}

// Dump the offset function of loc on [from, to] (unix seconds).
// Time.ZoneBounds is used to jump from period to period; on the last day of a leap year past the
// end of the zone's explicit table Go's rule-based lookup (tzset) returns bounds that do not contain
// the instant (end <= t), so whenever ZoneBounds does not advance we step one day and, if the
// offset changed on the way, bisect for the exact second.
func Dump(loc *time.Location, from, to int64) Table {
	offAt := func(u int64) int {
		_, o := time.Unix(u, 0).In(loc).Zone()
		return o
	}
	cur := from
	last := offAt(cur)
	tb := Table{Init: int64(last)}
	for i := 0; i < 200000 && cur <= to; i++ {
		_, end := time.Unix(cur, 0).In(loc).ZoneBounds()
		next := cur + 86400
		if !end.IsZero() && end.Unix() > cur {
			next = end.Unix()
		} else if end.IsZero() && offAt(to) == last {
			break // open-ended last period
		}
		if o := offAt(next); o != last {
			// the change happens somewhere in (cur, next]: find the first second with the new offset
			lo, hi := cur, next // offAt(lo) == last, offAt(hi) != last
			for hi-lo > 1 {
				mid := lo + (hi-lo)/2
				if offAt(mid) == last {
					lo = mid
				} else {
					hi = mid
				}
			}
			next = hi
			o = offAt(next)
			if next <= to {
				tb.Trans = append(tb.Trans, [2]int64{next, int64(o)})
			}
			last = o
		}
		cur = next
	}
	return tb
}

func (tb Table) Coq() string {
	var l []string
	for _, t := range tb.Trans {
		l = append(l, cq.Tuple(cq.Z(t[0]), cq.Z(t[1])))
	}
	return cq.Tuple(cq.Z(tb.Init), cq.List(l))
}

func (tb Table) OffsetAt(u int64) int64 {
	o := tb.Init
	for _, t := range tb.Trans {
		if u < t[0] {
			break
		}
		o = t[1]
	}
	return o
}

const alpha = -1 << 63
const omega = 1<<63 - 1

// lookup mirrors Tz.lookup: offset in force at u and the bounds [start, end) of its period.
func (tb Table) lookup(u int64) (off, start, end int64) {
	off, start, end = tb.Init, alpha, omega
	for _, t := range tb.Trans {
		if u < t[0] {
			return off, start, t[0]
		}
		off, start = t[1], t[0]
	}
	return off, start, omega
}

// LocalToUTC mirrors Tz.local_to_utc (time.Date's offset search) on the table.
func (tb Table) LocalToUTC(L int64) int64 {
	o, s, e := tb.lookup(L)
	if o == 0 {
		return L
	}
	utc := L - o
	if utc < s || utc >= e {
		o = tb.OffsetAt(utc)
	}
	return L - o
}

// DayOff mirrors Tz.day_off: the offset in force at the instant time.Date gives for local midnight of day D.
func (tb Table) DayOff(D int64) int64 { return tb.OffsetAt(tb.LocalToUTC(D * 86400)) }

// CrossOK mirrors Tz.cross_okb: wall second L is shown exactly once by the local clock, at LocalToUTC(L).
func (tb Table) CrossOK(L int64) bool {
	U := tb.LocalToUTC(L)
	if U+tb.OffsetAt(U) != L {
		return false
	}
	periodOK := func(cur, s, e int64, last bool) bool {
		switch {
		case !last && e <= U:
			return e-1+cur < L
		case U < s:
			return L <= s+cur
		default:
			return U+cur == L
		}
	}
	cur, start := tb.Init, int64(alpha)
	for _, t := range tb.Trans {
		if !periodOK(cur, start, t[0], false) {
			return false
		}
		cur, start = t[1], t[0]
	}
	return periodOK(cur, start, 0, true)
}

// Transitions of loc inside [from,to] as unix seconds (for boundary-heavy generation).
func Transitions(loc *time.Location, from, to int64) []int64 {
	var l []int64
	for _, t := range Dump(loc, from, to).Trans {
		l = append(l, t[0])
	}
	return l
}

// Nanos prints the instant as an exact Z literal expression (seconds*10^9 + nanoseconds).
func Nanos(t time.Time) string {
	return fmt.Sprintf("(%d * 1000000000 + %d)%%Z", t.Unix(), t.Nanosecond())
}
