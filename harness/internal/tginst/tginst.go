// Package tginst wires a real marketstore instance in a temporary root from exported constructors
// (internal/di is not importable), with caller-supplied trigger matchers and replication sender:
// catalog + trigger dispatcher + WAL file (+ optional background SyncWAL goroutine) + Writer +
// QueryService.  Used by C32 (recording triggers) and C25 (recording replication sender, replica).
package tginst

import (
	"context"
	"fmt"
	"os"
	"runtime"
	"runtime/debug"
	"sync"
	"time"

	"github.com/alpacahq/marketstore/v4/catalog"
	"github.com/alpacahq/marketstore/v4/executor"
	"github.com/alpacahq/marketstore/v4/frontend"
	"github.com/alpacahq/marketstore/v4/plugins/trigger"
	"github.com/alpacahq/marketstore/v4/utils"
	"github.com/alpacahq/marketstore/v4/utils/log"
)

func init() {
	os.Setenv("TZ", "UTC")
	time.Local = time.UTC
	utils.InstanceConfig.Timezone = time.UTC
	log.SetLevel(log.FATAL)
}

// RecSender is a ReplicationSender that records (a copy of) every serialized transaction group the
// WAL goroutine hands it after the WAL sync (executor/wal.go:318-320).
type RecSender struct {
	mu  sync.Mutex
	TGs [][]byte
	// Keep: retain the slice exactly as it was handed over, as replication.Sender does (it queues the
	// []byte on a channel and the gRPC stream goroutines read it later); false: copy at Send time.
	Keep bool
}

func (s *RecSender) Run(_ context.Context) {}
func (s *RecSender) Send(tg []byte) {
	c := tg
	if !s.Keep {
		c = append([]byte{}, tg...)
	}
	s.mu.Lock()
	s.TGs = append(s.TGs, c)
	s.mu.Unlock()
}
func (s *RecSender) Reset() {
	s.mu.Lock()
	s.TGs = nil
	s.mu.Unlock()
}
func (s *RecSender) Snapshot() [][]byte {
	s.mu.Lock()
	defer s.mu.Unlock()
	return append([][]byte{}, s.TGs...)
}

type Inst struct {
	Root string
	Cat  *catalog.Directory
	TPD  *executor.TriggerPluginDispatcher
	WAL  *executor.WALFileType
	W    *executor.Writer
	Q    *frontend.QueryService
	wg   sync.WaitGroup
	bg   bool
}

var seq int64

var tune sync.Once

// cleanStale removes instance roots left behind by harness processes that no longer exist (long-lived
// instances are not closed before implrun exits).
func cleanStale(base string) {
	if base == "" {
		base = os.TempDir()
	}
	ents, err := os.ReadDir(base)
	if err != nil {
		return
	}
	for _, e := range ents {
		var pid int
		if n, _ := fmt.Sscanf(e.Name(), "vtg-%d-", &pid); n == 1 && pid != os.Getpid() {
			if _, err := os.Stat(fmt.Sprintf("/proc/%d", pid)); os.IsNotExist(err) {
				os.RemoveAll(base + "/" + e.Name())
			}
		}
	}
}

// TuneGC (optional, for harnesses that create MANY instances in one process): every instance allocates three 1,000,000-slot channels (WriteChannelCommandDepth; ~56 MB that
// are never touched); with the default GC pacing each of them costs a full collection cycle (~1 s per
// instance in this sandbox).  Collect only when the (mostly virtual) heap reaches 6 GB.
func TuneGC() {
	tune.Do(func() {
		debug.SetGCPercent(-1)
		debug.SetMemoryLimit(6 << 30)
	})
}

// New creates an empty instance under a fresh temporary directory (prefers /dev/shm).
// rs may be nil (no replication).
func New(matchers []*trigger.Matcher, rs executor.ReplicationSender) (*Inst, error) {
	base := os.Getenv("VERIF_TMP")
	if base == "" {
		if st, err := os.Stat("/dev/shm"); err == nil && st.IsDir() {
			base = "/dev/shm"
		}
	}
	cleanStale(base)
	root, err := os.MkdirTemp(base, fmt.Sprintf("vtg-%d-", os.Getpid()))
	if err != nil {
		return nil, err
	}
	in := &Inst{Root: root}
	utils.InstanceConfig.Timezone = time.UTC
	utils.InstanceConfig.RootDirectory = root
	in.Cat, err = catalog.NewDirectory(root)
	if err != nil {
		if _, ok := err.(catalog.ErrCategoryFileNotFound); !ok {
			os.RemoveAll(root)
			return nil, fmt.Errorf("catalog: %w", err)
		}
	}
	in.TPD = executor.StartNewTriggerPluginDispatcher(matchers)
	seq++
	// a nil *RecSender must stay an untyped nil interface (wal.go tests ReplicationSender != nil)
	if rs == nil {
		in.WAL, err = executor.NewWALFile(root, time.Now().UnixNano()+seq, nil, false, &in.wg, in.TPD, executor.NewTransactionPipe())
	} else {
		in.WAL, err = executor.NewWALFile(root, time.Now().UnixNano()+seq, rs, false, &in.wg, in.TPD, executor.NewTransactionPipe())
	}
	if err != nil {
		os.RemoveAll(root)
		return nil, fmt.Errorf("wal: %w", err)
	}
	executor.NewInstanceSetup(in.Cat, in.WAL)
	in.W, err = executor.NewWriter(in.Cat, in.WAL)
	if err != nil {
		os.RemoveAll(root)
		return nil, err
	}
	in.Q = frontend.NewQueryService(in.Cat)
	return in, nil
}

// StartBackground starts the WAL goroutine (executor.SyncWAL) exactly as internal/di does, with the
// given WAL refresh period, and waits until it has announced itself (haveWALWriter), so that
// RequestFlush goes through the flush channel.
func (in *Inst) StartBackground(walRefresh time.Duration) {
	in.WAL.IncrementWaitGroup()
	go in.WAL.SyncWAL(walRefresh, time.Hour, 1000)
	for i := 0; !executor.VerifC32HaveWALWriter(); i++ {
		if i > 100 {
			time.Sleep(100 * time.Microsecond)
		} else {
			runtime.Gosched()
		}
	}
	in.bg = true
}

// Quiesce flushes what is queued, waits until the dispatcher channel is drained, shuts the WAL
// goroutine and the dispatcher down through the real Shutdown path and finally waits for every
// launched trigger goroutine (Shutdown itself does not: see notes/C32.md).
func (in *Inst) Quiesce() {
	in.WAL.RequestFlush()
	for i := 0; in.TPD.VerifC32Pending() > 0; i++ {
		if i > 100 {
			time.Sleep(50 * time.Microsecond)
		} else {
			runtime.Gosched()
		}
	}
	in.WAL.Shutdown()
	in.TPD.VerifC32WaitTriggers()
	in.bg = false
}

func (in *Inst) Close() {
	if in.WAL != nil && in.WAL.FilePtr != nil {
		in.WAL.FilePtr.Close()
	}
	os.RemoveAll(in.Root)
}
