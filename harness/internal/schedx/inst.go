// Package schedx wires a real marketstore write path (catalog + WAL file + optional SyncWAL
// goroutine + Writer + QueryService) for the schedule-quantified properties C07/C18, with a
// ReplicationSender that serves as an observation/gate point inside the flusher goroutine:
// FlushCommandsToWAL calls ReplicationSender.Send right after the WAL fsync and before the primary
// writes (executor/wal.go:318-321), so a harness-supplied sender sees every transaction group at
// exactly that point and can hold the flusher there — no edit of tracked files needed.
package schedx

import (
	"context"
	"encoding/binary"
	"fmt"
	"os"
	"path/filepath"
	"strconv"
	"strings"
	"sync"
	"sync/atomic"
	"time"

	"github.com/alpacahq/marketstore/v4/catalog"
	"github.com/alpacahq/marketstore/v4/executor"
	"github.com/alpacahq/marketstore/v4/executor/wal"
	"github.com/alpacahq/marketstore/v4/frontend"
	"github.com/alpacahq/marketstore/v4/utils"
	"github.com/alpacahq/marketstore/v4/utils/io"
	"github.com/alpacahq/marketstore/v4/utils/log"
)

func init() {
	os.Setenv("TZ", "UTC")
	time.Local = time.UTC
	utils.InstanceConfig.Timezone = time.UTC
	log.SetLevel(log.FATAL)
}

// Cmd identifies a write command: writer id and index of the row within the writer's request.
type Cmd [2]int

// BaseEpoch = 2020-01-02 00:00:00 UTC; row i of any writer is at minute i of that day.
const BaseEpoch int64 = 1577923200
const baseIndex = 1441 // io.TimeToIndex of BaseEpoch for 1Min

// Sender is the observation/gate point.
type Sender struct {
	mu      sync.Mutex
	batches [][]Cmd
	seqs    []int64
	Hits    int32
	Parked  int32
	Gated   bool
	gate    chan struct{}
	root    string
	Seq     *int64
	// OnSend, if set, is called with the parsed batch (after recording, before gating).
	OnSend func(b []Cmd)
	// OnSendRaw, if set, is called with the write sets of the TG exactly as the flusher will apply them.
	OnSendRaw func(wts []wal.WTSet)
}

func (s *Sender) Run(_ context.Context) {}

// Send is called by FlushCommandsToWAL in the flusher goroutine after the WAL fsync.
func (s *Sender) Send(tg []byte) {
	_, wts := executor.ParseTGData(tg, s.root)
	b := make([]Cmd, 0, len(wts))
	for _, wt := range wts {
		b = append(b, Cmd{WriterOfPath(wt.FilePath), int(wt.Buffer.Index()) - baseIndex})
	}
	s.mu.Lock()
	s.batches = append(s.batches, b)
	s.seqs = append(s.seqs, atomic.AddInt64(s.Seq, 1))
	s.mu.Unlock()
	if s.OnSend != nil {
		s.OnSend(b)
	}
	if s.OnSendRaw != nil {
		s.OnSendRaw(wts)
	}
	if s.Gated {
		atomic.StoreInt32(&s.Parked, 1)
		atomic.AddInt32(&s.Hits, 1)
		<-s.gate
	} else {
		atomic.AddInt32(&s.Hits, 1)
	}
}

// Release lets the parked flusher continue (primary writes, ack).
func (s *Sender) Release() {
	atomic.StoreInt32(&s.Parked, 0)
	s.gate <- struct{}{}
}

func (s *Sender) IsParked() bool { return atomic.LoadInt32(&s.Parked) == 1 }
func (s *Sender) NHits() int     { return int(atomic.LoadInt32(&s.Hits)) }

// Batches returns a copy of the transaction groups seen so far and their sequence numbers.
func (s *Sender) Batches() ([][]Cmd, []int64) {
	s.mu.Lock()
	defer s.mu.Unlock()
	out := make([][]Cmd, len(s.batches))
	for i, b := range s.batches {
		out[i] = append([]Cmd{}, b...)
	}
	return out, append([]int64{}, s.seqs...)
}

// WriterOfPath extracts n from ".../W<n>/1Min/OHLCV/2020.bin".
func WriterOfPath(p string) int {
	for _, part := range strings.Split(filepath.ToSlash(p), "/") {
		if len(part) > 1 && part[0] == 'W' {
			if n, err := strconv.Atoi(part[1:]); err == nil {
				return n
			}
		}
	}
	return -1
}

type Inst struct {
	Root   string
	Cat    *catalog.Directory
	WAL    *executor.WALFileType
	W      *executor.Writer
	Q      *frontend.QueryService
	S      *Sender
	Seq    int64
	wg     sync.WaitGroup
	loopOn bool
}

var seq int64
var sharedPipe *executor.TransactionPipe
var sharedTPD *executor.TriggerPluginDispatcher

func tmpBase() string {
	base := os.Getenv("VERIF_TMP")
	if base == "" {
		if st, err := os.Stat("/dev/shm"); err == nil && st.IsDir() {
			base = "/dev/shm"
		}
	}
	return base
}

// New creates an empty instance; buckets W0..W(n-1) (1Min, Epoch+Open float32, fixed) are created so
// that a query for a missing row is an empty result rather than an unknown bucket.
func New(nWriters int, gated bool, variable bool) (*Inst, error) {
	types := make([]bool, nWriters)
	for i := range types {
		types[i] = variable
	}
	return NewTypes(types, gated)
}

// NewTypes: bucket Ww is variable-length iff variable[w].
func NewTypes(variable []bool, gated bool) (*Inst, error) {
	nWriters := len(variable)
	root, err := os.MkdirTemp(tmpBase(), "vsx")
	if err != nil {
		return nil, err
	}
	in := &Inst{Root: root}
	utils.InstanceConfig.Timezone = time.UTC
	utils.InstanceConfig.RootDirectory = root
	in.Cat, err = catalog.NewDirectory(root)
	if err != nil {
		if _, ok := err.(catalog.ErrCategoryFileNotFound); !ok {
			os.RemoveAll(root)
			return nil, fmt.Errorf("catalog: %w", err)
		}
	}
	in.S = &Sender{Gated: gated, gate: make(chan struct{}), root: root, Seq: &in.Seq}
	// The transaction pipe (two channels of capacity 1e6) and the trigger dispatcher (another one) are
	// shared by all instances of this process: allocating 56 MB of channel buffers per case dominates
	// the run time otherwise.  Every Close leaves them empty.
	if sharedPipe == nil {
		sharedPipe = executor.NewTransactionPipe()
		sharedTPD = executor.StartNewTriggerPluginDispatcher(nil)
	}
	n := atomic.AddInt64(&seq, 1)
	in.WAL, err = executor.NewWALFile(root, time.Now().UnixNano()+n, in.S, false, &in.wg, sharedTPD, sharedPipe)
	if err != nil {
		os.RemoveAll(root)
		return nil, fmt.Errorf("wal: %w", err)
	}
	executor.NewInstanceSetup(in.Cat, in.WAL)
	in.W, err = executor.NewWriter(in.Cat, in.WAL)
	if err != nil {
		os.RemoveAll(root)
		return nil, err
	}
	in.Q = frontend.NewQueryService(in.Cat)
	for w := 0; w < nWriters; w++ {
		rt := io.FIXED
		if variable[w] {
			rt = io.VARIABLE
		}
		tbk := io.NewTimeBucketKey(Key(w))
		tf, err := tbk.GetTimeFrame()
		if err != nil {
			return nil, err
		}
		dsv := []io.DataShape{{Name: "Epoch", Type: io.INT64}, {Name: "Open", Type: io.FLOAT32}}
		tbi := io.NewTimeBucketInfo(*tf, tbk.GetPathToYearFiles(root), "verif", 2020, dsv, rt)
		if err := in.Cat.AddTimeBucket(tbk, tbi); err != nil {
			return nil, fmt.Errorf("add bucket: %w", err)
		}
	}
	return in, nil
}

func Key(w int) string { return fmt.Sprintf("W%d/1Min/OHLCV", w) }

// StartLoop starts the real SyncWAL goroutine with ticker periods so long that only the token arm
// (and shutdown) ever fires, unless refresh > 0 is given.
func (in *Inst) StartLoop(refresh time.Duration) {
	if refresh <= 0 {
		refresh = 1000 * time.Hour
	}
	in.WAL.IncrementWaitGroup()
	go in.WAL.SyncWAL(refresh, 1000*time.Hour, 1000)
	in.loopOn = true
	for !executor.VerifHGetHave() {
		time.Sleep(20 * time.Microsecond)
	}
}

// CSM builds writer w's request: k rows at minutes 0..k-1.
func CSM(w, k int) io.ColumnSeriesMap {
	ep := make([]int64, k)
	op := make([]float32, k)
	for i := 0; i < k; i++ {
		ep[i] = BaseEpoch + int64(60*i)
		op[i] = float32(1000*w + i + 1)
	}
	cs := io.NewColumnSeries()
	cs.AddColumn("Epoch", ep)
	cs.AddColumn("Open", op)
	csm := io.NewColumnSeriesMap()
	csm.AddColumnSeries(*io.NewTimeBucketKey(Key(w)), cs)
	return csm
}

// Visible runs a real query over writer w's bucket and reports which row indices (minutes) are returned.
func (in *Inst) Visible(w int) (map[int]bool, error) {
	tbk := io.NewTimeBucketKey(Key(w))
	csm, err := in.Q.ExecuteQuery(tbk, time.Unix(BaseEpoch, 0).UTC(), time.Unix(BaseEpoch+86399, 0).UTC(), 0, false, nil)
	out := map[int]bool{}
	if err != nil {
		if strings.Contains(err.Error(), "no files returned") {
			return out, nil
		}
		return out, err
	}
	for _, cs := range csm {
		for _, e := range cs.GetEpoch() {
			out[int((e-BaseEpoch)/60)] = true
		}
	}
	return out, nil
}

// WALGroups parses the WAL FILE ON DISK and returns the commands of every complete TGDATA message.
func (in *Inst) WALGroups() ([][]Cmd, error) {
	b, err := os.ReadFile(in.WAL.FilePtr.Name())
	if err != nil {
		return nil, err
	}
	var out [][]Cmd
	pos := 11 // STATUS message: MID + fileStatus + replayState + owning instance id
	for pos < len(b) {
		mid := b[pos]
		pos++
		switch mid {
		case 0: // TGDATA: len(8) data cksum(16)
			if pos+8 > len(b) {
				return out, nil
			}
			l := int(binary.LittleEndian.Uint64(b[pos:]))
			pos += 8
			if l < 16 || pos+l+16 > len(b) {
				return out, nil
			}
			_, wts := executor.ParseTGData(b[pos:pos+l], in.Root)
			var g []Cmd
			for _, wt := range wts {
				g = append(g, Cmd{WriterOfPath(wt.FilePath), int(wt.Buffer.Index()) - baseIndex})
			}
			out = append(out, g)
			pos += l + 16
		case 1, 2: // TXNINFO / STATUS: 10 bytes
			pos += 10
		default:
			return out, fmt.Errorf("unknown WAL message id %d at %d", mid, pos-1)
		}
	}
	return out, nil
}

// Close shuts the loop down (if running) and removes the instance.
func (in *Inst) Close() {
	if in.loopOn {
		done := make(chan struct{})
		// Shutdown() without finishAndWait (which would close the shared trigger dispatcher)
		executor.VerifHSetShutdownPending(in.WAL, true)
		go func() { in.wg.Wait(); close(done) }()
		// the loop only looks at shutdownPending between select wake-ups: wake it with flush requests
		for i := 0; ; i++ {
			select {
			case <-done:
				i = -1
			case <-time.After(200 * time.Microsecond):
				if in.S.IsParked() {
					in.S.Release()
				} else if executor.VerifHGetHave() {
					if f, ok := takeOrPut(in.WAL); ok {
						go func() { <-f }()
					}
				}
			}
			if i < 0 || i > 50000 {
				break
			}
		}
		in.loopOn = false
	}
	executor.VerifHSetHave(false)
	// answer tokens nobody will answer any more, so that no writer goroutine (and with it the
	// instance's 56 MB of channel buffers) is leaked
	for {
		f, ok := executor.VerifHTakeToken(in.WAL)
		if !ok {
			break
		}
		select {
		case f <- struct{}{}:
		case <-time.After(100 * time.Millisecond):
		}
	}
	if in.WAL != nil && in.WAL.FilePtr != nil {
		in.WAL.FilePtr.Close()
	}
	os.RemoveAll(in.Root)
}

func takeOrPut(wf *executor.WALFileType) (chan struct{}, bool) {
	if executor.VerifHFlushLen(wf) > 0 {
		return nil, false
	}
	return executor.VerifHPutToken(wf), true
}

// CSMVar builds a variable-length request for bucket w: one record per id at minute `slot`, second = id
// (so the on-disk sort order by interval ticks is the order of the ids), Open = id.
func CSMVar(w, slot int, ids []int) io.ColumnSeriesMap {
	ep := make([]int64, len(ids))
	op := make([]float32, len(ids))
	for i, id := range ids {
		ep[i] = BaseEpoch + int64(60*slot) + int64(id%60)
		op[i] = float32(id)
	}
	cs := io.NewColumnSeries()
	cs.AddColumn("Epoch", ep)
	cs.AddColumn("Open", op)
	csm := io.NewColumnSeriesMap()
	csm.AddColumnSeries(*io.NewTimeBucketKey(Key(w)), cs)
	return csm
}

// QuerySlot runs a real query over minute `slot` of bucket w and returns the Open values in result order.
func (in *Inst) QuerySlot(w, slot int) ([]int, error) {
	tbk := io.NewTimeBucketKey(Key(w))
	st := BaseEpoch + int64(60*slot)
	csm, err := in.Q.ExecuteQuery(tbk, time.Unix(st, 0).UTC(), time.Unix(st+59, 0).UTC(), 0, false, nil)
	if err != nil {
		if strings.Contains(err.Error(), "no files returned") {
			return nil, nil
		}
		return nil, err
	}
	var out []int
	for _, cs := range csm {
		if col, ok := cs.GetColumn("Open").([]float32); ok {
			for _, v := range col {
				out = append(out, int(v))
			}
		}
	}
	return out, nil
}

// BucketFile is the path of bucket w's 2020 year file.
func (in *Inst) BucketFile(w int) string {
	return filepath.Join(in.Root, fmt.Sprintf("W%d", w), "1Min", "OHLCV", "2020.bin")
}

// CSMAt builds a one-row request for the fixed bucket w: minute `slot`, Open = v.
func CSMAt(w, slot, v int) io.ColumnSeriesMap {
	cs := io.NewColumnSeries()
	cs.AddColumn("Epoch", []int64{BaseEpoch + int64(60*slot)})
	cs.AddColumn("Open", []float32{float32(v)})
	csm := io.NewColumnSeriesMap()
	csm.AddColumnSeries(*io.NewTimeBucketKey(Key(w)), cs)
	return csm
}

// QueryAll queries minutes 0..n-1 of bucket w in one request and returns Open per minute (-1: no row).
func (in *Inst) QueryAll(w, n int) ([]int, error) {
	out := make([]int, n)
	for i := range out {
		out[i] = -1
	}
	tbk := io.NewTimeBucketKey(Key(w))
	csm, err := in.Q.ExecuteQuery(tbk, time.Unix(BaseEpoch, 0).UTC(), time.Unix(BaseEpoch+int64(60*n)-1, 0).UTC(), 0, false, nil)
	if err != nil {
		if strings.Contains(err.Error(), "no files returned") {
			return out, nil
		}
		return out, err
	}
	for _, cs := range csm {
		ep := cs.GetEpoch()
		col, _ := cs.GetColumn("Open").([]float32)
		for i, e := range ep {
			s := int((e - BaseEpoch) / 60)
			if s >= 0 && s < n && i < len(col) {
				out[s] = int(col[i])
			}
		}
	}
	return out, nil
}

// CSMYear builds a one-row request for bucket w on Jan 2nd of the given year (a year the bucket has no
// file for makes the writer roll the bucket over: GetSubDirectoryAndAddFile -> AddFile).
func CSMYear(w, year int) io.ColumnSeriesMap {
	t := time.Date(year, time.January, 2, 0, 0, 0, 0, time.UTC)
	cs := io.NewColumnSeries()
	cs.AddColumn("Epoch", []int64{t.Unix()})
	cs.AddColumn("Open", []float32{float32(year)})
	csm := io.NewColumnSeriesMap()
	csm.AddColumnSeries(*io.NewTimeBucketKey(Key(w)), cs)
	return csm
}

// QueryYears queries bucket w over [from, to] (whole years) and returns the number of rows.
func (in *Inst) QueryYears(w, from, to int) (int, error) {
	tbk := io.NewTimeBucketKey(Key(w))
	csm, err := in.Q.ExecuteQuery(tbk, time.Date(from, 1, 1, 0, 0, 0, 0, time.UTC), time.Date(to, 12, 31, 23, 59, 59, 0, time.UTC), 0, false, nil)
	if err != nil {
		if strings.Contains(err.Error(), "no files returned") {
			return 0, nil
		}
		return 0, err
	}
	n := 0
	for _, cs := range csm {
		n += len(cs.GetEpoch())
	}
	return n, nil
}

// EnqueueOnly performs the FIRST half of Writer.WriteCSM for writer w's request of k rows — everything up
// to and including Writer.WriteRecords (one QueueWriteCommand per row) — and does not call RequestFlush.
// The second half is WAL.RequestFlush().  Used to schedule other goroutines between the two halves.
func (in *Inst) EnqueueOnly(w, k int) error {
	for tbk, cs := range CSM(w, k) {
		tbk := tbk
		times, err := cs.GetTime()
		if err != nil {
			return err
		}
		tbi, err := in.Cat.GetLatestTimeBucketInfoFromKey(&tbk)
		if err != nil {
			return err
		}
		dsv := tbi.GetDataShapesWithEpoch()
		rowData, _, err := io.SerializeColumnsToRows(cs, dsv, false)
		if err != nil {
			return err
		}
		if err := in.W.WriteRecords(times, rowData, dsv, tbi); err != nil {
			return err
		}
	}
	return nil
}
