// Package aggx: a real marketstore instance on a temporary root with the real on-disk aggregation trigger
// registered through a trigger.Matcher on a real TriggerPluginDispatcher (C24).
package aggx

import (
	"fmt"
	"os"
	"path/filepath"
	"sync"
	"time"

	"go.uber.org/zap"

	"github.com/alpacahq/marketstore/v4/catalog"
	"github.com/alpacahq/marketstore/v4/contrib/ondiskagg/aggtrigger"
	"github.com/alpacahq/marketstore/v4/executor"
	"github.com/alpacahq/marketstore/v4/planner"
	"github.com/alpacahq/marketstore/v4/plugins/trigger"
	"github.com/alpacahq/marketstore/v4/utils"
	"github.com/alpacahq/marketstore/v4/utils/io"
)

// counting wraps the real trigger: Fire is the real Fire; afterwards the harness learns that it returned.
//
// The gate: TriggerPluginDispatcher.DispatchRecords (executor/written.go:62) sends the records to the dispatcher
// goroutine and only afterwards resets its map, without synchronisation; a trigger that itself writes (this one does,
// through executor.WriteCSM) can reach its own nested DispatchRecords first and re-dispatch the same base records:
// a second, concurrent Fire (observed under load: nondeterministic results).  That is a defect of the dispatcher
// (C32's subject); to keep C24's runs deterministic the real Fire starts only after the writer's WriteCSM returned.
type counting struct {
	inner trigger.Trigger
	done  chan string
	gate  chan struct{}
}

func (c *counting) Fire(keyPath string, records []trigger.Record) {
	<-c.gate
	defer func() {
		msg := ""
		if p := recover(); p != nil {
			msg = fmt.Sprint(p)
		}
		c.done <- msg
	}()
	c.inner.Fire(keyPath, records)
}

type Inst struct {
	Root string
	Cat  *catalog.Directory
	wg   sync.WaitGroup
	trig *counting
	Extra int // Fire calls beyond the expected number
}

// New builds the instance: catalog, WAL file (no background writer: WriteCSM flushes synchronously and
// dispatches the written records to the trigger dispatcher), the trigger registered on `on`.
func New(dests []string, on string) (*Inst, error) {
	zap.ReplaceGlobals(zap.NewNop())
	base := ""
	if fi, e := os.Stat("/dev/shm"); e == nil && fi.IsDir() {
		base = "/dev/shm"
	}
	dir, err := os.MkdirTemp(base, "vagg")
	if err != nil {
		return nil, err
	}
	in := &Inst{Root: filepath.Join(dir, "mktsdb")}
	if err = os.MkdirAll(in.Root, 0o755); err != nil {
		return nil, err
	}
	utils.InstanceConfig.Timezone = time.UTC
	utils.InstanceConfig.RootDirectory = in.Root
	ds := make([]interface{}, len(dests))
	for i, d := range dests {
		ds[i] = d
	}
	trig, err := aggtrigger.NewTrigger(map[string]interface{}{"destinations": ds})
	if err != nil {
		return nil, fmt.Errorf("NewTrigger: %w", err)
	}
	in.trig = &counting{inner: trig, done: make(chan string, 64), gate: make(chan struct{}, 64)}
	tpd := executor.StartNewTriggerPluginDispatcher([]*trigger.Matcher{trigger.NewMatcher(in.trig, on)})
	cat, err := catalog.NewDirectory(in.Root)
	if err != nil {
		if _, ok := err.(catalog.ErrCategoryFileNotFound); !ok {
			return nil, fmt.Errorf("NewDirectory: %w", err)
		}
	}
	wf, err := executor.NewWALFile(in.Root, time.Now().UnixNano(), nil, false, &in.wg, tpd, executor.NewTransactionPipe())
	if err != nil {
		return nil, err
	}
	executor.NewInstanceSetup(cat, wf)
	in.Cat = cat
	return in, nil
}

func (in *Inst) Close() {
	if executor.ThisInstance != nil && executor.ThisInstance.WALFile != nil && executor.ThisInstance.WALFile.FilePtr != nil {
		executor.ThisInstance.WALFile.FilePtr.Close()
	}
	os.RemoveAll(filepath.Dir(in.Root))
}

// Write writes one column series to the bucket through executor.WriteCSM and waits until the trigger has
// returned from `fires` Fire calls (quiescence: the destination writes happen inside Fire, synchronously).
func (in *Inst) Write(key string, cs *io.ColumnSeries, fires int) (panics []string, err error) {
	tbk := io.NewTimeBucketKey(key)
	csm := io.NewColumnSeriesMap()
	csm.AddColumnSeries(*tbk, cs)
	if err = executor.WriteCSM(csm, false); err != nil {
		return nil, err
	}
	for i := 0; i < fires; i++ {
		in.trig.gate <- struct{}{}
	}
	for i := 0; i < fires; i++ {
		select {
		case msg := <-in.trig.done:
			if msg != "" {
				panics = append(panics, msg)
			}
		case <-time.After(20 * time.Second):
			return panics, fmt.Errorf("trigger did not fire within 20 s")
		}
	}
	// with the gate no further Fire can be pending; count one if it shows up all the same
	select {
	case msg := <-in.trig.done:
		in.Extra++
		if msg != "" {
			panics = append(panics, msg)
		}
	case <-time.After(time.Millisecond):
	}
	return panics, nil
}

// ReadAll returns the content of a bucket between two Unix times (nil when the bucket does not exist).
func (in *Inst) ReadAll(key string, from, to int64) (*io.ColumnSeries, error) {
	tbk := io.NewTimeBucketKey(key)
	q := planner.NewQuery(in.Cat)
	q.AddTargetKey(tbk)
	q.SetRange(time.Unix(from, 0).UTC(), time.Unix(to, 0).UTC())
	parsed, err := q.Parse()
	if err != nil {
		return nil, nil // bucket absent
	}
	rd, err := executor.NewReader(parsed)
	if err != nil {
		return nil, err
	}
	csm, err := rd.Read()
	if err != nil {
		return nil, err
	}
	return csm[*tbk], nil
}
