// Package catinst wires a real marketstore instance (catalog + WAL + writer + data service) in a
// sandbox directory from exported constructors, and takes snapshots of the sandbox.
// Shared by the C16 / C17 / C14 harness files.
package catinst

import (
	"fmt"
	"net/http"
	"os"
	"path/filepath"
	"sort"
	"strings"
	"sync"
	"syscall"
	"time"

	"go.uber.org/zap"
	"go.uber.org/zap/zapcore"

	"github.com/alpacahq/marketstore/v4/catalog"
	"github.com/alpacahq/marketstore/v4/executor"
	"github.com/alpacahq/marketstore/v4/frontend"
	"github.com/alpacahq/marketstore/v4/utils"
	"github.com/alpacahq/marketstore/v4/utils/io"
)

// ModelRoot is the data root as the Coq model sees it: the sandbox directory is the model's "/".
// The root is nested four levels deep so that a bounded number of ".." components stays inside the
// sandbox (the generators never emit more than three per key).
const ModelRoot = "/a/b/c/r"

type Inst struct {
	R    string // sandbox directory (model "/")
	Root string // R + ModelRoot
	Cat  *catalog.Directory
	WF   *executor.WALFileType
	W    *executor.Writer
	QS   *frontend.QueryService
	DS   *frontend.DataService
	wg   sync.WaitGroup
}

// Quiet replaces marketstore's global zap logger by a silent one whose Fatal panics instead of
// exiting the process (log.Fatal in TimeBucketInfo.initFromFile would otherwise kill the harness).
func Quiet() { zap.ReplaceGlobals(zap.New(fatalPanicCore{})) }

type fatalPanicCore struct{}

func (fatalPanicCore) Enabled(l zapcore.Level) bool        { return l >= zapcore.FatalLevel }
func (c fatalPanicCore) With([]zapcore.Field) zapcore.Core { return c }
func (c fatalPanicCore) Check(e zapcore.Entry, ce *zapcore.CheckedEntry) *zapcore.CheckedEntry {
	if c.Enabled(e.Level) {
		return ce.AddCore(e, c)
	}
	return ce
}
func (fatalPanicCore) Write(e zapcore.Entry, _ []zapcore.Field) error {
	if e.Level >= zapcore.FatalLevel {
		panic("log.Fatal: " + e.Message)
	}
	return nil
}
func (fatalPanicCore) Sync() error { return nil }

var (
	tpdOnce sync.Once
	tpd     *executor.TriggerPluginDispatcher
)

// New creates a sandbox with an empty data root and a fresh instance on it.
func New() (*Inst, error) {
	base := os.Getenv("VERIF_SANDBOX_BASE") // default: tmpfs when available (sparse year files, free fsync)
	if base == "" {
		if fi, e := os.Stat("/dev/shm"); e == nil && fi.IsDir() {
			base = "/dev/shm"
		}
	}
	R, err := os.MkdirTemp(base, "vsb")
	if err != nil {
		return nil, err
	}
	in := &Inst{R: R, Root: filepath.Join(R, ModelRoot)}
	if err = os.MkdirAll(in.Root, 0o755); err != nil {
		return nil, err
	}
	if err = in.Start(); err != nil {
		return nil, err
	}
	return in, nil
}

// Start builds catalog, WAL, writer and services on the existing root ("restart" when called again).
func (in *Inst) Start() error {
	Quiet()
	utils.InstanceConfig.Timezone = time.UTC
	utils.InstanceConfig.RootDirectory = in.Root
	tpdOnce.Do(func() { tpd = executor.StartNewTriggerPluginDispatcher(nil) })
	cat, err := catalog.NewDirectory(in.Root)
	if err != nil {
		if _, ok := err.(catalog.ErrCategoryFileNotFound); !ok { // an empty root is the normal first start
			return fmt.Errorf("NewDirectory: %w", err)
		}
	}
	wf, err := executor.NewWALFile(in.Root, time.Now().UnixNano(), nil, false, &in.wg, tpd, executor.VerifNewTransactionPipe(4096))
	if err != nil {
		return err
	}
	executor.NewInstanceSetup(cat, wf)
	w, err := executor.NewWriter(cat, wf)
	if err != nil {
		return err
	}
	in.Cat, in.WF, in.W = cat, wf, w
	in.QS = frontend.NewQueryService(cat)
	in.DS = frontend.NewDataService(in.Root, cat, nil, w, in.QS)
	return nil
}

func (in *Inst) Close() {
	if in.WF != nil && in.WF.FilePtr != nil {
		in.WF.FilePtr.Close()
	}
	os.RemoveAll(in.R)
}

// Code: 0 ok, 1 error, 2 panic.
func guard(f func() error) (code int, msg string) {
	defer func() {
		if p := recover(); p != nil {
			code, msg = 2, fmt.Sprint(p)
		}
	}()
	if err := f(); err != nil {
		return 1, err.Error()
	}
	return 0, ""
}

// Create goes through DataService.Create (frontend/write.go); the year used is time.Now().Year().
func (in *Inst) Create(key string, names, types []string) (code int, msg string, year int) {
	year = time.Now().Year()
	code, msg = guard(func() error {
		var resp frontend.MultiServerResponse
		req := frontend.MultiCreateRequest{Requests: []frontend.CreateRequest{{Key: key, ColumnNames: names, ColumnTypes: types}}}
		if err := in.DS.Create(&http.Request{}, &req, &resp); err != nil {
			return err
		}
		if len(resp.Responses) > 0 && resp.Responses[0].Error != "" {
			return fmt.Errorf("%s", resp.Responses[0].Error)
		}
		return nil
	})
	return
}

func (in *Inst) Destroy(key string) (code int, msg string) {
	return guard(func() error {
		var resp frontend.MultiServerResponse
		req := frontend.MultiKeyRequest{Requests: []frontend.KeyRequest{{Key: key}}}
		if err := in.DS.Destroy(&http.Request{}, &req, &resp); err != nil {
			return err
		}
		if len(resp.Responses) > 0 && resp.Responses[0].Error != "" {
			return fmt.Errorf("%s", resp.Responses[0].Error)
		}
		return nil
	})
}

// WriteCSM goes through Writer.WriteCSM with the key parsed as NumpyMultiDataset.ToColumnSeriesMap does.
func (in *Inst) WriteCSM(csm io.ColumnSeriesMap, variable bool) (code int, msg string) {
	return guard(func() error { return in.W.WriteCSM(csm, variable) })
}

func (in *Inst) Query(key string) (code int, msg string, rows int) {
	code, msg = guard(func() error {
		var resp frontend.MultiQueryResponse
		req := frontend.MultiQueryRequest{Requests: []frontend.QueryRequest{{Destination: key}}}
		if err := in.DS.Query(&http.Request{}, &req, &resp); err != nil {
			return err
		}
		for _, r := range resp.Responses {
			if r.Result != nil {
				for _, l := range r.Result.Lengths {
					rows += l
				}
			}
		}
		return nil
	})
	return
}

// TimeframeOK mirrors the call the code makes on the key: tbk.GetTimeFrame() == nil error.
func TimeframeOK(tbk *io.TimeBucketKey) (ok bool) {
	defer func() {
		if recover() != nil {
			ok = false
		}
	}()
	_, err := tbk.GetTimeFrame()
	return err == nil
}

// Entry is one path of the sandbox, relative to it with a leading "/".
type Entry struct {
	Rel     string `json:"rel"`
	Dir     bool   `json:"dir"`
	Size    int64  `json:"size"`
	Mtime   int64  `json:"mtime"`
	Ino     uint64 `json:"ino"`
	Content []byte `json:"content,omitempty"` // small non-.bin files only
}

// IsWAL: the instance's own WAL file, "WALFile.<nanos>.walfile" directly in the root.
func IsWAL(rel string) bool {
	b := filepath.Base(rel)
	return filepath.Dir(rel) == ModelRoot && strings.HasPrefix(b, "WALFile.") && strings.HasSuffix(b, ".walfile") &&
		strings.Trim(b[len("WALFile."):len(b)-len(".walfile")], "0123456789") == ""
}

// Snapshot walks the sandbox depth first, names sorted (the order of the model's fs_list); WAL files are skipped.
func (in *Inst) Snapshot() []Entry {
	var out []Entry
	var walk func(abs, rel string)
	walk = func(abs, rel string) {
		fi, err := os.Lstat(abs)
		if err != nil {
			return
		}
		e := Entry{Rel: rel, Dir: fi.IsDir(), Size: fi.Size(), Mtime: fi.ModTime().UnixNano()}
		if st, ok := fi.Sys().(*syscall.Stat_t); ok {
			e.Ino = st.Ino
		}
		if !fi.IsDir() && !strings.HasSuffix(rel, ".bin") && fi.Size() <= 256 {
			e.Content, _ = os.ReadFile(abs)
		}
		out = append(out, e)
		if fi.IsDir() {
			des, _ := os.ReadDir(abs)
			names := make([]string, 0, len(des))
			for _, d := range des {
				names = append(names, d.Name())
			}
			sort.Strings(names)
			for _, n := range names {
				if fi2, e := os.Lstat(abs + "/" + n); e == nil && !fi2.IsDir() && IsWAL(rel+"/"+n) {
					continue
				}
				walk(abs+"/"+n, rel+"/"+n)
			}
		}
	}
	walk(in.R, "")
	return out
}

// Outside reports whether rel (sandbox-relative, leading "/") is neither the root nor below it.
func Outside(rel string) bool {
	return rel != ModelRoot && !strings.HasPrefix(rel, ModelRoot+"/")
}

// DiffOutside lists what changed outside the data root between two snapshots. Ancestors of the root
// are compared by existence only when nothing else changed in them (their mtime changes only if an
// entry is added/removed directly in them, which is itself reported).
func DiffOutside(before, after []Entry) []string {
	bm := map[string]Entry{}
	for _, e := range before {
		if Outside(e.Rel) {
			bm[e.Rel] = e
		}
	}
	var d []string
	seen := map[string]bool{}
	for _, e := range after {
		if !Outside(e.Rel) {
			continue
		}
		seen[e.Rel] = true
		o, ok := bm[e.Rel]
		switch {
		case !ok:
			d = append(d, "created "+e.Rel)
		case o.Dir != e.Dir || o.Ino != e.Ino:
			d = append(d, "replaced "+e.Rel)
		case !e.Dir && (o.Size != e.Size || o.Mtime != e.Mtime || string(o.Content) != string(e.Content)):
			d = append(d, "modified "+e.Rel)
		}
	}
	for rel := range bm {
		if !seen[rel] {
			d = append(d, "deleted "+rel)
		}
	}
	sort.Strings(d)
	return d
}

// CatFiles lists every datafile the in-memory catalog knows: sandbox-relative path and year.
type CatFile struct {
	Path string `json:"path"`
	Year int    `json:"year"`
}

func (in *Inst) CatFilesOf(d *catalog.Directory) []CatFile {
	var out []CatFile
	l, err := d.GatherTimeBucketInfo()
	if err != nil {
		return nil
	}
	for _, fi := range l {
		out = append(out, CatFile{strings.TrimPrefix(fi.Path, in.R), int(fi.Year)})
	}
	sort.Slice(out, func(i, j int) bool {
		if out[i].Path != out[j].Path {
			return out[i].Path < out[j].Path
		}
		return out[i].Year < out[j].Year
	})
	return out
}

func TBKs(d *catalog.Directory) []string {
	l := catalog.ListTimeBucketKeyNames(d)
	sort.Strings(l)
	return l
}
