// Package sqlinst wires one real marketstore instance per process in a temporary root (exported
// constructors only: catalog + WAL file + writer, executor.ThisInstance set for executor.WriteCSM) and
// runs SQL statements through the real pipeline BuildQueryTree -> NewExecutableStatement -> Materialize.
// Used by the SQL properties C19 and C20.
package sqlinst

import (
	"fmt"
	"os"
	"sync"
	"time"

	"github.com/alpacahq/marketstore/v4/catalog"
	"github.com/alpacahq/marketstore/v4/executor"
	"github.com/alpacahq/marketstore/v4/sqlparser"
	"github.com/alpacahq/marketstore/v4/utils"
	"github.com/alpacahq/marketstore/v4/utils/io"
	"github.com/alpacahq/marketstore/v4/utils/log"
)

type Inst struct {
	Root string
	Cat  *catalog.Directory
	WAL  *executor.WALFileType
	W    *executor.Writer
	Agg  *sqlparser.AggRunner
	wg   sync.WaitGroup
	seq  int
}

func init() {
	os.Setenv("TZ", "UTC")
	time.Local = time.UTC
	utils.InstanceConfig.Timezone = time.UTC
	log.SetLevel(log.FATAL)
}

var (
	mu   sync.Mutex
	inst *Inst
)

// Get returns the process-wide instance (created on first use under /dev/shm or $VERIF_TMP).
// The root is recycled after maxBuckets buckets so that sparse year files do not pile up.
func Get() (*Inst, error) {
	mu.Lock()
	defer mu.Unlock()
	if inst != nil && inst.seq < 200 {
		return inst, nil
	}
	if inst != nil {
		os.RemoveAll(inst.Root)
		inst = nil
	}
	base := os.Getenv("VERIF_TMP")
	if base == "" {
		if st, err := os.Stat("/dev/shm"); err == nil && st.IsDir() {
			base = "/dev/shm"
		}
	}
	// stale roots of killed runs (older than an hour)
	if ents, err := os.ReadDir(orTmp(base)); err == nil {
		for _, e := range ents {
			if len(e.Name()) > 4 && e.Name()[:4] == "vsql" {
				if fi, err := e.Info(); err == nil && time.Since(fi.ModTime()) > time.Hour {
					os.RemoveAll(orTmp(base) + "/" + e.Name())
				}
			}
		}
	}
	root, err := os.MkdirTemp(base, "vsql")
	if err != nil {
		return nil, err
	}
	in := &Inst{Root: root}
	utils.InstanceConfig.Timezone = time.UTC
	utils.InstanceConfig.RootDirectory = root
	in.Cat, err = catalog.NewDirectory(root)
	if err != nil {
		if _, ok := err.(catalog.ErrCategoryFileNotFound); !ok {
			os.RemoveAll(root)
			return nil, fmt.Errorf("catalog: %w", err)
		}
	}
	tpd := executor.StartNewTriggerPluginDispatcher(nil)
	in.WAL, err = executor.NewWALFile(root, time.Now().UnixNano(), nil, false, &in.wg, tpd, executor.NewTransactionPipe())
	if err != nil {
		os.RemoveAll(root)
		return nil, fmt.Errorf("wal: %w", err)
	}
	executor.NewInstanceSetup(in.Cat, in.WAL)
	in.W, err = executor.NewWriter(in.Cat, in.WAL)
	if err != nil {
		os.RemoveAll(root)
		return nil, err
	}
	in.Agg = sqlparser.NewDefaultAggRunner(in.Cat)
	inst = in
	return in, nil
}

func orTmp(b string) string {
	if b == "" {
		return os.TempDir()
	}
	return b
}

// Cleanup removes the instance's root (called by the property runners after their last case is not
// possible — implrun has no teardown — so every runner removes the buckets it created instead).
func (in *Inst) RemoveBucket(symbol string) {
	os.RemoveAll(in.Root + "/" + symbol)
}

// NewSymbol returns a fresh symbol name.
func (in *Inst) NewSymbol(prefix string) string {
	mu.Lock()
	defer mu.Unlock()
	in.seq++
	return fmt.Sprintf("%s%d", prefix, in.seq)
}

// Write writes a column series into key (fixed-length records) and flushes it to the primary files.
func (in *Inst) Write(key string, cs *io.ColumnSeries) error {
	tbk := io.NewTimeBucketKey(key)
	csm := io.NewColumnSeriesMap()
	csm.AddColumnSeries(*tbk, cs)
	if err := in.W.WriteCSM(csm, false); err != nil {
		return err
	}
	return in.Flush()
}

// Flush writes the queued transaction group to the WAL and to the primary files (FlushToWAL does both).
// CreateCheckpoint is NOT called: it only adds a global sync(2) and the checkpoint record, neither of
// which a query in the same process observes.
func (in *Inst) Flush() error {
	return in.WAL.FlushToWAL()
}

// SQLResult of one statement through the real pipeline.
type SQLResult struct {
	Code  int // 0 ok, 1 error, 2 panic
	Err   string
	CS    *io.ColumnSeries
	Preds []sqlparser.VerifStaticPredicate
	SR    *sqlparser.SelectRelation
}

// RunSQL: BuildQueryTree -> NewExecutableStatement -> Materialize, panics recovered.
func (in *Inst) RunSQL(stmt string) (res SQLResult) {
	defer func() {
		if p := recover(); p != nil {
			res.Code, res.Err = 2, fmt.Sprint(p)
		}
	}()
	tree, err := sqlparser.BuildQueryTree(stmt)
	if err != nil {
		return SQLResult{Code: 1, Err: "parse: " + err.Error()}
	}
	es, err := sqlparser.NewExecutableStatement(tree)
	if err != nil {
		return SQLResult{Code: 1, Err: "visit: " + err.Error()}
	}
	res.Preds = sqlparser.VerifStaticPredicates(es)
	res.SR = sqlparser.VerifSelectRelation(es)
	cs, err := es.Materialize(in.Agg, in.Cat)
	if err != nil {
		res.Code, res.Err = 1, "materialize: "+err.Error()
		return res
	}
	res.CS = cs
	return res
}
