// Package rng: the single PRNG every random choice of the harness derives from (splitmix64).
package rng

type Rand struct{ s uint64 }

func New(seed uint64) *Rand { return &Rand{s: seed} }

func (r *Rand) U64() uint64 {
	r.s += 0x9e3779b97f4a7c15
	z := r.s
	z = (z ^ (z >> 30)) * 0xbf58476d1ce4e5b9
	z = (z ^ (z >> 27)) * 0x94d049bb133111eb
	return z ^ (z >> 31)
}

// Fork derives an independent stream (used per case so that case i is replayable alone).
func (r *Rand) Fork(i uint64) *Rand { return New(r.s ^ (i+1)*0xd6e8feb86659fd93) }

func (r *Rand) Intn(n int) int {
	if n <= 0 {
		return 0
	}
	return int(r.U64() % uint64(n))
}
func (r *Rand) I64() int64       { return int64(r.U64()) }
func (r *Rand) Bool() bool        { return r.U64()&1 == 1 }
func (r *Rand) Chance(p int) bool { return r.Intn(100) < p } // p percent
func (r *Rand) Range(lo, hi int64) int64 {
	if hi <= lo {
		return lo
	}
	return lo + int64(r.U64()%uint64(hi-lo+1))
}
func (r *Rand) Bytes(n int) []byte {
	b := make([]byte, n)
	for i := range b {
		b[i] = byte(r.U64())
	}
	return b
}
func (r *Rand) Pick(n int) int { return r.Intn(n) }
