// Package mk builds marketstore values (typed column slices, column series) from raw bytes and
// projects them back to raw bytes; shared by the per-property harness files.
package mk

import (
	"encoding/binary"
	"fmt"
	"math"

	"github.com/alpacahq/marketstore/v4/utils/io"
)

// TypeNames the generator draws from (all fixed-width element types).
var TypeNames = []string{"float32", "float64", "int16", "int32", "int64", "uint8", "uint16", "uint32", "uint64", "string16", "bool", "byte"}

func SizeOf(typ string) int {
	switch typ {
	case "uint8", "bool", "byte":
		return 1
	case "int16", "uint16":
		return 2
	case "float32", "int32", "uint32":
		return 4
	case "float64", "int64", "uint64":
		return 8
	case "string16":
		return 64
	}
	return 0
}

// Col builds the typed Go slice holding the little-endian values in raw (len(raw) must be a multiple
// of the element size; a trailing partial element is dropped).
func Col(typ string, raw []byte) (interface{}, error) {
	sz := SizeOf(typ)
	if sz == 0 {
		return nil, fmt.Errorf("unknown type %q", typ)
	}
	n := len(raw) / sz
	switch typ {
	case "float32":
		c := make([]float32, n)
		for i := range c {
			c[i] = math.Float32frombits(binary.LittleEndian.Uint32(raw[i*4:]))
		}
		return c, nil
	case "float64":
		c := make([]float64, n)
		for i := range c {
			c[i] = math.Float64frombits(binary.LittleEndian.Uint64(raw[i*8:]))
		}
		return c, nil
	case "int16":
		c := make([]int16, n)
		for i := range c {
			c[i] = int16(binary.LittleEndian.Uint16(raw[i*2:]))
		}
		return c, nil
	case "int32":
		c := make([]int32, n)
		for i := range c {
			c[i] = int32(binary.LittleEndian.Uint32(raw[i*4:]))
		}
		return c, nil
	case "int64":
		c := make([]int64, n)
		for i := range c {
			c[i] = int64(binary.LittleEndian.Uint64(raw[i*8:]))
		}
		return c, nil
	case "uint8":
		c := make([]uint8, n)
		copy(c, raw)
		return c, nil
	case "uint16":
		c := make([]uint16, n)
		for i := range c {
			c[i] = binary.LittleEndian.Uint16(raw[i*2:])
		}
		return c, nil
	case "uint32":
		c := make([]uint32, n)
		for i := range c {
			c[i] = binary.LittleEndian.Uint32(raw[i*4:])
		}
		return c, nil
	case "uint64":
		c := make([]uint64, n)
		for i := range c {
			c[i] = binary.LittleEndian.Uint64(raw[i*8:])
		}
		return c, nil
	case "string16":
		c := make([][16]rune, n)
		for i := range c {
			for j := 0; j < 16; j++ {
				c[i][j] = rune(int32(binary.LittleEndian.Uint32(raw[i*64+j*4:])))
			}
		}
		return c, nil
	case "bool":
		c := make([]bool, n)
		for i := range c {
			c[i] = raw[i]&1 == 1
		}
		return c, nil
	case "byte":
		c := make([]int8, n)
		for i := range c {
			c[i] = int8(raw[i])
		}
		return c, nil
	}
	return nil, fmt.Errorf("unknown type %q", typ)
}

// Raw returns the in-memory little-endian bytes of a typed column slice (a copy), nil for nil.
func Raw(col interface{}) []byte {
	if col == nil {
		return nil
	}
	b, ok := io.SwapSliceData(col, byte(0)).([]byte)
	if !ok {
		return nil
	}
	out := make([]byte, len(b))
	copy(out, b)
	return out
}
