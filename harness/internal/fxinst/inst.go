// Package fxinst wires a real marketstore instance in a temporary root from exported constructors
// (internal/di is not importable): catalog + WAL file (no background SyncWAL goroutine, so
// Writer.WriteCSM -> RequestFlush flushes synchronously) + Writer + QueryService.
// Used by the storage/query properties C08, C12, C13.
package fxinst

import (
	"fmt"
	"os"
	"sync"
	"time"

	"github.com/alpacahq/marketstore/v4/catalog"
	"github.com/alpacahq/marketstore/v4/executor"
	"github.com/alpacahq/marketstore/v4/frontend"
	"github.com/alpacahq/marketstore/v4/utils"
	"github.com/alpacahq/marketstore/v4/utils/io"
	"github.com/alpacahq/marketstore/v4/utils/log"

	"verifharness/internal/mk"
)

type Inst struct {
	Root string
	Cat  *catalog.Directory
	WAL  *executor.WALFileType
	W    *executor.Writer
	Q    *frontend.QueryService
	wg   sync.WaitGroup
}

func init() {
	// the whole harness runs in UTC: utils.InstanceConfig.Timezone is UTC by default, and
	// io.FileSize uses time.Local (metadata.go nanosecondsInYear)
	os.Setenv("TZ", "UTC")
	time.Local = time.UTC
	utils.InstanceConfig.Timezone = time.UTC
	log.SetLevel(log.FATAL)
}

var seq int64

// one transaction pipe for the whole process: NewTransactionPipe allocates two channels of 1M entries
// (16 MB); the pipe is drained by every synchronous flush, so sharing it between the successive
// instances of one harness run does not couple the cases.
var pipe *executor.TransactionPipe

// likewise the trigger dispatcher (a 1M-entry channel and a goroutine); no trigger matchers are installed
var tpd *executor.TriggerPluginDispatcher

// New creates an empty instance under a fresh temporary directory (prefers /dev/shm).
func New() (*Inst, error) {
	base := os.Getenv("VERIF_TMP")
	if base == "" {
		if st, err := os.Stat("/dev/shm"); err == nil && st.IsDir() {
			base = "/dev/shm"
		}
	}
	root, err := os.MkdirTemp(base, "vfx")
	if err != nil {
		return nil, err
	}
	in := &Inst{Root: root}
	utils.InstanceConfig.Timezone = time.UTC
	utils.InstanceConfig.RootDirectory = root
	in.Cat, err = catalog.NewDirectory(root)
	if err != nil {
		if _, ok := err.(catalog.ErrCategoryFileNotFound); !ok {
			os.RemoveAll(root)
			return nil, fmt.Errorf("catalog: %w", err)
		}
	}
	if tpd == nil {
		tpd = executor.StartNewTriggerPluginDispatcher(nil)
	}
	seq++
	if pipe == nil {
		pipe = executor.NewTransactionPipe()
	}
	in.WAL, err = executor.NewWALFile(root, time.Now().UnixNano()+seq, nil, false, &in.wg, tpd, pipe)
	if err != nil {
		os.RemoveAll(root)
		return nil, fmt.Errorf("wal: %w", err)
	}
	executor.NewInstanceSetup(in.Cat, in.WAL)
	in.W, err = executor.NewWriter(in.Cat, in.WAL)
	if err != nil {
		os.RemoveAll(root)
		return nil, err
	}
	in.Q = frontend.NewQueryService(in.Cat)
	return in, nil
}

func (in *Inst) Close() {
	if in.WAL != nil && in.WAL.FilePtr != nil {
		in.WAL.FilePtr.Close()
	}
	os.RemoveAll(in.Root)
}

// Create makes an empty bucket (year file of `year`) with the given schema (dsv includes Epoch first).
func (in *Inst) Create(key string, dsv []io.DataShape, rt io.EnumRecordType, year int16) error {
	tbk := io.NewTimeBucketKey(key)
	tf, err := tbk.GetTimeFrame()
	if err != nil {
		return err
	}
	tbi := io.NewTimeBucketInfo(*tf, tbk.GetPathToYearFiles(in.Root), "verif", year, dsv, rt)
	return in.Cat.AddTimeBucket(tbk, tbi)
}

// ---- schema / column-series helpers (row payload = concatenated little-endian column values) ----

type Col struct {
	Name string `json:"name"`
	Type string `json:"type"`
}

func TypeOf(name string) io.EnumElementType {
	switch name {
	case "float32":
		return io.FLOAT32
	case "float64":
		return io.FLOAT64
	case "int16":
		return io.INT16
	case "int32":
		return io.INT32
	case "int64":
		return io.INT64
	case "uint8":
		return io.UINT8
	case "uint16":
		return io.UINT16
	case "uint32":
		return io.UINT32
	case "uint64":
		return io.UINT64
	case "string16":
		return io.STRING16
	case "bool":
		return io.BOOL
	case "byte":
		return io.BYTE
	}
	return io.NONE
}

// Shapes returns the data shapes with Epoch first.
func Shapes(cols []Col) []io.DataShape {
	dsv := []io.DataShape{{Name: "Epoch", Type: io.INT64}}
	for _, c := range cols {
		dsv = append(dsv, io.DataShape{Name: c.Name, Type: TypeOf(c.Type)})
	}
	return dsv
}

func PayloadLen(cols []Col) int {
	n := 0
	for _, c := range cols {
		n += mk.SizeOf(c.Type)
	}
	return n
}

// NormalizePayload makes a row payload canonical (bool columns hold 0/1).
func NormalizePayload(cols []Col, p []byte) {
	off := 0
	for _, c := range cols {
		if c.Type == "bool" {
			p[off] &= 1
		}
		off += mk.SizeOf(c.Type)
	}
}

// BuildCS builds a column series Epoch + cols from row-major payloads.
func BuildCS(cols []Col, epochs []int64, payloads [][]byte) (*io.ColumnSeries, error) {
	cs := io.NewColumnSeries()
	cs.AddColumn("Epoch", append([]int64{}, epochs...))
	off := 0
	for _, c := range cols {
		sz := mk.SizeOf(c.Type)
		raw := make([]byte, 0, sz*len(payloads))
		for _, p := range payloads {
			if len(p) < off+sz {
				return nil, fmt.Errorf("payload too short")
			}
			raw = append(raw, p[off:off+sz]...)
		}
		col, err := mk.Col(c.Type, raw)
		if err != nil {
			return nil, err
		}
		cs.AddColumn(c.Name, col)
		off += sz
	}
	return cs, nil
}

// Rows projects a column series to (epochs, row-major payloads of all non-Epoch columns in the
// series' own column order, column names incl. Epoch).
func Rows(cs *io.ColumnSeries) (epochs []int64, payloads [][]byte, names []string, types []int) {
	names = cs.GetColumnNames()
	ep, _ := cs.GetColumn("Epoch").([]int64)
	epochs = append([]int64{}, ep...)
	n := len(epochs)
	payloads = make([][]byte, n)
	for _, name := range names {
		col := cs.GetColumn(name)
		types = append(types, int(io.GetElementType(col)))
		if name == "Epoch" {
			continue
		}
		raw := mk.Raw(col)
		if n == 0 {
			continue
		}
		sz := len(raw) / n
		for i := 0; i < n; i++ {
			payloads[i] = append(payloads[i], raw[i*sz:(i+1)*sz]...)
		}
	}
	return
}
