// Package stq ("store/query") wires a real marketstore instance in a temporary root from exported
// constructors, writes column series through Writer.WriteCSM, runs QueryService.ExecuteQuery, and
// reads a bucket's year files back RAW into the file-state form the Coq models of C11 / C09 take as
// input (occupied slots of the fixed data area; for variable-length buckets the indirect triples and
// the decompressed records with the times the real GetTimeFromTicks decodes).
package stq

import (
	"encoding/binary"
	"fmt"
	"os"
	"path/filepath"
	"sort"
	"strconv"
	"strings"
	"sync"
	"time"

	"github.com/klauspost/compress/snappy"

	"github.com/alpacahq/marketstore/v4/catalog"
	"github.com/alpacahq/marketstore/v4/executor"
	"github.com/alpacahq/marketstore/v4/frontend"
	"github.com/alpacahq/marketstore/v4/utils"
	"github.com/alpacahq/marketstore/v4/utils/io"
	"github.com/alpacahq/marketstore/v4/utils/log"

	"verifharness/internal/mk"
)

type Inst struct {
	Root string
	Cat  *catalog.Directory
	WAL  *executor.WALFileType
	W    *executor.Writer
	Q    *frontend.QueryService
	wg   sync.WaitGroup
}

func init() {
	// the harness runs in UTC: InstanceConfig.Timezone is UTC by default and io.FileSize uses time.Local
	os.Setenv("TZ", "UTC")
	time.Local = time.UTC
	utils.InstanceConfig.Timezone = time.UTC
	log.SetLevel(log.FATAL)
}

var seq int64

func tmpBase() string {
	base := os.Getenv("VERIF_TMP")
	if base == "" {
		base = os.TempDir()
		if st, err := os.Stat("/dev/shm"); err == nil && st.IsDir() {
			base = "/dev/shm"
		}
	}
	return base
}

// sweep removes the roots left behind by earlier harness processes (a shared instance lives until the
// process ends; Go has no exit hook): directories vsq-<pid>-* whose process is gone.
func sweep(base string) {
	ents, err := os.ReadDir(base)
	if err != nil {
		return
	}
	for _, e := range ents {
		parts := strings.Split(e.Name(), "-")
		if len(parts) < 3 || parts[0] != "vsq" {
			continue
		}
		pid, err := strconv.Atoi(parts[1])
		if err != nil || pid == os.Getpid() {
			continue
		}
		if _, err := os.Stat(fmt.Sprintf("/proc/%d", pid)); os.IsNotExist(err) {
			os.RemoveAll(filepath.Join(base, e.Name()))
		}
	}
}

var (
	shared     *Inst
	sharedUses int
)

// Acquire returns a live instance shared by up to 100 consecutive cases and a symbol name unique in it
// (building an instance allocates three 10^6-deep channels, about 0.3 s; cases use disjoint buckets).
func Acquire() (*Inst, string, error) {
	if shared == nil || sharedUses >= 100 {
		if shared != nil {
			shared.Close()
		}
		var err error
		if shared, err = New(); err != nil {
			shared = nil
			return nil, "", err
		}
		sharedUses = 0
	}
	sharedUses++
	return shared, fmt.Sprintf("S%d", sharedUses), nil
}

func New() (*Inst, error) {
	base := tmpBase()
	sweep(base)
	root, err := os.MkdirTemp(base, fmt.Sprintf("vsq-%d-", os.Getpid()))
	if err != nil {
		return nil, err
	}
	in := &Inst{Root: root}
	utils.InstanceConfig.Timezone = time.UTC
	utils.InstanceConfig.RootDirectory = root
	utils.InstanceConfig.DisableVariableCompression = false
	in.Cat, err = catalog.NewDirectory(root)
	if err != nil {
		if _, ok := err.(catalog.ErrCategoryFileNotFound); !ok {
			os.RemoveAll(root)
			return nil, fmt.Errorf("catalog: %w", err)
		}
	}
	tpd := executor.StartNewTriggerPluginDispatcher(nil)
	seq++
	in.WAL, err = executor.NewWALFile(root, time.Now().UnixNano()+seq, nil, false, &in.wg, tpd, executor.NewTransactionPipe())
	if err != nil {
		os.RemoveAll(root)
		return nil, fmt.Errorf("wal: %w", err)
	}
	executor.NewInstanceSetup(in.Cat, in.WAL)
	in.W, err = executor.NewWriter(in.Cat, in.WAL)
	if err != nil {
		os.RemoveAll(root)
		return nil, err
	}
	in.Q = frontend.NewQueryService(in.Cat)
	return in, nil
}

// Close stops the trigger dispatcher goroutine (WALFileType.Shutdown: nothing is queued, no SyncWAL
// goroutine runs), so the instance's 1e6-deep channels become garbage, and removes the root.
func (in *Inst) Close() {
	if in.WAL != nil {
		in.WAL.Shutdown()
		if in.WAL.FilePtr != nil {
			in.WAL.FilePtr.Close()
		}
	}
	os.RemoveAll(in.Root)
}

// Row is one written record: time, and the payload = the concatenated little-endian column values.
type Row struct {
	Sec int64  `json:"sec"`
	Ns  int32  `json:"ns"`
	Pay []byte `json:"pay"`
}

func sizeSum(types []string) int {
	n := 0
	for _, t := range types {
		n += mk.SizeOf(t)
	}
	return n
}

// Write sends one WriteCSM request: rows to bucket key; columns c0,c1,... of the given types.
// Returns code 0 ok / 1 error / 2 panic.
func (in *Inst) Write(key string, types []string, variable bool, rows []Row) (code int, msg string) {
	defer func() {
		if p := recover(); p != nil {
			code, msg = 2, fmt.Sprint(p)
		}
	}()
	cs := io.NewColumnSeries()
	ep := make([]int64, len(rows))
	ns := make([]int32, len(rows))
	for i, r := range rows {
		ep[i], ns[i] = r.Sec, r.Ns
	}
	cs.AddColumn("Epoch", ep)
	off := 0
	for j, t := range types {
		sz := mk.SizeOf(t)
		raw := make([]byte, 0, sz*len(rows))
		for _, r := range rows {
			raw = append(raw, r.Pay[off:off+sz]...)
		}
		col, err := mk.Col(t, raw)
		if err != nil {
			return 1, err.Error()
		}
		cs.AddColumn(fmt.Sprintf("c%d", j), col)
		off += sz
	}
	if variable {
		cs.AddColumn("Nanoseconds", ns)
	}
	csm := io.NewColumnSeriesMap()
	csm.AddColumnSeries(*io.NewTimeBucketKey(key), cs)
	if err := in.W.WriteCSM(csm, variable); err != nil {
		return 1, err.Error()
	}
	return 0, ""
}

// Query runs ExecuteQuery(key, start, end, no limit, all columns). code 0 ok / 1 error / 2 panic.
func (in *Inst) Query(key string, start, end time.Time) (code int, cs *io.ColumnSeries, msg string) {
	defer func() {
		if p := recover(); p != nil {
			code, cs, msg = 2, nil, fmt.Sprint(p)
		}
	}()
	tbk := io.NewTimeBucketKey(key)
	csm, err := in.Q.ExecuteQuery(tbk, start, end, 0, false, nil)
	if err != nil {
		return 1, nil, err.Error()
	}
	for _, c := range csm {
		cs = c
	}
	if cs == nil {
		return 1, nil, "no column series in the result"
	}
	return 0, cs, ""
}

// ---------------------------------------------------------------------------------- file state

type Rec struct {
	Sec   int64  // as RewriteBuffer / GetTimeFromTicks decode it
	Ns    int32
	Pay   []byte // the record without its 4-byte ticks trailer
	Ticks uint32
}
type Slot struct {
	Pos  int64  // 1-based position in the fixed data area
	Idx  int64  // stored index value
	Pay  []byte // fixed: the rest of the slot
	Off  int64  // variable: triple
	Clen int64
	Recs []Rec
	Dlen int // variable: decompressed block length
}
type YFile struct {
	Year  int16
	Size  int64 // actual file size
	Slots []Slot
}
type State struct {
	TfNs      int64
	Var       bool
	RecLen    int64
	Vrl       int64
	Intervals int64
	Names     []string
	Types     []io.EnumElementType
	Files     []YFile
}

// ReadState reads every year file of the bucket raw.
func (in *Inst) ReadState(key string) (*State, error) {
	tbk := io.NewTimeBucketKey(key)
	tbi, err := in.Cat.GetLatestTimeBucketInfoFromKey(tbk)
	if err != nil {
		return nil, err
	}
	st := &State{
		TfNs:      tbi.GetTimeframe().Nanoseconds(),
		Var:       tbi.GetRecordType() == io.VARIABLE,
		RecLen:    int64(tbi.GetRecordLength()),
		Vrl:       int64(tbi.GetVariableRecordLength()),
		Intervals: tbi.GetIntervals(),
		Names:     tbi.GetElementNames(),
		Types:     tbi.GetElementTypes(),
	}
	dir := filepath.Dir(tbi.Path)
	ents, err := os.ReadDir(dir)
	if err != nil {
		return nil, err
	}
	for _, e := range ents {
		n := e.Name()
		if !strings.HasSuffix(n, ".bin") {
			continue
		}
		y, err := strconv.Atoi(strings.TrimSuffix(n, ".bin"))
		if err != nil {
			continue
		}
		yf, err := readYearFile(filepath.Join(dir, n), int16(y), st, tbi.GetTimeframe())
		if err != nil {
			return nil, err
		}
		st.Files = append(st.Files, *yf)
	}
	sort.Slice(st.Files, func(i, j int) bool { return st.Files[i].Year < st.Files[j].Year })
	return st, nil
}

func readYearFile(path string, year int16, st *State, tf time.Duration) (*YFile, error) {
	f, err := os.Open(path)
	if err != nil {
		return nil, err
	}
	defer f.Close()
	fi, err := f.Stat()
	if err != nil {
		return nil, err
	}
	yf := &YFile{Year: year, Size: fi.Size()}
	end := io.FileSize(tf, int(year), int(st.RecLen))
	if end > fi.Size() {
		end = fi.Size()
	}
	rl := st.RecLen
	const seekData, seekHole = 3, 4
	pos := int64(io.Headersize)
	for pos < end {
		d, err := f.Seek(pos, seekData)
		if err != nil || d >= end {
			break
		}
		h, err := f.Seek(d, seekHole)
		if err != nil || h > end {
			h = end
		}
		// align to slot boundaries
		first := (d - io.Headersize) / rl
		lastEx := (h - io.Headersize + rl - 1) / rl
		if io.Headersize+lastEx*rl > end {
			lastEx = (end - io.Headersize) / rl
		}
		buf := make([]byte, (lastEx-first)*rl)
		if _, err := f.ReadAt(buf, io.Headersize+first*rl); err != nil {
			return nil, fmt.Errorf("%s: read slots: %w", path, err)
		}
		for k := int64(0); k < lastEx-first; k++ {
			s := buf[k*rl : (k+1)*rl]
			idx := int64(binary.LittleEndian.Uint64(s))
			if idx == 0 {
				continue
			}
			sl := Slot{Pos: first + k + 1, Idx: idx}
			if !st.Var {
				sl.Pay = append([]byte{}, s[8:]...)
			} else {
				sl.Off = int64(binary.LittleEndian.Uint64(s[8:]))
				sl.Clen = int64(binary.LittleEndian.Uint64(s[16:]))
				blk := make([]byte, sl.Clen)
				if _, err := f.ReadAt(blk, sl.Off); err != nil {
					return nil, fmt.Errorf("%s: read block of slot %d: %w", path, sl.Pos, err)
				}
				raw, err := snappy.Decode(nil, blk)
				if err != nil {
					return nil, fmt.Errorf("%s: snappy block of slot %d: %w", path, sl.Pos, err)
				}
				sl.Dlen = len(raw)
				epoch := io.IndexToTime(idx, tf, year).Unix()
				vrl := int(st.Vrl)
				for j := 0; j+vrl <= len(raw); j += vrl {
					r := raw[j : j+vrl]
					ticks := binary.LittleEndian.Uint32(r[vrl-4:])
					sec, ns := executor.GetTimeFromTicks(uint64(epoch), uint32(st.Intervals), ticks)
					sl.Recs = append(sl.Recs, Rec{Sec: int64(sec), Ns: int32(ns), Pay: append([]byte{}, r[:vrl-4]...), Ticks: ticks})
				}
			}
			yf.Slots = append(yf.Slots, sl)
		}
		pos = io.Headersize + lastEx*rl
		if lastEx == first {
			pos += rl
		}
	}
	return yf, nil
}

// Pack re-serialises a query result into the packed row buffer Reader.Read hands to NewRowSeries:
// fixed:    [Epoch int64 | column values | zero padding up to RecLen-8]
// variable: [Epoch int64 | column values | Nanoseconds int32]
func (st *State) Pack(cs *io.ColumnSeries) ([]byte, error) {
	ep := cs.GetEpoch()
	n := len(ep)
	cols := make([][]byte, len(st.Names))
	sizes := make([]int, len(st.Names))
	sum := 0
	for j, name := range st.Names {
		c := cs.GetColumn(name)
		if c == nil {
			return nil, fmt.Errorf("result lacks column %q", name)
		}
		cols[j] = mk.Raw(c)
		sizes[j] = st.Types[j].Size()
		sum += sizes[j]
		if len(cols[j]) != n*sizes[j] {
			return nil, fmt.Errorf("column %q has %d bytes for %d rows", name, len(cols[j]), n)
		}
	}
	var nanos []int32
	if st.Var {
		var ok bool
		nanos, ok = cs.GetColumn("Nanoseconds").([]int32)
		if !ok || len(nanos) != n {
			return nil, fmt.Errorf("result lacks a Nanoseconds column of %d rows", n)
		}
	}
	var out []byte
	for i := 0; i < n; i++ {
		out = binary.LittleEndian.AppendUint64(out, uint64(ep[i]))
		for j := range cols {
			out = append(out, cols[j][i*sizes[j]:(i+1)*sizes[j]]...)
		}
		if st.Var {
			out = binary.LittleEndian.AppendUint32(out, uint32(nanos[i]))
		} else {
			for k := sum; k < int(st.RecLen)-8; k++ {
				out = append(out, 0)
			}
		}
	}
	return out, nil
}
