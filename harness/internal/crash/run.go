package crash

import (
	"bufio"
	"bytes"
	"encoding/json"
	"fmt"
	"os"
	"os/exec"
	"path/filepath"
	"sort"
	"strconv"
	"strings"
	"time"

	"go.uber.org/zap"

	"github.com/alpacahq/marketstore/v4/catalog"
	"github.com/alpacahq/marketstore/v4/utils/log"
)

func quiet() {
	log.SetLevel(log.FATAL)
	zap.ReplaceGlobals(zap.NewNop())
}

// InstanceID1 / InstanceID2: owning instance ids of the traced run and of the recovering run
// (internal/di uses the start time in ns; any non-zero value behaves the same).
const (
	InstanceID1 = 1111
	InstanceID2 = 2222
	InstanceID3 = 3333
)

// WorkloadMain: child process.  Opens a REAL instance on root and runs the history; after every step
// that returned without error writes "ACK <step>" to the marker file (one write syscall).
func WorkloadMain(args []string) int {
	if len(args) < 3 {
		fmt.Fprintln(os.Stderr, "_workload <root> <history.json> <ackfile> [instanceID]")
		return 2
	}
	quiet()
	root, hf, ackf := args[0], args[1], args[2]
	id := int64(InstanceID1)
	if len(args) > 3 {
		id, _ = strconv.ParseInt(args[3], 10, 64)
	}
	raw, err := os.ReadFile(hf)
	if err != nil {
		fmt.Fprintln(os.Stderr, err)
		return 2
	}
	var h History
	if err := json.Unmarshal(raw, &h); err != nil {
		fmt.Fprintln(os.Stderr, err)
		return 2
	}
	ack, err := os.OpenFile(ackf, os.O_CREATE|os.O_WRONLY|os.O_TRUNC, 0o644)
	if err != nil {
		fmt.Fprintln(os.Stderr, err)
		return 2
	}
	in, err := Open(root, id)
	if err != nil {
		fmt.Fprintln(os.Stderr, "open:", err)
		return 3
	}
	if h.Mode == "bg" {
		return workloadBG(in, &h, ack)
	}
	for i := range h.Steps {
		if h.Steps[i].Kind == "shutdown" {
			// C35: what every bucket's query returns just before the shutdown (reads only)
			pre := QueryAll(in.Cat)
			b, _ := json.Marshal(pre)
			os.WriteFile(ackf+".pre", b, 0o644)
		}
		if err := in.RunStep(&h, &h.Steps[i]); err != nil {
			ack.WriteString(fmt.Sprintf("NAK %d\n", i))
			continue
		}
		if h.Steps[i].Kind == "write" {
			ack.WriteString(fmt.Sprintf("ACK %d\n", i))
		}
	}
	return 0
}

// RecoverMain: child process.  For each directory: real start-up (catalog, new WAL, WAL cleaner) and
// the unrestricted query of every bucket.  Protocol on stdout (one line each, flushed):
//
//	@@B <dir>            start-up begins
//	@@S <json RecoverOut without buckets>   start-up finished (class ok | startup-error | panic)
//	@@Q <bucket key>     query begins
//	@@q <json QBucket>   query finished
//	@@E                  directory done
//
// A query can kill the process (log.Fatal in utils/io/metadata.go initFromFile); the parent then knows
// which bucket did it and re-runs this child with that bucket in the skip list.
func RecoverMain(args []string) int {
	if len(args) < 2 {
		fmt.Fprintln(os.Stderr, "_recover <instanceID> [-skip k1,k2] <dir>...")
		return 2
	}
	quiet()
	id, _ := strconv.ParseInt(args[0], 10, 64)
	args = args[1:]
	skip := map[string]bool{}
	if len(args) >= 2 && args[0] == "-skip" {
		for _, k := range strings.Split(args[1], ",") {
			skip[k] = true
		}
		args = args[2:]
	}
	w := bufio.NewWriter(os.Stdout)
	for di, d := range args {
		fmt.Fprintf(w, "@@B %s\n", d)
		w.Flush()
		out, cat := Startup(d, id)
		b, _ := json.Marshal(out)
		fmt.Fprintf(w, "@@S %s\n", b)
		w.Flush()
		if cat != nil {
			keys := catalog.ListTimeBucketKeyNames(cat)
			sort.Strings(keys)
			for _, k := range keys {
				if di == 0 && skip[k] {
					continue
				}
				fmt.Fprintf(w, "@@Q %s\n", k)
				w.Flush()
				qb := queryOne(cat, k)
				b, _ := json.Marshal(qb)
				fmt.Fprintf(w, "@@q %s\n", b)
				w.Flush()
			}
		}
		fmt.Fprintf(w, "@@E\n")
		w.Flush()
	}
	return 0
}

// Recording of one traced run.
type Recording struct {
	Ops  []Op      `json:"ops"`
	Exit int       `json:"exit"`
	Pre  []QBucket `json:"pre,omitempty"` // query results just before a final shutdown step
	Post []QBucket `json:"post,omitempty"` // background mode: query results right after Shutdown() returned
}

func self() string {
	p, err := os.Executable()
	if err != nil {
		return os.Args[0]
	}
	return p
}

func childEnv() []string {
	env := os.Environ()
	env = append(env, "GOMAXPROCS=2", "GODEBUG=asyncpreemptoff=1")
	return env
}

// Record runs the history against a real instance in a child process under strace (fresh root
// dir/root) and returns the recorded ops.
func Record(h *History, dir string, keep bool) (*Recording, error) {
	if a, err := filepath.Abs(dir); err == nil {
		dir = a
	}
	if err := os.MkdirAll(dir, 0o770); err != nil {
		return nil, err
	}
	root := filepath.Join(dir, "root")
	os.RemoveAll(root)
	if err := os.Mkdir(root, 0o770); err != nil {
		return nil, err
	}
	hb, _ := json.Marshal(h)
	hf := filepath.Join(dir, "history.json")
	if err := os.WriteFile(hf, hb, 0o644); err != nil {
		return nil, err
	}
	ackf := filepath.Join(dir, "acks")
	raw := ""
	if keep {
		raw = filepath.Join(dir, "strace.log")
	}
	ops, code, err := Trace([]string{self(), "_workload", root, hf, ackf}, root, ackf, raw, childEnv())
	if err != nil {
		return nil, err
	}
	rec := &Recording{Ops: ops, Exit: code}
	if b, err := os.ReadFile(ackf + ".pre"); err == nil {
		json.Unmarshal(b, &rec.Pre)
	}
	if b, err := os.ReadFile(ackf + ".post"); err == nil {
		json.Unmarshal(b, &rec.Post)
	}
	return rec, nil
}

// RecoverImages runs the real recovery on each directory, batching directories per child process.
// A child that dies during start-up marks that directory as class "panic"; a child that dies inside
// a query marks that bucket as Fatal and the directory is resumed with the bucket skipped.
func RecoverImages(dirs []string, instanceID int64) []RecoverOut {
	res := make([]RecoverOut, len(dirs))
	i := 0
	var skip []string
	for i < len(dirs) {
		args := []string{"_recover", strconv.FormatInt(instanceID, 10)}
		if len(skip) > 0 {
			args = append(args, "-skip", strings.Join(skip, ","))
		}
		args = append(args, dirs[i:]...)
		cmd := exec.Command(self(), args...)
		cmd.Env = childEnv()
		var out, errb bytes.Buffer
		cmd.Stdout = &out
		cmd.Stderr = &errb
		done := make(chan error, 1)
		go func() { done <- cmd.Run() }()
		var runErr error
		select {
		case runErr = <-done:
		case <-time.After(time.Duration(120+20*len(dirs[i:])) * time.Second):
			cmd.Process.Kill()
			runErr = fmt.Errorf("timeout")
			<-done
		}
		j := i
		started, inQuery := false, ""
		for _, ln := range strings.Split(out.String(), "\n") {
			switch {
			case strings.HasPrefix(ln, "@@B "):
				started, inQuery = false, ""
			case strings.HasPrefix(ln, "@@S "):
				if len(skip) == 0 || j != i {
					var r RecoverOut
					if json.Unmarshal([]byte(ln[4:]), &r) == nil {
						res[j] = r
					} else {
						res[j] = RecoverOut{Class: "panic", Err: "unparsable child output"}
					}
				}
				started = true
			case strings.HasPrefix(ln, "@@Q "):
				inQuery = ln[4:]
			case strings.HasPrefix(ln, "@@q "):
				var qb QBucket
				if json.Unmarshal([]byte(ln[4:]), &qb) == nil {
					res[j].Buckets = append(res[j].Buckets, qb)
				}
				inQuery = ""
			case strings.HasPrefix(ln, "@@E"):
				j++
				started = false
				if j > i {
					skip = nil
				}
			}
		}
		if j == len(dirs) {
			break
		}
		// the child died while working on dirs[j]
		tail := errb.String()
		if len(tail) > 400 {
			tail = tail[len(tail)-400:]
		}
		msg := "child died"
		if runErr != nil {
			msg += ": " + runErr.Error()
		}
		if started && inQuery != "" {
			res[j].Buckets = append(res[j].Buckets, QBucket{Key: inQuery, Fatal: true, Err: msg + " " + tail})
			if j != i {
				skip = nil
			}
			skip = append(skip, inQuery)
			for _, b := range res[j].Buckets {
				if !b.Fatal {
					skip = append(skip, b.Key)
				}
			}
			i = j // resume the same directory, skipping what is known
			continue
		}
		if !started {
			res[j] = RecoverOut{Class: "panic", Err: msg + " " + tail}
		}
		skip = nil
		i = j + 1
	}
	return res
}
